import GoguVerif.Go.Run
import GoguVerif.Kinds.QueueStack
import GoguVerif.Kinds.Heap
import GoguVerif.Kinds.Bst
import GoguVerif.Kinds.BTree
import GoguVerif.Kinds.Trie
import GoguVerif.Kinds.Lru
import GoguVerif.Kinds.Lists
import GoguVerif.Kinds.Cache
import GoguVerif.Kinds.Funcs
import GoguVerif.Kinds.C11
import GoguVerif.Kinds.C12
import GoguVerif.Kinds.C13
import GoguVerif.Kinds.C14
import GoguVerif.Kinds.C15
import GoguVerif.Kinds.C16
import GoguVerif.Kinds.C17
import GoguVerif.Kinds.C20
/-!
# The compiled driver

Reads cases in the line protocol from stdin, replays each on the Lean model (correspondence) and
evaluates the specification monitor on the implementation's answers.  Output, one line per finding:

    DIFF <case#> <line#> <kind> | <protocol line> | model: <answer>
    SPEC <case#> <line#> <kind> <clause> | <protocol line>
    KNOWN <case#> <line#> <kind> <signature>
    BAD <case#> <line#> <why>
    N <hash>                       (one per non-trivial case; the orchestrator counts distinct ones)
    TAG <tag> <count>              (at end)
    DONE cases=<n> lines=<m>
-/
open GoguVerif

def kindOfBase (name : String) : Option Kind :=
  match name with
  | "queue" => some Kinds.Q.queueKind
  | "stack" => some Kinds.S.stackKind
  | "heap" => some Kinds.Heap.kind
  | "bst" => some Kinds.Bst.kind
  | "btree" => some Kinds.BTree.kind
  | "trie" => some Kinds.Trie.kind
  | "lru" => some Kinds.Lru.kind
  | "c11" => some Kinds.C11.kind
  | "c12" => some Kinds.C12.kind
  | "c13" => some Kinds.C13.kind
  | "c14" => some Kinds.C14.kind
  | "c15" => some Kinds.C15.kind
  | "c16" => some Kinds.C16.kind
  | "memo" => some Kinds.C17.kind
  | "memogate" => some Kinds.C17.gateKind
  | "debounce" => some Kinds.C20.debounceKind
  | "delay" => some Kinds.C20.delayKind
  | "throttle" => some Kinds.C20.throttleKind
  | "throttlerace" => some Kinds.C20.throttleRaceKind
  | "throttlelate" => some Kinds.C20.throttleLateKind
  | "debouncelate" => some Kinds.C20.debounceLateKind
  | "after" => some Kinds.Funcs.afterKind
  | "before" => some Kinds.Funcs.beforeKind
  | "once" => some Kinds.Funcs.onceKind
  | "oncelive" => some Kinds.Funcs.onceLiveKind
  | "retry" => some Kinds.Funcs.retryKind
  | "cache" => some Kinds.Cache.kind
  | "slist" => some (Kinds.Lists.kindFor false)
  | "dlist" => some (Kinds.Lists.kindFor true)
  | "lqueue" => some Kinds.Q.lqueueKind
  | "lstack" => some Kinds.S.lstackKind
  | _ => none

/-! ## C02: linearizability search with the sequential monitors as oracle -/

structure LinCall where
  inv : Int
  ret : Int
  line : Line
deriving Inhabited

structure LinSt where
  innerName : String
  params : List Val
  calls : Array LinCall := #[]
  deadlock : Bool := false

/-- Depth-first search for a linearization: an order of all calls that respects real-time precedence
(`a.ret < b.inv` ⇒ a before b) and that the sequential specification monitor of the type accepts
(known-finding deviations of the sequential behaviour are accepted too: they are C03–C09's business). -/
partial def linSearch (k : Kind) (calls : Array LinCall) (st : k.σ) (placed : List Nat) : Bool :=
  if placed.length == calls.size then true
  else
    (List.range calls.size).any fun i =>
      if placed.contains i then false
      else
        let c := calls[i]!
        -- eligible: no unplaced call returned before c was invoked
        let blocked := (List.range calls.size).any fun j =>
          j != i && !(placed.contains j) && (calls[j]!).ret < c.inv
        if blocked then false
        else
          let r := k.step st c.line
          if r.spec.isSome || r.bad.isSome then false
          else linSearch k calls r.st (i :: placed)

def linKindWith (kindOf : String → Option Kind) : Kind where
  σ := LinSt
  init := fun ps => match ps with
    | .atom name :: rest => some { innerName := name, params := rest }
    | _ => none
  step := fun st l =>
    match l.op, l.args with
    | "h", _ :: .int inv :: .int ret :: .atom op :: args =>
      { st := { st with calls := st.calls.push { inv := inv, ret := ret, line := { op := op, args := args, res := l.res } } } }
    | "deadlock", _ => { st := { st with deadlock := true }, spec := some "no-deadlock", tags := ["deadlock"] }
    | "check", _ =>
      match kindOf st.innerName with
      | none => { st := st, bad := some s!"lin: unknown inner kind {st.innerName}" }
      | some k =>
        match k.init st.params with
        | none => { st := st, bad := some "lin: bad inner params" }
        | some s0 =>
          let concurrent := st.calls.any fun a => st.calls.any fun b => a.inv < b.ret && b.inv < a.ret && a.inv != b.inv
          if linSearch k st.calls s0 [] then { st := st, tags := [st.innerName], nontrivial := concurrent }
          else { st := st, tags := [st.innerName], spec := some s!"linearizable:{st.innerName}" }
    | _, _ => { st := st, bad := some s!"lin: bad line {l.op}" }

structure DAcc where
  cases : Nat := 0
  lines : Nat := 0
  tags : List (String × Nat) := []
  traces : List (String × Nat) := []   -- failing cases printed in full so far, per clause (capped)
  samples : Nat := 0

def caseHeader (kind : String) (params : List Val) : String :=
  " ".intercalate ("CASE" :: kind :: params.map toString)

def printTrace (out : IO.FS.Stream) (n : Nat) (kind : String) (params : List Val)
    (lines : Array Line) : IO Unit := do
  out.putStrLn s!"BEGINTRACE {n}"
  out.putStrLn (caseHeader kind params)
  for l in lines do
    out.putStrLn l.render
  out.putStrLn "END"
  out.putStrLn "ENDTRACE"

def bumpTags (acc : List (String × Nat)) (ts : List String) : List (String × Nat) :=
  ts.foldl (fun acc t =>
    if acc.any (·.1 == t) then acc.map (fun p => if p.1 == t then (p.1, p.2 + 1) else p)
    else (t, 1) :: acc) acc

def kindOf (name : String) : Option Kind :=
  if name == "lin" then some (linKindWith kindOfBase) else kindOfBase name

def hashCase (kind : String) (params : List Val) (lines : Array Line) : UInt64 :=
  let h0 := mixHash (hash kind) (hash (params.map toString))
  lines.foldl (fun h l => mixHash h (hash (l.op :: l.args.map toString))) h0

def processCase (out : IO.FS.Stream) (acc : DAcc) (kind : String) (params : List Val)
    (lines : Array Line) : IO DAcc := do
  let n := acc.cases
  match kindOf kind with
  | none =>
    out.putStrLn s!"BAD {n} 0 unknown kind {kind}"
    return { acc with cases := n + 1 }
  | some k =>
    let rep := k.run params lines
    match rep.bad with
    | some (i, why) => out.putStrLn s!"BAD {n} {i} {why}"
    | none => pure ()
    match rep.diff with
    | some (i, m) => out.putStrLn s!"DIFF {n} {i} {kind} | {(lines[i]!).render} | model: {m}"
    | none => pure ()
    match rep.spec with
    | some (i, c) => out.putStrLn s!"SPEC {n} {i} {kind} {c} | {(lines[i]!).render}"
    | none => pure ()
    for (i, sig) in rep.known do
      out.putStrLn s!"KNOWN {n} {i} {kind} {sig}"
    if rep.nontrivial then
      out.putStrLn s!"N {hashCase kind params lines}"
    let keys : List String :=
      (match rep.spec with | some (_, c) => [c] | none => []) ++
      (match rep.diff with | some _ => ["DIFF:" ++ kind] | none => []) ++ rep.known.map (·.2)
    let mut traces := acc.traces
    let fresh := keys.filter (fun k => !(traces.any (fun p => p.1 == k && p.2 ≥ 3)))
    if !fresh.isEmpty then
      printTrace out n kind params lines
      traces := bumpTags traces fresh
    let mut samples := acc.samples
    if rep.nontrivial && samples < 2 && lines.size ≤ 80 then
      let body := "; ".intercalate (lines.toList.map Line.render)
      out.putStrLn s!"SAMPLE {caseHeader kind params}: {body}"
      samples := samples + 1
    return { cases := n + 1, lines := acc.lines + lines.size, tags := bumpTags acc.tags rep.tags,
             traces := traces, samples := samples }

partial def loop (inp out : IO.FS.Stream) (acc : DAcc) (cur : Option (String × List Val))
    (lines : Array Line) : IO DAcc := do
  let raw ← inp.getLine
  if raw.isEmpty then
    match cur with
    | some (k, p) => processCase out acc k p lines
    | none => return acc
  else
    let s := raw.trimAscii.toString
    if s.isEmpty || s.startsWith "#" then loop inp out acc cur lines
    else if s.startsWith "CASE " then
      let acc ← match cur with
        | some (k, p) => processCase out acc k p lines
        | none => pure acc
      let toks := (s.splitOn " ").filter (· ≠ "")
      match toks with
      | _ :: k :: ps => loop inp out acc (some (k, ps.map Val.parse)) #[]
      | _ => loop inp out acc none #[]
    else if s == "END" then
      let acc ← match cur with
        | some (k, p) => processCase out acc k p lines
        | none => pure acc
      loop inp out acc none #[]
    else
      loop inp out acc cur (lines.push (Line.parse s))

def main : IO Unit := do
  let inp ← IO.getStdin
  let out ← IO.getStdout
  let acc ← loop inp out {} none #[]
  for (t, c) in acc.tags do
    out.putStrLn s!"TAG {t} {c}"
  out.putStrLn s!"DONE cases={acc.cases} lines={acc.lines}"
