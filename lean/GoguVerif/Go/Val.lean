/-!
# Wire values of the line protocol

One protocol line is `op arg … => res …`.  Every token is a `Val`:
* an integer `-3`,
* a list `[1,2,[3,4]]` (no spaces inside),
* anything else is an atom (`T`, `F`, `ok`, `err`, `panic`, `none`, hex byte strings `x6162`, …).

Core Lean only (this file is linked into the compiled driver).
-/
namespace GoguVerif

inductive Val where
  | int  : Int → Val
  | atom : String → Val
  | list : List Val → Val
deriving Inhabited, BEq, Repr

namespace Val

partial def toStr : Val → String
  | int i => toString i
  | atom s => s
  | list l => "[" ++ ",".intercalate (l.map toStr) ++ "]"

instance : ToString Val := ⟨toStr⟩

/-- Split the inside of a bracketed list at top-level commas. -/
def splitTop (cs : List Char) : List (List Char) :=
  let rec go (cs : List Char) (depth : Nat) (cur : List Char) (acc : List (List Char)) :
      List (List Char) :=
    match cs with
    | [] => (cur.reverse :: acc).reverse
    | c :: rest =>
      if c == '[' then go rest (depth + 1) (c :: cur) acc
      else if c == ']' then go rest (depth - 1) (c :: cur) acc
      else if c == ',' && depth == 0 then go rest depth [] (cur.reverse :: acc)
      else go rest depth (c :: cur) acc
  go cs 0 [] []

partial def parseChars (cs : List Char) : Val :=
  match cs with
  | '[' :: rest =>
    let inner := rest.dropLast
    if inner.isEmpty then list []
    else list ((splitTop inner).map parseChars)
  | _ =>
    let s := String.ofList cs
    match s.toInt? with
    | some i => int i
    | none => atom s

def parse (s : String) : Val := parseChars s.toList

def int? : Val → Option Int
  | int i => some i
  | _ => none

def atom? : Val → Option String
  | atom s => some s
  | _ => none

def list? : Val → Option (List Val)
  | list l => some l
  | _ => none

def ints? : Val → Option (List Int)
  | list l => l.mapM int?
  | _ => none

def bool? : Val → Option Bool
  | atom "T" => some true
  | atom "F" => some false
  | _ => none

def ofBool (b : Bool) : Val := atom (if b then "T" else "F")
def ofInts (l : List Int) : Val := list (l.map int)
def ofNat (n : Nat) : Val := int n

def hexDigit? (c : Char) : Option Nat :=
  if '0' ≤ c ∧ c ≤ '9' then some (c.toNat - '0'.toNat)
  else if 'a' ≤ c ∧ c ≤ 'f' then some (c.toNat - 'a'.toNat + 10)
  else none

def hexBytes : List Char → Option (List UInt8)
  | [] => some []
  | a :: b :: rest => do
    let x ← hexDigit? a
    let y ← hexDigit? b
    let r ← hexBytes rest
    pure (UInt8.ofNat (x * 16 + y) :: r)
  | _ => none

/-- byte strings travel as `x` followed by hex digits (`x` alone = empty string) -/
def bytes? : Val → Option (List UInt8)
  | atom s => match s.toList with
    | 'x' :: rest => hexBytes rest
    | _ => none
  | _ => none

def hexChar (n : Nat) : Char :=
  if n < 10 then Char.ofNat ('0'.toNat + n) else Char.ofNat ('a'.toNat + n - 10)

def ofBytes (b : List UInt8) : Val :=
  atom (String.ofList ('x' :: b.flatMap (fun u => [hexChar (u.toNat / 16), hexChar (u.toNat % 16)])))

end Val

/-- One protocol line: operation, arguments, and what the implementation answered. -/
structure Line where
  op   : String
  args : List Val
  res  : List Val
deriving Inhabited, Repr

def Line.parse (s : String) : Line :=
  let toks := (s.splitOn " ").filter (· ≠ "")
  let (l, r) := toks.span (· ≠ "=>")
  match l with
  | [] => { op := "", args := [], res := [] }
  | op :: args => { op := op, args := args.map Val.parse, res := (r.drop 1).map Val.parse }

def Line.render (l : Line) : String :=
  " ".intercalate (l.op :: l.args.map toString) ++ " => " ++ " ".intercalate (l.res.map toString)

/-- What a kind's runner reports about one case. -/
structure Report where
  /-- first correspondence difference: (line index, model answer) -/
  diff  : Option (Nat × String) := none
  /-- first monitor failure: (line index, clause) -/
  spec  : Option (Nat × String) := none
  /-- known-finding signatures seen (line index, signature) -/
  known : List (Nat × String) := []
  /-- malformed line (line index, why) — a harness/driver bug, never a verdict about the code -/
  bad   : Option (Nat × String) := none
  /-- the case met the property's non-triviality rule -/
  nontrivial : Bool := false
  /-- model branches / situations reached (for the input-distribution part of the evidence) -/
  tags  : List String := []
deriving Inhabited

end GoguVerif
