import GoguVerif.Go.Val
/-!
# Generic case runner of the driver

A *kind* gives a state `σ` (model state × spec state × whatever the monitor needs) and a `step`
that, for one protocol line, returns
* the model's answer (compared with the implementation's answer ⇒ correspondence),
* an optional violated spec clause (the monitor, evaluated on the implementation's answer),
* an optional known-finding signature,
* tags for the evidence.
-/
namespace GoguVerif

structure Step (σ : Type) where
  st : σ
  /-- `some m`: the model's answer, to be compared with the implementation's; `none`: not compared -/
  model : Option (List Val) := none
  spec  : Option String := none
  known : Option String := none
  bad   : Option String := none
  tags  : List String := []
  nontrivial : Bool := false

def addTags (old new : List String) : List String :=
  new.foldl (fun acc t => if acc.contains t then acc else t :: acc) old

def renderVals (l : List Val) : String := " ".intercalate (l.map toString)

def runLines {σ : Type} (step : σ → Line → Step σ) (init : σ) (lines : Array Line) : Report := Id.run do
  let mut st := init
  let mut rep : Report := {}
  let mut i := 0
  for ln in lines do
    -- `fault k op …`: a call whose callback panicked (recovered by the harness) — a failed call has no
    -- effect the model or the specification could see, so the line is skipped and only the FOLLOWING
    -- lines are judged; it must have come back, though.  `decoy n`: other instances of the same type were
    -- operated — instances share nothing, skipped likewise.
    if ln.op == "fault" || ln.op == "decoy" then
      if ln.res == [.atom "hang"] && rep.spec.isNone then
        rep := { rep with spec := some (i, s!"terminates:{ln.op}") }
      rep := { rep with tags := addTags rep.tags [ln.op] }
      i := i + 1
      continue
    -- `op@variant`: the same operation under another type instantiation or placement of its arguments in memory
    -- (`range@named`: a named int type, `wrap@named`: a named string type with a String method, …): the contract,
    -- the model and the monitor are those of `op` — the harness translates arguments and answers
    let ln := match ln.op.splitOn "@" with
      | [base, _] => { ln with op := base }
      | _ => ln
    let r := step st ln
    st := r.st
    match r.bad with
    | some why => if rep.bad.isNone then rep := { rep with bad := some (i, why) }
    | none => pure ()
    match r.model with
    | some m =>
      if rep.diff.isNone && !(m == ln.res) then
        rep := { rep with diff := some (i, renderVals m) }
    | none => pure ()
    match r.spec with
    | some c => if rep.spec.isNone then rep := { rep with spec := some (i, c) }
    | none => pure ()
    match r.known with
    | some k => if !(rep.known.any (·.2 == k)) then rep := { rep with known := rep.known ++ [(i, k)] }
    | none => pure ()
    rep := { rep with tags := addTags rep.tags r.tags, nontrivial := rep.nontrivial || r.nontrivial }
    i := i + 1
  return rep

/-- Monitor step for a relational (non-deterministic) specification: `cands` are the abstract states
still compatible with everything the implementation answered so far; `alts s` lists the admitted
(next state, rendered answer) pairs.  Returns the surviving candidates (empty = violation). -/
def ndStep {τ : Type} [BEq τ] (cands : List τ) (alts : τ → List (τ × List Val)) (res : List Val) : List τ :=
  let next := cands.flatMap (fun s => (alts s).filterMap (fun p => if p.2 == res then some p.1 else none))
  next.foldl (fun acc s => if acc.contains s then acc else acc ++ [s]) []

/-- A registered kind: how to build the initial state from the `CASE` parameters and how to step. -/
structure Kind where
  σ : Type
  init : List Val → Option σ
  step : σ → Line → Step σ

def Kind.run (k : Kind) (params : List Val) (lines : Array Line) : Report :=
  match k.init params with
  | none => { bad := some (0, "bad case parameters") }
  | some s => runLines k.step s lines

end GoguVerif
