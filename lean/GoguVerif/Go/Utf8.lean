/-!
# Go's UTF-8 decoding and encoding on byte lists (trusted transcription)

Strings are byte lists.  Runes are natural numbers.  This file transcribes

* `utf8.DecodeRuneInString` (= the decoding done by `for i, r := range s` and `[]rune(s)`):
  an invalid or truncated sequence yields U+FFFD with width 1;
* `utf8.DecodeLastRuneInString`;
* `utf8.AppendRune` (= `string([]rune)`, `strings.Builder.WriteRune`): surrogates and values above
  U+10FFFF are written as U+FFFD.

Core Lean only.  All functions are structurally recursive so that `decide` can evaluate them.
-/
namespace GoguVerif.Go.Utf8

abbrev Str := List UInt8
abbrev Rune := Nat

def runeError : Nat := 0xFFFD

/-- continuation byte `0x80..0xBF` -/
def isCont (c : Nat) : Bool := 0x80 ≤ c && c ≤ 0xBF

/-- `utf8.DecodeRuneInString (b0 :: rest)`: (rune, width), width ∈ 1..4. -/
def decodeRune (b0 : UInt8) (rest : Str) : Rune × Nat :=
  let c0 := b0.toNat
  if c0 < 0x80 then (c0, 1)                       -- ASCII
  else if c0 < 0xC2 then (runeError, 1)           -- continuation byte or overlong lead: invalid
  else if c0 < 0xE0 then                          -- two bytes, second in 80..BF
    match rest with
    | b1 :: _ =>
      let c1 := b1.toNat
      if isCont c1 then ((c0 % 32) * 64 + c1 % 64, 2) else (runeError, 1)
    | [] => (runeError, 1)
  else if c0 < 0xF0 then                          -- three bytes; E0: second in A0..BF, ED: 80..9F
    match rest with
    | b1 :: b2 :: _ =>
      let c1 := b1.toNat
      let c2 := b2.toNat
      let lo := if c0 = 0xE0 then 0xA0 else 0x80
      let hi := if c0 = 0xED then 0x9F else 0xBF
      if lo ≤ c1 && c1 ≤ hi && isCont c2 then ((c0 % 16) * 4096 + (c1 % 64) * 64 + c2 % 64, 3)
      else (runeError, 1)
    | _ => (runeError, 1)
  else if c0 < 0xF5 then                          -- four bytes; F0: second in 90..BF, F4: 80..8F
    match rest with
    | b1 :: b2 :: b3 :: _ =>
      let c1 := b1.toNat
      let c2 := b2.toNat
      let c3 := b3.toNat
      let lo := if c0 = 0xF0 then 0x90 else 0x80
      let hi := if c0 = 0xF4 then 0x8F else 0xBF
      if lo ≤ c1 && c1 ≤ hi && isCont c2 && isCont c3 then
        ((c0 % 8) * 262144 + (c1 % 64) * 4096 + (c2 % 64) * 64 + c3 % 64, 4)
      else (runeError, 1)
    | _ => (runeError, 1)
  else (runeError, 1)

/-- `for i, r := range s`: the (byte index, rune) pairs.  `skip` counts the remaining bytes of the
rune decoded last. -/
def rangeAux : Nat → Nat → Str → List (Nat × Rune)
  | _, _, [] => []
  | i, skip + 1, _ :: rest => rangeAux (i + 1) skip rest
  | i, 0, b0 :: rest =>
    let d := decodeRune b0 rest
    (i, d.1) :: rangeAux (i + 1) (d.2 - 1) rest

def rangeStr (s : Str) : List (Nat × Rune) := rangeAux 0 0 s

/-- `[]rune(s)` -/
def runes (s : Str) : List Rune := (rangeStr s).map (·.2)

/-- `utf8.AppendRune(nil, r)` -/
def encodeRune (r : Nat) : Str :=
  if r < 0x80 then [r.toUInt8]
  else if r < 0x800 then [(0xC0 + r / 64).toUInt8, (0x80 + r % 64).toUInt8]
  else if r > 0x10FFFF || (0xD800 ≤ r && r ≤ 0xDFFF) then [0xEF, 0xBF, 0xBD]
  else if r < 0x10000 then
    [(0xE0 + r / 4096).toUInt8, (0x80 + r / 64 % 64).toUInt8, (0x80 + r % 64).toUInt8]
  else
    [(0xF0 + r / 262144).toUInt8, (0x80 + r / 4096 % 64).toUInt8, (0x80 + r / 64 % 64).toUInt8,
     (0x80 + r % 64).toUInt8]

/-- `string(rs)` for `rs []rune` -/
def encodeAll (rs : List Rune) : Str := rs.flatMap encodeRune

/-- `utf8.RuneStart` -/
def runeStart (b : UInt8) : Bool := !(isCont b.toNat)

/-- the `start` index computed by the backward scan of `utf8.DecodeLastRuneInString` for a string whose
last byte is not ASCII: the nearest of the three preceding bytes that is not a continuation byte; if
there is none, `len-5` (or 0). -/
def lastRuneStart (s : Str) : Nat :=
  let e := s.length
  match s.reverse with
  | _ :: b1 :: b2 :: b3 :: tl =>
    if runeStart b1 then e - 2 else if runeStart b2 then e - 3 else if runeStart b3 then e - 4
    else (match tl with | [] => 0 | _ :: _ => e - 5)
  | [_, b1, b2] => if runeStart b1 then e - 2 else if runeStart b2 then e - 3 else 0
  | [_, b1] => if runeStart b1 then e - 2 else 0
  | _ => 0

/-- `utf8.DecodeLastRuneInString s` for non-empty `s` whose last byte is `last`. -/
def decodeLastRune (s : Str) (last : UInt8) : Rune × Nat :=
  if last.toNat < 0x80 then (last.toNat, 1)
  else
    let start := lastRuneStart s
    match s.drop start with
    | [] => (runeError, 1)
    | b0 :: rest =>
      let d := decodeRune b0 rest
      if start + d.2 ≠ s.length then (runeError, 1) else d

end GoguVerif.Go.Utf8
