/-!
# C06 — abstract LIFO stack (the specification)

The state is the sequence of held elements, bottom first (most recently pushed last).
-/
namespace GoguVerif.Spec.C06

inductive Op (α : Type) where
  | push (x : α)
  | pop
  | peek
  | search (x : α)
  | size
deriving Repr, DecidableEq

inductive Out (α : Type) where
  | unit
  | val (v : α)
  | bool (b : Bool)
  | int (n : Int)
deriving Repr, DecidableEq

variable {α : Type} [Inhabited α] [DecidableEq α]

def step (s : List α) : Op α → List α × Out α
  | .push x => (s ++ [x], .unit)
  | .pop => match s.getLast? with
    | none => (s, .val default)               -- zero value, changes nothing
    | some x => (s.dropLast, .val x)
  | .peek => (s, .val (s.getLast?.getD default))
  | .search x => (s, .bool (decide (x ∈ s)))
  | .size => (s, .int s.length)

def run (s : List α) : List (Op α) → List α × List (Out α)
  | [] => (s, [])
  | op :: ops =>
    let (s', o) := step s op
    let (s'', os) := run s' ops
    (s'', o :: os)

def check (s : List α) (op : Op α) (o : Out α) : Bool := decide ((step s op).2 = o)

end GoguVerif.Spec.C06
