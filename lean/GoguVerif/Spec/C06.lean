/-!
# C06 — abstract LIFO stack (the specification)

The state is the sequence of held elements, bottom first (most recently pushed last).
-/
namespace GoguVerif.Spec.C06

inductive Op (α : Type) where
  | push (x : α)
  | pop
  | peek
  | search (x : α)
  | size
deriving Repr, DecidableEq

inductive Out (α : Type) where
  | unit
  | val (v : α)
  | bool (b : Bool)
  | int (n : Int)
deriving Repr, DecidableEq

variable {α : Type} [Inhabited α] [DecidableEq α]

def step (s : List α) : Op α → List α × Out α
  | .push x => (s ++ [x], .unit)
  | .pop => match s.getLast? with
    | none => (s, .val default)               -- zero value, changes nothing
    | some x => (s.dropLast, .val x)
  | .peek => (s, .val (s.getLast?.getD default))
  | .search x => (s, .bool (decide (x ∈ s)))
  | .size => (s, .int s.length)

def run (s : List α) : List (Op α) → List α × List (Out α)
  | [] => (s, [])
  | op :: ops =>
    let (s', o) := step s op
    let (s'', os) := run s' ops
    (s'', o :: os)

def check (s : List α) (op : Op α) (o : Out α) : Bool := decide ((step s op).2 = o)

end GoguVerif.Spec.C06

/-!
## The recorded deviation of the linked stack (known findings F12a / F12b)

`S_patched`: the abstract LIFO with exactly the two listed deviations of `stack.LStack` admitted.
`xs` is the sequence the underlying list holds (never empty), `n` the element counter.
* F12a `lstack.pop-returns-element-beneath`: with ≥ 2 elements held, `Pop` removes the top element
  but returns the one beneath it.
* F12b `lstack.pop-keeps-bottom`: with one element held, `Pop` returns the zero value and the element
  stays visible to `Peek`/`Search` (only the counter goes to 0).
-/
namespace GoguVerif.Spec.C06.Patched

structure St (α : Type) where
  xs : List α
  n : Int
deriving Repr, DecidableEq

variable {α : Type} [Inhabited α] [DecidableEq α]

def ofList (s : List α) : St α := { xs := s, n := s.length }

def step (p : St α) : Op α → St α × Out α
  | .push x => ({ xs := p.xs ++ [x], n := p.n + 1 }, .unit)
  | .pop =>
    let n' := if p.n > 0 then p.n - 1 else p.n
    if p.xs.length ≤ 1 then ({ p with n := n' }, .val default)                       -- F12b
    else ({ xs := p.xs.dropLast, n := n' }, .val (p.xs.dropLast.getLast?.getD default))  -- F12a
  | .peek => (p, .val (p.xs.getLast?.getD default))
  | .search x => (p, .bool (decide (x ∈ p.xs)))
  | .size => (p, .int p.n)

end GoguVerif.Spec.C06.Patched
