import GoguVerif.Go.Utf8
/-!
# C15 — string helpers cut, pad, wrap and re-case without losing or inventing text (specification)

Written from the property statement, not from the code.  Strings are byte lists; "rune" means what Go
means by it (`Go/Utf8.lean`: an invalid byte is the rune U+FFFD of width 1).  `lo`/`up` stand for
Unicode's simple lower/upper case mapping (any functions; the driver supplies the table computed with
package `unicode`).  Every clause has a decidable checker that judges the implementation's own answer.
-/
namespace GoguVerif.Spec.C15
open GoguVerif.Go.Utf8

/-! ## Substr: PHP-style offset/length rules -/

/-- Negative offset/length count from the end; a selection that does not lie inside the string is
empty; a non-negative length reaching past the end is cut at the end. -/
def substrSpec (s : Str) (offset length : Int) : Str :=
  let n : Int := s.length
  let start := if offset < 0 then n + offset else offset
  if start < 0 ∨ start > n then []
  else
    let stop := if length < 0 then n + length else (if start + length > n then n else start + length)
    if stop < start then [] else (s.take stop.toNat).drop start.toNat

/-! ## SplitAtIndex: two parts whose concatenation is the input -/

def splitOk (s : Str) (parts : List Str) : Bool :=
  parts.length == 2 && parts.flatten == s

/-! ## Pad*: prefix of the repeated pad token -/

/-- `p` is a prefix of `tok tok tok …` (`tok` non-empty): byte `i` of `p` is byte `i mod |tok|` of `tok`. -/
def isCyc (tok p : Str) : Bool :=
  (List.range p.length).all fun i => p[i]? == tok[i % tok.length]?

/-- PadLeft: unchanged when long enough; otherwise exactly `size` bytes, the input at the right end,
before it a prefix of the repeated token.  With an empty token the length is unreachable: nothing is
promised. -/
def padLeftOk (s : Str) (size : Int) (tok r : Str) : Bool :=
  if size ≤ (s.length : Int) then r == s
  else if tok.isEmpty then true
  else
    let d := (size - s.length).toNat
    r.length == d + s.length && r.drop d == s && isCyc tok (r.take d)

def padRightOk (s : Str) (size : Int) (tok r : Str) : Bool :=
  if size ≤ (s.length : Int) then r == s
  else if tok.isEmpty then true
  else
    let d := (size - s.length).toNat
    r.length == d + s.length && r.take s.length == s && isCyc tok (r.drop s.length)

/-- the input sits at byte position `l`, with prefixes of the repeated token on both sides -/
def padAt (s tok r : Str) (d l : Nat) : Bool :=
  r.length == d + s.length && (r.drop l).take s.length == s && isCyc tok (r.take l) &&
    isCyc tok (r.drop (l + s.length))

/-- Pad: the input in the middle (the two sides differ by at most one byte; either rounding accepted). -/
def padOk (s : Str) (size : Int) (tok r : Str) : Bool :=
  if size ≤ (s.length : Int) then r == s
  else if tok.isEmpty then true
  else
    let d := (size - s.length).toNat
    padAt s tok r d (d / 2) || padAt s tok r d ((d + 1) / 2)

/-! ## Wrap / Unwrap -/

/-- `s` wrapped by `t` -/
def wrapSpec (s t : Str) : Str := t ++ s ++ t

/-- `s` is wrapped by `t` around `x` -/
def Wrapped (s t x : Str) : Prop := s = t ++ x ++ t

/-- The two clauses about `Unwrap`: it undoes `Wrap`, and leaves strings that are not wrapped alone. -/
def UnwrapHolds (s t r : Str) : Prop :=
  (∀ x, Wrapped s t x → r = x) ∧ ((¬ ∃ x, Wrapped s t x) → r = s)

/-- decidable form: the middle part if `s` starts and ends with non-overlapping copies of `t` -/
def unwrapSpec (s t : Str) : Str :=
  if 2 * t.length ≤ s.length ∧ s.take t.length = t ∧ s.drop (s.length - t.length) = t then
    (s.drop t.length).take (s.length - 2 * t.length)
  else s

def unwrapOk (s t r : Str) : Bool := r == unwrapSpec s t

/-- WrapAllRune wraps every rune -/
def wrapAllSpec (s t : Str) : Str := (runes s).flatMap fun r => t ++ encodeRune r ++ t

/-- ReverseStr reverses runes -/
def reverseSpec (s : Str) : Str := encodeAll (runes s).reverse

/-! ## Unicode case mapping -/

def lowerSpec (lo : Rune → Rune) (s : Str) : Str := encodeAll ((runes s).map lo)
def upperSpec (up : Rune → Rune) (s : Str) : Str := encodeAll ((runes s).map up)

/-- first rune upper case, the remaining ones lower case -/
def capSpec (lo up : Rune → Rune) (s : Str) : Str :=
  match runes s with
  | [] => []
  | r :: rs => encodeAll (up r :: rs.map lo)

/-! ## Case styles, on the stated domain only

Domain: words made of ASCII letters and digits separated by (runs of) ' ', '-', '_', '&': every byte
is a letter, digit or one of the four separators and the string neither starts nor ends with a
separator.  Outside the domain nothing is promised. -/

def isDigit (b : UInt8) : Bool := 0x30 ≤ b.toNat && b.toNat ≤ 0x39
def isUpper (b : UInt8) : Bool := 0x41 ≤ b.toNat && b.toNat ≤ 0x5A
def isLower (b : UInt8) : Bool := 0x61 ≤ b.toNat && b.toNat ≤ 0x7A
def isAlnum (b : UInt8) : Bool := isDigit b || isUpper b || isLower b
def isSepB (b : UInt8) : Bool := b == 0x20 || b == 0x2D || b == 0x5F || b == 0x26

def inDomain (s : Str) : Bool :=
  s.all (fun b => isAlnum b || isSepB b) &&
  (match s.head? with | some b => isAlnum b | none => true) &&
  (match s.getLast? with | some b => isAlnum b | none => true)

def lowerB (b : UInt8) : UInt8 := if isUpper b then b + 32 else b
def upperB (b : UInt8) : UInt8 := if isLower b then b - 32 else b

/-- the letters and digits of a string, in order, case-folded -/
def letters (s : Str) : Str := (s.filter isAlnum).map lowerB

/-- for every letter/digit of `s` (in order): is it the first one of a word? -/
def initials : Bool → Str → List Bool
  | _, [] => []
  | atStart, b :: rest => if isAlnum b then atStart :: initials false rest else initials true rest

/-- CamelCase: no separator at all, every letter and digit kept in order, upper case only at word initials -/
def camelOk (s r : Str) : Bool :=
  r.all isAlnum && letters r == letters s &&
    (r.zip (initials true s)).all fun p => !isUpper p.1 || p.2

/-- Snake/Kebab with delimiter `d`: only lower-case letters, digits and `d`; every letter and digit kept
in order; applying the function again changes nothing (`rr` = the function applied to `r`). -/
def delimOk (d : UInt8) (s r rr : Str) : Bool :=
  r.all (fun b => isDigit b || isLower b || b == d) && r.filter isAlnum == letters s && rr == r

/-- Snake and Kebab differ only in the delimiter -/
def sameUpToDelim (snake kebab : Str) : Bool :=
  kebab == snake.map fun b => if b == 0x5F then 0x2D else b

end GoguVerif.Spec.C15
