/-!
# C11 — set-algebra slice helpers (the specification)

Written from the property statement, independently of the code's models.

* `firstOccs s` — "the first occurrence of each distinct value, in order": the head is kept, and
  from what is kept of the tail every further copy of the head is removed.
* `firstBy f s` — the same for "the first element of each distinct image under `f`".
* The plain functions are *functions* of their inputs (the statement fixes values and order), so
  their monitors compare with the reference value.
* `Duplicate` / `DuplicateWithIndex` come out of a Go map: order is left open, the result is judged
  as a set (each value once).
* `IntersectionBy` / `DifferenceBy`: the statement does not say whether equal elements are collapsed;
  the spec is relational (`ByHolds`): a subsequence of the first argument that contains exactly the
  elements satisfying the image condition.
* `Union`: input is a tree over `T`, `[]T`, `[]any` and malformed leaves; a malformed leaf anywhere
  must give an error, never a silent (empty) result.  (A *typed* nesting `[][]T` is neither: the
  statement does not say whether it counts as nested slices or as malformed input, so the driver
  gives no verdict on calls that contain one; the code rejects it today.)
* Calls outside the property's domain (`Intersection()` with no argument at all) get no verdict.

Core Lean only.
-/
namespace GoguVerif.Spec.C11

variable {α : Type} [DecidableEq α]

/-- first occurrence of each distinct value, in order of first occurrence -/
def firstOccs : List α → List α
  | [] => []
  | x :: r => x :: (firstOccs r).filter (fun y => decide (y ≠ x))

/-- first element of each distinct image under `f`, in order -/
def firstBy (f : α → α) : List α → List α
  | [] => []
  | x :: r => x :: (firstBy f r).filter (fun y => decide (f y ≠ f x))

/-! ## plain functions -/

def uniqueRef (s : List α) : List α := firstOccs s
def uniqueByRef (f : α → α) (s : List α) : List α := firstBy f s

/-- distinct values of `s`, in its order, that occur in every one of `others` -/
def interRef (s : List α) (others : List (List α)) : List α :=
  firstOccs (s.filter fun x => others.all fun p => decide (x ∈ p))

/-- distinct values of `s`, in order, that do not occur in `t` (Difference and Without) -/
def diffRef (s t : List α) : List α :=
  firstOccs (s.filter fun x => decide (x ∉ t))

/-! ## Duplicate / DuplicateWithIndex: judged as sets -/

/-- `r` holds exactly the values occurring more than once in `s`, each once. -/
def DupHolds (s r : List α) : Prop :=
  r.Nodup ∧ ∀ x, x ∈ r ↔ 1 < s.count x

def dupCheck (s r : List α) : Bool :=
  decide r.Nodup && r.all (fun x => decide (1 < s.count x)) &&
    s.all (fun x => decide (1 < s.count x → x ∈ r))

/-- `r` (a map, as key/value pairs) sends exactly the values occurring more than once in `s` to the
index of their first occurrence. -/
def DupIdxHolds (s : List α) (r : List (α × Nat)) : Prop :=
  (r.map Prod.fst).Nodup ∧ ∀ k i, (k, i) ∈ r ↔ (1 < s.count k ∧ s.idxOf k = i)

def dupIdxCheck (s : List α) (r : List (α × Nat)) : Bool :=
  decide (r.map Prod.fst).Nodup &&
    r.all (fun p => decide (1 < s.count p.1 ∧ s.idxOf p.1 = p.2)) &&
    s.all (fun x => decide (1 < s.count x → (x, s.idxOf x) ∈ r))

/-! ## the `By` variants: relational reading -/

/-- `r` keeps, in order, the elements of `s` that satisfy `cond` (whether equal elements are
collapsed is left open): `r` is a subsequence of `s`, everything kept satisfies `cond`, and every
element of `s` that satisfies `cond` occurs in `r`. -/
def ByHolds (cond : α → Bool) (s r : List α) : Prop :=
  r.Sublist s ∧ (∀ x, x ∈ r → cond x = true) ∧ (∀ x, x ∈ s → cond x = true → x ∈ r)

def byCheck (cond : α → Bool) (s r : List α) : Bool :=
  r.isSublist s && r.all cond && s.all (fun x => !cond x || decide (x ∈ r))

/-- image of `x` occurs among the images of every one of `others` -/
def interByCond (f : α → α) (others : List (List α)) (x : α) : Bool :=
  others.all fun p => decide (f x ∈ p.map f)

/-- image of `x` does not occur among the images of `t` -/
def diffByCond (f : α → α) (t : List α) (x : α) : Bool :=
  decide (f x ∉ t.map f)

/-! ## Union over arbitrarily nested input -/

/-- What `Union`'s `any` argument can be: a bare element, a typed slice `[]T`, a `[]any` of nested
values, or anything else (`bad`: malformed). -/
inductive Nested (α : Type) where
  | leaf (a : α)
  | slice (l : List α)
  | list (l : List (Nested α))
  | bad

namespace Nested
mutual
/-- left-to-right flattening (malformed leaves contribute nothing) -/
def leaves : Nested α → List α
  | .leaf a => [a]
  | .slice l => l
  | .list l => leavesAll l
  | .bad => []
def leavesAll : List (Nested α) → List α
  | [] => []
  | n :: r => leaves n ++ leavesAll r
end

mutual
/-- no malformed leaf anywhere -/
def wellFormed : Nested α → Bool
  | .leaf _ => true
  | .slice _ => true
  | .list l => wellFormedAll l
  | .bad => false
def wellFormedAll : List (Nested α) → Bool
  | [] => true
  | n :: r => wellFormed n && wellFormedAll r
end

mutual
/-- `[]any` nesting depth (for the evidence only) -/
def depth : Nested α → Nat
  | .list l => depthAll l + 1
  | _ => 0
def depthAll : List (Nested α) → Nat
  | [] => 0
  | n :: r => max (depth n) (depthAll r)
end
end Nested

/-- `Union`'s answer: `some r` = result `r` without error, `none` = an error was returned. -/
def unionRef (n : Nested α) : Option (List α) :=
  if n.wellFormed then some (firstOccs n.leaves) else none

/-- Monitor for `Union`: `isErr` is the implementation's error flag, `r` its slice. -/
def unionCheck (n : Nested α) (isErr : Bool) (r : List α) : Bool :=
  match unionRef n with
  | none => isErr
  | some want => !isErr && decide (r = want)

end GoguVerif.Spec.C11
