import GoguVerif.Spec.OrdMap
/-!
# C04 — binary search tree as an ordered map (the specification)
-/
namespace GoguVerif.Spec.C04
open GoguVerif.Spec

inductive Op (κ ν : Type) where
  | upsert (k : κ) (v : ν)
  | get (k : κ)
  | delete (k : κ)
  | size
  | traverse
deriving Repr

inductive Out (κ ν : Type) where
  | unit
  | got (v : Option ν)          -- `none` = not found (error)
  | deleted (found : Bool)      -- `false` = not-found error
  | int (n : Int)
  | items (l : List (κ × ν))
deriving Repr, DecidableEq

variable {κ ν : Type}

def step (comp : κ → κ → Bool) (m : List (κ × ν)) : Op κ ν → List (κ × ν) × Out κ ν
  | .upsert k v => (OrdMap.insert comp k v m, .unit)
  | .get k => (m, .got (OrdMap.lookup comp k m))
  | .delete k => (OrdMap.erase comp k m, .deleted (OrdMap.lookup comp k m).isSome)
  | .size => (m, .int m.length)
  | .traverse => (m, .items m)

def run (comp : κ → κ → Bool) (m : List (κ × ν)) : List (Op κ ν) → List (κ × ν) × List (Out κ ν)
  | [] => (m, [])
  | op :: ops =>
    let (m', o) := step comp m op
    let (m'', os) := run comp m' ops
    (m'', o :: os)

/-!
## Recorded deviation (known finding F10 `bstree.delete-absent-decrements-size`)
`BsTree.Delete` decrements the size counter even when the key is absent: the reported size is the
number of present keys minus the number of failed deletes so far.
-/
namespace Patched

structure St (κ ν : Type) where
  m : List (κ × ν)
  failedDeletes : Int := 0

def step (comp : κ → κ → Bool) (p : St κ ν) : Op κ ν → St κ ν × Out κ ν
  | .delete k =>
    let found := (OrdMap.lookup comp k p.m).isSome
    ({ m := OrdMap.erase comp k p.m, failedDeletes := if found then p.failedDeletes else p.failedDeletes + 1 },
     .deleted found)
  | .size => (p, .int (p.m.length - p.failedDeletes))
  | op => let (m', o) := C04.step comp p.m op; ({ p with m := m' }, o)

/-- Run a whole history against the patched specification. -/
def run (comp : κ → κ → Bool) (p : St κ ν) : List (Op κ ν) → St κ ν × List (Out κ ν)
  | [] => (p, [])
  | op :: ops =>
    let (p', o) := step comp p op
    let (p'', os) := run comp p' ops
    (p'', o :: os)

end Patched
end GoguVerif.Spec.C04
