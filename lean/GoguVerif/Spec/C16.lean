/-!
# C16 — helpers do not disturb their arguments or each other's results (the specification)

Observations are *snapshots* of an argument pool: a list of named fields (`name=value` atoms, rendered
by the harness from the real memory: whole backing arrays, i.e. elements *and* the spare capacity
behind them, maps sorted by key).  The property:

* a helper that is not in-place by contract leaves every field unchanged;
* the in-place helpers (`Reverse`, `Reject`, `Omit`, `OmitBy`, `heap.FromSlice`, `heap.Sort`) may
  change the one argument they are applied to — and nothing else (not even that argument's spare
  capacity, which is not part of the argument);
* a result a helper has returned is not altered by a later call of any helper on the same arguments —
  except when the later call is an in-place helper and the earlier result is a view of / the very
  argument it modifies (that alteration is the in-place helper's contract).
-/
namespace GoguVerif.Spec.C16

/-- the helpers whose contract is in-place, with the pool field the harness applies them to -/
def inPlace : List (String × String) :=
  [("Reverse", "s1"), ("Reject", "s1"), ("heap.FromSlice", "s1"), ("heap.Sort", "s1"),
   ("Omit", "m1"), ("OmitBy", "m1")]

def isInPlace (name : String) : Bool := inPlace.any (·.1 == name)

/-- field name of a `name=value` token -/
def fieldName (tok : String) : String := (tok.splitOn "=").headD ""

/-- fields (by position) whose value differs between two snapshots -/
def changedFields : List String → List String → List String
  | a :: as, b :: bs => if a == b then changedFields as bs else fieldName a :: changedFields as bs
  | [], [] => []
  | _, _ => ["<shape>"]

/-- `call`: which fields may differ -/
def callOk (name : String) (before after : List String) : Bool :=
  let ch := changedFields before after
  match inPlace.find? (·.1 == name) with
  | none => ch.isEmpty
  | some (_, field) => ch.all (· == field)

/-- helpers whose RESULT is, by contract, a view of an argument: the view-returners `Drop` and `Chunk`
and the in-place helpers, which return the argument they modified -/
def returnsView (name : String) : Bool := name == "Drop" || name == "Chunk" || isInPlace name

/-- `pair h1 h2`: the earlier result re-read after the later call.  It may differ only when the later
call is an in-place helper AND the earlier helper returns a view of the modified argument by
contract; a helper that is supposed to return fresh storage gets no such excuse. -/
def pairOk (h1 h2 : String) (first again : String) (aliasesArg : Bool) : Bool :=
  first == again || (isInPlace h2 && returnsView h1 && aliasesArg)

end GoguVerif.Spec.C16
