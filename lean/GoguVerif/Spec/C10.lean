import GoguVerif.Spec.OrdMap
/-!
# C10 — B-tree as an ordered map that stays balanced (the specification)

State: the ordered map of live keys plus the set of distinct keys ever inserted (for the height bound).
-/
namespace GoguVerif.Spec.C10
open GoguVerif.Spec

inductive Op where
  | put (k v : Int)
  | remove (k : Int)
  | get (k : Int)
  | size
  | isEmpty
  | traverse
  | height
deriving Repr

inductive Out where
  | unit
  | got (v : Option Int)
  | int (n : Int)
  | bool (b : Bool)
  | items (l : List (Int × Int))
deriving Repr, DecidableEq

structure St where
  m : List (Int × Int) := []
  ever : List Int := []          -- distinct keys ever inserted
deriving Repr

def ltb (a b : Int) : Bool := decide (a < b)

/-- The deterministic part (everything but `height`). -/
def step (s : St) : Op → St × Option Out
  | .put k v => ({ m := OrdMap.insert ltb k v s.m, ever := if s.ever.contains k then s.ever else k :: s.ever }, some .unit)
  | .remove k => ({ s with m := OrdMap.erase ltb k s.m }, some .unit)
  | .get k => (s, some (.got (OrdMap.lookup ltb k s.m)))
  | .size => (s, some (.int s.m.length))
  | .isEmpty => (s, some (.bool s.m.isEmpty))
  | .traverse => (s, some (.items s.m))
  | .height => (s, none)

/-! ### bulk operations of long runs (`fillasc a n`, `removeasc a n`)

Closed forms of `n` single steps, under preconditions the monitor checks; `Theorems/C10.lean: fillAsc_exec,
dropAsc_exec` prove them equal to running the steps one by one. -/

/-- the keys `a, a+1, …, a+n-1` -/
def ascKeys (a : Int) : Nat → List Int
  | 0 => []
  | n + 1 => a :: ascKeys (a + 1) n

/-- `put a a; put (a+1) (a+1); …` (n puts) -/
def fillOps (a : Int) (n : Nat) : List Op := (ascKeys a n).map fun k => .put k k

/-- `remove a; remove (a+1); …` (n removes) -/
def dropOps (a : Int) (n : Nat) : List Op := (ascKeys a n).map fun k => .remove k

/-- precondition of the closed form of `fillasc a n`: every key ever inserted is below `a` -/
def fillPre (s : St) (a : Int) : Bool := s.ever.all (fun k => decide (k < a)) && s.m.all (fun e => decide (e.1 < a))

def fillAsc (s : St) (a : Int) (n : Nat) : St :=
  { m := s.m ++ (ascKeys a n).map (fun k => (k, k)), ever := (ascKeys a n).reverse ++ s.ever }

/-- precondition of the closed form of `removeasc a n`: the first `n` live keys are exactly `a … a+n-1` -/
def dropPre (s : St) (a : Int) (n : Nat) : Bool := (s.m.take n).map (·.1) == ascKeys a n

def dropAsc (s : St) (n : Nat) : St := { s with m := s.m.drop n }

/-- `Height ≤ log₂ (max 1 N)`, i.e. `2 ^ height ≤ max 1 N`, N = number of distinct keys ever inserted. -/
def HeightOk (s : St) (h : Int) : Prop := 0 ≤ h ∧ 2 ^ h.toNat ≤ max 1 s.ever.length

instance (s : St) (h : Int) : Decidable (HeightOk s h) := by unfold HeightOk; infer_instance

/-! ### What the property admits (the relation the monitor decides, used by `Theorems/C10.lean`) -/

/-- Answer `o` to `op` in abstract state `s` is one the property admits: the deterministic answer, or
for `Height` any value within the bound. -/
def Admits (s : St) (op : Op) (o : Out) : Prop :=
  match (step s op).2 with
  | some o' => o = o'
  | none => ∃ h : Int, o = .int h ∧ HeightOk s h

/-- abstract state after a history -/
def exec (s : St) : List Op → St
  | [] => s
  | op :: ops => exec (step s op).1 ops

/-- every answer of a whole history is admitted -/
def RunAdmits (s : St) : List Op → List Out → Prop
  | [], [] => True
  | op :: ops, o :: os => Admits s op o ∧ RunAdmits (step s op).1 ops os
  | _, _ => False

end GoguVerif.Spec.C10
