/-!
# Ordered association lists — the abstract "ordered map" used by C04 (BST), C09 (trie), C10 (B-tree)

`comp a b = true` means key `a` comes before key `b`.  Two keys are *the same key* when neither
precedes the other (this is how `gogu.Compare` decides equality).  The list is kept in comparator
order, so "traverse in comparator order" is the list itself.
-/
namespace GoguVerif.Spec.OrdMap

variable {κ ν : Type}

def insert (comp : κ → κ → Bool) (k : κ) (v : ν) : List (κ × ν) → List (κ × ν)
  | [] => [(k, v)]
  | (k', v') :: r =>
    if comp k k' then (k, v) :: (k', v') :: r
    else if comp k' k then (k', v') :: insert comp k v r
    else (k, v) :: r

def erase (comp : κ → κ → Bool) (k : κ) : List (κ × ν) → List (κ × ν)
  | [] => []
  | (k', v') :: r =>
    if comp k k' then (k', v') :: r
    else if comp k' k then (k', v') :: erase comp k r
    else r

def lookup (comp : κ → κ → Bool) (k : κ) : List (κ × ν) → Option ν
  | [] => none
  | (k', v') :: r =>
    if comp k k' then none
    else if comp k' k then lookup comp k r
    else some v'

/-- strictly increasing in comparator order -/
def Sorted (comp : κ → κ → Bool) : List (κ × ν) → Prop
  | [] => True
  | (k, _) :: r => (∀ e ∈ r, comp k e.1 = true) ∧ Sorted comp r

/-- Strict total order on keys. -/
structure STO (comp : κ → κ → Bool) : Prop where
  irrefl : ∀ a, comp a a = false
  trans : ∀ a b c, comp a b = true → comp b c = true → comp a c = true
  total : ∀ a b, comp a b = false → comp b a = false → a = b

end GoguVerif.Spec.OrdMap
