import GoguVerif.Spec.OrdMap
/-!
# C09 — trie as a string-keyed map with exact prefix queries (the specification)

Keys are byte strings (`List UInt8`), ordered byte-lexicographically.
-/
namespace GoguVerif.Spec.C09
open GoguVerif.Spec

abbrev Key := List UInt8

/-- strict byte-lexicographic order -/
def lexLt : Key → Key → Bool
  | [], [] => false
  | [], _ :: _ => true
  | _ :: _, [] => false
  | a :: r, b :: s => if a < b then true else if b < a then false else lexLt r s

def isPrefix : Key → Key → Bool
  | [], _ => true
  | _ :: _, [] => false
  | a :: r, b :: s => a == b && isPrefix r s

inductive Op where
  | put (k : Key) (v : Int)          -- k non-empty (the property only speaks about non-empty keys)
  | get (k : Key)
  | contains (k : Key)
  | size
  | keys
  | startsWith (p : Key)
  | longestPrefix (q : Key)
deriving Repr

inductive Out where
  | unit
  | got (v : Option Int)
  | bool (b : Bool)
  | int (n : Int)
  | keyList (l : List Key) (err : Bool)
  | key (k : Key) (err : Bool)
deriving Repr, DecidableEq

/-- longest stored key that is a prefix of `q` (stored keys are non-empty; `[]` if none) -/
def longest (q : Key) (m : List (Key × Int)) : Key :=
  m.foldl (fun best e => if isPrefix e.1 q && best.length < e.1.length then e.1 else best) []

def step (m : List (Key × Int)) : Op → List (Key × Int) × Out
  | .put k v => (OrdMap.insert lexLt k v m, .unit)
  | .get k => (m, .got (if k.isEmpty then none else OrdMap.lookup lexLt k m))
  | .contains k => (m, .bool (if k.isEmpty then false else (OrdMap.lookup lexLt k m).isSome))
  | .size => (m, .int m.length)
  | .keys => (m, .keyList (m.map (·.1)) false)
  | .startsWith p =>
    if p.isEmpty then (m, .keyList [] true)
    else (m, .keyList ((m.map (·.1)).filter (isPrefix p)) false)
  | .longestPrefix q =>
    if q.isEmpty then (m, .key [] true) else (m, .key (longest q m) false)

end GoguVerif.Spec.C09
