/-!
# C12 — reshaping helpers conserve elements and order (the specification)

Written from the property statement, independently of the model of the code.  Every clause is a
`Prop` about the *arguments and the answer* of one call, together with a `Decidable` instance: the
driver evaluates `decide (…)` on the implementation's own answers (the monitor).

Readings chosen so as not to demand more than the statement:
* a deliberate panic is accepted exactly outside the stated domain (`Chunk` size ≤ 0, `Zip`/`Unzip`
  of a non-square matrix); what a call returns there *instead* of panicking is not constrained;
* `DropWhile` / `DropRightWhile` are read as the statement describes them: the answer is the part
  of `s` (of the reversed `s`) the predicate rejects, in order — not a prefix/suffix drop;
* `Drop` with `|n| > len s` cannot remove `|n|` elements: removing all of them is required;
* `Flatten` is only constrained on well-formed nestings (no leaf of a foreign type);
* `ReverseStr` is only constrained on valid UTF-8;
* `Reverse` / `ReverseStr`: besides the involution the statement names, the answer must list the
  elements (runes) backwards — no correct `Reverse` can fail this, and without it the identity
  function would pass; the two parts have separate clause names in the driver;
* `Shuffle`: permutation of the argument, and the argument itself is unchanged afterwards;
* `GroupBy`: the answer is a Go map — no order among the groups is demanded.
-/
namespace GoguVerif.Spec.C12

variable {α β κ : Type}

/-! ## Chunk -/

/-- `r` cuts `s` into chunks of length `n`, except for a shorter, non-empty last one. -/
def ChunkOK (s : List α) (n : Nat) (r : List (List α)) : Prop :=
  r.flatten = s ∧ (∀ c ∈ r, c ≠ []) ∧ (∀ c ∈ r.dropLast, c.length = n) ∧ (∀ c ∈ r, c.length ≤ n)

instance [DecidableEq α] (s : List α) (n : Nat) (r : List (List α)) : Decidable (ChunkOK s n r) := by
  unfold ChunkOK; infer_instance

/-! ## order-preserving splits -/

/-- `r` is the part of `s` that satisfies `p`: a sub-sequence of `s` (order and multiplicity kept),
all of whose elements satisfy `p`, and that misses no element satisfying `p`. -/
def KeepOK (p : α → Bool) (s r : List α) : Prop :=
  r.Sublist s ∧ (∀ x ∈ r, p x = true) ∧ r.length = s.countP p

instance [DecidableEq α] (p : α → Bool) (s r : List α) : Decidable (KeepOK p s r) := by
  unfold KeepOK; infer_instance

/-- Partition: the two parts together contain every element exactly once, each where `p` dictates. -/
def PartitionOK (p : α → Bool) (s yes no : List α) : Prop :=
  KeepOK p s yes ∧ KeepOK (fun x => !p x) s no

instance [DecidableEq α] (p : α → Bool) (s yes no : List α) : Decidable (PartitionOK p s yes no) := by
  unfold PartitionOK; infer_instance

def FilterOK (p : α → Bool) (s r : List α) : Prop := KeepOK p s r
def RejectOK (p : α → Bool) (s r : List α) : Prop := KeepOK (fun x => !p x) s r
def DropWhileOK (p : α → Bool) (s r : List α) : Prop := KeepOK (fun x => !p x) s r
def DropRightWhileOK (p : α → Bool) (s r : List α) : Prop := KeepOK (fun x => !p x) s.reverse r

instance [DecidableEq α] (p : α → Bool) (s r : List α) : Decidable (FilterOK p s r) := by
  unfold FilterOK; infer_instance
instance [DecidableEq α] (p : α → Bool) (s r : List α) : Decidable (RejectOK p s r) := by
  unfold RejectOK; infer_instance
instance [DecidableEq α] (p : α → Bool) (s r : List α) : Decidable (DropWhileOK p s r) := by
  unfold DropWhileOK; infer_instance
instance [DecidableEq α] (p : α → Bool) (s r : List α) : Decidable (DropRightWhileOK p s r) := by
  unfold DropRightWhileOK; infer_instance

/-- GroupBy: the answer is a finite map (listed in ANY order) whose keys are distinct; the group of key
`k` is non-empty and is exactly the part of `s` with key `k`, in order; every element's key has a
group.  (So every occurrence of an element is in exactly one group: the one its key dictates.) -/
def GroupOK [DecidableEq κ] (key : α → κ) (s : List α) (g : List (κ × List α)) : Prop :=
  (g.map (·.1)).Nodup ∧
  (∀ e ∈ g, e.2 ≠ [] ∧ KeepOK (fun x => decide (key x = e.1)) s e.2) ∧
  (∀ x ∈ s, ∃ e ∈ g, e.1 = key x)

instance [DecidableEq α] [DecidableEq κ] (key : α → κ) (s : List α) (g : List (κ × List α)) :
    Decidable (GroupOK key s g) := by
  unfold GroupOK; infer_instance

/-! ## Zip / Unzip -/

def Square (m : List (List α)) : Prop := ∀ row ∈ m, row.length = m.length

instance (m : List (List α)) : Decidable (Square m) := by unfold Square; infer_instance

/-- entry `(i, x)` of a matrix, if there is one -/
def entry (m : List (List α)) (i x : Nat) : Option α :=
  match m[i]? with
  | none => none
  | some row => row[x]?

/-- `r` is the transpose of the `n × n` matrix `m`. -/
def TransposeOK (m r : List (List α)) : Prop :=
  r.length = m.length ∧ Square r ∧ ∀ i, i < m.length → ∀ x, x < m.length → entry r i x = entry m x i

instance [DecidableEq α] (m r : List (List α)) : Decidable (TransposeOK m r) := by
  unfold TransposeOK; infer_instance

/-- What one `zip m` / `unzip m` line must satisfy on a square `m`: `r` is the transpose and the
opposite function applied to `r` gives `m` back. -/
def ZipOK (m r back : List (List α)) : Prop := TransposeOK m r ∧ back = m

instance [DecidableEq α] (m r back : List (List α)) : Decidable (ZipOK m r back) := by
  unfold ZipOK; infer_instance

/-! ## Flatten -/

/-- Arguments of `Flatten[T]`: a `T`, a `[]T`, a `[]any` of such, or something else (`bad`). -/
inductive Nest (α : Type) where
  | leaf : α → Nest α
  | slice : List α → Nest α
  | list : List (Nest α) → Nest α
  | bad : Nest α

mutual
def Nest.wellFormed : Nest α → Bool
  | .leaf _ => true
  | .slice _ => true
  | .list l => wellFormedAll l
  | .bad => false
def wellFormedAll : List (Nest α) → Bool
  | [] => true
  | n :: r => n.wellFormed && wellFormedAll r
end

mutual
/-- the leaves, left to right -/
def Nest.leaves : Nest α → List α
  | .leaf v => [v]
  | .slice v => v
  | .list l => leavesAll l
  | .bad => []
def leavesAll : List (Nest α) → List α
  | [] => []
  | n :: r => n.leaves ++ leavesAll r
end

/-- `res = some l`: Flatten answered `l` without error; `none`: it returned an error. -/
def FlattenOK (n : Nest α) (res : Option (List α)) : Prop :=
  n.wellFormed = true → res = some n.leaves

instance [DecidableEq α] (n : Nest α) (res : Option (List α)) : Decidable (FlattenOK n res) := by
  unfold FlattenOK; infer_instance

/-! ## Merge, Drop -/

def MergeOK (s : List α) (params : List (List α)) (r : List α) : Prop := r = s ++ params.flatten

instance [DecidableEq α] (s : List α) (params : List (List α)) (r : List α) : Decidable (MergeOK s params r) := by
  unfold MergeOK; infer_instance

/-- `r` is `s` without `min |n| (len s)` elements at the front (`n > 0`) / at the back (`n < 0`). -/
def DropOK (s : List α) (n : Int) (r : List α) : Prop :=
  r.length + min n.natAbs s.length = s.length ∧
  (0 < n → r.IsSuffix s) ∧ (n < 0 → r.IsPrefix s) ∧ (n = 0 → r = s)

instance [DecidableEq α] (s : List α) (n : Int) (r : List α) : Decidable (DropOK s n r) := by
  unfold DropOK; infer_instance

/-! ## Reverse, Shuffle -/

/-- `r` lists `s` backwards. -/
def Reversed (s r : List α) : Prop :=
  r.length = s.length ∧ ∀ i, i < s.length → r[i]? = s[s.length - 1 - i]?

instance [DecidableEq α] (s r : List α) : Decidable (Reversed s r) := by
  unfold Reversed; infer_instance

/-- one `reverse s` line: `r = Reverse(s)` lists `s` backwards and `rr = Reverse(r)` is `s` again. -/
def ReverseOK (s r rr : List α) : Prop := Reversed s r ∧ rr = s

instance [DecidableEq α] (s r rr : List α) : Decidable (ReverseOK s r rr) := by
  unfold ReverseOK; infer_instance

def ShuffleOK (s r : List α) : Prop := r.Perm s

instance [DecidableEq α] (s r : List α) : Decidable (ShuffleOK s r) := by
  unfold ShuffleOK; infer_instance

/-! ## Iterators: the callback is called once per element, in index (reverse index) order -/

/-- Calling a state-passing callback once per element, in the order of the list: the results and the
callback's final state.  (The general form of "visits every element exactly once, in order": an
arbitrary stateful observer cannot tell the iterator from this.) -/
def callsInOrder {σ : Type} (fn : α → σ → β × σ) : List α → σ → List β × σ
  | [], st => ([], st)
  | x :: rest, st =>
    let r := fn x st
    let t := callsInOrder fn rest r.2
    (r.1 :: t.1, t.2)

def MapOK (f : α → β) (s : List α) (r : List β) (log : List α) : Prop := log = s ∧ r = s.map f
def ForEachOK (s log : List α) : Prop := log = s
def ForEachRightOK (s log : List α) : Prop := log = s.reverse
/-- `fn(v, acc)` folded from the left. -/
def ReduceOK (f : α → β → β) (s : List α) (init v : β) (log : List α) : Prop :=
  log = s ∧ v = s.foldl (fun acc x => f x acc) init

instance [DecidableEq α] [DecidableEq β] (f : α → β) (s : List α) (r : List β) (log : List α) :
    Decidable (MapOK f s r log) := by unfold MapOK; infer_instance
instance [DecidableEq α] (s log : List α) : Decidable (ForEachOK s log) := by unfold ForEachOK; infer_instance
instance [DecidableEq α] (s log : List α) : Decidable (ForEachRightOK s log) := by
  unfold ForEachRightOK; infer_instance
instance [DecidableEq α] [DecidableEq β] (f : α → β → β) (s : List α) (init v : β) (log : List α) :
    Decidable (ReduceOK f s init v log) := by unfold ReduceOK; infer_instance

/-! ## ReverseStr (bytes and code points are `Nat`s) -/

/-- Unicode scalar values -/
def Scalar (r : Nat) : Prop := r < 0xD800 ∨ (0xE000 ≤ r ∧ r ≤ 0x10FFFF)

instance (r : Nat) : Decidable (Scalar r) := by unfold Scalar; infer_instance

/-- the UTF-8 encoding form of a scalar value (Unicode §3.9, table 3-6) -/
def utf8 (r : Nat) : List Nat :=
  if r ≤ 0x7F then [r]
  else if r ≤ 0x7FF then [0xC0 + r / 0x40, 0x80 + r % 0x40]
  else if r ≤ 0xFFFF then [0xE0 + r / 0x1000, 0x80 + r / 0x40 % 0x40, 0x80 + r % 0x40]
  else [0xF0 + r / 0x40000, 0x80 + r / 0x1000 % 0x40, 0x80 + r / 0x40 % 0x40, 0x80 + r % 0x40]

def utf8All : List Nat → List Nat
  | [] => []
  | r :: rest => utf8 r ++ utf8All rest

/-- The property on strings: for every string that IS the UTF-8 form of a sequence of scalar values,
`ReverseStr` answers the UTF-8 form of the reversed sequence, and applying it again gives the string
back (involution). -/
def ReverseStrOK (s r rr : List Nat) : Prop :=
  ∀ rs : List Nat, (∀ x ∈ rs, Scalar x) → s = utf8All rs → r = utf8All rs.reverse ∧ rr = s

/-- trail byte -/
def trail (b : Nat) : Bool := 0x80 ≤ b && b ≤ 0xBF

/-- Well-formed UTF-8 byte sequences (Unicode table 3-7): the first scalar value of `b0 :: rest` and
its width, `none` if the string does not start with a well-formed sequence. -/
def first? (b0 : Nat) (rest : List Nat) : Option (Nat × Nat) :=
  if b0 ≤ 0x7F then some (b0, 1)
  else match rest with
    | [] => none
    | b1 :: rest1 =>
      if 0xC2 ≤ b0 ∧ b0 ≤ 0xDF then
        if trail b1 then some ((b0 - 0xC0) * 0x40 + (b1 - 0x80), 2) else none
      else match rest1 with
        | [] => none
        | b2 :: rest2 =>
          if 0xE0 ≤ b0 ∧ b0 ≤ 0xEF then
            if ((b0 = 0xE0 ∧ 0xA0 ≤ b1 ∧ b1 ≤ 0xBF) ∨ (0xE1 ≤ b0 ∧ b0 ≤ 0xEC ∧ trail b1) ∨
                (b0 = 0xED ∧ 0x80 ≤ b1 ∧ b1 ≤ 0x9F) ∨ (0xEE ≤ b0 ∧ trail b1)) ∧ trail b2 then
              some ((b0 - 0xE0) * 0x1000 + (b1 - 0x80) * 0x40 + (b2 - 0x80), 3)
            else none
          else match rest2 with
            | [] => none
            | b3 :: _ =>
              if ((b0 = 0xF0 ∧ 0x90 ≤ b1 ∧ b1 ≤ 0xBF) ∨ (0xF1 ≤ b0 ∧ b0 ≤ 0xF3 ∧ trail b1) ∨
                  (b0 = 0xF4 ∧ 0x80 ≤ b1 ∧ b1 ≤ 0x8F)) ∧ trail b2 ∧ trail b3 then
                some ((b0 - 0xF0) * 0x40000 + (b1 - 0x80) * 0x1000 + (b2 - 0x80) * 0x40 + (b3 - 0x80), 4)
              else none

/-- strict decoder: the scalar values of a well-formed UTF-8 string, `none` for an ill-formed one -/
def parse? : List Nat → Option (List Nat)
  | [] => some []
  | b0 :: rest =>
    match first? b0 rest with
    | none => none
    | some d =>
      match parse? (rest.drop (d.2 - 1)) with
      | none => none
      | some rs => some (d.1 :: rs)
termination_by l => l.length
decreasing_by simp only [List.length_drop, List.length_cons]; omega

/-- the monitor for one `reversestr s => r rr` line (decides `ReverseStrOK`, see `Theorems/C12`) -/
def reverseStrCheck (s r rr : List Nat) : Bool :=
  match parse? s with
  | none => true
  | some rs => r == utf8All rs.reverse && rr == s

end GoguVerif.Spec.C12
