/-!
# C18 — Before / After / Once / Retry invoke the callback exactly as often as promised (specification)
-/
namespace GoguVerif.Spec.C18

/-- `After n`: on the `k`-th call (1-based) the callback runs iff `k > max n 0`. -/
def afterRuns (n : Int) (k : Nat) : Bool := decide ((k : Int) > max n 0)

/-- `Before n`: the callback runs on exactly the first `max n 0` calls. -/
def beforeRuns (n : Int) (k : Nat) : Bool := decide ((k : Int) ≤ max n 0)

/-- `Retry n` with a script of callback outcomes (`true` = failure; past the script: failure).
Number of callback invocations: none for `n ≤ 0`, otherwise until the first success or `n` failures. -/
def retryCalls (n : Int) (script : List Bool) : Nat :=
  let rec go (fuel : Nat) (script : List Bool) (made : Nat) : Nat :=
    match fuel with
    | 0 => made
    | fuel + 1 =>
      match script with
      | false :: _ => made + 1          -- success on this call
      | true :: r => go fuel r (made + 1)
      | [] => go fuel [] (made + 1)
  go n.toNat script 0

/-- number of failed attempts among the calls made -/
def retryFailures (n : Int) (script : List Bool) : Nat :=
  let calls := retryCalls n script
  let outcomes := (script ++ List.replicate calls true).take calls
  (outcomes.filter id).length

/-- does the last call made fail?  (the reported error is the last error) -/
def retryLastFails (n : Int) (script : List Bool) : Bool :=
  let calls := retryCalls n script
  if calls = 0 then false
  else ((script ++ List.replicate calls true).take calls).getLast?.getD false

/-- consecutive attempts are at least `d` apart -/
def spaced (d : Int) : List Int → Bool
  | a :: b :: r => decide (b ≥ a + d) && spaced d (b :: r)
  | _ => true

/-- with attempts that take time: every attempt starts at least `d` after the END of the previous one -/
def gapped (d : Int) : List (Int × Int) → Bool
  | a :: b :: r => decide (b.1 ≥ a.2 + d) && gapped d (b :: r)
  | _ => true

/-! ## Once: state machine over the cache entry's life -/

structure OnceSt where
  now : Int := 0
  /-- the cached first result and its deadline (`≤ 0`: never expires) -/
  entry : Option (Int × Int) := none
deriving Repr, DecidableEq, BEq

/-- one call of `Once` (choice `c`: is the entry live at the instant `now = deadline`?);
`fresh` is the result the callback would produce if it ran now.
Returns (new state, number of callback runs, returned value). -/
def onceCall (exp : Int) (c : Bool) (s : OnceSt) (fresh : Int) : OnceSt × Nat × Int :=
  let liveEntry := match s.entry with
    | some (v, dl) => if dl ≤ 0 || s.now < dl || (c && s.now == dl) then some v else none
    | none => none
  match liveEntry with
  | some v => (s, 0, v)
  | none => ({ s with entry := some (fresh, if exp > 0 then s.now + exp else -1) }, 1, fresh)

end GoguVerif.Spec.C18
