/-!
# C17 — Memoize runs one computation per key at a time and serves the cached value (specification)

The property is stated on the *event log* of a scenario: who called `Memoize` for which key when,
which executions of the supplied function took place, and what everybody got back.  Every event
carries a stamp `(seq, t)`: `t` is the (virtual) time in ms, `seq` a global sequence number that orders
events happening at the same instant (`seq₁ < seq₂` ⇒ event 1 really happened before event 2).

Readings chosen so that the monitor never demands more than the statement:
* "two executions in progress at the same instant" = their `[startSeq, endSeq]` intervals intersect
  (zero-latency executions at one virtual instant that really ran one after the other are fine);
* a caller's result is justified by an execution of the same key that overlapped or immediately
  preceded its call — it started before the caller returned, and the caller was invoked before the
  caller that ran the function had itself returned (a caller may be handed the result of a function run
  that ended an instant before it was invoked, while that result is still being handed over) — or by a
  value that a preceding successful execution left in the cache and that is live at the caller's
  invocation; errors have only the first kind of source;
* "served without invoking the function" is demanded only of callers invoked *after* the value was
  certainly cached (some caller of the caching execution had already returned, or the value was there
  before the scenario started) and while it is live; a caller invoked concurrently with the caching may
  legitimately miss the cache and run the function itself (after the first execution has finished);
* "live": a value cached at `t` with expiration `e > 0` is live at every `now ≤ t + e`, expired at
  `now > t + e` (C08's reading, the instant `t + e` as `Cache.Get` decides it); `e ≤ 0`: never expires;
  the cache refuses to replace a live value (C08), so a later execution's value replaces an earlier
  one only after that has expired;
* "different keys do not block": on the virtual clock a caller returns at its invocation instant
  (cache hit) or at the instant its execution ends — never later — and a leader's execution starts at
  the leader's invocation instant; justifications never cross keys.

Core Lean only.
-/
namespace GoguVerif.Spec.C17

/-- one `Memoize` call as observed -/
structure Call where
  id : Int
  key : Int
  invSeq : Int
  invT : Int
  retSeq : Int
  retT : Int
  /-- 0 = a value, 1 = an error -/
  out : Int
  val : Int
  /-- index of the execution whose very result object the caller received; -1 = none of them -/
  src : Int
deriving Repr, DecidableEq, Inhabited

/-- one execution of the supplied function as observed from inside it -/
structure Exec where
  key : Int
  startSeq : Int
  startT : Int
  endSeq : Int
  endT : Int
  /-- the caller whose function ran -/
  leader : Int
  /-- 0 = returned a value, 1 = returned an error, 2 = returned no item and no error (value 0) -/
  out : Int
  val : Int
deriving Repr, DecidableEq, Inhabited

/-- the cached value of one key: value and deadline (`none` = never expires) -/
abbrev Entry := Option (Int × Option Int)

def live (now : Int) : Entry → Option Int
  | none => none
  | some (v, none) => some v
  | some (v, some dl) => if now ≤ dl then some v else none

/-- a successful execution ending at `now` offers `v` to the cache -/
def offer (exp now : Int) (e : Entry) (v : Int) : Entry :=
  match live now e with
  | some _ => e
  | none => some (v, if exp > 0 then some (now + exp) else none)

def Exec.success (e : Exec) : Bool := e.out != 1

/-- what callers of this execution must see: (out, val) -/
def Exec.result (e : Exec) : Int × Int := if e.out == 1 then (1, 0) else (0, e.val)

/-! ## clause 1: one execution per key at a time -/

def disjoint (a b : Exec) : Bool := a.endSeq < b.startSeq || b.endSeq < a.startSeq

/-- no two executions of one key overlap -/
def exclusive : List Exec → Bool
  | [] => true
  | e :: r => r.all (fun f => f.key != e.key || disjoint e f) && exclusive r

/-! ## the cache content implied by the executions -/

/-- the entry of key `k` after each execution (in the order given = order of occurrence):
`(index, entry after it)` for the successful executions of `k` -/
def history (exp k : Int) (e0 : Entry) (execs : List Exec) : List (Int × Entry) :=
  let rec go (i : Int) (cur : Entry) : List Exec → List (Int × Entry)
    | [] => []
    | e :: r =>
      if e.key == k && e.success then
        let cur' := offer exp e.endT cur e.val
        (i, cur') :: go (i + 1) cur' r
      else go (i + 1) cur r
  go 0 e0 execs

def finalEntry (exp k : Int) (e0 : Entry) (execs : List Exec) : Entry :=
  match (history exp k e0 execs).getLast? with
  | some (_, e) => e
  | none => e0

/-! ## clause 2–4, 6: every caller's result has a source -/

def leads (c : Call) (execs : List Exec) : Bool := execs.any (·.leader == c.id)

/-- the instant (sequence number) at which the caller whose function ran returned from `Memoize` -/
def leaderRet (callers : List Call) (e : Exec) : Option Int :=
  (callers.find? (fun c => c.id == e.leader)).map (·.retSeq)

/-- the caller got its result from execution number `i`: same key, same outcome and value, the very
result object; the execution started before the caller returned and the caller was invoked before the
execution's own caller had returned (so the execution overlapped the call, or preceded it by no more than
the hand-over of its result); the caller is not delayed beyond the end of the execution -/
def fromExec (callers : List Call) (c : Call) (i : Int) (e : Exec) : Bool :=
  e.key == c.key && (c.out, c.val) == e.result
  && (c.src == i || (c.src == -1 && e.out == 2))      -- a nil item has no identity
  && e.startSeq < c.retSeq
  && (match leaderRet callers e with
      | some r => c.invSeq < r
      | none => false)
  && c.retT == max c.invT e.endT

/-- the caller got a cached value: the entry before the scenario or one left by an execution that
ended before the caller returned; live at the caller's invocation; served at once, no execution -/
def fromCache (c : Call) (e0 : Entry) (hist : List (Int × Entry)) (execs : List Exec) : Bool :=
  c.out == 0 && c.src == -1 && c.retT == c.invT && !(leads c execs)
  && (live c.invT e0 == some c.val
      || hist.any (fun (i, en) => live c.invT en == some c.val
            && (match execs[i.toNat]? with
                | some e => e.endSeq < c.retSeq
                | none => false)))

def hasSource (exp : Int) (e0 : Int → Entry) (callers : List Call) (execs : List Exec) (c : Call) : Bool :=
  (List.range execs.length).any (fun i => match execs[i]? with
      | some e => fromExec callers c i e
      | none => false)
  || fromCache c (e0 c.key) (history exp c.key (e0 c.key) execs) execs

/-- joiners: a caller that received execution `src`'s very result object has that execution's
key, outcome and value -/
def srcConsistent (execs : List Exec) (c : Call) : Bool :=
  c.src == -1 ||
  (match (if c.src ≥ 0 then execs[c.src.toNat]? else none) with
   | some e => e.key == c.key && (c.out, c.val) == e.result
   | none => false)

/-! ## clause 4: a value certainly cached and live at the invocation is served, nothing runs -/

/-- the entry that is certainly in the cache when `c` is invoked: after the last successful execution of
`c`'s key one of whose callers had returned before `c` was invoked (or the entry before the scenario) -/
def certainEntry (exp : Int) (e0 : Entry) (callers : List Call) (execs : List Exec) (c : Call) : Entry :=
  let hist := history exp c.key e0 execs
  let known := hist.filter (fun (i, _) => callers.any (fun r => r.src == i && r.retSeq < c.invSeq))
  match known.getLast? with
  | some (_, en) => en
  | none => e0

def servedIfCached (exp : Int) (e0 : Int → Entry) (callers : List Call) (execs : List Exec) (c : Call) : Bool :=
  match live c.invT (certainEntry exp (e0 c.key) callers execs c) with
  | some v => c.out == 0 && c.val == v && c.retT == c.invT && !(leads c execs)
  | none => true

/-! ## clause 6: executions belong to callers and start at once -/

def execOwned (callers : List Call) (e : Exec) : Bool :=
  callers.any (fun c => c.id == e.leader && c.key == e.key && c.invSeq < e.startSeq && e.endSeq < c.retSeq
                        && e.startT == c.invT)

def leadsAtMostOnce (execs : List Exec) : Bool :=
  let ls := execs.map (·.leader)
  ls.eraseDups.length == ls.length

/-! ## clause 5: the cache afterwards -/

/-- `Cache.Get k` at `now` must show exactly the live value the executions imply — in particular
nothing after an error-only history -/
def getOk (exp now : Int) (e0 : Int → Entry) (execs : List Exec) (k : Int) (got : Option Int) : Bool :=
  live now (finalEntry exp k (e0 k) execs) == got

/-! ## the monitor -/

structure Log where
  callers : List Call
  execs : List Exec
  /-- maximum of the in-flight counter per key -/
  maxIn : List Int
  /-- `Cache.Get` of key 0,1,… after the scenario -/
  gets : List (Option Int)
  endT : Int

/-- first violated clause of the property, `none` if the log satisfies it -/
def check (exp : Int) (e0 : Int → Entry) (l : Log) : Option String :=
  if !(l.maxIn.all (· ≤ 1)) || !(exclusive l.execs) then some "one-execution-per-key-at-a-time"
  else if !(l.callers.all (fun c => c.out == 0 || c.out == 1)) then some "result-is-value-or-error"
  else if !(l.callers.all (srcConsistent l.execs)) then some "joiners-get-the-executions-result"
  else if !(l.execs.all (execOwned l.callers)) || !(leadsAtMostOnce l.execs) then some "execution-started-at-once-by-its-caller"
  else if !(l.callers.all (hasSource exp e0 l.callers l.execs)) then
    -- say which part of the justification is missing
    let unjust := l.callers.filter (fun c => !(hasSource exp e0 l.callers l.execs c))
    if unjust.any (fun c => c.out == 1) then some "error-only-from-own-execution"
    else if unjust.any (fun c =>
        -- would the caller be justified if it had returned at another instant?
        !(hasSource exp e0 l.callers l.execs { c with retT := c.invT }) &&
        l.execs.all (fun e => !(hasSource exp e0 l.callers l.execs { c with retT := max c.invT e.endT })))
      then some "value-from-overlapping-execution-or-live-cache"
    else some "not-delayed-beyond-own-execution"
  else if !(l.callers.all (servedIfCached exp e0 l.callers l.execs)) then some "cached-value-served-without-invoking"
  else
    let bad := (List.range l.gets.length).find? (fun (k : Nat) =>
      !(getOk exp l.endT e0 l.execs (k : Int) (l.gets[k]?.getD none)))
    match bad with
    | some k =>
      if (l.gets[k]?.getD none).isSome && (live l.endT (finalEntry exp (k : Int) (e0 (k : Int)) l.execs)).isNone then
        (if l.execs.any (fun e => e.key == (k : Int) && e.success) || (e0 (k : Int)).isSome then some "expired-value-not-served"
         else some "errors-are-not-cached")
      else some "successful-value-is-cached"
    | none => none

/-- the entries after the scenario -/
def after (exp : Int) (e0 : Int → Entry) (l : Log) : Int → Entry :=
  fun k => finalEntry exp k (e0 k) l.execs

/-! ## sequential calls -/

/-- one call with nobody else around, at `now`, the function taking `lat` and returning `(out, val)`
(`out`: 0 value, 1 error): what the caller must get — `(out, val, function runs, elapsed)` — and the entry afterwards -/
def seqCall (exp now lat : Int) (e : Entry) (out val : Int) : (Int × Int × Int × Int) × Entry :=
  match live now e with
  | some v => ((0, v, 0, 0), e)
  | none =>
    if out == 1 then ((1, 0, 1, lat), e)
    else ((0, val, 1, lat), offer exp (now + lat) e val)

end GoguVerif.Spec.C17
