/-!
# C08 — expiring cache as a map with per-entry deadlines (the specification)

Time is explicit: the state carries `now` (milliseconds since the cache was created); `sleep`
advances it and lets the background cleanup tick.  The property is silent about the single instant
`now = deadline` ("live before, expired after"), so the spec takes a choice `c` for that instant and
*both* choices are admitted behaviours (the monitor tracks the set of states still possible).

Reading (DESIGN.md §7 C08): "that map" contains every stored entry, including expired ones that
have not been purged yet; `Count`/`List` report it.
-/
namespace GoguVerif.Spec.C08

structure Entry where
  key : Int
  val : Int
  /-- absolute deadline in ms; `≤ 0` = never expires -/
  exp : Int
deriving Repr, DecidableEq, BEq

structure Cfg where
  /-- default expiry in ms: `< 0` none, `0` none, `> 0` that long -/
  defExp : Int
  /-- cleanup interval in ms; `≤ 0` = no background cleanup -/
  cleanup : Int
  /-- string-valued cache: value `0` stands for the empty string, which is rejected -/
  strVals : Bool
deriving Repr

structure St where
  now : Int := 0
  es : List Entry := []
deriving Repr, DecidableEq, BEq

inductive Op where
  | set (k v d : Int)
  | update (k v d : Int)
  | get (k : Int)
  | delete (k : Int)
  | flush
  | deleteExpired
  | count
  | list
  | mapToCache (kvs : List (Int × Int)) (d : Int)
  | isExpired (k : Int)
  | sleep (ms : Int)
deriving Repr

inductive Out where
  | err (e : Bool)                    -- error flag (`false` = success)
  | got (v : Option Int)              -- `none` = error (missing or expired)
  | unit
  | int (n : Int)
  | items (l : List (Int × Int))      -- sorted by key
  | bool (b : Bool)
deriving Repr, DecidableEq

/-- `c` decides the instant `now = exp`. -/
def live (c : Bool) (now : Int) (e : Entry) : Bool :=
  e.exp ≤ 0 || now < e.exp || (c && now == e.exp)

def find (k : Int) (es : List Entry) : Option Entry := es.find? (·.key == k)

def expOf (cfg : Cfg) (now d : Int) : Int :=
  let d := if d == 0 then cfg.defExp else d
  if d > 0 then now + d else if d < 0 then -1 else 0

def accepted (cfg : Cfg) (v : Int) : Bool := !(cfg.strVals && v == 0)

def store (k v exp : Int) (es : List Entry) : List Entry :=
  ⟨k, v, exp⟩ :: es.filter (fun e => !(e.key == k))

/-- insert `e` into a key-sorted list -/
def insertSorted (e : Int × Int) : List (Int × Int) → List (Int × Int)
  | [] => [e]
  | x :: r => if e.1 ≤ x.1 then e :: x :: r else x :: insertSorted e r

def sortedItems (es : List Entry) : List (Int × Int) :=
  es.foldr (fun e acc => insertSorted (e.key, e.val) acc) []

/-- `Set`: stores only if the key has no live entry and the value is accepted. -/
def setOne (cfg : Cfg) (c : Bool) (s : St) (k v d : Int) : St × Bool :=
  let blocked := match find k s.es with
    | some e => live c s.now e
    | none => false
  if blocked then (s, true)
  else if !(accepted cfg v) then (s, true)
  else ({ s with es := store k v (expOf cfg s.now d) s.es }, false)

/-- background cleanup: ticks at every multiple of `cleanup` in `(from, to]` purge the entries
that are expired at the tick. -/
def purgeAt (c : Bool) (t : Int) (es : List Entry) : List Entry := es.filter (live c t)

def ticks (cfg : Cfg) (c : Bool) (fuel : Nat) (t to : Int) (es : List Entry) : List Entry :=
  match fuel with
  | 0 => es
  | fuel + 1 =>
    -- next tick strictly after t
    let nt := (t / cfg.cleanup + 1) * cfg.cleanup
    if nt ≤ to then ticks cfg c fuel nt to (purgeAt c nt es) else es

def step (cfg : Cfg) (c : Bool) (s : St) : Op → St × Out
  | .set k v d => let (s', e) := setOne cfg c s k v d; (s', .err e)
  | .update k v d =>
    if accepted cfg v then ({ s with es := store k v (expOf cfg s.now d) s.es }, .err false)
    else (s, .err true)
  | .get k =>
    match find k s.es with
    | some e => (s, .got (if live c s.now e then some e.val else none))
    | none => (s, .got none)
  | .delete k =>
    match find k s.es with
    | some _ => ({ s with es := s.es.filter (fun e => !(e.key == k)) }, .err false)
    | none => (s, .err true)
  | .flush => ({ s with es := [] }, .unit)
  | .deleteExpired => ({ s with es := purgeAt c s.now s.es }, .err false)
  | .count => (s, .int s.es.length)
  | .list => (s, .items (sortedItems s.es))
  | .mapToCache kvs d =>
    let (s', anyErr) := kvs.foldl (fun (acc : St × Bool) kv =>
      let (s1, e) := setOne cfg c acc.1 kv.1 kv.2 d
      (s1, acc.2 || e)) (s, false)
    (s', .err anyErr)
  | .isExpired k =>
    match find k s.es with
    | some e => (s, .bool (!(live c s.now e)))
    | none => (s, .bool false)
  | .sleep ms =>
    let to := s.now + ms
    let es := if cfg.cleanup > 0 then ticks cfg c (ms.toNat + 1) s.now to s.es else s.es
    ({ now := to, es := es }, .unit)

/-- All behaviours the property admits for one step. -/
def stepAll (cfg : Cfg) (s : St) (op : Op) : List (St × Out) := [step cfg true s op, step cfg false s op]

end GoguVerif.Spec.C08
