/-!
# C03 — heap: comparator order and conservation (the specification)

Abstract state: the multiset of held elements (a list, compared up to permutation) and the current
comparator.  `comp a b = true` means "a precedes b".  Everything here is independent of the array
model; `check…` are the decidable monitors used by the driver on the implementation's answers.
-/
namespace GoguVerif.Spec.C03

variable {α : Type} [DecidableEq α]

/-- No held element precedes `x` (x is extremal). -/
def Extremal (comp : α → α → Bool) (held : List α) (x : α) : Prop :=
  x ∈ held ∧ ∀ y ∈ held, comp y x = false

instance (comp : α → α → Bool) (held : List α) (x : α) : Decidable (Extremal comp held x) := by
  unfold Extremal; infer_instance

/-- Strict weak order: what "strict-ordering comparator" has to mean for a binary heap. -/
structure SWO (comp : α → α → Bool) : Prop where
  irrefl : ∀ a, comp a a = false
  trans : ∀ a b c, comp a b = true → comp b c = true → comp a c = true
  negTrans : ∀ a b c, comp a b = false → comp b c = false → comp a c = false

/-- Multiset equality of two lists, decidable. -/
def sameElems (a b : List α) : Bool := a.isPerm b

/-- Output order demanded of `Sort`: no later element precedes... i.e. ordered oppositely to the
comparator: for i < j, `comp out[i] out[j] = false`. -/
def SortedOpp (comp : α → α → Bool) : List α → Prop
  | [] => True
  | x :: r => (∀ y ∈ r, comp x y = false) ∧ SortedOpp comp r

instance (comp : α → α → Bool) : (l : List α) → Decidable (SortedOpp comp l)
  | [] => isTrue trivial
  | x :: r =>
    have := instDecidableSortedOpp comp r
    by unfold SortedOpp; infer_instance

/-- Monitor clauses (each returns `true` iff the implementation's answer is allowed). -/
def checkPeek [Inhabited α] (comp : α → α → Bool) (held : List α) (x : α) : Bool :=
  if held.isEmpty then decide (x = default) else decide (Extremal comp held x)

def checkSort (comp : α → α → Bool) (input out : List α) : Bool :=
  sameElems input out && decide (SortedOpp comp out)

end GoguVerif.Spec.C03
