/-!
# C03 — heap: comparator order and conservation (the specification)

Abstract state: the multiset of held elements (a list, compared up to permutation) and the current
comparator.  `comp a b = true` means "a precedes b".  Everything here is independent of the array
model; `check…` are the decidable monitors used by the driver on the implementation's answers.
-/
namespace GoguVerif.Spec.C03

variable {α : Type} [DecidableEq α]

/-- No held element precedes `x` (x is extremal). -/
def Extremal (comp : α → α → Bool) (held : List α) (x : α) : Prop :=
  x ∈ held ∧ ∀ y ∈ held, comp y x = false

instance (comp : α → α → Bool) (held : List α) (x : α) : Decidable (Extremal comp held x) := by
  unfold Extremal; infer_instance

/-- Strict weak order: what "strict-ordering comparator" has to mean for a binary heap. -/
structure SWO (comp : α → α → Bool) : Prop where
  irrefl : ∀ a, comp a a = false
  trans : ∀ a b c, comp a b = true → comp b c = true → comp a c = true
  negTrans : ∀ a b c, comp a b = false → comp b c = false → comp a c = false

/-- Multiset equality of two lists, decidable. -/
def sameElems (a b : List α) : Bool := a.isPerm b

/-- Output order demanded of `Sort`: no later element precedes... i.e. ordered oppositely to the
comparator: for i < j, `comp out[i] out[j] = false`. -/
def SortedOpp (comp : α → α → Bool) : List α → Prop
  | [] => True
  | x :: r => (∀ y ∈ r, comp x y = false) ∧ SortedOpp comp r

instance (comp : α → α → Bool) : (l : List α) → Decidable (SortedOpp comp l)
  | [] => isTrue trivial
  | x :: r =>
    have := instDecidableSortedOpp comp r
    by unfold SortedOpp; infer_instance

/-- Monitor clauses (each returns `true` iff the implementation's answer is allowed). -/
def checkPeek [Inhabited α] (comp : α → α → Bool) (held : List α) (x : α) : Bool :=
  if held.isEmpty then decide (x = default) else decide (Extremal comp held x)

def checkSort (comp : α → α → Bool) (input out : List α) : Bool :=
  sameElems input out && decide (SortedOpp comp out)

/-! ## Operations, observable answers and the relational step of the abstract heap

The abstract state is the multiset of held elements (a list up to `List.Perm`) and the current
comparator.  The step is *relational*: which of several tied extremal elements `Peek`/`Pop` return,
and in which order `GetValues` lists the elements, is left open.  (Added for the refinement theorems;
the monitor clauses above are unchanged.) -/

inductive Op (α : Type) where
  | push (v : α)
  | pushn (vs : List α)                       -- variadic `Push(vs...)`
  | pop
  | peek
  | size
  | isEmpty
  | clear
  | values                                    -- `GetValues`
  | delete (v : α)
  | convert (comp : α → α → Bool)
  | merge (arg : List α)                      -- `h.Merge(h2)`, `h2` = fresh heap with `arg` pushed; result becomes current
  | meld (arg : List α)                       -- `h.Meld(h2)`, same
  | fromSlice (data : List α) (comp : α → α → Bool)

inductive Out (α : Type) where
  | unit
  | val (x : α)
  | int (n : Nat)
  | bool (b : Bool)
  | del (ok : Bool)                           -- `Delete`: `true`/nil or `false`/error
  | vals (l : List α)
  | merged (recv arg new : List α) (sizeRecv sizeArg : Nat)

structure SState (α : Type) where
  comp : α → α → Bool
  held : List α

/-- `SpecStep s op out s'`: answer `out` and successor `s'` are admitted by the property. -/
def SpecStep [Inhabited α] (s : SState α) (op : Op α) (out : Out α) (s' : SState α) : Prop :=
  match op with
  | .push v => out = .unit ∧ s'.comp = s.comp ∧ s'.held.Perm (v :: s.held)
  | .pushn vs => out = .unit ∧ s'.comp = s.comp ∧ s'.held.Perm (vs ++ s.held)
  | .pop =>
    s'.comp = s.comp ∧
    ((s.held = [] ∧ out = .val default ∧ s'.held = []) ∨
     (∃ x, out = .val x ∧ Extremal s.comp s.held x ∧ s'.held.Perm (s.held.erase x)))
  | .peek =>
    s'.comp = s.comp ∧ s'.held.Perm s.held ∧
    ((s.held = [] ∧ out = .val default) ∨ (∃ x, out = .val x ∧ Extremal s.comp s.held x))
  | .size => out = .int s.held.length ∧ s'.comp = s.comp ∧ s'.held.Perm s.held
  | .isEmpty => out = .bool s.held.isEmpty ∧ s'.comp = s.comp ∧ s'.held.Perm s.held
  | .clear => out = .unit ∧ s'.comp = s.comp ∧ s'.held = []
  | .values => (∃ l, out = .vals l ∧ l.Perm s.held) ∧ s'.comp = s.comp ∧ s'.held.Perm s.held
  | .delete v =>
    s'.comp = s.comp ∧
    ((v ∈ s.held ∧ out = .del true ∧ s'.held.Perm (s.held.erase v)) ∨
     (v ∉ s.held ∧ out = .del false ∧ s'.held.Perm s.held))
  | .convert c => out = .unit ∧ s'.comp = c ∧ s'.held.Perm s.held
  | .merge arg =>
    s'.comp = s.comp ∧ s'.held.Perm (s.held ++ arg) ∧
    ∃ r a n, out = .merged r a n s.held.length arg.length ∧ r.Perm s.held ∧ a.Perm arg ∧ n.Perm (s.held ++ arg)
  | .meld arg =>
    s'.comp = s.comp ∧ s'.held.Perm (s.held ++ arg) ∧
    ∃ n, out = .merged [] [] n 0 0 ∧ n.Perm (s.held ++ arg)
  | .fromSlice data c => (∃ l, out = .vals l ∧ l.Perm data) ∧ s'.comp = c ∧ s'.held.Perm data

/-- A whole history: every answer is admitted, step after step. -/
inductive SpecRun [Inhabited α] : SState α → List (Op α) → List (Out α) → SState α → Prop
  | nil (s : SState α) : SpecRun s [] [] s
  | cons {s s' s'' : SState α} {op : Op α} {out : Out α} {ops : List (Op α)} {outs : List (Out α)} :
      SpecStep s op out s' → SpecRun s' ops outs s'' → SpecRun s (op :: ops) (out :: outs) s''

/-- The conservation half of the property alone (Size / multiset bookkeeping, `Peek`/`Pop` answer a
held element), without the order clause: `SpecStep` with `Extremal` weakened to membership. -/
def ConsStep [Inhabited α] (s : SState α) (op : Op α) (out : Out α) (s' : SState α) : Prop :=
  match op with
  | .pop =>
    s'.comp = s.comp ∧
    ((s.held = [] ∧ out = .val default ∧ s'.held = []) ∨
     (∃ x, out = .val x ∧ x ∈ s.held ∧ s'.held.Perm (s.held.erase x)))
  | .peek =>
    s'.comp = s.comp ∧ s'.held.Perm s.held ∧
    ((s.held = [] ∧ out = .val default) ∨ (∃ x, out = .val x ∧ x ∈ s.held))
  | op => SpecStep s op out s'

inductive ConsRun [Inhabited α] : SState α → List (Op α) → List (Out α) → SState α → Prop
  | nil (s : SState α) : ConsRun s [] [] s
  | cons {s s' s'' : SState α} {op : Op α} {out : Out α} {ops : List (Op α)} {outs : List (Out α)} :
      ConsStep s op out s' → ConsRun s' ops outs s'' → ConsRun s (op :: ops) (out :: outs) s''

end GoguVerif.Spec.C03
