/-!
# C20 — Delay, debounce and throttle never fire early or more often than allowed (specification)

Time is a parameter: a history is a list of events, `advance dt` lets `dt` ms pass, every other event
happens at an instant.  The instant of the `k`-th event is `clock (evs.take k)`.

The file has three parts per function:
* the vocabulary (events),
* the property as `Prop`s over a history and what the implementation did (`FireOK`, `Spaced`, …),
  written from the statement, not from the code,
* a decidable monitor that judges the implementation's own trace (`DMon`, `LMon`, `TMon`).

Core Lean only.
-/
namespace GoguVerif.Spec.C20

/-! ## Debounce / Delay: vocabulary -/

/-- events of a debounce history -/
inductive DEv where
  | call
  | cancel
  | advance (dt : Nat)
deriving Repr, DecidableEq, Inhabited

def DEv.isAdvance : DEv → Bool
  | .advance _ => true
  | _ => false

def DEv.dt : DEv → Nat
  | .advance d => d
  | _ => 0

/-- virtual time elapsed over a history -/
def clock : List DEv → Int
  | [] => 0
  | e :: r => (e.dt : Int) + clock r

/-! ## Debounce: the property

One execution of the debounced callback is described by `(f, i, tc)`: it ran at instant `f` and was
scheduled by event number `i`, which happened at instant `tc`. -/

/-- "never sooner than `wait` after the most recent call, not at all after cancel": the execution
belongs to a `call` event `i` at instant `tc`, runs no earlier than `tc + wait`, and every event
after `i` that happens strictly before the execution is a passage of time (no newer call — so `i`
is the most recent one — and no cancel). -/
structure FireOK (wait : Nat) (evs : List DEv) (f : Int) (i : Nat) (tc : Int) : Prop where
  isCall : evs[i]? = some DEv.call
  callTime : clock (evs.take i) = tc
  notEarly : tc + wait ≤ f
  mostRecent : ∀ k e, i < k → evs[k]? = some e → clock (evs.take k) < f → e.isAdvance = true

/-- decidable form of `FireOK` restricted to the events seen so far -/
def fireOKb (wait : Nat) (evs : List DEv) (f : Int) (i : Nat) (tc : Int) : Bool :=
  evs[i]? == some DEv.call && clock (evs.take i) == tc && decide (tc + wait ≤ f) &&
  (List.range evs.length).all fun k =>
    match evs[k]? with
    | some e => !(decide (i < k) && decide (clock (evs.take k) < f)) || e.isAdvance
    | none => true

/-- index of the last non-advance event of a history -/
def lastNonAdvance : List DEv → Option (Nat × DEv) :=
  fun evs => go evs 0 none
where
  go : List DEv → Nat → Option (Nat × DEv) → Option (Nat × DEv)
    | [], _, acc => acc
    | e :: r, k, acc => go r (k + 1) (if e.isAdvance then acc else some (k, e))

/-! ## Debounce: monitor over the implementation's trace

The harness reports executions as `(fireTime, callNo, callTime)`; the driver translates `callNo` into
the position of that call in the history. -/

structure DMon where
  wait : Nat
  /-- history so far, newest first -/
  rev : List DEv := []
  len : Nat := 0
  now : Int := 0
  /-- positions (in the history) of the `call` events, newest first -/
  callPos : List Nat := []
  ncalls : Nat := 0
  /-- last non-advance event: position, is it a call, instant -/
  lastNA : Option (Nat × Bool × Int) := none
  /-- executions accepted so far (fireTime, position, callTime), oldest first -/
  seen : List (Int × Nat × Int) := []

def DMon.push (m : DMon) (e : DEv) : DMon :=
  { m with rev := e :: m.rev, len := m.len + 1, now := m.now + e.dt,
           callPos := if e == .call then m.len :: m.callPos else m.callPos,
           ncalls := if e == .call then m.ncalls + 1 else m.ncalls,
           lastNA := if e.isAdvance then m.lastNA else some (m.len, e == .call, m.now) }

/-- position of call number `k` (0-based) -/
def DMon.posOfCall (m : DMon) (k : Nat) : Option Nat :=
  if k < m.ncalls then m.callPos[m.ncalls - 1 - k]? else none

/-- judge a `fired` observation: the reported log (with positions) at the monitor's instant.
Returns the violated clause, if any, and the new monitor state. -/
def DMon.onFired (m : DMon) (log : List (Int × Nat × Int)) : Option String × DMon :=
  -- the log only grows
  if log.take m.seen.length != m.seen then (some "debounce:log-grows-only", m)
  else
    let extra := log.drop m.seen.length
    let evs := if extra.isEmpty then [] else m.rev.reverse
    let rec chk (old : List (Int × Nat × Int)) (extra : List (Int × Nat × Int)) : Option String :=
      match extra with
      | [] => none
      | (f, i, tc) :: r =>
        if old.any (fun o => o.2.1 == i) then some "debounce:at-most-once-per-burst"
        else if f > m.now then some "debounce:fire-time-in-the-future"
        else if evs[i]? != some DEv.call || clock (evs.take i) != tc then some "debounce:belongs-to-a-call"
        else if f < tc + m.wait then some "debounce:never-early"
        else if !(fireOKb m.wait evs f i tc) then some "debounce:most-recent-call-and-none-after-cancel"
        else chk (old ++ [(f, i, tc)]) r
    match chk m.seen extra with
    | some c => (some c, { m with seen := log })
    | none =>
      let m := { m with seen := log }
      -- completeness: the last call or cancel was a call, `wait` has passed: it must have run
      match m.lastNA with
      | some (i, true, tc) =>
        if tc + m.wait ≤ m.now && !(log.any fun o => o.2.1 == i) then (some "debounce:does-run", m)
        else (none, m)
      | _ => (none, m)

/-! ## Delay: vocabulary, property, monitor -/

inductive LEv where
  | delay (d : Int)
  | stop (id : Nat)
  | advance (dt : Nat)
deriving Repr, DecidableEq, Inhabited

def LEv.dt : LEv → Nat
  | .advance d => d
  | _ => 0

def lclock : List LEv → Int
  | [] => 0
  | e :: r => (e.dt : Int) + lclock r

/-- one execution `(f, i, tc)` of a delayed callback: scheduled by the `delay d` event `i` at instant
`tc`, it runs no earlier than `tc + d`, and no `stop` of that timer happened before it ran
(`idOf i` = the timer id handed out by event `i`). -/
structure DelayOK (evs : List LEv) (idOf : Nat → Nat) (f : Int) (i : Nat) (tc : Int) : Prop where
  isDelay : ∃ d, evs[i]? = some (LEv.delay d) ∧ tc + d ≤ f
  callTime : lclock (evs.take i) = tc
  notStopped : ∀ k, i < k → evs[k]? = some (LEv.stop (idOf i)) → f ≤ lclock (evs.take k)

structure LTimer where
  id : Nat
  d : Int
  tc : Int
  stopped : Option Int := none   -- instant of the first Stop
deriving Repr, BEq

structure LMon where
  now : Int := 0
  timers : List LTimer := []     -- oldest first
  seen : List (Int × Nat × Int) := []

/-- judge a `fired` observation (sorted by fire time, id) -/
def LMon.onFired (m : LMon) (log : List (Int × Nat × Int)) : Option String :=
  let rec nodup : List (Int × Nat × Int) → Bool
    | [] => true
    | x :: r => !(r.any fun y => y.2.1 == x.2.1) && nodup r
  if !(nodup log) then some "delay:at-most-once"
  else if !(m.seen.all fun o => log.contains o) then some "delay:log-grows-only"
  else
    let bad := log.find? fun (f, id, tc) =>
      match m.timers.find? (·.id == id) with
      | none => true
      | some t => !(t.tc == tc && decide (tc + t.d ≤ f) && decide (f ≤ m.now) &&
                    (match t.stopped with | some s => decide (f ≤ s) | none => true))
    match bad with
    | some _ => some "delay:never-early-and-not-after-stop"
    | none =>
      -- completeness: every timer that was not stopped before its deadline has run by now
      let missing := m.timers.find? fun t =>
        decide (t.tc + max t.d 0 ≤ m.now) &&
        (match t.stopped with | some s => decide (t.tc + max t.d 0 < s) | none => true) &&
        !(log.any fun o => o.2.1 == t.id)
      match missing with
      | some _ => some "delay:does-run"
      | none => none

/-- the monitor's transitions: time passes, a `Delay` call (ids are handed out in order), a `Stop`
(only the instant of the first stop of a timer is remembered), an observation -/
def LMon.onSleep (m : LMon) (dt : Nat) : LMon := { m with now := m.now + dt }

def LMon.onDelay (m : LMon) (d : Int) : LMon :=
  { m with timers := m.timers ++ [{ id := m.timers.length, d := d, tc := m.now }] }

def LMon.onStop (m : LMon) (id : Nat) : LMon :=
  { m with timers := m.timers.map fun t =>
      if t.id == id && t.stopped.isNone then { t with stopped := some m.now } else t }

def LMon.observe (m : LMon) (log : List (Int × Nat × Int)) : LMon := { m with seen := log }

/-! ## Throttle: vocabulary -/

inductive TEv where
  | call
  | cancel
  | next (id : Nat)
  | advance (dt : Nat)
deriving Repr, DecidableEq, Inhabited

def TEv.dt : TEv → Nat
  | .advance d => d
  | _ => 0

def tclock : List TEv → Int
  | [] => 0
  | e :: r => (e.dt : Int) + tclock r

/-! ## Throttle: the property

A permission is a `Next` returning `true`, stamped with the instant of its return. -/

/-- consecutive permissions are at least `dur` apart — strictly more when not trailing -/
def gapOK (dur : Nat) (trailing : Bool) (prev t : Int) : Bool :=
  if trailing then decide (prev + dur ≤ t) else decide (prev + dur < t)

/-- the spacing of a chronological list of permission instants -/
def spacedOK (dur : Nat) (trailing : Bool) : List Int → Bool
  | a :: b :: r => gapOK dur trailing a b && spacedOK dur trailing (b :: r)
  | _ => true

/-- a permission at instant `t`, handed out at position `pos` of the history, is justified by the
trigger `(cp, ct)` (a `Call` at position `cp`, instant `ct`) given the previous permission
`(pt, ppos)`: the trigger came after the previous permission and not after this one; when not
trailing it came after the previous period had ended (a trigger inside the period is dropped). -/
def justifiedBy (dur : Nat) (trailing : Bool) (prev : Option (Int × Nat)) (t : Int) (pos : Nat)
    (c : Nat × Int) : Bool :=
  decide (c.1 ≤ pos) && decide (c.2 ≤ t) &&
  match prev with
  | none => true
  | some (pt, ppos) => decide (ppos < c.1) && (trailing || decide (pt + dur < c.2))

/-! ## Throttle: monitor over the implementation's trace

Positions are line numbers of the trace.  A permission seen in a `done` line was handed out somewhere
between the last line at which that `Next` was seen blocked (`lo`) and the `done` line (`pos`); the
monitor accepts whatever is consistent with some position in that window. -/

structure TPerm where
  t : Int
  lo : Nat
  pos : Nat
deriving Repr, BEq

structure TOpen where
  id : Nat
  startPos : Nat
  startTime : Int
  lastBlocked : Nat
deriving Repr, BEq

structure TMon where
  dur : Nat
  trailing : Bool
  now : Int := 0
  line : Nat := 0
  /-- triggers (position, instant), newest first -/
  calls : List (Nat × Int) := []
  lastPerm : Option TPerm := none
  nperms : Nat := 0
  cancel : Option (Nat × Int) := none
  opened : List TOpen := []
  completed : List Nat := []

def TMon.tick (m : TMon) : TMon := { m with line := m.line + 1 }

/-- a `Next` (started at `startPos`) is seen to have returned `true` at instant `t` -/
def TMon.onPerm (m : TMon) (t : Int) (lo : Nat) : Option String × TMon :=
  let pos := m.line
  let m' := { m with lastPerm := some { t := t, lo := lo, pos := pos }, nperms := m.nperms + 1 }
  let afterCancel := match m.cancel with
    | some (cpos, _) => decide (cpos ≤ lo)
    | none => false
  if afterCancel then (some "throttle:no-permission-after-cancel", m')
  else
    let spacing := match m.lastPerm with
      | some p => gapOK m.dur m.trailing p.t t
      | none => true
    if !spacing then
      (some (if m.trailing then "throttle:one-permission-per-period" else "throttle:one-permission-per-period-strict"), m')
    else
      let prev := m.lastPerm.map fun p => (p.t, p.lo)
      if m.calls.any (justifiedBy m.dur m.trailing prev t pos) then (none, m')
      else if !m.trailing && m.calls.any (justifiedBy m.dur true prev t pos) then
        (some "throttle:in-period-trigger-kept-without-trailing", m')
      else (some "throttle:permission-needs-a-trigger-after-the-previous-one", m')

/-- a `Next` is seen to have returned `false` at instant `t` -/
def TMon.onFalse (m : TMon) (o : TOpen) (t : Int) : Option String :=
  match m.cancel with
  | none => some "throttle:false-only-after-cancel"
  | some (cpos, ctime) =>
    if o.startPos < cpos then
      if t == ctime then none else some "throttle:cancel-releases-blocked-next-at-once"
    else
      if t == o.startTime then none else some "throttle:next-after-cancel-returns-false-at-once"

def firstSome (a b : Option String) : Option String :=
  match a with
  | some _ => a
  | none => b

/-- `next` line: `r = none` blocked, `some b` returned `b` already -/
def TMon.onNext (m : TMon) (id : Nat) (r : Option Bool) : Option String × TMon :=
  let o : TOpen := { id := id, startPos := m.line, startTime := m.now, lastBlocked := m.line }
  match r with
  | none =>
    let m' := { m with opened := m.opened ++ [o] }
    (if m.cancel.isSome then some "throttle:next-after-cancel-returns-false-at-once" else none, TMon.tick m')
  | some true =>
    let r := m.onPerm m.now m.line
    (r.1, TMon.tick { r.2 with completed := id :: r.2.completed })
  | some false =>
    (m.onFalse o m.now, TMon.tick { m with completed := id :: m.completed })

/-- `done` line: the completed `Next` calls `(id, returnTime, result)` in completion order -/
def TMon.onDone (m : TMon) (l : List (Nat × Int × Bool)) : Option String × TMon :=
  let rec go (m : TMon) (err : Option String) : List (Nat × Int × Bool) → Option String × TMon
    | [] => (err, m)
    | (id, t, res) :: r =>
      if m.completed.contains id then go m err r
      else
        match m.opened.find? (·.id == id) with
        | none => (firstSome err (some "throttle:unknown-next-id"), m)
        | some o =>
          let m1 := { m with opened := m.opened.filter (·.id != id), completed := id :: m.completed }
          if res then
            let pr := m1.onPerm t o.lastBlocked
            go pr.2 (firstSome err (firstSome (if t > m.now then some "throttle:return-time-in-the-future" else none) pr.1)) r
          else
            go m1 (firstSome err (m1.onFalse o t)) r
  let gr := go m none l
  let m1 := gr.2
  let err := firstSome gr.1
    (if m1.cancel.isSome && !m1.opened.isEmpty then some "throttle:cancel-releases-blocked-next-at-once" else none)
  (err, TMon.tick { m1 with opened := m1.opened.map fun o => { o with lastBlocked := m1.line } })

def TMon.onCall (m : TMon) : TMon :=
  TMon.tick { m with calls := (m.line, m.now) :: m.calls }

def TMon.onCancel (m : TMon) : TMon :=
  TMon.tick { m with cancel := match m.cancel with | some c => some c | none => some (m.line, m.now) }

def TMon.onSleep (m : TMon) (dt : Nat) : TMon :=
  TMon.tick { m with now := m.now + dt }

end GoguVerif.Spec.C20
