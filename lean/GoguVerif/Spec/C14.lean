/-!
# C14 — map helpers select, transform and invert entries exactly (the specification)

Written from the property statement, independently of the code's model.  An abstract map is a list
of entries with pairwise distinct keys; NOTHING below depends on the order of that list (all clauses
are stated through membership, `Perm` or `Nodup`), which is how "for every iteration order" enters.

Every clause is a decidable proposition, so `decide (…Spec …)` is the monitor that judges the
implementation's own answer.  Where the statement leaves order or choice open (`Keys`/`Values`
order, which qualifying entry `FindKey`/`FindByKey` return, which pre-image wins a collision in
`MapKeys`/`Invert`, which entry `MapUnique` keeps per value) every admissible answer is accepted.

Readings chosen so as not to demand more than the statement says:
* `Keys`/`Values`: "every key/value once" = a permutation of the entries' components (any order).
* `Pick` with no keys returns nothing; whether it also reports an error is not part of the statement
  and is not judged here (the model predicts the error flag; the correspondence run compares it).
* `FindKey` returns a bare key, so "no entry qualifies" can only show as the zero value of `K`
  (what `var result K` deliberately yields); `Find`/`FindByKey` return the empty map then.
* `MapKeys`/`Invert` under collisions: the result must consist of images of entries and contain every
  image key; WHICH pre-image wins is open.  `MapUnique`: which entry survives per value is open.
* `SliceToMap` "rejects unequal lengths" = the call panics (the code's deliberate `panic`); on equal
  lengths the value of the LAST position of a key wins.
* Collection filters and `PartitionMap`: plain order-preserving filters; "each NON-EMPTY map" — an
  empty map appears in neither output of `PartitionMap`.  Maps are compared as maps (the protocol
  carries them sorted by key on both sides).
Core Lean only.
-/
namespace GoguVerif.Spec.C14

abbrev AMap (K V : Type) := List (K × V)

variable {K V R : Type}

/-- the keys of a map are pairwise distinct -/
def WF (m : AMap K V) : Prop := (m.map Prod.fst).Nodup

instance [DecidableEq K] (m : AMap K V) : Decidable (WF m) := by unfold WF; infer_instance

/-- value stored under `k` (for a well-formed map there is at most one entry with key `k`) -/
def lookup [DecidableEq K] (m : AMap K V) (k : K) : Option V :=
  (m.find? (fun e => decide (e.1 = k))).map Prod.snd

/-! ## Keys / Values list every key / value once -/

def KeysSpec (m : AMap K V) (r : List K) : Prop := r.Perm (m.map Prod.fst)
def ValuesSpec (m : AMap K V) (r : List V) : Prop := r.Perm (m.map Prod.snd)

instance [DecidableEq K] (m : AMap K V) (r : List K) : Decidable (KeysSpec m r) := by
  unfold KeysSpec; infer_instance
instance [DecidableEq V] (m : AMap K V) (r : List V) : Decidable (ValuesSpec m r) := by
  unfold ValuesSpec; infer_instance

/-! ## Pick / PickBy / FilterMap return exactly the qualifying entries, Omit / OmitBy exactly the others -/

/-- `r` is a map holding exactly the entries of `m` selected by `sel` -/
def SelectSpec (m : AMap K V) (sel : K × V → Bool) (r : AMap K V) : Prop :=
  WF r ∧ (∀ e ∈ r, e ∈ m ∧ sel e = true) ∧ (∀ e ∈ m, sel e = true → e ∈ r)

instance [DecidableEq K] [DecidableEq V] (m : AMap K V) (sel : K × V → Bool) (r : AMap K V) :
    Decidable (SelectSpec m sel r) := by unfold SelectSpec; infer_instance

def PickSpec [DecidableEq K] (m : AMap K V) (keys : List K) (r : AMap K V) : Prop :=
  SelectSpec m (fun e => decide (e.1 ∈ keys)) r
def OmitSpec [DecidableEq K] (m : AMap K V) (keys : List K) (r : AMap K V) : Prop :=
  SelectSpec m (fun e => !decide (e.1 ∈ keys)) r
def PickBySpec (m : AMap K V) (fn : K → V → Bool) (r : AMap K V) : Prop :=
  SelectSpec m (fun e => fn e.1 e.2) r
def OmitBySpec (m : AMap K V) (fn : K → V → Bool) (r : AMap K V) : Prop :=
  SelectSpec m (fun e => !fn e.1 e.2) r
def FilterMapSpec (m : AMap K V) (fn : V → Bool) (r : AMap K V) : Prop :=
  SelectSpec m (fun e => fn e.2) r

instance [DecidableEq K] [DecidableEq V] (m : AMap K V) (keys : List K) (r : AMap K V) :
    Decidable (PickSpec m keys r) := by unfold PickSpec; infer_instance
instance [DecidableEq K] [DecidableEq V] (m : AMap K V) (keys : List K) (r : AMap K V) :
    Decidable (OmitSpec m keys r) := by unfold OmitSpec; infer_instance
instance [DecidableEq K] [DecidableEq V] (m : AMap K V) (fn : K → V → Bool) (r : AMap K V) :
    Decidable (PickBySpec m fn r) := by unfold PickBySpec; infer_instance
instance [DecidableEq K] [DecidableEq V] (m : AMap K V) (fn : K → V → Bool) (r : AMap K V) :
    Decidable (OmitBySpec m fn r) := by unfold OmitBySpec; infer_instance
instance [DecidableEq K] [DecidableEq V] (m : AMap K V) (fn : V → Bool) (r : AMap K V) :
    Decidable (FilterMapSpec m fn r) := by unfold FilterMapSpec; infer_instance

/-- "the two always partition the original map": together they hold every entry exactly once -/
def PartitionSpec (m picked omitted : AMap K V) : Prop := (picked ++ omitted).Perm m

instance [DecidableEq K] [DecidableEq V] (m a b : AMap K V) : Decidable (PartitionSpec m a b) := by
  unfold PartitionSpec; infer_instance

/-! ## MapValues / MapKeys preserve the association under the transformation -/

/-- same keys, every value replaced by its image -/
def MapValuesSpec (m : AMap K V) (fn : V → R) (r : AMap K R) : Prop :=
  r.Perm (m.map fun e => (e.1, fn e.2))

instance [DecidableEq K] [DecidableEq R] (m : AMap K V) (fn : V → R) (r : AMap K R) :
    Decidable (MapValuesSpec m fn r) := by unfold MapValuesSpec; infer_instance

/-- every entry of the result is the image of an entry of `m` (value unchanged, key transformed) and
the transformed key of every entry of `m` is present; when several keys collide, some pre-image wins -/
def MapKeysSpec (m : AMap K V) (fn : K → V → R) (r : AMap R V) : Prop :=
  WF r ∧ (∀ e ∈ r, ∃ e0 ∈ m, fn e0.1 e0.2 = e.1 ∧ e0.2 = e.2) ∧ (∀ e0 ∈ m, ∃ e ∈ r, e.1 = fn e0.1 e0.2)

instance [DecidableEq R] [DecidableEq V] (m : AMap K V) (fn : K → V → R) (r : AMap R V) :
    Decidable (MapKeysSpec m fn r) := by unfold MapKeysSpec; infer_instance

/-! ## Invert maps every value back to a key that held it -/

def InvertSpec (m : AMap K V) (r : AMap V K) : Prop :=
  WF r ∧ (∀ e ∈ r, (e.2, e.1) ∈ m) ∧ (∀ e0 ∈ m, ∃ e ∈ r, e.1 = e0.2)

instance [DecidableEq K] [DecidableEq V] (m : AMap K V) (r : AMap V K) : Decidable (InvertSpec m r) := by
  unfold InvertSpec; infer_instance

/-! ## Find: the qualifying entry with the smallest key; FindKey / FindByKey: some qualifying entry -/

def FindSpec (m : AMap Int V) (fn : V → Bool) (r : AMap Int V) : Prop :=
  ((∃ e ∈ m, fn e.2 = true) →
      ∃ e ∈ m, r = [e] ∧ fn e.2 = true ∧ ∀ e' ∈ m, fn e'.2 = true → e.1 ≤ e'.1) ∧
  ((¬ ∃ e ∈ m, fn e.2 = true) → r = [])

instance [DecidableEq V] (m : AMap Int V) (fn : V → Bool) (r : AMap Int V) : Decidable (FindSpec m fn r) := by
  unfold FindSpec; infer_instance

/-- the key of some qualifying entry; the zero value when no entry qualifies -/
def FindKeySpec [Inhabited K] (m : AMap K V) (fn : V → Bool) (k : K) : Prop :=
  ((∃ e ∈ m, fn e.2 = true) → ∃ e ∈ m, e.1 = k ∧ fn e.2 = true) ∧
  ((¬ ∃ e ∈ m, fn e.2 = true) → k = default)

instance [Inhabited K] [DecidableEq K] (m : AMap K V) (fn : V → Bool) (k : K) :
    Decidable (FindKeySpec m fn k) := by unfold FindKeySpec; infer_instance

/-- a one-entry map holding some entry whose key qualifies; empty when none does -/
def FindByKeySpec (m : AMap K V) (fn : K → Bool) (r : AMap K V) : Prop :=
  ((∃ e ∈ m, fn e.1 = true) → ∃ e ∈ m, r = [e] ∧ fn e.1 = true) ∧
  ((¬ ∃ e ∈ m, fn e.1 = true) → r = [])

instance [DecidableEq K] [DecidableEq V] (m : AMap K V) (fn : K → Bool) (r : AMap K V) :
    Decidable (FindByKeySpec m fn r) := by unfold FindByKeySpec; infer_instance

/-! ## Pluck: the value under the key from each map that has it, in order -/

def PluckSpec [DecidableEq K] (maps : List (AMap K V)) (key : K) (r : List V) : Prop :=
  r = maps.filterMap (fun m => lookup m key)

instance [DecidableEq K] [DecidableEq V] (maps : List (AMap K V)) (key : K) (r : List V) :
    Decidable (PluckSpec maps key r) := by unfold PluckSpec; infer_instance

/-! ## MapUnique keeps one entry per distinct value -/

def MapUniqueSpec (m r : AMap K V) : Prop :=
  WF r ∧ (∀ e ∈ r, e ∈ m) ∧ (r.map Prod.snd).Nodup ∧ (∀ e ∈ m, e.2 ∈ r.map Prod.snd)

instance [DecidableEq K] [DecidableEq V] (m r : AMap K V) : Decidable (MapUniqueSpec m r) := by
  unfold MapUniqueSpec; infer_instance

/-! ## MapEvery / MapSome / MapContains agree with quantification over the values -/

def EverySpec (m : AMap K V) (fn : V → Bool) (b : Bool) : Prop := b = true ↔ ∀ e ∈ m, fn e.2 = true
def SomeSpec (m : AMap K V) (fn : V → Bool) (b : Bool) : Prop := b = true ↔ ∃ e ∈ m, fn e.2 = true
def ContainsSpec (m : AMap K V) (value : V) (b : Bool) : Prop := b = true ↔ ∃ e ∈ m, e.2 = value

instance (m : AMap K V) (fn : V → Bool) (b : Bool) : Decidable (EverySpec m fn b) := by
  unfold EverySpec; infer_instance
instance (m : AMap K V) (fn : V → Bool) (b : Bool) : Decidable (SomeSpec m fn b) := by
  unfold SomeSpec; infer_instance
instance [DecidableEq V] (m : AMap K V) (value : V) (b : Bool) : Decidable (ContainsSpec m value b) := by
  unfold ContainsSpec; infer_instance

/-! ## SliceToMap pairs positions (last wins) and rejects unequal lengths -/

/-- the value paired with the LAST position at which `k` occurs -/
def lastVal [DecidableEq K] (pairs : List (K × V)) (k : K) : Option V := lookup pairs.reverse k

/-- `out = none`: the call was rejected (it panicked) -/
def SliceToMapSpec [DecidableEq K] (s1 : List K) (s2 : List V) (out : Option (AMap K V)) : Prop :=
  (s1.length ≠ s2.length → out = none) ∧
  (s1.length = s2.length → ∃ r, out = some r ∧ WF r ∧
      (∀ e ∈ r, lastVal (s1.zip s2) e.1 = some e.2) ∧ (∀ k ∈ s1, ∃ e ∈ r, e.1 = k))

/-- decidable form of the second clause -/
def sliceToMapOk [DecidableEq K] [DecidableEq V] (s1 : List K) (s2 : List V) : Option (AMap K V) → Bool
  | none => false
  | some r => decide (WF r ∧ (∀ e ∈ r, lastVal (s1.zip s2) e.1 = some e.2) ∧ (∀ k ∈ s1, ∃ e ∈ r, e.1 = k))

def sliceToMapCheck [DecidableEq K] [DecidableEq V] (s1 : List K) (s2 : List V) (out : Option (AMap K V)) : Bool :=
  if s1.length ≠ s2.length then out.isNone else sliceToMapOk s1 s2 out

theorem sliceToMapCheck_iff [DecidableEq K] [DecidableEq V] (s1 : List K) (s2 : List V) (out : Option (AMap K V)) :
    sliceToMapCheck s1 s2 out = true ↔ SliceToMapSpec s1 s2 out := by
  unfold sliceToMapCheck SliceToMapSpec
  by_cases h : s1.length = s2.length
  · cases out with
    | none => simp [h, sliceToMapOk]
    | some r => simp [h, sliceToMapOk]
  · cases out with
    | none => simp [h]
    | some r => simp [h]

/-! ## Collection filters and PartitionMap (order preserving) -/

/-- one of the values of the map qualifies -/
def hasQualifying (fn : V → Bool) (m : AMap K V) : Bool := m.any (fun e => fn e.2)

/-- exactly the maps with a qualifying value, each once, in the original order
(`Filter2DMapCollection` is the instance where the values are maps themselves) -/
def FilterCollSpec (coll : List (AMap K V)) (fn : V → Bool) (r : List (AMap K V)) : Prop :=
  r = coll.filter (hasQualifying fn)

instance [DecidableEq K] [DecidableEq V] (coll : List (AMap K V)) (fn : V → Bool) (r : List (AMap K V)) :
    Decidable (FilterCollSpec coll fn r) := by unfold FilterCollSpec; infer_instance

/-- every non-empty map goes to the first list if the predicate holds of it, else to the second -/
def PartitionMapSpec (coll : List (AMap K V)) (fn : AMap K V → Bool)
    (r : List (AMap K V) × List (AMap K V)) : Prop :=
  r.1 = coll.filter (fun m => !m.isEmpty && fn m) ∧ r.2 = coll.filter (fun m => !m.isEmpty && !fn m)

instance [DecidableEq K] [DecidableEq V] (coll : List (AMap K V)) (fn : AMap K V → Bool)
    (r : List (AMap K V) × List (AMap K V)) : Decidable (PartitionMapSpec coll fn r) := by
  unfold PartitionMapSpec; infer_instance

end GoguVerif.Spec.C14
