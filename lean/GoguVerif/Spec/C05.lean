/-!
# C05 — abstract FIFO queue (the specification)

The state is the sequence of held elements, oldest first.  `default` is Go's zero value.
This file is the *property*, written independently of the code's models.
-/
namespace GoguVerif.Spec.C05

inductive Op (α : Type) where
  | enqueue (x : α)
  | dequeue
  | peek
  | search (x : α)
  | size
  | clear
deriving Repr, DecidableEq

/-- Observable answers.  `deq v empty` : the dequeued value and whether emptiness was reported. -/
inductive Out (α : Type) where
  | unit
  | deq (v : α) (empty : Bool)
  | val (v : α)
  | bool (b : Bool)
  | int (n : Int)
deriving Repr, DecidableEq

variable {α : Type} [Inhabited α] [DecidableEq α]

/-- One step of the abstract FIFO. -/
def step (s : List α) : Op α → List α × Out α
  | .enqueue x => (s ++ [x], .unit)
  | .dequeue => match s with
    | [] => ([], .deq default true)          -- reports emptiness, changes nothing
    | x :: r => (r, .deq x false)
  | .peek => (s, .val (s.head?.getD default))
  | .search x => (s, .bool (decide (x ∈ s)))
  | .size => (s, .int s.length)
  | .clear => ([], .unit)

/-- Run a whole history from a given content; returns final content and the outputs. -/
def run (s : List α) : List (Op α) → List α × List (Out α)
  | [] => (s, [])
  | op :: ops =>
    let (s', o) := step s op
    let (s'', os) := run s' ops
    (s'', o :: os)

/-- Monitor: does answer `o` of the implementation agree with the spec in abstract state `s`? -/
def check (s : List α) (op : Op α) (o : Out α) : Bool := decide ((step s op).2 = o)

end GoguVerif.Spec.C05
