/-!
# C19 — linked lists as sequences (the specification)

The abstract state is a non-empty sequence.  The spec is *relational* in one place: `Shift` on a
one-element list removes nothing and the property does not fix the remaining value (`DList.Shift`
resets it to the zero value, `SList.Shift` keeps it), so both are admitted.
-/
namespace GoguVerif.Spec.C19

inductive Op where
  | unshift (v : Int)
  | append (v : Int)
  | shift
  | pop
  | insertAfter (x v : Int)       -- handle = Find x (not attempted when absent)
  | insertBefore (x v : Int)
  | delete (x : Int)
  | replace (old new : Int)
  | find (x : Int)
  | first
  | last
  | each
deriving Repr, DecidableEq

/-- answer of an edit/observer next to the sequence observed afterwards -/
inductive Ans where
  | ok
  | err
  | notFound
  | bool (b : Bool)
  | val (v : Int)
  | none
deriving Repr, DecidableEq

def insertAfterFirst (x v : Int) : List Int → List Int
  | [] => []
  | y :: r => if y = x then y :: v :: r else y :: insertAfterFirst x v r

def insertBeforeFirst (x v : Int) : List Int → List Int
  | [] => []
  | y :: r => if y = x then v :: y :: r else y :: insertBeforeFirst x v r

def replaceFirst (o n : Int) : List Int → List Int
  | [] => []
  | y :: r => if y = o then n :: r else y :: replaceFirst o n r

/-- `Allowed xs op ans xs'`: from sequence `xs`, operation `op` may answer `ans` and leave `xs'`.
`shiftVal`: whether the list type's `Shift` reports the removed value (`DList`) or nothing (`SList`). -/
def Allowed (shiftVal : Bool) (xs : List Int) (op : Op) (ans : Ans) (xs' : List Int) : Prop :=
  match op with
  | .unshift v => ans = .ok ∧ xs' = v :: xs
  | .append v => ans = .ok ∧ xs' = xs ++ [v]
  | .shift =>
    (if shiftVal then ans = .val (xs.head?.getD 0) else ans = .ok) ∧
    (if xs.length > 1 then xs' = xs.tail else (xs' = xs ∨ xs' = [0]))
  | .pop => ans = .ok ∧ xs' = (if xs.length > 1 then xs.dropLast else xs)
  | .insertAfter x v =>
    if x ∈ xs then ans = .ok ∧ xs' = insertAfterFirst x v xs else ans = .notFound ∧ xs' = xs
  | .insertBefore x v =>
    if x ∈ xs then ans = .ok ∧ xs' = insertBeforeFirst x v xs else ans = .notFound ∧ xs' = xs
  | .delete x =>
    if x ∈ xs then
      (if xs.length > 1 then ans = .ok ∧ xs' = xs.erase x else ans = .err ∧ xs' = xs)
    else ans = .notFound ∧ xs' = xs
  | .replace o n =>
    if o ∈ xs then ans = .ok ∧ xs' = replaceFirst o n xs else ans = .err ∧ xs' = xs
  | .find x => ans = .bool (decide (x ∈ xs)) ∧ xs' = xs
  | .first => ans = .val (xs.head?.getD 0) ∧ xs' = xs
  | .last => ans = .val (xs.getLast?.getD 0) ∧ xs' = xs
  | .each => ans = .none ∧ xs' = xs

instance (sv : Bool) (xs : List Int) (op : Op) (ans : Ans) (xs' : List Int) :
    Decidable (Allowed sv xs op ans xs') := by
  unfold Allowed
  cases op <;> simp only <;> infer_instance

/-- The admitted outcome as a function: what `Allowed` prescribes wherever it leaves no choice (everything except
`Shift` on a one-element list, where the remaining value is open; this function then keeps the sequence).  Used by
the monitor for *quiet* operations of long runs, whose sequence is not printed after every step
(`Theorems/C19.lean: next_allowed`, `allowed_eq_next`). -/
def next (shiftVal : Bool) (xs : List Int) : Op → Ans × List Int
  | .unshift v => (.ok, v :: xs)
  | .append v => (.ok, xs ++ [v])
  | .shift => (if shiftVal then .val (xs.head?.getD 0) else .ok, if xs.length > 1 then xs.tail else xs)
  | .pop => (.ok, if xs.length > 1 then xs.dropLast else xs)
  | .insertAfter x v => if x ∈ xs then (.ok, insertAfterFirst x v xs) else (.notFound, xs)
  | .insertBefore x v => if x ∈ xs then (.ok, insertBeforeFirst x v xs) else (.notFound, xs)
  | .delete x =>
    if x ∈ xs then (if xs.length > 1 then (.ok, xs.erase x) else (.err, xs)) else (.notFound, xs)
  | .replace o n => if o ∈ xs then (.ok, replaceFirst o n xs) else (.err, xs)
  | .find x => (.bool (decide (x ∈ xs)), xs)
  | .first => (.val (xs.head?.getD 0), xs)
  | .last => (.val (xs.getLast?.getD 0), xs)
  | .each => (.none, xs)

/-- the `n` values `a, a+1, …` pushed to the front one by one (`fill`): the last one pushed comes first -/
def fillFront (a : Int) : Nat → List Int → List Int
  | 0, xs => xs
  | n + 1, xs => fillFront (a + 1) n (a :: xs)

/-- position-weighted checksum of a sequence (quiet observation of long lists) -/
def checksum (xs : List Int) : Int :=
  (xs.foldl (fun (acc : Int × Int) v => ((acc.1 + acc.2 * v) % 1000000007, acc.2 + 1)) (0, 1)).1

/-! ## kept handles

A caller may keep the node handle `Find` gave it and use it later.  The specification follows the *position* of the
designated element through the edits in between.  Both list types embed their first node by value and replace it by
copying (`Unshift`, `Shift`, `Delete`/`InsertBefore` of the first element), and `SList.Delete` copies the successor
over the deleted node: a handle whose node is copied from or overwritten no longer designates an element of the
sequence — the property says nothing about it (`moveIdx = none`; the monitor then gives no verdict). -/

/-- what an edit does to positions: a new element at `p`, the element at `p` removed, or nothing -/
inductive Edit where
  | ins (p : Nat)
  | del (p : Nat)
  | none
deriving Repr, DecidableEq

/-- the edit a (successful) operation on the sequence `xs` performs -/
def editOf (xs : List Int) : Op → Edit
  | .unshift _ => .ins 0
  | .shift => if xs.length > 1 then .del 0 else .none
  | .pop => if xs.length > 1 then .del (xs.length - 1) else .none
  | .insertAfter x _ => match xs.idxOf? x with
    | some p => .ins (p + 1)
    | none => .none
  | .insertBefore x _ => match xs.idxOf? x with
    | some p => .ins p
    | none => .none
  | .delete x => match xs.idxOf? x with
    | some p => if xs.length > 1 then .del p else .none
    | none => .none
  | _ => .none

/-- where the element designated by a kept handle (position `i ≥ 1`) is after the edit -/
def moveIdx (dbl : Bool) (e : Edit) (i : Nat) : Option Nat :=
  match e with
  | .none => some i
  | .ins p => some (if p ≤ i then i + 1 else i)
  | .del p =>
    if i = p then none
    else if i < p then some i
    else if p = 0 ∧ i = 1 then none              -- the second node is copied into the embedded first node
    else if !dbl ∧ i = p + 1 then none           -- `SList.Delete` copies the successor over the deleted node
    else some (i - 1)

/-- operations through a kept handle that designates position `i` -/
inductive HOp where
  | deleteH (i : Nat)
  | insertAfterH (i : Nat) (v : Int)
  | insertBeforeH (i : Nat) (v : Int)
deriving Repr, DecidableEq

/-- "Delete removes exactly that node … InsertAfter/InsertBefore place the new value next to the node" -/
def AllowedH (xs : List Int) (op : HOp) (ans : Ans) (xs' : List Int) : Prop :=
  match op with
  | .deleteH i => if xs.length > 1 then ans = .ok ∧ xs' = xs.eraseIdx i else ans = .err ∧ xs' = xs
  | .insertAfterH i v => ans = .ok ∧ xs' = (xs.take (i + 1)) ++ v :: xs.drop (i + 1)
  | .insertBeforeH i v => ans = .ok ∧ xs' = (xs.take i) ++ v :: xs.drop i

instance (xs : List Int) (op : HOp) (ans : Ans) (xs' : List Int) : Decidable (AllowedH xs op ans xs') := by
  unfold AllowedH
  cases op <;> simp only <;> infer_instance

def editOfH (xs : List Int) : HOp → Edit
  | .deleteH i => if xs.length > 1 then .del i else .none
  | .insertAfterH i _ => .ins (i + 1)
  | .insertBeforeH i _ => .ins i

/-- A whole observed history `obs` (answer, sequence observed afterwards — one entry per operation)
is admitted from the sequence `xs`. -/
def Holds (sv : Bool) : List Int → List Op → List (Ans × List Int) → Prop
  | _, [], [] => True
  | xs, op :: ops, (ans, xs') :: obs => Allowed sv xs op ans xs' ∧ Holds sv xs' ops obs
  | _, _, _ => False

end GoguVerif.Spec.C19
