/-!
# C07 — LRU cache (the specification)

State: capacity and the entries in recency order, most recently touched first.
-/
namespace GoguVerif.Spec.C07

inductive Op where
  | add (k v : Int)
  | get (k : Int)
  | getOldest
  | getYoungest
  | remove (k : Int)
  | removeOldest
  | removeYoungest
  | flush
  | count
deriving Repr

inductive Out where
  | unit
  | kv (e : Option (Int × Int))     -- key/value pair + availability flag
  | v (e : Option Int)
  | int (n : Int)
deriving Repr, DecidableEq

abbrev Entries := List (Int × Int)

def find (k : Int) (es : Entries) : Option Int := (es.find? (·.1 == k)).map (·.2)
def del (k : Int) (es : Entries) : Entries := es.filter (fun e => !(e.1 == k))

def step (cap : Nat) (es : Entries) : Op → Entries × Out
  | .add k v =>
    match find k es with
    | some _ => ((k, v) :: del k es, .kv none)                 -- refresh + latest value, nothing evicted
    | none =>
      let es' := (k, v) :: es
      if es'.length > cap then (es'.dropLast, .kv es'.getLast?)  -- evict exactly the least recent
      else (es', .kv none)
  | .get k =>
    match find k es with
    | some v => ((k, v) :: del k es, .v (some v))
    | none => (es, .v none)
  | .getOldest =>
    match es.getLast? with
    | some e => (e :: es.dropLast, .kv (some e))               -- touching the oldest refreshes it
    | none => (es, .kv none)
  | .getYoungest => (es, .kv es.head?)
  | .remove k =>
    match find k es with
    | some v => (del k es, .v (some v))
    | none => (es, .v none)
  | .removeOldest => (es.dropLast, .kv es.getLast?)
  | .removeYoungest => (es.tail, .kv es.head?)
  | .flush => ([], .unit)
  | .count => (es, .int es.length)

/-- A whole history: final entries and the answers, in order. -/
def run (cap : Nat) (es : Entries) : List Op → Entries × List Out
  | [] => (es, [])
  | op :: ops =>
    let (es', o) := step cap es op
    let (es'', os) := run cap es' ops
    (es'', o :: os)

/-- `NewLRU n` is rejected exactly for `n ≤ 0`. -/
def createOk (n : Int) : Bool := decide (n > 0)

end GoguVerif.Spec.C07
