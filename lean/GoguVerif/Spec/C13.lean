/-!
# C13 — search, selection, aggregate and numeric helpers agree with their definitions (the specification)

Written from the property statement, independently of the models in `Model/C13.lean`.
Every clause is a `Prop` over the call's arguments and the *observed* answer, with a `Decidable`
instance; the monitor is `decide` of that `Prop`, so "monitor accepts ↔ clause holds" is
`decide_eq_true_iff`.  Go `int` is the unbounded `Int` (the int8 clauses carry the statement's own
`x = MIN` exception).  Floats are out of scope.

Readings chosen so as never to demand more than the statement says:
* `FindAll` comes out of a Go map: the harness sorts by index, the clause asks for exactly the matching
  index/value pairs (as a strictly index-increasing list).
* By-key extremum over a slice of maps: the "elements of the input" are the values stored under the
  key.  An error answer is admitted whenever the slice is empty or some map lacks the key (the
  statement is silent about it); the value must be the zero value for an empty slice.
* `Mean` of an empty slice is undefined: any outcome is admitted there.
* `Clamp` is only constrained for `lo ≤ hi`.
* `Abs` on int8: nothing is demanded at `x = -128` (the statement's exception).
* `Range`: "invalid argument combinations" are those the function documents through its error
  messages: more than three arguments; with three arguments a zero step, `start > end > 0`, or a
  negative step with `end > start`.  The zero-argument call is not described: an error and the empty
  progression are both admitted.
-/
namespace GoguVerif.Spec.C13

/-! ## Callback families (identical in the Go harness) -/

def pred : Nat → Int → Bool
  | 0 => fun x => x.tmod 2 == 0
  | 1 => fun x => decide (x > 1)
  | 2 => fun _ => true
  | 3 => fun _ => false
  | 4 => fun x => x == 2
  | _ => fun x => decide (x < 0)

def key : Nat → Int → Int
  | 0 => fun x => x
  | 1 => fun x => x.tmod 2
  | 2 => fun x => x.tdiv 2
  | 3 => fun _ => 0
  | 4 => fun x => -x
  | _ => fun x => x * x

def comp : Nat → Int → Int → Bool
  | 0 => fun a b => decide (a < b)
  | 1 => fun a b => decide (a > b)
  | 2 => fun a b => a == b
  | 3 => fun a b => decide (a ≤ b)
  | 4 => fun _ _ => true
  | _ => fun _ _ => false

/-! ## Outcomes of a call -/

/-- What a call can be observed to do: return a value, return an error, panic, or not return
(`hang`: the harness watchdog fired / the model's fuel ran out). -/
inductive Out (α : Type) where
  | ok (a : α)
  | err
  | panic
  | hang
deriving Repr, DecidableEq

/-! ## Search -/

/-- `s[i]` exists and satisfies `q`. -/
def AtIdx (s : List Int) (i : Nat) (q : Int → Prop) : Prop := ∃ h : i < s.length, q s[i]

instance (s : List Int) (i : Nat) (q : Int → Prop) [DecidablePred q] : Decidable (AtIdx s i q) := by
  unfold AtIdx; infer_instance

/-- `r` is the smallest index whose element satisfies `p`, or `-1` if there is none. -/
def FirstIdx (p : Int → Bool) (s : List Int) (r : Int) : Prop :=
  (r = -1 ∧ ∀ x ∈ s, p x = false) ∨
  (∃ i, i < s.length ∧ r = (i : Int) ∧ AtIdx s i (fun x => p x = true) ∧ ∀ x ∈ s.take i, p x = false)

/-- `r` is the largest index whose element satisfies `p`, or `-1` if there is none. -/
def LastIdx (p : Int → Bool) (s : List Int) (r : Int) : Prop :=
  (r = -1 ∧ ∀ x ∈ s, p x = false) ∨
  (∃ i, i < s.length ∧ r = (i : Int) ∧ AtIdx s i (fun x => p x = true) ∧ ∀ x ∈ s.drop (i + 1), p x = false)

instance (p s r) : Decidable (FirstIdx p s r) := by unfold FirstIdx; infer_instance
instance (p s r) : Decidable (LastIdx p s r) := by unfold LastIdx; infer_instance

/-- `IndexOf` / `LastIndexOf`: the predicate is "equals `v`". -/
def IndexOf (s : List Int) (v r : Int) : Prop := FirstIdx (fun x => x == v) s r
def LastIndexOf (s : List Int) (v r : Int) : Prop := LastIdx (fun x => x == v) s r
instance (s v r) : Decidable (IndexOf s v r) := by unfold IndexOf; infer_instance
instance (s v r) : Decidable (LastIndexOf s v r) := by unfold LastIndexOf; infer_instance

/-- `FindAll`: exactly the matching index/value pairs.  `r` is the returned map listed by
increasing index (a map has every key once). -/
def FindAll (p : Int → Bool) (s : List Int) (r : List (Int × Int)) : Prop :=
  r.Pairwise (fun a b => a.1 < b.1) ∧
  (∀ e ∈ r, 0 ≤ e.1 ∧ AtIdx s e.1.toNat (fun x => x = e.2 ∧ p x = true)) ∧
  (∀ i, i < s.length → AtIdx s i (fun x => p x = true → ((i : Int), x) ∈ r))

instance (p s r) : Decidable (FindAll p s r) := by unfold FindAll; infer_instance

def Contains (s : List Int) (v : Int) (r : Bool) : Prop := r = true ↔ v ∈ s
def Some (p : Int → Bool) (s : List Int) (r : Bool) : Prop := r = true ↔ ∃ x ∈ s, p x = true
def Every (p : Int → Bool) (s : List Int) (r : Bool) : Prop := r = true ↔ ∀ x ∈ s, p x = true
instance (s v r) : Decidable (Contains s v r) := by unfold Contains; infer_instance
instance (p s r) : Decidable (Some p s r) := by unfold Some; infer_instance
instance (p s r) : Decidable (Every p s r) := by unfold Every; infer_instance

/-! ## Extrema -/

/-- an element of the input that is minimal; the zero value for an empty slice -/
def IsMin (s : List Int) (r : Int) : Prop := (s = [] ∧ r = 0) ∨ (r ∈ s ∧ ∀ x ∈ s, r ≤ x)
def IsMax (s : List Int) (r : Int) : Prop := (s = [] ∧ r = 0) ∨ (r ∈ s ∧ ∀ x ∈ s, x ≤ r)
instance (s r) : Decidable (IsMin s r) := by unfold IsMin; infer_instance
instance (s r) : Decidable (IsMax s r) := by unfold IsMax; infer_instance

/-- the FIRST element whose key is minimal: it sits at some index `i`, no key is smaller, and every
earlier element has a strictly larger key -/
def IsMinBy (f : Int → Int) (s : List Int) (r : Int) : Prop :=
  (s = [] ∧ r = 0) ∨
  (∃ i, i < s.length ∧ AtIdx s i (fun x => x = r) ∧ (∀ x ∈ s, f r ≤ f x) ∧ ∀ x ∈ s.take i, f r < f x)
def IsMaxBy (f : Int → Int) (s : List Int) (r : Int) : Prop :=
  (s = [] ∧ r = 0) ∨
  (∃ i, i < s.length ∧ AtIdx s i (fun x => x = r) ∧ (∀ x ∈ s, f x ≤ f r) ∧ ∀ x ∈ s.take i, f x < f r)
instance (f s r) : Decidable (IsMinBy f s r) := by unfold IsMinBy; infer_instance
instance (f s r) : Decidable (IsMaxBy f s r) := by unfold IsMaxBy; infer_instance

/-- a Go map `map[int]int` as an association list (any order; the first entry of a key counts) -/
abbrev GoMap := List (Int × Int)

def lookup (k : Int) : GoMap → Option Int
  | [] => none
  | (k', v) :: r => if k' = k then some v else lookup k r

/-- the values stored under `k` in the maps of the slice, in slice order -/
def keyVals (k : Int) (ms : List GoMap) : List Int := ms.filterMap (lookup k)

/-- By-key minimum.  `isErr` = an error came back, `v` = the value that came with it: an error exactly when NO map of
the slice holds the key (in particular for the empty slice), with the zero value; otherwise the minimal one of the values
stored under the key.  (Until /repo's repair of F44 the code — and this specification — also answered with an error when
only the FIRST map lacked the key, although an extremal element existed.) -/
def IsMinByKey (ms : List GoMap) (k : Int) (isErr : Bool) (v : Int) : Prop :=
  (isErr = true ↔ keyVals k ms = []) ∧
  (isErr = true → v = 0) ∧
  (isErr = false → v ∈ keyVals k ms ∧ ∀ x ∈ keyVals k ms, v ≤ x)
def IsMaxByKey (ms : List GoMap) (k : Int) (isErr : Bool) (v : Int) : Prop :=
  (isErr = true ↔ keyVals k ms = []) ∧
  (isErr = true → v = 0) ∧
  (isErr = false → v ∈ keyVals k ms ∧ ∀ x ∈ keyVals k ms, x ≤ v)
instance (ms k e v) : Decidable (IsMinByKey ms k e v) := by unfold IsMinByKey; infer_instance
instance (ms k e v) : Decidable (IsMaxByKey ms k e v) := by unfold IsMaxByKey; infer_instance

/-! ## Nth -/

/-- `s[i]` for `0 ≤ i < len`, `s[len+i]` for `-len ≤ i < 0`, an error — never a panic — otherwise -/
def Nth (s : List Int) (i : Int) (o : Out Int) : Prop :=
  (0 ≤ i ∧ i < s.length → ∃ v, o = .ok v ∧ s[i.toNat]? = some v) ∧
  (-(s.length : Int) ≤ i ∧ i < 0 → ∃ v, o = .ok v ∧ s[(s.length + i).toNat]? = some v) ∧
  (i ≥ s.length ∨ i < -(s.length : Int) → o = .err)

instance (s i o) : Decidable (Nth s i o) :=
  match o with
  | .ok v =>
    decidable_of_iff ((0 ≤ i ∧ i < s.length → s[i.toNat]? = some v) ∧
      (-(s.length : Int) ≤ i ∧ i < 0 → s[(s.length + i).toNat]? = some v) ∧
      ¬ (i ≥ s.length ∨ i < -(s.length : Int))) (by
        unfold Nth
        constructor
        · rintro ⟨a, b, c⟩
          exact ⟨fun h => ⟨v, rfl, a h⟩, fun h => ⟨v, rfl, b h⟩, fun h => absurd h c⟩
        · rintro ⟨a, b, c⟩
          refine ⟨fun h => ?_, fun h => ?_, fun h => by cases c h⟩
          · obtain ⟨w, e, hw⟩ := a h; cases e; exact hw
          · obtain ⟨w, e, hw⟩ := b h; cases e; exact hw)
  | .err =>
    decidable_of_iff (¬ (0 ≤ i ∧ i < s.length) ∧ ¬ (-(s.length : Int) ≤ i ∧ i < 0)) (by
      unfold Nth
      constructor
      · rintro ⟨a, b⟩
        exact ⟨fun h => absurd h a, fun h => absurd h b, fun _ => rfl⟩
      · rintro ⟨a, b, _⟩
        exact ⟨fun h => (by obtain ⟨_, e, _⟩ := a h; cases e), fun h => (by obtain ⟨_, e, _⟩ := b h; cases e)⟩)
  | .panic => isFalse (by
      unfold Nth
      rintro ⟨a, b, c⟩
      by_cases h1 : 0 ≤ i ∧ i < s.length
      · obtain ⟨_, e, _⟩ := a h1; cases e
      · by_cases h2 : -(s.length : Int) ≤ i ∧ i < 0
        · obtain ⟨_, e, _⟩ := b h2; cases e
        · have : i ≥ s.length ∨ i < -(s.length : Int) := by omega
          cases c this)
  | .hang => isFalse (by
      unfold Nth
      rintro ⟨a, b, c⟩
      by_cases h1 : 0 ≤ i ∧ i < s.length
      · obtain ⟨_, e, _⟩ := a h1; cases e
      · by_cases h2 : -(s.length : Int) ≤ i ∧ i < 0
        · obtain ⟨_, e, _⟩ := b h2; cases e
        · have : i ≥ s.length ∨ i < -(s.length : Int) := by omega
          cases c this)

/-! ## Aggregates -/

/-- the arithmetic sum -/
def total : List Int → Int
  | [] => 0
  | x :: r => x + total r

def Sum (s : List Int) (r : Int) : Prop := r = total s
def SumBy (f : Int → Int) (s : List Int) (r : Int) : Prop := r = total (s.map f)
instance (s r) : Decidable (Sum s r) := by unfold Sum; infer_instance
instance (f s r) : Decidable (SumBy f s r) := by unfold SumBy; infer_instance

/-- `q` is `t / n` in the integers, i.e. rounded toward zero: the remainder `t - n*q` is smaller than
`n` in absolute value and does not have the opposite sign of `t`. -/
def IsTruncQuot (t n q : Int) : Prop :=
  -n < t - n * q ∧ t - n * q < n ∧ (0 ≤ t → 0 ≤ t - n * q) ∧ (t ≤ 0 → t - n * q ≤ 0)
instance (t n q) : Decidable (IsTruncQuot t n q) := by unfold IsTruncQuot; infer_instance

/-- `Mean`: the mean in the element type (integers: truncated) for a non-empty slice; the mean of an
empty slice is undefined and nothing is demanded. -/
def Mean (s : List Int) (o : Out Int) : Prop :=
  s ≠ [] → ∃ q, o = .ok q ∧ IsTruncQuot (total s) s.length q

instance (s o) : Decidable (Mean s o) :=
  match o with
  | .ok q => decidable_of_iff (s ≠ [] → IsTruncQuot (total s) s.length q) (by
      unfold Mean
      constructor
      · exact fun a h => ⟨q, rfl, a h⟩
      · intro a h; obtain ⟨w, e, hw⟩ := a h; cases e; exact hw)
  | .err => decidable_of_iff (s = []) (by
      unfold Mean
      constructor
      · intro h; simp [h]
      · intro a; apply Classical.byContradiction; intro h; obtain ⟨_, e, _⟩ := a h; cases e)
  | .panic => decidable_of_iff (s = []) (by
      unfold Mean
      constructor
      · intro h; simp [h]
      · intro a; apply Classical.byContradiction; intro h; obtain ⟨_, e, _⟩ := a h; cases e)
  | .hang => decidable_of_iff (s = []) (by
      unfold Mean
      constructor
      · intro h; simp [h]
      · intro a; apply Classical.byContradiction; intro h; obtain ⟨_, e, _⟩ := a h; cases e)

/-! ## Numbers -/

/-- `Abs` over the integers: non-negative and equal to `x` or `-x` -/
def Abs (x r : Int) : Prop := 0 ≤ r ∧ (r = x ∨ r = -x)
/-- `Abs` on int8: as above, except that nothing is said about `x = MIN = -128` -/
def Abs8 (x r : Int) : Prop := x = -128 ∨ Abs x r
instance (x r) : Decidable (Abs x r) := by unfold Abs; infer_instance
instance (x r) : Decidable (Abs8 x r) := by unfold Abs8; infer_instance

/-- `Clamp` for `lo ≤ hi`: the result lies in `[lo, hi]`, is `num` itself when that lies in the
interval, and the nearer bound otherwise. -/
def Clamp (x lo hi r : Int) : Prop :=
  lo ≤ hi → lo ≤ r ∧ r ≤ hi ∧ (lo ≤ x ∧ x ≤ hi → r = x) ∧ (x < lo → r = lo) ∧ (hi < x → r = hi)
def InRange (x lo hi : Int) (r : Bool) : Prop := r = true ↔ lo ≤ x ∧ x ≤ hi
instance (x lo hi r) : Decidable (Clamp x lo hi r) := by unfold Clamp; infer_instance
instance (x lo hi r) : Decidable (InRange x lo hi r) := by unfold InRange; infer_instance

/-- `Compare` reflects the comparator: 1 if `c a b`, else -1 if `c b a`, else 0 -/
def Compare (c : Int → Int → Bool) (a b r : Int) : Prop :=
  (c a b = true → r = 1) ∧ (c a b = false → c b a = true → r = -1) ∧
  (c a b = false → c b a = false → r = 0)
def Less (a b : Int) (r : Bool) : Prop := r = true ↔ a < b
def Equal (a b : Int) (r : Bool) : Prop := r = true ↔ a = b
instance (c a b r) : Decidable (Compare c a b r) := by unfold Compare; infer_instance
instance (a b r) : Decidable (Less a b r) := by unfold Less; infer_instance
instance (a b r) : Decidable (Equal a b r) := by unfold Equal; infer_instance

/-! ## Range -/

/-- `l` is the maximal arithmetic progression `start, start+d, start+2d, …` all of whose members
are `before` the end: every member is of that form and before the end, and the next one is not. -/
def Prog (start d : Int) (before : Int → Bool) (l : List Int) : Prop :=
  (∀ j, j < l.length → AtIdx l j (fun x => x = start + j * d)) ∧
  (∀ x ∈ l, before x = true) ∧ before (start + l.length * d) = false

instance (start d before l) : Decidable (Prog start d before l) := by unfold Prog; infer_instance

def absI (x : Int) : Int := if x < 0 then -x else x

/-- ascending by `|step|` when `end > 0`, descending by `|step|` otherwise, stopping before `end` -/
def IsRange (start step end_ : Int) (l : List Int) : Prop :=
  if end_ > 0 then Prog start (absI step) (fun x => decide (x < end_)) l
  else Prog start (-(absI step)) (fun x => decide (end_ < x)) l

instance (a b c l) : Decidable (IsRange a b c l) := by unfold IsRange; infer_instance

/-- the documented invalid three-argument combinations -/
def Invalid3 (start step end_ : Int) : Prop :=
  step = 0 ∨ (start > end_ ∧ end_ > 0) ∨ (step < 0 ∧ end_ > start)
instance (a b c) : Decidable (Invalid3 a b c) := by unfold Invalid3; infer_instance

/-- `Range(args…)`; `rev = true` for `RangeRight` (the reverse). -/
def Range (rev : Bool) (args : List Int) (o : Out (List Int)) : Prop :=
  match args with
  | [] => o = .err ∨ o = .ok []
  | [e] => ∃ l, o = .ok (if rev then l.reverse else l) ∧ IsRange 0 1 e l
  | [s, e] => ∃ l, o = .ok (if rev then l.reverse else l) ∧ IsRange s 1 e l
  | [s, st, e] =>
    if Invalid3 s st e then o = .err
    else ∃ l, o = .ok (if rev then l.reverse else l) ∧ IsRange s st e l
  | _ => o = .err

/-- decidable form of `∃ l, o = ok (rev? l) ∧ P l` -/
def okWith (rev : Bool) (o : Out (List Int)) (P : List Int → Prop) : Prop :=
  match o with
  | .ok r => P (if rev then r.reverse else r)
  | _ => False

theorem okWith_iff (rev : Bool) (o : Out (List Int)) (P : List Int → Prop) :
    okWith rev o P ↔ ∃ l, o = .ok (if rev then l.reverse else l) ∧ P l := by
  cases o with
  | ok r =>
    cases rev with
    | false =>
      simp only [okWith, Bool.false_eq_true, if_false]
      constructor
      · exact fun h => ⟨r, rfl, h⟩
      · rintro ⟨l, e, h⟩; cases e; exact h
    | true =>
      simp only [okWith, if_true]
      constructor
      · exact fun h => ⟨r.reverse, by rw [List.reverse_reverse], h⟩
      · rintro ⟨l, e, h⟩; cases e; rw [List.reverse_reverse]; exact h
  | err => simp only [okWith, false_iff]; rintro ⟨_, e, _⟩; cases e
  | panic => simp only [okWith, false_iff]; rintro ⟨_, e, _⟩; cases e
  | hang => simp only [okWith, false_iff]; rintro ⟨_, e, _⟩; cases e

instance (rev o) (P : List Int → Prop) [DecidablePred P] : Decidable (okWith rev o P) := by
  unfold okWith; cases o <;> infer_instance

instance (rev args o) : Decidable (Range rev args o) :=
  match args with
  | [] => by unfold Range; infer_instance
  | [e] => decidable_of_iff (okWith rev o (IsRange 0 1 e)) (by unfold Range; exact okWith_iff ..)
  | [s, e] => decidable_of_iff (okWith rev o (IsRange s 1 e)) (by unfold Range; exact okWith_iff ..)
  | [s, st, e] =>
    if h : Invalid3 s st e then decidable_of_iff (o = .err) (by unfold Range; simp [h])
    else decidable_of_iff (okWith rev o (IsRange s st e)) (by unfold Range; simp only [h, if_false]; exact okWith_iff ..)
  | _ :: _ :: _ :: _ :: _ => by unfold Range; infer_instance

/-! ## The monitor: `decide` of the clause -/

def check (P : Prop) [Decidable P] : Bool := decide P

theorem check_iff (P : Prop) [Decidable P] : check P = true ↔ P := by simp [check]

end GoguVerif.Spec.C13
