import GoguVerif.Lemmas.C09Ord
import GoguVerif.Model.Trie
/-!
# C09 helper lemmas, part 2: the ternary tree

* `ents n` — abstraction of a (sub)tree: its (key, value) entries in in-order, keys relative to `n`;
* `heads n` — the bytes sitting at `n`'s own level (closure under `left`/`right`);
* `Ord n` — search-tree invariant on the byte at every node (left level bytes `<`, right `>`).

Main results: `put_spec` (put = `OrdMap.insert` on `ents`, `Ord` preserved), `get_spec` (get = lookup
and prefix filter), `collect_spec`, `lpLoop_spec`, `ents_sorted`.
-/
namespace GoguVerif.Lemmas.C09
open GoguVerif.Spec GoguVerif.Spec.C09 GoguVerif.Model.Trie

/-- entries of a subtree in in-order, keys relative to the subtree's root level -/
def ents : T → List (Key × Int)
  | .nil => []
  | .node c l m r v iv =>
    ents l ++ ((if iv then [([c], v)] else []) ++ ((ents m).map (consKey c) ++ ents r))

/-- bytes at the level of the node (following only `left`/`right`) -/
def heads : T → List UInt8
  | .nil => []
  | .node c l _ r _ _ => heads l ++ c :: heads r

/-- search-tree invariant on bytes -/
def Ord : T → Prop
  | .nil => True
  | .node c l m r _ _ => (∀ b ∈ heads l, b < c) ∧ (∀ b ∈ heads r, c < b) ∧ Ord l ∧ Ord m ∧ Ord r

/-! ## index bookkeeping: `(key, d)` versus the suffix `key.drop d` -/

theorem drop_cons_facts {key : Key} {d : Nat} {c : UInt8} {ks : Key} (h : key.drop d = c :: ks) :
    key[d]? = some c ∧ key.drop (d + 1) = ks ∧ (d < key.length - 1 ↔ ks ≠ []) ∧ key.length ≠ 0 := by
  have h0 : (key.drop d)[0]? = some c := by rw [h]; rfl
  rw [List.getElem?_drop] at h0
  have h1 : key.drop (d + 1) = ks := by
    have : (key.drop d).drop 1 = ks := by rw [h]; rfl
    rw [List.drop_drop] at this; exact this
  have hlen : d < key.length := by
    apply Nat.lt_of_not_le
    intro hle
    rw [List.drop_eq_nil_iff.mpr hle] at h; cases h
  refine ⟨by simpa using h0, h1, ?_, by omega⟩
  rw [← h1, Ne, List.drop_eq_nil_iff]; omega

/-! ## every entry's key starts with a byte of the level -/

theorem ents_head (n : T) : ∀ e ∈ ents n, ∃ b k, e.1 = b :: k ∧ b ∈ heads n := by
  induction n with
  | nil => intro e he; simp [ents] at he
  | node c l m r v iv ihl ihm ihr =>
    intro e he
    simp only [ents, List.mem_append, List.mem_map] at he
    rcases he with he | he | he | he
    · obtain ⟨b, k, h1, h2⟩ := ihl e he
      exact ⟨b, k, h1, by simp [heads, h2]⟩
    · cases iv with
      | false => simp at he
      | true =>
        simp only [if_true, List.mem_singleton] at he
        subst he; exact ⟨c, [], rfl, by simp [heads]⟩
    · obtain ⟨e', _, rfl⟩ := he
      exact ⟨c, e'.1, rfl, by simp [heads]⟩
    · obtain ⟨b, k, h1, h2⟩ := ihr e he
      exact ⟨b, k, h1, by simp [heads, h2]⟩

theorem ents_ne_nil (n : T) : ∀ e ∈ ents n, e.1 ≠ [] := by
  intro e he
  obtain ⟨b, k, h, _⟩ := ents_head n e he
  rw [h]; simp

/-- all keys of a subtree whose level bytes are `< c` come before any key starting with `c` -/
theorem ents_lt_of_heads_lt (n : T) (c : UInt8) (ks : Key) (h : ∀ b ∈ heads n, b < c) :
    ∀ e ∈ ents n, lexLt e.1 (c :: ks) = true ∧ lexLt (c :: ks) e.1 = false := by
  intro e he
  obtain ⟨b, k, hk, hb⟩ := ents_head n e he
  rw [hk]
  exact ⟨lexLt_cons_lt (h b hb) _ _, lexLt_cons_gt (h b hb) _ _⟩

theorem ents_gt_of_heads_gt (n : T) (c : UInt8) (ks : Key) (h : ∀ b ∈ heads n, c < b) :
    ∀ e ∈ ents n, lexLt (c :: ks) e.1 = true := by
  intro e he
  obtain ⟨b, k, hk, hb⟩ := ents_head n e he
  rw [hk]
  exact lexLt_cons_lt (h b hb) _ _

/-! ## `put` -/

theorem putNil_spec (v : Int) (iv : Bool) : ∀ (c : UInt8) (ks : Key),
    ∃ n', putNil v iv (c :: ks) = some n' ∧
      ents n' = (if iv then [(c :: ks, v)] else []) ∧ Ord n' ∧ heads n' = [c]
  | c, [] => by
    refine ⟨_, rfl, ?_, ?_, rfl⟩
    · cases iv <;> simp [ents]
    · simp [Ord, heads]
  | c, c' :: ks' => by
    obtain ⟨m, hm, he, ho, hh⟩ := putNil_spec v iv c' ks'
    refine ⟨.node c .nil m .nil v false, ?_, ?_, ?_, rfl⟩
    · rw [putNil]; simp only [hm]
    · cases iv <;> simp [ents, he, consKey]
    · simp [Ord, heads, ho]

/-- `put` with `isValid = true` inserts `key[d:]` into the entries of the subtree, keeps the byte order
and adds at most the byte `key[d]` to the level. -/
theorem put_spec (key : Key) (v : Int) (n : T) : ∀ (d : Nat) (c : UInt8) (ks : Key),
    key.drop d = c :: ks → Ord n →
    ∃ n', put n key v d true = some n' ∧
      ents n' = OrdMap.insert lexLt (c :: ks) v (ents n) ∧ Ord n' ∧
      (∀ b ∈ heads n', b = c ∨ b ∈ heads n) := by
  induction n with
  | nil =>
    intro d c ks hd _
    obtain ⟨n', h1, h2, h3, h4⟩ := putNil_spec v true c ks
    refine ⟨n', by simp [put, hd, h1], by simp [h2, ents, OrdMap.insert], h3, ?_⟩
    intro b hb; rw [h4] at hb; left; simpa using hb
  | node nc l m r nv niv ihl ihm ihr =>
    intro d c ks hd ho
    obtain ⟨hget, hdrop, hlt, _⟩ := drop_cons_facts hd
    obtain ⟨hol, hor, hl, hm, hr⟩ := ho
    simp only [put, hget]
    by_cases h1 : c < nc
    · -- left
      obtain ⟨l', e1, e2, e3, e4⟩ := ihl d c ks hd hl
      refine ⟨.node nc l' m r nv niv, by simp [h1, e1], ?_, ?_, ?_⟩
      · simp only [ents, e2]
        rw [insert_append_left]
        intro e he
        simp only [List.mem_append, List.mem_map] at he
        rcases he with he | he | he
        · cases niv with
          | false => simp at he
          | true => simp only [if_true, List.mem_singleton] at he; subst he; exact lexLt_cons_lt h1 _ _
        · obtain ⟨e', _, rfl⟩ := he; exact lexLt_cons_lt h1 _ _
        · exact ents_gt_of_heads_gt r c ks (fun b hb => UInt8.lt_trans h1 (hor b hb)) e he
      · refine ⟨?_, hor, e3, hm, hr⟩
        intro b hb
        rcases e4 b hb with rfl | hb'
        · exact h1
        · exact hol b hb'
      · intro b hb
        simp only [heads, List.mem_append, List.mem_cons] at hb ⊢
        rcases hb with hb | hb | hb
        · rcases e4 b hb with h | h
          · exact Or.inl h
          · exact Or.inr (Or.inl h)
        · exact Or.inr (Or.inr (Or.inl hb))
        · exact Or.inr (Or.inr (Or.inr hb))
    · by_cases h2 : c > nc
      · -- right
        obtain ⟨r', e1, e2, e3, e4⟩ := ihr d c ks hd hr
        refine ⟨.node nc l m r' nv niv, by simp [h1, h2, e1], ?_, ?_, ?_⟩
        · simp only [ents, e2]
          rw [insert_append_right _ _ _ _ _ (ents_lt_of_heads_lt l c ks
            (fun b hb => UInt8.lt_trans (hol b hb) h2))]
          rw [insert_append_right, insert_append_right]
          · intro e he
            simp only [List.mem_map] at he
            obtain ⟨e', _, rfl⟩ := he
            exact ⟨lexLt_cons_lt h2 _ _, lexLt_cons_gt h2 _ _⟩
          · intro e he
            cases niv with
            | false => simp at he
            | true =>
              simp only [if_true, List.mem_singleton] at he; subst he
              exact ⟨lexLt_cons_lt h2 _ _, lexLt_cons_gt h2 _ _⟩
        · refine ⟨hol, ?_, hl, hm, e3⟩
          intro b hb
          rcases e4 b hb with rfl | hb'
          · exact h2
          · exact hor b hb'
        · intro b hb
          simp only [heads, List.mem_append, List.mem_cons] at hb ⊢
          rcases hb with hb | hb | hb
          · exact Or.inr (Or.inl hb)
          · exact Or.inr (Or.inr (Or.inl hb))
          · rcases e4 b hb with h | h
            · exact Or.inl h
            · exact Or.inr (Or.inr (Or.inr h))
      · -- same byte
        have hc : c = nc := byte_eq_of_not_lt h1 h2
        subst hc
        have hL := ents_lt_of_heads_lt l c ks hol
        have hR := ents_gt_of_heads_gt r c ks hor
        have hheads : ∀ (m' : T) (nv' : Int) (niv' : Bool), ∀ b ∈ heads (T.node c l m' r nv' niv'),
            b = c ∨ b ∈ heads (T.node c l m r nv niv) := by
          intro m' nv' niv' b hb
          simp only [heads, List.mem_append, List.mem_cons] at hb ⊢
          exact Or.inr hb
        cases ks with
        | nil =>
          -- terminal byte: n.isValid = true; n.val = val
          have hnlt : ¬ d < key.length - 1 := by rw [hlt]; simp
          refine ⟨.node c l m r v true, by simp [h1, hnlt], ?_, ⟨hol, hor, hl, hm, hr⟩, hheads m v true⟩
          simp only [ents, if_true]
          rw [insert_append_right _ _ _ _ _ hL]
          have hMR : ∀ e ∈ (ents m).map (consKey c) ++ ents r, lexLt [c] e.1 = true := by
            intro e he
            simp only [List.mem_append, List.mem_map] at he
            rcases he with ⟨e', he', rfl⟩ | he
            · have := ents_ne_nil m e' he'
              cases hk : e'.1 with
              | nil => exact absurd hk this
              | cons a t => simp [consKey, hk]
            · exact hR e he
          cases niv with
          | false =>
            simp only [Bool.false_eq_true, if_false, List.nil_append, List.singleton_append]
            rw [insert_all_gt _ _ _ _ hMR]
          | true =>
            simp [OrdMap.insert, lexLt_irrefl]
        | cons c' ks' =>
          have hdl : d < key.length - 1 := by rw [hlt]; simp
          obtain ⟨m', e1, e2, e3, e4⟩ := ihm (d + 1) c' ks' hdrop hm
          refine ⟨.node c l m' r nv niv, by simp [h1, hdl, e1], ?_, ⟨hol, hor, hl, e3, hr⟩, hheads m' nv niv⟩
          simp only [ents, e2]
          rw [insert_append_right _ _ _ _ _ hL]
          have hV : ∀ e ∈ (if niv = true then [([c], nv)] else []),
              lexLt e.1 (c :: c' :: ks') = true ∧ lexLt (c :: c' :: ks') e.1 = false := by
            intro e he
            cases niv with
            | false => simp at he
            | true => simp only [if_true, List.mem_singleton] at he; subst he; simp
          rw [insert_append_right _ _ _ _ _ hV, insert_append_left _ _ _ _ _ hR, insert_map_cons]

/-! ## `get` -/

/-- the value `Get` reports from `get`'s result (`x == nil || err != nil || !x.isValid` ↦ absent) -/
def resVal : T → Bool → Option Int
  | .nil, _ => none
  | .node _ _ _ _ v iv, err => if err || !iv then none else some v

/-- the keys `StartsWith p` enqueues from `get`'s result -/
def resKeys (p : Key) : T → Bool → List Key
  | .node _ _ mid _ _ iv, false => (if iv then [p] else []) ++ (ents mid).map (fun e => p ++ e.1)
  | _, _ => []

theorem resKeys_cons (c : UInt8) (p : Key) (x : T) (err : Bool) :
    resKeys (c :: p) x err = (resKeys p x err).map (c :: ·) := by
  cases x with
  | nil => cases err <;> rfl
  | node xc l m r v iv =>
    cases err with
    | true => rfl
    | false => cases iv <;> simp [resKeys]

theorem filter_none_of_heads_ne (n : T) (c : UInt8) (ks : Key) (h : ∀ b ∈ heads n, b ≠ c) :
    ((ents n).map (·.1)).filter (isPrefix (c :: ks)) = [] := by
  rw [List.filter_eq_nil_iff]
  intro k hk
  simp only [List.mem_map] at hk
  obtain ⟨e, he, rfl⟩ := hk
  obtain ⟨b, t, h1, h2⟩ := ents_head n e he
  rw [h1]
  simp [Ne.symm (h b h2)]

theorem filter_map_consKey (c : UInt8) (p : Key) (M : List (Key × Int)) :
    ((M.map (consKey c)).map (·.1)).filter (isPrefix (c :: p)) =
      ((M.map (·.1)).filter (isPrefix p)).map (c :: ·) := by
  induction M with
  | nil => rfl
  | cons e M' ih =>
    simp only [List.map_cons, consKey_fst, List.filter_cons, isPrefix_cons_cons, beq_self_eq_true,
      Bool.true_and]
    split
    · simp only [List.map_cons, ih]
    · exact ih

theorem filter_isPrefix_nil (l : List Key) : l.filter (isPrefix []) = l :=
  List.filter_eq_self.mpr (fun k _ => isPrefix_nil k)

theorem byte_ne_of_lt {a b : UInt8} (h : a < b) : a ≠ b := by
  intro e; subst e; exact UInt8.lt_irrefl a h

/-- `get` never panics on a non-empty remaining key; its result determines both the map lookup
of `key[d:]` and the stored keys that extend `key[d:]`. -/
theorem get_spec (key : Key) (n : T) : ∀ (d : Nat) (c : UInt8) (ks : Key),
    key.drop d = c :: ks → Ord n →
    ∃ x err, get n key d = some (x, err) ∧
      OrdMap.lookup lexLt (c :: ks) (ents n) = resVal x err ∧
      ((ents n).map (·.1)).filter (isPrefix (c :: ks)) = resKeys (c :: ks) x err := by
  induction n with
  | nil => intro d c ks _ _; exact ⟨.nil, true, rfl, rfl, rfl⟩
  | node nc l m r nv niv ihl ihm ihr =>
    intro d c ks hd ho
    obtain ⟨hget, hdrop, hlt, hlen⟩ := drop_cons_facts hd
    obtain ⟨hol, hor, hl, hm, hr⟩ := ho
    simp only [Model.Trie.get, hlen, if_false, hget]
    have hVne : ∀ (b : UInt8), b ≠ c → ∀ ks : Key,
        ((if niv = true then [([b], nv)] else []).map (·.1)).filter (isPrefix (c :: ks)) = [] := by
      intro b hb ks
      cases niv <;> simp [Ne.symm hb]
    have hMne : ∀ (b : UInt8), b ≠ c → ∀ ks : Key,
        (((ents m).map (consKey b)).map (·.1)).filter (isPrefix (c :: ks)) = [] := by
      intro b hb ks
      rw [List.filter_eq_nil_iff]
      intro k hk
      simp only [List.mem_map] at hk
      obtain ⟨e, ⟨e', _, rfl⟩, rfl⟩ := hk
      simp [Ne.symm hb]
    by_cases h1 : c < nc
    · obtain ⟨x, err, e1, e2, e3⟩ := ihl d c ks hd hl
      refine ⟨x, err, by simp [h1, e1], ?_, ?_⟩
      · simp only [ents]
        rw [lookup_append_left, e2]
        intro e he
        simp only [List.mem_append, List.mem_map] at he
        rcases he with he | he | he
        · cases niv with
          | false => simp at he
          | true => simp only [if_true, List.mem_singleton] at he; subst he; exact lexLt_cons_lt h1 _ _
        · obtain ⟨e', _, rfl⟩ := he; exact lexLt_cons_lt h1 _ _
        · exact ents_gt_of_heads_gt r c ks (fun b hb => UInt8.lt_trans h1 (hor b hb)) e he
      · simp only [ents, List.map_append, List.filter_append, e3]
        rw [hVne nc (Ne.symm (byte_ne_of_lt h1)), hMne nc (Ne.symm (byte_ne_of_lt h1)),
          filter_none_of_heads_ne r c ks
            (fun b hb => Ne.symm (byte_ne_of_lt (UInt8.lt_trans h1 (hor b hb))))]
        simp
    · by_cases h2 : c > nc
      · obtain ⟨x, err, e1, e2, e3⟩ := ihr d c ks hd hr
        refine ⟨x, err, by simp [h1, h2, e1], ?_, ?_⟩
        · simp only [ents]
          rw [lookup_append_right _ _ _ _ (ents_lt_of_heads_lt l c ks
            (fun b hb => UInt8.lt_trans (hol b hb) h2))]
          rw [lookup_append_right, lookup_append_right, e2]
          · intro e he
            simp only [List.mem_map] at he
            obtain ⟨e', _, rfl⟩ := he
            exact ⟨lexLt_cons_lt h2 _ _, lexLt_cons_gt h2 _ _⟩
          · intro e he
            cases niv with
            | false => simp at he
            | true =>
              simp only [if_true, List.mem_singleton] at he; subst he
              exact ⟨lexLt_cons_lt h2 _ _, lexLt_cons_gt h2 _ _⟩
        · simp only [ents, List.map_append, List.filter_append, e3]
          rw [hVne nc (byte_ne_of_lt h2), hMne nc (byte_ne_of_lt h2),
            filter_none_of_heads_ne l c ks
              (fun b hb => byte_ne_of_lt (UInt8.lt_trans (hol b hb) h2))]
          simp
      · have hc : c = nc := byte_eq_of_not_lt h1 h2
        subst hc
        have hL := ents_lt_of_heads_lt l c ks hol
        have hR := ents_gt_of_heads_gt r c ks hor
        have hLf := filter_none_of_heads_ne l c ks (fun b hb => byte_ne_of_lt (hol b hb))
        have hRf := filter_none_of_heads_ne r c ks (fun b hb => Ne.symm (byte_ne_of_lt (hor b hb)))
        cases ks with
        | nil =>
          have hnlt : ¬ d < key.length - 1 := by rw [hlt]; simp
          refine ⟨.node c l m r nv niv, false, by simp [h1, hnlt], ?_, ?_⟩
          · simp only [ents]
            rw [lookup_append_right _ _ _ _ hL]
            have hMR : ∀ e ∈ (ents m).map (consKey c) ++ ents r, lexLt [c] e.1 = true := by
              intro e he
              simp only [List.mem_append, List.mem_map] at he
              rcases he with ⟨e', he', rfl⟩ | he
              · have := ents_ne_nil m e' he'
                cases hk : e'.1 with
                | nil => exact absurd hk this
                | cons a t => simp [consKey, hk]
              · exact hR e he
            cases niv with
            | false =>
              simp only [Bool.false_eq_true, if_false, List.nil_append]
              rw [lookup_all_gt _ _ _ hMR]; rfl
            | true => simp [OrdMap.lookup, lexLt_irrefl, resVal]
          · simp only [ents, List.map_append, List.filter_append, hLf, hRf, filter_map_consKey,
              filter_isPrefix_nil, List.nil_append, List.append_nil, resKeys]
            cases niv <;> simp [isPrefix_refl]
        | cons c' ks' =>
          have hdl : d < key.length - 1 := by rw [hlt]; simp
          obtain ⟨x, err, e1, e2, e3⟩ := ihm (d + 1) c' ks' hdrop hm
          refine ⟨x, err, by simp [h1, hdl, e1], ?_, ?_⟩
          · simp only [ents]
            rw [lookup_append_right _ _ _ _ hL]
            have hV : ∀ e ∈ (if niv = true then [([c], nv)] else []),
                lexLt e.1 (c :: c' :: ks') = true ∧ lexLt (c :: c' :: ks') e.1 = false := by
              intro e he
              cases niv with
              | false => simp at he
              | true => simp only [if_true, List.mem_singleton] at he; subst he; simp
            rw [lookup_append_right _ _ _ _ hV, lookup_append_left _ _ _ _ hR, lookup_map_cons, e2]
          · simp only [ents, List.map_append, List.filter_append, hLf, hRf, filter_map_consKey, e3,
              List.nil_append, List.append_nil, resKeys_cons]
            cases niv <;> simp

end GoguVerif.Lemmas.C09
