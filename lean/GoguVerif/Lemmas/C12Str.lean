import GoguVerif.Lemmas.C12
/-!
# C12 — helper lemmas for ReverseStr: Go's rune decoding inverts UTF-8 encoding of scalar values
-/
namespace GoguVerif.Lemmas.C12
open GoguVerif.Model.C12 GoguVerif.Spec.C12

theorem decodeRunes_cons (b0 : Nat) (rest : List Nat) :
    decodeRunes (b0 :: rest) =
      (decodeFirst b0 rest).1 :: decodeRunes (rest.drop ((decodeFirst b0 rest).2 - 1)) := by
  rw [decodeRunes]

theorem decodeFirst1 (b0 : Nat) (rest : List Nat) (h : b0 < 0x80) : decodeFirst b0 rest = (b0, 1) := by
  unfold decodeFirst; rw [if_pos h]

theorem decodeFirst2 (b0 b1 : Nat) (rest : List Nat) (h0 : 0xC2 ≤ b0 ∧ b0 ≤ 0xDF)
    (h1 : 0x80 ≤ b1 ∧ b1 ≤ 0xBF) :
    decodeFirst b0 (b1 :: rest) = ((b0 - 0xC0) * 64 + (b1 - 0x80), 2) := by
  unfold decodeFirst
  rw [if_neg (by omega), if_pos h0]
  simp [isCont, h1.1, h1.2]

theorem decodeFirst3 (b0 b1 b2 : Nat) (rest : List Nat) (h0 : 0xE0 ≤ b0 ∧ b0 ≤ 0xEF)
    (h1 : (if b0 = 0xE0 then 0xA0 else 0x80) ≤ b1 ∧ b1 ≤ (if b0 = 0xED then 0x9F else 0xBF))
    (h2 : 0x80 ≤ b2 ∧ b2 ≤ 0xBF) :
    decodeFirst b0 (b1 :: b2 :: rest) = ((b0 - 0xE0) * 4096 + (b1 - 0x80) * 64 + (b2 - 0x80), 3) := by
  unfold decodeFirst
  rw [if_neg (by omega), if_neg (by omega), if_pos h0]
  simp [isCont, h1.1, h1.2, h2.1, h2.2]

theorem decodeFirst4 (b0 b1 b2 b3 : Nat) (rest : List Nat) (h0 : 0xF0 ≤ b0 ∧ b0 ≤ 0xF4)
    (h1 : (if b0 = 0xF0 then 0x90 else 0x80) ≤ b1 ∧ b1 ≤ (if b0 = 0xF4 then 0x8F else 0xBF))
    (h2 : 0x80 ≤ b2 ∧ b2 ≤ 0xBF) (h3 : 0x80 ≤ b3 ∧ b3 ≤ 0xBF) :
    decodeFirst b0 (b1 :: b2 :: b3 :: rest) =
      ((b0 - 0xF0) * 262144 + (b1 - 0x80) * 4096 + (b2 - 0x80) * 64 + (b3 - 0x80), 4) := by
  unfold decodeFirst
  rw [if_neg (by omega), if_neg (by omega), if_neg (by omega), if_pos h0]
  simp [isCont, h1.1, h1.2, h2.1, h2.2, h3.1, h3.2]

/-- the model's `string(rune)` agrees with the UTF-8 encoding form on scalar values -/
theorem encodeRune_eq_utf8 (r : Nat) (h : Scalar r) : encodeRune r = utf8 r := by
  unfold Scalar at h
  unfold encodeRune utf8
  by_cases h1 : r < 0x80
  · have e1 : r ≤ 0x7F := by omega
    rw [if_pos h1, if_pos e1]
  · have e1 : ¬ r ≤ 0x7F := by omega
    rw [if_neg h1, if_neg e1]
    by_cases h2 : r < 0x800
    · have e2 : r ≤ 0x7FF := by omega
      rw [if_pos h2, if_pos e2]
    · have e2 : ¬ r ≤ 0x7FF := by omega
      have e3 : ¬ ((0xD800 ≤ r ∧ r ≤ 0xDFFF) ∨ 0x10FFFF < r) := by omega
      rw [if_neg h2, if_neg e2, if_neg e3]
      by_cases h3 : r < 0x10000
      · have e4 : r ≤ 0xFFFF := by omega
        rw [if_pos h3, if_pos e4]
      · have e4 : ¬ r ≤ 0xFFFF := by omega
        rw [if_neg h3, if_neg e4]

theorem encodeRunes_eq_utf8All (rs : List Nat) (h : ∀ x ∈ rs, Scalar x) : encodeRunes rs = utf8All rs := by
  induction rs with
  | nil => rfl
  | cons r rest ih =>
    simp only [encodeRunes, utf8All]
    rw [encodeRune_eq_utf8 r (h r (by simp)), ih (fun x hx => h x (List.mem_cons_of_mem _ hx))]

/-- Go's decoder reads back the scalar value whose UTF-8 form starts the string. -/
theorem decodeRunes_utf8_append (r : Nat) (h : Scalar r) (tail : List Nat) :
    decodeRunes (utf8 r ++ tail) = r :: decodeRunes tail := by
  unfold Scalar at h
  unfold utf8
  by_cases h1 : r ≤ 0x7F
  · rw [if_pos h1]
    have e := decodeRunes_cons r tail
    rw [decodeFirst1 r tail (by omega)] at e
    simpa using e
  · rw [if_neg h1]
    by_cases h2 : r ≤ 0x7FF
    · rw [if_pos h2]
      have e := decodeRunes_cons (0xC0 + r / 0x40) ((0x80 + r % 0x40) :: tail)
      rw [decodeFirst2 _ _ tail (by omega) (by omega)] at e
      simp only [List.cons_append, List.nil_append]
      rw [e]
      simp only [List.drop_succ_cons, List.drop_zero, Nat.add_one_sub_one, List.cons.injEq, and_true]
      omega
    · rw [if_neg h2]
      by_cases h3 : r ≤ 0xFFFF
      · rw [if_pos h3]
        have e := decodeRunes_cons (0xE0 + r / 0x1000) ((0x80 + r / 0x40 % 0x40) :: (0x80 + r % 0x40) :: tail)
        rw [decodeFirst3 _ _ _ tail (by omega) (by constructor <;> split <;> omega) (by omega)] at e
        simp only [List.cons_append, List.nil_append]
        rw [e]
        simp only [List.drop_succ_cons, List.drop_zero, Nat.add_one_sub_one, List.cons.injEq, and_true]
        omega
      · rw [if_neg h3]
        have e := decodeRunes_cons (0xF0 + r / 0x40000)
          ((0x80 + r / 0x1000 % 0x40) :: (0x80 + r / 0x40 % 0x40) :: (0x80 + r % 0x40) :: tail)
        rw [decodeFirst4 _ _ _ _ tail (by omega) (by constructor <;> split <;> omega)
          (by omega) (by omega)] at e
        simp only [List.cons_append, List.nil_append]
        rw [e]
        simp only [List.drop_succ_cons, List.drop_zero, Nat.add_one_sub_one, List.cons.injEq, and_true]
        omega

theorem decodeRunes_utf8All (rs : List Nat) (h : ∀ x ∈ rs, Scalar x) : decodeRunes (utf8All rs) = rs := by
  induction rs with
  | nil => simp [utf8All, decodeRunes]
  | cons r rest ih =>
    simp only [utf8All]
    rw [decodeRunes_utf8_append r (h r (by simp)), ih (fun x hx => h x (List.mem_cons_of_mem _ hx))]

/-! ## the strict decoder of the specification (monitor adequacy) -/

theorem parse?_cons (b0 : Nat) (rest : List Nat) :
    parse? (b0 :: rest) =
      (first? b0 rest).bind fun d => (parse? (rest.drop (d.2 - 1))).map (d.1 :: ·) := by
  rw [parse?]
  cases first? b0 rest with
  | none => rfl
  | some d =>
    simp only [Option.bind_some]
    cases parse? (List.drop (d.2 - 1) rest) <;> rfl

theorem first?_1 (b0 : Nat) (rest : List Nat) (h : b0 ≤ 0x7F) : first? b0 rest = some (b0, 1) := by
  unfold first?; rw [if_pos h]

theorem first?_2 (b0 b1 : Nat) (rest : List Nat) (h0 : 0xC2 ≤ b0 ∧ b0 ≤ 0xDF)
    (h1 : 0x80 ≤ b1 ∧ b1 ≤ 0xBF) :
    first? b0 (b1 :: rest) = some ((b0 - 0xC0) * 0x40 + (b1 - 0x80), 2) := by
  unfold first?
  rw [if_neg (by omega)]
  simp only [if_pos h0]
  simp [trail, h1.1, h1.2]

theorem first?_3 (b0 b1 b2 : Nat) (rest : List Nat) (h0 : 0xE0 ≤ b0 ∧ b0 ≤ 0xEF)
    (h1 : (if b0 = 0xE0 then 0xA0 else 0x80) ≤ b1 ∧ b1 ≤ (if b0 = 0xED then 0x9F else 0xBF))
    (h2 : 0x80 ≤ b2 ∧ b2 ≤ 0xBF) :
    first? b0 (b1 :: b2 :: rest) = some ((b0 - 0xE0) * 0x1000 + (b1 - 0x80) * 0x40 + (b2 - 0x80), 3) := by
  unfold first?
  rw [if_neg (by omega)]
  have e1 : ¬ (0xC2 ≤ b0 ∧ b0 ≤ 0xDF) := by omega
  simp only [if_neg e1, if_pos h0]
  have hc : ((b0 = 0xE0 ∧ 0xA0 ≤ b1 ∧ b1 ≤ 0xBF) ∨ (0xE1 ≤ b0 ∧ b0 ≤ 0xEC ∧ trail b1 = true) ∨
      (b0 = 0xED ∧ 0x80 ≤ b1 ∧ b1 ≤ 0x9F) ∨ (0xEE ≤ b0 ∧ trail b1 = true)) ∧ trail b2 = true := by
    simp only [trail, Bool.and_eq_true, decide_eq_true_eq]
    obtain ⟨h1a, h1b⟩ := h1
    split at h1a <;> split at h1b <;> omega
  rw [if_pos hc]

theorem first?_4 (b0 b1 b2 b3 : Nat) (rest : List Nat) (h0 : 0xF0 ≤ b0 ∧ b0 ≤ 0xF4)
    (h1 : (if b0 = 0xF0 then 0x90 else 0x80) ≤ b1 ∧ b1 ≤ (if b0 = 0xF4 then 0x8F else 0xBF))
    (h2 : 0x80 ≤ b2 ∧ b2 ≤ 0xBF) (h3 : 0x80 ≤ b3 ∧ b3 ≤ 0xBF) :
    first? b0 (b1 :: b2 :: b3 :: rest) =
      some ((b0 - 0xF0) * 0x40000 + (b1 - 0x80) * 0x1000 + (b2 - 0x80) * 0x40 + (b3 - 0x80), 4) := by
  unfold first?
  rw [if_neg (by omega)]
  have e1 : ¬ (0xC2 ≤ b0 ∧ b0 ≤ 0xDF) := by omega
  have e2 : ¬ (0xE0 ≤ b0 ∧ b0 ≤ 0xEF) := by omega
  simp only [if_neg e1, if_neg e2]
  have hc : ((b0 = 0xF0 ∧ 0x90 ≤ b1 ∧ b1 ≤ 0xBF) ∨ (0xF1 ≤ b0 ∧ b0 ≤ 0xF3 ∧ trail b1 = true) ∨
      (b0 = 0xF4 ∧ 0x80 ≤ b1 ∧ b1 ≤ 0x8F)) ∧ trail b2 = true ∧ trail b3 = true := by
    simp only [trail, Bool.and_eq_true, decide_eq_true_eq]
    obtain ⟨h1a, h1b⟩ := h1
    split at h1a <;> split at h1b <;> omega
  rw [if_pos hc]

/-- completeness: the strict decoder reads the UTF-8 form of scalar values back -/
theorem parse?_utf8_append (r : Nat) (h : Scalar r) (tail : List Nat) :
    parse? (utf8 r ++ tail) = (parse? tail).map (r :: ·) := by
  unfold Scalar at h
  unfold utf8
  by_cases h1 : r ≤ 0x7F
  · rw [if_pos h1]
    have e := parse?_cons r tail
    rw [first?_1 r tail h1] at e
    simp only [List.cons_append, List.nil_append]
    rw [e]
    simp
  · rw [if_neg h1]
    by_cases h2 : r ≤ 0x7FF
    · rw [if_pos h2]
      have e := parse?_cons (0xC0 + r / 0x40) ((0x80 + r % 0x40) :: tail)
      rw [first?_2 _ _ tail (by omega) (by omega)] at e
      simp only [List.cons_append, List.nil_append]
      rw [e]
      simp only [Option.bind_some, List.drop_succ_cons, List.drop_zero, Nat.add_one_sub_one]
      have : (0xC0 + r / 0x40 - 0xC0) * 0x40 + (0x80 + r % 0x40 - 0x80) = r := by omega
      rw [this]
    · rw [if_neg h2]
      by_cases h3 : r ≤ 0xFFFF
      · rw [if_pos h3]
        have e := parse?_cons (0xE0 + r / 0x1000) ((0x80 + r / 0x40 % 0x40) :: (0x80 + r % 0x40) :: tail)
        rw [first?_3 _ _ _ tail (by omega) (by constructor <;> split <;> omega) (by omega)] at e
        simp only [List.cons_append, List.nil_append]
        rw [e]
        simp only [Option.bind_some, List.drop_succ_cons, List.drop_zero, Nat.add_one_sub_one]
        have : (0xE0 + r / 0x1000 - 0xE0) * 0x1000 + (0x80 + r / 0x40 % 0x40 - 0x80) * 0x40 +
            (0x80 + r % 0x40 - 0x80) = r := by omega
        rw [this]
      · rw [if_neg h3]
        have e := parse?_cons (0xF0 + r / 0x40000)
          ((0x80 + r / 0x1000 % 0x40) :: (0x80 + r / 0x40 % 0x40) :: (0x80 + r % 0x40) :: tail)
        rw [first?_4 _ _ _ _ tail (by omega) (by constructor <;> split <;> omega)
          (by omega) (by omega)] at e
        simp only [List.cons_append, List.nil_append]
        rw [e]
        simp only [Option.bind_some, List.drop_succ_cons, List.drop_zero, Nat.add_one_sub_one]
        have : (0xF0 + r / 0x40000 - 0xF0) * 0x40000 + (0x80 + r / 0x1000 % 0x40 - 0x80) * 0x1000 +
            (0x80 + r / 0x40 % 0x40 - 0x80) * 0x40 + (0x80 + r % 0x40 - 0x80) = r := by omega
        rw [this]

theorem parse?_utf8All (rs : List Nat) (h : ∀ x ∈ rs, Scalar x) : parse? (utf8All rs) = some rs := by
  induction rs with
  | nil => simp [utf8All, parse?]
  | cons r rest ih =>
    simp only [utf8All]
    rw [parse?_utf8_append r (h r (by simp)), ih (fun x hx => h x (List.mem_cons_of_mem _ hx))]
    rfl

/-- soundness of one step of the strict decoder -/
theorem first?_sound (b0 : Nat) (rest : List Nat) (d : Nat × Nat) (h : first? b0 rest = some d) :
    Scalar d.1 ∧ b0 :: rest = utf8 d.1 ++ rest.drop (d.2 - 1) := by
  unfold first? at h
  by_cases c0 : b0 ≤ 0x7F
  · rw [if_pos c0] at h
    injection h with h; subst h
    refine ⟨by unfold Scalar; left; show b0 < 0xD800; omega, ?_⟩
    unfold utf8; rw [if_pos (show b0 ≤ 0x7F from c0)]; simp
  · rw [if_neg c0] at h
    cases rest with
    | nil => simp at h
    | cons b1 rest1 =>
      simp only at h
      by_cases c2 : 0xC2 ≤ b0 ∧ b0 ≤ 0xDF
      · rw [if_pos c2] at h
        by_cases t1 : trail b1 = true
        · rw [if_pos t1] at h
          injection h with h; subst h
          simp only [trail, Bool.and_eq_true, decide_eq_true_eq] at t1
          have hr1 : ¬ ((b0 - 0xC0) * 0x40 + (b1 - 0x80) ≤ 0x7F) := by omega
          have hr2 : (b0 - 0xC0) * 0x40 + (b1 - 0x80) ≤ 0x7FF := by omega
          refine ⟨by unfold Scalar; left; show (b0 - 0xC0) * 0x40 + (b1 - 0x80) < 0xD800; omega, ?_⟩
          unfold utf8
          simp only [if_neg hr1, if_pos hr2, List.cons_append, List.nil_append, List.drop_succ_cons,
            List.drop_zero, Nat.add_one_sub_one, List.cons.injEq, and_true]
          omega
        · rw [if_neg t1] at h; simp at h
      · rw [if_neg c2] at h
        cases rest1 with
        | nil => simp at h
        | cons b2 rest2 =>
          simp only at h
          by_cases c3 : 0xE0 ≤ b0 ∧ b0 ≤ 0xEF
          · rw [if_pos c3] at h
            split at h
            · rename_i hc
              injection h with h; subst h
              simp only [trail, Bool.and_eq_true, decide_eq_true_eq] at hc
              have hr2 : ¬ ((b0 - 0xE0) * 0x1000 + (b1 - 0x80) * 0x40 + (b2 - 0x80) ≤ 0x7FF) := by omega
              have hr3 : (b0 - 0xE0) * 0x1000 + (b1 - 0x80) * 0x40 + (b2 - 0x80) ≤ 0xFFFF := by omega
              have hr1 : ¬ ((b0 - 0xE0) * 0x1000 + (b1 - 0x80) * 0x40 + (b2 - 0x80) ≤ 0x7F) := by omega
              refine ⟨by
                unfold Scalar
                show (b0 - 0xE0) * 0x1000 + (b1 - 0x80) * 0x40 + (b2 - 0x80) < 0xD800 ∨
                  (0xE000 ≤ (b0 - 0xE0) * 0x1000 + (b1 - 0x80) * 0x40 + (b2 - 0x80) ∧
                   (b0 - 0xE0) * 0x1000 + (b1 - 0x80) * 0x40 + (b2 - 0x80) ≤ 0x10FFFF)
                omega, ?_⟩
              unfold utf8
              simp only [if_neg hr1, if_neg hr2, if_pos hr3, List.cons_append, List.nil_append,
                List.drop_succ_cons, List.drop_zero, Nat.add_one_sub_one, List.cons.injEq, and_true]
              omega
            · simp at h
          · rw [if_neg c3] at h
            cases rest2 with
            | nil => simp at h
            | cons b3 rest3 =>
              simp only at h
              split at h
              · rename_i hc
                injection h with h; subst h
                simp only [trail, Bool.and_eq_true, decide_eq_true_eq] at hc
                have hr1 : ¬ ((b0 - 0xF0) * 0x40000 + (b1 - 0x80) * 0x1000 + (b2 - 0x80) * 0x40 + (b3 - 0x80) ≤ 0x7F) := by omega
                have hr2 : ¬ ((b0 - 0xF0) * 0x40000 + (b1 - 0x80) * 0x1000 + (b2 - 0x80) * 0x40 + (b3 - 0x80) ≤ 0x7FF) := by omega
                have hr3 : ¬ ((b0 - 0xF0) * 0x40000 + (b1 - 0x80) * 0x1000 + (b2 - 0x80) * 0x40 + (b3 - 0x80) ≤ 0xFFFF) := by omega
                refine ⟨by
                  unfold Scalar
                  show (b0 - 0xF0) * 0x40000 + (b1 - 0x80) * 0x1000 + (b2 - 0x80) * 0x40 + (b3 - 0x80) < 0xD800 ∨
                    (0xE000 ≤ (b0 - 0xF0) * 0x40000 + (b1 - 0x80) * 0x1000 + (b2 - 0x80) * 0x40 + (b3 - 0x80) ∧
                     (b0 - 0xF0) * 0x40000 + (b1 - 0x80) * 0x1000 + (b2 - 0x80) * 0x40 + (b3 - 0x80) ≤ 0x10FFFF)
                  omega, ?_⟩
                unfold utf8
                simp only [if_neg hr1, if_neg hr2, if_neg hr3, List.cons_append, List.nil_append,
                  List.drop_succ_cons, List.drop_zero, Nat.add_one_sub_one, List.cons.injEq, and_true]
                omega
              · simp at h

/-- soundness: what the strict decoder accepts IS the UTF-8 form of the scalar values it returns -/
theorem parse?_sound (s rs : List Nat) (h : parse? s = some rs) :
    s = utf8All rs ∧ ∀ x ∈ rs, Scalar x := by
  induction hn : s.length using Nat.strongRecOn generalizing s rs with
  | _ n ih =>
    cases s with
    | nil =>
      rw [parse?] at h
      injection h with h; subst h
      exact ⟨rfl, by simp⟩
    | cons b0 rest =>
      rw [parse?_cons] at h
      cases hf : first? b0 rest with
      | none => rw [hf] at h; simp at h
      | some d =>
        rw [hf] at h
        simp only [Option.bind_some] at h
        cases hp : parse? (List.drop (d.2 - 1) rest) with
        | none => rw [hp] at h; simp at h
        | some rs' =>
          rw [hp] at h
          simp only [Option.map_some, Option.some.injEq] at h
          subst h
          obtain ⟨hsc, heq⟩ := first?_sound b0 rest d hf
          obtain ⟨h1, h2⟩ := ih (List.drop (d.2 - 1) rest).length
            (by rw [← hn]; simp only [List.length_drop, List.length_cons]; omega) _ _ hp rfl
          refine ⟨?_, ?_⟩
          · rw [heq]; simp only [utf8All]; rw [← h1]
          · intro x hx
            rcases List.mem_cons.mp hx with e | e
            · rw [e]; exact hsc
            · exact h2 x e

end GoguVerif.Lemmas.C12
