import GoguVerif.Lemmas.C07
import GoguVerif.Lemmas.C07Ptr3
/-!
# C07 — the representation relation between the pointer-level layer and the abstract-list layer,
and its preservation by the three kinds of list surgery (touch, delete, add)
-/
namespace GoguVerif.Lemmas.C07Ptr
open GoguVerif Model.LruPtr
open GoguVerif.Model.Lru (St)
open GoguVerif.Lemmas.C07 (keys)

/-- `p` (pointer level) represents `c` (abstract list); `as` = addresses of the linked nodes, front first. -/
structure Rep (p : PSt) (c : St) (as : List Nat) : Prop where
  size : p.size = c.size
  nodup : (0 :: as).Nodup
  chain : Chain p.evictList.heap as
  /-- node by node, the keys and values are the entries of the abstract list -/
  cells : as.map (kvOf p.evictList.heap) = c.list.map some
  len : p.evictList.len = (as.length : Int)
  /-- the map sends a key to the linked node that holds it, and to nothing else -/
  items : ∀ k a, p.items.lookup k = some a ↔
    a ∈ as ∧ (kvOf p.evictList.heap a).map (·.1) = some k
  /-- the abstract key set is the domain of the map -/
  citems : ∀ k, k ∈ c.items ↔ ∃ a, p.items.lookup k = some a

theorem cells_length {kv : Nat → Option (Int × Int)} {as : List Nat} {l : List (Int × Int)}
    (h : as.map kv = l.map some) : l.length = as.length := by
  have := congrArg List.length h
  simpa using this.symm

theorem split_cells {kv : Nat → Option (Int × Int)} {pre post : List Nat} {a : Nat}
    {l : List (Int × Int)} (h : (pre ++ a :: post).map kv = l.map some) :
    ∃ lpre e lpost, l = lpre ++ e :: lpost ∧ pre.map kv = lpre.map some ∧ kv a = some e ∧
      post.map kv = lpost.map some := by
  rw [List.map_append, List.map_cons] at h
  obtain ⟨l1, l2, rfl, h1, h2⟩ := List.map_eq_append_iff.mp h.symm
  obtain ⟨e, l3, rfl, h3, h4⟩ := List.map_eq_cons_iff.mp h2
  exact ⟨l1, e, l3, rfl, h1.symm, h3.symm, h4.symm⟩

theorem mem_keys_of_cells {kv : Nat → Option (Int × Int)} {as : List Nat} {l : List (Int × Int)}
    (h : as.map kv = l.map some) {a : Nat} (ha : a ∈ as) {k : Int}
    (hk : (kv a).map (·.1) = some k) : k ∈ keys l := by
  obtain ⟨pre, post, rfl⟩ := List.append_of_mem ha
  obtain ⟨lpre, e, lpost, rfl, _, h2, _⟩ := split_cells h
  rw [h2] at hk; simp only [Option.map_some, Option.some.injEq] at hk
  simp [keys, ← hk]

theorem unlink_append {k : Int} {lpre lpost : List (Int × Int)} {e : Int × Int}
    (hk : k ∉ keys lpre) (he : e.1 = k) :
    Model.Lru.unlink k (lpre ++ e :: lpost) = some (e, lpre ++ lpost) := by
  induction lpre with
  | nil => simp [Model.Lru.unlink, he]
  | cons x r ih =>
    simp only [C07.keys_cons, List.mem_cons, not_or] at hk
    have : ¬ x.1 = k := fun e => hk.1 e.symm
    simp [Model.Lru.unlink, this, ih hk.2]

theorem lookup_mapDelete (k k0 : Int) (items : List (Int × Nat)) :
    (mapDelete k0 items).lookup k = if k = k0 then none else items.lookup k := by
  induction items with
  | nil => simp [mapDelete]
  | cons x r ih =>
    obtain ⟨xk, xa⟩ := x
    by_cases h1 : xk = k0
    · have e : mapDelete k0 ((xk, xa) :: r) = mapDelete k0 r := by simp [mapDelete, h1]
      rw [e, ih, List.lookup_cons]
      by_cases h2 : k = k0
      · simp [h2]
      · have : (k == xk) = false := by simp [h1, h2]
        simp [h2, this]
    · have e : mapDelete k0 ((xk, xa) :: r) = (xk, xa) :: mapDelete k0 r := by simp [mapDelete, h1]
      rw [e, List.lookup_cons, List.lookup_cons, ih]
      by_cases h3 : k = xk
      · subst h3; simp [h1]
      · have : (k == xk) = false := by simpa using h3
        simp [this]

theorem count_eq {p : PSt} {c : St} {as : List Nat} (hr : Rep p c as) :
    Model.LruPtr.count p = Model.Lru.count c := by
  simp only [Model.LruPtr.count, Model.Lru.count, Model.Lru.length, hr.len, cells_length hr.cells]

/-- what the split of a represented list at a linked node gives -/
theorem Rep.split {p : PSt} {c : St} {pre post : List Nat} {x : Nat}
    (hr : Rep p c (pre ++ x :: post)) (hk : (keys c.list).Nodup) :
    ∃ lpre e lpost, c.list = lpre ++ e :: lpost ∧
      pre.map (kvOf p.evictList.heap) = lpre.map some ∧ kvOf p.evictList.heap x = some e ∧
      post.map (kvOf p.evictList.heap) = lpost.map some ∧
      e.1 ∉ keys lpre ∧ e.1 ∉ keys lpost ∧
      Model.Lru.unlink e.1 c.list = some (e, lpre ++ lpost) := by
  obtain ⟨lpre, e, lpost, hl, h1, h2, h3⟩ := split_cells hr.cells
  rw [hl, C07.keys_append, C07.keys_cons, List.nodup_append] at hk
  have n1 : e.1 ∉ keys lpre := fun m => hk.2.2 _ m _ (by simp) rfl
  have n2 : e.1 ∉ keys lpost := (List.nodup_cons.mp hk.2.1).1
  exact ⟨lpre, e, lpost, hl, h1, h2, h3, n1, n2, by rw [hl]; exact unlink_append n1 rfl⟩

/-- `moveFront` of a linked node, on both layers -/
theorem rep_touch {p : PSt} {c : St} {pre post : List Nat} {x : Nat}
    (hr : Rep p c (pre ++ x :: post)) (hk : (keys c.list).Nodup) :
    ∃ lpre e lpost l', c.list = lpre ++ e :: lpost ∧ kvOf p.evictList.heap x = some e ∧
      lpost.length = post.length ∧
      Model.Lru.unlink e.1 c.list = some (e, lpre ++ lpost) ∧
      moveFront p.evictList x = some l' ∧ kvOf l'.heap = kvOf p.evictList.heap ∧
      Rep { p with evictList := l' } { c with list := e :: (lpre ++ lpost) } (x :: (pre ++ post)) := by
  obtain ⟨lpre, e, lpost, hl, h1, h2, h3, n1, n2, hu⟩ := hr.split hk
  obtain ⟨l', hm, hc', hkv, hlen, _⟩ := moveFront_spec hr.nodup hr.chain
  have hnd := hr.nodup
  refine ⟨lpre, e, lpost, l', hl, h2, by simpa using cells_length h3, hu, hm, hkv, ?_⟩
  refine ⟨hr.size, ?_, hc', ?_, ?_, ?_, hr.citems⟩
  · simp only [List.nodup_cons, List.mem_append, List.mem_cons, List.nodup_append, not_or] at hnd ⊢
    exact ⟨⟨hnd.1.2.1, hnd.1.1, hnd.1.2.2⟩,
      ⟨fun m => hnd.2.2.2 x m x (Or.inl rfl) rfl, hnd.2.2.1.1⟩,
      hnd.2.1, hnd.2.2.1.2, fun a ha b hb => hnd.2.2.2 a ha b (Or.inr hb)⟩
  · show (x :: (pre ++ post)).map (kvOf l'.heap) = _
    rw [hkv]; simp [h1, h2, h3]
  · show l'.len = _
    rw [hlen, hr.len]; simp; omega
  · intro k a
    show p.items.lookup k = some a ↔ a ∈ x :: (pre ++ post) ∧ (kvOf l'.heap a).map (·.1) = some k
    rw [hkv, hr.items]
    simp only [List.mem_append, List.mem_cons]
    constructor
    · rintro ⟨m | m | m, h⟩
      · exact ⟨Or.inr (Or.inl m), h⟩
      · exact ⟨Or.inl m, h⟩
      · exact ⟨Or.inr (Or.inr m), h⟩
    · rintro ⟨m | m | m, h⟩
      · exact ⟨Or.inr (Or.inl m), h⟩
      · exact ⟨Or.inl m, h⟩
      · exact ⟨Or.inr (Or.inr m), h⟩

/-- deleting the key of a linked node from the map and unlinking the node, on both layers -/
theorem rep_delete {p : PSt} {c : St} {pre post : List Nat} {x : Nat}
    (hr : Rep p c (pre ++ x :: post)) (hk : (keys c.list).Nodup) :
    ∃ lpre e lpost l', c.list = lpre ++ e :: lpost ∧ kvOf p.evictList.heap x = some e ∧
      lpre.length = pre.length ∧ lpost.length = post.length ∧
      Model.Lru.unlink e.1 c.list = some (e, lpre ++ lpost) ∧
      remove p.evictList x = some (l', true) ∧ kvOf l'.heap = kvOf p.evictList.heap ∧
      Rep { p with items := mapDelete e.1 p.items, evictList := l' }
        { c with items := Model.Lru.mapDelete e.1 c.items, list := lpre ++ lpost } (pre ++ post) := by
  obtain ⟨lpre, e, lpost, hl, h1, h2, h3, n1, n2, hu⟩ := hr.split hk
  obtain ⟨l', hm, hc', hkv, hlen, _⟩ := remove_spec hr.nodup hr.chain
  have hnd := hr.nodup
  refine ⟨lpre, e, lpost, l', hl, h2, by simpa using cells_length h1, by simpa using cells_length h3,
    hu, hm, hkv, ?_⟩
  refine ⟨hr.size, ?_, hc', ?_, ?_, ?_, ?_⟩
  · simp only [List.nodup_cons, List.mem_append, List.mem_cons, List.nodup_append, not_or] at hnd ⊢
    exact ⟨⟨hnd.1.1, hnd.1.2.2⟩, hnd.2.1, hnd.2.2.1.2, fun a ha b hb => hnd.2.2.2 a ha b (Or.inr hb)⟩
  · show (pre ++ post).map (kvOf l'.heap) = _
    rw [hkv]; simp [h1, h3]
  · show l'.len = _
    rw [hlen, hr.len]; simp; omega
  · intro k a
    show (mapDelete e.1 p.items).lookup k = some a ↔
      a ∈ pre ++ post ∧ (kvOf l'.heap a).map (·.1) = some k
    rw [hkv, lookup_mapDelete]
    by_cases hke : k = e.1
    · subst hke
      simp only [if_true, List.mem_append]
      constructor
      · intro h; cases h
      · rintro ⟨m | m, hh⟩
        · exact absurd (mem_keys_of_cells h1 m hh) n1
        · exact absurd (mem_keys_of_cells h3 m hh) n2
    · simp only [hke, if_false, hr.items, List.mem_append, List.mem_cons]
      constructor
      · rintro ⟨m | m | m, h⟩
        · exact ⟨Or.inl m, h⟩
        · subst m; rw [h2] at h; simp at h; exact absurd h.symm hke
        · exact ⟨Or.inr m, h⟩
      · rintro ⟨m | m, h⟩
        · exact ⟨Or.inl m, h⟩
        · exact ⟨Or.inr (Or.inr m), h⟩
  · intro k
    show k ∈ Model.Lru.mapDelete e.1 c.items ↔ ∃ a, (mapDelete e.1 p.items).lookup k = some a
    simp only [C07.mem_mapDelete, lookup_mapDelete, hr.citems]
    by_cases hke : k = e.1 <;> simp [hke]

/-- `addFront` of a key that the map does not hold, and the map store, on both layers -/
theorem rep_add {p : PSt} {c : St} {as : List Nat} (hr : Rep p c as) (key value : Int)
    (hnone : p.items.lookup key = none) :
    ∃ l' p1 c1, addFront p.evictList key value = some (l', p.evictList.heap.length) ∧
      p1 = { p with items := mapSet key p.evictList.heap.length p.items, evictList := l' } ∧
      c1 = { c with items := Model.Lru.mapSet key c.items,
                    list := Model.Lru.addFront key value c.list } ∧
      Rep p1 c1 (p.evictList.heap.length :: as) := by
  obtain ⟨l', ha, hfresh, hc', hkv, hlen⟩ := addFront_spec key value hr.nodup hr.chain
  have hfresh' : p.evictList.heap.length ∉ as := fun m => hfresh (List.mem_cons_of_mem _ m)
  have hsame : ∀ a ∈ as, kvOf l'.heap a = kvOf p.evictList.heap a := by
    intro a ha'
    rw [hkv, upd_ne]; exact fun e => hfresh' (e ▸ ha')
  refine ⟨l', _, _, ha, rfl, rfl, hr.size, ?_, hc', ?_, ?_, ?_, ?_⟩
  · have hnd := hr.nodup
    simp only [List.nodup_cons, List.mem_cons, not_or] at hnd hfresh ⊢
    exact ⟨⟨fun e => hfresh.1 e.symm, hnd.1⟩, hfresh.2, hnd.2⟩
  · show (p.evictList.heap.length :: as).map (kvOf l'.heap) = _
    simp only [List.map_cons, Model.Lru.addFront]
    rw [List.map_congr_left hsame, hr.cells, hkv]; simp
  · show l'.len = _
    rw [hlen, hr.len]; simp
  · intro k a
    show (mapSet key p.evictList.heap.length p.items).lookup k = some a ↔
      a ∈ p.evictList.heap.length :: as ∧ (kvOf l'.heap a).map (·.1) = some k
    simp only [mapSet, List.lookup_cons, List.mem_cons]
    by_cases hke : k = key
    · subst hke
      simp only [beq_self_eq_true, Option.some.injEq]
      constructor
      · intro e; subst e; exact ⟨Or.inl rfl, by rw [hkv]; simp⟩
      · rintro ⟨m | m, h⟩
        · exact m.symm
        · rw [hsame a m] at h
          have := (hr.items k a).mpr ⟨m, h⟩
          rw [hnone] at this; cases this
    · have : (k == key) = false := by simpa using hke
      simp only [this, hr.items]
      constructor
      · rintro ⟨m, h⟩; exact ⟨Or.inr m, by rw [hsame a m]; exact h⟩
      · rintro ⟨m | m, h⟩
        · subst m; rw [hkv] at h; simp at h; exact absurd h.symm hke
        · exact ⟨m, by rw [← hsame a m]; exact h⟩
  · intro k
    show k ∈ Model.Lru.mapSet key c.items ↔
      ∃ a, (mapSet key p.evictList.heap.length p.items).lookup k = some a
    simp only [Model.Lru.mapSet, mapSet, List.mem_cons, List.lookup_cons, hr.citems]
    by_cases hke : k = key
    · subst hke; simp
    · have : (k == key) = false := by simpa using hke
      simp [hke, this]

end GoguVerif.Lemmas.C07Ptr
