import GoguVerif.Lemmas.C07Sim
/-!
# C07 — every method of the pointer-level layer simulates the abstract-list layer
-/
namespace GoguVerif.Lemmas.C07Ptr
open GoguVerif
open GoguVerif.Spec.C07 (Op)
open GoguVerif.Model.Lru (St Ret)
open GoguVerif.Model.LruPtr (PSt PRes root)
open GoguVerif.Lemmas.C07 (keys)

/-- One call: both layers succeed, return the same tuple, and stay related. -/
def Sim (p : PSt) (c : St) (op : Op) : Prop :=
  ∃ p' c' r as', Model.LruPtr.step p op = .ok p' r ∧ Model.Lru.step c op = .ok c' r ∧ Rep p' c' as'

theorem rep_nil_list {p : PSt} {c : St} (hr : Rep p c []) : c.list = [] := by
  have := hr.cells
  simpa using this.symm

theorem sim_count {p : PSt} {c : St} {as : List Nat} (hr : Rep p c as) : Sim p c .count := by
  refine ⟨p, c, .int p.evictList.len, as, rfl, ?_, hr⟩
  simp only [Model.Lru.step, Model.Lru.count, Model.Lru.length, hr.len,
    cells_length hr.cells]

theorem sim_flush {p : PSt} {c : St} {as : List Nat} (hr : Rep p c as) : Sim p c .flush := by
  refine ⟨_, _, .unit, [], rfl, rfl, hr.size, by simp, ?_, rfl, rfl, ?_, ?_⟩
  · show LinkedF _ _ [0, 0]
    simp [linkedF_cons2, Edge, Model.LruPtr.newLRUList, Model.LruPtr.nextOf, Model.LruPtr.prevOf, root]
  · intro k a; simp
  · intro k; simp

theorem sim_getYoungest {p : PSt} {c : St} {as : List Nat} (hr : Rep p c as) :
    Sim p c .getYoungest := by
  rcases first_view hr.nodup hr.chain with ⟨rfl, h0⟩ | ⟨f, post, rfl, h0, hf0⟩
  · have hl := rep_nil_list hr
    refine ⟨p, c, .kvb 0 0 false, [], ?_, ?_, hr⟩
    · simp [Model.LruPtr.step, Model.LruPtr.getYoungest, Model.LruPtr.first, root, h0]
    · simp [Model.Lru.step, Model.Lru.getYoungest, Model.Lru.first, hl]
  · obtain ⟨lpre, e, lpost, hl, h1, h2, _⟩ := split_cells (pre := []) hr.cells
    have : lpre = [] := by simpa using h1.symm
    subst this
    refine ⟨p, c, .kvb e.1 e.2 true, f :: post, ?_, ?_, hr⟩
    · simp [Model.LruPtr.step, Model.LruPtr.getYoungest, Model.LruPtr.first, root, h0, hf0,
        keyOf_eq, valOf_eq, h2]
    · simp [Model.Lru.step, Model.Lru.getYoungest, Model.Lru.first, hl]

theorem sim_removeYoungest {p : PSt} {c : St} {as : List Nat} (hr : Rep p c as)
    (hk : (keys c.list).Nodup) : Sim p c .removeYoungest := by
  rcases first_view hr.nodup hr.chain with ⟨rfl, h0⟩ | ⟨f, post, rfl, h0, hf0⟩
  · have hl := rep_nil_list hr
    refine ⟨p, c, .kvb 0 0 false, [], ?_, ?_, hr⟩
    · simp [Model.LruPtr.step, Model.LruPtr.removeYoungest, Model.LruPtr.first, root, h0]
    · simp [Model.Lru.step, Model.Lru.removeYoungest, Model.Lru.first, hl]
  · obtain ⟨lpre, e, lpost, l', hl, h2, n1, _, hu, hrm, _, hr'⟩ := rep_delete (pre := []) hr hk
    have : lpre = [] := by simpa using n1
    subst this
    refine ⟨_, _, .kvb e.1 e.2 true, _, ?_, ?_, hr'⟩
    · simp [Model.LruPtr.step, Model.LruPtr.removeYoungest, Model.LruPtr.first, root, h0, hf0,
        keyOf_eq, valOf_eq, h2, hrm]
    · have hfirst : c.list.head? = some e := by rw [hl]; rfl
      simp [Model.Lru.step, Model.Lru.removeYoungest, Model.Lru.first, Model.Lru.remove, hfirst, hu]

theorem sim_removeOldest {p : PSt} {c : St} {as : List Nat} (hr : Rep p c as)
    (hk : (keys c.list).Nodup) : Sim p c .removeOldest := by
  rcases last_view hr.nodup hr.chain with ⟨rfl, h0⟩ | ⟨pre, x, rfl, h0, hx0⟩
  · have hl := rep_nil_list hr
    refine ⟨p, c, .kvb 0 0 false, [], ?_, ?_, hr⟩
    · simp [Model.LruPtr.step, Model.LruPtr.removeOldest, Model.LruPtr.last, root, h0]
    · simp [Model.Lru.step, Model.Lru.removeOldest, Model.Lru.last, hl]
  · obtain ⟨lpre, e, lpost, l', hl, h2, _, n2, hu, hrm, _, hr'⟩ := rep_delete (post := []) hr hk
    have : lpost = [] := by simpa using n2
    subst this
    refine ⟨_, _, .kvb e.1 e.2 true, _, ?_, ?_, hr'⟩
    · simp [Model.LruPtr.step, Model.LruPtr.removeOldest, Model.LruPtr.removeLast,
        Model.LruPtr.last, root, h0, hx0, keyOf_eq, valOf_eq, h2, hrm]
    · have hlast : c.list.getLast? = some e := by rw [hl]; simp
      simp [Model.Lru.step, Model.Lru.removeOldest, Model.Lru.removeLast, Model.Lru.last,
        Model.Lru.remove, hlast, hu]

theorem sim_remove {p : PSt} {c : St} {as : List Nat} (hr : Rep p c as)
    (hk : (keys c.list).Nodup) (k : Int) : Sim p c (.remove k) := by
  cases hlk : p.items.lookup k with
  | none =>
    have hc : k ∉ c.items := by rw [hr.citems]; simp [hlk]
    refine ⟨p, c, .vb 0 false, as, ?_, ?_, hr⟩
    · simp [Model.LruPtr.step, Model.LruPtr.removeKey, Model.LruPtr.mapGet, hlk]
    · simp [Model.Lru.step, Model.Lru.removeKey, Model.Lru.mapHas, hc]
  | some a =>
    have hc : k ∈ c.items := by rw [hr.citems]; exact ⟨a, hlk⟩
    obtain ⟨ha, hka⟩ := (hr.items k a).mp hlk
    obtain ⟨pre, post, rfl⟩ := List.append_of_mem ha
    obtain ⟨lpre, e, lpost, l', hl, h2, _, _, hu, hrm, hkv, hr'⟩ := rep_delete hr hk
    have hek : e.1 = k := by rw [h2] at hka; simpa using hka
    refine ⟨_, _, .vb e.2 true, _, ?_, ?_, hr'⟩
    · simp [Model.LruPtr.step, Model.LruPtr.removeKey, Model.LruPtr.mapGet, hlk, keyOf_eq,
        valOf_eq, h2, hrm, hkv]
    · rw [← hek] at hc ⊢
      simp [Model.Lru.step, Model.Lru.removeKey, Model.Lru.mapHas, hc, Model.Lru.remove, hu]

theorem sim_get {p : PSt} {c : St} {as : List Nat} (hr : Rep p c as)
    (hk : (keys c.list).Nodup) (k : Int) : Sim p c (.get k) := by
  cases hlk : p.items.lookup k with
  | none =>
    have hc : k ∉ c.items := by rw [hr.citems]; simp [hlk]
    refine ⟨p, c, .vb 0 false, as, ?_, ?_, hr⟩
    · simp [Model.LruPtr.step, Model.LruPtr.get, Model.LruPtr.mapGet, hlk]
    · simp [Model.Lru.step, Model.Lru.get, Model.Lru.mapHas, hc]
  | some a =>
    have hc : k ∈ c.items := by rw [hr.citems]; exact ⟨a, hlk⟩
    obtain ⟨ha, hka⟩ := (hr.items k a).mp hlk
    obtain ⟨pre, post, rfl⟩ := List.append_of_mem ha
    obtain ⟨lpre, e, lpost, l', hl, h2, _, hu, hmv, hkv, hr'⟩ := rep_touch hr hk
    have hek : e.1 = k := by rw [h2] at hka; simpa using hka
    refine ⟨_, _, .vb e.2 true, _, ?_, ?_, hr'⟩
    · simp [Model.LruPtr.step, Model.LruPtr.get, Model.LruPtr.mapGet, hlk, valOf_eq, h2, hmv, hkv]
    · rw [← hek] at hc ⊢
      simp [Model.Lru.step, Model.Lru.get, Model.Lru.mapHas, hc, Model.Lru.moveFront, hu]

theorem sim_getOldest {p : PSt} {c : St} {as : List Nat} (hr : Rep p c as)
    (hk : (keys c.list).Nodup) : Sim p c .getOldest := by
  rcases last_view hr.nodup hr.chain with ⟨rfl, h0⟩ | ⟨pre, x, rfl, h0, hx0⟩
  · have hl := rep_nil_list hr
    refine ⟨p, c, .kvb 0 0 false, [], ?_, ?_, hr⟩
    · simp [Model.LruPtr.step, Model.LruPtr.getOldest, Model.LruPtr.last, root, h0]
    · simp [Model.Lru.step, Model.Lru.getOldest, Model.Lru.last, hl]
  · obtain ⟨lpre, e, lpost, l', hl, h2, n2, hu, hmv, hkv, hr'⟩ := rep_touch (post := []) hr hk
    have : lpost = [] := by simpa using n2
    subst this
    refine ⟨_, _, .kvb e.1 e.2 true, _, ?_, ?_, hr'⟩
    · simp [Model.LruPtr.step, Model.LruPtr.getOldest, Model.LruPtr.last, root, h0, hx0,
        keyOf_eq, valOf_eq, h2, hmv, hkv]
    · have hlast : c.list.getLast? = some e := by rw [hl]; simp
      simp [Model.Lru.step, Model.Lru.getOldest, Model.Lru.last, Model.Lru.moveFront, hlast, hu]

theorem sim_add {p : PSt} {c : St} {as : List Nat} (hr : Rep p c as)
    (hk : (keys c.list).Nodup) (k v : Int) : Sim p c (.add k v) := by
  cases hlk : p.items.lookup k with
  | some a =>
    have hc : k ∈ c.items := by rw [hr.citems]; exact ⟨a, hlk⟩
    obtain ⟨ha, hka⟩ := (hr.items k a).mp hlk
    obtain ⟨pre, post, rfl⟩ := List.append_of_mem ha
    obtain ⟨lpre, e, lpost, l', hl, h2, _, hu, hmv, hkv, hr'⟩ := rep_touch hr hk
    have hek : e.1 = k := by rw [h2] at hka; simpa using hka
    have h2' : kvOf l'.heap a = some e := by rw [hkv]; exact h2
    obtain ⟨h3, w3, _, kv3, nx3, pv3⟩ := wrVal_spec v h2'
    have hfresh : a ∉ pre ++ post := by
      have := hr'.nodup
      simp only [List.nodup_cons, List.mem_cons, not_or] at this
      exact this.2.1
    refine ⟨{ p with evictList := { l' with heap := h3 } },
      { c with list := (e.1, v) :: (lpre ++ lpost) }, .kvb 0 0 false, a :: (pre ++ post), ?_, ?_, ?_⟩
    · simp [Model.LruPtr.step, Model.LruPtr.add, Model.LruPtr.mapGet, hlk, hmv, w3]
    · rw [← hek] at hc ⊢
      simp [Model.Lru.step, Model.Lru.add, Model.Lru.mapHas, hc, hu]
    · have hsame : ∀ b ∈ pre ++ post, kvOf h3 b = kvOf l'.heap b := by
        intro b hb; rw [kv3, upd_ne]; exact fun e' => hfresh (e' ▸ hb)
      refine ⟨hr'.size, hr'.nodup, ?_, ?_, hr'.len, ?_, hr'.citems⟩
      · show LinkedF (Model.LruPtr.nextOf h3) (Model.LruPtr.prevOf h3) _
        rw [nx3, pv3]; exact hr'.chain
      · show (a :: (pre ++ post)).map (kvOf h3) = _
        have := hr'.cells
        simp only [List.map_cons, List.cons.injEq] at this ⊢
        refine ⟨by rw [kv3]; simp, ?_⟩
        rw [List.map_congr_left hsame]; exact this.2
      · intro k' b
        show p.items.lookup k' = some b ↔ b ∈ a :: (pre ++ post) ∧ (kvOf h3 b).map (·.1) = some k'
        rw [hr'.items k' b]
        have hkey : (kvOf h3 b).map (·.1) = (kvOf l'.heap b).map (·.1) := by
          by_cases hb : b = a
          · subst hb; rw [kv3, h2']; simp
          · rw [kv3, upd_ne _ _ hb]
        show _ ∧ (kvOf l'.heap b).map (·.1) = some k' ↔ _
        rw [hkey]
  | none =>
    have hc : k ∉ c.items := by rw [hr.citems]; simp [hlk]
    obtain ⟨l1, p1, c1, ha, hp1, hc1, hr1⟩ := rep_add hr k v hlk
    have hk1 : (keys c1.list).Nodup := by
      rw [hc1]
      simp only [Model.Lru.addFront, C07.keys_cons, List.nodup_cons]
      refine ⟨fun m => ?_, hk⟩
      -- a key of the list is in the map
      obtain ⟨e, he, hek⟩ := List.mem_map.mp m
      have : some e ∈ c.list.map some := List.mem_map.mpr ⟨e, he, rfl⟩
      rw [← hr.cells] at this
      obtain ⟨a, ha', hkv⟩ := List.mem_map.mp this
      have := (hr.items k a).mpr ⟨ha', by rw [hkv]; simp [hek]⟩
      rw [hlk] at this; cases this
    have hcount := count_eq hr1
    have hsize := hr1.size
    have e1 : Model.LruPtr.step p (.add k v) =
        if Model.LruPtr.count p1 > p1.size then Model.LruPtr.removeOldest p1
        else .ok p1 (.kvb 0 0 false) := by
      subst hp1
      simp only [Model.LruPtr.step, Model.LruPtr.add, Model.LruPtr.mapGet, hlk, ha]
    have e2 : Model.Lru.step c (.add k v) =
        if Model.Lru.count c1 > c1.size then Model.Lru.removeOldest c1
        else .ok c1 (.kvb 0 0 false) := by
      subst hc1
      simp only [Model.Lru.step, Model.Lru.add, Model.Lru.mapHas, List.contains_eq_mem, hc,
        decide_false, Bool.false_eq_true, if_false]
    rw [Sim, e1, e2, hcount, hsize]
    by_cases hfull : Model.Lru.count c1 > c1.size
    · rw [if_pos hfull, if_pos hfull]
      exact sim_removeOldest hr1 hk1
    · rw [if_neg hfull, if_neg hfull]
      exact ⟨p1, c1, .kvb 0 0 false, _, rfl, rfl, hr1⟩

/-- Every method of the pointer-level layer simulates the abstract-list layer. -/
theorem sim_all {p : PSt} {c : St} {as : List Nat} (hr : Rep p c as) (hk : (keys c.list).Nodup)
    (op : Op) : Sim p c op := by
  cases op with
  | add k v => exact sim_add hr hk k v
  | get k => exact sim_get hr hk k
  | getOldest => exact sim_getOldest hr hk
  | getYoungest => exact sim_getYoungest hr
  | remove k => exact sim_remove hr hk k
  | removeOldest => exact sim_removeOldest hr hk
  | removeYoungest => exact sim_removeYoungest hr hk
  | flush => exact sim_flush hr
  | count => exact sim_count hr

end GoguVerif.Lemmas.C07Ptr
