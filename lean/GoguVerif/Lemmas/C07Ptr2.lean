import GoguVerif.Lemmas.C07Ptr
/-!
# C07 — pointer-level layer, part 2: unlinking and inserting in the circular chain (field views),
then the `lruList` methods
-/
namespace GoguVerif.Lemmas.C07Ptr
open GoguVerif Model.LruPtr

/-- Unlinking `nd` (`nd.prev.next = nd.next; nd.next.prev = nd.prev`, in either order) from the
circular chain over `pre ++ nd :: post` leaves the circular chain over `pre ++ post`. -/
theorem unlink_views {nx pv : Nat → Option Nat} {pre post : List Nat} {nd : Nat}
    (hnd : (0 :: (pre ++ nd :: post)).Nodup)
    (hl : LinkedF nx pv (0 :: (pre ++ nd :: post) ++ [0])) :
    ∃ p q, pv nd = some p ∧ nx nd = some q ∧ nx p = some nd ∧ pv q = some nd ∧ p ≠ nd ∧ q ≠ nd ∧
      LinkedF (upd nx p q) (upd pv q p) (0 :: (pre ++ post) ++ [0]) := by
  -- 0 :: pre = A ++ [p],  post ++ [0] = q :: B
  have hA : (0 :: pre).dropLast ++ [(0 :: pre).getLast (by simp)] = 0 :: pre :=
    List.dropLast_concat_getLast (by simp)
  generalize (0 :: pre).dropLast = A at hA
  generalize (0 :: pre).getLast (by simp) = p at hA
  obtain ⟨q, B, hB⟩ : ∃ q B, post ++ [0] = q :: B := by
    cases post with
    | nil => exact ⟨0, [], rfl⟩
    | cons b r => exact ⟨b, r ++ [0], rfl⟩
  have e1 : 0 :: (pre ++ nd :: post) ++ [0] = A ++ p :: nd :: q :: B := by
    calc 0 :: (pre ++ nd :: post) ++ [0] = (0 :: pre) ++ nd :: (post ++ [0]) := by simp
      _ = (A ++ [p]) ++ nd :: (q :: B) := by rw [hA, hB]
      _ = A ++ p :: nd :: q :: B := by simp
  have e2 : 0 :: (pre ++ post) ++ [0] = A ++ p :: q :: B := by
    calc 0 :: (pre ++ post) ++ [0] = (0 :: pre) ++ (post ++ [0]) := by simp
      _ = (A ++ [p]) ++ (q :: B) := by rw [hA, hB]
      _ = A ++ p :: q :: B := by simp
  rw [e1, linkedF_append, linkedF_cons2, linkedF_cons2] at hl
  obtain ⟨h1, ⟨hpn, hnp⟩, ⟨hnq, hqn⟩, h2⟩ := hl
  -- membership facts
  simp only [List.nodup_cons, List.mem_append, List.mem_cons, List.nodup_append, not_or] at hnd
  obtain ⟨⟨h0pre, h0nd, h0post⟩, hpre, ⟨hndpost, hpost⟩, hdisj⟩ := hnd
  have hpmem : p ∈ 0 :: pre := by rw [← hA]; simp
  have hqmem : q ∈ post ++ [0] := by rw [hB]; simp
  have hAnd : (A ++ [p]).Nodup := by
    rw [hA]; exact List.nodup_cons.mpr ⟨h0pre, hpre⟩
  have hBnd : (q :: B).Nodup := by
    rw [← hB]; simp only [List.nodup_append, List.nodup_cons, List.mem_cons, List.not_mem_nil,
      List.nodup_nil, and_true, or_false, not_false_eq_true, true_and]
    exact ⟨hpost, fun a ha b hb => by subst hb; exact fun e => h0post (e ▸ ha)⟩
  have hpA : p ∉ A := by
    intro m
    have := (List.nodup_append.mp hAnd).2.2 p m p (by simp)
    exact this rfl
  have hqB : q ∉ B := (List.nodup_cons.mp hBnd).1
  have hq_pre : ∀ y ∈ pre, y ≠ q := by
    intro y hy e; subst e
    simp only [List.mem_append, List.mem_cons, List.not_mem_nil, or_false] at hqmem
    rcases hqmem with m | m
    · exact hdisj y hy y (Or.inr m) rfl
    · exact h0pre (m ▸ hy)
  have hp_post : ∀ x ∈ post, x ≠ p := by
    intro x hx e; subst e
    simp only [List.mem_cons] at hpmem
    rcases hpmem with m | m
    · exact h0post (m ▸ hx)
    · exact hdisj x m x (Or.inr hx) rfl
  have hpnd : p ≠ nd := by
    intro e; subst e
    simp only [List.mem_cons] at hpmem
    rcases hpmem with m | m
    · exact h0nd m.symm
    · exact hdisj p m p (Or.inl rfl) rfl
  have hqnd : q ≠ nd := by
    intro e; subst e
    simp only [List.mem_append, List.mem_cons, List.not_mem_nil, or_false] at hqmem
    rcases hqmem with m | m
    · exact hndpost m
    · exact h0nd m.symm
  refine ⟨p, q, hnp, hnq, hpn, hqn, hpnd, hqnd, ?_⟩
  rw [e2, linkedF_append, linkedF_cons2]
  refine ⟨?_, ⟨by simp, by simp⟩, ?_⟩
  · refine h1.frame (fun x hx => upd_ne _ _ ?_) (fun y hy => upd_ne _ _ ?_)
    · rw [List.dropLast_concat] at hx; exact fun e => hpA (e ▸ hx)
    · rw [hA] at hy; exact hq_pre y hy
  · refine h2.frame (fun x hx => upd_ne _ _ ?_) (fun y hy => upd_ne _ _ ?_)
    · rw [← hB, List.dropLast_concat] at hx; exact hp_post x hx
    · exact fun e => hqB (e ▸ hy)

/-- Linking `nd` right after the root (`nd.prev = root; nd.next = root.next; root.next = nd;
nd.next.prev = nd`) puts it at the front of the circular chain. -/
theorem insert_views {nx pv : Nat → Option Nat} {as : List Nat} {nd : Nat}
    (hnd : (0 :: as).Nodup) (hfresh : nd ∉ 0 :: as)
    (hl : LinkedF nx pv (0 :: as ++ [0])) :
    ∃ f, nx 0 = some f ∧ pv f = some 0 ∧ f ≠ nd ∧
      LinkedF (upd (upd nx nd f) 0 nd) (upd (upd pv nd 0) f nd) (0 :: (nd :: as) ++ [0]) := by
  obtain ⟨f, B, hB⟩ : ∃ f B, as ++ [0] = f :: B := by
    cases as with
    | nil => exact ⟨0, [], rfl⟩
    | cons b r => exact ⟨b, r ++ [0], rfl⟩
  simp only [List.nodup_cons, List.mem_cons, not_or] at hnd hfresh
  have hfmem : f ∈ as ++ [0] := by rw [hB]; simp
  have hBnd : (f :: B).Nodup := by
    rw [← hB]; simp only [List.nodup_append, List.nodup_cons, List.mem_cons, List.not_mem_nil,
      List.nodup_nil, and_true, or_false, not_false_eq_true, true_and]
    exact ⟨hnd.2, fun a ha b hb => by subst hb; exact fun e => hnd.1 (e ▸ ha)⟩
  have hfB : f ∉ B := (List.nodup_cons.mp hBnd).1
  have hfnd : f ≠ nd := by
    intro e; subst e
    simp only [List.mem_append, List.mem_cons, List.not_mem_nil, or_false] at hfmem
    rcases hfmem with m | m
    · exact hfresh.2 m
    · exact hfresh.1 m
  have e1 : 0 :: as ++ [0] = 0 :: f :: B := by simp [← hB]
  have e2 : 0 :: (nd :: as) ++ [0] = 0 :: nd :: f :: B := by simp [← hB]
  rw [e1, linkedF_cons2] at hl
  obtain ⟨⟨h0f, hf0⟩, h2⟩ := hl
  refine ⟨f, h0f, hf0, hfnd, ?_⟩
  rw [e2, linkedF_cons2, linkedF_cons2]
  have hnd0 : nd ≠ 0 := hfresh.1
  refine ⟨⟨by simp, ?_⟩, ⟨?_, by simp⟩, ?_⟩
  · rw [upd_ne _ _ (fun e => hfnd e.symm)]; simp
  · rw [upd_ne _ _ hnd0]; simp
  · refine h2.frame (fun x hx => ?_) (fun y hy => ?_)
    · have hx' : x ∈ as := by rw [← hB, List.dropLast_concat] at hx; exact hx
      have hx0 : x ≠ 0 := by intro e; rw [e] at hx'; exact hnd.1 hx'
      have hxnd : x ≠ nd := by intro e; rw [e] at hx'; exact hfresh.2 hx'
      rw [upd_ne _ _ hx0, upd_ne _ _ hxnd]
    · have hy' : y ∈ as ++ [0] := by rw [hB]; exact List.mem_cons_of_mem _ hy
      have hynd : y ≠ nd := by
        intro e; subst e
        simp only [List.mem_append, List.mem_cons, List.not_mem_nil, or_false] at hy'
        rcases hy' with m | m
        · exact hfresh.2 m
        · exact hfresh.1 m
      have hyf : y ≠ f := by intro e; rw [e] at hy; exact hfB hy
      rw [upd_ne _ _ hyf, upd_ne _ _ hynd]

/-- `root.next` is the first node of the chain (the root itself when there is none). -/
theorem first_view {nx pv : Nat → Option Nat} {as : List Nat} (hnd : (0 :: as).Nodup)
    (hl : LinkedF nx pv (0 :: as ++ [0])) :
    (as = [] ∧ nx 0 = some 0) ∨ (∃ f post, as = f :: post ∧ nx 0 = some f ∧ f ≠ 0) := by
  cases as with
  | nil => left; exact ⟨rfl, hl.1.1⟩
  | cons f post =>
    right
    simp only [List.nodup_cons, List.mem_cons, not_or] at hnd
    exact ⟨f, post, rfl, hl.1.1, fun e => hnd.1.1 e.symm⟩

/-- `root.prev` is the last node of the chain (the root itself when there is none). -/
theorem last_view {nx pv : Nat → Option Nat} {as : List Nat} (hnd : (0 :: as).Nodup)
    (hl : LinkedF nx pv (0 :: as ++ [0])) :
    (as = [] ∧ pv 0 = some 0) ∨ (∃ pre x, as = pre ++ [x] ∧ pv 0 = some x ∧ x ≠ 0) := by
  rcases List.eq_nil_or_concat as with h | ⟨pre, x, h⟩
  · left; subst h; exact ⟨rfl, hl.1.2⟩
  · right
    rw [List.concat_eq_append] at h
    subst h
    refine ⟨pre, x, rfl, ?_, ?_⟩
    · have e : 0 :: (pre ++ [x]) ++ [0] = (0 :: pre) ++ x :: [0] := by simp
      rw [e, linkedF_append] at hl
      exact hl.2.1.2
    · simp only [List.nodup_cons, List.mem_append, List.mem_cons, List.not_mem_nil, or_false,
        not_or] at hnd
      exact fun e => hnd.1.2 e.symm

/-- every address on the chain holds a node -/
theorem valid_of_linked {nx pv : Nat → Option Nat} {as : List Nat}
    (hl : LinkedF nx pv (0 :: as ++ [0])) : ∀ a ∈ 0 :: as, ∃ b, nx a = some b := by
  suffices H : ∀ (L : List Nat) (t : Nat), LinkedF nx pv (L ++ [t]) → ∀ a ∈ L, ∃ b, nx a = some b by
    exact H (0 :: as) 0 (by simpa using hl)
  intro L
  induction L with
  | nil => intro t _ a ha; simp at ha
  | cons x r ih =>
    intro t h a ha
    cases r with
    | nil =>
      simp only [List.mem_cons, List.not_mem_nil, or_false] at ha; subst ha
      exact ⟨t, h.1.1⟩
    | cons y r =>
      simp only [List.cons_append, linkedF_cons2] at h
      simp only [List.mem_cons] at ha
      rcases ha with rfl | ha
      · exact ⟨y, h.1.1⟩
      · exact ih t h.2 a (by simpa using ha)

end GoguVerif.Lemmas.C07Ptr
