import GoguVerif.Spec.C11
import GoguVerif.Model.C11
/-!
# C11 — helper lemmas for `Duplicate` / `DuplicateWithIndex` (Go maps as association lists)
-/
namespace GoguVerif.Lemmas.C11
open GoguVerif.Spec.C11 GoguVerif.Model.C11

variable {α β : Type} [DecidableEq α]

/-- value stored under key `k` (first binding) -/
def find? (k : α) : List (α × β) → Option β
  | [] => none
  | (k', v) :: r => if k' = k then some v else find? k r

theorem hasKey_eq (k : α) (m : List (α × β)) : hasKey k m = (find? k m).isSome := by
  induction m with
  | nil => rfl
  | cons e r ih =>
    obtain ⟨k', v⟩ := e
    by_cases h : k' = k <;> simp [hasKey, find?, h, ih]

theorem find?_eq_none (k : α) (m : List (α × β)) : find? k m = none ↔ k ∉ m.map Prod.fst := by
  induction m with
  | nil => simp [find?]
  | cons e r ih =>
    obtain ⟨k', v⟩ := e
    by_cases h : k' = k
    · simp [find?, h]
    · have h' : ¬ k = k' := fun e => h e.symm
      simp [find?, h, h', ih]

theorem mem_iff_find? (m : List (α × β)) (hn : (m.map Prod.fst).Nodup) (k : α) (v : β) :
    (k, v) ∈ m ↔ find? k m = some v := by
  induction m with
  | nil => simp [find?]
  | cons e r ih =>
    obtain ⟨k', v'⟩ := e
    simp only [List.map_cons, List.nodup_cons] at hn
    by_cases h : k' = k
    · subst h
      simp only [List.mem_cons, Prod.mk.injEq, true_and, find?, if_true, Option.some.injEq]
      constructor
      · rintro (h | h)
        · exact h.symm
        · exact absurd (List.mem_map.mpr ⟨(k', v), h, rfl⟩) hn.1
      · intro h; exact Or.inl h.symm
    · have h' : ¬ k = k' := fun e => h e.symm
      simp [find?, h, h', ih hn.2]

theorem find?_append_single (x v : α) (c : β) (m : List (α × β)) :
    find? x (m ++ [(v, c)]) = match find? x m with
      | some a => some a
      | none => if v = x then some c else none := by
  induction m with
  | nil => simp [find?]
  | cons e r ih =>
    obtain ⟨k', v'⟩ := e
    by_cases h : k' = x <;> simp [find?, h, ih]

/-! ## Duplicate -/

theorem keys_incrKey (v : α) (m : List (α × Nat)) : (incrKey v m).map Prod.fst = m.map Prod.fst := by
  induction m with
  | nil => rfl
  | cons e r ih =>
    obtain ⟨k', c⟩ := e
    by_cases h : k' = v <;> simp [incrKey, h, ih]

theorem find?_incrKey (x v : α) (m : List (α × Nat)) :
    find? x (incrKey v m) = if x = v then (find? v m).map (· + 1) else find? x m := by
  induction m with
  | nil => simp [incrKey, find?]
  | cons e r ih =>
    obtain ⟨k', c⟩ := e
    by_cases h : k' = v
    · subst h
      by_cases hx : x = k'
      · subst hx; simp [incrKey, find?]
      · have hx' : ¬ k' = x := fun e => hx e.symm
        simp [incrKey, find?, hx, hx']
    · by_cases hx : x = v
      · subst hx
        simp [incrKey, find?, h, ih]
      · by_cases hk : k' = x
        · simp [incrKey, find?, hx, hk]
        · simp [incrKey, find?, h, hx, hk, ih]

/-- `m` records, for exactly the values of `p`, how often they occur in `p`. -/
def CountInv (m : List (α × Nat)) (p : List α) : Prop :=
  (m.map Prod.fst).Nodup ∧ ∀ x, find? x m = if p.count x = 0 then none else some (p.count x)

theorem countInv_nil : CountInv ([] : List (α × Nat)) [] := by
  simp [CountInv, find?]

theorem dupCountLoop_inv (m : List (α × Nat)) (p s : List α) (h : CountInv m p) :
    CountInv (dupCountLoop m s) (p ++ s) := by
  induction s generalizing m p with
  | nil => simpa [dupCountLoop] using h
  | cons v rest ih =>
    have happ : p ++ v :: rest = (p ++ [v]) ++ rest := by simp
    rw [happ]
    simp only [dupCountLoop, hasKey_eq]
    obtain ⟨hn, hf⟩ := h
    have hcount : ∀ x, (p ++ [v]).count x = p.count x + (if v = x then 1 else 0) := by
      intro x
      rw [List.count_append, List.count_singleton]
      by_cases h : v = x <;> simp [h]
    by_cases hk : (find? v m).isSome = true
    · simp only [hk, if_true]
      apply ih
      refine ⟨by rw [keys_incrKey]; exact hn, ?_⟩
      intro x
      rw [find?_incrKey, hcount]
      by_cases hx : x = v
      · subst hx
        have := hf x
        by_cases hc : p.count x = 0
        · simp [hc] at this; simp [this] at hk
        · simp [hc] at this; simp [this]
      · have hx' : ¬ v = x := fun e => hx e.symm
        simp [hx, hx', hf x]
    · simp only [hk, Bool.false_eq_true, if_false]
      have hnone : find? v m = none := by
        cases hfv : find? v m with
        | none => rfl
        | some a => simp [hfv] at hk
      apply ih
      refine ⟨?_, ?_⟩
      · rw [List.map_append, List.nodup_append]
        refine ⟨hn, by simp, ?_⟩
        intro a ha b hb
        simp only [List.map_cons, List.map_nil, List.mem_singleton] at hb
        subst hb
        intro e; subst e
        exact (find?_eq_none _ m).mp hnone ha
      · intro x
        rw [find?_append_single, hcount]
        by_cases hx : v = x
        · subst hx
          have := hf v
          rw [hnone] at this
          have hc : p.count v = 0 := by
            by_cases hc : p.count v = 0
            · exact hc
            · simp [hc] at this
          simp [hnone, hc]
        · simp only [hx, if_false, Nat.add_zero, hf x]
          by_cases hc : p.count x = 0 <;> simp [hc]

omit [DecidableEq α] in
theorem dupCollect_eq (m : List (α × Nat)) :
    dupCollect m = (m.filter fun e => decide (e.2 > 1)).map Prod.fst := by
  induction m with
  | nil => rfl
  | cons e r ih =>
    obtain ⟨k, c⟩ := e
    by_cases h : c > 1 <;> simp [dupCollect, h, ih]

/-- what `Duplicate` collects from ANY iteration order of the counting map -/
theorem dupCollect_holds (s : List α) (m m' : List (α × Nat)) (h : CountInv m s) (hp : m'.Perm m) :
    DupHolds s (dupCollect m') := by
  obtain ⟨hn, hf⟩ := h
  have hn' : (m'.map Prod.fst).Nodup := ((hp.map Prod.fst).nodup_iff).mpr hn
  rw [dupCollect_eq]
  refine ⟨(List.filter_sublist.map Prod.fst).nodup hn', ?_⟩
  intro x
  simp only [List.mem_map, List.mem_filter, decide_eq_true_eq]
  constructor
  · rintro ⟨⟨k, c⟩, ⟨hmem, hc⟩, rfl⟩
    have := (mem_iff_find? m hn k c).mp (hp.mem_iff.mp hmem)
    rw [hf k] at this
    by_cases h0 : s.count k = 0
    · simp [h0] at this
    · simp only [h0, if_false, Option.some.injEq] at this
      simp only at hc ⊢
      omega
  · intro hx
    have h0 : ¬ s.count x = 0 := by omega
    have : find? x m = some (s.count x) := by rw [hf x]; simp [h0]
    exact ⟨(x, s.count x), ⟨hp.mem_iff.mpr ((mem_iff_find? m hn x _).mpr this), hx⟩, rfl⟩

/-! ## DuplicateWithIndex -/

theorem keys_setCount (v : α) (c : Nat) (m : List (α × Nat × Nat)) :
    (setCount v c m).map Prod.fst = m.map Prod.fst := by
  induction m with
  | nil => rfl
  | cons e r ih =>
    obtain ⟨k', i, c'⟩ := e
    by_cases h : k' = v <;> simp [setCount, h, ih]

theorem find?_setCount (x v : α) (c : Nat) (m : List (α × Nat × Nat)) :
    find? x (setCount v c m) = if x = v then (find? v m).map (fun e => (e.1, c)) else find? x m := by
  induction m with
  | nil => simp [setCount, find?]
  | cons e r ih =>
    obtain ⟨k', i, c'⟩ := e
    by_cases h : k' = v
    · subst h
      by_cases hx : x = k'
      · subst hx; simp [setCount, find?]
      · have hx' : ¬ k' = x := fun e => hx e.symm
        simp [setCount, find?, hx, hx']
    · by_cases hx : x = v
      · subst hx
        simp [setCount, find?, h, ih]
      · by_cases hk : k' = x
        · simp [setCount, find?, hx, hk]
        · simp [setCount, find?, h, hx, hk, ih]

/-- `m` binds exactly the values of `p`, each to its first index in `p` and to a counter that
exceeds 1 exactly when the value occurs more than once (the counter itself is NOT the number of
occurrences: the code shares one `count` variable between all values). -/
def IdxInv (m : List (α × Nat × Nat)) (p : List α) : Prop :=
  (m.map Prod.fst).Nodup ∧
  ∀ x, (x ∉ p → find? x m = none) ∧
       (x ∈ p → ∃ c, find? x m = some (p.idxOf x, c) ∧ (1 < c ↔ 1 < p.count x))

theorem idxInv_nil : IdxInv ([] : List (α × Nat × Nat)) [] := by
  simp [IdxInv, find?]

theorem dupIdxLoop_inv (cnt : Nat) (m : List (α × Nat × Nat)) (p s : List α)
    (h : IdxInv m p) (hc : p ≠ [] → 1 ≤ cnt) :
    IdxInv (dupIdxLoop cnt m p.length s) (p ++ s) := by
  induction s generalizing cnt m p with
  | nil => simpa [dupIdxLoop] using h
  | cons v rest ih =>
    have happ : p ++ v :: rest = (p ++ [v]) ++ rest := by simp
    have hlen : p.length + 1 = (p ++ [v]).length := by simp
    rw [happ]
    simp only [dupIdxLoop, hasKey_eq]
    obtain ⟨hn, hf⟩ := h
    have hcount : ∀ x, (p ++ [v]).count x = p.count x + (if v = x then 1 else 0) := by
      intro x
      rw [List.count_append, List.count_singleton]
      by_cases h : v = x <;> simp [h]
    by_cases hk : (find? v m).isSome = true
    · -- the value has been seen before
      have hvp : v ∈ p := by
        by_cases hvp : v ∈ p
        · exact hvp
        · have := (hf v).1 hvp; simp [this] at hk
      have hcnt : 1 ≤ cnt := hc (List.ne_nil_of_mem hvp)
      simp only [hk, if_true]
      rw [hlen]
      apply ih
      · refine ⟨by rw [keys_setCount]; exact hn, ?_⟩
        intro x
        rw [find?_setCount]
        by_cases hx : x = v
        · subst hx
          refine ⟨fun hnot => absurd (List.mem_append_left _ hvp) hnot, fun _ => ?_⟩
          obtain ⟨c, hfc, _⟩ := (hf x).2 hvp
          refine ⟨cnt + 1, ?_, ?_⟩
          · simp [hfc, List.idxOf_append, hvp]
          · have : 0 < p.count x := List.count_pos_iff.mpr hvp
            rw [hcount]; simp only [if_true]
            omega
        · have hx' : ¬ v = x := fun e => hx e.symm
          simp only [hx, if_false, List.mem_append, List.mem_singleton, or_false]
          refine ⟨(hf x).1, fun hxp => ?_⟩
          obtain ⟨c, hfc, hiff⟩ := (hf x).2 hxp
          exact ⟨c, by simp [hfc, List.idxOf_append, hxp], by rw [hcount]; simpa [hx'] using hiff⟩
      · intro _; omega
    · -- first occurrence of the value
      simp only [hk, Bool.false_eq_true, if_false]
      have hnone : find? v m = none := by
        cases hfv : find? v m with
        | none => rfl
        | some a => simp [hfv] at hk
      have hvp : v ∉ p := by
        intro hvp
        obtain ⟨c, hfc, _⟩ := (hf v).2 hvp
        simp [hfc] at hnone
      rw [hlen]
      apply ih
      · refine ⟨?_, ?_⟩
        · rw [List.map_append, List.nodup_append]
          refine ⟨hn, by simp, ?_⟩
          intro a ha b hb
          simp only [List.map_cons, List.map_nil, List.mem_singleton] at hb
          subst hb
          intro e; subst e
          exact (find?_eq_none _ m).mp hnone ha
        · intro x
          rw [find?_append_single]
          by_cases hx : v = x
          · subst hx
            refine ⟨fun hnot => absurd (List.mem_append_right _ (List.mem_singleton_self _)) hnot, fun _ => ?_⟩
            refine ⟨1, ?_, ?_⟩
            · simp [hnone, List.idxOf_append, hvp]
            · have : p.count v = 0 := List.count_eq_zero.mpr hvp
              rw [hcount]; simp [this]
          · have hx' : ¬ x = v := fun e => hx e.symm
            simp only [List.mem_append, List.mem_singleton, hx', or_false]
            refine ⟨fun hxp => ?_, fun hxp => ?_⟩
            · simp [(hf x).1 hxp, hx]
            · obtain ⟨c, hfc, hiff⟩ := (hf x).2 hxp
              exact ⟨c, by simp [hfc, List.idxOf_append, hxp], by rw [hcount]; simpa [hx] using hiff⟩
      · intro _; omega

omit [DecidableEq α] in
theorem dupIdxCollect_eq (m : List (α × Nat × Nat)) :
    dupIdxCollect m = (m.filter fun e => decide (e.2.2 > 1)).map (fun e => (e.1, e.2.1)) := by
  induction m with
  | nil => rfl
  | cons e r ih =>
    obtain ⟨k, i, c⟩ := e
    by_cases h : c > 1 <;> simp [dupIdxCollect, h, ih]

/-- what `DuplicateWithIndex` collects from ANY iteration order of its map -/
theorem dupIdxCollect_holds (s : List α) (m m' : List (α × Nat × Nat)) (h : IdxInv m s)
    (hp : m'.Perm m) : DupIdxHolds s (dupIdxCollect m') := by
  obtain ⟨hn, hf⟩ := h
  have hn' : (m'.map Prod.fst).Nodup := ((hp.map Prod.fst).nodup_iff).mpr hn
  rw [dupIdxCollect_eq]
  refine ⟨?_, ?_⟩
  · rw [List.map_map]
    exact (List.filter_sublist.map Prod.fst).nodup hn'
  · intro k i
    simp only [List.mem_map, List.mem_filter, decide_eq_true_eq, Prod.mk.injEq]
    constructor
    · rintro ⟨⟨k', i', c⟩, ⟨hmem, hc⟩, rfl, rfl⟩
      have hfind := (mem_iff_find? m hn k' (i', c)).mp (hp.mem_iff.mp hmem)
      by_cases hks : k' ∈ s
      · obtain ⟨c', hfc, hiff⟩ := (hf k').2 hks
        rw [hfc] at hfind
        simp only [Option.some.injEq, Prod.mk.injEq] at hfind
        obtain ⟨hi, hcc⟩ := hfind
        subst hcc
        exact ⟨hiff.mp hc, hi⟩
      · rw [(hf k').1 hks] at hfind; simp at hfind
    · rintro ⟨hcnt, hi⟩
      have hks : k ∈ s := List.count_pos_iff.mp (by omega)
      obtain ⟨c, hfc, hiff⟩ := (hf k).2 hks
      refine ⟨(k, s.idxOf k, c), ⟨hp.mem_iff.mpr ((mem_iff_find? m hn k _).mpr hfc), hiff.mpr hcnt⟩, rfl, hi⟩

end GoguVerif.Lemmas.C11
