import GoguVerif.Lemmas.C07Ptr2
/-!
# C07 — pointer-level layer, part 3: the `lruList` methods on a well-formed circular list
-/
namespace GoguVerif.Lemmas.C07Ptr
open GoguVerif Model.LruPtr

/-- the heap holds the circular list `root, as…, root` -/
def Chain (h : Heap) (as : List Nat) : Prop := LinkedF (nextOf h) (prevOf h) (0 :: as ++ [0])

theorem Chain.valid {h : Heap} {as : List Nat} (hc : Chain h as) : ∀ a ∈ 0 :: as, a < h.length := by
  intro a ha
  obtain ⟨b, hb⟩ := valid_of_linked hc a ha
  exact lt_of_nextOf hb

/-- `moveFront(nd)` on a well-formed list: `nd` becomes the first node, the others keep their order;
no key or value changes; `len` is not touched. -/
theorem moveFront_spec {l : PList} {pre post : List Nat} {nd : Nat}
    (hnd : (0 :: (pre ++ nd :: post)).Nodup) (hc : Chain l.heap (pre ++ nd :: post)) :
    ∃ l', moveFront l nd = some l' ∧ Chain l'.heap (nd :: (pre ++ post)) ∧
      kvOf l'.heap = kvOf l.heap ∧ l'.len = l.len ∧ l'.heap.length = l.heap.length := by
  have hnd0 : (0 : Nat) ≠ nd := by
    simp only [List.nodup_cons, List.mem_append, List.mem_cons, not_or] at hnd
    exact hnd.1.2.1
  obtain ⟨p, q, hnp, hnq, hpn, hqn, hpnd, hqnd, hl2⟩ := unlink_views hnd hc
  have hndv := lt_of_nextOf hnq
  have h0v : 0 < l.heap.length := hc.valid 0 (by simp)
  -- nd.prev.next = nd.next
  obtain ⟨h1, w1, len1, nx1, pv1, kv1⟩ := wrNext_spec q (lt_of_nextOf hpn)
  have r1 : nextOf h1 nd = some q := by rw [nx1, upd_ne _ _ (fun e => hpnd e.symm)]; exact hnq
  have r1' : prevOf h1 nd = some p := by rw [pv1]; exact hnp
  -- nd.next.prev = nd.prev
  obtain ⟨h2, w2, len2, pv2, nx2, kv2⟩ := wrPrev_spec (h := h1) p (len1 ▸ lt_of_prevOf hqn)
  -- the unlinked chain, and where nd goes
  have hnd' : (0 :: (pre ++ post)).Nodup := by
    simp only [List.nodup_cons, List.mem_append, List.mem_cons, List.nodup_append, not_or] at hnd ⊢
    exact ⟨⟨hnd.1.1, hnd.1.2.2⟩, hnd.2.1, hnd.2.2.1.2, fun a ha b hb => hnd.2.2.2 a ha b (Or.inr hb)⟩
  have hfresh : nd ∉ 0 :: (pre ++ post) := by
    simp only [List.nodup_cons, List.mem_append, List.mem_cons, List.nodup_append, not_or] at hnd ⊢
    exact ⟨fun e => hnd.1.2.1 e.symm, fun m => hnd.2.2.2 nd m nd (Or.inl rfl) rfl, hnd.2.2.1.1⟩
  have hl2' : LinkedF (nextOf h2) (prevOf h2) (0 :: (pre ++ post) ++ [0]) := by
    rw [nx2, nx1, pv2, pv1]; exact hl2
  obtain ⟨f, h0f, hf0, hfnd, hl6⟩ := insert_views hnd' hfresh hl2'
  -- nd.prev = current
  obtain ⟨h3, w3, len3, pv3, nx3, kv3⟩ := wrPrev_spec (h := h2) 0 (len2 ▸ len1 ▸ hndv)
  have r3 : nextOf h3 0 = some f := by rw [nx3]; exact h0f
  -- nd.next = current.next
  obtain ⟨h4, w4, len4, nx4, pv4, kv4⟩ := wrNext_spec (h := h3) f (len3 ▸ len2 ▸ len1 ▸ hndv)
  have r4 : prevOf h4 nd = some 0 := by rw [pv4, pv3]; simp
  -- nd.prev.next = nd
  obtain ⟨h5, w5, len5, nx5, pv5, kv5⟩ := wrNext_spec (h := h4) nd (len4 ▸ len3 ▸ len2 ▸ len1 ▸ h0v)
  have r5 : nextOf h5 nd = some f := by
    rw [nx5, upd_ne _ _ (fun e => hnd0 e.symm), nx4]; simp
  -- nd.next.prev = nd
  obtain ⟨h6, w6, len6, pv6, nx6, kv6⟩ := wrPrev_spec (h := h5) nd
    (len5 ▸ len4 ▸ len3 ▸ lt_of_prevOf hf0)
  refine ⟨{ l with heap := h6 }, ?_, ?_, ?_, rfl, ?_⟩
  · simp [moveFront, moveAfter, root, hnd0, hnp, hnq, w1, r1, r1', w2, w3, r3, w4, r4, w5, r5, w6]
  · show LinkedF (nextOf h6) (prevOf h6) _
    rw [nx6, nx5, nx4, nx3, pv6, pv5, pv4, pv3]; exact hl6
  · show kvOf h6 = _
    rw [kv6, kv5, kv4, kv3, kv2, kv1]
  · show h6.length = _
    rw [len6, len5, len4, len3, len2, len1]

/-- `remove(nd)` for a linked node: the chain without it, `len--`, `true`. -/
theorem remove_spec {l : PList} {pre post : List Nat} {nd : Nat}
    (hnd : (0 :: (pre ++ nd :: post)).Nodup) (hc : Chain l.heap (pre ++ nd :: post)) :
    ∃ l', remove l nd = some (l', true) ∧ Chain l'.heap (pre ++ post) ∧
      kvOf l'.heap = kvOf l.heap ∧ l'.len = l.len - 1 ∧ l'.heap.length = l.heap.length := by
  have hnd0 : nd ≠ 0 := by
    simp only [List.nodup_cons, List.mem_append, List.mem_cons, not_or] at hnd
    exact fun e => hnd.1.2.1 e.symm
  obtain ⟨p, q, hnp, hnq, hpn, hqn, hpnd, hqnd, hl2⟩ := unlink_views hnd hc
  -- next.prev = prev
  obtain ⟨h1, w1, len1, pv1, nx1, kv1⟩ := wrPrev_spec p (lt_of_prevOf hqn)
  -- prev.next = next
  obtain ⟨h2, w2, len2, nx2, pv2, kv2⟩ := wrNext_spec (h := h1) q (len1 ▸ lt_of_nextOf hpn)
  refine ⟨{ heap := h2, len := l.len - 1 }, ?_, ?_, ?_, rfl, ?_⟩
  · simp [remove, root, hnd0, hnp, hnq, w1, w2]
  · show LinkedF (nextOf h2) (prevOf h2) _
    rw [nx2, nx1, pv2, pv1]; exact hl2
  · show kvOf h2 = _
    rw [kv2, kv1]
  · show h2.length = _
    rw [len2, len1]

/-- `remove(&root)` does nothing and says `false`. -/
theorem remove_root (l : PList) : remove l 0 = some (l, false) := by simp [remove, root]

/-- `addFront(key, value)`: a fresh node at the front, `len++`. -/
theorem addFront_spec {l : PList} {as : List Nat} (key value : Int)
    (hnd : (0 :: as).Nodup) (hc : Chain l.heap as) :
    ∃ l', addFront l key value = some (l', l.heap.length) ∧ l.heap.length ∉ 0 :: as ∧
      Chain l'.heap (l.heap.length :: as) ∧
      kvOf l'.heap = upd (kvOf l.heap) l.heap.length (key, value) ∧ l'.len = l.len + 1 := by
  have hfresh : l.heap.length ∉ 0 :: as := fun m => Nat.lt_irrefl _ (hc.valid _ m)
  obtain ⟨f, h0f, hf0, hfnd, hl6⟩ := insert_views hnd hfresh hc
  have h0v : 0 < l.heap.length := hc.valid 0 (by simp)
  have hne0 : (0 : Nat) ≠ l.heap.length := by omega
  -- the literal
  obtain ⟨anx, apv, akv⟩ := alloc_spec l.heap { prev := 0, next := f, key := key, value := value }
  generalize hh1 : l.heap ++ [({ prev := 0, next := f, key := key, value := value } : PNode)] = h1
    at anx apv akv
  have len1 : h1.length = l.heap.length + 1 := by rw [← hh1]; simp
  have r1 : nextOf h1 0 = some f := by rw [anx, upd_ne _ _ hne0]; exact h0f
  have hfv : f < h1.length := by
    have := lt_of_prevOf hf0; omega
  -- current.next.prev = &newNode
  obtain ⟨h2, w2, len2, pv2, nx2, kv2⟩ := wrPrev_spec (h := h1) l.heap.length hfv
  -- current.next = &newNode
  obtain ⟨h3, w3, len3, nx3, pv3, kv3⟩ := wrNext_spec (h := h2) l.heap.length
    (show 0 < h2.length by omega)
  refine ⟨{ heap := h3, len := l.len + 1 }, ?_, hfresh, ?_, ?_, rfl⟩
  · simp [addFront, addAfter, root, h0f, hh1, r1, w2, w3]
  · show LinkedF (nextOf h3) (prevOf h3) _
    rw [nx3, nx2, anx, pv3, pv2, apv]; exact hl6
  · show kvOf h3 = _
    rw [kv3, kv2, akv]

end GoguVerif.Lemmas.C07Ptr
