import GoguVerif.Model.StoreHelpers
import GoguVerif.Theorems.C16
import GoguVerif.Lemmas.C12
import GoguVerif.Lemmas.C11
/-!
# Lemmas for the store-level helper models (C16)

Basic facts about `elems`, `read`, `write`, `append`, `appendEach`, `appendMany`, `reslice` on
well-formed headers, and the *builder invariant* `Inv σ0 σ res` (every array of the initial store `σ0`
is unchanged in `σ`, `res` is a well-formed header into storage that did not exist in `σ0`).
-/
namespace GoguVerif.Lemmas.C16Helpers
open GoguVerif Model.Store Model.StoreHelpers Theorems.C16

/-! ## reading -/

theorem elems_of_arr {σ : Store} {s : Slice} {a : List Int} (h : σ[s.arr]? = some a) :
    elems σ s = (a.drop s.off).take s.len := by
  simp [elems, h]

theorem elems_length {σ : Store} {s : Slice} (h : WF σ s) : (elems σ s).length = s.len := by
  obtain ⟨hl, a, ha, hc⟩ := h
  rw [elems_of_arr ha]
  simp only [List.length_take, List.length_drop]
  omega

theorem read_eq {σ : Store} {s : Slice} (h : WF σ s) (i : Nat) : Model.Store.read σ s i = (elems σ s)[i]? := by
  obtain ⟨hl, a, ha, hc⟩ := h
  rw [elems_of_arr ha]
  unfold Model.Store.read
  split
  · rename_i hi
    simp only [ha, Option.bind_some, List.getElem?_take, hi, if_true, List.getElem?_drop]
  · rename_i hi
    rw [List.getElem?_eq_none]
    simp only [List.length_take, List.length_drop]
    omega

theorem elems_congr {σ σ' : Store} (s : Slice) (h : σ'[s.arr]? = σ[s.arr]?) : elems σ' s = elems σ s := by
  simp [elems, h]

theorem read_congr {σ σ' : Store} (s : Slice) (i : Nat) (h : σ'[s.arr]? = σ[s.arr]?) :
    Model.Store.read σ' s i = Model.Store.read σ s i := by
  simp [Model.Store.read, h]

theorem WF_congr {σ σ' : Store} {s : Slice} (h : σ'[s.arr]? = σ[s.arr]?) (hw : WF σ s) : WF σ' s := by
  obtain ⟨hl, a, ha, hc⟩ := hw
  exact ⟨hl, a, by rw [h]; exact ha, hc⟩

theorem WF_arr_lt {σ : Store} {s : Slice} (h : WF σ s) : s.arr < σ.length := by
  obtain ⟨_, a, ha, _⟩ := h
  rcases Nat.lt_or_ge s.arr σ.length with h | h
  · exact h
  · rw [List.getElem?_eq_none h] at ha; cases ha

/-- the next element of a `range` loop: what `slice[i]` reads, and how the list of elements splits -/
theorem read_drop {σ : Store} {s : Slice} (h : WF σ s) {i : Nat} (hi : i < s.len) :
    ∃ v, Model.Store.read σ s i = some v ∧ (elems σ s).drop i = v :: (elems σ s).drop (i + 1) := by
  have hlen := elems_length h
  refine ⟨(elems σ s)[i]'(by omega), ?_, ?_⟩
  · rw [read_eq h, List.getElem?_eq_getElem]
  · exact List.drop_eq_getElem_cons (by omega)

/-! ## writing one cell -/

theorem setCell_same (σ : Store) (a i : Nat) (v : Int) :
    (setCell σ a i v)[a]? = (σ[a]?).map (fun arr => arr.set i v) := by
  simp [setCell, List.getElem?_modify_eq]

theorem take_drop_set_in {a : List Int} {off len i : Nat} (v : Int) (hi : i < len) :
    ((a.set (off + i) v).drop off).take len = ((a.drop off).take len).set i v := by
  apply List.ext_getElem?
  intro k
  simp only [List.getElem?_take, List.getElem?_drop, List.getElem?_set, List.length_take, List.length_drop]
  grind

theorem take_drop_set_out {a : List Int} {off len j : Nat} (v : Int) (hj : j < off ∨ off + len ≤ j) :
    ((a.set j v).drop off).take len = (a.drop off).take len := by
  apply List.ext_getElem?
  intro k
  simp only [List.getElem?_take, List.getElem?_drop, List.getElem?_set]
  grind

/-- `s[i] = v` on a well-formed header succeeds, replaces element `i`, keeps every header well-formed,
and writes exactly cell `off + i` of `s`'s array -/
theorem write_spec {σ : Store} {s : Slice} (h : WF σ s) {i : Nat} (hi : i < s.len) (v : Int) :
    ∃ σ', write σ s i v = some σ' ∧ elems σ' s = (elems σ s).set i v ∧ σ'.length = σ.length ∧
      (∀ a, a ≠ s.arr → σ'[a]? = σ[a]?) ∧
      (∀ j, j ≠ s.off + i → cell σ' s.arr j = cell σ s.arr j) ∧
      (∀ t, WF σ t → WF σ' t) ∧
      (σ'[s.arr]?).map List.length = (σ[s.arr]?).map List.length := by
  obtain ⟨hl, a, ha, hc⟩ := h
  refine ⟨setCell σ s.arr (s.off + i) v, by simp [write, hi], ?_, setCell_length _ _ _ _,
    fun b hb => setCell_other _ _ _ _ _ (Ne.symm hb), ?_, ?_, by simp [setCell_same, ha]⟩
  · rw [elems_of_arr ha, elems_of_arr (a := a.set (s.off + i) v) (by rw [setCell_same, ha]; rfl)]
    exact take_drop_set_in v hi
  · intro j hj
    simp only [cell, setCell_same, ha, Option.map_some, Option.bind_some]
    exact List.getElem?_set_ne (Ne.symm hj)
  · intro t ⟨htl, b, hb, htc⟩
    by_cases hta : t.arr = s.arr
    · refine ⟨htl, b.set (s.off + i) v, ?_, by simpa using htc⟩
      rw [hta, setCell_same, ← hta, hb]; rfl
    · exact ⟨htl, b, by rw [setCell_other _ _ _ _ _ (Ne.symm hta)]; exact hb, htc⟩

/-! ## `make`, `append` -/

theorem WF_mono {σ : Store} {s : Slice} (ext : List (List Int)) (h : WF σ s) : WF (σ ++ ext) s := by
  obtain ⟨hl, a, ha, hc⟩ := h
  have hlt := WF_arr_lt ⟨hl, a, ha, hc⟩
  exact ⟨hl, a, by rw [List.getElem?_append_left hlt]; exact ha, hc⟩

theorem alloc_spec (σ : Store) (len cap : Nat) :
    WF (alloc σ len cap).1 (alloc σ len cap).2 ∧
    elems (alloc σ len cap).1 (alloc σ len cap).2 = List.replicate len 0 ∧
    (alloc σ len cap).2.arr = σ.length ∧ (alloc σ len cap).1.length = σ.length + 1 ∧
    Frame σ (alloc σ len cap).1 := by
  refine ⟨⟨by simp only [alloc]; omega, List.replicate (max len cap) 0, by simp [alloc], by simp [alloc]⟩,
    ?_, rfl, by simp [alloc], fun a ha => by simp only [alloc]; exact List.getElem?_append_left ha⟩
  simp only [elems, alloc, List.getElem?_append_right (Nat.le_refl _), Nat.sub_self, List.getElem?_cons_zero,
    Option.getD_some, List.drop_zero, List.take_replicate]
  congr 1; omega

theorem take_succ_set {a : List Int} {off len : Nat} (v : Int) (h : off + len < a.length) :
    ((a.set (off + len) v).drop off).take (len + 1) = (a.drop off).take len ++ [v] := by
  apply List.ext_getElem?
  intro k
  simp only [List.getElem?_take, List.getElem?_drop, List.getElem?_set, List.getElem?_append, List.length_take,
    List.length_drop]
  grind

/-- `append(s, v)` on a well-formed header -/
theorem append_spec {σ : Store} {s : Slice} (h : WF σ s) (v : Int) :
    WF (append σ s v).1 (append σ s v).2 ∧
    elems (append σ s v).1 (append σ s v).2 = elems σ s ++ [v] ∧
    (append σ s v).2.len = s.len + 1 ∧
    σ.length ≤ (append σ s v).1.length ∧
    (∀ a, a < σ.length → a ≠ s.arr → (append σ s v).1[a]? = σ[a]?) ∧
    (∀ j, j ≠ s.off + s.len → cell (append σ s v).1 s.arr j = cell σ s.arr j) ∧
    (∀ t, WF σ t → WF (append σ s v).1 t) ∧
    (((append σ s v).2.arr = s.arr ∧ (append σ s v).2.off = s.off ∧ (append σ s v).2.cap = s.cap ∧
        (append σ s v).1.length = σ.length ∧ s.len < s.cap) ∨
      (σ.length ≤ (append σ s v).2.arr ∧ ¬ s.len < s.cap ∧ (append σ s v).1[s.arr]? = σ[s.arr]?)) := by
  have hlen := elems_length h
  have harr := WF_arr_lt h
  obtain ⟨hl, a, ha, hc⟩ := h
  unfold append
  split
  · rename_i hlt
    have hset : (setCell σ s.arr (s.off + s.len) v)[s.arr]? = some (a.set (s.off + s.len) v) := by
      rw [setCell_same, ha]; rfl
    refine ⟨⟨show s.len + 1 ≤ s.cap by omega, _, hset, by simpa using hc⟩, ?_, rfl, by simp [setCell_length],
      fun b _ hb => setCell_other _ _ _ _ _ (Ne.symm hb), ?_, ?_, Or.inl ⟨rfl, rfl, rfl, setCell_length _ _ _ _, hlt⟩⟩
    · rw [elems_of_arr (s := { s with len := s.len + 1 }) hset, elems_of_arr ha]
      exact take_succ_set v (show s.off + s.len < a.length by omega)
    · intro j hj
      simp only [cell, hset, ha, Option.bind_some]
      exact List.getElem?_set_ne (Ne.symm hj)
    · intro t ⟨htl, b, hb, htc⟩
      by_cases hta : t.arr = s.arr
      · refine ⟨htl, b.set (s.off + s.len) v, ?_, by simpa using htc⟩
        rw [hta, setCell_same, ← hta, hb]; rfl
      · exact ⟨htl, b, by rw [setCell_other _ _ _ _ _ (Ne.symm hta)]; exact hb, htc⟩
  · rename_i hge
    refine ⟨⟨by simp only; omega, _, List.getElem?_concat_length, by simp [hlen]; omega⟩, ?_, rfl, by simp,
      fun b hb _ => List.getElem?_append_left hb, ?_, fun t ht => WF_mono _ ht,
      Or.inr ⟨Nat.le_refl _, hge, List.getElem?_append_left harr⟩⟩
    · generalize elems σ s = e at hlen ⊢
      simp only [elems, List.getElem?_concat_length, Option.getD_some, List.drop_zero]
      rw [List.take_append_of_le_length (by simp [hlen])]
      rw [List.take_of_length_le (by simp [hlen])]
    · intro j _
      simp only [cell, List.getElem?_append_left harr]

/-- the builder invariant: every array of the initial store `σ0` is unchanged in `σ`, and `res` is a
well-formed header into storage that did not exist in `σ0` -/
structure Inv (σ0 σ : Store) (res : Slice) : Prop where
  len : σ0.length ≤ σ.length
  frame : Frame σ0 σ
  fresh : σ0.length ≤ res.arr
  wf : WF σ res

theorem Inv.alloc (σ : Store) (len cap : Nat) : Inv σ (alloc σ len cap).1 (alloc σ len cap).2 := by
  obtain ⟨h1, _, h3, h4, h5⟩ := alloc_spec σ len cap
  exact ⟨by omega, h5, by omega, h1⟩

/-- an argument (a header into the initial store) reads the same under the invariant -/
theorem Inv.arg {σ0 σ : Store} {res : Slice} (h : Inv σ0 σ res) {s : Slice} (hs : WF σ0 s) :
    σ[s.arr]? = σ0[s.arr]? ∧ WF σ s ∧ elems σ s = elems σ0 s := by
  have := h.frame s.arr (WF_arr_lt hs)
  exact ⟨this, WF_congr this hs, elems_congr s this⟩

theorem Inv.append {σ0 σ : Store} {res : Slice} (h : Inv σ0 σ res) (v : Int) :
    Inv σ0 (append σ res v).1 (append σ res v).2 := by
  obtain ⟨h1, _, _, h4, h5, _, _, h8⟩ := append_spec h.wf v
  refine ⟨Nat.le_trans h.len h4, fun a ha => ?_, ?_, h1⟩
  · rw [h5 a (Nat.lt_of_lt_of_le ha h.len) (by have := h.fresh; omega), h.frame a ha]
  · rcases h8 with ⟨e, _⟩ | ⟨e, _⟩
    · rw [e]; exact h.fresh
    · exact Nat.le_trans h.len e

/-! ## postcondition shared by `append`, `appendEach`, `appendMany` -/

structure AppendPost (σ : Store) (s : Slice) (vs : List Int) (r : Store × Slice) : Prop where
  wf : WF r.1 r.2
  elems : elems r.1 r.2 = elems σ s ++ vs
  len : r.2.len = s.len + vs.length
  grow : σ.length ≤ r.1.length
  others : ∀ a, a < σ.length → a ≠ s.arr → r.1[a]? = σ[a]?
  keep : ∀ t, WF σ t → WF r.1 t
  target : r.2.arr = s.arr ∨ σ.length ≤ r.2.arr

theorem AppendPost.nil {σ : Store} {s : Slice} (h : WF σ s) : AppendPost σ s [] (σ, s) :=
  ⟨h, by simp, by simp, Nat.le_refl _, fun _ _ _ => rfl, fun _ ht => ht, Or.inl rfl⟩

theorem AppendPost.single {σ : Store} {s : Slice} (h : WF σ s) (v : Int) : AppendPost σ s [v] (append σ s v) := by
  obtain ⟨h1, h2, h3, h4, h5, _, h7, h8⟩ := append_spec h v
  refine ⟨h1, h2, h3, h4, h5, h7, ?_⟩
  rcases h8 with ⟨e, _⟩ | ⟨e, _⟩
  · exact Or.inl e
  · exact Or.inr e

theorem AppendPost.trans {σ : Store} {s : Slice} {vs ws : List Int} {r r' : Store × Slice}
    (h1 : AppendPost σ s vs r) (h2 : AppendPost r.1 r.2 ws r') (hs : WF σ s) : AppendPost σ s (vs ++ ws) r' := by
  have harr := WF_arr_lt hs
  refine ⟨h2.wf, by rw [h2.elems, h1.elems, List.append_assoc], by rw [h2.len, h1.len, List.length_append]; omega,
    Nat.le_trans h1.grow h2.grow, fun a ha hne => ?_, fun t ht => h2.keep t (h1.keep t ht), ?_⟩
  · rw [h2.others a (Nat.lt_of_lt_of_le ha h1.grow) (by rcases h1.target with e | e <;> omega), h1.others a ha hne]
  · rcases h2.target with e | e
    · rcases h1.target with e1 | e1
      · exact Or.inl (e.trans e1)
      · exact Or.inr (by omega)
    · exact Or.inr (Nat.le_trans h1.grow e)

theorem appendEach_post {σ : Store} {s : Slice} (h : WF σ s) (vs : List Int) :
    AppendPost σ s vs (appendEach σ s vs) := by
  induction vs generalizing σ s with
  | nil => exact AppendPost.nil h
  | cons v vs ih =>
    have h1 := AppendPost.single h v
    exact AppendPost.trans (vs := [v]) h1 (ih h1.wf) h

theorem Inv.post {σ0 σ : Store} {res : Slice} (h : Inv σ0 σ res) {vs : List Int} {r : Store × Slice}
    (hp : AppendPost σ res vs r) : Inv σ0 r.1 r.2 := by
  refine ⟨Nat.le_trans h.len hp.grow, fun a ha => ?_, ?_, hp.wf⟩
  · rw [hp.others a (Nat.lt_of_lt_of_le ha h.len) (by have := h.fresh; omega), h.frame a ha]
  · rcases hp.target with e | e
    · rw [e]; exact h.fresh
    · exact Nat.le_trans h.len e

theorem Inv.appendEach {σ0 σ : Store} {res : Slice} (h : Inv σ0 σ res) (vs : List Int) :
    Inv σ0 (appendEach σ res vs).1 (appendEach σ res vs).2 := h.post (appendEach_post h.wf vs)

/-- in-place case: the header keeps its array, the store keeps its shape, and exactly the cells
`[off+len, off+len+k)` of the array are written -/
theorem appendEach_inplace {σ : Store} {s : Slice} (vs : List Int) (hfit : s.len + vs.length ≤ s.cap) :
    (appendEach σ s vs).2 = { s with len := s.len + vs.length } ∧
    (appendEach σ s vs).1.length = σ.length ∧
    (∀ a, a ≠ s.arr → (appendEach σ s vs).1[a]? = σ[a]?) ∧
    (∀ j, (j < s.off + s.len ∨ s.off + s.len + vs.length ≤ j) → cell (appendEach σ s vs).1 s.arr j = cell σ s.arr j) ∧
    ((appendEach σ s vs).1[s.arr]?).map List.length = (σ[s.arr]?).map List.length := by
  induction vs generalizing σ s with
  | nil => exact ⟨rfl, rfl, fun _ _ => rfl, fun _ _ => rfl, rfl⟩
  | cons v vs ih =>
    have hlt : s.len < s.cap := by simp only [List.length_cons] at hfit; omega
    have happ : append σ s v = (setCell σ s.arr (s.off + s.len) v, { s with len := s.len + 1 }) := by
      simp [append, hlt]
    simp only [appendEach, happ]
    obtain ⟨h1, h2, h3, h4, h5⟩ := ih (σ := setCell σ s.arr (s.off + s.len) v) (s := { s with len := s.len + 1 })
      (by simp only [List.length_cons] at hfit; show s.len + 1 + vs.length ≤ s.cap; omega)
    refine ⟨?_, by rw [h2, setCell_length], fun a ha => ?_, fun j hj => ?_, ?_⟩
    rotate_left 3
    · rw [h5, setCell_same]; cases σ[s.arr]? <;> simp
    · rw [h1, List.length_cons]
      show ({ arr := s.arr, off := s.off, len := s.len + 1 + vs.length, cap := s.cap } : Slice) =
        { arr := s.arr, off := s.off, len := s.len + (vs.length + 1), cap := s.cap }
      congr 1; omega
    · rw [h3 a ha, setCell_other _ _ _ _ _ (Ne.symm ha)]
    · have := h4 j (by simp only [List.length_cons] at hj; show j < s.off + (s.len + 1) ∨ s.off + (s.len + 1) + vs.length ≤ j; omega)
      rw [this]
      simp only [cell, setCell_same]
      cases σ[s.arr]? with
      | none => rfl
      | some a =>
        simp only [Option.map_some, Option.bind_some]
        exact List.getElem?_set_ne (by simp only [List.length_cons] at hj; omega)

/-- `append(s, vs...)` on a well-formed header -/
theorem appendMany_post {σ : Store} {s : Slice} (h : WF σ s) (vs : List Int) :
    AppendPost σ s vs (appendMany σ s vs) := by
  unfold appendMany
  split
  · exact appendEach_post h vs
  · rename_i hfit
    have hlen := elems_length h
    have harr := WF_arr_lt h
    refine ⟨⟨by simp only; omega, _, List.getElem?_concat_length, by simp [hlen]; omega⟩, ?_, rfl, by simp,
      fun b hb _ => List.getElem?_append_left hb, fun t ht => WF_mono _ ht, Or.inr (Nat.le_refl _)⟩
    generalize elems σ s = e at hlen ⊢
    simp only [elems, List.getElem?_concat_length, Option.getD_some, List.drop_zero]
    rw [List.take_append_of_le_length (by simp [hlen])]
    rw [List.take_of_length_le (by simp [hlen])]

/-- when the values do not fit, `append(s, vs...)` writes NO existing array -/
theorem appendMany_nofit_frame {σ : Store} {s : Slice} (vs : List Int) (h : ¬ s.len + vs.length ≤ s.cap) :
    Frame σ (appendMany σ s vs).1 ∧ (appendMany σ s vs).2.arr = σ.length := by
  simp only [appendMany, h, if_false]
  exact ⟨fun a ha => List.getElem?_append_left ha, trivial⟩

theorem Inv.appendMany {σ0 σ : Store} {res : Slice} (h : Inv σ0 σ res) (vs : List Int) :
    Inv σ0 (appendMany σ res vs).1 (appendMany σ res vs).2 := h.post (appendMany_post h.wf vs)

/-! ## the builder discipline: a run of `append` instructions is `appendEach` -/

theorem run_appends (base : Nat) (vs : List Int) (m : Machine) (r : Nat) (s : Slice) (hr : m.regs[r]? = some s)
    (hb : base ≤ s.arr) (hσ : base ≤ m.σ.length) :
    run base m (vs.map (Instr.append r)) =
      { σ := (appendEach m.σ s vs).1, regs := m.regs.set r (appendEach m.σ s vs).2 } := by
  induction vs generalizing m s with
  | nil =>
    simp only [List.map_nil, run, appendEach]
    have hlt : r < m.regs.length := by
      rcases Nat.lt_or_ge r m.regs.length with h | h
      · exact h
      · rw [List.getElem?_eq_none h] at hr; cases hr
    have : m.regs.set r s = m.regs := by
      rw [List.getElem?_eq_getElem hlt] at hr
      cases hr; exact List.set_getElem_self hlt
    rw [this]
  | cons v vs ih =>
    have hlt : r < m.regs.length := by
      rcases Nat.lt_or_ge r m.regs.length with h | h
      · exact h
      · rw [List.getElem?_eq_none h] at hr; cases hr
    simp only [List.map_cons, run, step, hr, hb, if_true, appendEach]
    rw [ih _ (append m.σ s v).2 (by simp [hlt]) (append_arr_ge _ _ _ _ hb hσ)
      (Nat.le_trans hσ (append_length_ge _ _ _))]
    simp [List.set_set]

/-! ## the `range … append` loops are `appendEach` of the value-level answer -/

/-- under the invariant, `slice[i]` of an argument reads the initial store's element -/
theorem Inv.read {σ0 σ : Store} {res : Slice} (h : Inv σ0 σ res) {s : Slice} (hs : WF σ0 s) {i : Nat}
    (hi : i < s.len) :
    ∃ v, Model.Store.read σ s i = some v ∧ (elems σ0 s).drop i = v :: (elems σ0 s).drop (i + 1) := by
  obtain ⟨v, h1, h2⟩ := read_drop hs hi
  exact ⟨v, by rw [read_congr s i (h.arg hs).1]; exact h1, h2⟩

theorem drop_len_nil {σ : Store} {s : Slice} (h : WF σ s) {i : Nat} (hi : i = s.len) : (elems σ s).drop i = [] :=
  List.drop_of_length_le (by rw [elems_length h]; omega)

theorem filterLoop_eq (fn : Int → Bool) {σ0 : Store} {arg : Slice} (harg : WF σ0 arg) (n i : Nat) (σ : Store)
    (res : Slice) (hinv : Inv σ0 σ res) (hi : i + n = arg.len) :
    filterLoop fn arg n i σ res = some (appendEach σ res (((elems σ0 arg).drop i).filter fn)) := by
  induction n generalizing i σ res with
  | zero => simp [filterLoop, drop_len_nil harg (show i = arg.len by omega), appendEach]
  | succ n ih =>
    obtain ⟨v, hr, hd⟩ := hinv.read harg (show i < arg.len by omega)
    simp only [filterLoop, hr, hd, List.filter_cons]
    split
    · rw [ih (i + 1) _ _ (hinv.append v) (by omega)]; rfl
    · rw [ih (i + 1) _ _ hinv (by omega)]

theorem dropWhileLoop_eq (fn : Int → Bool) {σ0 : Store} {arg : Slice} (harg : WF σ0 arg) (n i : Nat) (σ : Store)
    (res : Slice) (hinv : Inv σ0 σ res) (hi : i + n = arg.len) :
    dropWhileLoop fn arg n i σ res =
      some (appendEach σ res (((elems σ0 arg).drop i).filter (fun x => !fn x))) := by
  induction n generalizing i σ res with
  | zero => simp [dropWhileLoop, drop_len_nil harg (show i = arg.len by omega), appendEach]
  | succ n ih =>
    obtain ⟨v, hr, hd⟩ := hinv.read harg (show i < arg.len by omega)
    simp only [dropWhileLoop, hr, hd, List.filter_cons]
    split
    · rw [ih (i + 1) _ _ (hinv.append v) (by omega)]; rfl
    · rw [ih (i + 1) _ _ hinv (by omega)]

theorem c11_uniqueLoop_acc (keys acc r l : List Int) :
    Model.C11.uniqueLoop keys (acc ++ r) l = acc ++ Model.C11.uniqueLoop keys r l := by
  induction l generalizing keys r with
  | nil => rfl
  | cons v rest ih =>
    simp only [Model.C11.uniqueLoop]
    split
    · exact ih _ _
    · rw [List.append_assoc]; exact ih _ _

theorem uniqueLoop_eq {σ0 : Store} {arg : Slice} (harg : WF σ0 arg) (n i : Nat) (keys : List Int) (σ : Store)
    (res : Slice) (hinv : Inv σ0 σ res) (hi : i + n = arg.len) :
    uniqueLoop arg n i keys σ res =
      some (appendEach σ res (Model.C11.uniqueLoop keys [] ((elems σ0 arg).drop i))) := by
  induction n generalizing i keys σ res with
  | zero => simp [uniqueLoop, drop_len_nil harg (show i = arg.len by omega), appendEach, Model.C11.uniqueLoop]
  | succ n ih =>
    obtain ⟨v, hr, hd⟩ := hinv.read harg (show i < arg.len by omega)
    simp only [uniqueLoop, hr, hd, Model.C11.uniqueLoop]
    split
    · rw [ih (i + 1) _ _ _ hinv (by omega)]
    · rw [ih (i + 1) _ _ _ (hinv.append v) (by omega)]
      have := c11_uniqueLoop_acc (v :: keys) [v] [] (List.drop (i + 1) (elems σ0 arg))
      rw [List.append_nil] at this
      rw [List.nil_append, this]; rfl

theorem skipLoop_eq {σ : Store} {values : Slice} (h : WF σ values) (v : Int) (n j : Nat) (hj : j + n = values.len) :
    skipLoop σ values v n j = some (Model.C11.skipEq v ((elems σ values).drop j)) := by
  induction n generalizing j with
  | zero => simp [skipLoop, drop_len_nil h (show j = values.len by omega), Model.C11.skipEq]
  | succ n ih =>
    obtain ⟨w, hr, hd⟩ := read_drop h (show j < values.len by omega)
    simp only [skipLoop, hr, hd, Model.C11.skipEq]
    split
    · rfl
    · exact ih (j + 1) (by omega)

theorem c11_diffLoop_acc (s2 keys acc r l : List Int) :
    Model.C11.diffLoop s2 keys (acc ++ r) l = acc ++ Model.C11.diffLoop s2 keys r l := by
  induction l generalizing keys r with
  | nil => rfl
  | cons v rest ih =>
    simp only [Model.C11.diffLoop]
    split
    · exact ih _ _
    · split
      · exact ih _ _
      · rw [List.append_assoc]; exact ih _ _

theorem withoutLoop_eq {σ0 : Store} {arg values : Slice} (harg : WF σ0 arg) (hval : WF σ0 values) (n i : Nat)
    (keys : List Int) (σ : Store) (res : Slice) (hinv : Inv σ0 σ res) (hi : i + n = arg.len) :
    withoutLoop arg values n i keys σ res =
      some (appendEach σ res (Model.C11.diffLoop (elems σ0 values) keys [] ((elems σ0 arg).drop i))) := by
  induction n generalizing i keys σ res with
  | zero => simp [withoutLoop, drop_len_nil harg (show i = arg.len by omega), appendEach, Model.C11.diffLoop]
  | succ n ih =>
    obtain ⟨v, hr, hd⟩ := hinv.read harg (show i < arg.len by omega)
    have hsk := skipLoop_eq (hinv.arg hval).2.1 v values.len 0 (by omega)
    rw [(hinv.arg hval).2.2, List.drop_zero] at hsk
    simp only [withoutLoop, hr, hd, hsk, Model.C11.diffLoop]
    cases hskip : Model.C11.skipEq v (elems σ0 values) with
    | true => simp only [if_true]; rw [ih (i + 1) _ _ _ hinv (by omega)]
    | false =>
      simp only [Bool.false_eq_true, if_false]
      split
      · rw [ih (i + 1) _ _ _ hinv (by omega)]
      · rw [ih (i + 1) _ _ _ (hinv.append v) (by omega)]
        have := c11_diffLoop_acc (elems σ0 values) (v :: keys) [v] [] (List.drop (i + 1) (elems σ0 arg))
        rw [List.append_nil] at this
        rw [List.nil_append, this]; rfl

/-! ## views -/

/-- `c` is a view of `s` inside `s`'s window `[off, off+len)` -/
def View (s c : Slice) : Prop := c.arr = s.arr ∧ s.off ≤ c.off ∧ c.off + c.len ≤ s.off + s.len

theorem reslice_spec {σ : Store} {s : Slice} (h : WF σ s) {lo hi : Nat} (h1 : lo ≤ hi) (h2 : hi ≤ s.len) :
    ∃ c, reslice s lo hi = some c ∧ WF σ c ∧ elems σ c = ((elems σ s).take hi).drop lo ∧ View s c ∧
      c.len = hi - lo ∧ c.off = s.off + lo ∧ c.cap = s.cap - lo := by
  obtain ⟨hl, a, ha, hc⟩ := h
  refine ⟨{ arr := s.arr, off := s.off + lo, len := hi - lo, cap := s.cap - lo }, by simp [reslice]; omega,
    ⟨by simp only; omega, a, ha, by simp only; omega⟩, ?_, ⟨rfl, by simp only; omega, by simp only; omega⟩, rfl, rfl, rfl⟩
  rw [elems_of_arr (s := { arr := s.arr, off := s.off + lo, len := hi - lo, cap := s.cap - lo }) ha, elems_of_arr ha]
  apply List.ext_getElem?
  intro k
  simp only [List.getElem?_take, List.getElem?_drop]
  grind

/-! ## Map -/

theorem Inv.write {σ0 σ : Store} {res : Slice} (h : Inv σ0 σ res) {i : Nat} (hi : i < res.len) (v : Int) :
    ∃ σ', Model.Store.write σ res i v = some σ' ∧ Inv σ0 σ' res ∧ elems σ' res = (elems σ res).set i v := by
  obtain ⟨σ', h1, h2, h3, h4, _, h6, _⟩ := write_spec h.wf hi v
  refine ⟨σ', h1, ⟨by rw [h3]; exact h.len, fun a ha => ?_, h.fresh, h6 _ h.wf⟩, h2⟩
  rw [h4 a (by have := h.fresh; omega), h.frame a ha]

theorem take_succ_set_self (l : List Int) (i : Nat) (x : Int) (hi : i < l.length) :
    (l.set i x).take (i + 1) = l.take i ++ [x] := by
  apply List.ext_getElem?
  intro k
  simp only [List.getElem?_take, List.getElem?_set, List.getElem?_append, List.length_take]
  grind

theorem mapLoop_spec (fn : Int → Int) {σ0 : Store} {arg : Slice} (harg : WF σ0 arg) (res : Slice)
    (hlen : res.len = arg.len) (n idx : Nat) (σ : Store) (hinv : Inv σ0 σ res) (hi : idx + n = arg.len) :
    ∃ σ', mapLoop fn arg res n idx σ = some σ' ∧ Inv σ0 σ' res ∧
      elems σ' res = (elems σ res).take idx ++ ((elems σ0 arg).drop idx).map fn := by
  induction n generalizing idx σ with
  | zero =>
    refine ⟨σ, rfl, hinv, ?_⟩
    rw [drop_len_nil harg (show idx = arg.len by omega), List.map_nil, List.append_nil,
      List.take_of_length_le (by rw [elems_length hinv.wf]; omega)]
  | succ n ih =>
    obtain ⟨v, hr, hd⟩ := hinv.read harg (show idx < arg.len by omega)
    obtain ⟨σ1, hw, hinv1, he1⟩ := hinv.write (show idx < res.len by omega) (fn v)
    obtain ⟨σ', h1, h2, h3⟩ := ih (idx + 1) σ1 hinv1 (by omega)
    refine ⟨σ', by simp only [mapLoop, hr, hw]; exact h1, h2, ?_⟩
    rw [h3, he1, hd, take_succ_set_self _ _ _ (by rw [elems_length hinv.wf]; omega)]
    simp

/-! ## Merge -/

theorem mergeLoop_spec {σ0 : Store} (params : List Slice) (hp : ∀ p ∈ params, WF σ0 p) (σ : Store) (merged : Slice)
    (hinv : Inv σ0 σ merged) :
    Inv σ0 (mergeLoop params σ merged).1 (mergeLoop params σ merged).2 ∧
    elems (mergeLoop params σ merged).1 (mergeLoop params σ merged).2 =
      elems σ merged ++ (params.map (elems σ0)).flatten := by
  induction params generalizing σ merged with
  | nil => exact ⟨hinv, by simp [mergeLoop]⟩
  | cons p rest ih =>
    simp only [mergeLoop]
    have hpost := appendMany_post hinv.wf (elems σ p)
    obtain ⟨h1, h2⟩ := ih (fun q hq => hp q (by simp [hq])) _ _ (hinv.post hpost)
    refine ⟨h1, ?_⟩
    rw [h2, hpost.elems, (hinv.arg (hp p (by simp))).2.2]
    simp

/-! ## in-place helpers -/

theorem InPlace.refl (σ : Store) (s : Slice) : InPlace σ σ s := ⟨rfl, fun _ _ => rfl, fun _ _ => rfl, rfl⟩

/-- an in-place change inside a sub-window, after an in-place change, is an in-place change -/
theorem InPlace.trans {σ σ1 σ2 : Store} {s s1 : Slice} (h1 : InPlace σ σ1 s) (h2 : InPlace σ1 σ2 s1)
    (ha : s1.arr = s.arr) (ho : s.off ≤ s1.off) (hl : s1.off + s1.len ≤ s.off + s.len) : InPlace σ σ2 s := by
  obtain ⟨a1, a2, a3, a4⟩ := h1
  obtain ⟨b1, b2, b3, b4⟩ := h2
  rw [ha] at b2 b3 b4
  exact ⟨b1.trans a1, fun a hne => (b2 a hne).trans (a2 a hne),
    fun j hj => (b3 j (by omega)).trans (a3 j hj), b4.trans a4⟩

theorem InPlace.keep {σ σ' : Store} {s : Slice} (h : InPlace σ σ' s) {t : Slice} (ht : WF σ t) : WF σ' t := by
  obtain ⟨_, h2, _, h4⟩ := h
  obtain ⟨htl, b, hb, htc⟩ := ht
  by_cases hta : t.arr = s.arr
  · rw [← hta, hb] at h4
    cases hb' : σ'[t.arr]? with
    | none => rw [hb'] at h4; cases h4
    | some b' =>
      rw [hb'] at h4
      simp only [Option.map_some, Option.some.injEq] at h4
      exact ⟨htl, b', hb', by omega⟩
  · exact ⟨htl, b, by rw [h2 _ hta]; exact hb, htc⟩

theorem write_inplace {σ : Store} {s : Slice} (h : WF σ s) {i : Nat} (hi : i < s.len) (v : Int) :
    ∃ σ', Model.Store.write σ s i v = some σ' ∧ elems σ' s = (elems σ s).set i v ∧ InPlace σ σ' s := by
  obtain ⟨σ', h1, h2, h3, h4, h5, _, h7⟩ := write_spec h hi v
  exact ⟨σ', h1, h2, h3, h4, fun j hj => h5 j (by omega), h7⟩

theorem swapStore_spec {σ : Store} {s : Slice} (h : WF σ s) {i j : Nat} (hi : i < s.len) (hj : j < s.len) :
    ∃ σ', swapStore σ s i j = some σ' ∧ Model.C12.swapAt (elems σ s) i j = .ok (elems σ' s) ∧ InPlace σ σ' s := by
  have hlen := elems_length h
  obtain ⟨σ1, w1, e1, p1⟩ := write_inplace h hi ((elems σ s)[j]'(by omega))
  obtain ⟨σ2, w2, e2, p2⟩ := write_inplace (InPlace.keep p1 h) hj ((elems σ s)[i]'(by omega))
  refine ⟨σ2, ?_, ?_, InPlace.trans p1 p2 rfl (Nat.le_refl _) (Nat.le_refl _)⟩
  · simp only [swapStore, read_eq h, List.getElem?_eq_getElem (show i < (elems σ s).length by omega),
      List.getElem?_eq_getElem (show j < (elems σ s).length by omega), w1, w2]
  · rw [Lemmas.C12.swapAt_ok _ _ _ (by omega) (by omega), e2, e1]

theorem reverseLoop_refines {σ : Store} {s : Slice} (i j1 : Nat) (h : WF σ s) (hj : j1 ≤ s.len) :
    ∃ σ', reverseLoop s i j1 σ = some σ' ∧ Model.C12.reverseLoop (elems σ s) i j1 = .ok (elems σ' s) ∧
      InPlace σ σ' s := by
  fun_induction reverseLoop s i j1 σ with
  | case1 i j1 σ hlt hsw =>
    obtain ⟨σ', h1, _⟩ := swapStore_spec h (show i < s.len by omega) (show j1 - 1 < s.len by omega)
    rw [h1] at hsw; cases hsw
  | case2 i j1 σ hlt σ1 hsw ih =>
    obtain ⟨σ1', h1, h2, h3⟩ := swapStore_spec h (show i < s.len by omega) (show j1 - 1 < s.len by omega)
    rw [h1] at hsw; cases hsw
    obtain ⟨σ', g1, g2, g3⟩ := ih (InPlace.keep h3 h) (by omega)
    refine ⟨σ', g1, ?_, InPlace.trans h3 g3 rfl (Nat.le_refl _) (Nat.le_refl _)⟩
    rw [Model.C12.reverseLoop, if_pos hlt, h2]
    exact g2
  | case3 i j1 σ hge =>
    refine ⟨σ, rfl, ?_, InPlace.refl σ s⟩
    rw [Model.C12.reverseLoop, if_neg hge]

theorem rejectLoop_refines (fn : Int → Bool) (n i : Nat) (σ : Store) (s : Slice) (h : WF σ s)
    (hn : i + n = s.len) :
    ∃ σ' res, rejectLoop fn n i σ s = some (σ', res) ∧
      elems σ' res = Model.C12.rejectLoop fn (elems σ s) i ∧
      res.arr = s.arr ∧ res.off = s.off ∧ res.cap = s.cap ∧ res.len ≤ s.len ∧ WF σ' res ∧ InPlace σ σ' s := by
  induction n generalizing i σ s with
  | zero =>
    refine ⟨σ, s, rfl, ?_, rfl, rfl, rfl, Nat.le_refl _, h, InPlace.refl σ s⟩
    rw [Model.C12.rejectLoop, dif_neg (by rw [elems_length h]; omega)]
  | succ n ih =>
    have hlen := elems_length h
    have hlt : i < s.len := by omega
    have hlt' : i < (elems σ s).length := by omega
    have hr : Model.Store.read σ s i = some ((elems σ s)[i]'hlt') := by
      rw [read_eq h, List.getElem?_eq_getElem]
    rw [Model.C12.rejectLoop, dif_pos hlt']
    simp only [rejectLoop, if_pos hlt, hr]
    by_cases hf : fn ((elems σ s)[i]'hlt') = true
    · rw [if_pos hf, if_pos hf]
      obtain ⟨hd, hd1, hd2, hd3, _, hd5, hd6, hd7⟩ := reslice_spec h (lo := 0) (hi := i) (Nat.zero_le _) (by omega)
      obtain ⟨tl, tl1, tl2, tl3, _, tl5, _, _⟩ := reslice_spec h (lo := i + 1) (hi := s.len) (by omega) (Nat.le_refl _)
      have harr : hd.arr = s.arr := by
        unfold reslice at hd1; split at hd1
        · cases hd1; rfl
        · cases hd1
      have hvl : (elems σ tl).length = s.len - (i + 1) := by rw [elems_length tl2, tl5]
      have hfit : hd.len + (elems σ tl).length ≤ hd.cap := by have := h.1; omega
      have ham : appendMany σ hd (elems σ tl) = appendEach σ hd (elems σ tl) := by
        simp only [appendMany, if_pos hfit]
      simp only [hd1, tl1, ham]
      have post := appendEach_post hd2 (elems σ tl)
      obtain ⟨q1, q2, q3, q4, q5⟩ := appendEach_inplace (σ := σ) (s := hd) (elems σ tl) hfit
      have r_arr : (appendEach σ hd (elems σ tl)).2.arr = s.arr := by rw [q1]; exact harr
      have r_off : (appendEach σ hd (elems σ tl)).2.off = s.off := by rw [q1]; show hd.off = s.off; omega
      have r_cap : (appendEach σ hd (elems σ tl)).2.cap = s.cap := by rw [q1]; show hd.cap = s.cap; omega
      have r_len : (appendEach σ hd (elems σ tl)).2.len = s.len - 1 := by rw [post.len]; omega
      obtain ⟨σ', res, g1, g2, g3, g4, g5, g6, g7, g8⟩ := ih i _ _ post.wf (by omega)
      have p1 : InPlace σ (appendEach σ hd (elems σ tl)).1 s := by
        refine ⟨q2, fun a ha => q3 a (by rw [harr]; exact ha), fun j hj => ?_, by rw [← harr]; exact q5⟩
        rw [← harr]; exact q4 j (by omega)
      refine ⟨σ', res, g1, ?_, g3.trans r_arr, g4.trans r_off, g5.trans r_cap, by omega, g7,
        InPlace.trans p1 g8 r_arr (by omega) (by omega)⟩
      rw [g2, post.elems, hd3, tl3, List.drop_zero, List.take_of_length_le (Nat.le_of_eq hlen)]
    · rw [if_neg hf, if_neg hf]
      obtain ⟨σ', res, g⟩ := ih (i + 1) σ s h (by omega)
      exact ⟨σ', res, g⟩

/-! ## UniqueBy, DropRightWhile, Partition -/

theorem c11_uniqueByLoop_acc (fn : Int → Int) (keys acc r l : List Int) :
    Model.C11.uniqueByLoop fn keys (acc ++ r) l = acc ++ Model.C11.uniqueByLoop fn keys r l := by
  induction l generalizing keys r with
  | nil => rfl
  | cons v rest ih =>
    simp only [Model.C11.uniqueByLoop]
    split
    · exact ih _ _
    · rw [List.append_assoc]; exact ih _ _

theorem uniqueByLoop_eq (fn : Int → Int) {σ0 : Store} {arg : Slice} (harg : WF σ0 arg) (n i : Nat)
    (keys : List Int) (σ : Store) (res : Slice) (hinv : Inv σ0 σ res) (hi : i + n = arg.len) :
    uniqueByLoop fn arg n i keys σ res =
      some (appendEach σ res (Model.C11.uniqueByLoop fn keys [] ((elems σ0 arg).drop i))) := by
  induction n generalizing i keys σ res with
  | zero =>
    simp [uniqueByLoop, drop_len_nil harg (show i = arg.len by omega), appendEach, Model.C11.uniqueByLoop]
  | succ n ih =>
    obtain ⟨v, hr, hd⟩ := hinv.read harg (show i < arg.len by omega)
    simp only [uniqueByLoop, hr, hd, Model.C11.uniqueByLoop]
    split
    · rw [ih (i + 1) _ _ _ hinv (by omega)]
    · rw [ih (i + 1) _ _ _ (hinv.append v) (by omega)]
      have := c11_uniqueByLoop_acc fn (fn v :: keys) [v] [] (List.drop (i + 1) (elems σ0 arg))
      rw [List.append_nil] at this
      rw [List.nil_append, this]; rfl

theorem dropRightWhileLoop_eq (fn : Int → Bool) {σ0 : Store} {arg : Slice} (harg : WF σ0 arg) (k : Nat) (σ : Store)
    (res : Slice) (hinv : Inv σ0 σ res) (hk : k ≤ arg.len) :
    dropRightWhileLoop fn arg k σ res =
      some (appendEach σ res (((elems σ0 arg).take k).reverse.filter (fun x => !fn x))) := by
  induction k generalizing σ res with
  | zero => simp [dropRightWhileLoop, appendEach]
  | succ i ih =>
    have hlen := elems_length harg
    have hi : i < (elems σ0 arg).length := by omega
    have hr : Model.Store.read σ arg i = some ((elems σ0 arg)[i]'hi) := by
      rw [read_congr arg i (hinv.arg harg).1, read_eq harg, List.getElem?_eq_getElem]
    have ht : (List.take (i + 1) (elems σ0 arg)).reverse = (elems σ0 arg)[i] :: (List.take i (elems σ0 arg)).reverse := by
      rw [List.take_add_one, List.getElem?_eq_getElem hi]; simp
    simp only [dropRightWhileLoop, hr, ht, List.filter_cons]
    split
    · rw [ih _ _ (hinv.append _) (by omega)]; rfl
    · rw [ih _ _ hinv (by omega)]

/-- two results built side by side: both fresh, on different arrays -/
structure Inv2 (σ0 σ : Store) (r0 r1 : Slice) : Prop where
  i0 : Inv σ0 σ r0
  i1 : Inv σ0 σ r1
  ne : r0.arr ≠ r1.arr

/-- appending to one of two results leaves the other as it is -/
theorem Inv2.append_left {σ0 σ : Store} {r0 r1 : Slice} (h : Inv2 σ0 σ r0 r1) (v : Int) :
    Inv2 σ0 (append σ r0 v).1 (append σ r0 v).2 r1 ∧ elems (append σ r0 v).1 r1 = elems σ r1 ∧
      elems (append σ r0 v).1 (append σ r0 v).2 = elems σ r0 ++ [v] := by
  have post := AppendPost.single h.i0.wf v
  have i0' := h.i0.post post
  have hlt := WF_arr_lt h.i1.wf
  refine ⟨⟨i0', ⟨i0'.len, i0'.frame, h.i1.fresh, post.keep _ h.i1.wf⟩, ?_⟩, ?_, post.elems⟩
  · rcases post.target with e | e
    · rw [e]; exact h.ne
    · omega
  · exact elems_congr r1 (post.others _ hlt (Ne.symm h.ne))

theorem Inv2.symm {σ0 σ : Store} {r0 r1 : Slice} (h : Inv2 σ0 σ r0 r1) : Inv2 σ0 σ r1 r0 :=
  ⟨h.i1, h.i0, Ne.symm h.ne⟩

theorem partitionLoop_spec (fn : Int → Bool) {σ0 : Store} {arg : Slice} (harg : WF σ0 arg) (n i : Nat) (σ : Store)
    (r0 r1 : Slice) (hinv : Inv2 σ0 σ r0 r1) (hi : i + n = arg.len) :
    ∃ σ' q0 q1, partitionLoop fn arg n i σ r0 r1 = some (σ', q0, q1) ∧ Inv2 σ0 σ' q0 q1 ∧
      elems σ' q0 = elems σ r0 ++ ((elems σ0 arg).drop i).filter fn ∧
      elems σ' q1 = elems σ r1 ++ ((elems σ0 arg).drop i).filter (fun x => !fn x) := by
  induction n generalizing i σ r0 r1 with
  | zero =>
    refine ⟨σ, r0, r1, rfl, hinv, ?_, ?_⟩ <;> simp [drop_len_nil harg (show i = arg.len by omega)]
  | succ n ih =>
    obtain ⟨v, hr, hd⟩ := hinv.i0.read harg (show i < arg.len by omega)
    simp only [partitionLoop, hr, hd, List.filter_cons]
    by_cases hf : fn v = true
    · obtain ⟨a1, a2, a3⟩ := hinv.append_left v
      obtain ⟨σ', q0, q1, g1, g2, g3, g4⟩ := ih (i + 1) _ _ _ a1 (by omega)
      refine ⟨σ', q0, q1, by rw [if_pos hf]; exact g1, g2, ?_, ?_⟩
      · rw [g3, a3, if_pos hf]; simp
      · rw [g4, a2]; simp [hf]
    · obtain ⟨a1, a2, a3⟩ := hinv.symm.append_left v
      obtain ⟨σ', q0, q1, g1, g2, g3, g4⟩ := ih (i + 1) _ _ _ a1.symm (by omega)
      refine ⟨σ', q0, q1, by rw [if_neg hf]; exact g1, g2, ?_, ?_⟩
      · rw [g3, a2, if_neg hf]
      · rw [g4, a3]; simp [hf]

/-! ## Shuffle -/

/-- an in-place change of the (fresh) result keeps the builder invariant -/
theorem Inv.inplace {σ0 σ σ' : Store} {res : Slice} (h : Inv σ0 σ res) (hp : InPlace σ σ' res) : Inv σ0 σ' res := by
  refine ⟨by rw [hp.1]; exact h.len, fun a ha => ?_, h.fresh, InPlace.keep hp h.wf⟩
  rw [hp.2.1 a (by have := h.fresh; omega), h.frame a ha]

theorem writeAll_spec {σ : Store} {s : Slice} (h : WF σ s) (vs : List Int) (i : Nat) (hi : i + vs.length ≤ s.len) :
    ∃ σ', writeAll σ s i vs = some σ' ∧
      elems σ' s = (elems σ s).take i ++ vs ++ (elems σ s).drop (i + vs.length) ∧ InPlace σ σ' s := by
  induction vs generalizing i σ with
  | nil => exact ⟨σ, rfl, by simp, InPlace.refl σ s⟩
  | cons v vs ih =>
    simp only [List.length_cons] at hi
    obtain ⟨σ1, w1, e1, p1⟩ := write_inplace h (show i < s.len by omega) v
    obtain ⟨σ', g1, g2, g3⟩ := ih (InPlace.keep p1 h) (i + 1) (by omega)
    refine ⟨σ', by simp only [writeAll, w1]; exact g1, ?_, InPlace.trans p1 g3 rfl (Nat.le_refl _) (Nat.le_refl _)⟩
    have hlen := elems_length h
    rw [g2, e1, take_succ_set_self _ _ _ (by omega)]
    have : ((elems σ s).set i v).drop (i + 1 + vs.length) = (elems σ s).drop (i + (vs.length + 1)) := by
      apply List.ext_getElem?
      intro k
      simp only [List.getElem?_drop, List.getElem?_set]
      grind
    rw [this, List.length_cons]
    simp

theorem shuffleLoop_refines (rnd : Nat → Nat) {s : Slice} (k c : Nat) (σ : Store) (h : WF σ s) (hk : k ≤ s.len) :
    ∃ σ', shuffleLoop rnd s k c σ = some σ' ∧
      Model.C12.shuffleLoop rnd k c (elems σ s) = .ok (elems σ' s) ∧ InPlace σ σ' s := by
  induction k generalizing c σ with
  | zero => exact ⟨σ, rfl, rfl, InPlace.refl σ s⟩
  | succ i ih =>
    have hj : rnd c % (i + 1) < s.len := by
      have := Nat.mod_lt (rnd c) (show i + 1 > 0 by omega); omega
    obtain ⟨σ1, h1, h2, h3⟩ := swapStore_spec h (show i < s.len by omega) hj
    obtain ⟨σ', g1, g2, g3⟩ := ih (c + 1) σ1 (InPlace.keep h3 h) (by omega)
    refine ⟨σ', by simp only [shuffleLoop, h1]; exact g1, ?_, InPlace.trans h3 g3 rfl (Nat.le_refl _) (Nat.le_refl _)⟩
    simp only [Model.C12.shuffleLoop, h2]
    exact g2

/-! ## Intersection -/

theorem containsLoop_eq {σ : Store} {s : Slice} (h : WF σ s) (value : Int) (n j : Nat) (hj : j + n = s.len) :
    containsLoop σ s value n j = some (Model.C11.contains value ((elems σ s).drop j)) := by
  induction n generalizing j with
  | zero => simp [containsLoop, drop_len_nil h (show j = s.len by omega), Model.C11.contains]
  | succ n ih =>
    obtain ⟨w, hr, hd⟩ := read_drop h (show j < s.len by omega)
    simp only [containsLoop, hr, hd, Model.C11.contains]
    split
    · rfl
    · exact ih (j + 1) (by omega)

theorem containsStore_eq {σ : Store} {s : Slice} (h : WF σ s) (value : Int) :
    containsStore σ s value = some (Model.C11.contains value (elems σ s)) := by
  unfold containsStore
  rw [containsLoop_eq h value s.len 0 (by omega), List.drop_zero]

theorem interScan_eq {σ : Store} (item : Int) (ps : List Slice) (hp : ∀ p ∈ ps, WF σ p) (j : Nat) :
    interScan σ item ps j = some (Model.C11.interScan item (ps.map (elems σ)) j) := by
  induction ps generalizing j with
  | nil => rfl
  | cons p ps ih =>
    simp only [interScan, containsStore_eq (hp p (by simp)), List.map_cons, Model.C11.interScan]
    split
    · rfl
    · exact ih (fun q hq => hp q (by simp [hq])) (j + 1)

theorem interLoop_eq (np : Nat) {σ0 : Store} {p0 : Slice} {others : List Slice} (h0 : WF σ0 p0)
    (ho : ∀ p ∈ others, WF σ0 p) (n i : Nat) (σ : Store) (res : Slice) (hinv : Inv σ0 σ res) (hi : i + n = p0.len) :
    ∃ ws, interLoop np p0 others n i σ res = some (appendEach σ res ws) ∧
      Model.C11.interLoop np (others.map (elems σ0)) (elems σ res) ((elems σ0 p0).drop i) = elems σ res ++ ws := by
  induction n generalizing i σ res with
  | zero =>
    refine ⟨[], rfl, ?_⟩
    rw [drop_len_nil h0 (show i = p0.len by omega)]; simp [Model.C11.interLoop]
  | succ n ih =>
    obtain ⟨item, hr, hd⟩ := hinv.read h0 (show i < p0.len by omega)
    have hsc : interScan σ item others 1 = some (Model.C11.interScan item (others.map (elems σ0)) 1) := by
      rw [interScan_eq item others (fun p hp => (hinv.arg (ho p hp)).2.1) 1]
      congr 2
      exact List.map_congr_left (fun p hp => (hinv.arg (ho p hp)).2.2)
    simp only [interLoop, hr, hd, containsStore_eq hinv.wf, hsc, Model.C11.interLoop]
    cases hc : Model.C11.contains item (elems σ res) with
    | true => simp only [if_true]; exact ih (i + 1) σ res hinv (by omega)
    | false =>
      simp only [Bool.false_eq_true, if_false]
      split
      · obtain ⟨ws, g1, g2⟩ := ih (i + 1) _ _ (hinv.append item) (by omega)
        have he := (append_spec hinv.wf item).2.1
        refine ⟨item :: ws, g1, ?_⟩
        rw [he] at g2
        rw [g2]; simp
      · exact ih (i + 1) σ res hinv (by omega)

end GoguVerif.Lemmas.C16Helpers
