import GoguVerif.Lemmas.C19.SListOps
import GoguVerif.Lemmas.C19.DListMid
/-!
# C19 helper lemmas, kept handles: the pointer-level methods addressed by the POSITION of a cell in the chain

The lemmas of `C19/SListOps.lean` / `C19/DListMid.lean` address a cell as "the first cell holding `x`" (a handle used
right after `Find`).  Here the handle is any address `a` with `as[i]? = some a` (the `i`-th cell of the chain, whatever
values the list holds — duplicates included), and the address list after the operation is given EXPLICITLY, so that a
second kept handle can be followed through the operation.
-/
namespace GoguVerif.Lemmas.C19H
open GoguVerif.Spec.C19

theorem eraseIdx_last {α : Type} (l : List α) (i : Nat) (hi : i + 1 = l.length) :
    l.eraseIdx i = l.dropLast := by
  apply List.ext_getElem?
  intro j
  rw [List.getElem?_eraseIdx, List.getElem?_dropLast]
  by_cases hj : j < i
  · simp [hj, show j < l.length - 1 by omega]
  · simp [hj, show ¬ j < l.length - 1 by omega]
    omega

theorem head?_take_insert {α : Type} (l : List α) (k : Nat) (n : α) (hl : l ≠ []) :
    (l.take (k + 1) ++ n :: l.drop (k + 1)).head? = l.head? := by
  cases l with
  | nil => exact absurd rfl hl
  | cons _ _ => simp

theorem nodup_take_insert {l : List Nat} (k n : Nat) (hnd : l.Nodup) (hn : n ∉ l) :
    (l.take k ++ n :: l.drop k).Nodup := by
  refine (List.perm_middle.nodup_iff).mpr ?_
  rw [List.take_append_drop]
  exact List.nodup_cons.mpr ⟨hn, hnd⟩

theorem insert_tracks {α : Type} {l : List α} {p k : Nat} {n : α} (hp : p ≤ l.length) :
    (l.take p ++ n :: l.drop p)[if p ≤ k then k + 1 else k]? = l[k]? := by
  by_cases hpk : p ≤ k
  · simp only [hpk, if_true]
    rw [List.getElem?_append_right (by simp; omega)]
    simp only [List.length_take, Nat.min_eq_left hp]
    have : k + 1 - p = (k - p) + 1 := by omega
    rw [this, List.getElem?_cons_succ, List.getElem?_drop]
    congr 1; omega
  · simp only [hpk, if_false]
    rw [List.getElem?_append_left (by simp; omega)]
    rw [List.getElem?_take_of_lt (by omega)]

/-- following a position through "the cell AFTER the deleted one disappears" (`SList`: `eraseIdx (i+1)`), resp. "the
last cell disappears" -/
theorem del_tracks_single {l : List Nat} {i k b j : Nat} (hk : l[k]? = some b) (hi : i < l.length)
    (hm : moveIdx false (.del i) k = some j) :
    (if i + 1 < l.length then l.eraseIdx (i + 1) else l.dropLast)[j]? = some b := by
  have hkl : k < l.length := by
    by_cases q : k < l.length
    · exact q
    · simp [List.getElem?_eq_none (Nat.le_of_not_lt q)] at hk
  simp only [moveIdx] at hm
  split at hm
  · cases hm
  · split at hm
    · simp only [Option.some.injEq] at hm; subst hm
      split
      · rw [List.getElem?_eraseIdx_of_lt (by omega)]; exact hk
      · rw [List.getElem?_dropLast, if_pos (by omega)]; exact hk
    · split at hm
      · cases hm
      · split at hm
        · cases hm
        · rename_i h1 h2 h3 h4
          simp only [Option.some.injEq] at hm; subst hm
          have h5 : k ≠ i + 1 := by simpa using h4
          rw [if_pos (by omega), List.getElem?_eraseIdx_of_ge (by omega)]
          rw [show k - 1 + 1 = k by omega]; exact hk

/-- following a position through "the deleted cell itself disappears" (`DList`, non-head) -/
theorem del_tracks_double {l : List Nat} {i k b j : Nat} (hk : l[k]? = some b) (hi : 1 ≤ i)
    (hm : moveIdx true (.del i) k = some j) : (l.eraseIdx i)[j]? = some b := by
  simp only [moveIdx] at hm
  split at hm
  · cases hm
  · split at hm
    · simp only [Option.some.injEq] at hm; subst hm
      rw [List.getElem?_eraseIdx_of_lt (by omega)]; exact hk
    · split at hm
      · cases hm
      · split at hm
        · rename_i h1 h2 h3 h4
          simp at h4
        · simp only [Option.some.injEq] at hm; subst hm
          rw [List.getElem?_eraseIdx_of_ge (by omega)]
          rw [show k - 1 + 1 = k by omega]; exact hk

/-- following a position `k ≥ 1` through a head deletion (the SECOND cell disappears, both list types) -/
theorem del_tracks_head {l : List Nat} {dbl : Bool} {k b j : Nat} (hk : l[k]? = some b)
    (hm : moveIdx dbl (.del 0) k = some j) : (l.eraseIdx 1)[j]? = some b := by
  simp only [moveIdx] at hm
  split at hm
  · cases hm
  · split at hm
    · rename_i h1 h2
      exact absurd h2 (Nat.not_lt_zero _)
    · split at hm
      · cases hm
      · split at hm
        · cases hm
        · rename_i h1 h2 h3 h4
          simp only [Option.some.injEq] at hm; subst hm
          have hk1 : k ≠ 1 := fun q => h3 ⟨trivial, q⟩
          have hk0 : k ≠ 0 := h1
          rw [List.getElem?_eraseIdx_of_ge (by omega)]
          rw [show k - 1 + 1 = k by omega]; exact hk

end GoguVerif.Lemmas.C19H

namespace GoguVerif.Lemmas.C19H.SList
open GoguVerif.Model GoguVerif.Model.SList GoguVerif.Lemmas.C19 GoguVerif.Lemmas.C19.SList
open GoguVerif.Spec.C19 GoguVerif.Lemmas.C19H

/-- the `i`-th cell of the chain holds the `i`-th value and points to the `(i+1)`-th cell -/
theorem chain_cell_at {h : Heap} {as xs} {i a : Nat} (hc : Chain h as xs) (hi : as[i]? = some a) :
    ∃ x, xs[i]? = some x ∧ h[a]? = some ⟨x, as[i + 1]?⟩ := by
  induction as generalizing xs i with
  | nil => simp at hi
  | cons b r ih =>
    cases xs with
    | nil => simp [Chain] at hc
    | cons y ys =>
      simp only [Chain] at hc
      cases i with
      | zero =>
        simp at hi; subst hi
        exact ⟨y, by simp, by simpa [List.head?_eq_getElem?] using hc.1⟩
      | succ k =>
        simp at hi
        obtain ⟨x, h1, h2⟩ := ih hc.2 hi
        exact ⟨x, by simpa using h1, by simpa using h2⟩

/-- the address `Find` returns is the cell at the first position of the value -/
theorem addrOf_eq_idx {x : Int} {as : List Nat} {xs : List Int} (hl : as.length = xs.length) :
    addrOf x as xs = (xs.idxOf? x).bind (fun p => as[p]?) := by
  induction as generalizing xs with
  | nil => cases xs <;> simp_all [addrOf]
  | cons a as ih =>
    cases xs with
    | nil => simp at hl
    | cons y ys =>
      simp only [addrOf, List.idxOf?_cons]
      by_cases e : y = x
      · simp [e]
      · have hb : (y == x) = false := by simpa using e
        simp only [e, if_false, hb, Bool.false_eq_true]
        rw [ih (by simpa using hl)]
        cases ys.idxOf? x <;> simp

/-- `Find(x)` succeeds for every value of the sequence (the guard of `Delete`/`InsertAfter`) -/
theorem find_mem {h : Heap} {as xs} (r : Repr h as xs) {x : Int} (hx : x ∈ xs) :
    ∃ b, find h x = .ok (h, some b) := by
  have hsome := addrOf_isSome (x := x) r.chain.length_eq
  have hf := find_repr r x
  cases e : addrOf x as xs with
  | none => simp [e, hx] at hsome
  | some b => exact ⟨b, by rw [hf, e]⟩

/-- `*a = *a.next` where `a` is the `i`-th cell: the chain loses its `i`-th value and its `(i+1)`-th CELL. -/
theorem chain_takeoverAt {h : Heap} {as xs} {i a s : Nat} {sn : Node}
    (hc : Chain h as xs) (hnd : as.Nodup) (hi : as[i]? = some a) (hs : as[i + 1]? = some s)
    (hsn : h[s]? = some sn) :
    Chain (h.set a sn) (as.eraseIdx (i + 1)) (xs.eraseIdx i) := by
  induction as generalizing xs i with
  | nil => simp at hi
  | cons b r ih =>
    cases xs with
    | nil => simp [Chain] at hc
    | cons y ys =>
      have hlt := hc.lt_length
      simp only [Chain] at hc
      have hbr := (List.nodup_cons.mp hnd).1
      cases i with
      | zero =>
        simp at hi; subst hi
        cases r with
        | nil => simp at hs
        | cons s' r' =>
          simp at hs; subst hs
          cases ys with
          | nil => simp [Chain] at hc
          | cons y' ys' =>
            have hc2 := hc.2
            simp only [Chain] at hc2
            rw [hc2.1] at hsn
            simp at hsn; subst hsn
            simp only [List.eraseIdx_cons_succ, List.eraseIdx_zero, List.tail_cons, Chain]
            refine ⟨List.getElem?_set_self (hlt b (by simp)), hc2.2.frame (fun c hc' => ?_)⟩
            have : b ≠ c := by
              intro e; subst e
              exact hbr (by simp [hc'])
            exact List.getElem?_set_ne this
      | succ k =>
        simp at hi hs
        have ham : a ∈ r := List.mem_of_getElem? hi
        have hba : b ≠ a := fun q => hbr (q ▸ ham)
        simp only [List.eraseIdx_cons_succ, Chain]
        refine ⟨?_, ih hc.2 (List.nodup_cons.mp hnd).2 hi hs⟩
        rw [List.getElem?_set_ne (fun q => hba q.symm)]
        have : (r.eraseIdx (k + 1)).head? = r.head? := by
          cases r with
          | nil => rfl
          | cons _ _ => simp
        rw [this]; exact hc.1

/-- `newNode.next = p.next; p.next = newNode` where `p` is the `i`-th cell -/
theorem chain_insertAfterAt {h : Heap} {as xs} {v : Int} {i p : Nat} {pn : Node}
    (hc : Chain h as xs) (hnd : as.Nodup) (hi : as[i]? = some p) (hp : h[p]? = some pn) :
    Chain ((h ++ [(⟨v, pn.next⟩ : Node)]).set p { pn with next := some h.length })
      (as.take (i + 1) ++ h.length :: as.drop (i + 1)) (xs.take (i + 1) ++ v :: xs.drop (i + 1)) := by
  induction as generalizing xs i with
  | nil => simp at hi
  | cons b r ih =>
    cases xs with
    | nil => simp [Chain] at hc
    | cons y ys =>
      have hlt := hc.lt_length
      simp only [Chain] at hc
      have hbr := (List.nodup_cons.mp hnd).1
      have hb : b < h.length := hlt b (by simp)
      cases i with
      | zero =>
        simp at hi; subst hi
        rw [hc.1] at hp
        simp at hp
        subst hp
        simp only [Nat.zero_add, List.take_succ_cons, List.take_zero, List.drop_succ_cons, List.drop_zero,
          List.cons_append, List.nil_append, Chain, List.head?_cons]
        refine ⟨?_, ?_, ?_⟩
        · rw [List.getElem?_set_self (by simp; omega)]
        · rw [List.getElem?_set_ne (by omega), List.getElem?_concat_length]
        · refine hc.2.frame (fun c hc' => ?_)
          have hcb : b ≠ c := by
            intro q; subst q; exact hbr hc'
          rw [List.getElem?_set_ne hcb, List.getElem?_append_left (hlt c (by simp [hc']))]
      | succ k =>
        simp at hi
        have ham : p ∈ r := List.mem_of_getElem? hi
        have hbp : b ≠ p := fun q => hbr (q ▸ ham)
        simp only [List.take_succ_cons, List.drop_succ_cons, List.cons_append, Chain]
        refine ⟨?_, ih hc.2 (List.nodup_cons.mp hnd).2 hi⟩
        rw [List.getElem?_set_ne (fun q => hbp q.symm), List.getElem?_append_left hb]
        have hne : r ≠ [] := by
          intro q; subst q; simp at hi
        rw [head?_take_insert r k h.length hne]; exact hc.1

/-- `Pop` with the address list made explicit -/
theorem pop_repr' {h : Heap} {as xs} (r : Repr h as xs) :
    ∃ h', pop h = .ok h' ∧
      Repr h' (if xs.length > 1 then as.dropLast else as) (if xs.length > 1 then xs.dropLast else xs) := by
  have hlen := r.chain.length_le r.nodup
  obtain ⟨as', x, xs', rfl, rfl, h0, hc, hnot, hnd⟩ := r.cons
  cases as' with
  | nil =>
    cases xs' with
    | cons _ _ => simp [Chain] at hc
    | nil => exact ⟨h, by simp [pop, load, h0], by simpa using r⟩
  | cons b bs =>
    cases xs' with
    | nil => simp [Chain] at hc
    | cons y ys =>
      obtain ⟨t, tn, hp, ht, htm, hch⟩ := popLoop_chain r.chain r.nodup (h.length + 1)
        (by simp at hlen; omega)
      have hl : (x :: y :: ys).length > 1 := by simp only [List.length_cons]; omega
      refine ⟨h.set t { tn with next := none }, ?_, ?_⟩
      · simp only [List.head?_cons] at h0
        simp only [pop, load, h0, ListRes.ok_bind, hp, ht, ListRes.pure_eq]
      · rw [if_pos hl, if_pos hl]
        exact ⟨by simp [List.dropLast], (List.dropLast_sublist _).nodup r.nodup, hch⟩

/-- the address list after `Delete` of the `i`-th cell: the successor's CELL disappears (its contents are copied over
the `i`-th cell), or — when the `i`-th cell is the last one — that cell itself -/
def delAddrs (i : Nat) (as : List Nat) : List Nat :=
  if as.length ≤ 1 then as else if i + 1 < as.length then as.eraseIdx (i + 1) else as.dropLast

theorem deleteAt_repr {h : Heap} {as xs} {i a : Nat} (r : Repr h as xs) (hi : as[i]? = some a) :
    ∃ h', delete h (some a) = .ok (h', if xs.length > 1 then .ok else .err) ∧
      Repr h' (delAddrs i as) (if xs.length > 1 then xs.eraseIdx i else xs) := by
  have hlen := r.chain.length_le r.nodup
  have hleq := r.chain.length_eq
  obtain ⟨x, hx, hp⟩ := chain_cell_at r.chain hi
  obtain ⟨b, hf⟩ := find_mem r (List.mem_of_getElem? hx)
  have ham : a ∈ as := List.mem_of_getElem? hi
  have hilt : i < as.length := lt_of_get hi
  have h0i : as[0]? = some 0 := by rw [← List.head?_eq_getElem?]; exact r.head
  by_cases ha0 : 0 = a
  · subst ha0
    have hi0 : i = 0 := ((List.getElem?_inj hilt r.nodup).mp (hi.trans h0i.symm))
    subst hi0
    cases e1 : as[0 + 1]? with
    | none =>
      rw [e1] at hp
      have hl1 : as.length ≤ 1 := by
        have := List.getElem?_eq_none_iff.mp e1; omega
      have hxl : ¬ xs.length > 1 := by omega
      simp only [if_neg hxl]
      refine ⟨h, ?_, ?_⟩
      · simp [delete, load, hp, hf]
      · simpa [delAddrs, hl1] using r
    | some s =>
      rw [e1] at hp
      obtain ⟨y, _, hsn⟩ := chain_cell_at r.chain e1
      have hl1 : 1 < as.length := lt_of_get e1
      have hxl : xs.length > 1 := by omega
      simp only [if_pos hxl]
      refine ⟨h.set 0 ⟨y, as[0 + 1 + 1]?⟩, ?_, ?_⟩
      · simp [delete, load, hp, hf, hsn]
      · have hch := chain_takeoverAt r.chain r.nodup hi e1 hsn
        have hda : delAddrs 0 as = as.eraseIdx (0 + 1) := by
          simp only [delAddrs]
          rw [if_neg (by omega), if_pos (by omega)]
        rw [hda]
        refine ⟨?_, (List.eraseIdx_sublist _ _).nodup r.nodup, hch⟩
        rw [List.head?_eq_getElem?, List.getElem?_eraseIdx_of_lt (by omega)]
        exact h0i
  · have hi0 : i ≠ 0 := by
      intro q; subst q
      rw [h0i] at hi
      exact ha0 (Option.some.inj hi)
    obtain ⟨as', y, xs', rfl, rfl, h0, hc, hnot, hnd⟩ := r.cons
    have ha' : a ∈ as' := by
      simp at ham
      rcases ham with q | q
      · exact absurd q.symm ha0
      · exact q
    obtain ⟨pv, hdl⟩ := deleteLoop_chain ⟨0, none⟩ r.chain r.nodup ha' (h.length + 1)
      (by simp at hlen; omega)
    have hxl : (y :: xs').length > 1 := by
      simp only [List.length_cons] at hleq hilt ⊢; omega
    have hal : ¬ (0 :: as').length ≤ 1 := by
      simp only [List.length_cons] at hilt ⊢; omega
    cases e1 : (0 :: as')[i + 1]? with
    | none =>
      rw [e1] at hp
      obtain ⟨h', hpop, hrep⟩ := pop_repr' r
      have hil : i + 1 = (0 :: as').length := by
        have := List.getElem?_eq_none_iff.mp e1; omega
      simp only [if_pos hxl] at hrep ⊢
      refine ⟨h', ?_, ?_⟩
      · simp [delete, load, hp, hf, ha0, hdl, hpop]
      · have hda : delAddrs i (0 :: as') = (0 :: as').dropLast := by
          simp only [delAddrs]
          rw [if_neg hal, if_neg (by omega)]
        rw [hda, eraseIdx_last _ i (by omega)]
        exact hrep
    | some s =>
      rw [e1] at hp
      obtain ⟨z, _, hsn⟩ := chain_cell_at r.chain e1
      have hl1 : i + 1 < (0 :: as').length := lt_of_get e1
      simp only [if_pos hxl]
      refine ⟨h.set a ⟨z, (0 :: as')[i + 1 + 1]?⟩, ?_, ?_⟩
      · simp [delete, load, hp, hf, ha0, hdl, hsn, ListRes.deref]
      · have hch := chain_takeoverAt r.chain r.nodup hi e1 hsn
        have hda : delAddrs i (0 :: as') = (0 :: as').eraseIdx (i + 1) := by
          simp only [delAddrs]
          rw [if_neg hal, if_pos hl1]
        rw [hda]
        refine ⟨?_, (List.eraseIdx_sublist _ _).nodup r.nodup, hch⟩
        rw [List.head?_eq_getElem?, List.getElem?_eraseIdx_of_lt (by omega)]
        exact h0i

theorem insertAfterAt_repr {h : Heap} {as xs} {i a : Nat} (r : Repr h as xs) (hi : as[i]? = some a) (v : Int) :
    ∃ h', insertAfter h (some a) v = .ok (h', .ok) ∧
      Repr h' (as.take (i + 1) ++ h.length :: as.drop (i + 1)) (xs.take (i + 1) ++ v :: xs.drop (i + 1)) := by
  obtain ⟨x, hx, hp⟩ := chain_cell_at r.chain hi
  obtain ⟨b, hf⟩ := find_mem r (List.mem_of_getElem? hx)
  have hch := chain_insertAfterAt r.chain (v := v) r.nodup hi hp
  have hlt := r.chain.lt_length
  have hne : as ≠ [] := by
    intro q; subst q; simp at hi
  refine ⟨_, ?_, ⟨?_, ?_, hch⟩⟩
  · simp [SList.insertAfter, load, hp, hf]
  · rw [head?_take_insert as i h.length hne]; exact r.head
  · exact nodup_take_insert (i + 1) h.length r.nodup (fun q => by have := hlt _ q; omega)

/-- `Unshift` with the address list made explicit: the old first element moves to the fresh cell `h.length` -/
theorem unshift_repr' {h : Heap} {as xs} (r : Repr h as xs) (v : Int) :
    ∃ h', unshift h v = .ok h' ∧ Repr h' (as.take 1 ++ h.length :: as.drop 1) (v :: xs) := by
  obtain ⟨as', x, xs', rfl, rfl, h0, hc, hnot, hnd⟩ := r.cons
  have hl0 : 0 < h.length := lt_of_get h0
  refine ⟨(h ++ [(⟨x, as'.head?⟩ : Node)]).set 0 ⟨v, some h.length⟩, by simp [unshift, load, h0],
    (?_ : Repr _ (0 :: h.length :: as') (v :: x :: xs'))⟩
  have hlt := hc.lt_length
  refine ⟨rfl, ?_, ?_⟩
  · refine List.nodup_cons.mpr ⟨?_, List.nodup_cons.mpr ⟨?_, hnd⟩⟩
    · simp only [List.mem_cons, not_or]
      exact ⟨by omega, hnot⟩
    · intro hm
      have := hlt _ hm
      omega
  · simp only [Chain]
    refine ⟨?_, ?_, ?_⟩
    · rw [List.getElem?_set_self (by simp)]
      rfl
    · rw [List.getElem?_set_ne (by omega), List.getElem?_concat_length]
    · refine hc.frame (fun b hb => ?_)
      have hb0 : b ≠ 0 := fun e => hnot (e ▸ hb)
      rw [List.getElem?_set_ne (fun e => hb0 e.symm), List.getElem?_append_left (hlt b hb)]

/-- `Append` with the address list made explicit -/
theorem append_repr' {h : Heap} {as xs} (r : Repr h as xs) (v : Int) :
    ∃ h', append h v = .ok h' ∧ Repr h' (as ++ [h.length]) (xs ++ [v]) := by
  have hlen := r.chain.length_le r.nodup
  have hlt := r.chain.lt_length
  obtain ⟨as', x, xs', rfl, rfl, h0, hc, hnot, hnd⟩ := r.cons
  have hla := lastAddr_chain r.chain (h.length + 1) (by simp at hlen; omega)
  obtain ⟨n, hn, hch⟩ := Chain.snoc v (by simp) r.nodup r.chain
  refine ⟨_, ?_, ⟨rfl, ?_, hch⟩⟩
  · simp only [append, load, h0, ListRes.ok_bind]
    split
    · simp only [set_self h0, hla, hn, ListRes.ok_bind, ListRes.pure_eq]
    · simp only [hla, hn, ListRes.ok_bind, ListRes.pure_eq]
  · rw [List.nodup_append]
    refine ⟨r.nodup, by simp, ?_⟩
    intro a ha b hb
    simp at hb
    have := hlt a ha
    omega

/-- `Shift` with the address list made explicit: the SECOND cell disappears (its contents move into the head) -/
theorem shift_repr' {h : Heap} {as xs} (r : Repr h as xs) :
    ∃ h', shift h = .ok h' ∧
      Repr h' (if xs.length > 1 then as.eraseIdx 1 else as) (if xs.length > 1 then xs.tail else xs) := by
  have hleq := r.chain.length_eq
  have h0i : as[0]? = some 0 := by rw [← List.head?_eq_getElem?]; exact r.head
  obtain ⟨x, hx, hp⟩ := chain_cell_at r.chain h0i
  cases e1 : as[0 + 1]? with
  | none =>
    rw [e1] at hp
    have hl1 : as.length ≤ 1 := by
      have := List.getElem?_eq_none_iff.mp e1; omega
    have hxl : ¬ xs.length > 1 := by omega
    simp only [if_neg hxl]
    exact ⟨h, by simp [shift, load, hp], r⟩
  | some s =>
    rw [e1] at hp
    obtain ⟨y, _, hsn⟩ := chain_cell_at r.chain e1
    have hl1 : 1 < as.length := lt_of_get e1
    have hxl : xs.length > 1 := by omega
    simp only [if_pos hxl]
    refine ⟨h.set 0 ⟨y, as[0 + 1 + 1]?⟩, by simp [shift, load, hp, hsn], ?_⟩
    have hch := chain_takeoverAt r.chain r.nodup h0i e1 hsn
    have : xs.eraseIdx 0 = xs.tail := by cases xs <;> rfl
    rw [this] at hch
    refine ⟨?_, (List.eraseIdx_sublist _ _).nodup r.nodup, hch⟩
    rw [List.head?_eq_getElem?, List.getElem?_eraseIdx_of_lt (by omega)]
    exact h0i

end GoguVerif.Lemmas.C19H.SList

namespace GoguVerif.Lemmas.C19H.DList
open GoguVerif.Model GoguVerif.Model.DList GoguVerif.Lemmas.C19 GoguVerif.Lemmas.C19.DList
open GoguVerif.Spec.C19 GoguVerif.Lemmas.C19H

/-- the address `Find` returns is the cell at the first position of the value -/
theorem addrOf_eq_idx {x : Int} {as : List Nat} {xs : List Int} (hl : as.length = xs.length) :
    addrOf x as xs = (xs.idxOf? x).bind (fun p => as[p]?) := by
  induction as generalizing xs with
  | nil => cases xs <;> simp_all [addrOf]
  | cons a as ih =>
    cases xs with
    | nil => simp at hl
    | cons y ys =>
      simp only [addrOf, List.idxOf?_cons]
      by_cases e : y = x
      · simp [e]
      · have hb : (y == x) = false := by simpa using e
        simp only [e, if_false, hb, Bool.false_eq_true]
        rw [ih (by simpa using hl)]
        cases ys.idxOf? x <;> simp

end GoguVerif.Lemmas.C19H.DList
