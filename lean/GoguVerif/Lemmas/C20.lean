import GoguVerif.Spec.C20
import GoguVerif.Model.C20
/-!
# C20 — helper lemmas: clocks, history lookups, the debounce invariant
-/
namespace GoguVerif.Lemmas.C20
open GoguVerif.Spec.C20 GoguVerif.Model.C20

/-! ## clocks -/

theorem clock_append (a b : List DEv) : clock (a ++ b) = clock a + clock b := by
  induction a with
  | nil => simp [clock]
  | cons e r ih => simp only [List.cons_append, clock, ih]; omega

theorem clock_nonneg (a : List DEv) : 0 ≤ clock a := by
  induction a with
  | nil => simp [clock]
  | cons e r ih => simp only [clock]; omega

theorem clock_take_le (a : List DEv) (k : Nat) : clock (a.take k) ≤ clock a := by
  have h := clock_append (a.take k) (a.drop k)
  rw [List.take_append_drop] at h
  have := clock_nonneg (a.drop k)
  omega

theorem clock_take_mono (a : List DEv) {k k' : Nat} (h : k ≤ k') :
    clock (a.take k) ≤ clock (a.take k') := by
  have : a.take k = (a.take k').take k := by
    rw [List.take_take]; congr 1; omega
  rw [this]; exact clock_take_le _ _

theorem clock_take_snoc (pre : List DEv) (e : DEv) {k : Nat} (h : k ≤ pre.length) :
    clock ((pre ++ [e]).take k) = clock (pre.take k) := by
  rw [List.take_append_of_le_length h]

theorem clock_snoc (pre : List DEv) (e : DEv) : clock (pre ++ [e]) = clock pre + e.dt := by
  rw [clock_append]; simp [clock]

/-! ## history lookups under `pre ++ [e]` -/

theorem get_snoc_old {α} (pre : List α) (e x : α) {k : Nat} (h : pre[k]? = some x) :
    (pre ++ [e])[k]? = some x := by
  have hk : k < pre.length := by
    rcases List.getElem?_eq_some_iff.mp h with ⟨hk, _⟩; exact hk
  rw [List.getElem?_append_left hk]; exact h

theorem get_snoc_cases {α} (pre : List α) (e x : α) {k : Nat} (h : (pre ++ [e])[k]? = some x) :
    (k < pre.length ∧ pre[k]? = some x) ∨ (k = pre.length ∧ x = e) := by
  by_cases hk : k < pre.length
  · left; rw [List.getElem?_append_left hk] at h; exact ⟨hk, h⟩
  · right
    have hk' : pre.length ≤ k := by omega
    rw [List.getElem?_append_right hk'] at h
    have : k - pre.length = 0 := by
      rcases List.getElem?_eq_some_iff.mp h with ⟨hl, _⟩
      simp at hl; omega
    rw [this] at h
    simp at h
    exact ⟨by omega, h.symm⟩

/-! ## the debounce invariant -/

/-- what is known about an execution `fr` of the callback in the history `hist` -/
structure FireInv (wait : Nat) (hist : List DEv) (fr : Fire) : Prop where
  idx_le : fr.idx ≤ fr.at
  at_lt : fr.at < hist.length
  isCall : hist[fr.idx]? = some DEv.call
  callTime : clock (hist.take fr.idx) = fr.tc
  exact : fr.f = fr.tc + wait
  fired_by : fr.f ≤ clock (hist.take (fr.at + 1))
  between : ∀ k e, fr.idx < k → k ≤ fr.at → hist[k]? = some e → e.isAdvance = true

/-- what is known about the pending timer -/
structure PendInv (wait : Nat) (hist : List DEv) (fired : List Fire) (p : Pending) : Prop where
  idx_lt : p.idx < hist.length
  isCall : hist[p.idx]? = some DEv.call
  callTime : clock (hist.take p.idx) = p.tc
  exact : p.deadline = p.tc + wait
  after : ∀ k e, p.idx < k → hist[k]? = some e → e.isAdvance = true
  newest : ∀ fr ∈ fired, fr.idx < p.idx

/-- invariant in the middle of a step: `hist` already contains the current event (number `s.n`),
the pre-action has been done, due timers have not been run yet -/
structure DPre (wait : Nat) (hist : List DEv) (s : DState) : Prop where
  n_eq : s.n + 1 = hist.length
  now_eq : s.now = clock hist
  pend : ∀ p, s.pending = some p → PendInv wait hist s.fired p
  fired : ∀ fr ∈ s.fired, FireInv wait hist fr
  sorted : s.fired.Pairwise (fun a b => a.idx < b.idx)

/-- invariant between steps -/
structure DInv (wait : Nat) (hist : List DEv) (s : DState) : Prop where
  n_eq : s.n = hist.length
  now_eq : s.now = clock hist
  pend : ∀ p, s.pending = some p → PendInv wait hist s.fired p ∧ s.now < p.deadline
  fired : ∀ fr ∈ s.fired, FireInv wait hist fr
  sorted : s.fired.Pairwise (fun a b => a.idx < b.idx)

theorem FireInv.snoc {wait hist fr} (e : DEv) (h : FireInv wait hist fr) :
    FireInv wait (hist ++ [e]) fr where
  idx_le := h.idx_le
  at_lt := by have := h.at_lt; simp; omega
  isCall := get_snoc_old _ _ _ h.isCall
  callTime := by
    rw [clock_take_snoc _ _ (by have := h.at_lt; have := h.idx_le; omega)]; exact h.callTime
  exact := h.exact
  fired_by := by rw [clock_take_snoc _ _ (by have := h.at_lt; omega)]; exact h.fired_by
  between := by
    intro k x hk hk' hx
    rcases get_snoc_cases _ _ _ hx with ⟨_, hx'⟩ | ⟨hkl, _⟩
    · exact h.between k x hk hk' hx'
    · have := h.at_lt; omega

theorem dinv_init (wait : Nat) : DInv wait [] {} where
  n_eq := rfl
  now_eq := rfl
  pend := by intro p h; cases h
  fired := by intro fr h; cases h
  sorted := List.Pairwise.nil

/-- pre-action of an event -/
def dpre (wait : Nat) (s : DState) (e : DEv) : DState :=
  match e with
  | .call => { s with pending := some { deadline := s.now + wait, idx := s.n, tc := s.now } }
  | .cancel => { s with pending := none }
  | .advance dt => { s with now := s.now + dt }

theorem dstep_eq (wait : Nat) (s : DState) (e : DEv) :
    dstep wait s e = { (dpre wait s e).settle with n := (dpre wait s e).settle.n + 1 } := by
  cases e <;> rfl

theorem dpre_inv {wait hist s} (e : DEv) (h : DInv wait hist s) :
    DPre wait (hist ++ [e]) (dpre wait s e) := by
  have hf : ∀ fr ∈ s.fired, FireInv wait (hist ++ [e]) fr := fun fr hfr => (h.fired fr hfr).snoc e
  cases e with
  | call =>
    refine ⟨by simp [dpre, h.n_eq], by simp [dpre, clock_snoc, h.now_eq, DEv.dt], ?_, hf, h.sorted⟩
    intro p hp
    simp only [dpre, Option.some.injEq] at hp
    subst hp
    refine ⟨by simp [h.n_eq], by simp [h.n_eq], ?_, rfl, ?_, ?_⟩
    · simp [h.n_eq, h.now_eq]
    · intro k x hk hx
      rcases get_snoc_cases _ _ _ hx with ⟨hkl, _⟩ | ⟨hkl, _⟩
      · simp only [h.n_eq] at hk; omega
      · simp only [h.n_eq] at hk; omega
    · intro fr hfr
      have := (h.fired fr hfr).at_lt
      have := (h.fired fr hfr).idx_le
      simp only [h.n_eq]; omega
  | cancel =>
    refine ⟨by simp [dpre, h.n_eq], by simp [dpre, clock_snoc, h.now_eq, DEv.dt], ?_, hf, h.sorted⟩
    intro p hp
    simp [dpre] at hp
  | advance dt =>
    refine ⟨by simp [dpre, h.n_eq], by simp [dpre, clock_snoc, h.now_eq, DEv.dt], ?_, hf, h.sorted⟩
    intro p hp
    have hp' : s.pending = some p := hp
    obtain ⟨hpi, _⟩ := h.pend p hp'
    refine ⟨by have := hpi.idx_lt; simp; omega, get_snoc_old _ _ _ hpi.isCall, ?_, hpi.exact, ?_, hpi.newest⟩
    · rw [clock_take_snoc _ _ (by have := hpi.idx_lt; omega)]; exact hpi.callTime
    · intro k x hk hx
      rcases get_snoc_cases _ _ _ hx with ⟨_, hx'⟩ | ⟨_, hxe⟩
      · exact hpi.after k x hk hx'
      · subst hxe; rfl

theorem settle_inv {wait hist s} (h : DPre wait hist s) :
    DInv wait hist { s.settle with n := s.settle.n + 1 } := by
  unfold DState.settle
  cases hp : s.pending with
  | none =>
    simp only
    exact ⟨h.n_eq, h.now_eq, (by intro p hp'; rw [hp] at hp'; cases hp'), h.fired, h.sorted⟩
  | some p =>
    have hpi := h.pend p hp
    simp only
    by_cases hd : p.deadline ≤ s.now
    · rw [if_pos hd]
      refine ⟨h.n_eq, h.now_eq, (by intro q hq; cases hq), ?_, ?_⟩
      · intro fr hfr
        simp only [List.mem_append, List.mem_singleton] at hfr
        rcases hfr with hfr | hfr
        · exact h.fired fr hfr
        · subst hfr
          have hn := h.n_eq
          refine ⟨by have := hpi.idx_lt; show p.idx ≤ s.n; omega, by show s.n < hist.length; omega,
            hpi.isCall, hpi.callTime, hpi.exact, ?_, ?_⟩
          · show p.deadline ≤ clock (hist.take (s.n + 1))
            rw [hn, List.take_length, ← h.now_eq]; exact hd
          · intro k x hk _ hx
            exact hpi.after k x hk hx
      · simp only [List.pairwise_append, List.pairwise_cons, List.Pairwise.nil, List.mem_singleton]
        refine ⟨h.sorted, ⟨(by intro a ha; cases ha), trivial⟩, ?_⟩
        intro a ha b hb
        subst hb
        exact hpi.newest a ha
    · rw [if_neg hd]
      refine ⟨h.n_eq, h.now_eq, ?_, h.fired, h.sorted⟩
      intro q hq
      have hq' : s.pending = some q := hq
      rw [hp] at hq'
      cases hq'
      exact ⟨hpi, by show s.now < p.deadline; omega⟩

theorem dstep_inv {wait hist s} (e : DEv) (h : DInv wait hist s) :
    DInv wait (hist ++ [e]) (dstep wait s e) := by
  rw [dstep_eq]; exact settle_inv (dpre_inv e h)

theorem dfold_inv {wait : Nat} (evs : List DEv) : ∀ (hist : List DEv) (s : DState),
    DInv wait hist s → DInv wait (hist ++ evs) (evs.foldl (dstep wait) s) := by
  induction evs with
  | nil => intro hist s h; simpa using h
  | cons e r ih =>
    intro hist s h
    have := ih (hist ++ [e]) (dstep wait s e) (dstep_inv e h)
    simpa [List.append_assoc] using this

theorem drun_inv (wait : Nat) (evs : List DEv) : DInv wait evs (drun wait evs) := by
  have := dfold_inv (wait := wait) evs [] {} (dinv_init wait)
  simpa [drun] using this

theorem pairwise_idx_inj {l : List Fire} (h : l.Pairwise (fun a b => a.idx < b.idx))
    {a b : Fire} (ha : a ∈ l) (hb : b ∈ l) (hab : a.idx = b.idx) : a = b := by
  induction l with
  | nil => cases ha
  | cons x r ih =>
    rw [List.pairwise_cons] at h
    rcases List.mem_cons.mp ha with rfl | ha' <;> rcases List.mem_cons.mp hb with rfl | hb'
    · rfl
    · have := h.1 b hb'; omega
    · have := h.1 a ha'; omega
    · exact ih h.2 ha' hb'

end GoguVerif.Lemmas.C20
