import GoguVerif.Lemmas.C03.Basic
import GoguVerif.Lemmas.C03.Sift
import GoguVerif.Lemmas.C03.Up
import GoguVerif.Lemmas.C03.Ops
import GoguVerif.Lemmas.C03.Build
import GoguVerif.Lemmas.C03.Sort
import GoguVerif.Lemmas.C03.Cons
/-! C03 helper lemmas (all parts). -/
