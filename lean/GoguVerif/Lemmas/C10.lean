import GoguVerif.Lemmas.C10List
/-!
# C10 helper lemmas, part 2: the tree

* `flat` — all external entries of a node, left to right (the abstraction function);
* `NodeInv` — the structural invariant of a node: fewer than `maxChildren` entries, internal nodes have
  at least 2 children, every child is itself fine and holds at least `maxChildren/2` entries, and from the second
  child on every separator key is the smallest key of its subtree.  "All leaves at the same depth"
  is the height index.  Sortedness is stated once, for the whole flat list (`SortedK (flat …)`);
* `insert_spec` — `insert` does not panic, keeps the invariant, and is `insFlat` on the flat list;
* `search_spec` — `search` is `searchLeaf` on the flat list;
* `flat_length_ge` — a non-root node of height `h` holds at least `2^(h+1)` entries.
-/
namespace GoguVerif.Lemmas.C10
open GoguVerif GoguVerif.Model.BTree
open GoguVerif.Gen (maxChildren)

/-- all external entries below a node, left to right -/
def flat : (h : Nat) → BNode h → List Entry
  | 0, (es : List Entry) => es
  | h + 1, (cs : List (Int × BNode h)) => cs.flatMap (fun p => flat h p.2)

/-- `n.m` -/
def size : (h : Nat) → BNode h → Nat
  | 0, (es : List Entry) => es.length
  | _ + 1, (cs : List (Int × BNode _)) => cs.length

/-- `maxChildren / 2`: what `split` leaves in each half -/
abbrev half : Nat := maxChildren / 2

def NodeInv : (h : Nat) → BNode h → Prop
  | 0, (es : List Entry) => es.length < maxChildren
  | h + 1, (cs : List (Int × BNode h)) =>
    cs.length < maxChildren ∧ 2 ≤ cs.length ∧
    (∀ p ∈ cs, NodeInv h p.2 ∧ half ≤ size h p.2) ∧
    (∀ p ∈ cs.tail, headKey (flat h p.2) = some p.1)

/-! ## The internal-node loop, for an arbitrary kind of child -/
section Kids
variable {β : Type} (fl : β → List Entry) (P : β → Prop) (ins : β → Res (β × Option β)) (fk : β → Int)
variable (k v : Int) (rm : Bool)

def flatK (cs : List (Int × β)) : List Entry := cs.flatMap (fun p => fl p.2)

/-- the separator of an entry is the first key below it -/
def SepOk (p : Int × β) : Prop := headKey (fl p.2) = some p.1

def oflat : Option β → List Entry
  | none => []
  | some u => fl u

/-- what the recursive call has to guarantee -/
def InsOk : Prop :=
  ∀ c, P c → SortedK (fl c) →
    ∃ c' ou, ins c = .ok (c', ou) ∧ fl c' ++ oflat fl ou = insFlat k v rm (fl c) ∧ P c' ∧
      ∀ u, ou = some u → P u ∧ headKey (fl u) = some (fk u) ∧
        (fl c').length + (fl u).length = (fl c).length + 1

theorem flatK_cons (p : Int × β) (cs : List (Int × β)) : flatK fl (p :: cs) = fl p.2 ++ flatK fl cs := by
  simp [flatK]

theorem plug_spec (hne : ∀ c, P c → fl c ≠ []) (hins : InsOk fl P ins fk k v rm)
    (k1 : Int) (c : β) (rest : List (Int × β)) (hc : P c) (hs : SortedK (fl c)) :
    ∃ cs' g, plug fk k1 rest (ins c) = .ok (cs', g) ∧
      flatK fl cs' = insFlat k v rm (fl c) ++ flatK fl rest ∧
      ((∀ p ∈ rest, P p.2) → ∀ p ∈ cs', P p.2) ∧
      ((∀ p ∈ rest, SepOk fl p) → ∀ p ∈ cs'.tail, SepOk fl p) ∧
      (SepOk fl (k1, c) → k1 ≤ k → ∀ p', cs'.head? = some p' → SepOk fl p') ∧
      cs'.length = rest.length + 1 + (if g then 1 else 0) ∧
      (g = true → (flatK fl cs').length = (fl c).length + (flatK fl rest).length + 1) := by
  obtain ⟨c', ou, hi, hf, hc', hu⟩ := hins c hc hs
  have hhead : SepOk fl (k1, c) → k1 ≤ k → SepOk fl (k1, c') := by
    intro hsep hle
    have h1 : headKey (insFlat k v rm (fl c)) = some k1 := headKey_insFlat k v rm (fl c) k1 hsep hle
    rw [← hf, headKey_append _ _ (hne c' hc')] at h1
    exact h1
  cases ou with
  | none =>
    refine ⟨(k1, c') :: rest, false, by rw [hi]; rfl, ?_, ?_, ?_, ?_, by simp, by simp⟩
    · rw [flatK_cons, ← hf]; simp [oflat]
    · intro hr p hp
      rcases List.mem_cons.mp hp with rfl | hp
      · exact hc'
      · exact hr p hp
    · intro hr p hp; exact hr p (by simpa using hp)
    · intro hsep hle p' hp'
      simp only [List.head?_cons, Option.some.injEq] at hp'
      subst hp'; exact hhead hsep hle
  | some u =>
    obtain ⟨hPu, hku, hlen⟩ := hu u rfl
    refine ⟨(k1, c') :: (fk u, u) :: rest, true, by rw [hi]; rfl, ?_, ?_, ?_, ?_, by simp, ?_⟩
    rotate_right
    · intro _
      rw [flatK_cons, flatK_cons]
      simp only [List.length_append]
      omega
    · rw [flatK_cons, flatK_cons, ← hf]; simp [oflat]
    · intro hr p hp
      rcases List.mem_cons.mp hp with rfl | hp
      · exact hc'
      · rcases List.mem_cons.mp hp with rfl | hp
        · exact hPu
        · exact hr p hp
    · intro hr p hp
      simp only [List.tail_cons] at hp
      rcases List.mem_cons.mp hp with rfl | hp
      · exact hku
      · exact hr p hp
    · intro hsep hle p' hp'
      simp only [List.head?_cons, Option.some.injEq] at hp'
      subst hp'; exact hhead hsep hle

/-- the first entry below a list of children whose first child has a valid separator -/
theorem head_flatK_of_sep (k2 : Int) (c2 : β) (rest : List (Int × β)) (h : SepOk fl (k2, c2)) :
    ∃ e F, flatK fl ((k2, c2) :: rest) = e :: F ∧ e.key = k2 := by
  rw [flatK_cons]
  unfold SepOk at h
  simp only at h
  cases hfc : fl c2 with
  | nil => rw [hfc] at h; simp [headKey] at h
  | cons e F =>
    rw [hfc] at h
    simp only [headKey, List.head?_cons, Option.map_some, Option.some.injEq] at h
    exact ⟨e, F ++ flatK fl rest, rfl, h⟩

theorem insKids_spec (hne : ∀ c, P c → fl c ≠ []) (hins : InsOk fl P ins fk k v rm) :
    ∀ cs : List (Int × β), cs ≠ [] → (∀ p ∈ cs, P p.2) → (∀ p ∈ cs.tail, SepOk fl p) →
      SortedK (flatK fl cs) →
      ∃ cs' g, insKids ins fk k cs = .ok (cs', g) ∧
        flatK fl cs' = insFlat k v rm (flatK fl cs) ∧
        (∀ p ∈ cs', P p.2) ∧
        (∀ p ∈ cs'.tail, SepOk fl p) ∧
        (∀ p, cs.head? = some p → SepOk fl p → p.1 ≤ k → ∀ p', cs'.head? = some p' → SepOk fl p') ∧
        cs'.length = cs.length + (if g then 1 else 0) ∧
        (g = true → (flatK fl cs').length = (flatK fl cs).length + 1) := by
  intro cs
  induction cs with
  | nil => intro h; exact absurd rfl h
  | cons p rest ih =>
    obtain ⟨k1, c⟩ := p
    intro _ hP hSep hSorted
    have hc : P c := hP (k1, c) (by simp)
    rw [flatK_cons] at hSorted
    have hsc : SortedK (fl c) := hSorted.append_left
    cases rest with
    | nil =>
      obtain ⟨cs', g, h1, h2, h3, h4, h5, h6, h7⟩ := plug_spec fl P ins fk k v rm hne hins k1 c [] hc hsc
      refine ⟨cs', g, by simpa [insKids] using h1, ?_, h3 (by simp), h4 (by simp), ?_, by simpa using h6, ?_⟩
      rotate_right
      · intro hg; rw [h7 hg, flatK_cons]; simp [flatK]
      · rw [h2, flatK_cons]; simp [flatK]
      · intro p hp hsep hle
        simp only [List.head?_cons, Option.some.injEq] at hp
        subst hp; exact h5 hsep hle
    | cons p2 rest' =>
      obtain ⟨k2, c2⟩ := p2
      have hsep2 : SepOk fl (k2, c2) := hSep (k2, c2) (by simp)
      obtain ⟨e, F, hF, hek⟩ := head_flatK_of_sep fl k2 c2 rest' hsep2
      by_cases hk : k < k2
      · obtain ⟨cs', g, h1, h2, h3, h4, h5, h6, h7⟩ :=
          plug_spec fl P ins fk k v rm hne hins k1 c ((k2, c2) :: rest') hc hsc
        refine ⟨cs', g, by simpa [insKids, hk] using h1, ?_, ?_, ?_, ?_, ?_, ?_⟩
        rotate_right
        · intro hg; rw [h7 hg, flatK_cons fl (k1, c)]; simp only [List.length_append]
        · rw [h2, flatK_cons fl (k1, c)]
          exact (insFlat_append_left k v rm _ _ (by
            intro b hb; rw [hF] at hb
            simp only [List.head?_cons, Option.some.injEq] at hb
            subst hb; omega)).symm
        · exact h3 (fun p hp => hP p (by simp [hp]))
        · exact h4 (fun p hp => hSep p (by simpa using hp))
        · intro p hp hsep hle
          simp only [List.head?_cons, Option.some.injEq] at hp
          subst hp; exact h5 hsep hle
        · simp only [List.length_cons] at h6 ⊢; omega
      · have hle2 : k2 ≤ k := by omega
        obtain ⟨rest'', g, h1, h2, h3, h4, h5, h6, h7⟩ :=
          ih (by simp) (fun p hp => hP p (by simp [hp]))
            (fun p hp => hSep p (by simp only [List.tail_cons] at hp ⊢; exact List.mem_of_mem_tail hp))
            hSorted.append_right
        have hunf : insKids ins fk k ((k1, c) :: (k2, c2) :: rest') = .ok ((k1, c) :: rest'', g) := by
          rw [insKids]
          simp only [hk, if_false]
          rw [h1]
        refine ⟨(k1, c) :: rest'', g, hunf, ?_, ?_, ?_, ?_, ?_, ?_⟩
        rotate_right
        · intro hg
          rw [flatK_cons, flatK_cons fl (k1, c)]
          simp only [List.length_append, h7 hg]; omega
        · rw [flatK_cons, h2, flatK_cons fl (k1, c)]
          refine (insFlat_append_right k v rm _ _ ?_).symm
          intro a ha
          have := hSorted.append_lt a ha e (by rw [hF]; simp)
          omega
        · intro p hp
          rcases List.mem_cons.mp hp with rfl | hp
          · exact hc
          · exact h3 p hp
        · intro p hp
          simp only [List.tail_cons] at hp
          cases rest'' with
          | nil => simp at hp
          | cons hd tl =>
            rcases List.mem_cons.mp hp with rfl | hp
            · exact h5 (k2, c2) rfl hsep2 hle2 _ rfl
            · exact h4 p (by simpa using hp)
        · intro p hp hsep _ p' hp'
          simp only [List.head?_cons, Option.some.injEq] at hp hp'
          subst hp; subst hp'; exact hsep
        · simp only [List.length_cons] at h6 ⊢; omega

end Kids

/-! ## `grow` / `split`

Everything below uses only two facts about the regenerated constant: it is even and its half is at
least 2 (`maxChildren_even`, `half_ge_two`, both by `decide` on `Gen.maxChildren`). -/

theorem maxChildren_even : maxChildren = 2 * half := by decide
theorem half_ge_two : 2 ≤ half := by decide

theorem grow_lt {α : Type} (es : List α) (h : es.length < maxChildren) : grow es = .ok (es, none) := by
  unfold grow
  have h1 : ¬ maxChildren < es.length := by omega
  simp [h1, h]

theorem grow_eq {α : Type} (es : List α) (h : es.length = maxChildren) :
    grow es = .ok (es.take half, some (es.drop half)) := by
  unfold grow
  have h1 : ¬ maxChildren < es.length := by omega
  have h2 : ¬ es.length < maxChildren := by omega
  have h3 : (es.drop (maxChildren / 2)).take (maxChildren / 2) = es.drop (maxChildren / 2) := by
    apply List.take_of_length_le
    have := maxChildren_even
    simp only [List.length_drop, half] at *
    omega
  simp only [h1, h2, if_false, h3, half]

theorem mem_tail_take {α : Type} {l : List α} {n : Nat} {p : α} (h : p ∈ (l.take n).tail) : p ∈ l.tail := by
  cases l with
  | nil => simp at h
  | cons a l' =>
    cases n with
    | zero => simp at h
    | succ n => simp only [List.take_succ_cons, List.tail_cons] at h ⊢; exact List.mem_of_mem_take h

theorem mem_tail_drop {α : Type} {l : List α} {n : Nat} {p : α} (h : p ∈ (l.drop n).tail) : p ∈ l.tail := by
  cases l with
  | nil => simp at h
  | cons a l' =>
    cases n with
    | zero => simpa using h
    | succ n =>
      simp only [List.drop_succ_cons, List.tail_cons] at h ⊢
      exact List.mem_of_mem_drop (List.mem_of_mem_tail h)

theorem drop_pos_cons_mem_tail {α : Type} {l : List α} {n : Nat} (hn : 0 < n) {p : α} {r : List α}
    (h : l.drop n = p :: r) : p ∈ l.tail := by
  cases l with
  | nil => simp at h
  | cons a l' =>
    cases n with
    | zero => exact absurd hn (by simp)
    | succ n =>
      simp only [List.drop_succ_cons, List.tail_cons] at h ⊢
      exact List.mem_of_mem_drop (by rw [h]; simp)

theorem headKey_eq_firstKey (l : List Entry) (hne : l ≠ []) : headKey l = some (firstKey 0 l) := by
  cases l with
  | nil => exact absurd rfl hne
  | cons e r => rfl

/-! ## Fill: a node with at least two entries whose descendants all have at least `half ≥ 2` -/

theorem flat_length_ge : ∀ (h : Nat) (c : BNode h), NodeInv h c → 2 ≤ size h c → 2 ^ (h + 1) ≤ (flat h c).length
  | 0, (es : List Entry), _, h2 => by simpa [flat, size] using h2
  | h + 1, (cs : List (Int × BNode h)), hinv, _ => by
    obtain ⟨_, hge, hch, _⟩ := hinv
    have h2 := half_ge_two
    match cs, hge, hch with
    | a :: b :: rest, _, hch =>
      have ha := flat_length_ge h a.2 (hch a (by simp)).1 (by have := (hch a (by simp)).2; omega)
      have hb := flat_length_ge h b.2 (hch b (by simp)).1 (by have := (hch b (by simp)).2; omega)
      simp only [flat, List.flatMap_cons, List.length_append]
      have : 2 ^ (h + 1 + 1) = 2 ^ (h + 1) + 2 ^ (h + 1) := by rw [Nat.pow_succ]; omega
      omega

theorem flat_ne_nil (h : Nat) (c : BNode h) (hi : NodeInv h c) (h2 : 2 ≤ size h c) : flat h c ≠ [] := by
  have := flat_length_ge h c hi h2
  have hp : 0 < 2 ^ (h + 1) := Nat.pow_pos (by omega)
  intro he; rw [he] at this; simp at this

/-! ## `insert` -/

theorem insert_spec (k v : Int) (rm : Bool) :
    ∀ (h : Nat) (node : BNode h), NodeInv h node → SortedK (flat h node) →
      ∃ node' ou, insert h node k v rm = .ok (node', ou) ∧
        flat h node' ++ oflat (flat h) ou = insFlat k v rm (flat h node) ∧
        NodeInv h node' ∧
        (ou = none → size h node ≤ size h node') ∧
        (∀ u, ou = some u → NodeInv h u ∧ size h node' = half ∧ size h u = half ∧
          headKey (flat h u) = some (firstKey h u) ∧
          (flat h node').length + (flat h u).length = (flat h node).length + 1)
  | 0, (es : List Entry), hinv, _ => by
    have hlen : es.length < maxChildren := hinv
    have hM := maxChildren_even
    have hH := half_ge_two
    have hfst := insLeaf_fst k v rm es
    have hl := insLeaf_snd_length k v rm es
    cases hg : (insLeaf k v rm es).2 with
    | false =>
      have hpair : insLeaf k v rm es = (insFlat k v rm es, false) := by rw [← hfst, ← hg]
      rw [hg] at hl
      refine ⟨(insFlat k v rm es : List Entry), none, by simp [Model.BTree.insert, hpair], by simp [flat, oflat], ?_, ?_, by simp⟩
      · show (insFlat k v rm es).length < maxChildren
        simp at hl; omega
      · intro _; show es.length ≤ (insFlat k v rm es).length
        simp at hl; omega
    | true =>
      have hpair : insLeaf k v rm es = (insFlat k v rm es, true) := by rw [← hfst, ← hg]
      rw [hg] at hl
      simp only [if_true] at hl
      have hins : insert 0 es k v rm = grow (insFlat k v rm es) := by simp [Model.BTree.insert, hpair]
      by_cases h4 : (insFlat k v rm es).length < maxChildren
      · refine ⟨(insFlat k v rm es : List Entry), none, by rw [hins]; exact grow_lt _ h4, by simp [flat, oflat], h4, ?_, by simp⟩
        intro _; show es.length ≤ (insFlat k v rm es).length
        omega
      · have hlenF : (insFlat k v rm es).length = maxChildren := by omega
        refine ⟨((insFlat k v rm es).take half : List Entry), some ((insFlat k v rm es).drop half : List Entry),
          by rw [hins]; exact grow_eq _ hlenF, ?_, ?_, by simp, ?_⟩
        · show List.take half (insFlat k v rm es) ++ List.drop half (insFlat k v rm es) = _
          exact List.take_append_drop _ _
        · show (List.take half (insFlat k v rm es)).length < maxChildren
          rw [List.length_take]; omega
        · intro u hu
          simp only [Option.some.injEq] at hu
          subst hu
          refine ⟨?_, ?_, ?_, ?_, ?_⟩
          · show (List.drop half (insFlat k v rm es)).length < maxChildren
            rw [List.length_drop]; omega
          · show (List.take half (insFlat k v rm es)).length = half
            rw [List.length_take]; omega
          · show (List.drop half (insFlat k v rm es)).length = half
            rw [List.length_drop]; omega
          · show headKey (List.drop half (insFlat k v rm es)) = some (firstKey 0 (List.drop half (insFlat k v rm es)))
            apply headKey_eq_firstKey
            intro he
            have := congrArg List.length he
            rw [List.length_drop] at this; simp at this; omega
          · show (List.take half (insFlat k v rm es)).length + (List.drop half (insFlat k v rm es)).length = es.length + 1
            rw [List.length_take, List.length_drop]; omega
  | h + 1, (cs : List (Int × BNode h)), hinv, hsorted => by
    obtain ⟨hlt, hge, hch, hsep⟩ := hinv
    have hM := maxChildren_even
    have hH := half_ge_two
    have hne : ∀ c : BNode h, (NodeInv h c ∧ half ≤ size h c) → flat h c ≠ [] :=
      fun c hc => flat_ne_nil h c hc.1 (by have := hc.2; omega)
    have hinsok : InsOk (flat h) (fun c => NodeInv h c ∧ half ≤ size h c) (fun c => insert h c k v rm) (firstKey h) k v rm := by
      intro c hc hs
      obtain ⟨c', ou, h1, h2, h3, h4, h5⟩ := insert_spec k v rm h c hc.1 hs
      refine ⟨c', ou, h1, h2, ⟨h3, ?_⟩, ?_⟩
      · cases ou with
        | none => have := h4 rfl; have := hc.2; omega
        | some u => have := (h5 u rfl).2.1; omega
      · intro u hu
        obtain ⟨a1, _, a3, a4, a5⟩ := h5 u hu
        exact ⟨⟨a1, by omega⟩, a4, a5⟩
    have hcsne : cs ≠ [] := by intro he; rw [he] at hge; simp at hge
    obtain ⟨cs', g, h1, h2, h3, h4, _, h6, h7⟩ :=
      insKids_spec (flat h) (fun c => NodeInv h c ∧ half ≤ size h c) (fun c => insert h c k v rm) (firstKey h) k v rm
        hne hinsok cs hcsne hch hsep hsorted
    have hflat : flat (h + 1) cs' = insFlat k v rm (flat (h + 1) cs) := h2
    cases g with
    | false =>
      simp only [Bool.false_eq_true, if_false, Nat.add_zero] at h6
      refine ⟨cs', none, by simp [Model.BTree.insert, h1], by simpa [oflat] using hflat, ⟨by rw [h6]; exact hlt, by omega, h3, h4⟩, ?_, by simp⟩
      intro _; show cs.length ≤ cs'.length; omega
    | true =>
      simp only [if_true] at h6
      have hins : insert (h + 1) cs k v rm = grow cs' := by simp [Model.BTree.insert, h1]
      by_cases h4' : cs'.length < maxChildren
      · refine ⟨cs', none, by rw [hins]; exact grow_lt _ h4', by simpa [oflat] using hflat, ⟨h4', by omega, h3, h4⟩, ?_, by simp⟩
        intro _; show cs.length ≤ cs'.length; omega
      · have hlenF : cs'.length = maxChildren := by omega
        have hltake : (List.take half cs').length = half := by rw [List.length_take]; omega
        have hldrop : (List.drop half cs').length = half := by rw [List.length_drop]; omega
        refine ⟨(cs'.take half : List (Int × BNode h)), some (cs'.drop half : List (Int × BNode h)),
          by rw [hins]; exact grow_eq _ hlenF, ?_, ?_, by simp, ?_⟩
        · rw [← hflat]
          show List.flatMap (fun p => flat h p.2) (List.take half cs') ++ List.flatMap (fun p => flat h p.2) (List.drop half cs')
            = List.flatMap (fun p => flat h p.2) cs'
          rw [← List.flatMap_append, List.take_append_drop]
        · exact ⟨by rw [hltake]; omega, by rw [hltake]; omega,
            fun p hp => h3 p (List.mem_of_mem_take hp), fun p hp => h4 p (mem_tail_take hp)⟩
        · intro u hu
          simp only [Option.some.injEq] at hu
          subst hu
          refine ⟨⟨by rw [hldrop]; omega, by rw [hldrop]; omega,
            fun p hp => h3 p (List.mem_of_mem_drop hp), fun p hp => h4 p (mem_tail_drop hp)⟩, hltake, hldrop, ?_, ?_⟩
          · cases hd : List.drop half cs' with
            | nil => rw [hd] at hldrop; simp at hldrop; omega
            | cons p rest =>
              have hp : SepOk (flat h) p := h4 p (drop_pos_cons_mem_tail (by omega) hd)
              show headKey (List.flatMap (fun q => flat h q.2) (p :: rest)) = some p.1
              rw [List.flatMap_cons, headKey_append _ _ (headKey_some_ne_nil hp)]
              exact hp
          · have := h7 rfl
            show (List.flatMap (fun p => flat h p.2) (List.take half cs')).length
                + (List.flatMap (fun p => flat h p.2) (List.drop half cs')).length
              = (List.flatMap (fun p => flat h p.2) cs).length + 1
            rw [← List.length_append, ← List.flatMap_append, List.take_append_drop]
            exact this

/-! ## `search` -/

theorem descend_spec {β : Type} (fl : β → List Entry) (P : β → Prop) (f : β → Option Int) (k : Int)
    (hf : ∀ c, P c → SortedK (fl c) → f c = searchLeaf k (fl c)) :
    ∀ cs : List (Int × β), (∀ p ∈ cs, P p.2) → (∀ p ∈ cs.tail, SepOk fl p) → SortedK (flatK fl cs) →
      descend f k cs = searchLeaf k (flatK fl cs) := by
  intro cs
  induction cs with
  | nil => intros; rfl
  | cons p rest ih =>
    obtain ⟨k1, c⟩ := p
    intro hP hSep hSorted
    have hc : P c := hP (k1, c) (by simp)
    rw [flatK_cons] at hSorted ⊢
    have hsc : SortedK (fl c) := hSorted.append_left
    cases rest with
    | nil => simp [descend, flatK, hf c hc hsc]
    | cons p2 rest' =>
      obtain ⟨k2, c2⟩ := p2
      have hsep2 : SepOk fl (k2, c2) := hSep (k2, c2) (by simp)
      obtain ⟨e, F, hF, hek⟩ := head_flatK_of_sep fl k2 c2 rest' hsep2
      by_cases hk : k < k2
      · have hd : descend f k ((k1, c) :: (k2, c2) :: rest') = f c := by simp [descend, hk]
        rw [hd, hf c hc hsc]
        refine (searchLeaf_append_left k _ _ ?_).symm
        intro b hb
        have hsr : SortedK (e :: F) := by rw [← hF]; exact hSorted.append_right
        rw [hF] at hb
        rcases List.mem_cons.mp hb with rfl | hb
        · omega
        · have := hsr.head_lt b hb; omega
      · have hd : descend f k ((k1, c) :: (k2, c2) :: rest') = descend f k ((k2, c2) :: rest') := by
          rw [descend]; simp only [hk, if_false]
        rw [hd, ih (fun p hp => hP p (by simp [hp]))
          (fun p hp => hSep p (by simp only [List.tail_cons] at hp ⊢; exact List.mem_of_mem_tail hp))
          hSorted.append_right]
        refine (searchLeaf_append_right k _ _ ?_).symm
        intro a ha
        have := hSorted.append_lt a ha e (by rw [hF]; simp)
        omega

/-- `search` is the lookup on the flat list. -/
theorem search_spec (k : Int) :
    ∀ (h : Nat) (node : BNode h), NodeInv h node → SortedK (flat h node) →
      search h node k = searchLeaf k (flat h node)
  | 0, (es : List Entry), _, _ => rfl
  | h + 1, (cs : List (Int × BNode h)), hinv, hsorted => by
    obtain ⟨_, _, hch, hsep⟩ := hinv
    exact descend_spec (flat h) (fun c => NodeInv h c ∧ half ≤ size h c) (fun c => search h c k) k
      (fun c hc hs => search_spec k h c hc.1 hs) cs hch hsep hsorted

/-! ## `traverse` -/

theorem live_flatMap {β : Type} (fl : β → List Entry) (cs : List (Int × β)) :
    live (cs.flatMap (fun p => fl p.2)) = cs.flatMap (fun p => live (fl p.2)) := by
  induction cs with
  | nil => rfl
  | cons p r ih => simp only [List.flatMap_cons, live_append, ih]

/-- `Traverse` reports the live entries of the flat list, in order. -/
theorem traverse_spec : ∀ (h : Nat) (node : BNode h), traverse h node = live (flat h node)
  | 0, (es : List Entry) => rfl
  | h + 1, (cs : List (Int × BNode h)) => by
    show cs.flatMap (fun p => traverse h p.2) = live (cs.flatMap (fun p => flat h p.2))
    rw [live_flatMap]
    congr 1
    funext p
    exact traverse_spec h p.2

end GoguVerif.Lemmas.C10
