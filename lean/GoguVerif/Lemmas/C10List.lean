import GoguVerif.Model.BTree
import GoguVerif.Spec.C10
/-!
# C10 helper lemmas, part 1: the sorted association list with tombstones

The abstract object the B-tree refines is the list of all external entries, left to right
(`flat`, defined in `Lemmas/C10.lean`): strictly increasing keys, tombstones included.  On that list
`Put`/`Remove` are `insFlat`, `Get` is `Model.BTree.searchLeaf`, `Traverse` is `live`.  This file relates
these list functions to each other and to the ordered map `Spec.OrdMap` of the specification.
-/
namespace GoguVerif.Lemmas.C10
open GoguVerif GoguVerif.Model.BTree GoguVerif.Spec

/-- strictly increasing keys -/
def SortedK (F : List Entry) : Prop := F.Pairwise (fun a b => a.key < b.key)

/-- keys stored (tombstones included) -/
def keys (F : List Entry) : List Int := F.map (·.key)

/-- key of the first entry -/
def headKey (F : List Entry) : Option Int := F.head?.map (·.key)

/-- live entries as (key, value) pairs: what `Traverse` reports -/
def live (F : List Entry) : List (Int × Int) := (F.filter (fun e => !e.removed)).map (fun e => (e.key, e.val))

/-- `insert` on the flat list: overwrite the entry with key `k` (value, tombstone flag) or add a live entry in key order. -/
def insFlat (k v : Int) (rm : Bool) : List Entry → List Entry
  | [] => [⟨k, v, false⟩]
  | e :: r =>
    if k = e.key then { e with val := v, removed := rm } :: r
    else if k < e.key then ⟨k, v, false⟩ :: e :: r
    else e :: insFlat k v rm r

/-! ### `insLeaf` is `insFlat` plus a "grew" flag -/

theorem insLeaf_fst (k v : Int) (rm : Bool) (F : List Entry) : (insLeaf k v rm F).1 = insFlat k v rm F := by
  induction F with
  | nil => rfl
  | cons e r ih =>
    simp only [insLeaf, insFlat]
    split
    · rfl
    · split
      · rfl
      · rw [← ih]

theorem insLeaf_snd_length (k v : Int) (rm : Bool) (F : List Entry) :
    (insFlat k v rm F).length = F.length + (if (insLeaf k v rm F).2 then 1 else 0) := by
  induction F with
  | nil => simp [insLeaf, insFlat]
  | cons e r ih =>
    simp only [insLeaf, insFlat]
    split
    · simp
    · split
      · simp
      · simp only [List.length_cons, ih]; omega

/-! ### `insFlat` and append -/

theorem insFlat_append_left (k v : Int) (rm : Bool) (A B : List Entry)
    (hB : ∀ b, B.head? = some b → k < b.key) :
    insFlat k v rm (A ++ B) = insFlat k v rm A ++ B := by
  induction A with
  | nil =>
    cases B with
    | nil => rfl
    | cons b B' =>
      have hb := hB b rfl
      have hne : ¬ k = b.key := by omega
      simp [insFlat, hne, hb]
  | cons a A ih =>
    simp only [List.cons_append, insFlat]
    split
    · rfl
    · split
      · rfl
      · rw [ih]; rfl

theorem insFlat_append_right (k v : Int) (rm : Bool) (A B : List Entry)
    (hA : ∀ a ∈ A, a.key < k) :
    insFlat k v rm (A ++ B) = A ++ insFlat k v rm B := by
  induction A with
  | nil => rfl
  | cons a A ih =>
    have ha := hA a (by simp)
    have h1 : ¬ k = a.key := by omega
    have h2 : ¬ k < a.key := by omega
    simp only [List.cons_append, insFlat, h1, h2, if_false]
    rw [ih (fun x hx => hA x (by simp [hx]))]

theorem insFlat_ne_nil (k v : Int) (rm : Bool) (F : List Entry) : insFlat k v rm F ≠ [] := by
  cases F with
  | nil => simp [insFlat]
  | cons e r =>
    simp only [insFlat]
    split
    · simp
    · split <;> simp

/-- Inserting a key not below the first key leaves the first key alone. -/
theorem headKey_insFlat (k v : Int) (rm : Bool) (F : List Entry) (k1 : Int)
    (h : headKey F = some k1) (hle : k1 ≤ k) : headKey (insFlat k v rm F) = some k1 := by
  cases F with
  | nil => simp [headKey] at h
  | cons e r =>
    simp only [headKey, List.head?_cons, Option.map_some, Option.some.injEq] at h
    simp only [insFlat]
    split
    · simpa [headKey] using h
    · split
      · omega
      · simpa [headKey] using h

theorem headKey_append (A B : List Entry) (hA : A ≠ []) : headKey (A ++ B) = headKey A := by
  cases A with
  | nil => exact absurd rfl hA
  | cons a A => rfl

theorem headKey_some_ne_nil {F : List Entry} {k : Int} (h : headKey F = some k) : F ≠ [] := by
  cases F with
  | nil => simp [headKey] at h
  | cons => simp

/-! ### sortedness -/

theorem SortedK.head_lt {e : Entry} {r : List Entry} (h : SortedK (e :: r)) : ∀ x ∈ r, e.key < x.key :=
  (List.pairwise_cons.mp h).1

theorem SortedK.tail {e : Entry} {r : List Entry} (h : SortedK (e :: r)) : SortedK r :=
  (List.pairwise_cons.mp h).2

theorem SortedK.append_left {A B : List Entry} (h : SortedK (A ++ B)) : SortedK A :=
  (List.pairwise_append.mp h).1

theorem SortedK.append_right {A B : List Entry} (h : SortedK (A ++ B)) : SortedK B :=
  (List.pairwise_append.mp h).2.1

theorem SortedK.append_lt {A B : List Entry} (h : SortedK (A ++ B)) : ∀ a ∈ A, ∀ b ∈ B, a.key < b.key :=
  (List.pairwise_append.mp h).2.2

/-- every key of a sorted list is at least the first key -/
theorem SortedK.headKey_le {F : List Entry} {k1 : Int} (hs : SortedK F) (h : headKey F = some k1) :
    ∀ x ∈ F, k1 ≤ x.key := by
  cases F with
  | nil => simp [headKey] at h
  | cons e r =>
    simp only [headKey, List.head?_cons, Option.map_some, Option.some.injEq] at h
    intro x hx
    rcases List.mem_cons.mp hx with rfl | hx
    · omega
    · have := hs.head_lt x hx; omega

theorem mem_insFlat {k v : Int} {rm : Bool} {F : List Entry} {x : Entry} (hx : x ∈ insFlat k v rm F) :
    x.key = k ∨ x ∈ F := by
  induction F with
  | nil => simp [insFlat] at hx; left; rw [hx]
  | cons e r ih =>
    simp only [insFlat] at hx
    split at hx
    · rename_i hk
      rcases List.mem_cons.mp hx with rfl | hx
      · left; exact hk.symm
      · right; simp [hx]
    · split at hx
      · rcases List.mem_cons.mp hx with rfl | hx
        · left; rfl
        · right; exact hx
      · rcases List.mem_cons.mp hx with rfl | hx
        · right; simp
        · rcases ih hx with h | h
          · left; exact h
          · right; simp [h]

theorem SortedK.insFlat {F : List Entry} (hs : SortedK F) (k v : Int) (rm : Bool) : SortedK (insFlat k v rm F) := by
  induction F with
  | nil => simp [Lemmas.C10.insFlat, SortedK]
  | cons e r ih =>
    simp only [Lemmas.C10.insFlat]
    split
    · exact List.pairwise_cons.mpr ⟨fun x hx => hs.head_lt x hx, hs.tail⟩
    · split
      · rename_i h1 h2
        refine List.pairwise_cons.mpr ⟨?_, hs⟩
        intro x hx
        rcases List.mem_cons.mp hx with rfl | hx
        · exact h2
        · have := hs.head_lt x hx
          show k < x.key
          omega
      · rename_i h1 h2
        refine List.pairwise_cons.mpr ⟨?_, ih hs.tail⟩
        intro x hx
        rcases mem_insFlat hx with h | h
        · omega
        · exact hs.head_lt x h

/-! ### `Get` on the flat list -/

theorem searchLeaf_append_right (k : Int) (A B : List Entry) (hA : ∀ a ∈ A, a.key < k) :
    searchLeaf k (A ++ B) = searchLeaf k B := by
  induction A with
  | nil => rfl
  | cons a A ih =>
    have ha := hA a (by simp)
    have h1 : ¬ k = a.key := by omega
    simp only [List.cons_append, searchLeaf, h1, if_false]
    exact ih (fun x hx => hA x (by simp [hx]))

theorem searchLeaf_append_left (k : Int) (A B : List Entry) (hB : ∀ b ∈ B, k < b.key) :
    searchLeaf k (A ++ B) = searchLeaf k A := by
  induction A with
  | nil =>
    induction B with
    | nil => rfl
    | cons b B ih =>
      have hb := hB b (by simp)
      have h1 : ¬ k = b.key := by omega
      simp only [List.nil_append, searchLeaf, h1, if_false]
      simpa [searchLeaf] using ih (fun x hx => hB x (by simp [hx]))
  | cons a A ih =>
    simp only [List.cons_append, searchLeaf]
    split
    · rfl
    · exact ih

/-- `Get k` after `insert k'`, `k ≠ k'` (no sortedness needed). -/
theorem searchLeaf_insFlat_ne (k k' v : Int) (rm : Bool) (F : List Entry) (hne : k ≠ k') :
    searchLeaf k (insFlat k' v rm F) = searchLeaf k F := by
  induction F with
  | nil => simp [insFlat, searchLeaf, hne]
  | cons e r ih =>
    simp only [insFlat]
    split
    · rename_i hk
      have : ¬ k = e.key := by omega
      simp [searchLeaf, this]
    · split
      · simp [searchLeaf, hne]
      · simp only [searchLeaf]
        split
        · rfl
        · exact ih

/-- `Get k` after `Put k v` (no sortedness needed). -/
theorem searchLeaf_insFlat_put (k v : Int) (F : List Entry) :
    searchLeaf k (insFlat k v false F) = some v := by
  induction F with
  | nil => simp [insFlat, searchLeaf]
  | cons e r ih =>
    simp only [insFlat]
    split
    · rename_i hk; simp [searchLeaf, hk]
    · split
      · simp [searchLeaf]
      · rename_i h1 h2; simp [searchLeaf, h1, ih]

theorem searchLeaf_none_of_lt (k : Int) (F : List Entry) (h : ∀ x ∈ F, k < x.key) : searchLeaf k F = none := by
  induction F with
  | nil => rfl
  | cons e r ih =>
    have he := h e (by simp)
    have h1 : ¬ k = e.key := by omega
    simp only [searchLeaf, h1, if_false]
    exact ih (fun x hx => h x (by simp [hx]))

theorem mem_keys_of_searchLeaf {k v : Int} {F : List Entry} (h : searchLeaf k F = some v) : k ∈ keys F := by
  induction F with
  | nil => simp [searchLeaf] at h
  | cons e r ih =>
    simp only [searchLeaf] at h
    split at h
    · rename_i hk; simp [keys, hk]
    · have := ih h; simp only [keys, List.map_cons, List.mem_cons] at this ⊢; right; exact this

/-! ### `live` -/

theorem live_append (A B : List Entry) : live (A ++ B) = live A ++ live B := by
  simp [live]

theorem live_cons (e : Entry) (r : List Entry) :
    live (e :: r) = if e.removed then live r else (e.key, e.val) :: live r := by
  cases h : e.removed <;> simp [live, h]

theorem mem_live {p : Int × Int} {F : List Entry} (h : p ∈ live F) : ∃ e ∈ F, e.key = p.1 := by
  simp only [live, List.mem_map, List.mem_filter] at h
  obtain ⟨e, ⟨he, _⟩, rfl⟩ := h
  exact ⟨e, he, rfl⟩

/-- the live pairs are exactly what `Get` finds -/
theorem mem_live_iff (k v : Int) (F : List Entry) (hs : SortedK F) :
    (k, v) ∈ live F ↔ searchLeaf k F = some v := by
  induction F with
  | nil => simp [live, searchLeaf]
  | cons e r ih =>
    rw [live_cons]
    simp only [searchLeaf]
    by_cases hk : k = e.key
    · have hnot : (e.key, v) ∉ live r := by
        intro hm
        obtain ⟨e', he', hk'⟩ := mem_live hm
        have := hs.head_lt e' he'
        simp only at hk'; omega
      subst hk
      cases hr : e.removed with
      | true => simp [hnot]
      | false =>
        simp only [if_true, Bool.false_eq_true, if_false, List.mem_cons, Prod.mk.injEq, true_and, Option.some.injEq]
        constructor
        · rintro (h | h)
          · exact h.symm
          · exact absurd h hnot
        · intro h; left; exact h.symm
    · have hne : ¬ ((k, v) = (e.key, e.val)) := by intro h; exact hk (congrArg Prod.fst h)
      cases hr : e.removed with
      | true => simp only [if_true, hk, if_false]; exact ih hs.tail
      | false =>
        simp only [Bool.false_eq_true, if_false, List.mem_cons, hne, false_or, hk]
        exact ih hs.tail

/-! ### the ordered map of the specification -/

theorem ltb_iff (a b : Int) : C10.ltb a b = true ↔ a < b := by simp [C10.ltb]

theorem lookup_none_of_lt (k : Int) (m : List (Int × Int)) (h : ∀ x ∈ m, k < x.1) :
    OrdMap.lookup C10.ltb k m = none := by
  cases m with
  | nil => rfl
  | cons x r =>
    obtain ⟨k', v'⟩ := x
    have := h (k', v') (by simp)
    simp only [OrdMap.lookup, C10.ltb]
    simp only at this
    simp [this]

theorem insert_of_lt (k v : Int) (m : List (Int × Int)) (h : ∀ x ∈ m, k < x.1) :
    OrdMap.insert C10.ltb k v m = (k, v) :: m := by
  cases m with
  | nil => rfl
  | cons x r =>
    obtain ⟨k', v'⟩ := x
    have := h (k', v') (by simp)
    simp only at this
    simp [OrdMap.insert, C10.ltb, this]

theorem live_gt_of_sorted {e : Entry} {r : List Entry} (hs : SortedK (e :: r)) : ∀ x ∈ live r, e.key < x.1 := by
  intro x hx
  obtain ⟨e', he', hk⟩ := mem_live hx
  rw [← hk]; exact hs.head_lt e' he'

/-- `Get` is the specification's lookup among the live entries. -/
theorem searchLeaf_eq_lookup (k : Int) (F : List Entry) (hs : SortedK F) :
    searchLeaf k F = OrdMap.lookup C10.ltb k (live F) := by
  induction F with
  | nil => rfl
  | cons e r ih =>
    have hgt := live_gt_of_sorted hs
    rw [live_cons]
    simp only [searchLeaf]
    by_cases hk : k = e.key
    · simp only [hk, if_true]
      cases hr : e.removed with
      | true => simp only [if_true]; exact (lookup_none_of_lt _ _ hgt).symm
      | false => simp [OrdMap.lookup, C10.ltb]
    · simp only [hk, if_false]
      cases hr : e.removed with
      | true => simp only [if_true]; exact ih hs.tail
      | false =>
        simp only [Bool.false_eq_true, if_false, OrdMap.lookup, C10.ltb]
        by_cases hlt : k < e.key
        · simp only [hlt, decide_true, if_true]
          exact searchLeaf_none_of_lt k r (fun x hx => by have := hs.head_lt x hx; omega)
        · have : e.key < k := by omega
          simp only [hlt, decide_false, this, decide_true, if_true]
          exact ih hs.tail

/-- `Put` is the specification's insert on the live entries. -/
theorem live_insFlat_put (k v : Int) (F : List Entry) (hs : SortedK F) :
    live (insFlat k v false F) = OrdMap.insert C10.ltb k v (live F) := by
  induction F with
  | nil => rfl
  | cons e r ih =>
    have hgt := live_gt_of_sorted hs
    simp only [insFlat]
    by_cases hk : k = e.key
    · simp only [hk, if_true]
      rw [live_cons, live_cons]
      simp only [Bool.false_eq_true, if_false]
      cases hr : e.removed with
      | true => simp only [if_true]; exact (insert_of_lt _ _ _ hgt).symm
      | false => simp [OrdMap.insert, C10.ltb]
    · simp only [hk, if_false]
      by_cases hlt : k < e.key
      · simp only [hlt, if_true]
        rw [live_cons]
        simp only [Bool.false_eq_true, if_false]
        refine (insert_of_lt _ _ _ ?_).symm
        intro x hx
        obtain ⟨e', he', hk'⟩ := mem_live hx
        rw [← hk']
        rcases List.mem_cons.mp he' with rfl | he'
        · exact hlt
        · have := hs.head_lt e' he'; omega
      · have hgt' : e.key < k := by omega
        simp only [hlt, if_false]
        rw [live_cons, live_cons, ih hs.tail]
        cases hr : e.removed with
        | true => simp
        | false => simp [OrdMap.insert, C10.ltb, hlt, hgt']

/-- `Remove` of a live key is the specification's erase on the live entries. -/
theorem live_insFlat_remove (k v v' : Int) (F : List Entry) (hs : SortedK F) (hget : searchLeaf k F = some v') :
    live (insFlat k v true F) = OrdMap.erase C10.ltb k (live F) := by
  induction F with
  | nil => simp [searchLeaf] at hget
  | cons e r ih =>
    simp only [insFlat]
    simp only [searchLeaf] at hget
    by_cases hk : k = e.key
    · simp only [hk, if_true] at hget ⊢
      rw [live_cons, live_cons]
      cases hr : e.removed with
      | true => rw [hr] at hget; simp at hget
      | false => simp [OrdMap.erase, C10.ltb]
    · simp only [hk, if_false] at hget ⊢
      by_cases hlt : k < e.key
      · rw [searchLeaf_none_of_lt k r (fun x hx => by have := hs.head_lt x hx; omega)] at hget
        simp at hget
      · have hgt' : e.key < k := by omega
        simp only [hlt, if_false]
        rw [live_cons, live_cons, ih hs.tail hget]
        cases hr : e.removed with
        | true => simp
        | false => simp [OrdMap.erase, C10.ltb, hlt, hgt']

/-- `Get k` after `Remove k` of a live key. -/
theorem searchLeaf_insFlat_remove (k v v' : Int) (F : List Entry) (hs : SortedK F) (hget : searchLeaf k F = some v') :
    searchLeaf k (insFlat k v true F) = none := by
  induction F with
  | nil => simp [searchLeaf] at hget
  | cons e r ih =>
    simp only [insFlat]
    simp only [searchLeaf] at hget
    by_cases hk : k = e.key
    · simp [hk, searchLeaf]
    · simp only [hk, if_false] at hget ⊢
      by_cases hlt : k < e.key
      · rw [searchLeaf_none_of_lt k r (fun x hx => by have := hs.head_lt x hx; omega)] at hget
        simp at hget
      · simp only [hlt, if_false, searchLeaf, hk]
        exact ih hs.tail hget

theorem erase_of_lookup_none (k : Int) (m : List (Int × Int)) (h : OrdMap.lookup C10.ltb k m = none) :
    OrdMap.erase C10.ltb k m = m := by
  induction m with
  | nil => rfl
  | cons x r ih =>
    obtain ⟨k', v'⟩ := x
    simp only [OrdMap.lookup] at h
    simp only [OrdMap.erase]
    split
    · rfl
    · rename_i h1
      simp only [h1] at h
      split
      · rename_i h2
        simp only [h2, if_true] at h
        rw [ih (by simpa using h)]
      · rename_i h2
        simp [h2] at h

theorem length_insert (k v : Int) (m : List (Int × Int)) :
    (OrdMap.insert C10.ltb k v m).length =
      m.length + (match OrdMap.lookup C10.ltb k m with | none => 1 | some _ => 0) := by
  induction m with
  | nil => rfl
  | cons x r ih =>
    obtain ⟨k', v'⟩ := x
    simp only [OrdMap.insert, OrdMap.lookup]
    split
    · simp
    · split
      · simp only [List.length_cons, ih]; omega
      · simp

theorem length_erase (k v' : Int) (m : List (Int × Int)) (h : OrdMap.lookup C10.ltb k m = some v') :
    (OrdMap.erase C10.ltb k m).length + 1 = m.length := by
  induction m with
  | nil => simp [OrdMap.lookup] at h
  | cons x r ih =>
    obtain ⟨k', v''⟩ := x
    simp only [OrdMap.lookup] at h
    simp only [OrdMap.erase]
    split
    · rename_i h1; simp [h1] at h
    · rename_i h1
      simp only [h1] at h
      split
      · rename_i h2
        simp only [h2, if_true] at h
        simp only [List.length_cons]
        have := ih (by simpa using h); omega
      · simp

/-! ### keys ever inserted -/

theorem keys_insFlat_new (k v : Int) (rm : Bool) (F : List Entry) (h : k ∉ keys F) :
    (keys (insFlat k v rm F)).Perm (k :: keys F) := by
  induction F with
  | nil => simp [insFlat, keys]
  | cons e r ih =>
    have hk : ¬ k = e.key := by intro he; apply h; simp [keys, he]
    have hr : k ∉ keys r := by intro he; apply h; simp only [keys, List.map_cons, List.mem_cons]; right; exact he
    simp only [insFlat, hk, if_false]
    split
    · simp [keys]
    · have := ih hr
      simp only [keys, List.map_cons] at this ⊢
      exact (List.Perm.cons e.key this).trans (List.Perm.swap k e.key _)

theorem keys_insFlat_old (k v : Int) (rm : Bool) (F : List Entry) (hs : SortedK F) (h : k ∈ keys F) :
    keys (insFlat k v rm F) = keys F := by
  induction F with
  | nil => simp [keys] at h
  | cons e r ih =>
    simp only [insFlat]
    split
    · rename_i hk; simp [keys]
    · rename_i hk
      have hr : k ∈ keys r := by
        simp only [keys, List.map_cons, List.mem_cons] at h
        rcases h with h | h
        · exact absurd h hk
        · exact h
      split
      · rename_i hlt
        simp only [keys, List.mem_map] at hr
        obtain ⟨x, hx, hxk⟩ := hr
        have := hs.head_lt x hx
        omega
      · have := ih hs.tail hr
        simp only [keys, List.map_cons] at this ⊢
        rw [this]

theorem length_insFlat_new (k v : Int) (rm : Bool) (F : List Entry) (h : k ∉ keys F) :
    (insFlat k v rm F).length = F.length + 1 := by
  have := (keys_insFlat_new k v rm F h).length_eq
  simpa [keys] using this

theorem length_insFlat_old (k v : Int) (rm : Bool) (F : List Entry) (hs : SortedK F) (h : k ∈ keys F) :
    (insFlat k v rm F).length = F.length := by
  have := congrArg List.length (keys_insFlat_old k v rm F hs h)
  simpa [keys] using this

end GoguVerif.Lemmas.C10
