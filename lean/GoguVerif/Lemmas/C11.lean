import GoguVerif.Spec.C11
import GoguVerif.Model.C11
/-!
# C11 — helper lemmas (reference functions, loop invariants)
-/
namespace GoguVerif.Lemmas.C11
open GoguVerif.Spec.C11 GoguVerif.Model.C11

variable {α : Type} [DecidableEq α]

theorem filter_const_true {β : Type} (l : List β) : l.filter (fun _ => true) = l :=
  List.filter_eq_self.mpr (by simp)

/-! ## the reference functions `firstBy` / `firstOccs` -/

theorem firstOccs_eq_firstBy (s : List α) : firstOccs s = firstBy id s := by
  induction s with
  | nil => rfl
  | cons x r ih => simp [firstOccs, firstBy, ih]

theorem firstBy_sublist (f : α → α) (s : List α) : (firstBy f s).Sublist s := by
  induction s with
  | nil => simp [firstBy]
  | cons x r ih =>
    simp only [firstBy]
    exact List.Sublist.cons_cons _ ((List.filter_sublist).trans ih)

theorem mem_firstBy_image (f : α → α) (s : List α) (y : α) :
    y ∈ (firstBy f s).map f ↔ y ∈ s.map f := by
  induction s with
  | nil => simp [firstBy]
  | cons x r ih =>
    simp only [firstBy, List.map_cons, List.mem_cons]
    constructor
    · rintro (h | h)
      · exact Or.inl h
      · right
        rw [← ih]
        simp only [List.mem_map, List.mem_filter] at h ⊢
        obtain ⟨a, ⟨ha, _⟩, rfl⟩ := h
        exact ⟨a, ha, rfl⟩
    · rintro (h | h)
      · exact Or.inl h
      · by_cases hy : y = f x
        · exact Or.inl hy
        · right
          rw [← ih] at h
          simp only [List.mem_map, List.mem_filter] at h ⊢
          obtain ⟨a, ha, rfl⟩ := h
          exact ⟨a, ⟨ha, by simpa using hy⟩, rfl⟩

theorem firstBy_pairwise (f : α → α) (s : List α) :
    (firstBy f s).Pairwise (fun a b => f a ≠ f b) := by
  induction s with
  | nil => simp [firstBy]
  | cons x r ih =>
    simp only [firstBy, List.pairwise_cons]
    refine ⟨?_, ih.sublist List.filter_sublist⟩
    intro a ha
    simp only [List.mem_filter, decide_eq_true_eq] at ha
    exact fun h => ha.2 h.symm

theorem firstOccs_sublist (s : List α) : (firstOccs s).Sublist s := by
  rw [firstOccs_eq_firstBy]; exact firstBy_sublist id s

theorem mem_firstOccs (s : List α) (y : α) : y ∈ firstOccs s ↔ y ∈ s := by
  have := mem_firstBy_image id s y
  simpa [firstOccs_eq_firstBy] using this

theorem firstOccs_nodup (s : List α) : (firstOccs s).Nodup := by
  rw [firstOccs_eq_firstBy]
  exact (firstBy_pairwise id s).imp (fun h => h)

/-- filtering commutes with `firstBy` when the predicate depends on the image only -/
theorem firstBy_filter (f : α → α) (p : α → Bool) (hp : ∀ a b, f a = f b → p a = p b) (s : List α) :
    firstBy f (s.filter p) = (firstBy f s).filter p := by
  induction s with
  | nil => simp [firstBy]
  | cons x r ih =>
    by_cases hx : p x = true
    · simp only [List.filter_cons, hx, if_true, firstBy, ih, List.filter_filter]
      congr 1
      apply List.filter_congr
      intro a _
      exact Bool.and_comm _ _
    · simp only [Bool.not_eq_true] at hx
      simp only [List.filter_cons, hx, firstBy, List.filter_filter]
      simp only [Bool.false_eq_true, if_false]
      rw [ih]
      apply List.filter_congr
      intro a _
      by_cases h : f a = f x
      · simp [hp a x h, hx]
      · simp [h]

theorem firstOccs_filter (p : α → Bool) (s : List α) :
    firstOccs (s.filter p) = (firstOccs s).filter p := by
  simp only [firstOccs_eq_firstBy]
  exact firstBy_filter id p (fun a b h => by simp only [id] at h; rw [h]) s

/-! ## membership loops -/

theorem contains_eq (v : α) (l : List α) : contains v l = decide (v ∈ l) := by
  induction l with
  | nil => simp [contains]
  | cons y r ih =>
    simp only [contains, ih, List.mem_cons]
    by_cases h : y = v
    · simp [h]
    · have : ¬ v = y := fun e => h e.symm
      simp [h, this]

theorem skipEq_eq (v : α) (l : List α) : skipEq v l = decide (v ∈ l) := by
  induction l with
  | nil => simp [skipEq]
  | cons y r ih =>
    simp only [skipEq, ih, List.mem_cons]
    by_cases h : v = y <;> simp [h]

theorem skipByEq_eq (f : α → α) (v : α) (l : List α) : skipByEq f v l = decide (f v ∈ l.map f) := by
  induction l with
  | nil => simp [skipByEq]
  | cons y r ih =>
    simp only [skipByEq, ih, List.map_cons, List.mem_cons]
    by_cases h : f v = f y <;> simp [h]

theorem hasImage_eq (f : α → α) (item : α) (l : List α) :
    hasImage f item l = decide (f item ∈ l.map f) := by
  induction l with
  | nil => simp [hasImage]
  | cons y r ih =>
    simp only [hasImage, ih, List.map_cons, List.mem_cons]
    by_cases h : f y = f item
    · simp [h]
    · have : ¬ f item = f y := fun e => h e.symm
      simp [h, this]

/-! ## the de-duplicating loops -/

/-- `UniqueBy`'s loop from any intermediate state: what is still appended is the reference result of
the remaining input without the images already recorded. -/
theorem uniqueByLoop_eq (f : α → α) (keys result s : List α) :
    uniqueByLoop f keys result s
      = result ++ (firstBy f s).filter (fun y => decide (f y ∉ keys)) := by
  induction s generalizing keys result with
  | nil => simp [uniqueByLoop, firstBy]
  | cons v rest ih =>
    simp only [uniqueByLoop, firstBy]
    by_cases h : f v ∈ keys
    · simp only [h, if_true, ih, List.filter_cons, not_true_eq_false, decide_false,
        Bool.false_eq_true, if_false, List.filter_filter]
      congr 1
      apply List.filter_congr
      intro a _
      by_cases ha : f a = f v
      · simp [ha, h]
      · simp [ha]
    · simp only [h, if_false, ih, List.filter_cons, not_false_eq_true, decide_true, if_true,
        List.filter_filter, List.append_assoc, List.singleton_append]
      congr 2
      apply List.filter_congr
      intro a _
      by_cases ha : f a = f v
      · simp [ha]
      · simp [ha]

theorem uniqueLoop_eq_by (keys result s : List α) :
    uniqueLoop keys result s = uniqueByLoop id keys result s := by
  induction s generalizing keys result with
  | nil => rfl
  | cons v rest ih => simp only [uniqueLoop, uniqueByLoop, ih, id]

theorem uniqueLoop_eq (keys result s : List α) :
    uniqueLoop keys result s = result ++ (firstOccs s).filter (fun y => decide (y ∉ keys)) := by
  rw [uniqueLoop_eq_by, uniqueByLoop_eq, firstOccs_eq_firstBy]; rfl

/-- `Without` / `Difference` / `DifferenceBy`: skipping excluded values and then de-duplicating is
de-duplicating the filtered input. -/
theorem diffLoop_eq_unique (s2 keys result s : List α) :
    diffLoop s2 keys result s = uniqueLoop keys result (s.filter fun v => !skipEq v s2) := by
  induction s generalizing keys result with
  | nil => rfl
  | cons v rest ih =>
    by_cases h : skipEq v s2 = true
    · simp [diffLoop, h, ih]
    · simp only [Bool.not_eq_true] at h
      by_cases hk : v ∈ keys <;> simp [diffLoop, uniqueLoop, h, hk, ih]

theorem diffByLoop_eq_unique (f : α → α) (s2 keys result s : List α) :
    diffByLoop f s2 keys result s = uniqueLoop keys result (s.filter fun v => !skipByEq f v s2) := by
  induction s generalizing keys result with
  | nil => rfl
  | cons v rest ih =>
    by_cases h : skipByEq f v s2 = true
    · simp [diffByLoop, h, ih]
    · simp only [Bool.not_eq_true] at h
      by_cases hk : v ∈ keys <;> simp [diffByLoop, uniqueLoop, h, hk, ih]

/-- the outer loop of `Intersection(By)` with qualification test `q`, from any intermediate result -/
def keepLoop (q : α → Bool) (result : List α) : List α → List α
  | [] => result
  | item :: rest =>
    if contains item result then keepLoop q result rest
    else if q item then keepLoop q (result ++ [item]) rest
    else keepLoop q result rest

theorem keepLoop_eq_unique (q : α → Bool) (result s : List α) :
    keepLoop q result s = uniqueLoop result result (s.filter q) := by
  rw [uniqueLoop_eq]
  induction s generalizing result with
  | nil => simp [keepLoop, firstOccs]
  | cons v rest ih =>
    simp only [keepLoop, contains_eq]
    by_cases hr : v ∈ result
    · simp only [hr, decide_true, if_true, ih]
      by_cases hq : q v = true
      · simp only [List.filter_cons, hq, if_true, firstOccs, hr, not_true_eq_false, decide_false,
          Bool.false_eq_true, if_false, List.filter_filter]
        congr 1
        apply List.filter_congr
        intro a _
        by_cases ha : a = v
        · simp [ha, hr]
        · simp [ha]
      · simp [hq]
    · by_cases hq : q v = true
      · simp only [hr, decide_false, Bool.false_eq_true, if_false, hq, if_true, ih, List.filter_cons,
          firstOccs, not_false_eq_true, decide_true, List.filter_filter, List.append_assoc,
          List.singleton_append]
        congr 2
        apply List.filter_congr
        intro a _
        by_cases ha : a = v
        · simp [ha]
        · simp [ha]
      · simp [hr, hq, ih]

/-! ## Intersection / IntersectionBy -/

theorem interScan_eq (item : α) (ps : List (List α)) (j : Nat) :
    interScan item ps j = j + ps.length ↔ ∀ p, p ∈ ps → item ∈ p := by
  induction ps generalizing j with
  | nil => simp [interScan]
  | cons p ps ih =>
    simp only [interScan, contains_eq, List.length_cons, List.mem_cons, forall_eq_or_imp]
    by_cases h : item ∈ p
    · simp only [h, decide_true, Bool.not_true, Bool.false_eq_true, if_false, true_and]
      rw [← ih (j + 1)]
      omega
    · simp only [h, decide_false, Bool.not_false, if_true, false_and, iff_false]
      omega

theorem interByScan_eq (f : α → α) (item : α) (ps : List (List α)) (j : Nat) :
    interByScan f item ps j = j + ps.length ↔ ∀ p, p ∈ ps → f item ∈ p.map f := by
  induction ps generalizing j with
  | nil => simp [interByScan]
  | cons p ps ih =>
    simp only [interByScan, hasImage_eq, List.length_cons, List.mem_cons, forall_eq_or_imp]
    by_cases h : f item ∈ p.map f
    · simp only [h, decide_true, Bool.not_true, Bool.false_eq_true, if_false, true_and]
      rw [← ih (j + 1)]
      omega
    · simp only [h, decide_false, Bool.not_false, if_true, false_and, iff_false]
      omega

theorem interLoop_eq_keep (others : List (List α)) (result s : List α) :
    interLoop (others.length + 1) others result s
      = keepLoop (fun x => others.all fun p => decide (x ∈ p)) result s := by
  induction s generalizing result with
  | nil => rfl
  | cons v rest ih =>
    have hq : (interScan v others 1 = others.length + 1)
        ↔ (others.all fun p => decide (v ∈ p)) = true := by
      rw [Nat.add_comm, interScan_eq]; simp
    simp only [interLoop, keepLoop, ih]
    by_cases h : (others.all fun p => decide (v ∈ p)) = true
    · simp [h, hq.mpr h]
    · have h' : ¬ (interScan v others 1 = others.length + 1) := fun e => h (hq.mp e)
      simp [h, h']

theorem interByLoop_eq_keep (f : α → α) (others : List (List α)) (result s : List α) :
    interByLoop f (others.length + 1) others result s
      = keepLoop (interByCond f others) result s := by
  induction s generalizing result with
  | nil => rfl
  | cons v rest ih =>
    have hq : (interByScan f v others 1 = others.length + 1)
        ↔ interByCond f others v = true := by
      rw [Nat.add_comm, interByScan_eq]; simp [interByCond]
    simp only [interByLoop, keepLoop, ih]
    by_cases h : interByCond f others v = true
    · simp [h, hq.mpr h]
    · have h' : ¬ (interByScan f v others 1 = others.length + 1) := fun e => h (hq.mp e)
      simp [h, h']

/-! ## baseFlatten -/

section Flatten
variable {β : Type}
mutual
theorem baseFlatten_eq (acc : List β) (n : Nested β) :
    baseFlatten acc n = if n.wellFormed then some (acc ++ n.leaves) else none := by
  cases n with
  | leaf a => simp [baseFlatten, Nested.wellFormed, Nested.leaves]
  | slice l => simp [baseFlatten, Nested.wellFormed, Nested.leaves]
  | bad => simp [baseFlatten, Nested.wellFormed]
  | list l =>
    simp only [baseFlatten, Nested.wellFormed, Nested.leaves]
    exact flattenLoop_eq acc l
theorem flattenLoop_eq (acc : List β) (l : List (Nested β)) :
    flattenLoop acc l
      = if Nested.wellFormedAll l then some (acc ++ Nested.leavesAll l) else none := by
  cases l with
  | nil => simp [flattenLoop, Nested.wellFormedAll, Nested.leavesAll]
  | cons n r =>
    simp only [flattenLoop, Nested.wellFormedAll, Nested.leavesAll]
    rw [baseFlatten_eq acc n]
    by_cases h : n.wellFormed = true
    · simp only [h, if_true, Bool.true_and]
      rw [flattenLoop_eq (acc ++ n.leaves) r]
      simp [List.append_assoc]
    · simp [h]
end
end Flatten

end GoguVerif.Lemmas.C11
