import GoguVerif.Lemmas.C12
/-!
# C12 — helper lemmas for Zip / Unzip (index loops over a matrix)
-/
namespace GoguVerif.Lemmas.C12
open GoguVerif.Model.C12 GoguVerif.Spec.C12

variable {α : Type}

/-- an `n × n` matrix -/
def Shape (n : Nat) (r : List (List α)) : Prop := r.length = n ∧ ∀ row ∈ r, row.length = n

theorem square_iff_shape (m : List (List α)) : Square m ↔ Shape m.length m :=
  ⟨fun h => ⟨rfl, h⟩, fun h => h.2⟩

theorem Shape.entry_some {n : Nat} {r : List (List α)} (h : Shape n r) {a b : Nat} (ha : a < n) (hb : b < n) :
    ∃ v, entry r a b = some v := by
  have ha' : a < r.length := by rw [h.1]; exact ha
  have hrow := h.2 r[a] (List.getElem_mem ha')
  refine ⟨r[a][b]'(by omega), ?_⟩
  simp [entry, List.getElem?_eq_getElem ha', List.getElem?_eq_getElem (show b < r[a].length by omega)]

theorem get2_of_entry (m : List (List α)) (x i : Nat) (v : α) (h : entry m x i = some v) :
    get2 m x i = .ok v := by
  unfold entry at h
  unfold get2
  cases hx : m[x]? with
  | none => simp [hx] at h
  | some row =>
    simp only [hx] at h ⊢
    simp [h]

theorem set2_spec {n : Nat} (r : List (List α)) (h : Shape n r) (i x : Nat) (hi : i < n) (hx : x < n) (v : α) :
    ∃ r', set2 r i x v = .ok r' ∧ Shape n r' ∧
      ∀ a b, entry r' a b = if a = i ∧ b = x then some v else entry r a b := by
  have hi' : i < r.length := by rw [h.1]; exact hi
  have hrow : r[i].length = n := h.2 r[i] (List.getElem_mem hi')
  refine ⟨r.set i (r[i].set x v), ?_, ⟨by simpa using h.1, ?_⟩, ?_⟩
  · simp [set2, List.getElem?_eq_getElem hi', hrow, hx]
  · intro row hmem
    rcases List.mem_or_eq_of_mem_set hmem with hm | hm
    · exact h.2 row hm
    · rw [hm]; simpa using hrow
  · intro a b
    unfold entry
    by_cases hai : a = i
    · subst hai
      have e1 : (r.set a (r[a].set x v))[a]? = some (r[a].set x v) := List.getElem?_set_self hi'
      simp only [e1, List.getElem?_eq_getElem hi', true_and]
      rw [List.getElem?_set]
      by_cases hbx : x = b
      · subst hbx; simp [hrow, hx]
      · have : ¬ b = x := fun e => hbx e.symm
        simp [hbx, this]
    · have : ¬ i = a := fun e => hai e.symm
      rw [List.getElem?_set_ne this]
      simp [hai]

/-- the cell written in iteration `(x, i)`: `result[i][x]` for Zip, `result[x][i]` for Unzip -/
def cell (tr : Bool) (x i : Nat) : Nat × Nat := if tr then (x, i) else (i, x)

theorem cellLoop_spec (tr : Bool) (m : List (List α)) (n : Nat) (hm : Shape n m) (x : Nat) (hx : x < n)
    (k i : Nat) (result : List (List α)) (hk : i + k = n) (hr : Shape n result) :
    ∃ r', cellLoop tr m x k i result = .ok r' ∧ Shape n r' ∧
      (∀ a b, (∃ i', i ≤ i' ∧ i' < n ∧ (a, b) = cell tr x i') → entry r' a b = entry m b a) ∧
      (∀ a b, ¬ (∃ i', i ≤ i' ∧ i' < n ∧ (a, b) = cell tr x i') → entry r' a b = entry result a b) := by
  induction k generalizing i result with
  | zero =>
    refine ⟨result, rfl, hr, ?_, fun _ _ _ => rfl⟩
    rintro a b ⟨i', h1, h2, _⟩; omega
  | succ k ih =>
    have hi : i < n := by omega
    -- both variants read `m[c.2][c.1]` and write cell `c`
    obtain ⟨v, hv⟩ := hm.entry_some (a := (cell tr x i).2) (b := (cell tr x i).1)
      (by cases tr <;> simp [cell] <;> omega) (by cases tr <;> simp [cell] <;> omega)
    obtain ⟨r1, hset, hs1, he1⟩ := set2_spec result hr (cell tr x i).1 (cell tr x i).2
      (by cases tr <;> simp [cell] <;> omega) (by cases tr <;> simp [cell] <;> omega) v
    have hstep : cellLoop tr m x (k + 1) i result = cellLoop tr m x k (i + 1) r1 := by
      cases tr
      · simp only [cell, Bool.false_eq_true, if_false] at hv hset
        simp only [cellLoop, Bool.false_eq_true, if_false, get2_of_entry m x i v hv, hset]
      · simp only [cell, if_true] at hv hset
        simp only [cellLoop, if_true, get2_of_entry m i x v hv, hset]
    obtain ⟨r', hr', hs', hw, hnw⟩ := ih (i + 1) r1 (by omega) hs1
    refine ⟨r', hstep ▸ hr', hs', ?_, ?_⟩
    · rintro a b ⟨i', h1, h2, hc⟩
      by_cases h : i' = i
      · subst h
        have hn : ¬ (∃ i'', i' + 1 ≤ i'' ∧ i'' < n ∧ (a, b) = cell tr x i'') := by
          rintro ⟨i'', g1, _, g3⟩
          rw [hc] at g3
          cases tr <;> simp [cell] at g3 <;> omega
        rw [hnw a b hn, he1 a b]
        have ha : a = (cell tr x i').1 := by rw [← hc]
        have hb : b = (cell tr x i').2 := by rw [← hc]
        rw [if_pos ⟨ha, hb⟩, ha, hb, hv]
      · exact hw a b ⟨i', by omega, h2, hc⟩
    · intro a b hn
      have hn' : ¬ (∃ i', i + 1 ≤ i' ∧ i' < n ∧ (a, b) = cell tr x i') := by
        rintro ⟨i', g1, g2, g3⟩; exact hn ⟨i', by omega, g2, g3⟩
      rw [hnw a b hn', he1 a b, if_neg]
      rintro ⟨ha, hb⟩
      exact hn ⟨i, Nat.le_refl _, hi, by rw [ha, hb]⟩

theorem colLoop_spec (tr : Bool) (m : List (List α)) (n : Nat) (hm : Shape n m) (hlen : m.length = n)
    (k x : Nat) (result : List (List α)) (hk : x + k = n) (hr : Shape n result) :
    ∃ r', colLoop tr m k x result = .ok r' ∧ Shape n r' ∧
      (∀ a b, (∃ x' i', x ≤ x' ∧ x' < n ∧ i' < n ∧ (a, b) = cell tr x' i') → entry r' a b = entry m b a) ∧
      (∀ a b, ¬ (∃ x' i', x ≤ x' ∧ x' < n ∧ i' < n ∧ (a, b) = cell tr x' i') →
        entry r' a b = entry result a b) := by
  induction k generalizing x result with
  | zero =>
    refine ⟨result, rfl, hr, ?_, fun _ _ _ => rfl⟩
    rintro a b ⟨x', i', h1, h2, _⟩; omega
  | succ k ih =>
    have hx : x < n := by omega
    obtain ⟨r1, hc1, hs1, hw1, hnw1⟩ := cellLoop_spec tr m n hm x hx n 0 result (by omega) hr
    obtain ⟨r', hr', hs', hw, hnw⟩ := ih (x + 1) r1 (by omega) hs1
    refine ⟨r', ?_, hs', ?_, ?_⟩
    · simp only [colLoop, hlen, hc1]; exact hr'
    · rintro a b ⟨x', i', h1, h2, h3, hc⟩
      by_cases hlater : ∃ x'' i'', x + 1 ≤ x'' ∧ x'' < n ∧ i'' < n ∧ (a, b) = cell tr x'' i''
      · exact hw a b hlater
      · have hxx : x' = x := by
          apply Classical.byContradiction; intro hne
          exact hlater ⟨x', i', by omega, h2, h3, hc⟩
        subst hxx
        rw [hnw a b hlater]
        exact hw1 a b ⟨i', Nat.zero_le _, h3, hc⟩
    · intro a b hn
      have hn1 : ¬ (∃ x'' i'', x + 1 ≤ x'' ∧ x'' < n ∧ i'' < n ∧ (a, b) = cell tr x'' i'') := by
        rintro ⟨x'', i'', g1, g2, g3, g4⟩; exact hn ⟨x'', i'', by omega, g2, g3, g4⟩
      have hn2 : ¬ (∃ i', 0 ≤ i' ∧ i' < n ∧ (a, b) = cell tr x i') := by
        rintro ⟨i', _, g2, g3⟩; exact hn ⟨x, i', Nat.le_refl _, hx, g2, g3⟩
      rw [hnw a b hn1, hnw1 a b hn2]

/-! ### the row-allocation loop -/

theorem rowsLoop_ok [Inhabited α] (sliceLen : Nat) (rows : List (List α)) (idx : Nat) (result : List (List α))
    (hall : ∀ sl ∈ rows, sl.length = sliceLen) (hlen : idx + rows.length = result.length)
    (hdone : ∀ j, j < idx → ∃ row, result[j]? = some row ∧ row.length = sliceLen) :
    ∃ r', rowsLoop sliceLen rows idx result = .ok r' ∧ r'.length = result.length ∧
      ∀ row ∈ r', row.length = sliceLen := by
  induction rows generalizing idx result with
  | nil =>
    refine ⟨result, rfl, rfl, fun row hrow => ?_⟩
    obtain ⟨j, hj, hget⟩ := List.getElem_of_mem hrow
    obtain ⟨row', h1, h2⟩ := hdone j (by simp at hlen; omega)
    rw [List.getElem?_eq_getElem hj, hget] at h1
    injection h1 with h1; rw [h1]; exact h2
  | cons sl rest ih =>
    have hsl : sl.length = sliceLen := hall sl (by simp)
    have hidx : idx < result.length := by simp at hlen; omega
    simp only [rowsLoop]
    rw [if_neg (by simp [hsl]), if_pos hidx]
    obtain ⟨r', h1, h2, h3⟩ := ih (idx + 1) (result.set idx (List.replicate sl.length default))
      (fun s hs => hall s (List.mem_cons_of_mem _ hs)) (by simp at hlen ⊢; omega)
      (fun j hj => by
        by_cases hji : j = idx
        · subst hji
          exact ⟨_, List.getElem?_set_self hidx, by simp [hsl]⟩
        · have : ¬ idx = j := fun e => hji e.symm
          rw [List.getElem?_set_ne this]
          exact hdone j (by omega))
    exact ⟨r', h1, by simpa using h2, h3⟩

theorem rowsLoop_panic [Inhabited α] (sliceLen : Nat) (rows : List (List α)) (idx : Nat) (result : List (List α))
    (hbad : ∃ sl ∈ rows, sl.length ≠ sliceLen) : rowsLoop sliceLen rows idx result = .panic := by
  induction rows generalizing idx result with
  | nil => obtain ⟨sl, h, _⟩ := hbad; simp at h
  | cons sl rest ih =>
    simp only [rowsLoop]
    by_cases hsl : sliceLen = sl.length
    · rw [if_neg (by simp [hsl])]
      split
      · apply ih
        obtain ⟨s, hs, hne⟩ := hbad
        rcases List.mem_cons.mp hs with h | h
        · subst h; exact absurd hsl.symm hne
        · exact ⟨s, h, hne⟩
      · rfl
    · rw [if_pos hsl]

/-! ### spec-level facts about transposition -/

theorem shape_ext {n : Nat} (m m' : List (List α)) (h : Shape n m) (h' : Shape n m')
    (he : ∀ a b, a < n → b < n → entry m a b = entry m' a b) : m = m' := by
  apply List.ext_getElem (by rw [h.1, h'.1])
  intro a ha ha'
  have han : a < n := by rw [← h.1]; exact ha
  have hr : m[a].length = n := h.2 _ (List.getElem_mem ha)
  have hr' : m'[a].length = n := h'.2 _ (List.getElem_mem ha')
  apply List.ext_getElem (by rw [hr, hr'])
  intro b hb hb'
  have := he a b han (by omega)
  simp only [entry, List.getElem?_eq_getElem ha, List.getElem?_eq_getElem ha',
    List.getElem?_eq_getElem hb, List.getElem?_eq_getElem hb'] at this
  injection this

/-- transposing twice gives the matrix back -/
theorem transpose_twice (m r m' : List (List α)) (hsq : Square m) (h1 : TransposeOK m r)
    (h2 : TransposeOK r m') : m' = m := by
  obtain ⟨hl1, hs1, he1⟩ := h1
  obtain ⟨hl2, hs2, he2⟩ := h2
  have hm : Shape m.length m := (square_iff_shape m).mp hsq
  have hm' : Shape m.length m' := by
    have := (square_iff_shape m').mp hs2
    rwa [hl2, hl1] at this
  apply shape_ext m' m hm' hm
  intro a b ha hb
  rw [he2 a (by omega) b (by omega), he1 b hb a ha]

theorem zipWith_ok [Inhabited α] (tr : Bool) (m : List (List α)) (hsq : Square m) :
    ∃ r, zipWith tr m = .ok r ∧ TransposeOK m r := by
  have hm : Shape m.length m := (square_iff_shape m).mp hsq
  have hsl : firstLen m = m.length := by
    cases m with
    | nil => rfl
    | cons s0 t => exact hsq s0 (by simp)
  obtain ⟨r0, hr0, hl0, hrows0⟩ := rowsLoop_ok m.length m 0 (List.replicate m.length ([] : List α))
    hsq (by simp) (fun j hj => by omega)
  have hs0 : Shape m.length r0 := ⟨by simpa using hl0, hrows0⟩
  obtain ⟨r, hr, hs, hw, _⟩ := colLoop_spec tr m m.length hm rfl m.length 0 r0 (by omega) hs0
  refine ⟨r, ?_, hs.1, ?_, ?_⟩
  · unfold zipWith
    rw [hsl, if_neg (by simp), hr0]
    exact hr
  · intro row hrow
    rw [hs.1]; exact hs.2 row hrow
  · intro i hi x hx
    apply hw
    cases tr
    · exact ⟨x, i, Nat.zero_le _, hx, hi, by simp [cell]⟩
    · exact ⟨i, x, Nat.zero_le _, hi, hx, by simp [cell]⟩

theorem zipWith_panic [Inhabited α] (tr : Bool) (m : List (List α)) (hsq : ¬ Square m) :
    zipWith tr m = .panic := by
  unfold zipWith
  by_cases hsl : firstLen m = m.length
  · rw [if_neg (by simp [hsl]), rowsLoop_panic]
    unfold Square at hsq
    simp only [Classical.not_forall] at hsq
    obtain ⟨row, hrow, hne⟩ := hsq
    exact ⟨row, hrow, by rw [hsl]; exact hne⟩
  · rw [if_pos hsl]

end GoguVerif.Lemmas.C12
