import GoguVerif.Lemmas.C20T2
/-!
# C20 — helper lemmas: the exact shape of one throttle step

Between steps the trailing timer's deadline lies strictly in the future (`Strict`), so only `Call`
and the passage of time can run it.  A step either leaves permissions / completion log / blocked
callers alone or hands exactly one permission to exactly one blocked caller (`Woke`).
-/
namespace GoguVerif.Lemmas.C20T3
open GoguVerif.Spec.C20 GoguVerif.Model.C20 GoguVerif.Lemmas.C20T GoguVerif.Lemmas.C20T2

/-- the trailing timer (if any) is due strictly later -/
def Strict (s : TState) : Prop := ∀ sc, s.scheduled = some sc → s.now < sc.deadline

theorem advanceTo_strict (ch : Choice) (s : TState) (t : Int) :
    ∀ sc, (advanceTo ch s t).scheduled = some sc → t < sc.deadline := by
  intro sc h
  unfold advanceTo at h
  split at h
  · rename_i sc0 hsc
    split at h
    · have := fire_scheduled (s := { s with now := max s.now sc0.deadline }) ch sc0
      simp only at h
      rw [this] at h; cases h
    · simp only at h
      rw [hsc] at h; cases h; omega
  · rename_i hsc
    simp only at h
    rw [hsc] at h; cases h

theorem tstep_strict (cfg : TCfg) (ch : Choice) (s : TState) (e : TEv) : Strict (tstep cfg ch s e) := by
  rw [tstep_eq]
  intro sc h
  have h1 := advanceTo_strict ch (tpre cfg ch s e) ((tpre cfg ch s e).now + e.dt) sc h
  have h2 := (advanceTo_frame ch (tpre cfg ch s e) ((tpre cfg ch s e).now + e.dt)).2.2.1
  show (advanceTo ch _ _).now < sc.deadline
  rw [h2]; exact h1

theorem strict_init : Strict {} := by intro sc h; cases h

theorem trun_strict (cfg : TCfg) (ch : Choice) (evs : List TEv) : Strict (trun cfg ch evs) := by
  have : ∀ (evs : List TEv) (s : TState), Strict s → Strict (evs.foldl (tstep cfg ch) s) := by
    intro evs
    induction evs with
    | nil => intro s h; exact h
    | cons e r ih => intro s _; exact ih _ (tstep_strict cfg ch s e)
  exact this evs {} strict_init

/-- with the deadline beyond `t`, letting time pass until `t` only moves the clock -/
theorem advanceTo_noop (ch : Choice) (s : TState) (t : Int)
    (h : ∀ sc, s.scheduled = some sc → t < sc.deadline) : advanceTo ch s t = { s with now := t } := by
  unfold advanceTo
  split
  · rename_i sc hsc
    have := h sc hsc
    rw [if_neg (by omega)]
  · rfl

/-! ## choosing a blocked caller -/

theorem pickFrom_spec : ∀ (c b : Nat) (bs : List Nat), (b :: bs).Nodup →
    (pickFrom c b bs).1 ∈ b :: bs ∧
    (pickFrom c b bs).2 = (b :: bs).filter (fun x => x != (pickFrom c b bs).1) := by
  intro c
  induction c with
  | zero =>
    intro b bs hnd
    rw [List.nodup_cons] at hnd
    refine ⟨by simp [pickFrom], ?_⟩
    simp only [pickFrom, List.filter_cons, bne_self_eq_false, Bool.false_eq_true, if_false]
    symm; rw [List.filter_eq_self]
    intro a ha; simp; intro h; subst h; exact hnd.1 ha
  | succ c ih =>
    intro b bs hnd
    cases bs with
    | nil => simp [pickFrom]
    | cons b' bs =>
      have hnd' := hnd
      rw [List.nodup_cons] at hnd'
      obtain ⟨h1, h2⟩ := ih b' bs hnd'.2
      simp only [pickFrom]
      refine ⟨List.mem_cons_of_mem _ h1, ?_⟩
      have hne : (b != (pickFrom c b' bs).1) = true := by
        simp; intro h; rw [h] at hnd'; exact hnd'.1 h1
      rw [List.filter_cons, if_pos hne, ← h2]

/-! ## the outcome of a wake-up -/

/-- nothing happens to permissions / completion log / blocked callers, or exactly one blocked caller
receives exactly one permission -/
def Woke (s s' : TState) : Prop :=
  (s'.grants = s.grants ∧ s'.doneLog = s.doneLog ∧ s'.blocked = s.blocked) ∨
  (∃ g : Grant, s'.grants = s.grants ++ [g] ∧ s'.doneLog = s.doneLog ++ [(g.id, g.t, true)] ∧
    g.id ∈ s.blocked ∧ s'.blocked = s.blocked.filter (fun x => x != g.id))

theorem wake_woke (ch : Choice) (s : TState) (w : Int × Nat) (hnd : s.blocked.Nodup) :
    Woke s (wake ch s w) ∧ (wake ch s w).stop = s.stop ∧ (wake ch s w).falses = s.falses := by
  unfold wake
  cases hb : s.blocked with
  | nil => exact ⟨Or.inl ⟨rfl, rfl, by rw [hb]⟩, rfl, rfl⟩
  | cons b bs =>
    rw [hb] at hnd
    obtain ⟨h1, h2⟩ := pickFrom_spec (ch s.n (b :: bs)) b bs hnd
    refine ⟨Or.inr ⟨_, rfl, rfl, ?_, ?_⟩, rfl, rfl⟩
    · show (pickFrom _ b bs).1 ∈ s.blocked; rw [hb]; exact h1
    · show (pickFrom _ b bs).2 = s.blocked.filter _; rw [hb]; exact h2

theorem fire_woke (ch : Choice) (s : TState) (sc : Sched) (hnd : s.blocked.Nodup) :
    Woke s (fire ch s sc) ∧ (fire ch s sc).stop = s.stop ∧ (fire ch s sc).falses = s.falses := by
  unfold fire
  dsimp only
  split
  · exact ⟨Or.inl ⟨rfl, rfl, rfl⟩, rfl, rfl⟩
  · exact wake_woke ch { s with scheduled := none } (sc.ctime, sc.cepoch) hnd

theorem advanceTo_woke (ch : Choice) (s : TState) (t : Int) (hnd : s.blocked.Nodup) :
    Woke s (advanceTo ch s t) ∧ (advanceTo ch s t).stop = s.stop ∧ (advanceTo ch s t).falses = s.falses := by
  unfold advanceTo
  split
  · rename_i sc hsc
    split
    · exact fire_woke ch { s with now := max s.now sc.deadline } sc hnd
    · exact ⟨Or.inl ⟨rfl, rfl, rfl⟩, rfl, rfl⟩
  · exact ⟨Or.inl ⟨rfl, rfl, rfl⟩, rfl, rfl⟩

/-- outcome of `Call` before time is allowed to pass -/
def CallOut (s r : TState) : Prop :=
  Woke s r ∧ r.stop = s.stop ∧ r.falses = s.falses ∧ (r.grants ≠ s.grants → r.scheduled = none)

theorem tcall_woke {cfg : TCfg} {s : TState} (ch : Choice) (h : TInv cfg s) (hnd : s.blocked.Nodup) :
    CallOut s (tcall cfg ch s) := by
  have hl := h.logCall
  have hwake : (logCall s).scheduled = none → ∀ w, CallOut s (wake ch (logCall s) w) := by
    intro hsc w
    have := wake_woke ch (logCall s) w hnd
    have hf := wake_frame ch (logCall s) w
    exact ⟨this.1, this.2.1, this.2.2, fun _ => by rw [hf.2.2.2]; exact hsc⟩
  have hsame : ∀ r : TState, r.grants = s.grants → r.doneLog = s.doneLog → r.blocked = s.blocked →
      r.stop = s.stop → r.falses = s.falses → CallOut s r :=
    fun r h1 h2 h3 h4 h5 => ⟨Or.inl ⟨h1, h2, h3⟩, h4, h5, fun h' => absurd h1 h'⟩
  unfold tcall
  dsimp only
  by_cases hc : (logCall s).waiting = false ∧ (logCall s).stop = false
  · rw [if_pos hc]
    have key : ∀ o, (logCall s).last = o →
        CallOut s (match o with
          | none => wake ch (logCall s) ((logCall s).now, (logCall s).grants.length)
          | some l =>
            if (logCall s).now - l > cfg.dur then wake ch (logCall s) ((logCall s).now, (logCall s).grants.length)
            else if cfg.trailing = true ∧ (logCall s).scheduled = none then
              { logCall s with scheduled := some { deadline := (logCall s).now + (cfg.dur - ((logCall s).now - l)),
                                                   ctime := (logCall s).now, cepoch := (logCall s).grants.length } }
            else logCall s) := by
      intro o hlast
      cases o with
      | none =>
        dsimp only
        have hsc : (logCall s).scheduled = none := by
          cases hsv : (logCall s).scheduled with
          | none => rfl
          | some sc => have := (hl.sched sc hsv).2.2.2.1; rw [hlast] at this; cases this
        exact hwake hsc _
      | some l =>
        dsimp only
        by_cases hd : (logCall s).now - l > cfg.dur
        · rw [if_pos hd]
          have hsc : (logCall s).scheduled = none := by
            cases hsv : (logCall s).scheduled with
            | none => rfl
            | some sc =>
              obtain ⟨_, _, h3, h4, _⟩ := hl.sched sc hsv
              rw [hlast] at h4
              simp only [Option.some.injEq] at h4
              omega
          exact hwake hsc _
        · rw [if_neg hd]
          split
          · exact hsame _ rfl rfl rfl rfl rfl
          · exact hsame _ rfl rfl rfl rfl rfl
    exact key _ rfl
  · rw [if_neg hc]
    exact hsame _ rfl rfl rfl rfl rfl

/-- `Call` or the passage of time: at most one blocked caller receives a permission -/
theorem tstep_woke {cfg : TCfg} {s : TState} (ch : Choice) (e : TEv) (h : TInv cfg s)
    (hnd : s.blocked.Nodup) (he : e = TEv.call ∨ ∃ dt, e = TEv.advance dt) :
    Woke s (tstep cfg ch s e) ∧ (tstep cfg ch s e).stop = s.stop ∧
    (tstep cfg ch s e).falses = s.falses := by
  rw [tstep_eq]
  have hpre : CallOut s (tpre cfg ch s e) := by
    rcases he with rfl | ⟨dt, rfl⟩
    · exact tcall_woke ch h hnd
    · exact ⟨Or.inl ⟨rfl, rfl, rfl⟩, rfl, rfl, fun h' => absurd rfl h'⟩
  obtain ⟨hw, hstop, hfalses, hsched⟩ := hpre
  rcases hw with ⟨h1, h2, h3⟩ | ⟨g, h1, h2, h3, h4⟩
  · have := advanceTo_woke ch (tpre cfg ch s e) ((tpre cfg ch s e).now + e.dt) (by rw [h3]; exact hnd)
    refine ⟨?_, by show (advanceTo ch _ _).stop = _; rw [this.2.1, hstop],
      by show (advanceTo ch _ _).falses = _; rw [this.2.2, hfalses]⟩
    rcases this.1 with ⟨a, b, c⟩ | ⟨g, a, b, c, d⟩
    · exact Or.inl ⟨by show (advanceTo ch _ _).grants = _; rw [a, h1],
        by show (advanceTo ch _ _).doneLog = _; rw [b, h2],
        by show (advanceTo ch _ _).blocked = _; rw [c, h3]⟩
    · exact Or.inr ⟨g, by show (advanceTo ch _ _).grants = _; rw [a, h1],
        by show (advanceTo ch _ _).doneLog = _; rw [b, h2], by rw [← h3]; exact c,
        by show (advanceTo ch _ _).blocked = _; rw [d, h3]⟩
  · have hne : (tpre cfg ch s e).grants ≠ s.grants := by
      rw [h1]; intro h'
      have := congrArg List.length h'
      simp at this
    have hnone := hsched hne
    rw [advanceTo_noop ch _ _ (by intro sc h'; rw [hnone] at h'; cases h')]
    exact ⟨Or.inr ⟨g, h1, h2, h3, h4⟩, hstop, hfalses⟩

/-- `Next` and `Cancel` from a state between steps: time does not pass, the timer does not run -/
theorem tstep_noop (cfg : TCfg) (ch : Choice) (s : TState) (e : TEv)
    (h : ∀ sc, (tpre cfg ch s e).scheduled = some sc → (tpre cfg ch s e).now + e.dt < sc.deadline) :
    tstep cfg ch s e =
      { tpre cfg ch s e with now := (tpre cfg ch s e).now + e.dt, n := (tpre cfg ch s e).n + 1 } := by
  rw [tstep_eq, advanceTo_noop ch _ _ h]

theorem tnext_keeps (s : TState) (id : Nat) :
    (tnext s id).scheduled = s.scheduled ∧ (tnext s id).now = s.now := by
  unfold tnext; split
  · split <;> exact ⟨rfl, rfl⟩
  · exact ⟨rfl, rfl⟩

/-- the observable fields after `Next` are those of `tnext` -/
theorem tstep_next_fields (cfg : TCfg) (ch : Choice) (s : TState) (id : Nat) (hs : Strict s) :
    (tstep cfg ch s (.next id)).grants = (tnext s id).grants ∧
    (tstep cfg ch s (.next id)).doneLog = (tnext s id).doneLog ∧
    (tstep cfg ch s (.next id)).blocked = (tnext s id).blocked ∧
    (tstep cfg ch s (.next id)).stop = (tnext s id).stop ∧
    (tstep cfg ch s (.next id)).now = s.now := by
  have hk := tnext_keeps s id
  rw [tstep_noop cfg ch s (.next id) (by
    intro sc h'
    have h'' : (tnext s id).scheduled = some sc := h'
    rw [hk.1] at h''
    have := hs sc h''
    show (tnext s id).now + ((0 : Nat) : Int) < sc.deadline
    rw [hk.2]; omega)]
  refine ⟨rfl, rfl, rfl, rfl, ?_⟩
  show (tnext s id).now + ((0 : Nat) : Int) = s.now
  rw [hk.2]; omega

theorem tstep_cancel_fields (cfg : TCfg) (ch : Choice) (s : TState) (hs : Strict s) :
    (tstep cfg ch s .cancel).grants = s.grants ∧
    (tstep cfg ch s .cancel).doneLog = s.doneLog ++ s.blocked.map (fun id => (id, s.now, false)) ∧
    (tstep cfg ch s .cancel).blocked = [] ∧
    (tstep cfg ch s .cancel).stop = true ∧
    (tstep cfg ch s .cancel).now = s.now := by
  rw [tstep_noop cfg ch s .cancel (by
    intro sc h'
    have := hs sc h'
    show s.now + ((0 : Nat) : Int) < sc.deadline
    omega)]
  refine ⟨rfl, rfl, rfl, rfl, ?_⟩
  show s.now + ((0 : Nat) : Int) = s.now
  omega

end GoguVerif.Lemmas.C20T3
