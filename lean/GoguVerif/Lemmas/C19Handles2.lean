import GoguVerif.Lemmas.C19Handles
/-!
# C19 helper lemmas, kept handles, part 2: the `DList` pointer surgery addressed by POSITION

`insertAfterLink_chain`, `insertBeforeLink_chain`, `deleteUnlink_chain` of `C19/DListMid.lean` address the cell as "the
first cell holding `x`".  The surgery itself never reads a value; here the cell is the `i`-th cell of the chain
(`as[i]? = some a`, duplicates allowed) and the address list after the operation is explicit (`take`/`drop`/`eraseIdx`),
so that other kept handles can be followed through it.  Also: `Unshift`, `Append`, `Shift`, `Pop` and the head branch of
`InsertBefore` with the address list made explicit.
-/
namespace GoguVerif.Lemmas.C19H.DList
open GoguVerif.Model GoguVerif.Model.DList GoguVerif.Lemmas.C19 GoguVerif.Lemmas.C19.DList
open GoguVerif.Spec.C19 GoguVerif.Lemmas.C19H

/-- the pointer surgery of `InsertAfter` at the `i`-th cell of a chain -/
theorem insertAfterLink_at {h : Heap} {q : Option Nat} {as xs} {v : Int} {i a : Nat}
    (hc : Chain h q as xs) (hnd : as.Nodup) (hi : as[i]? = some a) :
    ∃ nd h', h[a]? = some nd ∧ xs[i]? = some nd.val ∧ insertAfterLink h a nd v = .ok (h', .ok) ∧
      Chain h' q (as.take (i + 1) ++ h.length :: as.drop (i + 1)) (xs.take (i + 1) ++ v :: xs.drop (i + 1)) ∧
      (∀ c, c ∉ as → c < h.length → h'[c]? = h[c]?) := by
  induction as generalizing q xs i with
  | nil => simp at hi
  | cons b r ih =>
    cases xs with
    | nil => simp [Chain] at hc
    | cons y ys =>
      have hlt := hc.lt_length
      simp only [Chain] at hc
      have hbr := (List.nodup_cons.mp hnd).1
      have hndr := (List.nodup_cons.mp hnd).2
      have hb : b < h.length := hlt b (by simp)
      cases i with
      | zero =>
        simp at hi; subst hi
        cases r with
        | nil =>
          cases ys with
          | cons _ _ => simp [Chain] at hc
          | nil =>
            refine ⟨_, (h ++ [(⟨v, none, some b⟩ : Node)]).set b ⟨y, some h.length, q⟩, hc.1, rfl,
              by simp [insertAfterLink], ?_, ?_⟩
            · simp only [Nat.zero_add, List.take_succ_cons, List.drop_succ_cons,
                List.cons_append, List.nil_append, Chain, List.head?_cons, List.take_nil, List.drop_nil]
              refine ⟨?_, ?_, trivial⟩
              · rw [List.getElem?_set_self (by simp; omega)]
              · rw [List.getElem?_set_ne (by omega), List.getElem?_concat_length]
                rfl
            · intro c hc' hcl
              simp at hc'
              rw [List.getElem?_set_ne (fun q => hc' q.symm), List.getElem?_append_left hcl]
        | cons n r' =>
          cases ys with
          | nil => simp [Chain] at hc
          | cons y' ys' =>
            have hc2 := hc.2
            simp only [Chain] at hc2
            have hn : n < h.length := hlt n (by simp)
            have hnb : n ≠ b := fun q => hbr (by simp [q])
            have hnr := (List.nodup_cons.mp hndr).1
            have h1n : ((h ++ [(⟨v, some n, some b⟩ : Node)]).set b ⟨y, some h.length, q⟩)[n]? =
                some ⟨y', r'.head?, some b⟩ := by
              rw [List.getElem?_set_ne (Ne.symm hnb), List.getElem?_append_left hn]
              exact hc2.1
            refine ⟨_, ((h ++ [(⟨v, some n, some b⟩ : Node)]).set b ⟨y, some h.length, q⟩).set n
                ⟨y', r'.head?, some h.length⟩, hc.1, rfl, ?_, ?_, ?_⟩
            · simp only [insertAfterLink, List.head?_cons, load, h1n, ListRes.ok_bind, ListRes.pure_eq]
            · simp only [Nat.zero_add, List.take_succ_cons, List.take_zero, List.drop_succ_cons, List.drop_zero,
                List.cons_append, List.nil_append, Chain, List.head?_cons]
              refine ⟨?_, ?_, ?_, ?_⟩
              · rw [List.getElem?_set_ne hnb, List.getElem?_set_self (by simp; omega)]
              · rw [List.getElem?_set_ne (by omega), List.getElem?_set_ne (by omega),
                  List.getElem?_concat_length]
              · rw [List.getElem?_set_self (by simp; omega)]
              · refine hc2.2.frame (fun d hd => ?_)
                have hdn : d ≠ n := fun q => hnr (q ▸ hd)
                have hdb : d ≠ b := fun q => hbr (by simp [q ▸ hd])
                rw [List.getElem?_set_ne (Ne.symm hdn), List.getElem?_set_ne (Ne.symm hdb),
                  List.getElem?_append_left (hlt d (by simp [hd]))]
            · intro c hc' hcl
              simp only [List.mem_cons, not_or] at hc'
              rw [List.getElem?_set_ne (fun q => hc'.2.1 q.symm),
                List.getElem?_set_ne (fun q => hc'.1 q.symm), List.getElem?_append_left hcl]
      | succ k =>
        simp only [List.getElem?_cons_succ] at hi
        have ham : a ∈ r := List.mem_of_getElem? hi
        have hne : r ≠ [] := by
          intro q; subst q; simp at hi
        obtain ⟨nd, h', hp, hv, hl, hch, hfr⟩ := ih hc.2 hndr hi
        refine ⟨nd, h', hp, by simpa using hv, hl, ?_, ?_⟩
        · simp only [List.take_succ_cons, List.drop_succ_cons, List.cons_append, Chain]
          refine ⟨?_, hch⟩
          rw [hfr b hbr hb, head?_take_insert r k h.length hne]
          exact hc.1
        · intro c hc' hcl
          simp only [List.mem_cons, not_or] at hc'
          exact hfr c hc'.2 hcl

/-- the pointer surgery of `InsertBefore` at the `k`-th cell of the tail `r` of a segment `c :: r` (the node to insert
before is not the first cell of the segment) -/
theorem insertBeforeLink_at {h : Heap} {q : Option Nat} {c : Nat} {r : List Nat} {y : Int}
    {ys : List Int} {v : Int} {k a : Nat} (head : Node)
    (hc : Chain h q (c :: r) (y :: ys)) (hnd : (c :: r).Nodup) (hi : r[k]? = some a) :
    ∃ nd h', h[a]? = some nd ∧ ys[k]? = some nd.val ∧ insertBeforeLink h head a nd v = .ok (h', .ok) ∧
      Chain h' q (c :: (r.take k ++ h.length :: r.drop k)) (y :: (ys.take k ++ v :: ys.drop k)) ∧
      (∀ d, d ∉ c :: r → d < h.length → h'[d]? = h[d]?) := by
  induction r generalizing q c y ys k with
  | nil => simp at hi
  | cons b r' ih =>
    cases ys with
    | nil => simp [Chain] at hc
    | cons z zs =>
      have hlt := hc.lt_length
      simp only [Chain] at hc
      obtain ⟨hcc, hcb, hcr⟩ := hc
      simp only [List.head?_cons] at hcc
      have hcn := (List.nodup_cons.mp hnd).1
      have hndr := (List.nodup_cons.mp hnd).2
      have hbr := (List.nodup_cons.mp hndr).1
      have hlc : c < h.length := hlt c (by simp)
      have hlb : b < h.length := hlt b (by simp)
      have hcb' : c ≠ b := fun q => hcn (by simp [q])
      cases k with
      | zero =>
        simp at hi; subst hi
        have h1c : ((h ++ [(⟨v, some b, some c⟩ : Node)]).set b ⟨z, r'.head?, some h.length⟩)[c]? =
            some ⟨y, some b, q⟩ := by
          rw [List.getElem?_set_ne (Ne.symm hcb'), List.getElem?_append_left hlc]
          exact hcc
        refine ⟨_, ((h ++ [(⟨v, some b, some c⟩ : Node)]).set b ⟨z, r'.head?, some h.length⟩).set c
            ⟨y, some h.length, q⟩, hcb, rfl, ?_, ?_, ?_⟩
        · simp only [insertBeforeLink, load, h1c, ListRes.ok_bind, ListRes.pure_eq]
        · simp only [List.take_zero, List.drop_zero, List.nil_append, Chain, List.head?_cons]
          refine ⟨?_, ?_, ?_, ?_⟩
          · rw [List.getElem?_set_self (by simp; omega)]
          · rw [List.getElem?_set_ne (by omega), List.getElem?_set_ne (by omega),
              List.getElem?_concat_length]
          · rw [List.getElem?_set_ne hcb', List.getElem?_set_self (by simp; omega)]
          · refine hcr.frame (fun d hd => ?_)
            have hdb : d ≠ b := fun q => hbr (q ▸ hd)
            have hdc : d ≠ c := fun q => hcn (by simp [q ▸ hd])
            rw [List.getElem?_set_ne (Ne.symm hdc), List.getElem?_set_ne (Ne.symm hdb),
              List.getElem?_append_left (hlt d (by simp [hd]))]
        · intro d hd hdl
          simp only [List.mem_cons, not_or] at hd
          rw [List.getElem?_set_ne (fun q => hd.1 q.symm),
            List.getElem?_set_ne (fun q => hd.2.1 q.symm), List.getElem?_append_left hdl]
      | succ k' =>
        simp only [List.getElem?_cons_succ] at hi
        obtain ⟨nd, h', hp, hv, hl, hch, hfr⟩ := ih (q := some c) (c := b) (y := z) (ys := zs)
          (by simp only [Chain]; exact ⟨hcb, hcr⟩) hndr hi
        refine ⟨nd, h', hp, by simpa using hv, hl, ?_, ?_⟩
        · simp only [List.take_succ_cons, List.drop_succ_cons, List.cons_append]
          simp only [Chain] at hch ⊢
          refine ⟨?_, hch⟩
          rw [hfr c hcn hlc]
          exact hcc
        · intro d hd hdl
          simp only [List.mem_cons, not_or] at hd
          exact hfr d (by simp only [List.mem_cons, not_or]; exact hd.2) hdl

/-- the unlinking at the end of `Delete`, at the `k`-th cell of the tail `r` of a segment `c :: r` -/
theorem deleteUnlink_at {h : Heap} {q : Option Nat} {c : Nat} {r : List Nat} {y : Int}
    {ys : List Int} {k a : Nat}
    (hc : Chain h q (c :: r) (y :: ys)) (hnd : (c :: r).Nodup) (hi : r[k]? = some a) :
    ∃ nd h', h[a]? = some nd ∧ ys[k]? = some nd.val ∧ deleteUnlink h a nd = .ok (h', .ok) ∧
      Chain h' q (c :: r.eraseIdx k) (y :: ys.eraseIdx k) ∧
      (∀ d, d ∉ c :: r → h'[d]? = h[d]?) := by
  induction r generalizing q c y ys k with
  | nil => simp at hi
  | cons b r' ih =>
    cases ys with
    | nil => simp [Chain] at hc
    | cons z zs =>
      have hlt := hc.lt_length
      simp only [Chain] at hc
      obtain ⟨hcc, hcb, hcr⟩ := hc
      simp only [List.head?_cons] at hcc
      have hcn := (List.nodup_cons.mp hnd).1
      have hndr := (List.nodup_cons.mp hnd).2
      have hbr := (List.nodup_cons.mp hndr).1
      have hlc : c < h.length := hlt c (by simp)
      have hlb : b < h.length := hlt b (by simp)
      have hcb' : c ≠ b := fun q => hcn (by simp [q])
      cases k with
      | zero =>
        simp at hi; subst hi
        cases r' with
        | nil =>
          cases zs with
          | cons _ _ => simp [Chain] at hcr
          | nil =>
            simp only [List.head?_nil] at hcb
            refine ⟨_, h.set c ⟨y, none, q⟩, hcb, rfl, ?_, ?_, ?_⟩
            · simp [deleteUnlink, load, hcb, hcc]
            · simp only [List.eraseIdx_zero, List.tail_cons, Chain, List.head?_nil]
              exact ⟨List.getElem?_set_self hlc, trivial⟩
            · intro d hd
              simp only [List.mem_cons, not_or] at hd
              exact List.getElem?_set_ne (fun q => hd.1 q.symm)
        | cons n r'' =>
          cases zs with
          | nil => simp [Chain] at hcr
          | cons z' zs' =>
            simp only [Chain] at hcr
            simp only [List.head?_cons] at hcb
            have hnr := (List.nodup_cons.mp (List.nodup_cons.mp hndr).2).1
            have hnb : n ≠ b := fun q => hbr (by simp [q])
            have hnc : n ≠ c := fun q => hcn (by simp [q])
            have hln : n < h.length := hlt n (by simp)
            have e1 : (h.set n ⟨z', r''.head?, some c⟩)[b]? = some ⟨z, some n, some c⟩ := by
              rw [List.getElem?_set_ne hnb]; exact hcb
            have e2 : (h.set n ⟨z', r''.head?, some c⟩)[c]? = some ⟨y, some b, q⟩ := by
              rw [List.getElem?_set_ne hnc]; exact hcc
            refine ⟨_, (h.set n ⟨z', r''.head?, some c⟩).set c ⟨y, some n, q⟩, hcb, rfl, ?_, ?_, ?_⟩
            · simp [deleteUnlink, load, hcr.1, e1, e2]
            · simp only [List.eraseIdx_zero, List.tail_cons, Chain, List.head?_cons]
              refine ⟨?_, ?_, ?_⟩
              · rw [List.getElem?_set_self (by simpa using hlc)]
              · rw [List.getElem?_set_ne (Ne.symm hnc), List.getElem?_set_self hln]
              · refine hcr.2.frame (fun d hd => ?_)
                have hdn : d ≠ n := fun q => hnr (q ▸ hd)
                have hdc : d ≠ c := fun q => hcn (by simp [q ▸ hd])
                rw [List.getElem?_set_ne (Ne.symm hdc), List.getElem?_set_ne (Ne.symm hdn)]
            · intro d hd
              simp only [List.mem_cons, not_or] at hd
              rw [List.getElem?_set_ne (fun q => hd.1 q.symm),
                List.getElem?_set_ne (fun q => hd.2.2.1 q.symm)]
      | succ k' =>
        simp only [List.getElem?_cons_succ] at hi
        obtain ⟨nd, h', hp, hv, hl, hch, hfr⟩ := ih (q := some c) (c := b) (y := z) (ys := zs)
          (by simp only [Chain]; exact ⟨hcb, hcr⟩) hndr hi
        refine ⟨nd, h', hp, by simpa using hv, hl, ?_, ?_⟩
        · simp only [List.eraseIdx_cons_succ]
          simp only [Chain] at hch ⊢
          refine ⟨?_, hch⟩
          rw [hfr c hcn]
          exact hcc
        · intro d hd
          simp only [List.mem_cons, not_or] at hd
          exact hfr d (by simp only [List.mem_cons, not_or]; exact hd.2)


/-! ## whole methods, the handle being the `i`-th cell -/

/-- `Find` succeeds for the value at any position (the guard of `Delete`/`InsertAfter`/`InsertBefore`) -/
theorem find_at {h : Heap} {as xs} (r : Repr h as xs) {i : Nat} {x : Int} (hx : xs[i]? = some x) :
    ∃ b, find h x = .ok (some b) := by
  have hm : x ∈ xs := List.mem_of_getElem? hx
  have hsome := addrOf_isSome (x := x) r.chain.length_eq
  have hf := find_repr r x
  cases e : addrOf x as xs with
  | none => simp [e, hm] at hsome
  | some b => exact ⟨b, by rw [hf, e]⟩

theorem insertAfterAt_repr {h : Heap} {as xs} {i a : Nat} (r : Repr h as xs) (hi : as[i]? = some a) (v : Int) :
    ∃ h', insertAfter h (some a) v = .ok (h', .ok) ∧
      Repr h' (as.take (i + 1) ++ h.length :: as.drop (i + 1)) (xs.take (i + 1) ++ v :: xs.drop (i + 1)) := by
  obtain ⟨nd, h', hp, hv, hl, hch, _⟩ := insertAfterLink_at (v := v) r.chain r.nodup hi
  obtain ⟨b, hf⟩ := find_at r hv
  have hlt := r.chain.lt_length
  have hne : as ≠ [] := by
    intro q; subst q; simp at hi
  refine ⟨h', ?_, ⟨?_, ?_, hch⟩⟩
  · simp [DList.insertAfter, load, hp, hf, hl]
  · rw [head?_take_insert as i h.length hne]; exact r.head
  · exact nodup_take_insert (i + 1) h.length r.nodup (fun q => by have := hlt _ q; omega)

/-- `InsertBefore` the head with the address list made explicit: the new value is written into the embedded head, the
old first element moves to the fresh cell `h.length + 1` (the copy `head`), the cell `h.length` (`newNode`) is garbage -/
theorem insertBeforeLink_head' {h : Heap} {as' : List Nat} {x v : Int} {xs' : List Int}
    (r : Repr h (0 :: as') (x :: xs')) :
    ∃ h', insertBeforeLink h ⟨x, as'.head?, none⟩ 0 ⟨x, as'.head?, none⟩ v = .ok (h', .ok) ∧
      Repr h' (0 :: (h.length + 1) :: as') (v :: x :: xs') := by
  obtain ⟨as1, x1, xs1, e1, e2, h0, hc, hnot, hnd⟩ := r.cons
  simp at e1 e2
  obtain ⟨rfl, rfl⟩ := e2
  subst e1
  have hl0 : 0 < h.length := lt_of_get h0
  have hlt := hc.lt_length
  let new := h.length
  let ahead := h.length + 1
  let hfin : Heap :=
    ((((h ++ [(⟨v, some 0, none⟩ : Node)]).set 0 ⟨x, as'.head?, some new⟩) ++ [(⟨x, as'.head?, none⟩ : Node)]).set
      new ⟨v, some ahead, none⟩).set 0 ⟨v, some ahead, none⟩
  have hnd' : (0 :: ahead :: as').Nodup := by
    refine List.nodup_cons.mpr ⟨?_, List.nodup_cons.mpr ⟨?_, hnd⟩⟩
    · simp only [List.mem_cons, not_or]
      exact ⟨by simp [ahead], hnot⟩
    · intro hm
      have := hlt _ hm
      simp only [ahead] at this
      omega
  have hL : LChain hfin 3 none (0 :: ahead :: as') (v :: x :: xs') := by
    simp only [LChain]
    refine ⟨⟨none, ?_⟩, ⟨none, ?_⟩, ?_⟩
    · simp only [hfin]
      rw [List.getElem?_set_self (by simp)]
      rfl
    · simp only [hfin, ahead, new]
      rw [List.getElem?_set_ne (by omega), List.getElem?_set_ne (by omega)]
      have : (((h ++ [(⟨v, some 0, none⟩ : Node)]).set 0 ⟨x, as'.head?, some h.length⟩)).length = h.length + 1 := by
        simp
      rw [← this, List.getElem?_concat_length]
    · refine LChain.weaken (p := some 0) (Chain.toL (hc.frame (fun b hb => ?_)))
      have hb0 : b ≠ 0 := fun e => hnot (e ▸ hb)
      have hbl := hlt b hb
      simp only [hfin, ahead, new]
      rw [List.getElem?_set_ne (Ne.symm hb0), List.getElem?_set_ne (by omega),
        List.getElem?_append_left (by simp; omega), List.getElem?_set_ne (Ne.symm hb0),
        List.getElem?_append_left hbl]
  obtain ⟨h', hr, hrep⟩ := relink_chain hnd' rfl hL
  refine ⟨h', ?_, hrep⟩
  have e1 : ((h ++ [(⟨v, some 0, none⟩ : Node)]).set 0 ⟨x, as'.head?, some h.length⟩ ++
      [(⟨x, as'.head?, none⟩ : Node)])[h.length]? = some ⟨v, some 0, none⟩ := by
    rw [List.getElem?_append_left (by simp), List.getElem?_set_ne (by omega), List.getElem?_concat_length]
  have e2 : (((h ++ [(⟨v, some 0, none⟩ : Node)]).set 0 ⟨x, as'.head?, some h.length⟩ ++
      [(⟨x, as'.head?, none⟩ : Node)]).set h.length ⟨v, some (h.length + 1), none⟩)[h.length]? =
      some ⟨v, some (h.length + 1), none⟩ := by
    rw [List.getElem?_set_self (by simp only [List.length_set, List.length_append, List.length_cons, List.length_nil]; omega)]
  simp only [insertBeforeLink, load, List.length_set, List.length_append, List.length_cons,
    List.length_nil, Nat.zero_add, e1, ListRes.ok_bind, e2]
  simp only [hfin, ahead, new] at hr
  rw [hr]
  rfl

/-- the address list after `InsertBefore` the `i`-th cell (`n` = size of the store before) -/
def insBeforeAddrs (i n : Nat) (as : List Nat) : List Nat :=
  if i = 0 then as.take 1 ++ (n + 1) :: as.drop 1 else as.take i ++ n :: as.drop i

theorem insertBeforeAt_repr {h : Heap} {as xs} {i a : Nat} (r : Repr h as xs) (hi : as[i]? = some a) (v : Int) :
    ∃ h', insertBefore h (some a) v = .ok (h', .ok) ∧
      Repr h' (insBeforeAddrs i h.length as) (xs.take i ++ v :: xs.drop i) := by
  obtain ⟨as', y, xs', rfl, rfl, h0, hc, hnot, hnd⟩ := r.cons
  have hlt := r.chain.lt_length
  cases i with
  | zero =>
    simp at hi; subst hi
    obtain ⟨h', hl, hrep⟩ := insertBeforeLink_head' (v := v) r
    obtain ⟨b, hf⟩ := find_at (i := 0) (x := y) r (by simp)
    refine ⟨h', ?_, ?_⟩
    · simp [DList.insertBefore, load, h0, hf, hl]
    · simpa [insBeforeAddrs] using hrep
  | succ k =>
    simp only [List.getElem?_cons_succ] at hi
    obtain ⟨nd, h', hp, hv, hl, hch, _⟩ :=
      insertBeforeLink_at (v := v) ⟨y, as'.head?, none⟩ r.chain r.nodup hi
    obtain ⟨b, hf⟩ := find_at (i := k + 1) r (by simpa using hv)
    refine ⟨h', ?_, ⟨?_, ?_, ?_⟩⟩
    · simp [DList.insertBefore, load, h0, hp, hf, hl]
    · simp [insBeforeAddrs]
    · have := nodup_take_insert (k + 1) h.length r.nodup (fun q => by have := hlt _ q; omega)
      simpa [insBeforeAddrs] using this
    · simpa [insBeforeAddrs] using hch

/-- the address list after `Delete` of the `i`-th cell: that cell disappears — or, for the embedded head, the SECOND
cell (its contents are copied into the head) -/
def delAddrs (i : Nat) (as : List Nat) : List Nat :=
  if as.length ≤ 1 then as else if i = 0 then as.eraseIdx 1 else as.eraseIdx i

theorem deleteAt_repr {h : Heap} {as xs} {i a : Nat} (r : Repr h as xs) (hi : as[i]? = some a) :
    ∃ h', delete h (some a) = .ok (h', if xs.length > 1 then .ok else .err) ∧
      Repr h' (delAddrs i as) (if xs.length > 1 then xs.eraseIdx i else xs) := by
  obtain ⟨as', y, xs', rfl, rfl, h0, hc, hnot, hnd⟩ := r.cons
  have hleq := hc.length_eq
  cases i with
  | zero =>
    simp at hi; subst hi
    obtain ⟨b, hf⟩ := find_at (i := 0) (x := y) r (by simp)
    cases as' with
    | nil =>
      cases xs' with
      | cons _ _ => simp [Chain] at hc
      | nil =>
        refine ⟨h, ?_, by simpa [delAddrs] using r⟩
        simp at h0
        simp [delete, load, h0, hf]
    | cons b' bs =>
      cases xs' with
      | nil => simp [Chain] at hc
      | cons z zs =>
        obtain ⟨bn, h', hb, hr, hrep⟩ := takeover_head r
        refine ⟨h', ?_, by simpa [delAddrs] using hrep⟩
        simp only [List.head?_cons] at h0
        simp [delete, ListRes.deref, load, h0, hf, hb, hr]
  | succ k =>
    simp only [List.getElem?_cons_succ] at hi
    obtain ⟨nd, h', hp, hv, hl, hch, _⟩ := deleteUnlink_at r.chain r.nodup hi
    obtain ⟨b, hf⟩ := find_at (i := k + 1) r (by simpa using hv)
    have ham : a ∈ as' := List.mem_of_getElem? hi
    have hne : ¬ (0 = a) := by
      intro q; subst q; exact hnot ham
    have hnext : ¬ as' = [] := by
      intro q; subst q; simp at ham
    have hl1 : (y :: xs').length > 1 := by
      cases as' with
      | nil => simp at ham
      | cons _ _ => simp at hleq ⊢; omega
    have hal : ¬ (0 :: as').length ≤ 1 := by
      cases as' with
      | nil => simp at ham
      | cons _ _ => simp
    have hxne : ¬ xs' = [] := by
      intro q; subst q; simp at hv
    refine ⟨h', ?_, ⟨?_, ?_, ?_⟩⟩
    · simp [delete, load, hp, hf, h0, hnext, hne, hl, hxne]
    · simp [delAddrs, hnext]
    · simp only [delAddrs, if_neg hal]
      exact (List.eraseIdx_sublist _ _).nodup r.nodup
    · simp only [delAddrs, if_neg hal, if_pos hl1]
      simpa using hch

/-! ## the plain operations with the address list made explicit -/

/-- `Unshift`: the new value is written into the embedded head, the old first element moves to the fresh cell -/
theorem unshift_repr' {h : Heap} {as xs} (r : Repr h as xs) (v : Int) :
    ∃ h', unshift h v = .ok h' ∧ Repr h' (as.take 1 ++ h.length :: as.drop 1) (v :: xs) := by
  obtain ⟨as', x, xs', rfl, rfl, h0, hc, hnot, hnd⟩ := r.cons
  have hl0 : 0 < h.length := lt_of_get h0
  have hlt := hc.lt_length
  have hnd' : (0 :: h.length :: as').Nodup := by
    refine List.nodup_cons.mpr ⟨?_, List.nodup_cons.mpr ⟨?_, hnd⟩⟩
    · simp only [List.mem_cons, not_or]
      exact ⟨by omega, hnot⟩
    · intro hm
      have := hlt _ hm
      omega
  have hL : LChain ((h ++ [(⟨x, as'.head?, none⟩ : Node)]).set 0 ⟨v, some h.length, none⟩) 3 none
      (0 :: h.length :: as') (v :: x :: xs') := by
    simp only [LChain]
    refine ⟨⟨none, ?_⟩, ⟨none, ?_⟩, ?_⟩
    · rw [List.getElem?_set_self (by simp)]
      rfl
    · rw [List.getElem?_set_ne (by omega), List.getElem?_concat_length]
    · refine LChain.weaken (Chain.toL (hc.frame (fun b hb => ?_)))
      have hb0 : b ≠ 0 := fun e => hnot (e ▸ hb)
      rw [List.getElem?_set_ne (fun e => hb0 e.symm), List.getElem?_append_left (hlt b hb)]
  obtain ⟨h', hr, hrep⟩ := relink_chain hnd' rfl hL
  exact ⟨h', by simpa [unshift, load, h0] using hr, by simpa using hrep⟩

theorem append_repr' {h : Heap} {as xs} (r : Repr h as xs) (v : Int) :
    ∃ h', append h v = .ok h' ∧ Repr h' (as ++ [h.length]) (xs ++ [v]) := by
  have hlen := r.chain.length_le r.nodup
  have hlt := r.chain.lt_length
  obtain ⟨as', x, xs', rfl, rfl, h0, hc, hnot, hnd⟩ := r.cons
  have hla := lastAddr_chain r.chain (h.length + 1) (by simp at hlen; omega)
  obtain ⟨n, hn, hnn, hch⟩ := Chain.snoc v (by simp) r.nodup r.chain
  refine ⟨(h ++ [(⟨v, none, some ((0 :: as').getLast (by simp))⟩ : Node)]).set ((0 :: as').getLast (by simp))
      { n with next := some h.length }, ?_, ⟨rfl, ?_, hch⟩⟩
  · simp only [append, load, h0, ListRes.ok_bind]
    split
    · simp only [set_self h0, hla, hn, hnn, ListRes.ok_bind, ListRes.pure_eq]
    · simp only [hla, hn, hnn, ListRes.ok_bind, ListRes.pure_eq]
  · rw [List.nodup_append]
    refine ⟨r.nodup, by simp, ?_⟩
    intro a ha b hb
    simp at hb
    have := hlt a ha
    omega

/-- `Shift`: the SECOND cell disappears (its contents move into the head); on a one-element list the value is reset -/
theorem shift_repr' {h : Heap} {as xs} (r : Repr h as xs) :
    ∃ h' n, shift h = .ok (h', n) ∧ n.val = xs.head?.getD 0 ∧
      Repr h' (if xs.length > 1 then as.eraseIdx 1 else as) (if xs.length > 1 then xs.tail else [0]) := by
  obtain ⟨as', x, xs', rfl, rfl, h0, hc, hnot, hnd⟩ := r.cons
  have hl0 : 0 < h.length := lt_of_get h0
  cases as' with
  | nil =>
    cases xs' with
    | cons _ _ => simp [Chain] at hc
    | nil =>
      refine ⟨h.set 0 ⟨0, none, none⟩, ⟨x, none, none⟩, ?_, rfl, ?_⟩
      · simp at h0
        simp [shift, load, h0]
      · refine ⟨rfl, by simp, ?_⟩
        simp only [List.length_cons, List.length_nil, Nat.zero_add, gt_iff_lt, Nat.lt_irrefl, if_false, Chain,
          List.head?_nil]
        exact ⟨List.getElem?_set_self hl0, trivial⟩
  | cons b bs =>
    cases xs' with
    | nil => simp [Chain] at hc
    | cons y ys =>
      obtain ⟨bn, h', hb, hr, hrep⟩ := takeover_head r
      refine ⟨h', ⟨x, some b, none⟩, ?_, rfl, by simpa using hrep⟩
      simp only [List.head?_cons] at h0
      simp [shift, load, h0, hb, hr]

theorem pop_repr' {h : Heap} {as xs} (r : Repr h as xs) :
    ∃ h' n, pop h = .ok (h', n) ∧
      Repr h' (if xs.length > 1 then as.dropLast else as) (if xs.length > 1 then xs.dropLast else xs) := by
  have hlen := r.chain.length_le r.nodup
  obtain ⟨as', x, xs', rfl, rfl, h0, hc, hnot, hnd⟩ := r.cons
  cases as' with
  | nil =>
    cases xs' with
    | cons _ _ => simp [Chain] at hc
    | nil => exact ⟨h, ⟨0, none, none⟩, by simp [pop, load, h0], by simpa using r⟩
  | cons b bs =>
    cases xs' with
    | nil => simp [Chain] at hc
    | cons y ys =>
      obtain ⟨t, tn, nd, hp, ht, htm, hval, hch⟩ := popLoop_chain ⟨x, some b, none⟩ rfl r.chain r.nodup
        (h.length + 1) (by simp at hlen; omega)
      have hl : (x :: y :: ys).length > 1 := by simp only [List.length_cons]; omega
      refine ⟨h.set t { tn with next := none }, nd, ?_, ?_⟩
      · simp only [List.head?_cons] at h0
        simp only [pop, load, h0, ListRes.ok_bind, hp, ht, ListRes.pure_eq]
      · rw [if_pos hl, if_pos hl]
        exact ⟨by simp [List.dropLast], (List.dropLast_sublist _).nodup r.nodup, by simpa using hch⟩

/-- following a position through "the last cell disappears" (`Pop`) -/
theorem pop_tracks {l : List Nat} {n k b j : Nat} (hk : l[k]? = some b) (hn : n = l.length) (hl : 1 < n)
    (hm : moveIdx true (.del (n - 1)) k = some j) : l.dropLast[j]? = some b := by
  rw [← eraseIdx_last l (n - 1) (by omega)]
  exact del_tracks_double hk (by omega) hm

end GoguVerif.Lemmas.C19H.DList
