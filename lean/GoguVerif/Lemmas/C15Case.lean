import GoguVerif.Lemmas.C15
/-!
# C15 — helper lemmas for the case styles on the stated (ASCII) domain
-/
namespace GoguVerif.Lemmas.C15
open GoguVerif.Go.Utf8 GoguVerif.Model.C15 GoguVerif.Spec.C15

/-- Hypothesis on the case tables: on ASCII letters and digits they are the ASCII case mapping. -/
def AsciiTable (lo up : Rune → Rune) : Prop :=
  ∀ b : UInt8, isAlnum b = true → lo b.toNat = (lowerB b).toNat ∧ up b.toNat = (upperB b).toNat

/-! ### byte facts -/

theorem isAlnum_iff (b : UInt8) : isAlnum b = true ↔
    (0x30 ≤ b.toNat ∧ b.toNat ≤ 0x39) ∨ (0x41 ≤ b.toNat ∧ b.toNat ≤ 0x5A) ∨ (0x61 ≤ b.toNat ∧ b.toNat ≤ 0x7A) := by
  simp [isAlnum, isDigit, isUpper, isLower, or_assoc]

theorem isUpper_iff (b : UInt8) : isUpper b = true ↔ (0x41 ≤ b.toNat ∧ b.toNat ≤ 0x5A) := by
  simp [isUpper]

theorem isLower_iff (b : UInt8) : isLower b = true ↔ (0x61 ≤ b.toNat ∧ b.toNat ≤ 0x7A) := by
  simp [isLower]

theorem isDigit_iff (b : UInt8) : isDigit b = true ↔ (0x30 ≤ b.toNat ∧ b.toNat ≤ 0x39) := by
  simp [isDigit]

theorem lowerB_toNat (b : UInt8) : (lowerB b).toNat = if isUpper b = true then b.toNat + 32 else b.toNat := by
  unfold lowerB
  split
  · rename_i h
    rw [isUpper_iff] at h
    rw [UInt8.toNat_add]
    have : (32 : UInt8).toNat = 32 := rfl
    omega
  · rfl

theorem upperB_toNat (b : UInt8) : (upperB b).toNat = if isLower b = true then b.toNat - 32 else b.toNat := by
  unfold upperB
  split
  · rename_i h
    rw [isLower_iff] at h
    rw [UInt8.toNat_sub]
    have : (32 : UInt8).toNat = 32 := rfl
    omega
  · rfl

/-- a word: only ASCII letters and digits -/
def Word (w : Str) : Prop := ∀ b ∈ w, isAlnum b = true

theorem Word.nil : Word [] := fun _ h => nomatch h
theorem Word.tail {b : UInt8} {w : Str} (h : Word (b :: w)) : Word w := fun c hc => h c (List.mem_cons_of_mem _ hc)
theorem Word.head {b : UInt8} {w : Str} (h : Word (b :: w)) : isAlnum b = true := h b (List.mem_cons_self)
theorem Word.append {u v : Str} (hu : Word u) (hv : Word v) : Word (u ++ v) := by
  intro b hb
  rcases List.mem_append.mp hb with h | h
  · exact hu b h
  · exact hv b h

/-! ### ASCII strings under the rune functions -/

theorem decodeRune_ascii (b : UInt8) (rest : Str) (h : b.toNat < 0x80) : decodeRune b rest = (b.toNat, 1) := by
  unfold decodeRune
  simp [h]

theorem rangeAux_ascii (s : Str) (h : ∀ b ∈ s, b.toNat < 0x80) (i : Nat) :
    (rangeAux i 0 s).map (·.2) = s.map (·.toNat) := by
  induction s generalizing i with
  | nil => rfl
  | cons b rest ih =>
    have hb := h b List.mem_cons_self
    simp only [rangeAux, decodeRune_ascii b rest hb, List.map_cons]
    rw [ih (fun c hc => h c (List.mem_cons_of_mem _ hc))]

theorem runes_ascii (s : Str) (h : ∀ b ∈ s, b.toNat < 0x80) : runes s = s.map (·.toNat) :=
  rangeAux_ascii s h 0

theorem Word.ascii {w : Str} (h : Word w) : ∀ b ∈ w, b.toNat < 0x80 := by
  intro b hb
  have := (isAlnum_iff b).mp (h b hb)
  omega

theorem runes_length_word {w : Str} (h : Word w) : (runes w).length = w.length := by
  rw [runes_ascii w h.ascii, List.length_map]

theorem encodeRune_byte (b : UInt8) (h : b.toNat < 0x80) : encodeRune b.toNat = [b] := by
  unfold encodeRune
  rw [if_pos h]
  simp [Nat.toUInt8]

theorem lowerB_lt {b : UInt8} (h : isAlnum b = true) : (lowerB b).toNat < 0x80 := by
  rw [lowerB_toNat]
  have := (isAlnum_iff b).mp h
  split
  · rename_i hu; rw [isUpper_iff] at hu; omega
  · omega

theorem upperB_lt {b : UInt8} (h : isAlnum b = true) : (upperB b).toNat < 0x80 := by
  rw [upperB_toNat]
  have := (isAlnum_iff b).mp h
  split <;> omega

theorem toLower_word {lo up : Rune → Rune} (ht : AsciiTable lo up) {w : Str} (h : Word w) :
    toLower lo w = w.map lowerB := by
  rw [toLower_eq_spec_aux, lowerSpec, runes_ascii w h.ascii]
  induction w with
  | nil => rfl
  | cons b rest ih =>
    simp only [List.map_cons, encodeAll, List.flatMap_cons]
    rw [(ht b h.head).1, encodeRune_byte _ (lowerB_lt h.head)]
    have := ih h.tail
    simp only [encodeAll] at this
    rw [this]
    rfl

theorem capitalize_word {lo up : Rune → Rune} (ht : AsciiTable lo up) {c : UInt8} {t : Str} (h : Word (c :: t)) :
    capitalize lo up (c :: t) = upperB c :: t.map lowerB := by
  rw [capitalize_eq_spec_aux, capSpec, runes_ascii _ h.ascii]
  simp only [List.map_cons, encodeAll, List.flatMap_cons]
  rw [(ht c h.head).2, encodeRune_byte _ (upperB_lt h.head)]
  have := toLower_word ht h.tail
  rw [toLower_eq_spec_aux, lowerSpec, runes_ascii t h.tail.ascii] at this
  simp only [encodeAll] at this
  rw [this]
  rfl

/-! ### TrimSpace is the identity on a string that starts and ends with a letter or digit -/

theorem not_isSpace_alnum {b : UInt8} (h : isAlnum b = true) : isSpace b.toNat = false := by
  have := (isAlnum_iff b).mp h
  simp only [isSpace, Bool.or_eq_false_iff, Bool.and_eq_false_iff, decide_eq_false_iff_not, beq_eq_false_iff_ne,
    ne_eq, Nat.not_le]
  omega

theorem trimLeft_alnum (fuel : Nat) (b : UInt8) (rest : Str) (h : isAlnum b = true) :
    trimLeft fuel (b :: rest) = b :: rest := by
  cases fuel with
  | zero => rfl
  | succ f =>
    have ha : b.toNat < 0x80 := by have := (isAlnum_iff b).mp h; omega
    simp [trimLeft, decodeRune_ascii b rest ha, not_isSpace_alnum h]

theorem trimRight_alnum (fuel : Nat) (s : Str) (z : UInt8) (hz : s.getLast? = some z) (h : isAlnum z = true) :
    trimRight fuel s = s := by
  cases fuel with
  | zero => rfl
  | succ f =>
    have ha : z.toNat < 0x80 := by have := (isAlnum_iff z).mp h; omega
    simp [trimRight, hz, decodeLastRune, ha, not_isSpace_alnum h]

theorem trimSpace_nil : trimSpace [] = [] := by decide

theorem trimSpace_dom (b : UInt8) (rest : Str) (z : UInt8) (hb : isAlnum b = true)
    (hz : (b :: rest).getLast? = some z) (hza : isAlnum z = true) : trimSpace (b :: rest) = b :: rest := by
  unfold trimSpace
  simp only []
  rw [trimLeft_alnum _ b rest hb, trimRight_alnum _ _ z hz hza]

/-! ### the separator scanner and the split -/

theorem isSep_of_alnum {b : UInt8} (h : isAlnum b = true) : isSep b = false := by
  have := (isAlnum_iff b).mp h
  have e1 : (0x2D : UInt8).toNat = 0x2D := rfl
  have e2 : (0x5F : UInt8).toNat = 0x5F := rfl
  have e3 : (0x26 : UInt8).toNat = 0x26 := rfl
  simp only [isSep, Bool.or_eq_false_iff, beq_eq_false_iff_ne, ne_eq]
  refine ⟨⟨?_, ?_⟩, ?_⟩ <;> intro e <;> subst e <;> omega

theorem not_space_of_alnum {b : UInt8} (h : isAlnum b = true) : (b == 0x20) = false := by
  have := (isAlnum_iff b).mp h
  have e1 : (0x20 : UInt8).toNat = 0x20 := rfl
  simp only [beq_eq_false_iff_ne, ne_eq]
  intro e; subst e; omega

/-- every byte is a letter, a digit or one of the four separators -/
def DomBytes (s : Str) : Prop := ∀ b ∈ s, isAlnum b = true ∨ isSepB b = true

theorem DomBytes.tail {b : UInt8} {s : Str} (h : DomBytes (b :: s)) : DomBytes s :=
  fun c hc => h c (List.mem_cons_of_mem _ hc)

theorem isSepB_cases {b : UInt8} (h : isSepB b = true) : b = 0x20 ∨ isSep b = true := by
  simp only [isSepB, Bool.or_eq_true, beq_iff_eq] at h
  simp only [isSep, Bool.or_eq_true, beq_iff_eq]
  rcases h with ((h | h) | h) | h
  · exact Or.inl h
  · exact Or.inr (Or.inl (Or.inl h))
  · exact Or.inr (Or.inl (Or.inr h))
  · exact Or.inr (Or.inr h)

/-- after the replacement: only letters, digits and spaces; the letters and digits are untouched -/
theorem replaceSeps_spec (s : Str) (h : DomBytes s) (f : Bool) :
    (∀ b ∈ replaceSeps f s, isAlnum b = true ∨ b = 0x20) ∧
    (replaceSeps f s).filter isAlnum = s.filter isAlnum := by
  induction s generalizing f with
  | nil => simp [replaceSeps]
  | cons b rest ih =>
    have ihr := fun f => ih h.tail f
    rcases h b List.mem_cons_self with ha | hs
    · have hns := isSep_of_alnum ha
      simp only [replaceSeps, hns, Bool.false_eq_true, if_false]
      constructor
      · intro c hc
        rcases List.mem_cons.mp hc with rfl | hc
        · exact Or.inl ha
        · exact (ihr false).1 c hc
      · simp [ha, (ihr false).2]
    · have hna : isAlnum b = false := by
        rcases isSepB_cases hs with rfl | hsep
        · decide
        · cases hb : isAlnum b with
          | false => rfl
          | true => rw [isSep_of_alnum hb] at hsep; exact absurd hsep (by decide)
      rcases isSepB_cases hs with rfl | hsep
      · have : isSep 0x20 = false := by decide
        simp only [replaceSeps, this, Bool.false_eq_true, if_false]
        constructor
        · intro c hc
          rcases List.mem_cons.mp hc with rfl | hc
          · exact Or.inr rfl
          · exact (ihr false).1 c hc
        · simp [hna, (ihr false).2]
      · simp only [replaceSeps, hsep, if_true]
        cases f with
        | true =>
          simp only [if_true]
          exact ⟨(ihr true).1, by simp [hna, (ihr true).2]⟩
        | false =>
          simp only [Bool.false_eq_true, if_false]
          constructor
          · intro c hc
            rcases List.mem_cons.mp hc with rfl | hc
            · exact Or.inr rfl
            · exact (ihr true).1 c hc
          · have h20 : isAlnum 0x20 = false := by decide
            simp [hna, h20, (ihr true).2]

theorem replaceSeps_snoc (s : Str) (z : UInt8) (hz : isSep z = false) (f : Bool) :
    replaceSeps f (s ++ [z]) = replaceSeps f s ++ [z] := by
  induction s generalizing f with
  | nil => simp [replaceSeps, hz]
  | cons b rest ih =>
    simp only [List.cons_append, replaceSeps]
    split
    · split <;> simp [ih]
    · simp [ih]

/-- the pieces of the split are words, and together they are the letters and digits of the input -/
theorem splitSpace_spec (t : Str) (h : ∀ b ∈ t, isAlnum b = true ∨ b = 0x20) (cur : Str) (hc : Word cur) :
    (∀ w ∈ splitSpace cur t, Word w) ∧ (splitSpace cur t).flatten = cur ++ t.filter isAlnum := by
  induction t generalizing cur with
  | nil => simp [splitSpace]; exact hc
  | cons b rest ih =>
    have hr : ∀ b ∈ rest, isAlnum b = true ∨ b = 0x20 := fun c hc => h c (List.mem_cons_of_mem _ hc)
    rcases h b List.mem_cons_self with ha | rfl
    · simp only [splitSpace, not_space_of_alnum ha, Bool.false_eq_true, if_false]
      have hw : Word (cur ++ [b]) := hc.append (fun c hc => by simp at hc; subst hc; exact ha)
      refine ⟨(ih hr _ hw).1, ?_⟩
      rw [(ih hr _ hw).2]
      simp [ha]
    · have h20 : isAlnum 0x20 = false := by decide
      simp only [splitSpace, beq_self_eq_true, if_true]
      constructor
      · intro w hw
        rcases List.mem_cons.mp hw with rfl | hw
        · exact hc
        · exact (ih hr [] Word.nil).1 w hw
      · simp [h20, (ih hr [] Word.nil).2]

/-- if the input ends with a byte that is not a space, the last piece ends with that byte -/
theorem splitSpace_snoc (t : Str) (z : UInt8) (hz : (z == 0x20) = false) (cur : Str) :
    ∃ init w, splitSpace cur (t ++ [z]) = init ++ [w ++ [z]] := by
  induction t generalizing cur with
  | nil => exact ⟨[], cur, by simp [splitSpace, hz]⟩
  | cons b rest ih =>
    simp only [List.cons_append, splitSpace]
    split
    · obtain ⟨init, w, hw⟩ := ih []
      exact ⟨cur :: init, w, by rw [hw]; rfl⟩
    · exact ih _

/-! ### the word loop of CamelCase -/

def capB : Str → Str
  | [] => []
  | c :: t => upperB c :: t.map lowerB

/-- what the loop writes: the first non-empty word lower-cased, every later one capitalised -/
def camelWords : Bool → List Str → Str
  | _, [] => []
  | first, w :: ws =>
    if w = [] then camelWords first ws
    else (if first then w.map lowerB else capB w) ++ camelWords false ws

theorem camelLoop_words {lo up : Rune → Rune} (ht : AsciiTable lo up) (ws : List Str) (hw : ∀ w ∈ ws, Word w) :
    ∀ (first : Bool) (i idx : Nat) (sb : Str),
      (first = true → i = idx) → (first = false → i ≠ 0 ∧ idx < i) →
      camelLoop lo up ws i idx sb = sb ++ camelWords first ws := by
  induction ws with
  | nil => intros; simp [camelLoop, camelWords]
  | cons w rest ih =>
    intro first i idx sb h1 h2
    have hww := hw w List.mem_cons_self
    have hrest : ∀ w ∈ rest, Word w := fun x hx => hw x (List.mem_cons_of_mem _ hx)
    unfold camelLoop camelWords
    rw [runes_length_word hww]
    cases w with
    | nil =>
      simp only [List.length_nil, if_true]
      exact ih hrest first (i + 1) (idx + 1) sb (fun h => by rw [h1 h]) (fun h => by have := h2 h; omega)
    | cons c t =>
      simp only [List.length_cons, Nat.add_one_ne_zero, if_false, reduceCtorEq]
      cases first with
      | true =>
        have := h1 rfl
        rw [if_pos (Or.inr this), toLower_word ht hww,
          ih hrest false (i + 1) idx _ (fun h => nomatch h) (fun _ => ⟨by omega, by omega⟩)]
        simp
      | false =>
        have := h2 rfl
        rw [if_neg (by omega), capitalize_word ht hww,
          ih hrest false (i + 1) idx _ (fun h => nomatch h) (fun _ => ⟨by omega, by omega⟩)]
        simp [capB]

theorem isAlnum_lowerB {b : UInt8} (h : isAlnum b = true) : isAlnum (lowerB b) = true := by
  rw [isAlnum_iff, lowerB_toNat]
  have := (isAlnum_iff b).mp h
  split
  · rename_i hu; rw [isUpper_iff] at hu; omega
  · omega

theorem isAlnum_upperB {b : UInt8} (h : isAlnum b = true) : isAlnum (upperB b) = true := by
  rw [isAlnum_iff, upperB_toNat]
  have := (isAlnum_iff b).mp h
  split
  · rename_i hu; rw [isLower_iff] at hu; omega
  · omega

theorem lowerB_lowerB (b : UInt8) : lowerB (lowerB b) = lowerB b := by
  apply UInt8.toNat_inj.mp
  rw [lowerB_toNat (lowerB b)]
  have : isUpper (lowerB b) = false := by
    cases h : isUpper (lowerB b) with
    | false => rfl
    | true =>
      rw [isUpper_iff, lowerB_toNat] at h
      split at h
      · rename_i hy; rw [isUpper_iff] at hy; omega
      · rename_i hn; rw [isUpper_iff] at hn; omega
  simp [this]

theorem lowerB_upperB (b : UInt8) : lowerB (upperB b) = lowerB b := by
  apply UInt8.toNat_inj.mp
  rw [lowerB_toNat, lowerB_toNat, upperB_toNat]
  by_cases hl : isLower b = true
  · have hl' := (isLower_iff b).mp hl
    have h1 : isUpper (upperB b) = true := by
      rw [isUpper_iff, upperB_toNat, if_pos hl]; omega
    have h2 : isUpper b = false := by
      cases h : isUpper b with
      | false => rfl
      | true => rw [isUpper_iff] at h; omega
    simp [hl, h1, h2]; omega
  · have : upperB b = b := by unfold upperB; simp [hl]
    simp [hl, this]

theorem Word.map_lowerB {w : Str} (h : Word w) : Word (w.map lowerB) := by
  intro b hb
  obtain ⟨c, hc, rfl⟩ := List.mem_map.mp hb
  exact isAlnum_lowerB (h c hc)

theorem Word.capB {w : Str} (h : Word w) : Word (capB w) := by
  cases w with
  | nil => exact Word.nil
  | cons c t =>
    intro b hb
    rcases List.mem_cons.mp hb with rfl | hb
    · exact isAlnum_upperB h.head
    · exact h.tail.map_lowerB b hb

theorem letters_word {w : Str} (h : Word w) : letters w = w.map lowerB := by
  unfold letters
  rw [List.filter_eq_self.mpr h]

theorem letters_append (u v : Str) : letters (u ++ v) = letters u ++ letters v := by
  simp [letters]

theorem camelWords_spec (ws : List Str) (hw : ∀ w ∈ ws, Word w) (first : Bool) :
    Word (camelWords first ws) ∧ letters (camelWords first ws) = ws.flatten.map lowerB := by
  induction ws generalizing first with
  | nil => exact ⟨Word.nil, rfl⟩
  | cons w rest ih =>
    have hww := hw w List.mem_cons_self
    have hrest : ∀ w ∈ rest, Word w := fun x hx => hw x (List.mem_cons_of_mem _ hx)
    unfold camelWords
    by_cases he : w = []
    · subst he; simpa using ih hrest first
    · rw [if_neg he]
      have ih' := ih hrest false
      cases first with
      | true =>
        refine ⟨hww.map_lowerB.append ih'.1, ?_⟩
        rw [if_pos rfl, letters_append, ih'.2, letters_word hww.map_lowerB]
        simp [lowerB_lowerB]
      | false =>
        refine ⟨hww.capB.append ih'.1, ?_⟩
        simp only [Bool.false_eq_true, if_false]
        rw [letters_append, ih'.2, letters_word hww.capB]
        cases w with
        | nil => exact absurd rfl he
        | cons c t => simp [capB, lowerB_upperB, lowerB_lowerB]

/-! ### Substr on natural offsets, the pieces of one word -/

theorem substr_nat (w : Str) (a l : Nat) : substr w (a : Int) (l : Int) = .ok ((w.drop a).take l) := by
  rw [substr_eq_spec_aux]
  congr 1
  unfold substrSpec
  simp only []
  repeat' split
  all_goals first
    | omega
    | (rw [List.drop_eq_nil_of_le (by omega)]; simp; done)
    | (simp only [Int.toNat_natCast, List.take_length]
       rw [List.take_of_length_le (by rw [List.length_drop]; omega)]; done)
    | (have e : ((a : Int) + l).toNat = a + l := by omega
       rw [e, Int.toNat_natCast, List.drop_take]; congr 1; omega)

def join (d : Str) : List Str → Str
  | [] => []
  | [p] => p
  | p :: q :: r => p ++ d ++ join d (q :: r)

def cutsFrom (w : Str) : List Nat → List Str
  | [] => []
  | [m] => [w.drop (m + 1)]
  | m :: m' :: ms => (w.drop (m + 1)).take (m' - m) :: cutsFrom w (m' :: ms)

def cuts (w : Str) : List Nat → List Str
  | [] => [w]
  | m0 :: ms => w.take (m0 + 1) :: cutsFrom w (m0 :: ms)

/-- match starts: strictly increasing, every match (≥ 2 bytes) lies inside the word of length `n` -/
def Starts (n : Nat) : List Nat → Prop
  | [] => True
  | [m] => m + 2 ≤ n
  | m :: m' :: ms => m < m' ∧ Starts n (m' :: ms)

theorem Starts.head_le {n m : Nat} {ms : List Nat} (h : Starts n (m :: ms)) : m + 2 ≤ n := by
  induction ms generalizing m with
  | nil => exact h
  | cons m' ms ih => have := ih h.2; have := h.1; omega

theorem cutsFrom_ne_nil (w : Str) (m : Nat) (ms : List Nat) : cutsFrom w (m :: ms) ≠ [] := by
  cases ms <;> simp [cutsFrom]

theorem cutsFrom_flatten (w : Str) (n : Nat) (m : Nat) (ms : List Nat) (h : Starts n (m :: ms)) :
    (cutsFrom w (m :: ms)).flatten = w.drop (m + 1) := by
  induction ms generalizing m with
  | nil => simp [cutsFrom]
  | cons m' ms ih =>
    simp only [cutsFrom, List.flatten_cons]
    rw [ih m' h.2]
    have h1 := h.1
    have : w.drop (m' + 1) = (w.drop (m + 1)).drop (m' - m) := by
      rw [List.drop_drop]; congr 1; omega
    rw [this, List.take_append_drop]

theorem cuts_flatten (w : Str) (n : Nat) (L : List Nat) (h : Starts n L) : (cuts w L).flatten = w := by
  cases L with
  | nil => simp [cuts]
  | cons m ms =>
    simp only [cuts, List.flatten_cons]
    rw [cutsFrom_flatten w n m ms h, List.take_append_drop]

theorem mem_cutsFrom_sub (w : Str) (L : List Nat) : ∀ p ∈ cutsFrom w L, ∀ b ∈ p, b ∈ w := by
  induction L with
  | nil => simp [cutsFrom]
  | cons m ms ih =>
    cases ms with
    | nil =>
      simp only [cutsFrom, List.mem_singleton]
      rintro p rfl b hb
      exact List.mem_of_mem_drop hb
    | cons m' ms =>
      simp only [cutsFrom, List.mem_cons]
      rintro p (rfl | hp) b hb
      · exact List.mem_of_mem_drop (List.mem_of_mem_take hb)
      · exact ih p hp b hb

theorem mem_cuts_sub (w : Str) (L : List Nat) : ∀ p ∈ cuts w L, ∀ b ∈ p, b ∈ w := by
  cases L with
  | nil => simp [cuts]
  | cons m ms =>
    simp only [cuts, List.mem_cons]
    rintro p (rfl | hp) b hb
    · exact List.mem_of_mem_take hb
    · exact mem_cutsFrom_sub w _ p hp b hb

theorem snakePieces_eval (lo : Rune → Rune) (d w : Str) (m : Nat) (ms : List Nat) (h : Starts w.length (m :: ms)) :
    snakePieces lo d w (m :: ms) = .ok (join d ((cutsFrom w (m :: ms)).map (toLower lo))) := by
  induction ms generalizing m with
  | nil =>
    have hm : m + 2 ≤ w.length := h
    have e1 : ((m : Int) + 1) = ((m + 1 : Nat) : Int) := by omega
    have e2 : ((w.length : Int) - m + 1) = ((w.length - m + 1 : Nat) : Int) := by omega
    simp only [snakePieces, cutsFrom, List.map_cons, List.map_nil, join]
    rw [e1, e2, substr_nat, List.take_of_length_le (by rw [List.length_drop]; omega)]
    rfl
  | cons m' ms ih =>
    have h1 : m < m' := h.1
    have e1 : ((m : Int) + 1) = ((m + 1 : Nat) : Int) := by omega
    have e2 : ((m' : Int) - m) = ((m' - m : Nat) : Int) := by omega
    simp only [snakePieces, cutsFrom, List.map_cons]
    rw [e1, e2, substr_nat, ih m' h.2]
    obtain ⟨q, r, hq⟩ := List.exists_cons_of_ne_nil (cutsFrom_ne_nil w m' ms)
    rw [hq]
    simp [Outcome.bind, Outcome.map, join]

theorem snakeWord_eval (lo : Rune → Rune) (d w : Str) (more : Bool)
    (h : Starts w.length ((findCamel 0 0 w).map (·.1))) :
    snakeWord lo d w more =
      .ok (join d ((cuts w ((findCamel 0 0 w).map (·.1))).map (toLower lo)) ++ (if more then d else [])) := by
  unfold snakeWord
  generalize (findCamel 0 0 w).map (·.1) = L at h
  cases L with
  | nil => simp [cuts, join]
  | cons m0 ms =>
    have e1 : ((m0 : Int) + 1) = ((m0 + 1 : Nat) : Int) := by omega
    simp only []
    rw [e1]
    have := substr_nat w 0 (m0 + 1)
    simp only [Int.natCast_zero, List.drop_zero] at this
    rw [this, snakePieces_eval lo d w m0 ms h]
    obtain ⟨q, r, hq⟩ := List.exists_cons_of_ne_nil (cutsFrom_ne_nil w m0 ms)
    simp only [cuts, List.map_cons]
    rw [hq]
    simp [Outcome.bind, Outcome.map, join]

/-! ### the word loop of SnakeCase / KebabCase -/

def starts (w : Str) : List Nat := (findCamel 0 0 w).map (·.1)

/-- the lower-cased pieces of one word -/
def piecesB (w : Str) : List Str := (cuts w (starts w)).map (·.map lowerB)

/-- what the loop writes for delimiter byte `d` -/
def snakeWords (d : UInt8) : List Str → Str
  | [] => []
  | w :: rest =>
    if w = [] then snakeWords d rest
    else join [d] (piecesB w) ++ (if rest = [] then [] else [d]) ++ snakeWords d rest

theorem snakeLoop_words {lo up : Rune → Rune} (ht : AsciiTable lo up) (d : UInt8) (n : Nat) (ws : List Str)
    (hw : ∀ w ∈ ws, Word w) (hs : ∀ w ∈ ws, Starts w.length (starts w)) :
    ∀ (i : Nat) (sb : Str), i + ws.length = n →
      snakeLoop lo [d] n ws i sb = .ok (sb ++ snakeWords d ws) := by
  induction ws with
  | nil => intros; simp [snakeLoop, snakeWords]
  | cons w rest ih =>
    intro i sb hi
    have hww := hw w List.mem_cons_self
    have hrest : ∀ w ∈ rest, Word w := fun x hx => hw x (List.mem_cons_of_mem _ hx)
    have hsr : ∀ w ∈ rest, Starts w.length (starts w) := fun x hx => hs x (List.mem_cons_of_mem _ hx)
    unfold snakeLoop snakeWords
    rw [runes_length_word hww]
    by_cases he : w = []
    · subst he
      simp only [List.length_nil, if_true]
      exact ih hrest hsr (i + 1) sb (by simp at hi; omega)
    · have hl : w.length ≠ 0 := by intro h; exact he (List.length_eq_zero_iff.mp h)
      rw [if_neg hl, if_neg he, snakeWord_eval lo [d] w _ (hs w List.mem_cons_self)]
      simp only [Outcome.bind]
      rw [ih hrest hsr (i + 1) _ (by simp at hi; omega)]
      have hpieces : (cuts w ((findCamel 0 0 w).map (·.1))).map (toLower lo) = piecesB w := by
        unfold piecesB starts
        apply List.map_congr_left
        intro p hp
        exact toLower_word ht (fun b hb => hww b (mem_cuts_sub w _ p hp b hb))
      rw [hpieces]
      have hmore : (decide (n > 1) && decide (i ≠ n - 1)) = !(decide (rest = [])) := by
        cases rest with
        | nil => simp at hi; simp; omega
        | cons _ _ => simp at hi; simp; omega
      rw [hmore]
      cases rest <;> simp

theorem join_filter (d : UInt8) (hd : isAlnum d = false) (ps : List Str) :
    (join [d] ps).filter isAlnum = ps.flatten.filter isAlnum := by
  induction ps with
  | nil => rfl
  | cons p qs ih =>
    cases qs with
    | nil => simp [join]
    | cons q r => simp [join, hd, ih]

theorem join_bytes (d : UInt8) (ps : List Str) : ∀ b ∈ join [d] ps, b = d ∨ ∃ p ∈ ps, b ∈ p := by
  induction ps with
  | nil => simp [join]
  | cons p qs ih =>
    cases qs with
    | nil => intro b hb; exact Or.inr ⟨p, List.mem_cons_self, by simpa [join] using hb⟩
    | cons q r =>
      intro b hb
      simp only [join, List.mem_append, List.mem_singleton] at hb
      rcases hb with (hb | hb) | hb
      · exact Or.inr ⟨p, List.mem_cons_self, hb⟩
      · exact Or.inl hb
      · rcases ih b hb with h | ⟨x, hx, hbx⟩
        · exact Or.inl h
        · exact Or.inr ⟨x, List.mem_cons_of_mem _ hx, hbx⟩

theorem join_map (f : UInt8 → UInt8) (d : UInt8) (ps : List Str) :
    (join [d] ps).map f = join [f d] (ps.map (·.map f)) := by
  induction ps with
  | nil => rfl
  | cons p qs ih =>
    cases qs with
    | nil => simp [join]
    | cons q r => simp [join] at ih ⊢; exact ih

theorem piecesB_flatten {w : Str} (hs : Starts w.length (starts w)) : (piecesB w).flatten = w.map lowerB := by
  unfold piecesB
  rw [← List.map_flatten, cuts_flatten w _ _ hs]

def isLowerAlnum (b : UInt8) : Bool := isDigit b || isLower b

theorem isLowerAlnum_lowerB {b : UInt8} (h : isAlnum b = true) : isLowerAlnum (lowerB b) = true := by
  have := (isAlnum_iff b).mp h
  simp only [isLowerAlnum, Bool.or_eq_true, isDigit_iff, isLower_iff, lowerB_toNat]
  split
  · rename_i hu; rw [isUpper_iff] at hu; omega
  · rename_i hu; rw [isUpper_iff] at hu; omega

theorem piecesB_bytes {w : Str} (hw : Word w) : ∀ p ∈ piecesB w, ∀ b ∈ p, isLowerAlnum b = true := by
  intro p hp b hb
  unfold piecesB at hp
  obtain ⟨c, hc, rfl⟩ := List.mem_map.mp hp
  obtain ⟨x, hx, rfl⟩ := List.mem_map.mp hb
  exact isLowerAlnum_lowerB (hw x (mem_cuts_sub w _ c hc x hx))

theorem isAlnum_of_lowerAlnum {b : UInt8} (h : isLowerAlnum b = true) : isAlnum b = true := by
  simp only [isLowerAlnum, Bool.or_eq_true] at h
  simp only [isAlnum, Bool.or_eq_true]
  rcases h with h | h
  · exact Or.inl (Or.inl h)
  · exact Or.inr h

/-- the three byte-level facts about what the loop writes -/
theorem snakeWords_spec (d : UInt8) (hd : isAlnum d = false) (ws : List Str) (hw : ∀ w ∈ ws, Word w)
    (hs : ∀ w ∈ ws, Starts w.length (starts w)) :
    (∀ b ∈ snakeWords d ws, isLowerAlnum b = true ∨ b = d) ∧
    (snakeWords d ws).filter isAlnum = ws.flatten.map lowerB := by
  induction ws with
  | nil => simp [snakeWords]
  | cons w rest ih =>
    have hww := hw w List.mem_cons_self
    have ih' := ih (fun x hx => hw x (List.mem_cons_of_mem _ hx)) (fun x hx => hs x (List.mem_cons_of_mem _ hx))
    unfold snakeWords
    by_cases he : w = []
    · subst he; simpa using ih'
    · rw [if_neg he]
      constructor
      · intro b hb
        simp only [List.mem_append] at hb
        rcases hb with (hb | hb) | hb
        · rcases join_bytes d _ b hb with h | ⟨p, hp, hbp⟩
          · exact Or.inr h
          · exact Or.inl (piecesB_bytes hww p hp b hbp)
        · split at hb
          · simp at hb
          · simp at hb; exact Or.inr hb
        · exact ih'.1 b hb
      · rw [List.filter_append, List.filter_append, join_filter d hd, piecesB_flatten (hs w List.mem_cons_self), ih'.2]
        have h1 : (w.map lowerB).filter isAlnum = w.map lowerB :=
          List.filter_eq_self.mpr hww.map_lowerB
        have h2 : (if rest = [] then ([] : Str) else [d]).filter isAlnum = [] := by
          split <;> simp [hd]
        rw [h1, h2]
        simp

/-- Snake and Kebab write the same text up to the delimiter -/
theorem snakeWords_swap (ws : List Str) (hw : ∀ w ∈ ws, Word w) :
    (snakeWords 0x5F ws).map (fun b => if b == 0x5F then 0x2D else b) = snakeWords 0x2D ws := by
  induction ws with
  | nil => rfl
  | cons w rest ih =>
    have hww := hw w List.mem_cons_self
    have ih' := ih (fun x hx => hw x (List.mem_cons_of_mem _ hx))
    unfold snakeWords
    by_cases he : w = []
    · subst he; simpa using ih'
    · rw [if_neg he, if_neg he, List.map_append, List.map_append, ih', join_map]
      have h1 : (piecesB w).map (·.map (fun b => if b == 0x5F then 0x2D else b)) = piecesB w := by
        conv => rhs; rw [← List.map_id (piecesB w)]
        apply List.map_congr_left
        intro p hp
        conv => rhs; rw [id, ← List.map_id p]
        apply List.map_congr_left
        intro b hb
        have hl := piecesB_bytes hww p hp b hb
        have hne : (b == 0x5F) = false := by
          have ha := (isAlnum_iff b).mp (isAlnum_of_lowerAlnum hl)
          have e : (0x5F : UInt8).toNat = 0x5F := rfl
          simp only [beq_eq_false_iff_ne, ne_eq]
          intro hb; subst hb; omega
        simp [hne]
      rw [h1]
      congr 2
      split <;> simp

/-! ### the matches of `[a-zö][A-ZÖ]+` lie inside the word, one after the other (for EVERY byte string) -/

theorem upperRun_le (t : Str) : upperRun t ≤ t.length := by
  fun_induction upperRun t with
  | case1 rest ih => simp only [List.length_cons]; omega
  | case2 b rest _ h ih => simp only [List.length_cons]; omega
  | case3 b rest _ h => omega
  | case4 => omega

theorem lowerAt_le (t : Str) (k : Nat) (h : lowerAt t = some k) : 1 ≤ k ∧ k ≤ t.length := by
  unfold lowerAt at h
  split at h
  · simp only [Option.some.injEq] at h; subst h; simp
  · split at h
    · simp only [Option.some.injEq] at h; subst h; simp
    · exact nomatch h
  · exact nomatch h

def StartsGe (lo n : Nat) : List Nat → Prop
  | [] => True
  | m :: ms => lo ≤ m ∧ m + 2 ≤ n ∧ StartsGe (m + 1) n ms

theorem StartsGe.mono {lo lo' n : Nat} {L : List Nat} (h : StartsGe lo n L) (hle : lo' ≤ lo) : StartsGe lo' n L := by
  cases L with
  | nil => trivial
  | cons m ms => exact ⟨Nat.le_trans hle h.1, h.2⟩

theorem StartsGe.starts {lo n : Nat} {L : List Nat} (h : StartsGe lo n L) : Starts n L := by
  induction L generalizing lo with
  | nil => trivial
  | cons m ms ih =>
    cases ms with
    | nil => exact h.2.1
    | cons m' ms => exact ⟨h.2.2.1, ih h.2.2⟩

theorem findCamel_starts (t : Str) : ∀ (i k : Nat),
    StartsGe (i + k) (i + t.length) ((findCamel i k t).map (·.1)) := by
  induction t with
  | nil => intro i k; simp [findCamel, StartsGe]
  | cons b rest ih =>
    intro i k
    cases k with
    | succ k =>
      simp only [findCamel, List.length_cons]
      have := ih (i + 1) k
      have e1 : i + 1 + k = i + (k + 1) := by omega
      have e2 : i + 1 + rest.length = i + (rest.length + 1) := by omega
      rw [e1, e2] at this
      exact this
    | zero =>
      simp only [findCamel, List.length_cons]
      have e2 : i + 1 + rest.length = i + (rest.length + 1) := by omega
      split
      · rename_i w hw
        have hwle := lowerAt_le _ _ hw
        have hu := upperRun_le ((b :: rest).drop w)
        simp only [List.length_drop, List.length_cons] at hu hwle
        split
        · rename_i hpos
          simp only [List.map_cons]
          refine ⟨by omega, by omega, ?_⟩
          have := ih (i + 1) (w + upperRun ((b :: rest).drop w) - 1)
          rw [e2] at this
          exact StartsGe.mono (lo' := i + 1) this (by omega)
        · have := ih (i + 1) 0
          rw [e2] at this
          exact StartsGe.mono (lo' := i + 0) this (by omega)
      · have := ih (i + 1) 0
        rw [e2] at this
        exact StartsGe.mono (lo' := i + 0) this (by omega)

theorem starts_ok (w : Str) : Starts w.length (starts w) := by
  have := findCamel_starts w 0 0
  simp only [Nat.zero_add] at this
  exact this.starts

/-! ### from the stated domain to the list of words -/

theorem inDomain_cases (s : Str) (h : inDomain s = true) :
    DomBytes s ∧ (s = [] ∨ ∃ b rest z, s = b :: rest ∧ isAlnum b = true ∧ s.getLast? = some z ∧ isAlnum z = true) := by
  simp only [inDomain, Bool.and_eq_true, List.all_eq_true, Bool.or_eq_true] at h
  obtain ⟨⟨hall, hhead⟩, hlast⟩ := h
  refine ⟨hall, ?_⟩
  cases s with
  | nil => exact Or.inl rfl
  | cons b rest =>
    right
    have hne : (b :: rest) ≠ [] := by simp
    obtain ⟨z, hz⟩ : ∃ z, (b :: rest).getLast? = some z := ⟨_, List.getLast?_eq_some_getLast hne⟩
    rw [hz] at hlast
    exact ⟨b, rest, z, rfl, by simpa using hhead, hz, by simpa using hlast⟩

theorem chars_of_domain (s : Str) (h : inDomain s = true) :
    (∀ w ∈ splitSpace [] (replaceSeps false (trimSpace s)), Word w) ∧
    (splitSpace [] (replaceSeps false (trimSpace s))).flatten = s.filter isAlnum := by
  obtain ⟨hdom, hs⟩ := inDomain_cases s h
  have htrim : trimSpace s = s := by
    rcases hs with rfl | ⟨b, rest, z, rfl, hb, hz, hza⟩
    · exact trimSpace_nil
    · exact trimSpace_dom b rest z hb hz hza
  rw [htrim]
  have hr := replaceSeps_spec s hdom false
  have hsp := splitSpace_spec _ hr.1 [] Word.nil
  exact ⟨hsp.1, by rw [hsp.2, hr.2]; rfl⟩

end GoguVerif.Lemmas.C15
