import GoguVerif.Spec.C04
import GoguVerif.Model.Bst
import GoguVerif.Lemmas.C04OrdMap
/-!
# C04 — helper lemmas, part 2: the tree functions of `Model.Bst` against the in-order traversal

`IsBst` is the binary-search-tree invariant as the package comment states it: the key of a node is
greater than all keys in its left subtree and less than all keys in its right subtree ("greater /
less" in the comparator's order).
-/
namespace GoguVerif.Lemmas.C04
open GoguVerif.Spec GoguVerif.Spec.OrdMap
open GoguVerif.Model.Bst (Tree traverse)
open GoguVerif.Model

variable {κ ν : Type} {comp : κ → κ → Bool}

/-- The BST invariant. -/
def IsBst (comp : κ → κ → Bool) : Tree κ ν → Prop
  | .nil => True
  | .node l k _ r =>
    IsBst comp l ∧ IsBst comp r ∧
    (∀ e ∈ traverse l, comp e.1 k = true) ∧ (∀ e ∈ traverse r, comp k e.1 = true)

theorem compare_eq_one {a b : κ} : Bst.compare comp a b = 1 ↔ comp a b = true := by
  unfold Bst.compare
  cases comp a b <;> cases comp b a <;> simp

theorem compare_eq_neg_one {a b : κ} :
    Bst.compare comp a b = -1 ↔ comp a b = false ∧ comp b a = true := by
  unfold Bst.compare
  cases comp a b <;> cases comp b a <;> simp

/-! ## unfolding equations at a generic node (the generated ones split on the children) -/

theorem delete_node (comp : κ → κ → Bool) (key k : κ) (v : ν) (l r : Tree κ ν) :
  Bst.delete comp key (.node l k v r) =
    if Bst.compare comp key k = 1 then
      match Bst.delete comp key l with
      | none => none
      | some (l', e) => some (.node l' k v r, e)
    else if Bst.compare comp key k = -1 then
      match Bst.delete comp key r with
      | none => none
      | some (r', e) => some (.node l k v r', e)
    else
      match l, r with
      | .nil, .nil => some (.nil, true)
      | .node ll lk lv lr, .nil => some (.node ll lk lv lr, true)
      | .nil, .node rl rk rv rr => some (.node rl rk rv rr, true)
      | .node ll lk lv lr, .node rl rk rv rr =>
        match Bst.min (Tree.node rl rk rv rr) with
        | none => none
        | some (mk, mv) =>
          match Bst.delete comp mk (.node rl rk rv rr) with
          | none => none
          | some (r', e) => some (.node (.node ll lk lv lr) mk mv r', e) := by
  rw [Bst.delete.eq_def]; rfl
theorem upsertNode_node (comp : κ → κ → Bool) (key k : κ) (val v : ν) (l r : Tree κ ν) (size : Int) :
  Bst.upsertNode comp key val (.node l k v r) size =
    if Bst.compare comp key k = 1 then
      match l with
      | .nil => some (.node (.node .nil key val .nil) k v r, size + 1)
      | .node ll lk lv lr =>
        match Bst.upsertNode comp key val (.node ll lk lv lr) size with
        | none => none
        | some (l', size') => some (.node l' k v r, size')
    else if Bst.compare comp key k = -1 then
      match r with
      | .nil => some (.node l k v (.node .nil key val .nil), size + 1)
      | .node rl rk rv rr =>
        match Bst.upsertNode comp key val (.node rl rk rv rr) size with
        | none => none
        | some (r', size') => some (.node l k v r', size')
    else some (.node l k val r, size) := by
  rw [Bst.upsertNode.eq_def]; rfl

/-- BST invariant = the in-order traversal is strictly increasing. -/
theorem isBst_iff_sorted (h : STO comp) (t : Tree κ ν) :
    IsBst comp t ↔ Sorted comp (traverse t) := by
  induction t with
  | nil => simp [IsBst, traverse, Sorted]
  | node l k v r ihl ihr =>
    simp only [IsBst, traverse, sorted_append, Sorted, ihl, ihr]
    constructor
    · rintro ⟨hl, hr, hlk, hkr⟩
      refine ⟨hl, ⟨hkr, hr⟩, ?_⟩
      intro x hx y hy
      rcases List.mem_cons.1 hy with e | hy
      · subst e; exact hlk x hx
      · exact h.trans _ _ _ (hlk x hx) (hkr y hy)
    · rintro ⟨hl, ⟨hkr, hr⟩, hall⟩
      exact ⟨hl, hr, fun e he => hall e he (k, v) List.mem_cons_self, hkr⟩

/-! ## get -/

theorem get_spec (h : STO comp) (key : κ) (t : Tree κ ν) (hb : IsBst comp t) :
    (Bst.get comp key t).map (·.2) = lookup comp key (traverse t) := by
  induction t with
  | nil => rfl
  | node l k v r ihl ihr =>
    obtain ⟨hl, hr, hlk, hkr⟩ := hb
    simp only [traverse]
    by_cases c1 : comp key k = true
    · rw [Bst.get, if_pos (compare_eq_one.2 c1), ihl hl, lookup_append_left c1]
    · have c1' : comp key k = false := by simpa using c1
      by_cases c2 : comp k key = true
      · rw [Bst.get, if_neg (mt compare_eq_one.1 c1), if_pos (compare_eq_neg_one.2 ⟨c1', c2⟩), ihr hr,
          lookup_append_gt h hlk c2]
      · have c2' : comp k key = false := by simpa using c2
        have e : key = k := h.total _ _ c1' c2'
        subst e
        rw [Bst.get, if_neg (mt compare_eq_one.1 c1), if_neg (fun hc => c2 (compare_eq_neg_one.1 hc).2),
          lookup_append_mid h hlk]
        rfl

/-- the item `get` returns carries the requested key -/
theorem get_key (h : STO comp) (key : κ) (t : Tree κ ν) {k' : κ} {v' : ν}
    (hg : Bst.get comp key t = some (k', v')) : k' = key := by
  induction t with
  | nil => cases hg
  | node l k v r ihl ihr =>
    unfold Bst.get at hg
    split at hg
    · exact ihl hg
    · rename_i c1
      split at hg
      · exact ihr hg
      · rename_i c2
        cases hg
        have c1' : comp key k' = false := by
          cases hc : comp key k' with
          | false => rfl
          | true => exact absurd (compare_eq_one.2 hc) c1
        have c2' : comp k' key = false := by
          cases hc : comp k' key with
          | false => rfl
          | true => exact absurd (compare_eq_neg_one.2 ⟨c1', hc⟩) c2
        exact (h.total _ _ c1' c2').symm

/-! ## min -/

/-- `min` of a non-nil tree is the first item of its in-order traversal (never panics there). -/
theorem min_spec (t : Tree κ ν) (hne : t ≠ .nil) :
    ∃ e rest, Bst.min t = some e ∧ traverse t = e :: rest := by
  fun_induction Bst.min t with
  | case1 => exact absurd rfl hne
  | case2 k v r => exact ⟨(k, v), traverse r, rfl, rfl⟩
  | case3 ll lk lv lr k v r ih =>
    obtain ⟨e, rest, h1, h2⟩ := ih (by simp)
    refine ⟨e, rest ++ (k, v) :: traverse r, h1, ?_⟩
    rw [traverse, h2]; rfl

/-! ## upsert -/

theorem upsertNode_spec (h : STO comp) (key : κ) (val : ν) (t : Tree κ ν) (size : Int)
    (hne : t ≠ .nil) (hb : IsBst comp t) :
    ∃ t', Bst.upsertNode comp key val t size =
            some (t', size + (if (lookup comp key (traverse t)).isSome then 0 else 1)) ∧
          traverse t' = OrdMap.insert comp key val (traverse t) := by
  induction t with
  | nil => exact absurd rfl hne
  | node l k v r ihl ihr =>
    obtain ⟨hl, hr, hlk, hkr⟩ := hb
    simp only [traverse]
    by_cases c1 : comp key k = true
    · simp only [lookup_append_left c1, insert_append_left c1]
      cases l with
      | nil =>
        refine ⟨.node (.node .nil key val .nil) k v r, ?_, ?_⟩
        · rw [upsertNode_node, if_pos (compare_eq_one.2 c1)]; rfl
        · rfl
      | node ll lk lv lr =>
        obtain ⟨l', e1, e2⟩ := ihl (by simp) hl
        refine ⟨.node l' k v r, ?_, ?_⟩
        · rw [upsertNode_node, if_pos (compare_eq_one.2 c1)]
          simp only [e1]
        · simp only [traverse, e2]
    · have c1' : comp key k = false := by simpa using c1
      by_cases c2 : comp k key = true
      · simp only [lookup_append_gt h hlk c2, insert_append_gt h hlk c2]
        cases r with
        | nil =>
          refine ⟨.node l k v (.node .nil key val .nil), ?_, ?_⟩
          · rw [upsertNode_node, if_neg (mt compare_eq_one.1 c1), if_pos (compare_eq_neg_one.2 ⟨c1', c2⟩)]; rfl
          · rfl
        | node rl rk rv rr =>
          obtain ⟨r', e1, e2⟩ := ihr (by simp) hr
          refine ⟨.node l k v r', ?_, ?_⟩
          · rw [upsertNode_node, if_neg (mt compare_eq_one.1 c1), if_pos (compare_eq_neg_one.2 ⟨c1', c2⟩)]
            simp only [e1]
          · simp only [traverse, e2]
      · have c2' : comp k key = false := by simpa using c2
        have e : key = k := h.total _ _ c1' c2'
        subst e
        refine ⟨.node l key val r, ?_, ?_⟩
        · rw [upsertNode_node, if_neg (mt compare_eq_one.1 c1),
            if_neg (fun hc => c2 (compare_eq_neg_one.1 hc).2)]
          simp [lookup_append_mid h hlk]
        · rw [insert_append_mid h hlk]; rfl

/-! ## delete -/

theorem delete_spec (h : STO comp) (t : Tree κ ν) : ∀ key : κ, IsBst comp t →
    ∃ t', Bst.delete comp key t = some (t', (lookup comp key (traverse t)).isSome) ∧
          traverse t' = erase comp key (traverse t) := by
  induction t with
  | nil => intro key _; exact ⟨.nil, rfl, rfl⟩
  | node l k v r ihl ihr =>
    intro key ⟨hl, hr, hlk, hkr⟩
    simp only [traverse]
    by_cases c1 : comp key k = true
    · rw [lookup_append_left c1, erase_append_left c1]
      obtain ⟨l', e1, e2⟩ := ihl key hl
      refine ⟨.node l' k v r, ?_, ?_⟩
      · rw [delete_node, if_pos (compare_eq_one.2 c1)]
        simp only [e1]
      · simp only [traverse, e2]
    · have c1' : comp key k = false := by simpa using c1
      by_cases c2 : comp k key = true
      · rw [lookup_append_gt h hlk c2, erase_append_gt h hlk c2]
        obtain ⟨r', e1, e2⟩ := ihr key hr
        refine ⟨.node l k v r', ?_, ?_⟩
        · rw [delete_node, if_neg (mt compare_eq_one.1 c1), if_pos (compare_eq_neg_one.2 ⟨c1', c2⟩)]
          simp only [e1]
        · simp only [traverse, e2]
      · have c2' : comp k key = false := by simpa using c2
        have e : key = k := h.total _ _ c1' c2'
        subst e
        rw [lookup_append_mid h hlk, erase_append_mid h hlk, delete_node, if_neg (mt compare_eq_one.1 c1),
          if_neg (fun hc => c2 (compare_eq_neg_one.1 hc).2)]
        cases l with
        | nil =>
          cases r with
          | nil => exact ⟨.nil, rfl, rfl⟩
          | node rl rk rv rr => exact ⟨.node rl rk rv rr, rfl, rfl⟩
        | node ll lk lv lr =>
          cases r with
          | nil => exact ⟨.node ll lk lv lr, rfl, by simp [traverse]⟩
          | node rl rk rv rr =>
            -- case 3: the in-order successor replaces the node and is deleted from the right subtree
            obtain ⟨⟨mk, mv⟩, rest, hm, htr⟩ := min_spec (.node rl rk rv rr) (by simp)
            obtain ⟨r', e1, e2⟩ := ihr mk hr
            have hl1 : lookup comp mk (traverse (.node rl rk rv rr)) = some mv := by
              rw [htr]; simp [lookup, h.irrefl]
            have he1 : erase comp mk (traverse (.node rl rk rv rr)) = rest := by
              rw [htr]; simp [erase, h.irrefl]
            rw [hl1] at e1
            rw [he1] at e2
            refine ⟨.node (.node ll lk lv lr) mk mv r', ?_, ?_⟩
            · simp only [hm, e1]; rfl
            · rw [traverse, e2, htr]

/-- `delete` of an absent key leaves the tree as it is (not only its traversal). -/
theorem delete_absent (h : STO comp) (t : Tree κ ν) (key : κ) (hb : IsBst comp t)
    (ha : lookup comp key (traverse t) = none) : Bst.delete comp key t = some (t, false) := by
  induction t with
  | nil => rfl
  | node l k v r ihl ihr =>
    obtain ⟨hl, hr, hlk, hkr⟩ := hb
    simp only [traverse] at ha
    by_cases c1 : comp key k = true
    · rw [lookup_append_left c1] at ha
      rw [delete_node, if_pos (compare_eq_one.2 c1), ihl hl ha]
    · have c1' : comp key k = false := by simpa using c1
      by_cases c2 : comp k key = true
      · rw [lookup_append_gt h hlk c2] at ha
        rw [delete_node, if_neg (mt compare_eq_one.1 c1), if_pos (compare_eq_neg_one.2 ⟨c1', c2⟩), ihr hr ha]
      · have c2' : comp k key = false := by simpa using c2
        have e : key = k := h.total _ _ c1' c2'
        subst e
        rw [lookup_append_mid h hlk] at ha
        cases ha

/-! ## Patched vs unpatched specification (they differ only in what `Size` answers) -/

open GoguVerif.Spec.C04

/-- Forget what a `Size` call answered. -/
def maskSize : Out κ ν → Out κ ν
  | .int _ => .int 0
  | o => o

theorem patched_step_m (p : Patched.St κ ν) (op : Op κ ν) :
    (Patched.step comp p op).1.m = (Spec.C04.step comp p.m op).1 := by
  cases op <;> rfl

theorem patched_step_out (p : Patched.St κ ν) (op : Op κ ν) :
    maskSize (Patched.step comp p op).2 = maskSize (Spec.C04.step comp p.m op).2 := by
  cases op <;> rfl

/-- The patched and the unpatched specification differ only in what `Size` answers. -/
theorem patched_run_spec (p : Patched.St κ ν) (ops : List (Op κ ν)) :
    (Patched.run comp p ops).1.m = (Spec.C04.run comp p.m ops).1 ∧
    (Patched.run comp p ops).2.map maskSize = (Spec.C04.run comp p.m ops).2.map maskSize := by
  induction ops generalizing p with
  | nil => exact ⟨rfl, rfl⟩
  | cons op ops ih =>
    obtain ⟨i1, i2⟩ := ih (Patched.step comp p op).1
    rw [patched_step_m] at i1 i2
    simp only [Patched.run, Spec.C04.run, List.map_cons]
    exact ⟨i1, by rw [i2, patched_step_out]⟩

/-- Number of `Delete` calls of the history that hit an absent key (judged by the specification). -/
def failedDeletes (comp : κ → κ → Bool) : List (κ × ν) → List (Op κ ν) → Nat
  | _, [] => 0
  | m, op :: ops =>
    (match op with
      | .delete k => if (lookup comp k m).isSome then 0 else 1
      | _ => 0) + failedDeletes comp (Spec.C04.step comp m op).1 ops

theorem patched_run_failed (p : Patched.St κ ν) (ops : List (Op κ ν)) :
    (Patched.run comp p ops).1.failedDeletes = p.failedDeletes + failedDeletes comp p.m ops := by
  induction ops generalizing p with
  | nil => simp [Patched.run, failedDeletes]
  | cons op ops ih =>
    simp only [Patched.run, failedDeletes]
    rw [ih, patched_step_m]
    cases op with
    | delete k =>
      simp only [Patched.step]
      split <;> omega
    | _ => simp [Patched.step, C04.step]

end GoguVerif.Lemmas.C04
