import GoguVerif.Model.StoreHelpers5
import GoguVerif.Lemmas.C16Helpers4
/-!
# Lemmas for the fifth batch of store-level helper models (C16): map-returning helpers
-/
set_option autoImplicit false
namespace GoguVerif.Lemmas.C16Helpers5
open GoguVerif Model.Store Model.StoreHelpers Model.StoreHelpers3 Model.StoreHelpers4 Model.StoreHelpers5
open Lemmas.C16Helpers

/-! ## the map under construction is the last object of the map store -/

/-- `result[k] = v` through the id of the object made last writes that object and nothing else -/
theorem mput_push (μ0 : MStore) (acc : List (Int × Int)) (k v : Int) :
    mput (μ0 ++ [acc]) μ0.length k v = some (μ0 ++ [Model.C14.put acc k v]) := by
  unfold mput
  rw [if_pos (by simp)]
  congr 1
  apply List.ext_getElem?
  intro j
  rw [List.getElem?_modify]
  rcases Nat.lt_trichotomy j μ0.length with hj | hj | hj
  · have hne : ¬ μ0.length = j := by omega
    rw [List.getElem?_append_left hj, List.getElem?_append_left hj]
    simp [hne]
  · subst hj
    simp
  · rw [List.getElem?_eq_none (by simp; omega), List.getElem?_eq_none (by simp; omega)]
    rfl

/-- an object that existed is read the same after a `make` (and whatever the new object holds) -/
theorem mget_push_old {μ0 : MStore} (acc : List (Int × Int)) {m : Nat} (hm : m < μ0.length) :
    mget (μ0 ++ [acc]) m = mget μ0 m := by
  simp [mget, List.getElem?_append_left hm]

theorem mindex_push_old {μ0 : MStore} (acc : List (Int × Int)) {m : Nat} (hm : m < μ0.length) (k : Int) :
    mindex (μ0 ++ [acc]) m k = Model.C14.idx (mget μ0 m) k := by
  simp [mindex, mget_push_old acc hm]

theorem writeAll_length {σ σ' : Store} {s : Slice} (vs : List Int) (i : Nat)
    (h : writeAll σ s i vs = some σ') : σ'.length = σ.length := by
  induction vs generalizing σ i with
  | nil => simp only [writeAll, Option.some.injEq] at h; rw [h]
  | cons v vs ih =>
    simp only [writeAll] at h
    cases hw : write σ s i v with
    | none => rw [hw] at h; cases h
    | some σ1 => rw [hw] at h; rw [ih _ h, Theorems.C16.write_length _ _ _ _ _ hw]

/-! ## lookups do not depend on the order of the representation -/

theorem wf_of_perm {m m' : List (Int × Int)} (h : Spec.C14.WF m) (hp : m.Perm m') : Spec.C14.WF m' :=
  (hp.map Prod.fst).nodup_iff.mp h

theorem get?_perm {m m' : List (Int × Int)} (h : Spec.C14.WF m) (hp : m.Perm m') (k : Int) :
    Model.C14.get? m k = Model.C14.get? m' k := by
  cases hg : Model.C14.get? m' k with
  | none =>
    rw [Lemmas.C14.get?_eq_none_iff] at hg ⊢
    exact fun hk => hg ((hp.map _).mem_iff.mp hk)
  | some v => exact Lemmas.C14.get?_eq_some_of_mem h (hp.mem_iff.mpr (Lemmas.C14.mem_of_get?_eq_some hg))

theorem idx_perm {m m' : List (Int × Int)} (h : Spec.C14.WF m) (hp : m.Perm m') (k : Int) :
    Model.C14.idx m k = Model.C14.idx m' k := by
  unfold Model.C14.idx
  rw [get?_perm h hp k]

/-! ## the loops -/

theorem filterMapLoopM_eq (fn : Int → Bool) (μ0 : MStore) (it acc : List (Int × Int)) :
    filterMapLoopM fn μ0.length it (μ0 ++ [acc]) = some (μ0 ++ [Model.C14.filterMapLoop fn it acc]) := by
  induction it generalizing acc with
  | nil => rfl
  | cons e r ih =>
    obtain ⟨k, v⟩ := e
    by_cases h : fn v = true
    · simp only [filterMapLoopM, Model.C14.filterMapLoop, h, if_true, mput_push]
      exact ih _
    · simp only [filterMapLoopM, Model.C14.filterMapLoop, h, if_false, Bool.false_eq_true]
      exact ih _

theorem mapValuesLoopM_eq (fn : Int → Int) (μ0 : MStore) (it acc : List (Int × Int)) :
    mapValuesLoopM fn μ0.length it (μ0 ++ [acc]) = some (μ0 ++ [Model.C14.mapValuesLoop fn it acc]) := by
  induction it generalizing acc with
  | nil => rfl
  | cons e r ih =>
    obtain ⟨k, v⟩ := e
    simp only [mapValuesLoopM, Model.C14.mapValuesLoop, mput_push]
    exact ih _

theorem mapKeysLoopM_eq (fn : Int → Int → Int) (μ0 : MStore) (it acc : List (Int × Int)) :
    mapKeysLoopM fn μ0.length it (μ0 ++ [acc]) = some (μ0 ++ [Model.C14.mapKeysLoop fn it acc]) := by
  induction it generalizing acc with
  | nil => rfl
  | cons e r ih =>
    obtain ⟨k, v⟩ := e
    simp only [mapKeysLoopM, Model.C14.mapKeysLoop, mput_push]
    exact ih _

theorem mapUniqueLoopM_eq (μ0 : MStore) (it acc : List (Int × Int)) (ref : List (Int × Bool)) :
    mapUniqueLoopM μ0.length it ref (μ0 ++ [acc]) = some (μ0 ++ [Model.C14.mapUniqueLoop it acc ref]) := by
  induction it generalizing acc ref with
  | nil => rfl
  | cons e r ih =>
    obtain ⟨k, v⟩ := e
    cases hg : Model.C14.get? ref v with
    | some b =>
      simp only [mapUniqueLoopM, Model.C14.mapUniqueLoop, hg]
      exact ih _ _
    | none =>
      simp only [mapUniqueLoopM, Model.C14.mapUniqueLoop, hg, mput_push]
      exact ih _ _

theorem findByKeyLoopM_eq (fn : Int → Bool) (μ0 : MStore) (it : List (Int × Int)) :
    findByKeyLoopM fn μ0.length it (μ0 ++ [[]]) = some (μ0 ++ [Model.C14.FindByKey fn it]) := by
  induction it with
  | nil => rfl
  | cons e r ih =>
    obtain ⟨k, v⟩ := e
    by_cases h : fn k = true
    · simp only [findByKeyLoopM, Model.C14.FindByKey, h, if_true, mput_push]
    · simp only [findByKeyLoopM, Model.C14.FindByKey, h, if_false, Bool.false_eq_true]
      exact ih

theorem pickByLoopM_eq (fn : Int → Int → Bool) (μ0 : MStore) {c : Nat} (hc : c < μ0.length)
    (it acc : List (Int × Int)) :
    pickByLoopM fn c μ0.length it (μ0 ++ [acc]) =
      some (μ0 ++ [Model.C14.pickByLoop (mget μ0 c) fn it acc]) := by
  induction it generalizing acc with
  | nil => rfl
  | cons e r ih =>
    obtain ⟨k, v⟩ := e
    by_cases h : fn k v = true
    · simp only [pickByLoopM, Model.C14.pickByLoop, h, if_true, mput_push, mindex_push_old _ hc]
      exact ih _
    · simp only [pickByLoopM, Model.C14.pickByLoop, h, if_false, Bool.false_eq_true]
      exact ih _

theorem c11_contains_eq (l : List Int) (k : Int) : Model.C11.contains k l = Model.C14.Contains l k := by
  induction l with
  | nil => rfl
  | cons x l ih => simp only [Model.C11.contains, Model.C14.Contains, ih]

theorem pickLoopM_eq {σ : Store} {keys : Slice} (hk : WF σ keys) (μ0 : MStore) {c : Nat} (hc : c < μ0.length)
    (it acc : List (Int × Int)) :
    pickLoopM σ keys c μ0.length it (μ0 ++ [acc]) =
      some (μ0 ++ [Model.C14.pickLoop (mget μ0 c) (elems σ keys) it acc]) := by
  induction it generalizing acc with
  | nil => rfl
  | cons e r ih =>
    obtain ⟨k, v⟩ := e
    simp only [pickLoopM, Model.C14.pickLoop, containsStore_eq hk, c11_contains_eq]
    cases Model.C14.Contains (elems σ keys) k with
    | true =>
      simp only [mput_push, mindex_push_old _ hc, if_true]
      exact ih _
    | false =>
      simp only [Bool.false_eq_true, if_false]
      exact ih _

theorem findLoopM_eq (fn : Int → Bool) {σ : Store} {keys : Slice} (hk : WF σ keys) (μ0 : MStore) {m : Nat}
    (hm : m < μ0.length) (n i : Nat) (hi : i + n = keys.len) :
    findLoopM fn σ keys m μ0.length n i (μ0 ++ [[]]) =
      some (μ0 ++ [Model.C14.findLoop (mget μ0 m) fn ((elems σ keys).drop i)]) := by
  induction n generalizing i with
  | zero => simp [findLoopM, drop_len_nil hk (show i = keys.len by omega), Model.C14.findLoop]
  | succ n ih =>
    obtain ⟨k, hr, hd⟩ := read_drop hk (show i < keys.len by omega)
    simp only [findLoopM, hr, hd, Model.C14.findLoop, mindex_push_old _ hm]
    by_cases h : fn (Model.C14.idx (mget μ0 m) k) = true
    · simp only [h, if_true, mput_push]
    · simp only [h, if_false, Bool.false_eq_true]
      exact ih (i + 1) (by omega)

theorem invertLoopM_eq {σ : Store} {keys : Slice} (hk : WF σ keys) (μ0 : MStore) {m : Nat}
    (hm : m < μ0.length) (n i : Nat) (hi : i + n = keys.len) (acc : List (Int × Int)) :
    invertLoopM σ keys m μ0.length n i (μ0 ++ [acc]) =
      some (μ0 ++ [Model.C14.invertLoop (mget μ0 m) ((elems σ keys).drop i) acc]) := by
  induction n generalizing i acc with
  | zero => simp [invertLoopM, drop_len_nil hk (show i = keys.len by omega), Model.C14.invertLoop]
  | succ n ih =>
    obtain ⟨k, hr, hd⟩ := read_drop hk (show i < keys.len by omega)
    simp only [invertLoopM, hr, hd, Model.C14.invertLoop, mindex_push_old _ hm, mput_push]
    exact ih (i + 1) (by omega) _

/-- the value-level loops look the map up only through `m[k]`: two maps that answer every lookup alike give
the same run -/
theorem findLoop_congr {m m' : List (Int × Int)} (h : ∀ k, Model.C14.idx m k = Model.C14.idx m' k)
    (fn : Int → Bool) (ks : List Int) : Model.C14.findLoop m fn ks = Model.C14.findLoop m' fn ks := by
  induction ks with
  | nil => rfl
  | cons k r ih => simp only [Model.C14.findLoop, h, ih]

theorem invertLoop_congr {m m' : List (Int × Int)} (h : ∀ k, Model.C14.idx m k = Model.C14.idx m' k)
    (ks : List Int) (acc : List (Int × Int)) :
    Model.C14.invertLoop m ks acc = Model.C14.invertLoop m' ks acc := by
  induction ks generalizing acc with
  | nil => rfl
  | cons k r ih => simp only [Model.C14.invertLoop, h, ih]

theorem pickLoop_congr {m m' : List (Int × Int)} (h : ∀ k, Model.C14.idx m k = Model.C14.idx m' k)
    (keys : List Int) (it acc : List (Int × Int)) :
    Model.C14.pickLoop m keys it acc = Model.C14.pickLoop m' keys it acc := by
  induction it generalizing acc with
  | nil => rfl
  | cons e r ih => obtain ⟨k, v⟩ := e; simp only [Model.C14.pickLoop, h, ih]

theorem pickByLoop_congr {m m' : List (Int × Int)} (h : ∀ k, Model.C14.idx m k = Model.C14.idx m' k)
    (fn : Int → Int → Bool) (it acc : List (Int × Int)) :
    Model.C14.pickByLoop m fn it acc = Model.C14.pickByLoop m' fn it acc := by
  induction it generalizing acc with
  | nil => rfl
  | cons e r ih => obtain ⟨k, v⟩ := e; simp only [Model.C14.pickByLoop, h, ih]

/-! ## the collection filters -/

theorem filterInnerM_eq (fn : Int → Bool) (item : Nat) (it : List (Int × Int)) (filtered : List Nat) :
    filterInnerM fn item it filtered = if it.any (fun e => fn e.2) then filtered ++ [item] else filtered := by
  induction it with
  | nil => rfl
  | cons e r ih =>
    obtain ⟨k, v⟩ := e
    simp only [filterInnerM, List.any_cons]
    by_cases h : fn v = true
    · simp [h]
    · have h' : fn v = false := by simpa using h
      simp only [h', Bool.false_eq_true, if_false, Bool.false_or]; exact ih

theorem filterCollLoopM_eq (orders : Nat → Order) (ho : ∀ i l, (orders i l).Perm l) (μ : MStore) (fn : Int → Bool)
    (coll : List Nat) (i : Nat) (filtered : List Nat) :
    filterCollLoopM orders μ fn coll i filtered =
      filtered ++ coll.filter (fun id => (mget μ id).any (fun e => fn e.2)) := by
  induction coll generalizing i filtered with
  | nil => simp [filterCollLoopM]
  | cons item r ih =>
    simp only [filterCollLoopM, filterInnerM_eq, ih, List.filter_cons, (ho i (mget μ item)).any_eq]
    split <;> simp

theorem filter2DInnerM_eq (μ : MStore) (fn : List (Int × Int) → Bool) (item : Nat) (it : List (Int × Nat))
    (filtered : List Nat) :
    filter2DInnerM μ fn item it filtered =
      if it.any (fun e => fn (mget μ e.2)) then filtered ++ [item] else filtered := by
  induction it with
  | nil => rfl
  | cons e r ih =>
    obtain ⟨k, v⟩ := e
    simp only [filter2DInnerM, List.any_cons]
    by_cases h : fn (mget μ v) = true
    · simp [h]
    · have h' : fn (mget μ v) = false := by simpa using h
      simp only [h', Bool.false_eq_true, if_false, Bool.false_or]; exact ih

theorem filter2DLoopM_eq (orders : Nat → List (Int × Nat) → List (Int × Nat)) (ho : ∀ i l, (orders i l).Perm l)
    (μ2 : M2Store) (μ : MStore) (fn : List (Int × Int) → Bool) (coll : List Nat) (i : Nat) (filtered : List Nat) :
    filter2DLoopM orders μ2 μ fn coll i filtered =
      filtered ++ coll.filter (fun id => (m2get μ2 id).any (fun e => fn (mget μ e.2))) := by
  induction coll generalizing i filtered with
  | nil => simp [filter2DLoopM]
  | cons item r ih =>
    simp only [filter2DLoopM, filter2DInnerM_eq, ih, List.filter_cons, (ho i (m2get μ2 item)).any_eq]
    split <;> simp

/-! ## PartitionMap: writing back the value just read -/

/-- `m[k] = v` for an entry `(k, v)` of a map (keys pairwise distinct) leaves the map as it is -/
theorem put_mem_self {m : List (Int × Int)} (h : Spec.C14.WF m) {k v : Int} (hm : (k, v) ∈ m) :
    Model.C14.put m k v = m := by
  induction m with
  | nil => cases hm
  | cons e r ih =>
    obtain ⟨k', v'⟩ := e
    rw [Lemmas.C14.wf_cons] at h
    by_cases hk : k' = k
    · subst hk
      rcases List.mem_cons.mp hm with he | he
      · cases he; simp [Model.C14.put]
      · exact absurd (List.mem_map_of_mem (f := Prod.fst) he) h.1
    · rcases List.mem_cons.mp hm with he | he
      · cases he; exact absurd rfl hk
      · simp only [Model.C14.put, if_neg hk, ih h.2 he]

/-- the same at store level: the whole map store is unchanged -/
theorem mput_self {μ : MStore} {m : Nat} {k v : Int} (hwf : Spec.C14.WF (mget μ m)) (hm : (k, v) ∈ mget μ m) :
    mput μ m k v = some μ := by
  have hlt : m < μ.length := by
    rcases Nat.lt_or_ge m μ.length with h | h
    · exact h
    · simp [mget, List.getElem?_eq_none h] at hm
  unfold mput
  rw [if_pos hlt]
  congr 1
  apply List.ext_getElem?
  intro j
  rw [List.getElem?_modify]
  by_cases hj : m = j
  · subst hj
    have hg : μ[m]? = some (mget μ m) := by simp [mget, List.getElem?_eq_getElem hlt]
    rw [hg]
    simp [put_mem_self hwf hm]
  · simp [hj]

theorem partitionMapLoopM_eq (orders : Nat → Order) (ho : ∀ i l, (orders i l).Perm l)
    (fn : List (Int × Int) → Bool) (μ : MStore) (ms : List Nat) (hwf : ∀ m ∈ ms, Spec.C14.WF (mget μ m))
    (i : Nat) (r0 r1 : List Nat) :
    partitionMapLoopM orders fn ms i μ r0 r1 =
      some (μ, r0 ++ ms.filter (fun m => !(mget μ m).isEmpty && fn (mget μ m)),
        r1 ++ ms.filter (fun m => !(mget μ m).isEmpty && !fn (mget μ m))) := by
  induction ms generalizing i r0 r1 with
  | nil => simp [partitionMapLoopM]
  | cons m ms ih =>
    have hwf' : ∀ m ∈ ms, Spec.C14.WF (mget μ m) := fun x hx => hwf x (List.mem_cons_of_mem _ hx)
    have hp := ho i (mget μ m)
    unfold partitionMapLoopM
    cases hv : orders i (mget μ m) with
    | nil =>
      rw [hv] at hp
      have he : mget μ m = [] := hp.symm.eq_nil
      simp only [ih hwf', List.filter_cons, he, List.isEmpty_nil, Bool.not_true, Bool.false_and,
        Bool.false_eq_true, if_false]
    | cons e t =>
      obtain ⟨k, v⟩ := e
      rw [hv] at hp
      have hmem : (k, v) ∈ mget μ m := hp.mem_iff.mp (List.mem_cons_self ..)
      have hne : (mget μ m).isEmpty = false := by
        cases hg : mget μ m with
        | nil => rw [hg] at hmem; cases hmem
        | cons _ _ => rfl
      simp only [mput_self (hwf m (List.mem_cons_self ..)) hmem, List.filter_cons, hne, Bool.not_false,
        Bool.true_and]
      cases hf : fn (mget μ m) with
      | true =>
        simp only [if_true, Bool.not_true, Bool.false_eq_true, if_false, ih hwf', List.append_assoc,
          List.singleton_append]
      | false =>
        simp only [Bool.false_eq_true, if_false, Bool.not_false, if_true, ih hwf', List.append_assoc,
          List.singleton_append]

/-! ## maps of slice headers: GroupBy, DuplicateWithIndex -/

theorem hput_push (η0 : HStore) (acc : List (Int × Slice)) (k : Int) (h : Slice) :
    hput (η0 ++ [acc]) η0.length k h = some (η0 ++ [Model.C14.put acc k h]) := by
  unfold hput
  rw [if_pos (by simp)]
  congr 1
  apply List.ext_getElem?
  intro j
  rw [List.getElem?_modify]
  rcases Nat.lt_trichotomy j η0.length with hj | hj | hj
  · have hne : ¬ η0.length = j := by omega
    rw [List.getElem?_append_left hj, List.getElem?_append_left hj]
    simp [hne]
  · subst hj
    simp
  · rw [List.getElem?_eq_none (by simp; omega), List.getElem?_eq_none (by simp; omega)]
    rfl

theorem hget_push (η0 : HStore) (acc : List (Int × Slice)) : hget (η0 ++ [acc]) η0.length = acc := by
  simp [hget]

/-- the invariant of a helper that builds a LOCAL map of slices: every array of the initial store `σ0` is
unchanged in `σ`, and every header in the map points into storage that did not exist in `σ0` -/
structure HInv (σ0 σ : Store) (acc : List (Int × Slice)) : Prop where
  len : σ0.length ≤ σ.length
  frame : Frame σ0 σ
  fresh : ∀ e ∈ acc, σ0.length ≤ e.2.arr

theorem HInv.put {σ0 σ : Store} {acc : List (Int × Slice)} (h : HInv σ0 σ acc) (k : Int) (s : Slice)
    (hs : σ0.length ≤ s.arr) : HInv σ0 σ (Model.C14.put acc k s) :=
  ⟨h.len, h.frame, fun e he => by
    rcases Lemmas.C14.mem_put_imp he with rfl | he
    · exact hs
    · exact h.fresh e he⟩

/-- what `m[k]` yields under the invariant: a header into new storage, or the nil slice (no capacity) -/
theorem HInv.index {σ0 σ : Store} {acc : List (Int × Slice)} (h : HInv σ0 σ acc) (η0 : HStore) (k : Int) :
    σ0.length ≤ (hindex (η0 ++ [acc]) η0.length k).arr ∨ (hindex (η0 ++ [acc]) η0.length k).cap = 0 := by
  unfold hindex
  rw [hget_push]
  cases hg : Model.C14.get? acc k with
  | none => exact Or.inr rfl
  | some s => exact Or.inl (h.fresh _ (Lemmas.C14.mem_of_get?_eq_some hg))

/-- `append` through a header into new storage (or through a slice without spare capacity) writes no array
below `base` -/
theorem append_frame_base (σ : Store) (s : Slice) (v : Int) (base : Nat) (hb : base ≤ σ.length)
    (hs : base ≤ s.arr ∨ s.cap = 0) :
    (∀ a, a < base → (append σ s v).1[a]? = σ[a]?) ∧ base ≤ (append σ s v).2.arr := by
  unfold append
  split
  · rename_i hlt
    have hs' : base ≤ s.arr := by rcases hs with h | h; exact h; omega
    exact ⟨fun a ha => Theorems.C16.setCell_other _ _ _ _ _ (by omega), hs'⟩
  · exact ⟨fun a ha => List.getElem?_append_left (by omega), hb⟩

theorem mbiEnsure_frame {σ0 σ σ1 : Store} {acc : List (Int × Slice)} (hinv : HInv σ0 σ acc) (η0 η1 : HStore)
    (v : Int) (cap : Nat) (h : mbiEnsure σ (η0 ++ [acc]) η0.length v cap = some (σ1, η1)) :
    ∃ acc1, η1 = η0 ++ [acc1] ∧ HInv σ0 σ1 acc1 := by
  unfold mbiEnsure at h
  rw [hget_push] at h
  cases hg : Model.C14.get? acc v with
  | some s =>
    simp only [hg, Option.some.injEq, Prod.mk.injEq] at h
    obtain ⟨rfl, rfl⟩ := h
    exact ⟨acc, rfl, hinv⟩
  | none =>
    simp only [hg, hput_push, Option.some.injEq, Prod.mk.injEq] at h
    obtain ⟨rfl, rfl⟩ := h
    obtain ⟨_, _, a3, a4, a5⟩ := alloc_spec σ 0 cap
    refine ⟨_, rfl, HInv.put ⟨by have := hinv.len; omega, fun a ha => ?_, hinv.fresh⟩ _ _
      (by rw [a3]; exact hinv.len)⟩
    rw [a5 a (Nat.lt_of_lt_of_le ha hinv.len), hinv.frame a ha]

theorem mbiAppend_frame {σ0 σ σ1 : Store} {acc : List (Int × Slice)} (hinv : HInv σ0 σ acc) (η0 η1 : HStore)
    (v x : Int) (h : mbiAppend σ (η0 ++ [acc]) η0.length v x = some (σ1, η1)) :
    ∃ acc1, η1 = η0 ++ [acc1] ∧ HInv σ0 σ1 acc1 := by
  unfold mbiAppend at h
  simp only [hput_push, Option.some.injEq, Prod.mk.injEq] at h
  obtain ⟨rfl, rfl⟩ := h
  obtain ⟨f1, f2⟩ := append_frame_base σ (hindex (η0 ++ [acc]) η0.length v) x σ0.length hinv.len
    (hinv.index η0 v)
  refine ⟨_, rfl, HInv.put ⟨Nat.le_trans hinv.len (Theorems.C16.append_length_ge _ _ _), fun a ha => ?_,
    hinv.fresh⟩ _ _ f2⟩
  rw [f1 a ha, hinv.frame a ha]

theorem mapByIndexLoopS_frame {σ0 : Store} (orig ms : Slice) (η0 : HStore) (n idx : Nat) (σ : Store)
    (acc : List (Int × Slice)) (hinv : HInv σ0 σ acc) {σ' : Store} {η' : HStore}
    (h : mapByIndexLoopS orig ms η0.length n idx σ (η0 ++ [acc]) = some (σ', η')) :
    ∃ acc', η' = η0 ++ [acc'] ∧ HInv σ0 σ' acc' := by
  induction n generalizing idx σ acc with
  | zero =>
    simp only [mapByIndexLoopS, Option.some.injEq, Prod.mk.injEq] at h
    obtain ⟨rfl, rfl⟩ := h
    exact ⟨acc, rfl, hinv⟩
  | succ n ih =>
    unfold mapByIndexLoopS at h
    cases hr : read σ ms idx with
    | none => rw [hr] at h; cases h
    | some v =>
      rw [hr] at h
      simp only at h
      cases he : mbiEnsure σ (η0 ++ [acc]) η0.length v ms.len with
      | none => rw [he] at h; cases h
      | some p1 =>
        obtain ⟨σ1, η1⟩ := p1
        rw [he] at h
        simp only at h
        obtain ⟨acc1, rfl, hinv1⟩ := mbiEnsure_frame hinv η0 η1 v ms.len he
        cases hx : read σ1 orig idx with
        | none => rw [hx] at h; cases h
        | some x =>
          rw [hx] at h
          simp only at h
          cases ha : mbiAppend σ1 (η0 ++ [acc1]) η0.length v x with
          | none => rw [ha] at h; cases h
          | some p2 =>
            obtain ⟨σ2, η2⟩ := p2
            rw [ha] at h
            simp only at h
            obtain ⟨acc2, rfl, hinv2⟩ := mbiAppend_frame hinv1 η0 η2 v x ha
            exact ih (idx + 1) σ2 acc2 hinv2 h

/-- `kvMap[k][i] = x` writes through a header of the local map: no array of the initial store -/
theorem hwrite_frame {σ0 σ σ1 : Store} {acc : List (Int × Slice)} (hinv : HInv σ0 σ acc) (η0 : HStore)
    (k : Int) (i : Nat) (x : Int) (h : hwrite σ (η0 ++ [acc]) η0.length k i x = some σ1) : HInv σ0 σ1 acc := by
  unfold hwrite at h
  have hl := Theorems.C16.write_length _ _ _ _ _ h
  refine ⟨by rw [hl]; exact hinv.len, fun a ha => ?_, hinv.fresh⟩
  have hne : (hindex (η0 ++ [acc]) η0.length k).arr ≠ a := by
    unfold hindex at h ⊢
    rw [hget_push] at h ⊢
    cases hg : Model.C14.get? acc k with
    | none =>
      -- the nil slice has no cell to write
      simp [hg, write, Model.StoreHelpers2.nilSlice] at h
    | some s =>
      have := hinv.fresh _ (Lemmas.C14.mem_of_get?_eq_some hg)
      simp only [Option.getD_some]
      simp only at this
      omega
  rw [Theorems.C16.write_other _ _ _ _ _ a h hne, hinv.frame a ha]

theorem dupIdxLoopS_frame {σ0 : Store} (slice : Slice) (η0 : HStore) (n idx : Nat) (count : Int) (σ : Store)
    (acc : List (Int × Slice)) (hinv : HInv σ0 σ acc) {σ' : Store} {η' : HStore}
    (h : dupIdxLoopS slice η0.length n idx count σ (η0 ++ [acc]) = some (σ', η')) :
    ∃ acc', η' = η0 ++ [acc'] ∧ HInv σ0 σ' acc' := by
  induction n generalizing idx count σ acc with
  | zero =>
    simp only [dupIdxLoopS, Option.some.injEq, Prod.mk.injEq] at h
    obtain ⟨rfl, rfl⟩ := h
    exact ⟨acc, rfl, hinv⟩
  | succ n ih =>
    unfold dupIdxLoopS at h
    rw [hget_push] at h
    cases hr : read σ slice idx with
    | none => rw [hr] at h; cases h
    | some v =>
      rw [hr] at h
      simp only at h
      cases hg : Model.C14.get? acc v with
      | none =>
        simp only [hg, hput_push] at h
        obtain ⟨_, _, a3, a4, a5⟩ := alloc_spec σ 2 2
        have hinv1 : HInv σ0 (alloc σ 2 2).1 (Model.C14.put acc v (alloc σ 2 2).2) := by
          refine HInv.put ⟨by have := hinv.len; omega, fun a ha => ?_, hinv.fresh⟩ _ _
            (by rw [a3]; exact hinv.len)
          rw [a5 a (Nat.lt_of_lt_of_le ha hinv.len), hinv.frame a ha]
        cases hw0 : hwrite (alloc σ 2 2).1 (η0 ++ [Model.C14.put acc v (alloc σ 2 2).2]) η0.length v 0 (idx : Int) with
        | none => rw [hw0] at h; cases h
        | some σ2 =>
          rw [hw0] at h
          simp only at h
          have hinv2 := hwrite_frame hinv1 η0 v 0 _ hw0
          cases hw1 : hwrite σ2 (η0 ++ [Model.C14.put acc v (alloc σ 2 2).2]) η0.length v 1 1 with
          | none => rw [hw1] at h; cases h
          | some σ3 =>
            rw [hw1] at h
            simp only at h
            exact ih (idx + 1) 1 σ3 _ (hwrite_frame hinv2 η0 v 1 _ hw1) h
      | some s =>
        simp only [hg] at h
        cases hw : hwrite σ (η0 ++ [acc]) η0.length v 1 (count + 1) with
        | none => rw [hw] at h; cases h
        | some σ1 =>
          rw [hw] at h
          simp only at h
          exact ih (idx + 1) (count + 1) σ1 acc (hwrite_frame hinv η0 v 1 _ hw) h

/-- the second loop of `DuplicateWithIndex` writes only the map under construction -/
theorem dupIdxCollectM_push (σ : Store) (μ0 : MStore) (it : List (Int × Slice)) (acc : List (Int × Int))
    {μ' : MStore} (h : dupIdxCollectM σ μ0.length it (μ0 ++ [acc]) = some μ') : ∃ obj, μ' = μ0 ++ [obj] := by
  induction it generalizing acc with
  | nil => simp only [dupIdxCollectM, Option.some.injEq] at h; exact ⟨acc, h.symm⟩
  | cons e r ih =>
    obtain ⟨k, v⟩ := e
    unfold dupIdxCollectM at h
    cases h1 : read σ v 1 with
    | none => rw [h1] at h; cases h
    | some c =>
      rw [h1] at h
      simp only at h
      by_cases hc : c > 1
      · simp only [hc, if_true] at h
        cases h0 : read σ v 0 with
        | none => rw [h0] at h; cases h
        | some i =>
          rw [h0] at h
          simp only [mput_push] at h
          exact ih _ h
      · simp only [hc, if_false] at h
        exact ih _ h

end GoguVerif.Lemmas.C16Helpers5
