import GoguVerif.Spec.C17
import GoguVerif.Lemmas.C17Log
/-!
# C17 — the cache-history bridge (helper lemmas)

Pure list facts first (sorted lists with the same members are equal; the shape of `Spec.C17.history`),
then the invariants of the ghost history log `HLog` of the Memoize protocol LTS.
-/
namespace GoguVerif.Lemmas.C17
open GoguVerif.Model.C17

/-! ## lists -/

/-- two lists sorted by an asymmetric, irreflexive (on their members) relation and having the same
members are equal -/
theorem pairwise_ext {α : Type} (R : α → α → Prop) :
    ∀ (l1 l2 : List α), l1.Pairwise R → l2.Pairwise R →
      (∀ a, a ∈ l1 → ∀ b, b ∈ l1 → R a b → R b a → False) → (∀ a, a ∈ l1 → R a a → False) →
      (∀ x, x ∈ l1 ↔ x ∈ l2) → l1 = l2
  | [], l2, _, _, _, _, hm => by
    cases l2 with
    | nil => rfl
    | cons b t => exact absurd ((hm b).2 (List.mem_cons_self)) (by simp)
  | a :: t, l2, h1, h2, hasym, hirr, hm => by
    cases l2 with
    | nil => exact absurd ((hm a).1 (List.mem_cons_self)) (by simp)
    | cons b t2 =>
      rw [List.pairwise_cons] at h1 h2
      have hab : a = b := by
        have ha : a ∈ b :: t2 := (hm a).1 List.mem_cons_self
        have hb : b ∈ a :: t := (hm b).2 List.mem_cons_self
        rcases List.mem_cons.1 ha with h | h
        · exact h
        · rcases List.mem_cons.1 hb with h' | h'
          · exact h'.symm
          · exact absurd (h1.1 b h') (fun r1 => hasym a List.mem_cons_self b hb r1 (h2.1 a h))
      subst hab
      have hnot1 : a ∉ t := fun h => hirr a List.mem_cons_self (h1.1 a h)
      have hnot2 : a ∉ t2 := fun h => hirr a List.mem_cons_self (by
        have : a ∈ a :: t := List.mem_cons_self
        exact h2.1 a h)
      have htl : t = t2 := by
        apply pairwise_ext R t t2 h1.2 h2.2
        · intro x hx y hy; exact hasym x (List.mem_cons_of_mem _ hx) y (List.mem_cons_of_mem _ hy)
        · intro x hx; exact hirr x (List.mem_cons_of_mem _ hx)
        · intro x
          constructor
          · intro hx
            rcases List.mem_cons.1 ((hm x).1 (List.mem_cons_of_mem _ hx)) with h | h
            · subst h; exact absurd hx hnot1
            · exact h
          · intro hx
            rcases List.mem_cons.1 ((hm x).2 (List.mem_cons_of_mem _ hx)) with h | h
            · subst h; exact absurd hx hnot2
            · exact h
      rw [htl]

/-- in a sorted list split at `x`, the part up to and including `x` consists of the members that do not
come after `x` -/
theorem mem_upto_iff {α : Type} (R : α → α → Prop) (A B : List α) (x : α)
    (h : (A ++ x :: B).Pairwise R)
    (hasym : ∀ a, a ∈ A ++ x :: B → ∀ b, b ∈ A ++ x :: B → R a b → R b a → False)
    (hirr : ∀ a, a ∈ A ++ x :: B → R a a → False) (y : α) :
    y ∈ A ++ [x] ↔ y ∈ A ++ x :: B ∧ ¬ R x y := by
  rw [List.pairwise_append, List.pairwise_cons] at h
  obtain ⟨_, ⟨hxB, _⟩, hAx⟩ := h
  have hx : x ∈ A ++ x :: B := by simp
  constructor
  · intro hy
    rcases List.mem_append.1 hy with h1 | h1
    · have hyL : y ∈ A ++ x :: B := List.mem_append_left _ h1
      exact ⟨hyL, fun r => hasym y hyL x hx (hAx y h1 x List.mem_cons_self) r⟩
    · simp only [List.mem_singleton] at h1
      subst h1
      exact ⟨hx, fun r => hirr y hx r⟩
  · rintro ⟨hy, hr⟩
    rcases List.mem_append.1 hy with h1 | h1
    · exact List.mem_append_left _ h1
    · rcases List.mem_cons.1 h1 with h2 | h2
      · subst h2; simp
      · exact absurd (hxB y h2) hr

/-! ## the shape of `Spec.C17.history` -/

/-- the executions `history` looks at: successful ones of key `k` -/
def Pk (k : Int) (e : Spec.C17.Exec) : Bool := e.key == k && e.success

/-- one successful execution offers its value to the cache at the instant it ends -/
def stepE (exp : Int) (en : Spec.C17.Entry) (e : Spec.C17.Exec) : Spec.C17.Entry :=
  Spec.C17.offer exp e.endT en e.val

theorem history_go_cons (exp k i : Int) (cur : Spec.C17.Entry) (e : Spec.C17.Exec) (r : List Spec.C17.Exec) :
    Spec.C17.history.go exp k i cur (e :: r) =
      if Pk k e then (i, stepE exp cur e) :: Spec.C17.history.go exp k (i + 1) (stepE exp cur e) r
      else Spec.C17.history.go exp k (i + 1) cur r := by
  simp only [Spec.C17.history.go, Pk, stepE]
  by_cases h : (e.key == k && e.success) = true
  · simp only [h, if_true]
  · simp only [h, if_false]

/-- the members of `history`: one per successful execution of the key, carrying the position of the
execution in the list and the entry obtained by offering, in list order, every successful execution
of the key up to and including it -/
theorem history_go_mem_iff (exp k : Int) : ∀ (execs : List Spec.C17.Exec) (i : Int) (cur : Spec.C17.Entry)
    (i' : Int) (en : Spec.C17.Entry),
    (i', en) ∈ Spec.C17.history.go exp k i cur execs ↔
      ∃ A e B, execs = A ++ e :: B ∧ i' = i + (A.length : Int) ∧ Pk k e = true ∧
        en = stepE exp ((A.filter (Pk k)).foldl (stepE exp) cur) e
  | [], i, cur, i', en => by
    simp [Spec.C17.history.go]
  | e0 :: r, i, cur, i', en => by
    rw [history_go_cons]
    have ih := history_go_mem_iff exp k r
    by_cases hp : Pk k e0 = true
    · simp only [hp, if_true, List.mem_cons, Prod.mk.injEq]
      constructor
      · rintro (⟨h1, h2⟩ | h)
        · exact ⟨[], e0, r, rfl, by simp [h1], hp, by simp [h2]⟩
        · obtain ⟨A, e, B, h1, h2, h3, h4⟩ := (ih _ _ _ _).1 h
          refine ⟨e0 :: A, e, B, by simp [h1], by simp [h2]; omega, h3, ?_⟩
          simp only [List.filter_cons, hp, if_true, List.foldl_cons]
          exact h4
      · rintro ⟨A, e, B, h1, h2, h3, h4⟩
        cases A with
        | nil =>
          simp only [List.nil_append, List.cons.injEq] at h1
          obtain ⟨h1a, _⟩ := h1
          subst h1a
          left
          simp at h2 h4
          exact ⟨h2, h4⟩
        | cons a A' =>
          simp only [List.cons_append, List.cons.injEq] at h1
          obtain ⟨h1a, h1b⟩ := h1
          subst h1a
          right
          refine (ih _ _ _ _).2 ⟨A', e, B, h1b, by simp at h2; omega, h3, ?_⟩
          simp only [List.filter_cons, hp, if_true, List.foldl_cons] at h4
          exact h4
    · simp only [hp, Bool.false_eq_true, if_false]
      constructor
      · intro h
        obtain ⟨A, e, B, h1, h2, h3, h4⟩ := (ih _ _ _ _).1 h
        refine ⟨e0 :: A, e, B, by simp [h1], by simp [h2]; omega, h3, ?_⟩
        simp only [List.filter_cons, hp, Bool.false_eq_true, if_false]
        exact h4
      · rintro ⟨A, e, B, h1, h2, h3, h4⟩
        cases A with
        | nil =>
          simp only [List.nil_append, List.cons.injEq] at h1
          obtain ⟨h1a, _⟩ := h1
          subst h1a
          exact absurd h3 hp
        | cons a A' =>
          simp only [List.cons_append, List.cons.injEq] at h1
          obtain ⟨h1a, h1b⟩ := h1
          subst h1a
          refine (ih _ _ _ _).2 ⟨A', e, B, h1b, by simp at h2; omega, h3, ?_⟩
          simp only [List.filter_cons, hp, Bool.false_eq_true, if_false] at h4
          exact h4

theorem history_go_last (exp k : Int) : ∀ (execs : List Spec.C17.Exec) (i : Int) (cur : Spec.C17.Entry),
    (match (Spec.C17.history.go exp k i cur execs).getLast? with
     | some (_, e) => e
     | none => cur) = (execs.filter (Pk k)).foldl (stepE exp) cur
  | [], i, cur => by simp [Spec.C17.history.go]
  | e0 :: r, i, cur => by
    rw [history_go_cons]
    by_cases hp : Pk k e0 = true
    · simp only [hp, if_true, List.filter_cons, List.foldl_cons, List.getLast?_cons]
      have ih := history_go_last exp k r (i + 1) (stepE exp cur e0)
      rw [← ih]
      cases (Spec.C17.history.go exp k (i + 1) (stepE exp cur e0) r).getLast? with
      | none => rfl
      | some x => rfl
    · simp only [hp, Bool.false_eq_true, if_false, List.filter_cons]
      exact history_go_last exp k r (i + 1) cur

/-- the entry after all executions: every successful execution of the key offered in list order -/
theorem finalEntry_eq (exp k : Int) (e0 : Spec.C17.Entry) (execs : List Spec.C17.Exec) :
    Spec.C17.finalEntry exp k e0 execs = (execs.filter (Pk k)).foldl (stepE exp) e0 := by
  unfold Spec.C17.finalEntry Spec.C17.history
  exact history_go_last exp k execs 0 e0

/-! ## the offers made to the cache -/

/-- the cache cell after a list of offers `(leader, value, instant)` -/
def foldSets (E : Int) (cell : Cell) (T : List (Nat × Int × Int)) : Cell :=
  T.foldl (fun cell p => cellSet E p.2.2 cell p.2.1) cell

/-- a cell that is live at `T0` refuses every offer made at an instant `≤ T0` -/
theorem foldSets_of_live {E T0 : Int} {v : Int} : ∀ (R : List (Nat × Int × Int)) (cell : Cell),
    cellGet T0 cell = some v → (∀ p ∈ R, p.2.2 ≤ T0) → foldSets E cell R = cell
  | [], _, _, _ => rfl
  | p :: R, cell, hl, ht => by
    simp only [foldSets, List.foldl_cons]
    rw [cellSet_of_live hl (ht p List.mem_cons_self)]
    exact foldSets_of_live R cell hl (fun q hq => ht q (List.mem_cons_of_mem _ hq))

/-- the caller's function has run and its (successful) result has been offered to the cache -/
def isSet (s : State) (l : Nat) : Prop :=
  (∃ v, s.pc l = .setDone (.ok v) ∧ s.src l = some (.exec l)) ∨
  (∃ v, s.pc l = .done (.ok v) ∧ s.src l = some (.exec l))

/-- the caller's function has started and the caller is still the registered call of its key -/
def activeStarted : PC → Bool
  | .running | .ran _ | .setDone _ => true
  | _ => false

theorem isSet_of_others {s s' : State} {a : Nat} (hpc : ∀ c, c ≠ a → s'.pc c = s.pc c)
    (hsrc : ∀ c, c ≠ a → s'.src c = s.src c) (ha : isSet s' a ↔ isSet s a) (l : Nat) :
    isSet s' l ↔ isSet s l := by
  by_cases hl : l = a
  · subst hl; exact ha
  · unfold isSet; rw [hpc l hl, hsrc l hl]

theorem isSet_add {s s' : State} {a : Nat} (hpc : ∀ c, c ≠ a → s'.pc c = s.pc c)
    (hsrc : ∀ c, c ≠ a → s'.src c = s.src c) (ha : isSet s' a) (x : Nat) :
    isSet s' x ↔ (isSet s x ∨ x = a) := by
  by_cases hxa : x = a
  · subst hxa; exact ⟨fun _ => Or.inr rfl, fun _ => ha⟩
  · unfold isSet
    rw [hpc x hxa, hsrc x hxa]
    exact ⟨fun hx => Or.inl hx, fun hx => hx.resolve_right hxa⟩

structure SetsInv (cfg : Cfg) (c0 : Nat → Cell) (s : State) (g : EvLog) (h : HLog) : Prop where
  now0 : 0 ≤ s.now
  fact : ∀ p ∈ h.sets, s.execRes p.1 = some (.ok p.2.1) ∧ g.endT p.1 = some p.2.2 ∧ 0 ≤ p.2.2 ∧
          p.2.2 ≤ s.now ∧ isSet s p.1
  compl : ∀ l, isSet s l → ∃ p ∈ h.sets, p.1 = l
  sorted : h.sets.Pairwise (fun p q => cfg.key p.1 = cfg.key q.1 →
            ∀ x y, g.startAt p.1 = some x → g.startAt q.1 = some y → x < y)
  cacheA : ∀ k, s.cache k = foldSets cfg.expTime (c0 k) (h.sets.filter (fun p => cfg.key p.1 == k))
  dD : ∀ a c' x x', activeStarted (s.pc a) = true → c' ≠ a → cfg.key c' = cfg.key a →
          g.startAt c' = some x' → g.startAt a = some x → x' < x

theorem setsinv_init (cfg : Cfg) (c0 : Nat → Cell) (now : Int) (h0 : 0 ≤ now) :
    SetsInv cfg c0 (init c0 now) EvLog.empty HLog.empty where
  now0 := h0
  fact := by intro p hp; simp [HLog.empty] at hp
  compl := by intro l hl; simp [isSet, init] at hl
  sorted := by simp [HLog.empty]
  cacheA := by intro k; simp [HLog.empty, foldSets, init]
  dD := by intro a c' x x' ha; simp [init, activeStarted] at ha

/-- steps that offer nothing and start nothing keep `SetsInv` -/
theorem setsinv_frame' {cfg : Cfg} {c0 : Nat → Cell} {s s' : State} {g g' : EvLog} {h h' : HLog}
    (hi : SetsInv cfg c0 s g h) (hsets : h'.sets = h.sets)
    (hset : ∀ l, isSet s' l ↔ isSet s l)
    (hact : ∀ a, activeStarted (s'.pc a) = true → activeStarted (s.pc a) = true ∨ g.startAt a = none)
    (hex : ∀ l, isSet s l → s'.execRes l = s.execRes l)
    (het : ∀ l, isSet s l → g'.endT l = g.endT l)
    (hc : s'.cache = s.cache) (hnow : s.now ≤ s'.now) (hst : g'.startAt = g.startAt) :
    SetsInv cfg c0 s' g' h' := by
  refine ⟨by have := hi.now0; omega, ?_, ?_, ?_, ?_, ?_⟩
  · intro p hp
    rw [hsets] at hp
    obtain ⟨h1, h2, h3, h4, h5⟩ := hi.fact p hp
    exact ⟨by rw [hex _ h5]; exact h1, by rw [het _ h5]; exact h2, h3, by omega, (hset _).2 h5⟩
  · intro l hl; rw [hsets]; exact hi.compl l ((hset l).1 hl)
  · rw [hst, hsets]; exact hi.sorted
  · intro k; rw [hc, hsets]; exact hi.cacheA k
  · intro a c' x x' ha hne hk hx' hx
    rw [hst] at hx' hx
    rcases hact a ha with h1 | h1
    · exact hi.dD a c' x x' h1 hne hk hx' hx
    · rw [h1] at hx; cases hx

theorem setsinv_frame {cfg : Cfg} {c0 : Nat → Cell} {s s' : State} {g g' : EvLog} {h h' : HLog}
    (hi : SetsInv cfg c0 s g h) (hsets : h'.sets = h.sets)
    (hset : ∀ l, isSet s' l ↔ isSet s l)
    (hact : ∀ a, activeStarted (s'.pc a) = true → activeStarted (s.pc a) = true)
    (hex : ∀ l, isSet s l → s'.execRes l = s.execRes l)
    (het : ∀ l, isSet s l → g'.endT l = g.endT l)
    (hc : s'.cache = s.cache) (hnow : s.now ≤ s'.now) (hst : g'.startAt = g.startAt) :
    SetsInv cfg c0 s' g' h' :=
  setsinv_frame' hi hsets hset (fun a ha => Or.inl (hact a ha)) hex het hc hnow hst

/-- what `histStep` does at a `wake` step: nothing, or the joiner's (virtual) re-read is recorded -/
theorem histStep_wake (cfg : Cfg) (s : State) (h : HLog) (a : Nat) :
    histStep cfg s h (.wake a) = h ∨
    histStep cfg s h (.wake a) = { h with readLen := upd h.readLen a (some h.sets.length) } := by
  simp only [histStep]
  split
  · split
    · exact Or.inr rfl
    · exact Or.inl rfl
  · exact Or.inl rfl

theorem setsinv_step {cfg : Cfg} {c0 : Nat → Cell} {s s' : State} {g : EvLog} {h : HLog} {l : Label}
    (hinv : Inv cfg c0 s) (hsi : SInv cfg s g) (hti : TInv s g) (hi : SetsInv cfg c0 s g h)
    (hs : step cfg s l = some s') : SetsInv cfg c0 s' (logStep cfg s g l) (histStep cfg s h l) := by
  cases l with
  | invoke a =>
    simp only [step] at hs; split at hs <;> try (simp at hs)
    rename_i hpc
    subst hs
    refine setsinv_frame hi rfl ?_ ?_ (fun _ _ => rfl) (fun _ _ => rfl) rfl (Int.le_refl _) rfl
    · exact isSet_of_others (fun c hc => upd_other _ _ _ _ hc) (fun _ _ => rfl)
        (by simp [isSet, upd_same, hpc])
    · intro c hc
      by_cases hca : c = a
      · subst hca; simp [upd_same, activeStarted] at hc
      · simpa [upd_other _ _ _ _ hca] using hc
  | cacheCheck a =>
    simp only [step] at hs; split at hs <;> try (simp at hs)
    rename_i hpc
    split at hs <;> simp at hs <;> subst hs
    · rename_i v hv
      simp only [logStep, hv]
      refine setsinv_frame hi rfl ?_ ?_ (fun _ _ => rfl) (fun _ _ => rfl) rfl (Int.le_refl _) rfl
      · exact isSet_of_others (fun c hc => upd_other _ _ _ _ hc) (fun c hc => upd_other _ _ _ _ hc)
          (by simp [isSet, upd_same, hpc])
      · intro c hc
        by_cases hca : c = a
        · subst hca; simp [upd_same, activeStarted] at hc
        · simpa [upd_other _ _ _ _ hca] using hc
    · rename_i hv
      simp only [logStep, hv]
      refine setsinv_frame hi rfl ?_ ?_ (fun _ _ => rfl) (fun _ _ => rfl) rfl (Int.le_refl _) rfl
      · exact isSet_of_others (fun c hc => upd_other _ _ _ _ hc) (fun _ _ => rfl)
          (by simp [isSet, upd_same, hpc])
      · intro c hc
        by_cases hca : c = a
        · subst hca; simp [upd_same, activeStarted] at hc
        · simpa [upd_other _ _ _ _ hca] using hc
  | doEnter a =>
    simp only [step] at hs; split at hs <;> try (simp at hs)
    rename_i hpc
    split at hs <;> simp at hs <;> subst hs
    all_goals
      refine setsinv_frame hi rfl ?_ ?_ (fun _ _ => rfl) (fun _ _ => rfl) rfl (Int.le_refl _) rfl
      · exact isSet_of_others (fun c hc => upd_other _ _ _ _ hc) (fun c hc => upd_other _ _ _ _ hc)
          (by simp [isSet, upd_same, hpc])
      · intro c hc
        by_cases hca : c = a
        · subst hca; simp [upd_same, activeStarted] at hc
        · simpa [upd_other _ _ _ _ hca] using hc
  | wake a =>
    simp only [step] at hs; split at hs <;> try (simp at hs)
    rename_i l' hpc
    have hla := hinv.loc a
    simp only [Local, hpc] at hla
    split at hs <;> simp at hs
    rename_i r hr
    subst hs
    have hne : l' ≠ a := by
      intro h; subst h
      have := (published_done (hinv.loc l') hr).1
      rw [hpc] at this; cases this
    have hws : wakeSrc s a l' ≠ some (.exec a) := by
      intro hw
      unfold wakeSrc at hw
      split at hw
      · cases hw
      · rw [hla.1] at hw
        simp only [Option.some.injEq, Src.exec.injEq] at hw
        exact hne hw
    have hrw : histStep cfg s h (.wake a) = h ∨
        histStep cfg s h (.wake a) = { h with readLen := upd h.readLen a (some h.sets.length) } :=
      histStep_wake cfg s h a
    refine setsinv_frame hi (by rcases hrw with e | e <;> rw [e]) ?_ ?_ (fun _ _ => rfl) (fun _ _ => rfl) rfl
      (Int.le_refl _) rfl
    · refine isSet_of_others (fun c hc => upd_other _ _ _ _ hc) (fun c hc => upd_other _ _ _ _ hc) ?_
      simp only [isSet, upd_same, hpc]
      constructor
      · rintro (⟨v, h1, _⟩ | ⟨v, _, h2⟩)
        · cases h1
        · exact absurd h2 hws
      · rintro (⟨v, h1, _⟩ | ⟨v, h1, _⟩) <;> cases h1
    · intro c hc
      by_cases hca : c = a
      · subst hca; simp [upd_same, activeStarted] at hc
      · simpa [upd_other _ _ _ _ hca] using hc
  | doFinish a =>
    simp only [step] at hs; split at hs <;> try (simp at hs)
    rename_i r hpc
    have hla := hinv.loc a
    simp only [Local, hpc] at hla
    subst hs
    refine setsinv_frame hi rfl ?_ ?_ (fun _ _ => rfl) (fun _ _ => rfl) rfl (Int.le_refl _) rfl
    · refine isSet_of_others (fun c hc => upd_other _ _ _ _ hc) (fun _ _ => rfl) ?_
      simp only [isSet, upd_same, hpc]
      constructor
      · rintro (⟨v, h1, _⟩ | ⟨v, h1, h2⟩)
        · cases h1
        · simp only [PC.done.injEq] at h1; exact Or.inl ⟨v, by rw [h1], h2⟩
      · rintro (⟨v, h1, h2⟩ | ⟨v, h1, _⟩)
        · simp only [PC.setDone.injEq] at h1; exact Or.inr ⟨v, by rw [h1], h2⟩
        · cases h1
    · intro c hc
      by_cases hca : c = a
      · subst hca; simp [upd_same, activeStarted] at hc
      · simpa [upd_other _ _ _ _ hca] using hc
  | fnEnd a r =>
    simp only [step] at hs; split at hs <;> try (simp at hs)
    rename_i hpc
    subst hs
    have hna : ∀ x, isSet s x → x ≠ a := by
      intro x hx hxa; subst hxa
      rcases hx with ⟨v, h1, _⟩ | ⟨v, h1, _⟩ <;> (rw [hpc] at h1; cases h1)
    refine setsinv_frame hi rfl ?_ ?_ (fun x hx => upd_other _ _ _ _ (hna x hx)) (fun x hx => upd_other _ _ _ _ (hna x hx))
      rfl (Int.le_refl _) rfl
    · exact isSet_of_others (fun c hc => upd_other _ _ _ _ hc) (fun _ _ => rfl)
        (by simp [isSet, upd_same, hpc])
    · intro c hc
      by_cases hca : c = a
      · subst hca; simp [hpc, activeStarted]
      · simpa [upd_other _ _ _ _ hca] using hc
  | tick d =>
    simp only [step, Option.some.injEq] at hs
    subst hs
    exact setsinv_frame hi rfl (fun _ => Iff.rfl) (fun _ hc => hc) (fun _ _ => rfl) (fun _ _ => rfl) rfl
      (by show s.now ≤ s.now + (d : Int); omega) rfl
  | leadHit a =>
    simp only [step] at hs; split at hs <;> try (simp at hs)
    rename_i hpc
    have hsa := hsi.loc a
    simp only [SLocal, hpc] at hsa
    split at hs <;> simp at hs
    subst hs
    refine setsinv_frame' hi rfl ?_ ?_ (fun _ _ => rfl) (fun _ _ => rfl) rfl (Int.le_refl _) rfl
    · exact isSet_of_others (fun c hc => upd_other _ _ _ _ hc) (fun c hc => upd_other _ _ _ _ hc)
        (by simp [isSet, upd_same, hpc])
    · intro c hc
      by_cases hca : c = a
      · subst hca; exact Or.inr hsa.2.2.1
      · left; simpa [upd_other _ _ _ _ hca] using hc
  | fnStart a =>
    simp only [step] at hs; split at hs <;> try (simp at hs)
    rename_i hpc
    have hfa := hinv.lead a (by simp [hpc, active])
    split at hs <;> simp at hs
    have e_pc : s'.pc = upd s.pc a .running := by rw [← hs]
    have e_src : s'.src = s.src := by rw [← hs]
    have e_ex : s'.execRes = s.execRes := by rw [← hs]
    have e_cache : s'.cache = s.cache := by rw [← hs]
    have e_now : s'.now = s.now := by rw [← hs]
    clear hs
    have hna : ∀ x, isSet s x → x ≠ a := by
      intro x hx hxa; subst hxa
      rcases hx with ⟨v, h1, _⟩ | ⟨v, h1, _⟩ <;> (rw [hpc] at h1; cases h1)
    have hset : ∀ x, isSet s' x ↔ isSet s x :=
      isSet_of_others (a := a) (fun c hc => by rw [e_pc]; exact upd_other _ _ _ _ hc) (fun c _ => by rw [e_src])
        (by simp [isSet, e_pc, upd_same, hpc])
    refine ⟨by rw [e_now]; exact hi.now0, ?_, ?_, ?_, by rw [e_cache]; exact hi.cacheA, ?_⟩
    · intro p hp
      obtain ⟨h1, h2, h3, h4, h5⟩ := hi.fact p hp
      exact ⟨by rw [e_ex]; exact h1, h2, h3, by rw [e_now]; exact h4, (hset _).2 h5⟩
    · intro x hx
      exact hi.compl x ((hset x).1 hx)
    · refine List.Pairwise.imp_of_mem ?_ hi.sorted
      intro p q hp hq hpq hk x y hx hy
      have hpa := hna _ (hi.fact p hp).2.2.2.2
      have hqa := hna _ (hi.fact q hq).2.2.2.2
      simp only [logStep] at hx hy
      rw [upd_other _ _ _ _ hpa] at hx
      rw [upd_other _ _ _ _ hqa] at hy
      exact hpq hk x y hx hy
    · intro b c' x x' hb hne hk hx' hx
      simp only [logStep] at hx' hx
      rw [e_pc] at hb
      by_cases hba : b = a
      · subst hba
        rw [upd_same] at hx; cases hx
        rw [upd_other _ _ _ _ hne] at hx'
        exact hsi.bnd c' x' (Or.inr (Or.inr (Or.inl hx')))
      · have hb' : activeStarted (s.pc b) = true := by simpa [upd_other _ _ _ _ hba] using hb
        rw [upd_other _ _ _ _ hba] at hx
        by_cases hca : c' = a
        · subst hca
          have h1 := hinv.lead b (by
            cases hp : s.pc b <;> simp [hp, activeStarted, active] at hb' ⊢)
          rw [← hk, hfa] at h1
          exact absurd (Option.some.inj h1) hne
        · rw [upd_other _ _ _ _ hca] at hx'
          exact hi.dD b c' x x' hb' hne hk hx' hx
  | cacheSet a =>
    simp only [step] at hs; split at hs <;> try (simp at hs)
    · rename_i v hpc
      have hla := hinv.loc a
      simp only [Local, hpc] at hla
      have hta := hti.loc a
      simp only [TLocal, hpc] at hta
      obtain ⟨ti, _, _, hend⟩ := hta
      have e_pc : s'.pc = upd s.pc a (.setDone (.ok v)) := by rw [← hs]
      have e_src : s'.src = s.src := by rw [← hs]
      have e_ex : s'.execRes = s.execRes := by rw [← hs]
      have e_cache : s'.cache = upd s.cache (cfg.key a) (cellSet cfg.expTime s.now (s.cache (cfg.key a)) v) := by
        rw [← hs]
      have e_now : s'.now = s.now := by rw [← hs]
      clear hs
      have hna : ∀ x, isSet s x → x ≠ a := by
        intro x hx hxa; subst hxa
        rcases hx with ⟨w, h1, _⟩ | ⟨w, h1, _⟩ <;> (rw [hpc] at h1; cases h1)
      have hset : ∀ x, isSet s' x ↔ (isSet s x ∨ x = a) :=
        isSet_add (a := a) (fun c hc => by rw [e_pc]; exact upd_other _ _ _ _ hc) (fun c _ => by rw [e_src])
          (Or.inl ⟨v, by rw [e_pc]; exact upd_same _ _ _, by rw [e_src]; exact hla.1⟩)
      simp only [histStep, hpc]
      refine ⟨by rw [e_now]; exact hi.now0, ?_, ?_, ?_, ?_, ?_⟩
      · intro p hp
        rcases List.mem_append.1 hp with hp | hp
        · obtain ⟨h1, h2, h3, h4, h5⟩ := hi.fact p hp
          exact ⟨by rw [e_ex]; exact h1, h2, h3, by rw [e_now]; exact h4, (hset _).2 (Or.inl h5)⟩
        · simp only [List.mem_singleton] at hp
          subst hp
          exact ⟨by rw [e_ex]; exact hla.2.2.1, hend, hi.now0, by rw [e_now]; exact Int.le_refl _,
            (hset _).2 (Or.inr rfl)⟩
      · intro x hx
        rcases (hset x).1 hx with hx | hx
        · obtain ⟨p, hp, hpx⟩ := hi.compl x hx
          exact ⟨p, List.mem_append_left _ hp, hpx⟩
        · exact ⟨(a, v, s.now), List.mem_append_right _ (by simp), hx.symm⟩
      · rw [List.pairwise_append]
        refine ⟨hi.sorted, List.pairwise_singleton _ _, ?_⟩
        intro p hp q hq hk x y hx hy
        simp only [List.mem_singleton] at hq
        subst hq
        have hpa := hna _ (hi.fact p hp).2.2.2.2
        exact hi.dD a p.1 y x (by simp [hpc, activeStarted]) hpa hk hx hy
      · intro k
        rw [e_cache]
        simp only [List.filter_append, foldSets, List.foldl_append]
        by_cases hk : k = cfg.key a
        · subst hk
          have := hi.cacheA (cfg.key a)
          simp only [foldSets] at this
          simp [upd_same, ← this]
        · have := hi.cacheA k
          simp only [foldSets] at this
          have hk' : ¬ cfg.key a = k := fun h => hk h.symm
          simp [upd_other _ _ _ _ hk, hk', ← this]
      · intro b c' x x' hb hne hk hx' hx
        refine hi.dD b c' x x' ?_ hne hk hx' hx
        rw [e_pc] at hb
        by_cases hba : b = a
        · subst hba; simp [hpc, activeStarted]
        · simpa [upd_other _ _ _ _ hba] using hb
    · rename_i hpc
      subst hs
      simp only [histStep, hpc]
      refine setsinv_frame hi rfl ?_ ?_ (fun _ _ => rfl) (fun _ _ => rfl) rfl (Int.le_refl _) rfl
      · exact isSet_of_others (fun c hc => upd_other _ _ _ _ hc) (fun _ _ => rfl)
          (by simp [isSet, upd_same, hpc])
      · intro c hc
        by_cases hca : c = a
        · subst hca; simp [hpc, activeStarted]
        · simpa [upd_other _ _ _ _ hca] using hc

/-! ## the start-order list -/

structure OrdInv (g : EvLog) (h : HLog) : Prop where
  mem : ∀ l, l ∈ h.order ↔ ∃ x, g.startAt l = some x
  sorted : h.order.Pairwise (fun a b => ∀ x y, g.startAt a = some x → g.startAt b = some y → x < y)
  maxIn : ∀ k, h.maxIn k ≤ 1

theorem ordinv_init : OrdInv EvLog.empty HLog.empty where
  mem := by intro l; simp [EvLog.empty, HLog.empty]
  sorted := by simp [HLog.empty]
  maxIn := by intro k; simp [HLog.empty]

theorem ordinv_step {cfg : Cfg} {c0 : Nat → Cell} {s s' : State} {g : EvLog} {h : HLog} {l : Label}
    (hinv : Inv cfg c0 s) (hsi : SInv cfg s g) (hi : OrdInv g h)
    (hs : step cfg s l = some s') : OrdInv (logStep cfg s g l) (histStep cfg s h l) := by
  cases l with
  | invoke a => exact ⟨hi.mem, hi.sorted, hi.maxIn⟩
  | cacheCheck a =>
    simp only [logStep]
    split <;> exact ⟨hi.mem, hi.sorted, hi.maxIn⟩
  | doEnter a => exact ⟨hi.mem, hi.sorted, hi.maxIn⟩
  | fnEnd a r => exact ⟨hi.mem, hi.sorted, hi.maxIn⟩
  | cacheSet a =>
    simp only [histStep]
    split <;> exact ⟨hi.mem, hi.sorted, hi.maxIn⟩
  | doFinish a => exact ⟨hi.mem, hi.sorted, hi.maxIn⟩
  | leadHit a => exact ⟨hi.mem, hi.sorted, hi.maxIn⟩
  | wake a =>
    rcases histStep_wake cfg s h a with e | e <;> rw [e] <;> exact ⟨hi.mem, hi.sorted, hi.maxIn⟩
  | tick d => exact ⟨hi.mem, hi.sorted, hi.maxIn⟩
  | fnStart a =>
    simp only [step] at hs; split at hs <;> try (simp at hs)
    rename_i hpc
    have ha := hsi.loc a
    simp only [SLocal, hpc] at ha
    have hnone := ha.2.2.1
    have hnotin : a ∉ h.order := by
      intro hin
      obtain ⟨x, hx⟩ := (hi.mem a).1 hin
      rw [hnone] at hx; cases hx
    have hfa := hinv.lead a (by simp [hpc, active])
    have hinfl : s.inflight (cfg.key a) = 0 := by
      rw [hinv.infl (cfg.key a), hfa]
      simp [hpc]
    simp only [logStep, histStep]
    refine ⟨?_, ?_, ?_⟩
    · intro x
      simp only [List.mem_append, List.mem_singleton]
      by_cases hxa : x = a
      · subst hxa
        simp [upd_same]
      · rw [upd_other _ _ _ _ hxa]
        constructor
        · rintro (h1 | h1)
          · exact (hi.mem x).1 h1
          · exact absurd h1 hxa
        · intro h1; exact Or.inl ((hi.mem x).2 h1)
    · rw [List.pairwise_append]
      refine ⟨?_, List.pairwise_singleton _ _, ?_⟩
      · refine List.Pairwise.imp_of_mem ?_ hi.sorted
        intro p q hp hq hpq x y hx hy
        have hpa : p ≠ a := fun h => hnotin (h ▸ hp)
        have hqa : q ≠ a := fun h => hnotin (h ▸ hq)
        simp only [upd_other _ _ _ _ hpa] at hx
        simp only [upd_other _ _ _ _ hqa] at hy
        exact hpq x y hx hy
      · intro p hp q hq x y hx hy
        simp only [List.mem_singleton] at hq
        subst hq
        have hpa : p ≠ q := fun h => hnotin (h ▸ hp)
        simp only [upd_other _ _ _ _ hpa] at hx
        simp only [upd_same, Option.some.injEq] at hy
        subst hy
        exact hsi.bnd p x (Or.inr (Or.inr (Or.inl hx)))
    · intro k
      simp only [upd_apply]
      split
      · have := hi.maxIn (cfg.key a)
        rw [hinfl]
        omega
      · exact hi.maxIn k

/-! ## what every caller's `cacheCheck` saw -/

def hitVal : Option Src → Option Int
  | some (.hit v) => some v
  | some (.lhit _ v) => some v
  | _ => none

/-- the offers for `c`'s key among the first `m` offers -/
def offersSeen (cfg : Cfg) (h : HLog) (c m : Nat) : List (Nat × Int × Int) :=
  (h.sets.take m).filter (fun p => cfg.key p.1 == cfg.key c)

structure ReadInv (cfg : Cfg) (c0 : Nat → Cell) (s : State) (g : EvLog) (h : HLog) : Prop where
  idle : ∀ c, (s.pc c = .idle ∨ s.pc c = .start) → h.readLen c = none
  has : ∀ c, s.pc c ≠ .idle → s.pc c ≠ .start → ∃ m, h.readLen c = some m
  /-- the caller's `cacheCheck` read, at the caller's invocation instant, the cell produced by the offers
  made so far for its key; it hit iff that cell was live.  For a caller served the value its flight's
  leader read at its re-check, the read is that re-check (the leader) resp. the hand-over (a joiner), both
  at the caller's invocation instant too: `readLen` is overwritten there (`Model/C17.lean: histStep`) -/
  fact : ∀ c m, h.readLen c = some m → m ≤ h.sets.length ∧ ∃ ti, g.invT c = some ti ∧
          cellGet ti (foldSets cfg.expTime (c0 (cfg.key c)) (offersSeen cfg h c m)) = hitVal (s.src c)
  /-- a successful execution one of whose callers had returned before `c` was invoked had made its offer
  before `c`'s `cacheCheck` -/
  known : ∀ c m r l tr i v, h.readLen c = some m → g.retAt r = some tr → g.invAt c = some i → tr < i →
          s.src r = some (.exec l) → s.execRes l = some (.ok v) → ∃ p ∈ h.sets.take m, p.1 = l
  /-- the executions whose offers a hit saw had ended before the hit returned -/
  hitEnd : ∀ c m t v, h.readLen c = some m → hitVal (s.src c) = some v → g.retAt c = some t →
          ∀ p ∈ h.sets.take m, ∃ b, g.endAt p.1 = some b ∧ b < t
  /-- the offers a caller's `cacheCheck` saw had been made no later than the caller's invocation instant -/
  seenTime : ∀ c m ti, h.readLen c = some m → g.invT c = some ti → ∀ p ∈ h.sets.take m, p.2.2 ≤ ti

theorem readinv_init (cfg : Cfg) (c0 : Nat → Cell) (now : Int) :
    ReadInv cfg c0 (init c0 now) EvLog.empty HLog.empty where
  idle := by intro c _; rfl
  has := by intro c h; simp [init] at h
  fact := by intro c m h; simp [HLog.empty] at h
  known := by intro c m r l tr i v h; simp [HLog.empty] at h
  hitEnd := by intro c m t v h; simp [HLog.empty] at h
  seenTime := by intro c m ti h; simp [HLog.empty] at h

theorem take_append_le {α : Type} (L X : List α) (m : Nat) (h : m ≤ L.length) :
    (L ++ X).take m = L.take m := List.take_append_of_le_length h

/-- steps other than `cacheCheck`: the premises of the read facts can only have been true before -/
theorem readinv_frame {cfg : Cfg} {c0 : Nat → Cell} {s s' : State} {g g' : EvLog} {h h' : HLog}
    (hi : ReadInv cfg c0 s g h) (hrl : h'.readLen = h.readLen) (extra : List (Nat × Int × Int))
    (hsets : h'.sets = h.sets ++ extra)
    (hidle : ∀ c, (s'.pc c = .idle ∨ s'.pc c = .start) → (s.pc c = .idle ∨ s.pc c = .start))
    (hsome : ∀ c, s'.pc c ≠ .idle → s'.pc c ≠ .start → (s.pc c ≠ .idle ∧ s.pc c ≠ .start))
    (hinvT : ∀ c m, h.readLen c = some m → g'.invT c = g.invT c)
    (hsrcv : ∀ c m, h.readLen c = some m → hitVal (s'.src c) = hitVal (s.src c))
    (hknown : ∀ c m r l tr i v, h.readLen c = some m → g'.retAt r = some tr → g'.invAt c = some i → tr < i →
        s'.src r = some (.exec l) → s'.execRes l = some (.ok v) →
        (g.retAt r = some tr ∧ g.invAt c = some i ∧ s.src r = some (.exec l) ∧ s.execRes l = some (.ok v)))
    (hhit : ∀ c m t v, h.readLen c = some m → hitVal (s'.src c) = some v → g'.retAt c = some t →
        (hitVal (s.src c) = some v ∧ g.retAt c = some t) ∨ (∀ l b, g.endAt l = some b → b < t))
    (hsend : ∀ p ∈ h.sets, ∃ b, g.endAt p.1 = some b)
    (hend : ∀ l b, g.endAt l = some b → g'.endAt l = some b) :
    ReadInv cfg c0 s' g' h' := by
  have htake : ∀ m, m ≤ h.sets.length → h'.sets.take m = h.sets.take m := by
    intro m hm; rw [hsets]; exact take_append_le _ _ _ hm
  refine ⟨?_, ?_, ?_, ?_, ?_, ?_⟩
  · intro c hc; rw [hrl]; exact hi.idle c (hidle c hc)
  · intro c h1 h2; rw [hrl]; exact hi.has c (hsome c h1 h2).1 (hsome c h1 h2).2
  · intro c m hm
    rw [hrl] at hm
    obtain ⟨h1, ti, h2, h3⟩ := hi.fact c m hm
    refine ⟨by rw [hsets, List.length_append]; omega, ti, by rw [hinvT c m hm]; exact h2, ?_⟩
    rw [hsrcv c m hm]
    simp only [offersSeen] at h3 ⊢
    rw [htake m h1]
    exact h3
  · intro c m r l tr i v hm h1 h2 h3 h4 h5
    rw [hrl] at hm
    obtain ⟨k1, k2, k3, k4⟩ := hknown c m r l tr i v hm h1 h2 h3 h4 h5
    rw [htake m (hi.fact c m hm).1]
    exact hi.known c m r l tr i v hm k1 k2 h3 k3 k4
  · intro c m t v hm h1 h2 p hp
    rw [hrl] at hm
    rw [htake m (hi.fact c m hm).1] at hp
    rcases hhit c m t v hm h1 h2 with ⟨k1, k2⟩ | k
    · obtain ⟨b, hb, hbt⟩ := hi.hitEnd c m t v hm k1 k2 p hp
      exact ⟨b, hend _ _ hb, hbt⟩
    · obtain ⟨b, hb⟩ := hsend p (List.mem_of_mem_take hp)
      exact ⟨b, hend _ _ hb, k _ b hb⟩
  · intro c m ti hm h1 p hp
    rw [hrl] at hm
    rw [hinvT c m hm] at h1
    rw [htake m (hi.fact c m hm).1] at hp
    exact hi.seenTime c m ti hm h1 p hp

theorem ret_done {cfg : Cfg} {s : State} {g : EvLog} (hsi : SInv cfg s g) (r tr : Nat)
    (h : g.retAt r = some tr) : ∃ x, s.pc r = .done x := by
  have hl := hsi.loc r
  unfold SLocal at hl
  cases hp : s.pc r with
  | done x => exact ⟨x, rfl⟩
  | idle => simp only [hp] at hl; rw [hl.2.1] at h; cases h
  | start => simp only [hp] at hl; rw [hl.2.1] at h; cases h
  | missed => simp only [hp] at hl; rw [hl.2.1] at h; cases h
  | leader => simp only [hp] at hl; rw [hl.2.1] at h; cases h
  | waiting z => simp only [hp] at hl; rw [hl.2.1] at h; cases h
  | running => simp only [hp] at hl; rw [hl.2.1] at h; cases h
  | ran z => simp only [hp] at hl; rw [hl.2] at h; cases h
  | setDone z => simp only [hp] at hl; rw [hl.2] at h; cases h

theorem published' {cfg : Cfg} {s : State} {l : Nat} {r : Res} (hl : Local cfg s l) (hr : s.result l = some r)
    (hs : s.src l = some (.exec l)) : s.execRes l = some r := by
  rcases (published_cases hl hr).2 with ⟨_, _, h⟩ | ⟨v, _, h, _⟩
  · exact h
  · rw [hs] at h; cases h

/-- the execution a returned caller was served by has published its result: if it succeeded, its offer
to the cache has been made -/
theorem served_isSet {cfg : Cfg} {c0 : Nat → Cell} {s : State} (hinv : Inv cfg c0 s) (r l : Nat) (x : Res) (v : Int)
    (hd : s.pc r = .done x) (hs : s.src r = some (.exec l)) (he : s.execRes l = some (.ok v)) : isSet s l := by
  have h := hinv.loc r
  simp only [Local, hd] at h
  rcases h with ⟨w, _, h2, _⟩ | ⟨h2, _, h3, _⟩ | ⟨y, h2, _, h3, _, _, _, h7⟩ | ⟨w, _, h2, _⟩ | ⟨y, w, _, h2, _⟩
  · rw [hs] at h2; cases h2
  · rw [hs] at h2; cases h2
    rw [he] at h3; cases h3
    exact Or.inr ⟨v, hd, hs⟩
  · rw [hs] at h2; cases h2
    obtain ⟨k1, _⟩ := published_done (hinv.loc l) h3
    have k3 := published' (hinv.loc l) h3 h7
    rw [he] at k3; cases k3
    exact Or.inr ⟨v, k1, h7⟩
  · rw [hs] at h2; cases h2
  · rw [hs] at h2; cases h2

/-- the `cacheCheck` step of caller `a`, described by what it changes -/
theorem readinv_check {cfg : Cfg} {c0 : Nat → Cell} {s s' : State} {g g' : EvLog} {h h' : HLog} (a : Nat)
    (hi : ReadInv cfg c0 s g h)
    (e_rl : h'.readLen = upd h.readLen a (some h.sets.length)) (e_sets : h'.sets = h.sets)
    (e_pc : ∀ c, c ≠ a → s'.pc c = s.pc c) (e_pca : s'.pc a ≠ .idle ∧ s'.pc a ≠ .start)
    (e_src : ∀ c, c ≠ a → s'.src c = s.src c) (e_ex : s'.execRes = s.execRes)
    (e_invT : g'.invT = g.invT) (e_invAt : g'.invAt = g.invAt) (e_endAt : g'.endAt = g.endAt)
    (e_ret : ∀ c, c ≠ a → g'.retAt c = g.retAt c) (e_reta : ∀ t, g'.retAt a = some t → t = g.n)
    (hbnd : ∀ c i, g.invAt c = some i → i < g.n)
    (hfactA : ∃ ti, g.invT a = some ti ∧
        cellGet ti (foldSets cfg.expTime (c0 (cfg.key a))
          (h.sets.filter (fun p => cfg.key p.1 == cfg.key a))) = hitVal (s'.src a))
    (hknownA : ∀ r l tr i v, g.retAt r = some tr → g.invAt a = some i → tr < i →
        s.src r = some (.exec l) → s.execRes l = some (.ok v) → ∃ p ∈ h.sets, p.1 = l)
    (hhitA : ∀ p ∈ h.sets, ∃ b, g.endAt p.1 = some b ∧ b < g.n)
    (hseenA : ∀ ti, g.invT a = some ti → ∀ p ∈ h.sets, p.2.2 ≤ ti) :
    ReadInv cfg c0 s' g' h' := by
  refine ⟨?_, ?_, ?_, ?_, ?_, ?_⟩
  · intro c hc
    by_cases hca : c = a
    · subst hca
      rcases hc with hc | hc
      · exact absurd hc e_pca.1
      · exact absurd hc e_pca.2
    · rw [e_rl, upd_other _ _ _ _ hca]
      rw [e_pc c hca] at hc
      exact hi.idle c hc
  · intro c h1 h2
    by_cases hca : c = a
    · subst hca; rw [e_rl]; exact ⟨_, upd_same _ _ _⟩
    · rw [e_rl, upd_other _ _ _ _ hca]
      rw [e_pc c hca] at h1 h2
      exact hi.has c h1 h2
  · intro c m hm
    rw [e_rl] at hm
    rw [e_sets, e_invT]
    by_cases hca : c = a
    · subst hca
      rw [upd_same] at hm; cases hm
      refine ⟨Nat.le_refl _, ?_⟩
      simp only [offersSeen, e_sets, List.take_length]
      exact hfactA
    · rw [upd_other _ _ _ _ hca] at hm
      rw [e_src c hca]
      simp only [offersSeen, e_sets]
      exact hi.fact c m hm
  · intro c m r l tr i v hm h1 h2 h3 h4 h5
    rw [e_rl] at hm
    rw [e_invAt] at h2
    rw [e_ex] at h5
    rw [e_sets]
    have hra : r ≠ a := by
      intro hr; subst hr
      by_cases hla : ∃ t, g'.retAt r = some t
      · have := e_reta tr h1
        have := hbnd c i h2
        omega
      · exact hla ⟨tr, h1⟩
    rw [e_ret r hra] at h1
    rw [e_src r hra] at h4
    by_cases hca : c = a
    · subst hca
      rw [upd_same] at hm; cases hm
      rw [List.take_length]
      exact hknownA r l tr i v h1 h2 h3 h4 h5
    · rw [upd_other _ _ _ _ hca] at hm
      exact hi.known c m r l tr i v hm h1 h2 h3 h4 h5
  · intro c m t v hm h1 h2 p hp
    rw [e_rl] at hm
    rw [e_sets] at hp
    rw [e_endAt]
    by_cases hca : c = a
    · subst hca
      rw [upd_same] at hm; cases hm
      rw [List.take_length] at hp
      obtain ⟨b, hb, hbn⟩ := hhitA p hp
      have := e_reta t h2
      exact ⟨b, hb, by omega⟩
    · rw [upd_other _ _ _ _ hca] at hm
      rw [e_src c hca] at h1
      rw [e_ret c hca] at h2
      exact hi.hitEnd c m t v hm h1 h2 p hp
  · intro c m ti hm h1 p hp
    rw [e_rl] at hm
    rw [e_invT] at h1
    rw [e_sets] at hp
    by_cases hca : c = a
    · subst hca
      rw [upd_same] at hm; cases hm
      rw [List.take_length] at hp
      exact hseenA ti h1 p hp
    · rw [upd_other _ _ _ _ hca] at hm
      exact hi.seenTime c m ti hm h1 p hp

theorem readinv_step {cfg : Cfg} {c0 : Nat → Cell} {s s' : State} {g : EvLog} {h : HLog} {l : Label}
    (hinv : Inv cfg c0 s) (hsi : SInv cfg s g) (hti : TInv s g) (hl : LInv cfg s g) (hse : SetsInv cfg c0 s g h)
    (hi : ReadInv cfg c0 s g h) (hs : step cfg s l = some s') :
    ReadInv cfg c0 s' (logStep cfg s g l) (histStep cfg s h l) := by
  have keep_end : ∀ (a : Nat), g.endAt a = none → ∀ x b, g.endAt x = some b →
      upd g.endAt a (some g.n) x = some b := by
    intro a ha x b hx
    by_cases hxa : x = a
    · subst hxa; rw [ha] at hx; cases hx
    · rw [upd_other _ _ _ _ hxa]; exact hx
  have hsend : ∀ p ∈ h.sets, ∃ b, g.endAt p.1 = some b := fun p hp =>
    execRes_logged hinv hsi (hse.fact p hp).1
  have hbEnd : ∀ l b, g.endAt l = some b → b < g.n := fun l b hb => hsi.bnd l b (Or.inr (Or.inr (Or.inr hb)))
  -- what a caller reads when it reads the cache cell of its key now, at its invocation instant
  have hknownG : ∀ (a : Nat) r l tr i v, g.retAt r = some tr → g.invAt a = some i → tr < i →
      s.src r = some (.exec l) → s.execRes l = some (.ok v) → ∃ p ∈ h.sets, p.1 = l := by
    intro _ r l tr i v h1 _ _ h4 h5
    obtain ⟨x, hx⟩ := ret_done hsi r tr h1
    exact hse.compl l (served_isSet hinv r l x v hx h4 h5)
  have hhitG : ∀ p ∈ h.sets, ∃ b, g.endAt p.1 = some b ∧ b < g.n := by
    intro p hp
    obtain ⟨b, hb⟩ := hsend p hp
    exact ⟨b, hb, hbEnd _ b hb⟩
  have hfactG : ∀ (a : Nat), g.invT a = some s.now → ∀ (src' : Option Src),
      hitVal src' = cellGet s.now (s.cache (cfg.key a)) →
      ∃ ti, g.invT a = some ti ∧ cellGet ti (foldSets cfg.expTime (c0 (cfg.key a))
        (h.sets.filter (fun p => cfg.key p.1 == cfg.key a))) = hitVal src' := by
    intro a hta src' hsv
    exact ⟨s.now, hta, by rw [← hse.cacheA (cfg.key a), hsv]⟩
  have hseenG : ∀ (a : Nat), g.invT a = some s.now → ∀ ti, g.invT a = some ti → ∀ p ∈ h.sets, p.2.2 ≤ ti := by
    intro a hta ti h1 p hp
    rw [hta] at h1; cases h1
    exact (hse.fact p hp).2.2.2.1
  cases l with
  | invoke a =>
    simp only [step] at hs; split at hs <;> try (simp at hs)
    rename_i hpc
    subst hs
    have hra := hi.idle a (Or.inl hpc)
    refine readinv_frame hi rfl [] (by simp [histStep]) ?_ ?_ ?_ (fun _ _ _ => rfl) ?_ ?_ hsend (fun _ _ hb => hb)
    · intro c hc
      by_cases hca : c = a
      · subst hca; exact Or.inl hpc
      · simpa [upd_other _ _ _ _ hca] using hc
    · intro c h1 h2
      by_cases hca : c = a
      · subst hca; simp [upd_same] at h2
      · simpa [upd_other _ _ _ _ hca] using And.intro h1 h2
    · intro c m hm
      have hca : c ≠ a := by intro hca; subst hca; rw [hra] at hm; cases hm
      exact upd_other _ _ _ _ hca
    · intro c m r l tr i v hm h1 h2 h3 h4 h5
      have hca : c ≠ a := by intro hca; subst hca; rw [hra] at hm; cases hm
      simp only [logStep, upd_other _ _ _ _ hca] at h2
      exact ⟨h1, h2, h4, h5⟩
    · intro c m t v hm h1 h2; exact Or.inl ⟨h1, h2⟩
  | doEnter a =>
    simp only [step] at hs; split at hs <;> try (simp at hs)
    rename_i hpc
    have hla := hinv.loc a
    simp only [Local, hpc] at hla
    have hsa := hsi.loc a
    simp only [SLocal, hpc] at hsa
    split at hs <;> simp at hs <;> subst hs
    all_goals
      refine readinv_frame hi rfl [] (by simp [histStep]) ?_ ?_ (fun _ _ _ => rfl) ?_ ?_ ?_ hsend (fun _ _ hb => hb)
      · intro c hc
        by_cases hca : c = a
        · subst hca; simp [upd_same] at hc
        · simpa [upd_other _ _ _ _ hca] using hc
      · intro c h1 h2
        by_cases hca : c = a
        · subst hca; simp [hpc]
        · simpa [upd_other _ _ _ _ hca] using And.intro h1 h2
      · intro c m hm
        by_cases hca : c = a
        · subst hca; simp [upd_same, hla.1, hitVal]
        · simp [upd_other _ _ _ _ hca]
      · intro c m r l tr i v hm h1 h2 h3 h4 h5
        replace h1 : g.retAt r = some tr := h1
        replace h2 : g.invAt c = some i := h2
        have hra : r ≠ a := by intro h; subst h; rw [hsa.2.1] at h1; cases h1
        simp only [upd_other _ _ _ _ hra] at h4
        exact ⟨h1, h2, h4, h5⟩
      · intro c m t v hm h1 h2
        replace h2 : g.retAt c = some t := h2
        have hca : c ≠ a := by intro h; subst h; rw [hsa.2.1] at h2; cases h2
        simp only [upd_other _ _ _ _ hca] at h1
        exact Or.inl ⟨h1, h2⟩
  | leadHit a =>
    simp only [step] at hs; split at hs <;> try (simp at hs)
    rename_i hpc
    have hsa := hsi.loc a
    simp only [SLocal, hpc] at hsa
    have hta := hti.loc a
    simp only [TLocal, hpc] at hta
    split at hs <;> simp at hs
    rename_i v hv
    subst hs
    refine readinv_check a hi rfl rfl (fun c hc => upd_other _ _ _ _ hc) (by simp [upd_same])
      (fun c hc => upd_other _ _ _ _ hc) rfl rfl rfl rfl (fun _ _ => rfl) ?_
      (fun c i hci => hsi.bnd c i (Or.inl hci)) ?_ (hknownG a) hhitG (hseenG a hta)
    · intro t ht
      have ht' : g.retAt a = some t := ht
      rw [hsa.2.1] at ht'; cases ht'
    · have : hitVal (upd s.src a (some (Src.lhit a v)) a) = cellGet s.now (s.cache (cfg.key a)) := by
        rw [upd_same, hv]; rfl
      exact hfactG a hta _ this
  | fnStart a =>
    simp only [step] at hs; split at hs <;> try (simp at hs)
    rename_i hpc
    split at hs <;> simp at hs
    subst hs
    refine readinv_frame hi rfl [] (by simp [histStep]) ?_ ?_ (fun _ _ _ => rfl) (fun _ _ _ => rfl) ?_ ?_ hsend
      (fun _ _ hb => hb)
    · intro c hc
      by_cases hca : c = a
      · subst hca; simp [upd_same] at hc
      · simpa [upd_other _ _ _ _ hca] using hc
    · intro c h1 h2
      by_cases hca : c = a
      · subst hca; simp [hpc]
      · simpa [upd_other _ _ _ _ hca] using And.intro h1 h2
    · intro c m r l tr i v hm h1 h2 h3 h4 h5; exact ⟨h1, h2, h4, h5⟩
    · intro c m t v hm h1 h2; exact Or.inl ⟨h1, h2⟩
  | fnEnd a r0 =>
    simp only [step] at hs; split at hs <;> try (simp at hs)
    rename_i hpc
    have hsa := hsi.loc a
    simp only [SLocal, hpc] at hsa
    subst hs
    refine readinv_frame hi rfl [] (by simp [histStep]) ?_ ?_ (fun _ _ _ => rfl) (fun _ _ _ => rfl) ?_ ?_ hsend
      (keep_end a hsa.2.2)
    · intro c hc
      by_cases hca : c = a
      · subst hca; simp [upd_same] at hc
      · simpa [upd_other _ _ _ _ hca] using hc
    · intro c h1 h2
      by_cases hca : c = a
      · subst hca; simp [hpc]
      · simpa [upd_other _ _ _ _ hca] using And.intro h1 h2
    · intro c m r l tr i v hm h1 h2 h3 h4 h5
      have hla : l ≠ a := by
        intro hl; subst hl
        obtain ⟨x, hx⟩ := ret_done hsi r tr h1
        have hl' := hinv.loc r
        simp only [Local, hx] at hl'
        rcases hl' with ⟨w, _, k2, _⟩ | ⟨k2, _⟩ | ⟨y, k2, _, k3, _⟩ | ⟨w, _, k2, _⟩ | ⟨y, w, _, k2, _⟩
        · rw [h4] at k2; cases k2
        · rw [h4] at k2; cases k2; rw [hpc] at hx; cases hx
        · rw [h4] at k2; cases k2
          have := (published_done (hinv.loc l) k3).1
          rw [hpc] at this; cases this
        · rw [h4] at k2; cases k2
        · rw [h4] at k2; cases k2
      simp only [upd_other _ _ _ _ hla] at h5
      exact ⟨h1, h2, h4, h5⟩
    · intro c m t v hm h1 h2; exact Or.inl ⟨h1, h2⟩
  | cacheSet a =>
    simp only [step] at hs; split at hs <;> try (simp at hs)
    · rename_i v hpc
      subst hs
      refine readinv_frame hi (by simp [histStep, hpc]) [(a, v, s.now)] (by simp [histStep, hpc]) ?_ ?_ (fun _ _ _ => rfl)
        (fun _ _ _ => rfl) ?_ ?_ hsend (fun _ _ hb => hb)
      · intro c hc
        by_cases hca : c = a
        · subst hca; simp [upd_same] at hc
        · simpa [upd_other _ _ _ _ hca] using hc
      · intro c h1 h2
        by_cases hca : c = a
        · subst hca; simp [hpc]
        · simpa [upd_other _ _ _ _ hca] using And.intro h1 h2
      · intro c m r l tr i v' hm h1 h2 h3 h4 h5; exact ⟨h1, h2, h4, h5⟩
      · intro c m t v' hm h1 h2; exact Or.inl ⟨h1, h2⟩
    · rename_i hpc
      subst hs
      refine readinv_frame hi (by simp [histStep, hpc]) [] (by simp [histStep, hpc]) ?_ ?_ (fun _ _ _ => rfl)
        (fun _ _ _ => rfl) ?_ ?_ hsend (fun _ _ hb => hb)
      · intro c hc
        by_cases hca : c = a
        · subst hca; simp [upd_same] at hc
        · simpa [upd_other _ _ _ _ hca] using hc
      · intro c h1 h2
        by_cases hca : c = a
        · subst hca; simp [hpc]
        · simpa [upd_other _ _ _ _ hca] using And.intro h1 h2
      · intro c m r l tr i v' hm h1 h2 h3 h4 h5; exact ⟨h1, h2, h4, h5⟩
      · intro c m t v' hm h1 h2; exact Or.inl ⟨h1, h2⟩
  | doFinish a =>
    simp only [step] at hs; split at hs <;> try (simp at hs)
    rename_i r0 hpc
    have hsa := hsi.loc a
    simp only [SLocal, hpc] at hsa
    subst hs
    refine readinv_frame hi rfl [] (by simp [histStep]) ?_ ?_ (fun _ _ _ => rfl) (fun _ _ _ => rfl) ?_ ?_ hsend
      (fun _ _ hb => hb)
    · intro c hc
      by_cases hca : c = a
      · subst hca; simp [upd_same] at hc
      · simpa [upd_other _ _ _ _ hca] using hc
    · intro c h1 h2
      by_cases hca : c = a
      · subst hca; simp [hpc]
      · simpa [upd_other _ _ _ _ hca] using And.intro h1 h2
    · intro c m r l tr i v hm h1 h2 h3 h4 h5
      simp only [logStep] at h1 h2
      have hra : r ≠ a := by
        intro hr; subst hr
        rw [upd_same] at h1; cases h1
        have := hsi.bnd c i (Or.inl h2); omega
      rw [upd_other _ _ _ _ hra] at h1
      exact ⟨h1, h2, h4, h5⟩
    · intro c m t v hm h1 h2
      simp only [logStep] at h2
      by_cases hca : c = a
      · -- the leader whose re-check hit the cache returns: everything in the log is earlier
        subst hca
        rw [upd_same] at h2; cases h2
        exact Or.inr hbEnd
      · rw [upd_other _ _ _ _ hca] at h2
        exact Or.inl ⟨h1, h2⟩
  | wake a =>
    simp only [step] at hs; split at hs <;> try (simp at hs)
    rename_i l0 hpc
    have hla := hinv.loc a
    simp only [Local, hpc] at hla
    have hsa := hsi.loc a
    simp only [SLocal, hpc] at hsa
    split at hs <;> simp at hs
    rename_i r0 hr0
    subst hs
    rcases (published_done (hinv.loc l0) hr0).2 with hsl | ⟨v, _, hsl⟩
    · -- woken by a leader that ran the function
      have e1 : wakeSrc s a l0 = some (.exec l0) := by simp only [wakeSrc, hsl]; exact hla.1
      have e2 : histStep cfg s h (.wake a) = h := by simp only [histStep, hpc, hsl]
      rw [e2]
      refine readinv_frame hi rfl [] (by simp) ?_ ?_ (fun _ _ _ => rfl) ?_ ?_ ?_ hsend (fun _ _ hb => hb)
      · intro c hc
        by_cases hca : c = a
        · subst hca; simp [upd_same] at hc
        · simpa [upd_other _ _ _ _ hca] using hc
      · intro c h1 h2
        by_cases hca : c = a
        · subst hca; simp [hpc]
        · simpa [upd_other _ _ _ _ hca] using And.intro h1 h2
      · intro c m hm
        by_cases hca : c = a
        · subst hca; simp [upd_same, e1, hla.1, hitVal]
        · simp [upd_other _ _ _ _ hca]
      · intro c m r l tr i v hm h1 h2 h3 h4 h5
        simp only [logStep] at h1 h2
        have hra : r ≠ a := by
          intro hr; subst hr
          rw [upd_same] at h1; cases h1
          have := hsi.bnd c i (Or.inl h2); omega
        rw [upd_other _ _ _ _ hra] at h1
        simp only [upd_other _ _ _ _ hra] at h4
        exact ⟨h1, h2, h4, h5⟩
      · intro c m t v hm h1 h2
        simp only [logStep] at h2
        have hca : c ≠ a := by intro hc; subst hc; simp [upd_same, e1, hitVal] at h1
        rw [upd_other _ _ _ _ hca] at h2
        simp only [upd_other _ _ _ _ hca] at h1
        exact Or.inl ⟨h1, h2⟩
    · -- woken by a leader whose re-check hit the cache: the value is still live (a virtual re-read)
      have e1 : wakeSrc s a l0 = some (.lhit l0 v) := by simp only [wakeSrc, hsl]
      have e2 : histStep cfg s h (.wake a) = { h with readLen := upd h.readLen a (some h.sets.length) } := by
        simp only [histStep, hpc, hsl]
      obtain ⟨hta, hlive⟩ := hl.wait a l0 v hpc hsl
      rw [e2]
      refine readinv_check a hi rfl rfl (fun c hc => upd_other _ _ _ _ hc) (by simp [upd_same])
        (fun c hc => upd_other _ _ _ _ hc) rfl rfl rfl rfl (fun c hc => upd_other _ _ _ _ hc) ?_
        (fun c i hci => hsi.bnd c i (Or.inl hci)) ?_ (hknownG a) hhitG (hseenG a hta)
      · intro t ht
        have ht' : upd g.retAt a (some g.n) a = some t := ht
        rw [upd_same] at ht'; cases ht'; rfl
      · have : hitVal (upd s.src a (wakeSrc s a l0) a) = cellGet s.now (s.cache (cfg.key a)) := by
          rw [upd_same, e1, hlive]; rfl
        exact hfactG a hta _ this
  | tick d =>
    simp only [step, Option.some.injEq] at hs
    subst hs
    exact readinv_frame hi rfl [] (by simp [histStep]) (fun _ hc => hc) (fun _ h1 h2 => ⟨h1, h2⟩)
      (fun _ _ _ => rfl) (fun _ _ _ => rfl) (fun _ _ _ _ _ _ _ _ h1 h2 _ h4 h5 => ⟨h1, h2, h4, h5⟩)
      (fun _ _ _ _ _ h1 h2 => Or.inl ⟨h1, h2⟩) hsend (fun _ _ hb => hb)
  | cacheCheck a =>
    simp only [step] at hs; split at hs <;> try (simp at hs)
    rename_i hpc
    have hla := hinv.loc a
    simp only [Local, hpc] at hla
    have hsa := hsi.loc a
    simp only [SLocal, hpc] at hsa
    have hta := hti.loc a
    simp only [TLocal, hpc] at hta
    split at hs <;> simp at hs <;> subst hs
    · rename_i v hv
      simp only [logStep, hv]
      refine readinv_check a hi rfl rfl (fun c hc => upd_other _ _ _ _ hc) (by simp [upd_same])
        (fun c hc => upd_other _ _ _ _ hc) rfl rfl rfl rfl (fun c hc => upd_other _ _ _ _ hc) ?_
        (fun c i hci => hsi.bnd c i (Or.inl hci)) ?_ (hknownG a) hhitG (hseenG a hta)
      · intro t ht
        have ht' : upd g.retAt a (some g.n) a = some t := ht
        rw [upd_same] at ht'; cases ht'; rfl
      · have : hitVal (upd s.src a (some (Src.hit v)) a) = cellGet s.now (s.cache (cfg.key a)) := by
          rw [upd_same, hv]; rfl
        exact hfactG a hta _ this
    · rename_i hv
      simp only [logStep, hv]
      refine readinv_check a hi rfl rfl (fun c hc => upd_other _ _ _ _ hc) (by simp [upd_same])
        (fun _ _ => rfl) rfl rfl rfl rfl (fun _ _ => rfl) ?_
        (fun c i hci => hsi.bnd c i (Or.inl hci)) ?_ (hknownG a) hhitG (hseenG a hta)
      · intro t ht
        have ht' : g.retAt a = some t := ht
        rw [hsa.2.1] at ht'; cases ht'
      · have : hitVal (s.src a) = cellGet s.now (s.cache (cfg.key a)) := by
          rw [hla.1, hv]; rfl
        exact hfactG a hta _ this

/-! ## all invariants on every run under the virtual clock -/

theorem reachableH_logP {cfg : Cfg} {s0 s : State} {g : EvLog} {h : HLog}
    (hr : ReachableH cfg s0 s g h) : ReachableLogP cfg s0 s g := by
  induction hr with
  | refl => exact ReachableLogP.refl
  | step l _ hs hp ih => exact ReachableLogP.step l ih hs hp

structure AllInv (cfg : Cfg) (c0 : Nat → Cell) (s : State) (g : EvLog) (h : HLog) : Prop where
  inv : Inv cfg c0 s
  sinv : SInv cfg s g
  tinv : TInv s g
  linv : LInv cfg s g
  sets : SetsInv cfg c0 s g h
  ord : OrdInv g h
  read : ReadInv cfg c0 s g h

theorem allinv_reachable {cfg : Cfg} {c0 : Nat → Cell} {now : Int} {s : State} {g : EvLog} {h : HLog}
    (h0 : 0 ≤ now) (hr : ReachableH cfg (init c0 now) s g h) : AllInv cfg c0 s g h := by
  induction hr with
  | refl =>
    exact ⟨inv_init cfg c0 now, sinv_init cfg c0 now, tinv_init c0 now, linv_init cfg c0 now,
      setsinv_init cfg c0 now h0, ordinv_init, readinv_init cfg c0 now⟩
  | step l _ hs hp ih =>
    obtain ⟨i1, i2, i3, i7, i4, i5, i6⟩ := ih
    exact ⟨inv_step i1 hs, sinv_step i1 i2 hs, tinv_step i1 i2 i3 i7 hs hp, linv_step i1 i2 i3 i7 hs hp,
      setsinv_step i1 i2 i3 i4 hs, ordinv_step i1 i2 i5 hs, readinv_step i1 i2 i3 i7 i4 i6 hs⟩

end GoguVerif.Lemmas.C17
