import GoguVerif.Spec.OrdMap
/-!
# C04 — helper lemmas, part 1: the ordered association list

1. laws of the ordered association list (`Spec.OrdMap`) under a strict total order;
2. how `insert / erase / lookup` distribute over `a ++ (k, v) :: b` (the shape of an in-order traversal).

(The tree functions of `Model.Bst` against the in-order traversal are in `Lemmas/C04.lean`.)
-/
namespace GoguVerif.Lemmas.C04
open GoguVerif.Spec GoguVerif.Spec.OrdMap

variable {κ ν : Type} {comp : κ → κ → Bool}

/-! ## 1. Ordered association lists -/

theorem STO.asymm (h : STO comp) {a b : κ} (hab : comp a b = true) : comp b a = false := by
  cases hba : comp b a with
  | false => rfl
  | true => have := h.trans a b a hab hba; rw [h.irrefl] at this; cases this

theorem mem_insert {k : κ} {v : ν} {l : List (κ × ν)} {e : κ × ν} :
    e ∈ OrdMap.insert comp k v l → e = (k, v) ∨ e ∈ l := by
  induction l with
  | nil => simp [OrdMap.insert]
  | cons x r ih =>
    obtain ⟨k', v'⟩ := x
    unfold OrdMap.insert
    split
    · simp
    · split
      · intro hm
        rcases List.mem_cons.1 hm with h | h
        · exact Or.inr (h ▸ List.mem_cons_self)
        · rcases ih h with h | h
          · exact Or.inl h
          · exact Or.inr (List.mem_cons_of_mem _ h)
      · intro hm
        rcases List.mem_cons.1 hm with h | h
        · exact Or.inl h
        · exact Or.inr (List.mem_cons_of_mem _ h)

theorem mem_erase {k : κ} {l : List (κ × ν)} {e : κ × ν} : e ∈ erase comp k l → e ∈ l := by
  induction l with
  | nil => simp [erase]
  | cons x r ih =>
    obtain ⟨k', v'⟩ := x
    unfold erase
    split
    · exact id
    · split
      · intro hm
        rcases List.mem_cons.1 hm with h | h
        · exact h ▸ List.mem_cons_self
        · exact List.mem_cons_of_mem _ (ih h)
      · exact List.mem_cons_of_mem _

theorem sorted_insert (h : STO comp) (k : κ) (v : ν) {l : List (κ × ν)} (hs : Sorted comp l) :
    Sorted comp (OrdMap.insert comp k v l) := by
  induction l with
  | nil => simp [OrdMap.insert, Sorted]
  | cons x r ih =>
    obtain ⟨k', v'⟩ := x
    obtain ⟨hx, hr⟩ := hs
    unfold OrdMap.insert
    split
    · rename_i hk
      refine ⟨?_, hx, hr⟩
      intro e he
      rcases List.mem_cons.1 he with he | he
      · subst he; exact hk
      · exact h.trans _ _ _ hk (hx e he)
    · split
      · rename_i hk'
        refine ⟨?_, ih hr⟩
        intro e he
        rcases mem_insert he with he | he
        · subst he; exact hk'
        · exact hx e he
      · rename_i h1 h2
        have : k = k' := h.total _ _ (by simpa using h1) (by simpa using h2)
        subst this
        exact ⟨hx, hr⟩

theorem sorted_erase (k : κ) {l : List (κ × ν)} (hs : Sorted comp l) :
    Sorted comp (erase comp k l) := by
  induction l with
  | nil => simp [erase, Sorted]
  | cons x r ih =>
    obtain ⟨k', v'⟩ := x
    obtain ⟨hx, hr⟩ := hs
    unfold erase
    split
    · exact ⟨hx, hr⟩
    · split
      · exact ⟨fun e he => hx e (mem_erase he), ih hr⟩
      · exact hr

theorem length_insert (k : κ) (v : ν) (l : List (κ × ν)) :
    (OrdMap.insert comp k v l).length = l.length + (if (lookup comp k l).isSome then 0 else 1) := by
  induction l with
  | nil => simp [OrdMap.insert, lookup]
  | cons x r ih =>
    obtain ⟨k', v'⟩ := x
    unfold OrdMap.insert lookup
    split
    · simp
    · split
      · simp only [List.length_cons, ih]; omega
      · simp

theorem length_erase (k : κ) (l : List (κ × ν)) :
    ((erase comp k l).length : Int) = l.length - (if (lookup comp k l).isSome then 1 else 0) := by
  induction l with
  | nil => simp [erase, lookup]
  | cons x r ih =>
    obtain ⟨k', v'⟩ := x
    unfold erase lookup
    split
    · simp
    · split
      · simp only [List.length_cons, Int.natCast_add, ih]; omega
      · simp

theorem erase_of_lookup_none {k : κ} {l : List (κ × ν)} (hl : lookup comp k l = none) :
    erase comp k l = l := by
  induction l with
  | nil => rfl
  | cons x r ih =>
    obtain ⟨k', v'⟩ := x
    unfold lookup at hl
    unfold erase
    split
    · rfl
    · rename_i h1
      rw [if_neg h1] at hl
      split
      · rename_i h2
        rw [if_pos h2] at hl
        rw [ih hl]
      · rename_i h2
        rw [if_neg h2] at hl
        cases hl

/-- the list holds a pair for `k` iff `lookup` finds it (sorted lists) -/
theorem mem_iff_lookup (h : STO comp) {l : List (κ × ν)} (hs : Sorted comp l) (k : κ) (v : ν) :
    (k, v) ∈ l ↔ lookup comp k l = some v := by
  induction l with
  | nil => simp [lookup]
  | cons x r ih =>
    obtain ⟨k', v'⟩ := x
    obtain ⟨hx, hr⟩ := hs
    unfold lookup
    split
    · rename_i hk
      constructor
      · intro hm
        rcases List.mem_cons.1 hm with he | he
        · cases he; rw [h.irrefl] at hk; cases hk
        · have := hx _ he
          rw [STO.asymm h hk] at this; cases this
      · intro hn; cases hn
    · split
      · rename_i hk hk'
        rw [← ih hr]
        constructor
        · intro hm
          rcases List.mem_cons.1 hm with he | he
          · cases he; rw [h.irrefl] at hk'; cases hk'
          · exact he
        · exact List.mem_cons_of_mem _
      · rename_i h1 h2
        have : k = k' := h.total _ _ (by simpa using h1) (by simpa using h2)
        subst this
        constructor
        · intro hm
          rcases List.mem_cons.1 hm with he | he
          · cases he; rfl
          · have := hx _ he
            rw [h.irrefl] at this; cases this
        · intro hv; cases hv; exact List.mem_cons_self

/-- in a sorted list every key occurs once -/
theorem keys_nodup (h : STO comp) {l : List (κ × ν)} (hs : Sorted comp l) :
    (l.map (·.1)).Nodup := by
  induction l with
  | nil => simp
  | cons x r ih =>
    obtain ⟨k', v'⟩ := x
    obtain ⟨hx, hr⟩ := hs
    rw [List.map_cons, List.nodup_cons]
    refine ⟨?_, ih hr⟩
    intro hm
    obtain ⟨e, he, hk⟩ := List.mem_map.1 hm
    have := hx e he
    rw [hk, h.irrefl] at this; cases this

/-- consecutive-pairs form of sortedness: comparator order as `List.Pairwise` -/
theorem sorted_iff_pairwise {l : List (κ × ν)} :
    Sorted comp l ↔ l.Pairwise (fun a b => comp a.1 b.1 = true) := by
  induction l with
  | nil => simp [Sorted]
  | cons x r ih =>
    obtain ⟨k', v'⟩ := x
    simp only [Sorted, List.pairwise_cons, ih]

/-! ### map laws: what `lookup` sees after `insert` / `erase` -/

theorem lookup_insert_self (h : STO comp) (k : κ) (v : ν) (l : List (κ × ν)) :
    lookup comp k (OrdMap.insert comp k v l) = some v := by
  induction l with
  | nil => simp [OrdMap.insert, lookup, h.irrefl]
  | cons x r ih =>
    obtain ⟨k', v'⟩ := x
    unfold OrdMap.insert
    split
    · simp [lookup, h.irrefl]
    · rename_i h1
      split
      · rename_i h2
        unfold lookup
        rw [if_neg h1, if_pos h2, ih]
      · simp [lookup, h.irrefl]

theorem lookup_insert_other (h : STO comp) {k k' : κ} (hne : k' ≠ k) (v : ν) {l : List (κ × ν)}
    (hs : Sorted comp l) : lookup comp k' (OrdMap.insert comp k v l) = lookup comp k' l := by
  -- trichotomy between k' and k
  have tri : comp k' k = true ∨ comp k k' = true := by
    cases h1 : comp k' k with
    | true => exact Or.inl rfl
    | false =>
      cases h2 : comp k k' with
      | true => exact Or.inr rfl
      | false => exact absurd (h.total _ _ h1 h2) hne
  induction l with
  | nil =>
    rcases tri with t | t
    · simp [OrdMap.insert, lookup, t]
    · simp [OrdMap.insert, lookup, t, STO.asymm h t]
  | cons x r ih =>
    obtain ⟨k₀, v₀⟩ := x
    obtain ⟨hx, hr⟩ := hs
    unfold OrdMap.insert
    split
    · rename_i h1   -- comp k k₀
      rcases tri with t | t
      · -- k' < k < k₀
        have : comp k' k₀ = true := h.trans _ _ _ t h1
        simp [lookup, t, this]
      · -- k < k'
        conv => lhs; unfold lookup
        rw [if_neg (by simp [STO.asymm h t]), if_pos t]
    · rename_i h1
      split
      · rename_i h2  -- comp k₀ k
        conv => lhs; unfold lookup
        conv => rhs; unfold lookup
        rw [ih hr]
      · rename_i h2
        have e : k = k₀ := h.total _ _ (by simpa using h1) (by simpa using h2)
        subst e
        conv => lhs; unfold lookup
        conv => rhs; unfold lookup
        rcases tri with t | t
        · simp [t]
        · simp [t, STO.asymm h t]

theorem lookup_erase_self (h : STO comp) (k : κ) {l : List (κ × ν)} (hs : Sorted comp l) :
    lookup comp k (erase comp k l) = none := by
  induction l with
  | nil => rfl
  | cons x r ih =>
    obtain ⟨k₀, v₀⟩ := x
    obtain ⟨hx, hr⟩ := hs
    unfold erase
    split
    · rename_i h1
      simp [lookup, h1]
    · rename_i h1
      split
      · rename_i h2
        unfold lookup
        rw [if_neg h1, if_pos h2, ih hr]
      · rename_i h2
        have e : k = k₀ := h.total _ _ (by simpa using h1) (by simpa using h2)
        subst e
        cases r with
        | nil => rfl
        | cons y r' =>
          obtain ⟨k₁, v₁⟩ := y
          have := hx (k₁, v₁) List.mem_cons_self
          simp [lookup, this]

theorem lookup_erase_other (h : STO comp) {k k' : κ} (hne : k' ≠ k) {l : List (κ × ν)}
    (hs : Sorted comp l) : lookup comp k' (erase comp k l) = lookup comp k' l := by
  have tri : comp k' k = true ∨ comp k k' = true := by
    cases h1 : comp k' k with
    | true => exact Or.inl rfl
    | false =>
      cases h2 : comp k k' with
      | true => exact Or.inr rfl
      | false => exact absurd (h.total _ _ h1 h2) hne
  induction l with
  | nil => rfl
  | cons x r ih =>
    obtain ⟨k₀, v₀⟩ := x
    obtain ⟨hx, hr⟩ := hs
    unfold erase
    split
    · rfl
    · rename_i h1
      split
      · rename_i h2
        conv => lhs; unfold lookup
        conv => rhs; unfold lookup
        rw [ih hr]
      · rename_i h2
        have e : k = k₀ := h.total _ _ (by simpa using h1) (by simpa using h2)
        subst e
        conv => rhs; unfold lookup
        rcases tri with t | t
        · -- k' < k ≤ everything in r
          rw [if_pos t]
          cases r with
          | nil => rfl
          | cons y r' =>
            obtain ⟨k₁, v₁⟩ := y
            have := h.trans _ _ _ t (hx (k₁, v₁) List.mem_cons_self)
            simp [lookup, this]
        · rw [if_neg (by simp [STO.asymm h t]), if_pos t]

/-! ## 2. `insert / erase / lookup` over `a ++ (k, v) :: b` -/

theorem insert_append_left {key k : κ} (hk : comp key k = true) (val v : ν) (a b : List (κ × ν)) :
    OrdMap.insert comp key val (a ++ (k, v) :: b) = OrdMap.insert comp key val a ++ (k, v) :: b := by
  induction a with
  | nil => simp [OrdMap.insert, hk]
  | cons x r ih =>
    obtain ⟨k', v'⟩ := x
    simp only [List.cons_append, OrdMap.insert]
    split
    · rfl
    · split
      · rw [ih]; rfl
      · rfl

theorem erase_append_left {key k : κ} (hk : comp key k = true) (v : ν) (a b : List (κ × ν)) :
    erase comp key (a ++ (k, v) :: b) = erase comp key a ++ (k, v) :: b := by
  induction a with
  | nil => simp [erase, hk]
  | cons x r ih =>
    obtain ⟨k', v'⟩ := x
    simp only [List.cons_append, erase]
    split
    · rfl
    · split
      · rw [ih]; rfl
      · rfl

theorem lookup_append_left {key k : κ} (hk : comp key k = true) (v : ν) (a b : List (κ × ν)) :
    lookup comp key (a ++ (k, v) :: b) = lookup comp key a := by
  induction a with
  | nil => simp [lookup, hk]
  | cons x r ih =>
    obtain ⟨k', v'⟩ := x
    simp only [List.cons_append, lookup]
    rw [ih]

theorem insert_append_right (h : STO comp) {key : κ} (val : ν) {a : List (κ × ν)}
    (ha : ∀ e ∈ a, comp e.1 key = true) (l : List (κ × ν)) :
    OrdMap.insert comp key val (a ++ l) = a ++ OrdMap.insert comp key val l := by
  induction a with
  | nil => rfl
  | cons x r ih =>
    obtain ⟨k', v'⟩ := x
    have hx : comp k' key = true := ha (k', v') List.mem_cons_self
    simp only [List.cons_append, OrdMap.insert]
    rw [if_neg (by simp [STO.asymm h hx]), if_pos hx, ih (fun e he => ha e (List.mem_cons_of_mem _ he))]

theorem erase_append_right (h : STO comp) {key : κ} {a : List (κ × ν)}
    (ha : ∀ e ∈ a, comp e.1 key = true) (l : List (κ × ν)) :
    erase comp key (a ++ l) = a ++ erase comp key l := by
  induction a with
  | nil => rfl
  | cons x r ih =>
    obtain ⟨k', v'⟩ := x
    have hx : comp k' key = true := ha (k', v') List.mem_cons_self
    simp only [List.cons_append, erase]
    rw [if_neg (by simp [STO.asymm h hx]), if_pos hx, ih (fun e he => ha e (List.mem_cons_of_mem _ he))]

theorem lookup_append_right (h : STO comp) {key : κ} {a : List (κ × ν)}
    (ha : ∀ e ∈ a, comp e.1 key = true) (l : List (κ × ν)) :
    lookup comp key (a ++ l) = lookup comp key l := by
  induction a with
  | nil => rfl
  | cons x r ih =>
    obtain ⟨k', v'⟩ := x
    have hx : comp k' key = true := ha (k', v') List.mem_cons_self
    simp only [List.cons_append, lookup]
    rw [if_neg (by simp [STO.asymm h hx]), if_pos hx, ih (fun e he => ha e (List.mem_cons_of_mem _ he))]

theorem sorted_append {a b : List (κ × ν)} :
    Sorted comp (a ++ b) ↔
      Sorted comp a ∧ Sorted comp b ∧ ∀ x ∈ a, ∀ y ∈ b, comp x.1 y.1 = true := by
  simp only [sorted_iff_pairwise, List.pairwise_append]

/-! ### the three positions of `key` relative to the root key `k` of `a ++ (k, v) :: b` -/

section mid
variable (h : STO comp) {k : κ} {a : List (κ × ν)} (ha : ∀ e ∈ a, comp e.1 k = true)
include h ha

theorem lookup_append_mid (v : ν) (b : List (κ × ν)) :
    lookup comp k (a ++ (k, v) :: b) = some v := by
  rw [lookup_append_right h ha]; simp [lookup, h.irrefl]

theorem insert_append_mid (val v : ν) (b : List (κ × ν)) :
    OrdMap.insert comp k val (a ++ (k, v) :: b) = a ++ (k, val) :: b := by
  rw [insert_append_right h val ha]; simp [OrdMap.insert, h.irrefl]

theorem erase_append_mid (v : ν) (b : List (κ × ν)) :
    erase comp k (a ++ (k, v) :: b) = a ++ b := by
  rw [erase_append_right h ha]; simp [erase, h.irrefl]

variable {key : κ} (c : comp k key = true)
include c

theorem lookup_append_gt (v : ν) (b : List (κ × ν)) :
    lookup comp key (a ++ (k, v) :: b) = lookup comp key b := by
  rw [lookup_append_right h (fun e he => h.trans _ _ _ (ha e he) c)]
  simp [lookup, c, STO.asymm h c]

theorem insert_append_gt (val v : ν) (b : List (κ × ν)) :
    OrdMap.insert comp key val (a ++ (k, v) :: b) = a ++ (k, v) :: OrdMap.insert comp key val b := by
  rw [insert_append_right h val (fun e he => h.trans _ _ _ (ha e he) c)]
  simp [OrdMap.insert, c, STO.asymm h c]

theorem erase_append_gt (v : ν) (b : List (κ × ν)) :
    erase comp key (a ++ (k, v) :: b) = a ++ (k, v) :: erase comp key b := by
  rw [erase_append_right h (fun e he => h.trans _ _ _ (ha e he) c)]
  simp [erase, c, STO.asymm h c]

end mid

end GoguVerif.Lemmas.C04
