import GoguVerif.Spec.C09
/-!
# C09 helper lemmas, part 1: the byte-lexicographic order and the ordered association list

Nothing here mentions the model: facts about `lexLt`, `isPrefix`, `OrdMap.insert/lookup` and
`Spec.C09.longest` that the refinement proof and the clause corollaries use.
-/
namespace GoguVerif.Lemmas.C09
open GoguVerif.Spec GoguVerif.Spec.C09

/-! ## bytes -/

theorem byte_eq_of_not_lt {a b : UInt8} (h1 : ¬ a < b) (h2 : ¬ b < a) : a = b :=
  UInt8.le_antisymm (UInt8.not_lt.mp h2) (UInt8.not_lt.mp h1)

/-! ## `lexLt` -/

@[simp] theorem lexLt_nil_nil : lexLt [] [] = false := rfl
@[simp] theorem lexLt_nil_cons (b : UInt8) (s : Key) : lexLt [] (b :: s) = true := rfl
@[simp] theorem lexLt_cons_nil (a : UInt8) (r : Key) : lexLt (a :: r) [] = false := rfl

theorem lexLt_cons_cons (a b : UInt8) (r s : Key) :
    lexLt (a :: r) (b :: s) = if a < b then true else if b < a then false else lexLt r s := rfl

theorem lexLt_cons_lt {a b : UInt8} (h : a < b) (r s : Key) : lexLt (a :: r) (b :: s) = true := by
  simp [lexLt_cons_cons, h]

theorem lexLt_cons_gt {a b : UInt8} (h : b < a) (r s : Key) : lexLt (a :: r) (b :: s) = false := by
  simp [lexLt_cons_cons, h, UInt8.lt_asymm h]

@[simp] theorem lexLt_cons_same (c : UInt8) (r s : Key) : lexLt (c :: r) (c :: s) = lexLt r s := by
  simp [lexLt_cons_cons, UInt8.lt_irrefl]

theorem lexLt_irrefl : ∀ a : Key, lexLt a a = false
  | [] => rfl
  | c :: r => by rw [lexLt_cons_same]; exact lexLt_irrefl r

theorem lexLt_trans : ∀ a b c : Key, lexLt a b = true → lexLt b c = true → lexLt a c = true
  | [], [], _, h, _ => by simp at h
  | [], _ :: _, [], _, h => by simp at h
  | [], _ :: _, _ :: _, _, _ => rfl
  | _ :: _, [], _, h, _ => by simp at h
  | _ :: _, _ :: _, [], _, h => by simp at h
  | x :: r, y :: s, z :: t, h1, h2 => by
    rw [lexLt_cons_cons] at h1 h2 ⊢
    by_cases hxy : x < y
    · by_cases hyz : y < z
      · simp [UInt8.lt_trans hxy hyz]
      · by_cases hzy : z < y
        · simp [hyz, hzy] at h2
        · have : y = z := byte_eq_of_not_lt hyz hzy
          subst this; simp [hxy]
    · by_cases hyx : y < x
      · simp [hxy, hyx] at h1
      · have : x = y := byte_eq_of_not_lt hxy hyx
        subst this
        by_cases hxz : x < z
        · simp [hxz]
        · by_cases hzx : z < x
          · simp [hxz, hzx] at h2
          · simp only [hxy, hxz, hzx, if_false] at h1 h2 ⊢
            exact lexLt_trans r s t h1 h2

theorem lexLt_total : ∀ a b : Key, lexLt a b = false → lexLt b a = false → a = b
  | [], [], _, _ => rfl
  | [], _ :: _, h, _ => by simp at h
  | _ :: _, [], _, h => by simp at h
  | x :: r, y :: s, h1, h2 => by
    rw [lexLt_cons_cons] at h1 h2
    by_cases hxy : x < y
    · simp [hxy] at h1
    · by_cases hyx : y < x
      · simp [hyx] at h2
      · have : x = y := byte_eq_of_not_lt hxy hyx
        subst this
        simp only [hxy, if_false] at h1 h2
        rw [lexLt_total r s h1 h2]

theorem lexLt_asymm (a b : Key) (h : lexLt a b = true) : lexLt b a = false := by
  cases hba : lexLt b a with
  | false => rfl
  | true => have := lexLt_trans a b a h hba; rw [lexLt_irrefl] at this; cases this

/-- `lexLt` is a strict total order on byte strings. -/
theorem lexLt_sto : OrdMap.STO lexLt := ⟨lexLt_irrefl, lexLt_trans, lexLt_total⟩

/-! ## `isPrefix` -/

@[simp] theorem isPrefix_nil (k : Key) : isPrefix [] k = true := by cases k <;> rfl
@[simp] theorem isPrefix_cons_nil (a : UInt8) (r : Key) : isPrefix (a :: r) [] = false := rfl
@[simp] theorem isPrefix_cons_cons (a b : UInt8) (r s : Key) :
    isPrefix (a :: r) (b :: s) = (a == b && isPrefix r s) := rfl

theorem isPrefix_cons_same (c : UInt8) (r s : Key) : isPrefix (c :: r) (c :: s) = isPrefix r s := by
  simp

theorem isPrefix_cons_ne {a b : UInt8} (h : a ≠ b) (r s : Key) : isPrefix (a :: r) (b :: s) = false := by
  simp [h]

theorem isPrefix_refl : ∀ k : Key, isPrefix k k = true
  | [] => rfl
  | c :: r => by simp [isPrefix_refl r]

/-- `isPrefix p k` is the usual prefix relation. -/
theorem isPrefix_iff : ∀ p k : Key, isPrefix p k = true ↔ ∃ t, k = p ++ t
  | [], k => by simp
  | a :: r, [] => by simp
  | a :: r, b :: s => by
    simp only [isPrefix_cons_cons, Bool.and_eq_true, beq_iff_eq, isPrefix_iff r s, List.cons_append,
      List.cons.injEq]
    constructor
    · rintro ⟨rfl, t, rfl⟩; exact ⟨t, rfl, rfl⟩
    · rintro ⟨t, rfl, rfl⟩; exact ⟨rfl, t, rfl⟩

theorem isPrefix_eq_take : ∀ p k : Key, isPrefix p k = true → p = k.take p.length
  | [], k, _ => by simp
  | a :: r, [], h => by simp at h
  | a :: r, b :: s, h => by
    simp only [isPrefix_cons_cons, Bool.and_eq_true, beq_iff_eq] at h
    simp only [List.length_cons, List.take_succ_cons, List.cons.injEq]
    exact ⟨h.1, isPrefix_eq_take r s h.2⟩

theorem isPrefix_length_le (p k : Key) (h : isPrefix p k = true) : p.length ≤ k.length := by
  obtain ⟨t, rfl⟩ := (isPrefix_iff p k).mp h
  simp

/-! ## `OrdMap.insert` / `OrdMap.lookup` on concatenations -/

section ordmap
variable {ν : Type}

/-- Everything in `R` comes after `k`: inserting into `L ++ R` only touches `L`. -/
theorem insert_append_left (comp : Key → Key → Bool) (k : Key) (v : ν) (L R : List (Key × ν))
    (hR : ∀ e ∈ R, comp k e.1 = true) :
    OrdMap.insert comp k v (L ++ R) = OrdMap.insert comp k v L ++ R := by
  induction L with
  | nil =>
    cases R with
    | nil => rfl
    | cons e R' =>
      obtain ⟨k', v'⟩ := e
      have := hR (k', v') (by simp)
      simp [OrdMap.insert, this]
  | cons e L' ih =>
    obtain ⟨k', v'⟩ := e
    simp only [List.cons_append, OrdMap.insert]
    split
    · rfl
    · split
      · rw [ih]; rfl
      · rfl

/-- Everything in `L` comes before `k`: inserting into `L ++ R` only touches `R`. -/
theorem insert_append_right (comp : Key → Key → Bool) (k : Key) (v : ν) (L R : List (Key × ν))
    (hL : ∀ e ∈ L, comp e.1 k = true ∧ comp k e.1 = false) :
    OrdMap.insert comp k v (L ++ R) = L ++ OrdMap.insert comp k v R := by
  induction L with
  | nil => rfl
  | cons e L' ih =>
    obtain ⟨k', v'⟩ := e
    have h := hL (k', v') (by simp)
    simp only [List.cons_append, OrdMap.insert, h.1, h.2, if_true, Bool.false_eq_true, if_false]
    rw [ih (fun e he => hL e (by simp [he]))]

/-- Inserting before everything. -/
theorem insert_all_gt (comp : Key → Key → Bool) (k : Key) (v : ν) (R : List (Key × ν))
    (hR : ∀ e ∈ R, comp k e.1 = true) : OrdMap.insert comp k v R = (k, v) :: R := by
  have := insert_append_left comp k v [] R hR
  simpa [OrdMap.insert] using this

def consKey (c : UInt8) (e : Key × ν) : Key × ν := (c :: e.1, e.2)

@[simp] theorem consKey_fst (c : UInt8) (e : Key × ν) : (consKey c e).1 = c :: e.1 := rfl
@[simp] theorem consKey_snd (c : UInt8) (e : Key × ν) : (consKey c e).2 = e.2 := rfl

theorem insert_map_cons (c : UInt8) (k : Key) (v : ν) (M : List (Key × ν)) :
    OrdMap.insert lexLt (c :: k) v (M.map (consKey c)) = (OrdMap.insert lexLt k v M).map (consKey c) := by
  induction M with
  | nil => rfl
  | cons e M' ih =>
    obtain ⟨k', v'⟩ := e
    simp only [List.map_cons, consKey, OrdMap.insert, lexLt_cons_same]
    split
    · rfl
    · split
      · simp only [List.map_cons, consKey]; rw [← ih]
      · rfl

theorem lookup_append_left (comp : Key → Key → Bool) (k : Key) (L R : List (Key × ν))
    (hR : ∀ e ∈ R, comp k e.1 = true) :
    OrdMap.lookup comp k (L ++ R) = OrdMap.lookup comp k L := by
  induction L with
  | nil =>
    cases R with
    | nil => rfl
    | cons e R' =>
      obtain ⟨k', v'⟩ := e
      have := hR (k', v') (by simp)
      simp [OrdMap.lookup, this]
  | cons e L' ih =>
    obtain ⟨k', v'⟩ := e
    simp only [List.cons_append, OrdMap.lookup]
    rw [ih]

theorem lookup_append_right (comp : Key → Key → Bool) (k : Key) (L R : List (Key × ν))
    (hL : ∀ e ∈ L, comp e.1 k = true ∧ comp k e.1 = false) :
    OrdMap.lookup comp k (L ++ R) = OrdMap.lookup comp k R := by
  induction L with
  | nil => rfl
  | cons e L' ih =>
    obtain ⟨k', v'⟩ := e
    have h := hL (k', v') (by simp)
    simp only [List.cons_append, OrdMap.lookup, h.1, h.2, if_true, Bool.false_eq_true, if_false]
    rw [ih (fun e he => hL e (by simp [he]))]

theorem lookup_all_gt (comp : Key → Key → Bool) (k : Key) (R : List (Key × ν))
    (hR : ∀ e ∈ R, comp k e.1 = true) : OrdMap.lookup comp k R = none := by
  have := lookup_append_left comp k [] R hR
  simpa [OrdMap.lookup] using this

theorem lookup_map_cons (c : UInt8) (k : Key) (M : List (Key × ν)) :
    OrdMap.lookup lexLt (c :: k) (M.map (consKey c)) = OrdMap.lookup lexLt k M := by
  induction M with
  | nil => rfl
  | cons e M' ih =>
    obtain ⟨k', v'⟩ := e
    simp only [List.map_cons, consKey, OrdMap.lookup, lexLt_cons_same, ih]

end ordmap

end GoguVerif.Lemmas.C09
