import GoguVerif.Model.Cache
/-!
# C08 — helper lemmas: the association-list map primitives, the `range` loops of `cache.go`
characterised independently of the iteration order, the abstraction to `Spec.C08`.
-/
namespace GoguVerif.Lemmas.C08
open GoguVerif GoguVerif.Model.Cache

/-- the keys of the Go map -/
def keys (m : Items) : List Int := m.map (·.1)

@[simp] theorem keys_nil : keys [] = [] := rfl
@[simp] theorem keys_cons (p : Int × Item) (m : Items) : keys (p :: m) = p.1 :: keys m := rfl
@[simp] theorem keys_append (a b : Items) : keys (a ++ b) = keys a ++ keys b := by simp [keys]

/-! ## `lookup`, `erase`, `assign` -/

theorem lookup_eq_none_iff {k : Int} {m : Items} : lookup k m = none ↔ k ∉ keys m := by
  induction m with
  | nil => simp [lookup]
  | cons p r ih =>
    obtain ⟨k', it⟩ := p
    by_cases h : k' = k
    · simp [lookup, h]
    · have h' : ¬ k = k' := fun e => h e.symm
      simp [lookup, h, h', ih]

theorem lookup_isSome_of_mem {k : Int} {m : Items} (h : k ∈ keys m) : ∃ it, lookup k m = some it := by
  cases hl : lookup k m with
  | none => exact absurd h (lookup_eq_none_iff.mp hl)
  | some it => exact ⟨it, rfl⟩

theorem mem_of_lookup {k : Int} {it : Item} {m : Items} (h : lookup k m = some it) : (k, it) ∈ m := by
  induction m with
  | nil => simp [lookup] at h
  | cons p r ih =>
    obtain ⟨k', it'⟩ := p
    by_cases hk : k' = k
    · simp [lookup, hk] at h; simp [hk, h]
    · simp [lookup, hk] at h; exact List.mem_cons_of_mem _ (ih h)

theorem lookup_of_mem {k : Int} {it : Item} {m : Items} (hn : (keys m).Nodup) (h : (k, it) ∈ m) :
    lookup k m = some it := by
  induction m with
  | nil => simp at h
  | cons p r ih =>
    obtain ⟨k', it'⟩ := p
    simp only [keys_cons, List.nodup_cons] at hn
    rcases List.mem_cons.mp h with h | h
    · cases h; simp [lookup]
    · have : k ∈ keys r := List.mem_map.mpr ⟨(k, it), h, rfl⟩
      have hk : ¬ k' = k := fun e => hn.1 (e ▸ this)
      simp [lookup, hk, ih hn.2 h]

theorem erase_eq_filter (k : Int) (m : Items) : erase k m = m.filter (fun p => !(p.1 == k)) := by
  induction m with
  | nil => rfl
  | cons p r ih =>
    obtain ⟨k', it⟩ := p
    by_cases h : k' = k <;> simp [erase, h, ih]

theorem erase_of_not_mem {k : Int} {m : Items} (h : k ∉ keys m) : erase k m = m := by
  induction m with
  | nil => rfl
  | cons p r ih =>
    obtain ⟨k', it⟩ := p
    simp only [keys_cons, List.mem_cons, not_or] at h
    have hk : ¬ k' = k := fun e => h.1 e.symm
    simp [erase, hk, ih h.2]

theorem erase_append (k : Int) (a b : Items) : erase k (a ++ b) = erase k a ++ erase k b := by
  simp [erase_eq_filter]

theorem lookup_erase (k k' : Int) (m : Items) :
    lookup k' (erase k m) = if k' = k then none else lookup k' m := by
  induction m with
  | nil => simp [erase, lookup]
  | cons p r ih =>
    obtain ⟨k1, it⟩ := p
    by_cases h1 : k1 = k
    · by_cases h2 : k' = k
      · subst h1; subst h2; simp [erase, ih]
      · have : ¬ k = k' := fun e => h2 e.symm
        simp [erase, lookup, h1, ih, h2, this]
    · by_cases h3 : k1 = k'
      · have : ¬ k' = k := fun e => h1 (h3.trans e)
        simp [erase, lookup, h3, this]
      · simp [erase, lookup, h1, h3, ih]

theorem lookup_assign (k k' : Int) (it : Item) (m : Items) :
    lookup k' (assign k it m) = if k' = k then some it else lookup k' m := by
  by_cases h : k' = k
  · simp [assign, lookup, h]
  · have : ¬ k = k' := fun e => h e.symm
    simp [assign, lookup, h, this, lookup_erase]

theorem keys_erase_sublist (k : Int) (m : Items) : (keys (erase k m)).Sublist (keys m) := by
  rw [erase_eq_filter]
  exact (List.filter_sublist (l := m)).map _

theorem not_mem_keys_erase (k : Int) (m : Items) : k ∉ keys (erase k m) := by
  rw [← lookup_eq_none_iff, lookup_erase]; simp

theorem nodup_erase {k : Int} {m : Items} (h : (keys m).Nodup) : (keys (erase k m)).Nodup :=
  (keys_erase_sublist k m).nodup h

theorem nodup_assign {k : Int} {it : Item} {m : Items} (h : (keys m).Nodup) :
    (keys (assign k it m)).Nodup := by
  simp only [assign, keys_cons, List.nodup_cons]
  exact ⟨not_mem_keys_erase k m, nodup_erase h⟩

/-! ## `DeleteExpired`: the loop removes exactly the entries with `0 < exp < now` -/

/-- the test of `DeleteExpired` (and of `Get`, `IsExpired`): `expiration > 0 && now > expiration` -/
def expired (now : Int) (it : Item) : Bool := decide (it.expiration > 0 ∧ now > it.expiration)

theorem get_eq (now : Int) (m : Items) (k : Int) :
    Model.Cache.get now m k = (lookup k m).filter (fun it => !expired now it) := by
  unfold Model.Cache.get
  cases lookup k m with
  | none => rfl
  | some it =>
    by_cases h1 : it.expiration > 0 <;> by_cases h2 : now > it.expiration <;>
      simp [expired, h1, h2, Option.filter_some]

theorem isExpired_eq (now : Int) (m : Items) (k : Int) :
    isExpired now m k = match lookup k m with
      | some it => expired now it
      | none => false := by
  unfold isExpired
  cases lookup k m with
  | none => rfl
  | some it =>
    by_cases h1 : it.expiration > 0 <;> by_cases h2 : now > it.expiration <;> simp [expired, h1, h2]

theorem deleteExpiredLoop_spec (now : Int) (es : Items) :
    ∀ (a : Items) (err : Bool), (keys (a ++ es)).Nodup →
      deleteExpiredLoop now es (a ++ es) err = (a ++ es.filter (fun p => !expired now p.2), err) := by
  induction es with
  | nil => intro a err _; simp [deleteExpiredLoop]
  | cons p r ih =>
    intro a err hn
    obtain ⟨k, it⟩ := p
    by_cases hp : it.expiration > 0 ∧ now > it.expiration
    · have hk : k ∈ keys (a ++ (k, it) :: r) := by simp
      obtain ⟨it', hit'⟩ := lookup_isSome_of_mem hk
      simp only [keys_append, keys_cons] at hn
      have hna : k ∉ keys a := fun h =>
        (List.nodup_append.mp hn).2.2 k h k (List.mem_cons_self) rfl
      have hnr : k ∉ keys r := (List.nodup_cons.mp (List.nodup_append.mp hn).2.1).1
      have he : erase k (a ++ (k, it) :: r) = a ++ r := by
        rw [erase_append, erase_of_not_mem hna]
        simp [erase, erase_of_not_mem hnr]
      have hn' : (keys (a ++ r)).Nodup := by
        simp only [keys_append]
        exact (List.Sublist.append_left (List.sublist_cons_self k (keys r)) (keys a)).nodup hn
      have hq : (!expired now it) = false := by simp [expired, hp]
      simp only [deleteExpiredLoop, hp, and_self, if_true, delete, hit', he]
      rw [ih a _ hn']
      simp [hq]
    · have hn' : (keys ((a ++ [(k, it)]) ++ r)).Nodup := by simpa using hn
      have := ih (a ++ [(k, it)]) err hn'
      simp only [List.append_assoc, List.singleton_append] at this
      have hq : (!expired now it) = true := by simp [expired]; omega
      simp only [deleteExpiredLoop, hp, if_false, this]
      simp [hq]

theorem deleteExpired_eq_filter {now : Int} {m : Items} (hn : (keys m).Nodup) :
    deleteExpired now m = (m.filter (fun p => !expired now p.2), false) := by
  have := deleteExpiredLoop_spec now m [] false (by simpa using hn)
  simp only [List.nil_append] at this
  simp [deleteExpired, this]

theorem lookup_filter {k : Int} {m : Items} (q : Item → Bool) (hn : (keys m).Nodup) :
    lookup k (m.filter (fun p => q p.2)) = (lookup k m).filter q := by
  induction m with
  | nil => simp [lookup]
  | cons p r ih =>
    obtain ⟨k', it⟩ := p
    simp only [keys_cons, List.nodup_cons] at hn
    by_cases hk : k' = k
    · subst hk
      by_cases hq : q it
      · simp [List.filter, hq, lookup, Option.filter_some]
      · have : lookup k' (r.filter (fun p => q p.2)) = none := by
          rw [lookup_eq_none_iff]
          intro h
          exact hn.1 ((List.filter_sublist.map _).subset h)
        simp [List.filter, hq, lookup, this, Option.filter_some]
    · by_cases hq : q it <;> simp [List.filter, hq, lookup, hk, ih hn.2]

theorem keys_filter_nodup {m : Items} (q : Int × Item → Bool) (hn : (keys m).Nodup) :
    (keys (m.filter q)).Nodup :=
  ((List.filter_sublist (l := m)).map _).nodup hn

/-! ## `List`: the copy loop yields the same map -/

theorem listLoop_spec (es : Items) : ∀ acc : Items, (keys (es ++ acc)).Nodup →
    listLoop es acc = es.reverse ++ acc := by
  induction es with
  | nil => intro acc _; simp [listLoop]
  | cons p r ih =>
    intro acc hn
    obtain ⟨k, it⟩ := p
    simp only [List.cons_append, keys_cons, keys_append, List.nodup_cons, List.mem_append, not_or] at hn
    have hn' : (keys (r ++ (k, it) :: acc)).Nodup := by
      simp only [keys_append, keys_cons]
      have := hn.2
      rw [List.nodup_append] at this ⊢
      refine ⟨this.1, List.nodup_cons.mpr ⟨hn.1.2, this.2.1⟩, ?_⟩
      intro a ha b hb
      rcases List.mem_cons.mp hb with hb | hb
      · subst hb; intro e; subst e; exact hn.1.1 ha
      · exact this.2.2 a ha b hb
    simp only [listLoop, assign, erase_of_not_mem hn.1.2]
    rw [ih _ hn']
    simp

theorem list_eq_reverse {m : Items} (hn : (keys m).Nodup) : list m = m.reverse := by
  have := listLoop_spec m [] (by simpa using hn)
  simpa [list] using this

/-! ## the canonical sorted observable does not depend on the iteration order -/

theorem insertKV_comm (a b : Int × Int) (h : a.1 ≠ b.1) (l : List (Int × Int)) :
    insertKV a (insertKV b l) = insertKV b (insertKV a l) := by
  induction l with
  | nil =>
    simp only [insertKV]
    by_cases h1 : a.1 ≤ b.1 <;> by_cases h2 : b.1 ≤ a.1 <;> simp [h1, h2] <;> omega
  | cons x r ih =>
    simp only [insertKV]
    by_cases h1 : a.1 ≤ x.1 <;> by_cases h2 : b.1 ≤ x.1 <;>
      by_cases h3 : a.1 ≤ b.1 <;> by_cases h4 : b.1 ≤ a.1 <;>
      simp [insertKV, h1, h2, h3, h4, ih] <;> omega

theorem sortKV_perm {l l' : List (Int × Int)} (hp : l.Perm l') (hn : (l.map (·.1)).Nodup) :
    sortKV l = sortKV l' := by
  induction hp with
  | nil => rfl
  | cons x _ ih =>
    simp only [List.map_cons, List.nodup_cons] at hn
    simp [sortKV, ih hn.2]
  | swap x y l =>
    simp only [List.map_cons, List.nodup_cons, List.mem_cons, not_or] at hn
    simp only [sortKV]
    exact insertKV_comm y x (fun e => hn.1.1 e) _
  | trans h1 _ ih1 ih2 =>
    rw [ih1 hn]
    exact ih2 (((h1.map (·.1)).nodup_iff).mp hn)

theorem insertKV_perm (e : Int × Int) (l : List (Int × Int)) : (insertKV e l).Perm (e :: l) := by
  induction l with
  | nil => simp [insertKV]
  | cons x r ih =>
    simp only [insertKV]
    by_cases h : e.1 ≤ x.1
    · simp [h]
    · simp only [h, if_false]
      exact (List.Perm.cons x ih).trans (List.Perm.swap e x r)

theorem sortKV_perm_self (l : List (Int × Int)) : (sortKV l).Perm l := by
  induction l with
  | nil => simp [sortKV]
  | cons e r ih => exact (insertKV_perm e _).trans (List.Perm.cons e ih)

theorem insertKV_sorted (e : Int × Int) (l : List (Int × Int))
    (h : l.Pairwise (fun a b => a.1 ≤ b.1)) : (insertKV e l).Pairwise (fun a b => a.1 ≤ b.1) := by
  induction l with
  | nil => simp [insertKV]
  | cons x r ih =>
    simp only [insertKV]
    rw [List.pairwise_cons] at h
    by_cases hx : e.1 ≤ x.1
    · simp only [hx, if_true, List.pairwise_cons]
      refine ⟨?_, h.1, h.2⟩
      intro b hb
      rcases List.mem_cons.mp hb with hb | hb
      · subst hb; exact hx
      · exact Int.le_trans hx (h.1 b hb)
    · simp only [hx, if_false, List.pairwise_cons]
      refine ⟨?_, ih h.2⟩
      intro b hb
      rcases List.mem_cons.mp ((insertKV_perm e r).subset hb) with hb | hb
      · subst hb; omega
      · exact h.1 b hb

theorem sortKV_sorted (l : List (Int × Int)) : (sortKV l).Pairwise (fun a b => a.1 ≤ b.1) := by
  induction l with
  | nil => simp [sortKV]
  | cons e r ih => exact insertKV_sorted e _ ih

/-! ## Abstraction to the specification's map-with-deadlines, representation invariant -/

open GoguVerif.Spec.C08 (Entry)

def absItem (p : Int × Item) : Entry := ⟨p.1, p.2.object, p.2.expiration⟩
def absItems (m : Items) : List Entry := m.map absItem
def absCfg (cfg : Cfg) : Spec.C08.Cfg := ⟨cfg.expTime, cfg.cleanupInt, cfg.strVals⟩
/-- abstraction function: the clocked model state ↦ the specification's state -/
def abs (s : St) : Spec.C08.St := ⟨s.now, absItems s.items⟩

/-- representation invariant: the association list is a map (unique keys), and — when the janitor
runs — the ticker's next firing instant is the least multiple of `cleanupInt` after `now`. -/
def Inv (cfg : Cfg) (s : St) : Prop :=
  (keys s.items).Nodup ∧
  (cfg.cleanupInt > 0 → s.nextTick = (s.now / cfg.cleanupInt + 1) * cfg.cleanupInt)

theorem find_abs (k : Int) (m : Items) :
    Spec.C08.find k (absItems m) = (lookup k m).map fun it => ⟨k, it.object, it.expiration⟩ := by
  induction m with
  | nil => rfl
  | cons p r ih =>
    obtain ⟨k', it⟩ := p
    simp only [Spec.C08.find, absItems] at ih
    by_cases h : k' = k
    · subst h; simp [Spec.C08.find, absItems, absItem, lookup]
    · simp [Spec.C08.find, absItems, absItem, lookup, h, ih]

theorem erase_abs (k : Int) (m : Items) :
    (absItems m).filter (fun e => !(e.key == k)) = absItems (erase k m) := by
  simp [absItems, erase_eq_filter, List.filter_map, Function.comp_def, absItem]

theorem store_abs (k v exp : Int) (m : Items) :
    Spec.C08.store k v exp (absItems m) = absItems (assign k ⟨v, exp⟩ m) := by
  simp only [Spec.C08.store, erase_abs]
  simp [absItems, assign, absItem]

theorem expOf_abs (cfg : Cfg) (now d : Int) : Spec.C08.expOf (absCfg cfg) now d = expiry cfg now d := by
  by_cases hd : d = 0 <;>
    simp [Spec.C08.expOf, expiry, absCfg, Gen.defaultExpiration, Gen.noExpiration, hd]

theorem accepted_abs (cfg : Cfg) (v : Int) : Spec.C08.accepted (absCfg cfg) v = !rejected cfg v := rfl

/-- With the choice `c = true` (the deadline instant itself is live) the specification's liveness
test is the negation of the code's `expiration > 0 && now > expiration`. -/
theorem live_abs (now : Int) (p : Int × Item) : Spec.C08.live true now (absItem p) = !expired now p.2 := by
  obtain ⟨k, o, e⟩ := p
  show (decide (e ≤ 0) || decide (now < e) || (true && now == e)) = !(decide (e > 0 ∧ now > e))
  rw [Bool.eq_iff_iff]
  simp
  omega

theorem live_iff (now : Int) (k : Int) (it : Item) :
    Spec.C08.live true now ⟨k, it.object, it.expiration⟩ = true ↔ (it.expiration ≤ 0 ∨ now ≤ it.expiration) := by
  have := live_abs now (k, it)
  simp only [absItem] at this
  rw [this]; simp [expired]

theorem purgeAt_abs {t : Int} {m : Items} (hn : (keys m).Nodup) :
    Spec.C08.purgeAt true t (absItems m) = absItems (deleteExpired t m).1 := by
  rw [deleteExpired_eq_filter hn]
  simp only [Spec.C08.purgeAt, absItems, List.filter_map]
  congr 1
  apply List.filter_congr
  intro p _
  simp [live_abs]

theorem nodup_deleteExpired {t : Int} {m : Items} (hn : (keys m).Nodup) :
    (keys (deleteExpired t m).1).Nodup := by
  rw [deleteExpired_eq_filter hn]; exact keys_filter_nodup _ hn

/-! ### `Set`, `store`, `MapToCache` -/

theorem nodup_store {cfg : Cfg} {now : Int} {m : Items} {k v d : Int} (hn : (keys m).Nodup) :
    (keys (store cfg now m k v d).1).Nodup := by
  unfold store
  by_cases h : rejected cfg v = true
  · simpa [h] using hn
  · simp only [h]; exact nodup_assign hn

theorem nodup_set {cfg : Cfg} {now : Int} {m : Items} {k v d : Int} (hn : (keys m).Nodup) :
    (keys (Model.Cache.set cfg now m k v d).1).Nodup := by
  unfold Model.Cache.set
  split
  · split
    · exact hn
    · exact nodup_store hn
  · exact nodup_store hn

theorem setOne_abs (cfg : Cfg) (now : Int) (m : Items) (k v d : Int) :
    Spec.C08.setOne (absCfg cfg) true ⟨now, absItems m⟩ k v d
      = (⟨now, absItems (Model.Cache.set cfg now m k v d).1⟩, (Model.Cache.set cfg now m k v d).2) := by
  simp only [Spec.C08.setOne, find_abs, Model.Cache.set]
  cases hl : lookup k m with
  | none =>
    by_cases hr : rejected cfg v = true
    · simp [store, hr, accepted_abs]
    · simp [store, hr, accepted_abs, store_abs, expOf_abs]
  | some it =>
    by_cases hlive : it.expiration ≤ 0 ∨ now ≤ it.expiration
    · have := (live_iff now k it).mpr hlive
      simp [this, hlive]
    · have : Spec.C08.live true now ⟨k, it.object, it.expiration⟩ = false := by
        cases h : Spec.C08.live true now ⟨k, it.object, it.expiration⟩
        · rfl
        · exact absurd ((live_iff now k it).mp h) hlive
      by_cases hr : rejected cfg v = true
      · simp [this, hlive, store, hr, accepted_abs]
      · simp [this, hlive, store, hr, accepted_abs, store_abs, expOf_abs]

theorem nodup_mapToCacheLoop {cfg : Cfg} {now d : Int} (kvs : List (Int × Int)) :
    ∀ (m : Items) (err : Bool), (keys m).Nodup → (keys (mapToCacheLoop cfg now d kvs m err).1).Nodup := by
  induction kvs with
  | nil => intro m err hn; exact hn
  | cons kv r ih =>
    intro m err hn
    obtain ⟨k, v⟩ := kv
    simp only [mapToCacheLoop]
    exact ih _ _ (nodup_set hn)

theorem mapToCacheLoop_abs (cfg : Cfg) (now d : Int) (kvs : List (Int × Int)) :
    ∀ (m : Items) (err : Bool),
      kvs.foldl (fun (acc : Spec.C08.St × Bool) kv =>
          let (s1, e) := Spec.C08.setOne (absCfg cfg) true acc.1 kv.1 kv.2 d
          (s1, acc.2 || e)) (⟨now, absItems m⟩, err)
        = (⟨now, absItems (mapToCacheLoop cfg now d kvs m err).1⟩, (mapToCacheLoop cfg now d kvs m err).2) := by
  induction kvs with
  | nil => intro m err; rfl
  | cons kv r ih =>
    intro m err
    obtain ⟨k, v⟩ := kv
    simp only [List.foldl_cons, setOne_abs, mapToCacheLoop]
    exact ih _ _

/-! ### the canonical `List` observable -/

theorem insertSorted_eq (e : Int × Int) (l : List (Int × Int)) :
    Spec.C08.insertSorted e l = insertKV e l := by
  induction l with
  | nil => rfl
  | cons x l' ihl => simp [Spec.C08.insertSorted, insertKV, ihl]

theorem sortedItems_eq (m : Items) :
    Spec.C08.sortedItems (absItems m) = sortKV (m.map fun p => (p.1, p.2.object)) := by
  induction m with
  | nil => rfl
  | cons p r ih =>
    simp only [Spec.C08.sortedItems, absItems] at ih
    simp only [Spec.C08.sortedItems, absItems, List.map_cons, List.foldr_cons, sortKV]
    rw [ih, insertSorted_eq]
    rfl

theorem listObs_abs {m : Items} (hn : (keys m).Nodup) :
    listObs m = Spec.C08.sortedItems (absItems m) := by
  rw [sortedItems_eq, listObs, list_eq_reverse hn, List.map_reverse]
  apply sortKV_perm (List.reverse_perm _)
  have : ((m.reverse.map fun p => (p.1, p.2.object)).map (·.1)) = (keys m).reverse := by
    simp [keys, Function.comp_def]
  rw [List.map_reverse] at this
  rw [this]
  exact ((List.reverse_perm _).nodup_iff).mpr hn

/-! ### the ticker -/

theorem next_multiple {cl : Int} (hcl : 0 < cl) (t : Int) :
    ((t / cl + 1) * cl) / cl = t / cl + 1 := Int.mul_ediv_cancel _ (Int.ne_of_gt hcl)

/-- the janitor's ticks during a sleep are the specification's -/
theorem runTicks_abs (cfg : Cfg) (hcl : 0 < cfg.cleanupInt) (to : Int) :
    ∀ (fuel : Nat) (t : Int) (m : Items), (keys m).Nodup →
      absItems (runTicks cfg.cleanupInt to fuel ((t / cfg.cleanupInt + 1) * cfg.cleanupInt) m).2
        = Spec.C08.ticks (absCfg cfg) true fuel t to (absItems m) ∧
      (keys (runTicks cfg.cleanupInt to fuel ((t / cfg.cleanupInt + 1) * cfg.cleanupInt) m).2).Nodup := by
  intro fuel
  induction fuel with
  | zero => intro t m hn; simp [runTicks, Spec.C08.ticks, hn]
  | succ f ih =>
    intro t m hn
    simp only [runTicks, Spec.C08.ticks, absCfg]
    by_cases h : (t / cfg.cleanupInt + 1) * cfg.cleanupInt ≤ to
    · simp only [h, if_true]
      have hnext : (t / cfg.cleanupInt + 1) * cfg.cleanupInt + cfg.cleanupInt
          = ((t / cfg.cleanupInt + 1) * cfg.cleanupInt / cfg.cleanupInt + 1) * cfg.cleanupInt := by
        rw [next_multiple hcl, Int.add_mul (t / cfg.cleanupInt + 1) 1, Int.one_mul]
      rw [hnext]
      have := ih ((t / cfg.cleanupInt + 1) * cfg.cleanupInt) _ (nodup_deleteExpired (t := (t / cfg.cleanupInt + 1) * cfg.cleanupInt) hn)
      rw [← purgeAt_abs hn] at this
      exact this
    · simp [h, hn]

/-- with enough fuel the ticker's next firing instant after the sleep is again the least multiple
of `cleanupInt` after the clock -/
theorem runTicks_next {cl : Int} (hcl : 0 < cl) (to : Int) :
    ∀ (fuel : Nat) (t : Int) (m : Items), t ≤ to → to < (t / cl + 1) * cl + fuel * cl →
      (runTicks cl to fuel ((t / cl + 1) * cl) m).1 = (to / cl + 1) * cl := by
  intro fuel
  induction fuel with
  | zero =>
    intro t m hle hlt
    simp only [runTicks]
    have h1 : to < (t / cl + 1) * cl := by simpa using hlt
    have : to / cl = t / cl := by
      apply Int.le_antisymm
      · have := (Int.ediv_lt_iff_lt_mul hcl (a := to) (b := t / cl + 1)).mpr h1
        omega
      · exact (Int.le_ediv_iff_mul_le hcl).mpr (Int.le_trans (Int.ediv_mul_le t (Int.ne_of_gt hcl)) hle)
    rw [this]
  | succ f ih =>
    intro t m hle hlt
    simp only [runTicks]
    by_cases h : (t / cl + 1) * cl ≤ to
    · simp only [h, if_true]
      have hnext : (t / cl + 1) * cl + cl = ((t / cl + 1) * cl / cl + 1) * cl := by
        rw [next_multiple hcl, Int.add_mul (t / cl + 1) 1, Int.one_mul]
      rw [hnext]
      apply ih _ _ h
      rw [← hnext]
      have : ((f + 1 : Nat) : Int) * cl = cl + f * cl := by
        rw [Int.natCast_add, Int.add_mul]; simp [Int.add_comm]
      omega
    · simp only [h, if_false]
      have h1 : to < (t / cl + 1) * cl := by omega
      have : to / cl = t / cl := by
        apply Int.le_antisymm
        · have := (Int.ediv_lt_iff_lt_mul hcl (a := to) (b := t / cl + 1)).mpr h1
          omega
        · exact (Int.le_ediv_iff_mul_le hcl).mpr (Int.le_trans (Int.ediv_mul_le t (Int.ne_of_gt hcl)) hle)
      rw [this]

/-! ## Histories of calls and janitor ticks: what happens to one key -/

/-- the instant of an event -/
def evTime : Ev → Int
  | .call now _ => now
  | .tick now => now

/-- the event is a call that may store, delete or flush key `k` -/
def touches (k : Int) : Ev → Bool
  | .call _ (.set k' _ _) => k' == k
  | .call _ (.update k' _ _) => k' == k
  | .call _ (.delete k') => k' == k
  | .call _ .flush => true
  | .call _ (.mapToCache kvs _) => kvs.any (·.1 == k)
  | _ => false

/-- the event runs `DeleteExpired`: a janitor tick or an explicit call -/
def isPurge : Ev → Bool
  | .tick _ => true
  | .call _ .deleteExpired => true
  | _ => false

theorem expired_mono {t t' : Int} {it : Item} (h : expired t it = true) (hle : t ≤ t') :
    expired t' it = true := by
  simp only [expired, decide_eq_true_eq] at *; omega

theorem lookup_store_other {cfg : Cfg} {now : Int} {m : Items} {k k' v d : Int} (h : k ≠ k') :
    lookup k (store cfg now m k' v d).1 = lookup k m := by
  unfold store
  by_cases hr : rejected cfg v = true
  · simp [hr]
  · simp [hr, lookup_assign, h]

theorem lookup_set_other {cfg : Cfg} {now : Int} {m : Items} {k k' v d : Int} (h : k ≠ k') :
    lookup k (Model.Cache.set cfg now m k' v d).1 = lookup k m := by
  unfold Model.Cache.set
  split
  · split
    · rfl
    · exact lookup_store_other h
  · exact lookup_store_other h

theorem lookup_mapToCacheLoop_other {cfg : Cfg} {now d k : Int} (kvs : List (Int × Int)) :
    ∀ (m : Items) (err : Bool), (kvs.any (·.1 == k)) = false →
      lookup k (mapToCacheLoop cfg now d kvs m err).1 = lookup k m := by
  induction kvs with
  | nil => intro m err _; rfl
  | cons kv r ih =>
    intro m err h
    obtain ⟨k', v⟩ := kv
    simp only [List.any_cons, Bool.or_eq_false_iff, beq_eq_false_iff_ne] at h
    simp only [mapToCacheLoop]
    rw [ih _ _ h.2]
    exact lookup_set_other (fun e => h.1 e.symm)

theorem update_eq_store (cfg : Cfg) (now : Int) (m : Items) (k v d : Int) :
    update cfg now m k v d = store cfg now m k v d := by
  unfold update add; split <;> rfl

theorem nodup_call {cfg : Cfg} {now : Int} {m : Items} (op : Spec.C08.Op) (hn : (keys m).Nodup) :
    (keys (call cfg now m op).1).Nodup := by
  cases op with
  | set k v d => exact nodup_set hn
  | update k v d => simp only [call, update_eq_store]; exact nodup_store hn
  | get k => simp only [call]; split <;> exact hn
  | delete k => simp only [call, delete]; split <;> first | exact nodup_erase hn | exact hn
  | flush => simp [call, flush]
  | deleteExpired => exact nodup_deleteExpired hn
  | count => exact hn
  | list => exact hn
  | mapToCache kvs d => exact nodup_mapToCacheLoop kvs _ _ hn
  | isExpired k => exact hn
  | sleep ms => exact hn

theorem nodup_ev {cfg : Cfg} {m : Items} (e : Ev) (hn : (keys m).Nodup) :
    (keys (ev cfg m e).1).Nodup := by
  cases e with
  | call now op => exact nodup_call op hn
  | tick now => exact nodup_deleteExpired hn

theorem nodup_runEv {cfg : Cfg} (es : List Ev) : ∀ m : Items, (keys m).Nodup →
    (keys (runEv cfg m es).1).Nodup := by
  induction es with
  | nil => intro m hn; exact hn
  | cons e r ih => intro m hn; simp only [runEv]; exact ih _ (nodup_ev e hn)

theorem lookup_deleteExpired {t k : Int} {m : Items} (hn : (keys m).Nodup) :
    lookup k (deleteExpired t m).1 = (lookup k m).filter (fun it => !expired t it) := by
  rw [deleteExpired_eq_filter hn]
  exact lookup_filter (fun it => !expired t it) hn

/-- One event that does not touch key `k` leaves its entry alone, except that a purge (janitor tick
or `DeleteExpired`) at instant `t` removes it iff `0 < exp < t`. -/
theorem lookup_ev {cfg : Cfg} {m : Items} {k : Int} (e : Ev) (hn : (keys m).Nodup)
    (ht : touches k e = false) :
    lookup k (ev cfg m e).1 = (lookup k m).filter (fun it => !(isPurge e && expired (evTime e) it)) := by
  have hid : ∀ o : Option Item, o = o.filter (fun _ => true) := by
    intro o; cases o <;> simp [Option.filter_some]
  cases e with
  | tick now => simp only [ev, isPurge, evTime, Bool.true_and]; exact lookup_deleteExpired hn
  | call now op =>
    cases op with
    | set k' v d =>
      simp only [touches, beq_eq_false_iff_ne] at ht
      simp only [ev, call, isPurge, Bool.false_and, Bool.not_false]
      rw [lookup_set_other (fun e => ht e.symm)]; exact hid _
    | update k' v d =>
      simp only [touches, beq_eq_false_iff_ne] at ht
      simp only [ev, call, isPurge, Bool.false_and, Bool.not_false, update_eq_store]
      rw [lookup_store_other (fun e => ht e.symm)]; exact hid _
    | get k' =>
      simp only [ev, call, isPurge, Bool.false_and, Bool.not_false]
      split <;> exact hid _
    | delete k' =>
      simp only [touches, beq_eq_false_iff_ne] at ht
      have hne : ¬ k = k' := fun e => ht e.symm
      simp only [ev, call, delete, isPurge, Bool.false_and, Bool.not_false]
      split
      · simp only [lookup_erase, hne, if_false]; exact hid _
      · exact hid _
    | flush => simp [touches] at ht
    | deleteExpired =>
      simp only [ev, call, isPurge, evTime, Bool.true_and]; exact lookup_deleteExpired hn
    | count => exact hid _
    | list => exact hid _
    | mapToCache kvs d =>
      simp only [touches] at ht
      simp only [ev, call, mapToCache, isPurge, Bool.false_and, Bool.not_false]
      rw [lookup_mapToCacheLoop_other kvs _ _ ht]; exact hid _
    | isExpired k' => exact hid _
    | sleep ms => exact hid _

/-- an absent key stays absent as long as no call touches it -/
theorem lookup_runEv_none {cfg : Cfg} {k : Int} (es : List Ev) : ∀ m : Items, (keys m).Nodup →
    lookup k m = none → (∀ e ∈ es, touches k e = false) → lookup k (runEv cfg m es).1 = none := by
  induction es with
  | nil => intro m _ h _; exact h
  | cons e r ih =>
    intro m hn h ht
    simp only [runEv]
    apply ih _ (nodup_ev e hn) _ (fun x hx => ht x (List.mem_cons_of_mem _ hx))
    rw [lookup_ev e hn (ht e List.mem_cons_self), h]; rfl

/-- an untouched entry survives every history whose purges all happen while it is not expired -/
theorem lookup_runEv_stable {cfg : Cfg} {k : Int} {it : Item} (es : List Ev) :
    ∀ m : Items, (keys m).Nodup → lookup k m = some it → (∀ e ∈ es, touches k e = false) →
      (∀ e ∈ es, isPurge e = true → expired (evTime e) it = false) →
      lookup k (runEv cfg m es).1 = some it := by
  induction es with
  | nil => intro m _ h _ _; exact h
  | cons e r ih =>
    intro m hn h ht hp
    simp only [runEv]
    apply ih _ (nodup_ev e hn) _ (fun x hx => ht x (List.mem_cons_of_mem _ hx))
      (fun x hx => hp x (List.mem_cons_of_mem _ hx))
    rw [lookup_ev e hn (ht e List.mem_cons_self), h]
    cases hpe : isPurge e with
    | false => simp [Option.filter_some]
    | true => simp [Option.filter_some, hp e List.mem_cons_self hpe]

/-- an untouched entry is either still there, unchanged, or gone -/
theorem lookup_runEv_some_or_none {cfg : Cfg} {k : Int} {it : Item} (es : List Ev) :
    ∀ m : Items, (keys m).Nodup → lookup k m = some it → (∀ e ∈ es, touches k e = false) →
      lookup k (runEv cfg m es).1 = some it ∨ lookup k (runEv cfg m es).1 = none := by
  induction es with
  | nil => intro m _ h _; exact Or.inl h
  | cons e r ih =>
    intro m hn h ht
    simp only [runEv]
    have hl := lookup_ev (cfg := cfg) e hn (ht e List.mem_cons_self)
    rw [h] at hl
    have hr := fun x hx => ht x (List.mem_cons_of_mem e hx)
    by_cases hq : (!(isPurge e && expired (evTime e) it)) = true
    · simp only [Option.filter_some, hq, if_true] at hl
      exact ih _ (nodup_ev e hn) hl hr
    · simp only [Option.filter_some, hq] at hl
      exact Or.inr (lookup_runEv_none r _ (nodup_ev e hn) hl hr)

/-- an untouched entry is gone after a history that contains a purge at an instant past its deadline -/
theorem lookup_runEv_purged {cfg : Cfg} {k : Int} {it : Item} (es : List Ev) :
    ∀ m : Items, (keys m).Nodup → lookup k m = some it → (∀ e ∈ es, touches k e = false) →
      (∃ e ∈ es, isPurge e = true ∧ expired (evTime e) it = true) →
      lookup k (runEv cfg m es).1 = none := by
  induction es with
  | nil => intro m _ _ _ ⟨e, he, _⟩; simp at he
  | cons e r ih =>
    intro m hn h ht ⟨x, hx, hxp, hxe⟩
    simp only [runEv]
    have hl := lookup_ev (cfg := cfg) e hn (ht e List.mem_cons_self)
    rw [h] at hl
    have hr := fun x hx => ht x (List.mem_cons_of_mem e hx)
    by_cases hq : (!(isPurge e && expired (evTime e) it)) = true
    · simp only [Option.filter_some, hq, if_true] at hl
      rcases List.mem_cons.mp hx with hx | hx
      · subst hx; simp [hxp, hxe] at hq
      · exact ih _ (nodup_ev e hn) hl hr ⟨x, hx, hxp, hxe⟩
    · simp only [Option.filter_some, hq] at hl
      exact lookup_runEv_none r _ (nodup_ev e hn) hl hr

/-! ## `MapToCache`: each entry's `Set` sees only its own key, so the iteration order is irrelevant -/

/-- the error flag of `Set(k, v, _)` as a function of the entry stored under `k` -/
def setErr (cfg : Cfg) (now : Int) (o : Option Item) (v : Int) : Bool :=
  match o with
  | some it => if it.expiration ≤ 0 ∨ now ≤ it.expiration then true else rejected cfg v
  | none => rejected cfg v

theorem set_err_eq (cfg : Cfg) (now : Int) (m : Items) (k v d : Int) :
    (Model.Cache.set cfg now m k v d).2 = setErr cfg now (lookup k m) v := by
  unfold Model.Cache.set setErr store
  cases lookup k m with
  | none => by_cases hr : rejected cfg v = true <;> simp [hr]
  | some it =>
    by_cases hl : it.expiration ≤ 0 ∨ now ≤ it.expiration
    · simp [hl]
    · by_cases hr : rejected cfg v = true <;> simp [hl, hr]

theorem set_lookup_eq (cfg : Cfg) (now : Int) (m : Items) (k v d : Int) :
    lookup k (Model.Cache.set cfg now m k v d).1 =
      if setErr cfg now (lookup k m) v = true then lookup k m else some ⟨v, expiry cfg now d⟩ := by
  unfold Model.Cache.set setErr store
  cases hlk : lookup k m with
  | none => by_cases hr : rejected cfg v = true <;> simp [hr, hlk, lookup_assign]
  | some it =>
    by_cases hl : it.expiration ≤ 0 ∨ now ≤ it.expiration
    · simp [hl, hlk]
    · by_cases hr : rejected cfg v = true <;> simp [hl, hr, hlk, lookup_assign]

theorem mapToCacheLoop_spec {cfg : Cfg} {now d : Int} (kvs : List (Int × Int)) :
    ∀ (m : Items) (err : Bool), (kvs.map (·.1)).Nodup →
      (mapToCacheLoop cfg now d kvs m err).2
          = (err || kvs.any (fun kv => setErr cfg now (lookup kv.1 m) kv.2)) ∧
      ∀ kv ∈ kvs, lookup kv.1 (mapToCacheLoop cfg now d kvs m err).1 =
        if setErr cfg now (lookup kv.1 m) kv.2 = true then lookup kv.1 m
        else some ⟨kv.2, expiry cfg now d⟩ := by
  induction kvs with
  | nil => intro m err _; simp [mapToCacheLoop]
  | cons kv0 r ih =>
    intro m err hn
    obtain ⟨k0, v0⟩ := kv0
    simp only [List.map_cons, List.nodup_cons] at hn
    have hother : ∀ kv ∈ r, lookup kv.1 (Model.Cache.set cfg now m k0 v0 d).1 = lookup kv.1 m := by
      intro kv hkv
      apply lookup_set_other
      intro e
      exact hn.1 (List.mem_map.mpr ⟨kv, hkv, e⟩)
    obtain ⟨ih1, ih2⟩ := ih (Model.Cache.set cfg now m k0 v0 d).1
      (err || (Model.Cache.set cfg now m k0 v0 d).2) hn.2
    simp only [mapToCacheLoop]
    constructor
    · rw [ih1, set_err_eq, List.any_cons, Bool.or_assoc]
      congr 2
      rw [Bool.eq_iff_iff, List.any_eq_true, List.any_eq_true]
      constructor
      · rintro ⟨x, hx, h⟩; exact ⟨x, hx, by rwa [hother x hx] at h⟩
      · rintro ⟨x, hx, h⟩; exact ⟨x, hx, by rwa [hother x hx]⟩
    · intro kv hkv
      rcases List.mem_cons.mp hkv with hkv | hkv
      · subst hkv
        have hnot : (r.any (·.1 == k0)) = false := by
          rw [Bool.eq_false_iff]
          intro h
          obtain ⟨x, hx, hxe⟩ := List.any_eq_true.mp h
          exact hn.1 (List.mem_map.mpr ⟨x, hx, by simpa using hxe⟩)
        rw [lookup_mapToCacheLoop_other r _ _ hnot]
        exact set_lookup_eq cfg now m k0 v0 d
      · rw [ih2 kv hkv, hother kv hkv]

/-! ## The clocked machine as a history of events; its ticker is punctual by construction -/

/-- the tick events `runTicks` performs -/
def tickEvs (cl to : Int) : Nat → Int → List Ev
  | 0, _ => []
  | fuel + 1, nt => if nt ≤ to then Ev.tick nt :: tickEvs cl to fuel (nt + cl) else []

/-- the events one protocol operation amounts to in clock state `s` -/
def evsOfOp (cfg : Cfg) (s : St) : Spec.C08.Op → List Ev
  | .sleep ms =>
    if cfg.cleanupInt > 0 then tickEvs cfg.cleanupInt (s.now + ms) (ms.toNat + 1) s.nextTick else []
  | op => [Ev.call s.now op]

/-- the events a protocol history amounts to -/
def evsOf (cfg : Cfg) : St → List Spec.C08.Op → List Ev
  | _, [] => []
  | s, op :: ops => evsOfOp cfg s op ++ evsOf cfg (step cfg s op).1 ops

/-- a protocol operation that may store, delete or flush key `k` -/
def touchesOp (k : Int) (op : Spec.C08.Op) : Bool := touches k (.call 0 op)

theorem runEv_append (cfg : Cfg) (a b : List Ev) : ∀ m : Items,
    (runEv cfg m (a ++ b)).1 = (runEv cfg (runEv cfg m a).1 b).1 := by
  induction a with
  | nil => intro m; rfl
  | cons e r ih => intro m; simp only [List.cons_append, runEv, ih]

theorem runTicks_items (cfg : Cfg) (cl to : Int) : ∀ (fuel : Nat) (nt : Int) (m : Items),
    (runTicks cl to fuel nt m).2 = (runEv cfg m (tickEvs cl to fuel nt)).1 := by
  intro fuel
  induction fuel with
  | zero => intro nt m; rfl
  | succ f ih =>
    intro nt m
    simp only [runTicks, tickEvs]
    by_cases h : nt ≤ to
    · simp only [h, if_true, runEv, ev, ih]
    · simp only [h, if_false, runEv]

theorem step_items (cfg : Cfg) (s : St) (op : Spec.C08.Op) :
    (step cfg s op).1.items = (runEv cfg s.items (evsOfOp cfg s op)).1 := by
  cases op with
  | sleep ms =>
    simp only [step, evsOfOp]
    by_cases h : cfg.cleanupInt > 0
    · simp only [h, if_true]; exact runTicks_items cfg _ _ _ _ _
    · simp only [h, if_false, runEv]
  | _ => simp only [step, evsOfOp, runEv, ev]

theorem run_items (cfg : Cfg) (ops : List Spec.C08.Op) : ∀ s : St,
    (run cfg s ops).1.items = (runEv cfg s.items (evsOf cfg s ops)).1 := by
  induction ops with
  | nil => intro s; rfl
  | cons op r ih =>
    intro s
    simp only [run, evsOf, runEv_append, ih, step_items]

theorem step_now (cfg : Cfg) (s : St) (op : Spec.C08.Op) :
    (step cfg s op).1.now = match op with
      | .sleep ms => s.now + ms
      | _ => s.now := by
  cases op with
  | sleep ms => simp only [step]; split <;> rfl
  | _ => rfl

theorem mem_tickEvs {cl to : Int} : ∀ (fuel : Nat) (nt : Int) (e : Ev), e ∈ tickEvs cl to fuel nt →
    ∃ t, e = Ev.tick t ∧ t ≤ to := by
  intro fuel
  induction fuel with
  | zero => intro nt e h; simp [tickEvs] at h
  | succ f ih =>
    intro nt e h
    simp only [tickEvs] at h
    by_cases hle : nt ≤ to
    · simp only [hle, if_true, List.mem_cons] at h
      rcases h with h | h
      · exact ⟨nt, h, hle⟩
      · exact ih _ _ h
    · simp [hle] at h

/-- every multiple of `cl` from the ticker's next firing instant up to `to` is a tick of the sleep -/
theorem tickEvs_complete {cl to : Int} (hcl : 0 < cl) : ∀ (fuel : Nat) (q : Int),
    to < q * cl + fuel * cl → ∀ n : Int, q * cl ≤ n * cl → n * cl ≤ to →
      Ev.tick (n * cl) ∈ tickEvs cl to fuel (q * cl) := by
  intro fuel
  induction fuel with
  | zero => intro q h n h1 h2; simp at h; omega
  | succ f ih =>
    intro q h n h1 h2
    simp only [tickEvs]
    have hq : q * cl ≤ to := by omega
    simp only [hq, if_true, List.mem_cons]
    by_cases he : n * cl = q * cl
    · left; rw [he]
    · right
      have hlt : q * cl < n * cl := by omega
      have hqn : q < n := Int.lt_of_mul_lt_mul_right hlt (by omega)
      have hstep : q * cl + cl = (q + 1) * cl := by rw [Int.add_mul, Int.one_mul]
      have hge : (q + 1) * cl ≤ n * cl := Int.mul_le_mul_of_nonneg_right (by omega) (by omega)
      rw [hstep]
      apply ih (q + 1) _ n hge h2
      have : ((f + 1 : Nat) : Int) * cl = cl + f * cl := by
        rw [Int.natCast_add, Int.add_mul]; simp [Int.add_comm]
      omega

/-- time does not run backwards -/
def WellTimed : Spec.C08.Op → Prop
  | .sleep ms => 0 ≤ ms
  | _ => True

theorem fuel_enough {cl ms t : Int} (hcl : 0 < cl) :
    t + ms < (t / cl + 1) * cl + ((ms.toNat + 1 : Nat) : Int) * cl := by
  have h1 := Int.lt_ediv_add_one_mul_self t hcl
  have h2 : (0 : Int) ≤ ((ms.toNat + 1 : Nat) : Int) * (cl - 1) :=
    Int.mul_nonneg (Int.natCast_nonneg _) (by omega)
  have h3 : ((ms.toNat + 1 : Nat) : Int) * cl
      = ((ms.toNat + 1 : Nat) : Int) * (cl - 1) + ((ms.toNat + 1 : Nat) : Int) := by
    rw [Int.mul_sub, Int.mul_one]; omega
  have h4 := Int.self_le_toNat ms
  omega

/-- the invariant is preserved by every operation of the clocked machine -/
theorem inv_step {cfg : Cfg} {s : St} (op : Spec.C08.Op) (hI : Inv cfg s) (hop : WellTimed op) :
    Inv cfg (step cfg s op).1 := by
  obtain ⟨hn, ht⟩ := hI
  cases op with
  | sleep ms =>
    simp only [WellTimed] at hop
    by_cases hcl : cfg.cleanupInt > 0
    · have hnt := ht hcl
      have ha := runTicks_abs cfg hcl (s.now + ms) (ms.toNat + 1) s.now s.items hn
      have hb := runTicks_next hcl (s.now + ms) (ms.toNat + 1) s.now s.items (by omega)
        (fuel_enough hcl)
      rw [← hnt] at ha hb
      simp only [step, hcl, if_true]
      exact ⟨ha.2, fun _ => hb⟩
    · simp only [step, hcl, if_false]
      exact ⟨hn, fun h => absurd h hcl⟩
  | set k v d => exact ⟨nodup_call (.set k v d) hn, ht⟩
  | update k v d => exact ⟨nodup_call (.update k v d) hn, ht⟩
  | get k => exact ⟨nodup_call (cfg := cfg) (now := s.now) (.get k) hn, ht⟩
  | delete k => exact ⟨nodup_call (cfg := cfg) (now := s.now) (.delete k) hn, ht⟩
  | flush => exact ⟨nodup_call (cfg := cfg) (now := s.now) .flush hn, ht⟩
  | deleteExpired => exact ⟨nodup_call (cfg := cfg) (now := s.now) .deleteExpired hn, ht⟩
  | count => exact ⟨hn, ht⟩
  | list => exact ⟨hn, ht⟩
  | mapToCache kvs d => exact ⟨nodup_call (.mapToCache kvs d) hn, ht⟩
  | isExpired k => exact ⟨hn, ht⟩

theorem step_now_ge {cfg : Cfg} {s : St} (op : Spec.C08.Op) (hop : WellTimed op) :
    s.now ≤ (step cfg s op).1.now := by
  rw [step_now]
  cases op <;> simp_all [WellTimed] <;> omega

theorem run_now_ge {cfg : Cfg} (ops : List Spec.C08.Op) : ∀ s : St, (∀ op ∈ ops, WellTimed op) →
    s.now ≤ (run cfg s ops).1.now := by
  induction ops with
  | nil => intro s _; exact Int.le_refl _
  | cons op r ih =>
    intro s hw
    simp only [run]
    exact Int.le_trans (step_now_ge op (hw op List.mem_cons_self))
      (ih _ (fun o ho => hw o (List.mem_cons_of_mem _ ho)))

theorem evsOfOp_times {cfg : Cfg} {s : St} (op : Spec.C08.Op) (hop : WellTimed op) :
    ∀ e ∈ evsOfOp cfg s op, evTime e ≤ (step cfg s op).1.now := by
  intro e he
  rw [step_now]
  cases op with
  | sleep ms =>
    simp only [evsOfOp] at he
    by_cases hcl : cfg.cleanupInt > 0
    · simp only [hcl, if_true] at he
      obtain ⟨t, rfl, ht⟩ := mem_tickEvs _ _ _ he
      exact ht
    · simp [hcl] at he
  | _ =>
    simp only [evsOfOp, List.mem_singleton] at he
    subst he; exact Int.le_refl _

/-- no event of the history lies after the final clock reading -/
theorem evsOf_times {cfg : Cfg} (ops : List Spec.C08.Op) : ∀ s : St, (∀ op ∈ ops, WellTimed op) →
    ∀ e ∈ evsOf cfg s ops, evTime e ≤ (run cfg s ops).1.now := by
  induction ops with
  | nil => intro s _ e he; simp [evsOf] at he
  | cons op r ih =>
    intro s hw e he
    have hr := fun o ho => hw o (List.mem_cons_of_mem op ho)
    simp only [evsOf, List.mem_append] at he
    simp only [run]
    rcases he with he | he
    · exact Int.le_trans (evsOfOp_times op (hw op List.mem_cons_self) e he) (run_now_ge r _ hr)
    · exact ih _ hr e he

theorem touches_call_now (k t : Int) (op : Spec.C08.Op) :
    touches k (.call t op) = touchesOp k op := by
  cases op <;> rfl

theorem evsOf_untouched {cfg : Cfg} {k : Int} (ops : List Spec.C08.Op) : ∀ s : St,
    (∀ op ∈ ops, touchesOp k op = false) → ∀ e ∈ evsOf cfg s ops, touches k e = false := by
  induction ops with
  | nil => intro s _ e he; simp [evsOf] at he
  | cons op r ih =>
    intro s hu e he
    simp only [evsOf, List.mem_append] at he
    rcases he with he | he
    · have hop := hu op List.mem_cons_self
      cases op with
      | sleep ms =>
        simp only [evsOfOp] at he
        by_cases hcl : cfg.cleanupInt > 0
        · simp only [hcl, if_true] at he
          obtain ⟨t, rfl, _⟩ := mem_tickEvs _ _ _ he
          rfl
        · simp [hcl] at he
      | _ =>
        simp only [evsOfOp, List.mem_singleton] at he
        subst he; rw [touches_call_now]; exact hop
    · exact ih _ (fun o ho => hu o (List.mem_cons_of_mem _ ho)) e he

/-- **The model's ticker is punctual**: every multiple of `cleanupInt` in `(s.now, final now]` is a
tick event of the history. -/
theorem evsOf_punctual {cfg : Cfg} (hcl : 0 < cfg.cleanupInt) (ops : List Spec.C08.Op) :
    ∀ s : St, Inv cfg s → (∀ op ∈ ops, WellTimed op) →
      ∀ n : Int, s.now < n * cfg.cleanupInt → n * cfg.cleanupInt ≤ (run cfg s ops).1.now →
        Ev.tick (n * cfg.cleanupInt) ∈ evsOf cfg s ops := by
  induction ops with
  | nil => intro s _ _ n h1 h2; simp only [run] at h2; omega
  | cons op r ih =>
    intro s hI hw n h1 h2
    have hop := hw op List.mem_cons_self
    have hr := fun o ho => hw o (List.mem_cons_of_mem op ho)
    have hI' := inv_step op hI hop
    simp only [run] at h2
    simp only [evsOf, List.mem_append]
    by_cases hmid : n * cfg.cleanupInt ≤ (step cfg s op).1.now
    · left
      rw [step_now] at hmid
      cases op with
      | sleep ms =>
        simp only at hmid
        simp only [evsOfOp, hcl, if_true, hI.2 hcl]
        have hq : s.now / cfg.cleanupInt < n := (Int.ediv_lt_iff_lt_mul hcl).mpr h1
        exact tickEvs_complete hcl _ _ (fuel_enough hcl) n
          (Int.mul_le_mul_of_nonneg_right (by omega) (by omega)) hmid
      | _ => simp only at hmid; omega
    · right
      exact ih _ hI' hr n (by omega) h2

end GoguVerif.Lemmas.C08
