import GoguVerif.Lemmas.C20
/-!
# C20 — helper lemmas: the Delay invariant (history positions, timer ids, at most once, served)
-/
namespace GoguVerif.Lemmas.C20L
open GoguVerif.Spec.C20 GoguVerif.Model.C20 GoguVerif.Lemmas.C20

/-- number of `delay` events of a history = the next timer id -/
def cnt : List LEv → Nat
  | [] => 0
  | .delay _ :: r => cnt r + 1
  | .stop _ :: r => cnt r
  | .advance _ :: r => cnt r

theorem cnt_append (a b : List LEv) : cnt (a ++ b) = cnt a + cnt b := by
  induction a with
  | nil => simp [cnt]
  | cons e r ih => cases e <;> simp only [List.cons_append, cnt, ih] <;> omega

theorem lclock_append (a b : List LEv) : lclock (a ++ b) = lclock a + lclock b := by
  induction a with
  | nil => simp [lclock]
  | cons e r ih => simp only [List.cons_append, lclock, ih]; omega

theorem lclock_nonneg (a : List LEv) : 0 ≤ lclock a := by
  induction a with
  | nil => simp [lclock]
  | cons e r ih => simp only [lclock]; omega

theorem lclock_take_le (a : List LEv) (k : Nat) : lclock (a.take k) ≤ lclock a := by
  have h := lclock_append (a.take k) (a.drop k)
  rw [List.take_append_drop] at h
  have := lclock_nonneg (a.drop k)
  omega

theorem lclock_snoc (pre : List LEv) (e : LEv) : lclock (pre ++ [e]) = lclock pre + e.dt := by
  rw [lclock_append]; simp [lclock]

theorem take_snoc {α} (pre : List α) (e : α) {k : Nat} (h : k ≤ pre.length) :
    (pre ++ [e]).take k = pre.take k := List.take_append_of_le_length h

theorem take_snoc_full {α} (pre : List α) (e : α) : (pre ++ [e]).take pre.length = pre := by
  rw [take_snoc _ _ (Nat.le_refl _), List.take_of_length_le (Nat.le_refl _)]

theorem get_snoc_last {α} (pre : List α) (e : α) : (pre ++ [e])[pre.length]? = some e := by
  rw [List.getElem?_append_right (Nat.le_refl _)]; simp

theorem get_snoc_beyond {α} (pre : List α) (e : α) {k : Nat} (h : pre.length < k) :
    (pre ++ [e])[k]? = none := List.getElem?_eq_none (by simp; omega)

/-- the model's executions with position `i` -/
def firedAt (i : Nat) (l : List LFire) : Nat := l.countP (fun fr => fr.idx == i)
def pendingAt (i : Nat) (l : List LPending) : Nat := l.countP (fun t => t.idx == i)

structure LTimerInv (hist : List LEv) (t : LPending) : Prop where
  idx_lt : t.idx < hist.length
  isDelay : hist[t.idx]? = some (LEv.delay t.d)
  callTime : lclock (hist.take t.idx) = t.tc
  exact : t.deadline = t.tc + max t.d 0
  id_eq : t.id = cnt (hist.take t.idx)
  nostop : ∀ k, t.idx < k → hist[k]? ≠ some (LEv.stop t.id)

structure LFireInv (hist : List LEv) (now : Int) (fr : LFire) : Prop where
  idx_lt : fr.idx < hist.length
  isDelay : hist[fr.idx]? = some (LEv.delay fr.d)
  callTime : lclock (hist.take fr.idx) = fr.tc
  exact : fr.f = fr.tc + max fr.d 0
  id_eq : fr.id = cnt (hist.take fr.idx)
  le_now : fr.f ≤ now
  nostop : ∀ k, fr.idx < k → hist[k]? = some (LEv.stop fr.id) → fr.f ≤ lclock (hist.take k)

/-- the `delay` event at position `i` has been dealt with: its timer is pending, it has run, or it
was stopped before its deadline -/
def Served (hist : List LEv) (s : LState) (i : Nat) (d : Int) : Prop :=
  (∃ t ∈ s.timers, t.idx = i) ∨ (∃ fr ∈ s.fired, fr.idx = i) ∨
  (∃ k, i < k ∧ hist[k]? = some (LEv.stop (cnt (hist.take i))) ∧
    lclock (hist.take k) < lclock (hist.take i) + max d 0)

/-- invariant in the middle of a step (current event already in `hist`, due timers not yet run) -/
structure LPre (hist : List LEv) (s : LState) : Prop where
  n_eq : s.n + 1 = hist.length
  now_eq : s.now = lclock hist
  next_eq : s.nextId = cnt hist
  timers : ∀ t ∈ s.timers, LTimerInv hist t ∧ t.id < s.nextId
  fired : ∀ fr ∈ s.fired, LFireInv hist s.now fr
  once : ∀ i, pendingAt i s.timers + firedAt i s.fired ≤ 1
  served : ∀ i d, hist[i]? = some (LEv.delay d) → Served hist s i d

/-- invariant between steps -/
structure LInvH (hist : List LEv) (s : LState) : Prop where
  n_eq : s.n = hist.length
  now_eq : s.now = lclock hist
  next_eq : s.nextId = cnt hist
  timers : ∀ t ∈ s.timers, (LTimerInv hist t ∧ t.id < s.nextId) ∧ s.now < t.deadline
  fired : ∀ fr ∈ s.fired, LFireInv hist s.now fr
  once : ∀ i, pendingAt i s.timers + firedAt i s.fired ≤ 1
  served : ∀ i d, hist[i]? = some (LEv.delay d) → Served hist s i d

theorem LTimerInv.snoc {hist t} (e : LEv) (h : LTimerInv hist t) (he : e ≠ LEv.stop t.id) :
    LTimerInv (hist ++ [e]) t where
  idx_lt := by have := h.idx_lt; simp; omega
  isDelay := get_snoc_old _ _ _ h.isDelay
  callTime := by rw [take_snoc _ _ (by have := h.idx_lt; omega)]; exact h.callTime
  exact := h.exact
  id_eq := by rw [take_snoc _ _ (by have := h.idx_lt; omega)]; exact h.id_eq
  nostop := by
    intro k hk hx
    rcases get_snoc_cases _ _ _ hx with ⟨_, hx'⟩ | ⟨_, hxe⟩
    · exact h.nostop k hk hx'
    · exact he hxe.symm

theorem LFireInv.snoc {hist now fr} (e : LEv) (now' : Int) (h : LFireInv hist now fr)
    (hnow : now ≤ now') (hn : now = lclock hist) : LFireInv (hist ++ [e]) now' fr where
  idx_lt := by have := h.idx_lt; simp; omega
  isDelay := get_snoc_old _ _ _ h.isDelay
  callTime := by rw [take_snoc _ _ (by have := h.idx_lt; omega)]; exact h.callTime
  exact := h.exact
  id_eq := by rw [take_snoc _ _ (by have := h.idx_lt; omega)]; exact h.id_eq
  le_now := by have := h.le_now; omega
  nostop := by
    intro k hk hx
    rcases get_snoc_cases _ _ _ hx with ⟨hkl, hx'⟩ | ⟨hkl, _⟩
    · rw [take_snoc _ _ (by omega)]; exact h.nostop k hk hx'
    · rw [hkl, take_snoc_full, ← hn]; exact h.le_now

theorem Served.snoc {hist s i d} (e : LEv) (s' : LState) (h : Served hist s i d) (hi : i < hist.length)
    (ht : (∃ t ∈ s.timers, t.idx = i) → (∃ t ∈ s'.timers, t.idx = i) ∨
      (e = LEv.stop (cnt (hist.take i)) ∧ lclock hist < lclock (hist.take i) + max d 0))
    (hf : ∀ fr ∈ s.fired, fr ∈ s'.fired) : Served (hist ++ [e]) s' i d := by
  rcases h with h | ⟨fr, hfr, hi'⟩ | ⟨k, hk, hx, hlt⟩
  · rcases ht h with h' | ⟨he, hlt⟩
    · exact Or.inl h'
    · right; right
      refine ⟨hist.length, hi, ?_, ?_⟩
      · rw [get_snoc_last, take_snoc _ _ (by omega), he]
      · rw [take_snoc_full, take_snoc _ _ (by omega)]; exact hlt
  · exact Or.inr (Or.inl ⟨fr, hf fr hfr, hi'⟩)
  · right; right
    have hkl : k < hist.length := by
      rcases List.getElem?_eq_some_iff.mp hx with ⟨h', _⟩; exact h'
    refine ⟨k, hk, ?_, ?_⟩
    · rw [take_snoc _ _ (by omega)]; exact get_snoc_old _ _ _ hx
    · rw [take_snoc _ _ (by omega), take_snoc _ _ (by omega)]; exact hlt

theorem linvh_init : LInvH [] {} where
  n_eq := rfl
  now_eq := rfl
  next_eq := rfl
  timers := by intro t h; cases h
  fired := by intro t h; cases h
  once := by intro i; simp [pendingAt, firedAt]
  served := by intro i d h; simp at h

/-- pre-action of an event -/
def lpre (s : LState) (e : LEv) : LState :=
  match e with
  | .delay d =>
    { s with timers := s.timers ++ [{ id := s.nextId, deadline := s.now + max d 0, idx := s.n, tc := s.now, d := d }],
             nextId := s.nextId + 1 }
  | .stop id =>
    if id < s.nextId then
      { s with lastStop := some (s.timers.any (·.id == id)), timers := s.timers.filter (·.id != id) }
    else { s with lastStop := none }
  | .advance dt => { s with now := s.now + dt }

theorem lstep_eq (s : LState) (e : LEv) :
    lstep s e = { (lpre s e).settle with n := (lpre s e).settle.n + 1 } := by
  cases e <;> rfl

theorem countP_filter_le {α} (p q : α → Bool) (l : List α) :
    (l.filter q).countP p ≤ l.countP p := by
  rw [List.countP_filter]
  induction l with
  | nil => simp
  | cons a r ih =>
    simp only [List.countP_cons]
    cases p a <;> cases q a <;> simp <;> omega

theorem countP_split {α} (p q : α → Bool) (l : List α) :
    (l.filter (fun a => !q a)).countP p + (l.filter q).countP p = l.countP p := by
  rw [List.countP_filter, List.countP_filter]
  induction l with
  | nil => simp
  | cons a r ih =>
    simp only [List.countP_cons]
    cases p a <;> cases q a <;> simp <;> omega

theorem lpre_inv {hist s} (e : LEv) (h : LInvH hist s) : LPre (hist ++ [e]) (lpre s e) := by
  have hidxT : ∀ t ∈ s.timers, t.idx < hist.length := fun t ht => (h.timers t ht).1.1.idx_lt
  have hidxF : ∀ fr ∈ s.fired, fr.idx < hist.length := fun fr hfr => (h.fired fr hfr).idx_lt
  cases e with
  | delay d =>
    have hf : ∀ fr ∈ s.fired, LFireInv (hist ++ [LEv.delay d]) s.now fr :=
      fun fr hfr => (h.fired fr hfr).snoc _ _ (Int.le_refl _) h.now_eq
    refine
      { n_eq := by simp [lpre, h.n_eq]
        now_eq := by simp [lpre, lclock_snoc, h.now_eq, LEv.dt]
        next_eq := by simp [lpre, cnt_append, cnt, h.next_eq]
        timers := ?_
        fired := hf
        once := ?_
        served := ?_ }
    · intro t ht
      simp only [lpre, List.mem_append, List.mem_singleton] at ht
      rcases ht with ht | rfl
      · exact ⟨(h.timers t ht).1.1.snoc _ (by intro h'; cases h'), by
          have := (h.timers t ht).1.2; show t.id < s.nextId + 1; omega⟩
      · refine ⟨⟨by simp [h.n_eq], ?_, ?_, rfl, ?_, ?_⟩, by show s.nextId < s.nextId + 1; omega⟩
        · show (hist ++ [LEv.delay d])[s.n]? = _; rw [h.n_eq, get_snoc_last]
        · show lclock ((hist ++ [LEv.delay d]).take s.n) = s.now
          rw [h.n_eq, take_snoc_full, h.now_eq]
        · show s.nextId = cnt ((hist ++ [LEv.delay d]).take s.n)
          rw [h.n_eq, take_snoc_full, h.next_eq]
        · intro k hk
          have hk' : s.n < k := hk
          rw [get_snoc_beyond _ _ (by rw [← h.n_eq]; exact hk')]
          intro h'; cases h'
    · intro i
      simp only [lpre, pendingAt, List.countP_append, List.countP_cons, List.countP_nil]
      have := h.once i
      simp only [pendingAt] at this
      by_cases hi : i = s.n
      · subst hi
        have h1 : s.timers.countP (fun t => t.idx == s.n) = 0 := by
          rw [List.countP_eq_zero]; intro t ht hc
          have := hidxT t ht; simp at hc; rw [h.n_eq] at hc; omega
        have h2 : firedAt s.n s.fired = 0 := by
          unfold firedAt; rw [List.countP_eq_zero]; intro fr hfr hc
          have := hidxF fr hfr; simp at hc; rw [h.n_eq] at hc; omega
        rw [h1, h2]; simp
      · have : ((s.n == i) = false) := by simp; omega
        simp [this]; omega
    · intro i d' hx
      rcases get_snoc_cases _ _ _ hx with ⟨hil, hx'⟩ | ⟨hil, _⟩
      · refine (h.served i d' hx').snoc _ _ hil ?_ (fun fr hfr => hfr)
        rintro ⟨t, ht, hti⟩
        exact Or.inl ⟨t, by simp [lpre, ht], hti⟩
      · left
        exact ⟨{ id := s.nextId, deadline := s.now + max d 0, idx := s.n, tc := s.now, d := d },
          by simp [lpre], by show s.n = i; rw [h.n_eq, hil]⟩
  | stop id =>
    have hf : ∀ fr ∈ s.fired, LFireInv (hist ++ [LEv.stop id]) s.now fr :=
      fun fr hfr => (h.fired fr hfr).snoc _ _ (Int.le_refl _) h.now_eq
    have hcnt : cnt (hist ++ [LEv.stop id]) = cnt hist := by simp [cnt_append, cnt]
    by_cases hid : id < s.nextId
    · have hpre : lpre s (.stop id) =
          { s with lastStop := some (s.timers.any (·.id == id)), timers := s.timers.filter (·.id != id) } := by
        simp [lpre, hid]
      rw [hpre]
      refine
        { n_eq := by simp [h.n_eq]
          now_eq := by simp [lclock_snoc, h.now_eq, LEv.dt]
          next_eq := by rw [hcnt]; exact h.next_eq
          timers := ?_
          fired := hf
          once := ?_
          served := ?_ }
      · intro t ht
        simp only [List.mem_filter, bne_iff_ne, ne_eq] at ht
        refine ⟨(h.timers t ht.1).1.1.snoc _ ?_, (h.timers t ht.1).1.2⟩
        intro h'; cases h'; exact ht.2 rfl
      · intro i
        have := h.once i
        have := countP_filter_le (fun t : LPending => t.idx == i) (fun t => t.id != id) s.timers
        simp only [pendingAt] at *
        omega
      · intro i d' hx
        rcases get_snoc_cases _ _ _ hx with ⟨hil, hx'⟩ | ⟨_, hxe⟩
        · refine (h.served i d' hx').snoc _ _ hil ?_ (fun fr hfr => hfr)
          rintro ⟨t, ht, hti⟩
          by_cases hti' : t.id = id
          · right
            obtain ⟨⟨hT, _⟩, hlt⟩ := h.timers t ht
            have hd : t.d = d' := by
              have := hT.isDelay; rw [hti, hx'] at this; cases this; rfl
            constructor
            · rw [← hti, ← hT.id_eq, hti']
            · rw [← hti, hT.callTime, ← hd, ← hT.exact, ← h.now_eq]; exact hlt
          · left
            exact ⟨t, by simp [ht, hti'], hti⟩
        · cases hxe
    · have hpre : lpre s (.stop id) = { s with lastStop := none } := by simp [lpre, hid]
      rw [hpre]
      refine
        { n_eq := by simp [h.n_eq]
          now_eq := by simp [lclock_snoc, h.now_eq, LEv.dt]
          next_eq := by rw [hcnt]; exact h.next_eq
          timers := ?_
          fired := hf
          once := h.once
          served := ?_ }
      · intro t ht
        refine ⟨(h.timers t ht).1.1.snoc _ ?_, (h.timers t ht).1.2⟩
        intro h'; cases h'
        have := (h.timers t ht).1.2
        omega
      · intro i d' hx
        rcases get_snoc_cases _ _ _ hx with ⟨hil, hx'⟩ | ⟨_, hxe⟩
        · exact (h.served i d' hx').snoc _ _ hil (fun h' => Or.inl h') (fun fr hfr => hfr)
        · cases hxe
  | advance dt =>
    have hnow : s.now ≤ s.now + (dt : Int) := by omega
    refine
      { n_eq := by simp [lpre, h.n_eq]
        now_eq := by simp [lpre, lclock_snoc, h.now_eq, LEv.dt]
        next_eq := by simp [lpre, cnt_append, cnt, h.next_eq]
        timers := ?_
        fired := fun fr hfr => (h.fired fr hfr).snoc _ _ hnow h.now_eq
        once := h.once
        served := ?_ }
    · intro t ht
      exact ⟨(h.timers t ht).1.1.snoc _ (by intro h'; cases h'), (h.timers t ht).1.2⟩
    · intro i d' hx
      rcases get_snoc_cases _ _ _ hx with ⟨hil, hx'⟩ | ⟨_, hxe⟩
      · exact (h.served i d' hx').snoc _ _ hil (fun h' => Or.inl h') (fun fr hfr => hfr)
      · cases hxe

theorem lsettle_invh {hist s} (h : LPre hist s) :
    LInvH hist { s.settle with n := s.settle.n + 1 } := by
  refine
    { n_eq := h.n_eq
      now_eq := h.now_eq
      next_eq := h.next_eq
      timers := ?_
      fired := ?_
      once := ?_
      served := ?_ }
  · intro t ht
    simp only [LState.settle, List.mem_filter, Bool.not_eq_true', decide_eq_false_iff_not] at ht
    exact ⟨h.timers t ht.1, by show s.now < t.deadline; omega⟩
  · intro fr hfr
    simp only [LState.settle, List.mem_append, List.mem_map, List.mem_filter, decide_eq_true_eq] at hfr
    rcases hfr with hfr | ⟨t, ⟨ht, hdue⟩, rfl⟩
    · exact h.fired fr hfr
    · have hT := (h.timers t ht).1
      exact
        { idx_lt := hT.idx_lt, isDelay := hT.isDelay, callTime := hT.callTime, exact := hT.exact,
          id_eq := hT.id_eq, le_now := hdue
          nostop := fun k hk hx => absurd hx (hT.nostop k hk) }
  · intro i
    have := h.once i
    have hs := countP_split (fun t : LPending => t.idx == i) (fun t => decide (t.deadline ≤ s.now)) s.timers
    simp only [LState.settle, pendingAt, firedAt, List.countP_append, List.countP_map] at *
    have hc : ((fun fr : LFire => fr.idx == i) ∘ fun t : LPending =>
        ({ f := t.deadline, id := t.id, idx := t.idx, tc := t.tc, d := t.d } : LFire)) =
        fun t : LPending => t.idx == i := rfl
    rw [hc]
    omega
  · intro i d hx
    rcases h.served i d hx with ⟨t, ht, hti⟩ | ⟨fr, hfr, hi⟩ | h3
    · by_cases hdue : t.deadline ≤ s.now
      · right; left
        refine ⟨{ f := t.deadline, id := t.id, idx := t.idx, tc := t.tc, d := t.d }, ?_, hti⟩
        simp only [LState.settle, List.mem_append, List.mem_map, List.mem_filter, decide_eq_true_eq]
        exact Or.inr ⟨t, ⟨ht, hdue⟩, rfl⟩
      · left
        refine ⟨t, ?_, hti⟩
        simp only [LState.settle, List.mem_filter, Bool.not_eq_true', decide_eq_false_iff_not]
        exact ⟨ht, hdue⟩
    · right; left
      exact ⟨fr, by simp only [LState.settle, List.mem_append]; exact Or.inl hfr, hi⟩
    · exact Or.inr (Or.inr h3)

theorem lstep_invh {hist s} (e : LEv) (h : LInvH hist s) : LInvH (hist ++ [e]) (lstep s e) := by
  rw [lstep_eq]; exact lsettle_invh (lpre_inv e h)

theorem lrun_invh (evs : List LEv) : LInvH evs (lrun evs) := by
  have : ∀ (evs hist : List LEv) (s : LState), LInvH hist s →
      LInvH (hist ++ evs) (evs.foldl lstep s) := by
    intro evs
    induction evs with
    | nil => intro hist s h; simpa using h
    | cons e r ih =>
      intro hist s h
      have := ih (hist ++ [e]) (lstep s e) (lstep_invh e h)
      simpa [List.append_assoc] using this
  have := this evs [] {} linvh_init
  simpa [lrun] using this

end GoguVerif.Lemmas.C20L
