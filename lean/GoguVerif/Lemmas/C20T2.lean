import GoguVerif.Lemmas.C20T
/-!
# C20 — helper lemmas: what one throttle step does to the permissions, the trigger log and the clock
-/
namespace GoguVerif.Lemmas.C20T2
open GoguVerif.Spec.C20 GoguVerif.Model.C20 GoguVerif.Lemmas.C20T

/-- `s'` has the permissions of `s` plus at most `k` new ones -/
def GExt (s s' : TState) (k : Nat) : Prop := ∃ ext, s'.grants = s.grants ++ ext ∧ ext.length ≤ k

theorem GExt.refl' {s s' : TState} (k : Nat) (h : s'.grants = s.grants) : GExt s s' k :=
  ⟨[], by simp [h], Nat.zero_le _⟩

theorem GExt.same {s s' : TState} (h : GExt s s' 0) : s'.grants = s.grants := by
  obtain ⟨ext, h1, h2⟩ := h
  have : ext = [] := List.eq_nil_of_length_eq_zero (by omega)
  rw [h1, this]; simp

theorem wake_frame (ch : Choice) (s : TState) (w : Int × Nat) :
    GExt s (wake ch s w) 1 ∧ (wake ch s w).calls = s.calls ∧ (wake ch s w).now = s.now ∧
    (wake ch s w).scheduled = s.scheduled := by
  unfold wake
  cases s.blocked with
  | nil => exact ⟨GExt.refl' 1 rfl, rfl, rfl, rfl⟩
  | cons b bs => exact ⟨⟨[_], rfl, Nat.le_refl _⟩, rfl, rfl, rfl⟩

theorem fire_frame (ch : Choice) (s : TState) (sc : Sched) :
    GExt s (fire ch s sc) 1 ∧ (fire ch s sc).calls = s.calls ∧ (fire ch s sc).now = s.now := by
  unfold fire
  dsimp only
  split
  · exact ⟨GExt.refl' 1 rfl, rfl, rfl⟩
  · have := wake_frame ch { s with scheduled := none } (sc.ctime, sc.cepoch)
    exact ⟨this.1, this.2.1, this.2.2.1⟩

theorem advanceTo_frame (ch : Choice) (s : TState) (t : Int) :
    GExt s (advanceTo ch s t) 1 ∧ (advanceTo ch s t).calls = s.calls ∧ (advanceTo ch s t).now = t ∧
    (s.scheduled = none → (advanceTo ch s t).grants = s.grants) := by
  unfold advanceTo
  split
  · rename_i sc hsc
    split
    · have := fire_frame ch { s with now := max s.now sc.deadline } sc
      exact ⟨this.1, this.2.1, rfl, by intro h; rw [hsc] at h; cases h⟩
    · exact ⟨GExt.refl' 1 rfl, rfl, rfl, fun _ => rfl⟩
  · exact ⟨GExt.refl' 1 rfl, rfl, rfl, fun _ => rfl⟩

/-- the pre-action of an event (before time is allowed to pass) -/
def tpre (cfg : TCfg) (ch : Choice) (s : TState) (e : TEv) : TState :=
  match e with
  | .call => tcall cfg ch s
  | .cancel => tcancel s
  | .next id => tnext s id
  | .advance _ => s

/-- the trigger-log entry written by an event -/
def logOf (s : TState) (e : TEv) : List (Int × Nat) :=
  match e with
  | .call => [(s.now, s.grants.length)]
  | _ => []

theorem tstep_eq (cfg : TCfg) (ch : Choice) (s : TState) (e : TEv) :
    tstep cfg ch s e =
      { advanceTo ch (tpre cfg ch s e) ((tpre cfg ch s e).now + e.dt) with
        n := (advanceTo ch (tpre cfg ch s e) ((tpre cfg ch s e).now + e.dt)).n + 1 } := by
  cases e <;> rfl

theorem tnext_frame {cfg : TCfg} {s : TState} (id : Nat) (h : TInv cfg s) :
    GExt s (tnext s id) 1 ∧ (tnext s id).calls = s.calls ∧ (tnext s id).now = s.now ∧
    ((tnext s id).grants ≠ s.grants → (tnext s id).scheduled = none) := by
  unfold tnext
  by_cases hc : s.waiting = true ∨ s.stop = true
  · rw [if_pos hc]
    by_cases hs : s.stop = false
    · rw [if_pos hs]
      have hw : s.waiting = true := by
        rcases hc with hc | hc
        · exact hc
        · rw [hs] at hc; cases hc
      have hsched : s.scheduled = none := by
        cases hsc : s.scheduled with
        | none => rfl
        | some sc => have := (h.sched sc hsc).2.1; rw [hw] at this; cases this
      exact ⟨⟨[_], rfl, Nat.le_refl _⟩, rfl, rfl, fun _ => hsched⟩
    · rw [if_neg hs]
      exact ⟨GExt.refl' 1 rfl, rfl, rfl, fun h' => absurd rfl h'⟩
  · rw [if_neg hc]
    exact ⟨GExt.refl' 1 rfl, rfl, rfl, fun h' => absurd rfl h'⟩

/-- what `Call` may do: at most one permission (and then no timer is pending), one log entry -/
def CallPost (s r : TState) : Prop :=
  GExt s r 1 ∧ r.calls = s.calls ++ [(s.now, s.grants.length)] ∧ r.now = s.now ∧
  (r.grants ≠ s.grants → r.scheduled = none)

theorem tcall_frame {cfg : TCfg} {s : TState} (ch : Choice) (h : TInv cfg s) :
    CallPost s (tcall cfg ch s) := by
  have hl := h.logCall
  -- the two ways `tcall` can end: a wake-up with no timer pending, or no change of the permissions
  have hwake : (logCall s).scheduled = none →
      ∀ w, CallPost s (wake ch (logCall s) w) := by
    intro hsc w
    have := wake_frame ch (logCall s) w
    exact ⟨this.1, this.2.1, this.2.2.1, fun _ => by rw [this.2.2.2]; exact hsc⟩
  unfold tcall
  dsimp only
  by_cases hc : (logCall s).waiting = false ∧ (logCall s).stop = false
  · rw [if_pos hc]
    have key : ∀ o, (logCall s).last = o →
        CallPost s (match o with
          | none => wake ch (logCall s) ((logCall s).now, (logCall s).grants.length)
          | some l =>
            if (logCall s).now - l > cfg.dur then wake ch (logCall s) ((logCall s).now, (logCall s).grants.length)
            else if cfg.trailing = true ∧ (logCall s).scheduled = none then
              { logCall s with scheduled := some { deadline := (logCall s).now + (cfg.dur - ((logCall s).now - l)),
                                                   ctime := (logCall s).now, cepoch := (logCall s).grants.length } }
            else logCall s) := by
      intro o hlast
      cases o with
      | none =>
        dsimp only
        have hsc : (logCall s).scheduled = none := by
          cases hsv : (logCall s).scheduled with
          | none => rfl
          | some sc => have := (hl.sched sc hsv).2.2.2.1; rw [hlast] at this; cases this
        exact hwake hsc _
      | some l =>
        dsimp only
        by_cases hd : (logCall s).now - l > cfg.dur
        · rw [if_pos hd]
          have hsc : (logCall s).scheduled = none := by
            cases hsv : (logCall s).scheduled with
            | none => rfl
            | some sc =>
              obtain ⟨_, _, h3, h4, _⟩ := hl.sched sc hsv
              rw [hlast] at h4
              simp only [Option.some.injEq] at h4
              omega
          exact hwake hsc _
        · rw [if_neg hd]
          split
          · exact ⟨GExt.refl' 1 rfl, rfl, rfl, fun h' => absurd rfl h'⟩
          · exact ⟨GExt.refl' 1 rfl, rfl, rfl, fun h' => absurd rfl h'⟩
    exact key _ rfl
  · rw [if_neg hc]
    exact ⟨GExt.refl' 1 rfl, rfl, rfl, fun h' => absurd rfl h'⟩

theorem tpre_frame {cfg : TCfg} {s : TState} (ch : Choice) (e : TEv) (h : TInv cfg s) :
    GExt s (tpre cfg ch s e) 1 ∧ (tpre cfg ch s e).calls = s.calls ++ logOf s e ∧
    (tpre cfg ch s e).now = s.now ∧
    ((tpre cfg ch s e).grants ≠ s.grants → (tpre cfg ch s e).scheduled = none) := by
  cases e with
  | call => exact tcall_frame ch h
  | cancel => exact ⟨GExt.refl' 1 rfl, by simp [tpre, logOf, tcancel], rfl, fun h' => absurd rfl h'⟩
  | next id =>
    have := tnext_frame id h
    exact ⟨this.1, by simp [tpre, logOf, this.2.1], this.2.2.1, this.2.2.2⟩
  | advance dt => exact ⟨GExt.refl' 1 rfl, by simp [tpre, logOf], rfl, fun h' => absurd rfl h'⟩

/-- one step: at most one new permission, the trigger log grows by the event's entry, the clock by `dt` -/
theorem tstep_frame {cfg : TCfg} {s : TState} (ch : Choice) (e : TEv) (h : TInv cfg s) :
    GExt s (tstep cfg ch s e) 1 ∧ (tstep cfg ch s e).calls = s.calls ++ logOf s e ∧
    (tstep cfg ch s e).now = s.now + e.dt := by
  rw [tstep_eq]
  obtain ⟨⟨ext, he, hlen⟩, hcalls, hnow, hsched⟩ := tpre_frame ch e h
  obtain ⟨⟨ext2, he2, hlen2⟩, hcalls2, hnow2, hnone⟩ :=
    advanceTo_frame ch (tpre cfg ch s e) ((tpre cfg ch s e).now + e.dt)
  refine ⟨?_, by show (advanceTo ch _ _).calls = _; rw [hcalls2, hcalls],
    by show (advanceTo ch _ _).now = _; rw [hnow2, hnow]⟩
  show GExt s (advanceTo ch (tpre cfg ch s e) ((tpre cfg ch s e).now + e.dt)) 1
  by_cases hg : (tpre cfg ch s e).grants = s.grants
  · exact ⟨ext2, by rw [he2, hg], hlen2⟩
  · exact ⟨ext, by rw [hnone (hsched hg), he], hlen⟩

end GoguVerif.Lemmas.C20T2
