import GoguVerif.Lemmas.C19.SList
import GoguVerif.Lemmas.C19.SListOps
import GoguVerif.Lemmas.C19.DList
import GoguVerif.Lemmas.C19.DListOps
import GoguVerif.Lemmas.C19.DListMid
/-!
# C19 helper lemmas (umbrella)

* `C19/SList.lean`    — `Chain`/`Repr` for `SList`, pigeonhole fuel bound, the pointer walks
* `C19/SListOps.lean` — every `SList` method preserves `Repr` and realises its sequence operation
* `C19/DList.lean`    — `Chain`/`LChain`/`Repr` for `DList` (with `prev`), walks, `relink`
* `C19/DListOps.lean` — `Unshift`, `Append`, `Shift`, `Pop`, `First`, `Last`, `Replace`, `Clear`
* `C19/DListMid.lean` — the `prev` layer: `InsertAfter`, `InsertBefore`, `Delete`
-/
