import GoguVerif.Lemmas.C19.DList
/-!
# C19 helper lemmas, part 4: the `DList` operations used through the `next` chain
(`Unshift`, `Append`, `Shift`, `Pop`, `First`, `Last`, `Replace`) preserve `Repr` — including the
`prev` pointers — and realise their sequence operation
-/
namespace GoguVerif.Lemmas.C19.DList
open GoguVerif.Model GoguVerif.Model.DList GoguVerif.Lemmas.C19
open GoguVerif.Spec.C19 (Op Ans Allowed insertAfterFirst insertBeforeFirst replaceFirst)

/-! ## Unshift -/

theorem unshift_repr {h : Heap} {as xs} (r : Repr h as xs) (v : Int) :
    ∃ h' as', unshift h v = .ok h' ∧ Repr h' as' (v :: xs) := by
  obtain ⟨as', x, xs', rfl, rfl, h0, hc, hnot, hnd⟩ := r.cons
  have hl0 : 0 < h.length := lt_of_get h0
  have hlt := hc.lt_length
  have hnd' : (0 :: h.length :: as').Nodup := by
    refine List.nodup_cons.mpr ⟨?_, List.nodup_cons.mpr ⟨?_, hnd⟩⟩
    · simp only [List.mem_cons, not_or]
      exact ⟨by omega, hnot⟩
    · intro hm
      have := hlt _ hm
      omega
  have hL : LChain ((h ++ [(⟨x, as'.head?, none⟩ : Node)]).set 0 ⟨v, some h.length, none⟩) 3 none
      (0 :: h.length :: as') (v :: x :: xs') := by
    simp only [LChain]
    refine ⟨⟨none, ?_⟩, ⟨none, ?_⟩, ?_⟩
    · rw [List.getElem?_set_self (by simp)]
      rfl
    · rw [List.getElem?_set_ne (by omega), List.getElem?_concat_length]
    · refine LChain.weaken (Chain.toL (hc.frame (fun b hb => ?_)))
      have hb0 : b ≠ 0 := fun e => hnot (e ▸ hb)
      rw [List.getElem?_set_ne (fun e => hb0 e.symm), List.getElem?_append_left (hlt b hb)]
  obtain ⟨h', hr, hrep⟩ := relink_chain hnd' rfl hL
  exact ⟨h', _, by simpa [unshift, load, h0] using hr, hrep⟩

/-! ## Append -/

theorem Chain.snoc {h : Heap} {p : Option Nat} {as : List Nat} {xs : List Int} (v : Int)
    (hne : as ≠ []) (hnd : as.Nodup) (hc : Chain h p as xs) :
    ∃ n, h[as.getLast hne]? = some n ∧ n.next = none ∧
      Chain ((h ++ [(⟨v, none, some (as.getLast hne)⟩ : Node)]).set (as.getLast hne)
          { n with next := some h.length })
        p (as ++ [h.length]) (xs ++ [v]) := by
  induction as generalizing p xs with
  | nil => exact absurd rfl hne
  | cons a as ih =>
    cases xs with
    | nil => simp [Chain] at hc
    | cons x xs =>
      have halt := hc.lt_length
      simp only [Chain] at hc
      cases as with
      | nil =>
        cases xs with
        | cons _ _ => simp [Chain] at hc
        | nil =>
          have ha : a < h.length := halt a (by simp)
          refine ⟨_, by simpa using hc.1, rfl, ?_⟩
          simp only [List.getLast_singleton, List.nil_append, List.cons_append, Chain]
          refine ⟨?_, ?_, trivial⟩
          · rw [List.getElem?_set_self (by simp; omega)]
            rfl
          · have hne' : a ≠ h.length := by omega
            rw [List.getElem?_set_ne hne']
            simp
      | cons b bs =>
        have hnd' : (b :: bs).Nodup := (List.nodup_cons.mp hnd).2
        obtain ⟨n, hn, hnn, hch⟩ := ih (p := some a) (xs := xs) (by simp) hnd' hc.2
        refine ⟨n, by simpa using hn, hnn, ?_⟩
        have hlast : (a :: b :: bs).getLast hne = (b :: bs).getLast (by simp) := by simp
        simp only [hlast, List.cons_append, Chain]
        refine ⟨?_, ?_⟩
        · have ha : a < h.length := halt a (by simp)
          have hane : (b :: bs).getLast (by simp) ≠ a := by
            intro e
            have : a ∈ (b :: bs) := e ▸ List.getLast_mem _
            exact (List.nodup_cons.mp hnd).1 this
          rw [List.getElem?_set_ne hane, List.getElem?_append_left ha]
          simpa using hc.1
        · simpa using hch

theorem append_repr {h : Heap} {as xs} (r : Repr h as xs) (v : Int) :
    ∃ h' as', append h v = .ok h' ∧ Repr h' as' (xs ++ [v]) := by
  have hlen := r.chain.length_le r.nodup
  have hlt := r.chain.lt_length
  obtain ⟨as', x, xs', rfl, rfl, h0, hc, hnot, hnd⟩ := r.cons
  have hla := lastAddr_chain r.chain (h.length + 1) (by simp at hlen; omega)
  obtain ⟨n, hn, hnn, hch⟩ := Chain.snoc v (by simp) r.nodup r.chain
  refine ⟨(h ++ [(⟨v, none, some ((0 :: as').getLast (by simp))⟩ : Node)]).set ((0 :: as').getLast (by simp))
      { n with next := some h.length }, (0 :: as') ++ [h.length], ?_, ⟨rfl, ?_, hch⟩⟩
  · simp only [append, load, h0, ListRes.ok_bind]
    split
    · simp only [set_self h0, hla, hn, hnn, ListRes.ok_bind, ListRes.pure_eq]
    · simp only [hla, hn, hnn, ListRes.ok_bind, ListRes.pure_eq]
  · rw [List.nodup_append]
    refine ⟨r.nodup, by simp, ?_⟩
    intro a ha b hb
    simp at hb
    have := hlt a ha
    omega

/-! ## Shift (and `Delete` of the head): the head takes over its successor, `relink` repairs -/

theorem takeover_head {h : Heap} {b : Nat} {bs : List Nat} {x y : Int} {ys : List Int}
    (r : Repr h (0 :: b :: bs) (x :: y :: ys)) :
    ∃ bn h', h[b]? = some bn ∧ relink (h.set 0 bn) = .ok h' ∧ Repr h' (0 :: bs) (y :: ys) := by
  have hch := r.chain
  simp only [Chain] at hch
  obtain ⟨h0, hb, hc⟩ := hch
  have hl0 : 0 < h.length := lt_of_get h0
  have hnd := r.nodup
  have hn0 := (List.nodup_cons.mp hnd).1
  have hnd' : (0 :: bs).Nodup :=
    List.nodup_cons.mpr ⟨fun e => hn0 (by simp [e]), (List.nodup_cons.mp (List.nodup_cons.mp hnd).2).2⟩
  have hL : LChain (h.set 0 ⟨y, bs.head?, some 0⟩) 3 none (0 :: bs) (y :: ys) := by
    simp only [LChain]
    refine ⟨⟨_, List.getElem?_set_self hl0⟩, ?_⟩
    refine LChain.weaken (k := 1) (p := some b) (LChain.weaken (p' := some b) (Chain.toL (hc.frame (fun d hd => ?_))))
    exact List.getElem?_set_ne (by intro e; subst e; exact hn0 (by simp [hd]))
  obtain ⟨h', hr, hrep⟩ := relink_chain hnd' rfl hL
  exact ⟨_, h', hb, hr, hrep⟩

theorem shift_repr {h : Heap} {as xs} (r : Repr h as xs) :
    ∃ h' n as' xs', shift h = .ok (h', n) ∧ Repr h' as' xs' ∧ n.val = xs.head?.getD 0 ∧
      (if xs.length > 1 then xs' = xs.tail else xs' = [0]) := by
  obtain ⟨as', x, xs', rfl, rfl, h0, hc, hnot, hnd⟩ := r.cons
  have hl0 : 0 < h.length := lt_of_get h0
  cases as' with
  | nil =>
    cases xs' with
    | cons _ _ => simp [Chain] at hc
    | nil =>
      refine ⟨h.set 0 ⟨0, none, none⟩, ⟨x, none, none⟩, [0], [0], ?_, ⟨rfl, by simp, ?_⟩, rfl, by simp⟩
      · simp at h0
        simp [shift, load, h0]
      · simp only [Chain]
        exact ⟨List.getElem?_set_self hl0, trivial⟩
  | cons b bs =>
    cases xs' with
    | nil => simp [Chain] at hc
    | cons y ys =>
      obtain ⟨bn, h', hb, hr, hrep⟩ := takeover_head r
      refine ⟨h', ⟨x, some b, none⟩, _, _, ?_, hrep, rfl, by simp⟩
      simp only [List.head?_cons] at h0
      simp [shift, load, h0, hb, hr]

/-! ## Pop -/

theorem popLoop_chain {h : Heap} {p : Option Nat} {a b : Nat} {bs : List Nat} {x y : Int} {ys : List Int}
    (node : Node) (hnode : node.val = x)
    (hc : Chain h p (a :: b :: bs) (x :: y :: ys)) (hnd : (a :: b :: bs).Nodup)
    (fuel : Nat) (hf : bs.length + 1 < fuel) :
    ∃ t tn nd, popLoop fuel h a node = .ok (t, nd) ∧ h[t]? = some tn ∧ t ∈ (a :: b :: bs).dropLast ∧
      nd.val = ((x :: y :: ys).dropLast).getLast?.getD 0 ∧
      Chain (h.set t { tn with next := none }) p ((a :: b :: bs).dropLast) ((x :: y :: ys).dropLast) := by
  induction bs generalizing p a b x y ys fuel node with
  | nil =>
    cases fuel with
    | zero => omega
    | succ f =>
      cases ys with
      | cons _ _ => simp [Chain] at hc
      | nil =>
        have hlt := hc.lt_length
        simp only [Chain] at hc
        refine ⟨a, _, node, ?_, hc.1, by simp, by simp [hnode], ?_⟩
        · simp [popLoop, hc.1, hc.2.1]
        · simp only [List.dropLast, Chain]
          exact ⟨List.getElem?_set_self (hlt a (by simp)), trivial⟩
  | cons c cs ih =>
    cases fuel with
    | zero => omega
    | succ f =>
      cases ys with
      | nil => simp [Chain] at hc
      | cons z zs =>
        have hlt := hc.lt_length
        simp only [Chain] at hc
        have hnd' := (List.nodup_cons.mp hnd).2
        obtain ⟨t, tn, nd, hp, ht, htm, hval, hch⟩ :=
          ih (p := some a) (a := b) (b := c) (x := y) (y := z) (ys := zs) ⟨y, some c, some a⟩ rfl
            (by simp only [Chain]; exact hc.2) hnd' f (by simp at hf; omega)
        refine ⟨t, tn, nd, ?_, ht, ?_, ?_, ?_⟩
        · simp only [popLoop, hc.1, hc.2.1, List.head?_cons]
          exact hp
        · simp only [List.dropLast] at htm ⊢
          exact List.mem_cons_of_mem _ htm
        · rw [hval]
          simp [List.dropLast, List.getLast?_cons_cons]
        · have hta : t ≠ a := by
            intro e; subst e
            have : t ∈ b :: c :: cs := (List.dropLast_sublist _).subset htm
            exact (List.nodup_cons.mp hnd).1 this
          simp only [List.dropLast, Chain] at hch ⊢
          refine ⟨?_, hch⟩
          rw [List.getElem?_set_ne hta]
          simpa using hc.1

theorem pop_repr {h : Heap} {as xs} (r : Repr h as xs) :
    ∃ h' n as', pop h = .ok (h', n) ∧ Repr h' as' (if xs.length > 1 then xs.dropLast else xs) ∧
      n.val = (if xs.length > 1 then xs.dropLast.getLast?.getD 0 else 0) := by
  have hlen := r.chain.length_le r.nodup
  obtain ⟨as', x, xs', rfl, rfl, h0, hc, hnot, hnd⟩ := r.cons
  cases as' with
  | nil =>
    cases xs' with
    | cons _ _ => simp [Chain] at hc
    | nil => exact ⟨h, ⟨0, none, none⟩, _, by simp [pop, load, h0], by simpa using r, by simp⟩
  | cons b bs =>
    cases xs' with
    | nil => simp [Chain] at hc
    | cons y ys =>
      obtain ⟨t, tn, nd, hp, ht, htm, hval, hch⟩ := popLoop_chain ⟨x, some b, none⟩ rfl r.chain r.nodup
        (h.length + 1) (by simp at hlen; omega)
      refine ⟨h.set t { tn with next := none }, nd, (0 :: b :: bs).dropLast, ?_,
        ⟨by simp [List.dropLast], ?_, ?_⟩, by simpa using hval⟩
      · simp only [List.head?_cons] at h0
        simp only [pop, load, h0, ListRes.ok_bind, hp, ht, ListRes.pure_eq]
      · exact (List.dropLast_sublist _).nodup r.nodup
      · simpa using hch

/-! ## First, Last -/

theorem first_repr {h : Heap} {as xs} (r : Repr h as xs) : first h = .ok (xs.head?.getD 0) := by
  obtain ⟨as', x, xs', rfl, rfl, h0, hc, hnot, hnd⟩ := r.cons
  simp [first, load, h0]

theorem last_repr {h : Heap} {as xs} (r : Repr h as xs) : last h = .ok (xs.getLast?.getD 0) := by
  have hlen := r.chain.length_le r.nodup
  obtain ⟨as', x, xs', rfl, rfl, h0, hc, hnot, hnd⟩ := r.cons
  have hla := lastAddr_chain r.chain (h.length + 1) (by simp at hlen; omega)
  obtain ⟨q, hq⟩ := last_cell r.chain (by simp)
  simp only [last, hla, ListRes.ok_bind, load, hq, ListRes.pure_eq]

/-! ## Replace -/

theorem replaceFirst_not_mem {o n : Int} {xs : List Int} (hx : o ∉ xs) : replaceFirst o n xs = xs := by
  induction xs with
  | nil => rfl
  | cons y ys ih =>
    simp only [List.mem_cons, not_or] at hx
    have : ¬ y = o := fun q => hx.1 q.symm
    simp [replaceFirst, this, ih hx.2]

theorem replaceLoop_chain {h : Heap} {p : Option Nat} {a : Nat} {as : List Nat} {y : Int} {ys : List Int}
    (o n : Int) (hc : Chain h p (a :: as) (y :: ys)) (hnd : (a :: as).Nodup) (fuel : Nat)
    (hf : as.length < fuel) :
    ∃ h', replaceLoop fuel h a o n = .ok (h', if o ∈ y :: ys then .ok else .err) ∧
      Chain h' p (a :: as) (replaceFirst o n (y :: ys)) ∧ (∀ c, c ∉ a :: as → h'[c]? = h[c]?) := by
  induction as generalizing p a y ys fuel with
  | nil =>
    cases fuel with
    | zero => omega
    | succ f =>
      cases ys with
      | cons _ _ => simp [Chain] at hc
      | nil =>
        have hlt := hc.lt_length
        simp only [Chain] at hc
        by_cases hy : y = o
        · refine ⟨h.set a ⟨n, none, p⟩, ?_, ?_, ?_⟩
          · simp [replaceLoop, hc.1, hy]
          · simp only [replaceFirst, hy, if_true, Chain]
            exact ⟨List.getElem?_set_self (hlt a (by simp)), trivial⟩
          · intro c hc'
            simp at hc'
            exact List.getElem?_set_ne (fun q => hc' q.symm)
        · have hy' : ¬ o = y := fun q => hy q.symm
          refine ⟨h, ?_, ?_, fun _ _ => rfl⟩
          · simp [replaceLoop, hc.1, hy, hy']
          · simp only [replaceFirst, hy, if_false, Chain]
            exact ⟨hc.1, trivial⟩
  | cons b bs ih =>
    cases fuel with
    | zero => omega
    | succ f =>
      cases ys with
      | nil => simp [Chain] at hc
      | cons z zs =>
        have hlt := hc.lt_length
        have hab := (List.nodup_cons.mp hnd).1
        simp only [Chain] at hc
        by_cases hy : y = o
        · refine ⟨h.set a ⟨n, some b, p⟩, ?_, ?_, ?_⟩
          · simp [replaceLoop, hc.1, hy]
          · simp only [replaceFirst, hy, if_true]
            simp only [Chain]
            refine ⟨List.getElem?_set_self (hlt a (by simp)), ?_⟩
            have : Chain h (some a) (b :: bs) (z :: zs) := by simp only [Chain]; exact hc.2
            have := this.frame (h' := h.set a ⟨n, some b, p⟩) (fun c hc' =>
              List.getElem?_set_ne (by intro q; subst q; exact hab hc'))
            simpa only [Chain] using this
          · intro c hc'
            simp only [List.mem_cons, not_or] at hc'
            exact List.getElem?_set_ne (fun q => hc'.1 q.symm)
        · have hy' : ¬ o = y := fun q => hy q.symm
          obtain ⟨h', hr, hch, hfr⟩ := ih (p := some a) (a := b) (y := z) (ys := zs)
            (by simp only [Chain]; exact hc.2) (List.nodup_cons.mp hnd).2 f (by simp at hf; omega)
          refine ⟨h', ?_, ?_, ?_⟩
          · simp only [replaceLoop, hc.1, List.head?_cons, hy, if_false, hr]
            simp [hy']
          · simp only [replaceFirst, hy, if_false]
            have h1 : h'[a]? = some ⟨y, some b, p⟩ := by
              rw [hfr a hab]; simpa using hc.1
            have : Chain h' p (a :: b :: bs) (y :: replaceFirst o n (z :: zs)) := by
              cases hq : replaceFirst o n (z :: zs) with
              | nil => rw [hq] at hch; simp [Chain] at hch
              | cons w ws =>
                rw [hq] at hch
                simp only [Chain] at hch ⊢
                exact ⟨h1, hch⟩
            exact this
          · intro c hc'
            simp only [List.mem_cons, not_or] at hc'
            exact hfr c (by simp only [List.mem_cons, not_or]; exact hc'.2)

theorem replace_repr {h : Heap} {as xs} (r : Repr h as xs) (o n : Int) :
    ∃ h' ans xs', replace h o n = .ok (h', ans) ∧ Repr h' as xs' ∧
      (if o ∈ xs then ans = .ok ∧ xs' = replaceFirst o n xs else ans = .err ∧ xs' = xs) := by
  have hlen := r.chain.length_le r.nodup
  obtain ⟨as', x, xs', rfl, rfl, h0, hc, hnot, hnd⟩ := r.cons
  obtain ⟨h', hr, hch, _⟩ := replaceLoop_chain o n r.chain r.nodup (h.length + 1)
    (by simp at hlen; omega)
  by_cases hx : o ∈ x :: xs'
  · exact ⟨h', .ok, _, by simpa [replace, hx] using hr, ⟨r.head, r.nodup, hch⟩, by simp [hx]⟩
  · refine ⟨h', .err, x :: xs', by simpa [replace, hx] using hr, ⟨r.head, r.nodup, ?_⟩, by simp [hx]⟩
    rw [replaceFirst_not_mem hx] at hch
    exact hch

/-- `Clear` leaves the one-element list holding the first value. -/
theorem clear_repr {h : Heap} {as xs} (r : Repr h as xs) :
    ∃ h', clear h = .ok h' ∧ Repr h' [0] [xs.head?.getD 0] := by
  obtain ⟨as', x, xs', rfl, rfl, h0, hc, hnot, hnd⟩ := r.cons
  refine ⟨h.set 0 ⟨x, none, none⟩, by simp [clear, load, h0], ⟨rfl, by simp, ?_⟩⟩
  simp only [Chain, List.head?_cons, Option.getD_some]
  exact ⟨List.getElem?_set_self (lt_of_get h0), trivial⟩

end GoguVerif.Lemmas.C19.DList
