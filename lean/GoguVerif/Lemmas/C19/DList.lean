import GoguVerif.Model.DList
import GoguVerif.Lemmas.C19.SList
/-!
# C19 helper lemmas, part 3: the representation relation of `DList`, the pointer walks, `relink`
-/
namespace GoguVerif.Lemmas.C19.DList
open GoguVerif.Model GoguVerif.Model.DList GoguVerif.Lemmas.C19

/-- Cells `as` spell the sequence `xs`, linked forwards (`next`, the last one nil) and backwards
(`prev`); `p` is the `prev` of the first cell. -/
def Chain (h : Heap) : Option Nat → List Nat → List Int → Prop
  | _, [], [] => True
  | p, a :: as, x :: xs => h[a]? = some ⟨x, as.head?, p⟩ ∧ Chain h (some a) as xs
  | _, _, _ => False

/-- **Representation relation**: the store holds the sequence `xs` in the distinct cells `as`,
starting at the embedded head (address 0) whose `prev` is nil. -/
structure Repr (h : Heap) (as : List Nat) (xs : List Int) : Prop where
  head : as.head? = some 0
  nodup : as.Nodup
  chain : Chain h none as xs

/-- a chain whose first `k` cells have unconstrained `prev` pointers (the state `relink` repairs) -/
def LChain (h : Heap) : Nat → Option Nat → List Nat → List Int → Prop
  | _, _, [], [] => True
  | 0, p, a :: as, x :: xs => h[a]? = some ⟨x, as.head?, p⟩ ∧ LChain h 0 (some a) as xs
  | k + 1, _, a :: as, x :: xs => (∃ q, h[a]? = some ⟨x, as.head?, q⟩) ∧ LChain h k (some a) as xs
  | _, _, _, _ => False

theorem Chain.length_eq {h : Heap} {p as xs} (hc : Chain h p as xs) : as.length = xs.length := by
  induction as generalizing p xs with
  | nil => cases xs <;> simp_all [Chain]
  | cons a as ih =>
    cases xs with
    | nil => simp [Chain] at hc
    | cons x xs => simp only [Chain] at hc; simp [ih hc.2]

theorem Chain.lt_length {h : Heap} {p as xs} (hc : Chain h p as xs) : ∀ a ∈ as, a < h.length := by
  induction as generalizing p xs with
  | nil => simp
  | cons a as ih =>
    cases xs with
    | nil => simp [Chain] at hc
    | cons x xs =>
      simp only [Chain] at hc
      intro b hb
      simp at hb
      rcases hb with rfl | hb
      · exact lt_of_get hc.1
      · exact ih hc.2 b hb

/-- Cells outside the chain do not matter. -/
theorem Chain.frame {h h' : Heap} {p as xs}
    (hc : Chain h p as xs) (hsame : ∀ a ∈ as, h'[a]? = h[a]?) : Chain h' p as xs := by
  induction as generalizing p xs with
  | nil => cases xs <;> simp_all [Chain]
  | cons a as ih =>
    cases xs with
    | nil => simp [Chain] at hc
    | cons x xs =>
      simp only [Chain] at hc ⊢
      exact ⟨by rw [hsame a (by simp)]; exact hc.1, ih hc.2 (fun b hb => hsame b (by simp [hb]))⟩

theorem Chain.length_le {h : Heap} {p as xs} (hc : Chain h p as xs) (hnd : as.Nodup) :
    as.length ≤ h.length :=
  nodup_length_le hnd hc.lt_length

theorem Chain.toL {h : Heap} {p as xs} (hc : Chain h p as xs) : LChain h 0 p as xs := by
  induction as generalizing p xs with
  | nil => cases xs <;> simp_all [Chain, LChain]
  | cons a as ih =>
    cases xs with
    | nil => simp [Chain] at hc
    | cons x xs => simp only [Chain] at hc; simp only [LChain]; exact ⟨hc.1, ih hc.2⟩

theorem LChain.toChain {h : Heap} {p as xs} (hc : LChain h 0 p as xs) : Chain h p as xs := by
  induction as generalizing p xs with
  | nil => cases xs <;> simp_all [Chain, LChain]
  | cons a as ih =>
    cases xs with
    | nil => simp [LChain] at hc
    | cons x xs => simp only [LChain] at hc; simp only [Chain]; exact ⟨hc.1, ih hc.2⟩

/-- forgetting the first `prev` pointers -/
theorem LChain.weaken {h : Heap} {k : Nat} {p p' as xs} (hc : LChain h k p as xs) :
    LChain h (k + 1) p' as xs := by
  induction as generalizing k p p' xs with
  | nil => cases xs <;> simp_all [LChain]
  | cons a as ih =>
    cases xs with
    | nil => cases k <;> simp [LChain] at hc
    | cons x xs =>
      cases k with
      | zero =>
        simp only [LChain] at hc ⊢
        exact ⟨⟨_, hc.1⟩, hc.2⟩
      | succ k =>
        simp only [LChain] at hc ⊢
        exact ⟨hc.1, ih hc.2⟩

theorem Repr.cons {h : Heap} {as xs} (r : Repr h as xs) :
    ∃ as' x xs', as = 0 :: as' ∧ xs = x :: xs' ∧ h[0]? = some ⟨x, as'.head?, none⟩ ∧
      Chain h (some 0) as' xs' ∧ 0 ∉ as' ∧ as'.Nodup := by
  obtain ⟨hh, hnd, hc⟩ := r
  cases as with
  | nil => simp at hh
  | cons a as' =>
    simp at hh
    subst hh
    cases xs with
    | nil => simp [Chain] at hc
    | cons x xs' =>
      simp only [Chain] at hc
      exact ⟨as', x, xs', rfl, rfl, hc.1, hc.2, (List.nodup_cons.mp hnd).1, (List.nodup_cons.mp hnd).2⟩

/-! ## walks -/

/-- address of the first cell holding `x` -/
def addrOf (x : Int) : List Nat → List Int → Option Nat
  | a :: as, y :: ys => if y = x then some a else addrOf x as ys
  | _, _ => none

theorem addrOf_isSome {x : Int} {as : List Nat} {xs : List Int} (hl : as.length = xs.length) :
    (addrOf x as xs).isSome = decide (x ∈ xs) := by
  induction as generalizing xs with
  | nil => cases xs <;> simp_all [addrOf]
  | cons a as ih =>
    cases xs with
    | nil => simp at hl
    | cons y ys =>
      simp only [addrOf]
      by_cases e : y = x
      · simp [e]
      · have e' : ¬ x = y := fun q => e q.symm
        simp [e, e', ih (by simpa using hl)]

theorem addrOf_mem {x : Int} {as : List Nat} {xs : List Int} {a : Nat} (e : addrOf x as xs = some a) :
    a ∈ as := by
  induction as generalizing xs with
  | nil => simp [addrOf] at e
  | cons b as ih =>
    cases xs with
    | nil => simp [addrOf] at e
    | cons y ys =>
      simp only [addrOf] at e
      split at e
      · simp at e; simp [e]
      · simp [ih e]

theorem findLoop_chain {h : Heap} {p as xs} (x : Int) (hc : Chain h p as xs) (fuel : Nat)
    (hf : as.length < fuel) : findLoop fuel h as.head? x = .ok (addrOf x as xs) := by
  induction as generalizing p xs fuel with
  | nil =>
    cases fuel with
    | zero => simp at hf
    | succ f => cases xs <;> simp [findLoop, addrOf]
  | cons a as ih =>
    cases fuel with
    | zero => simp at hf
    | succ f =>
      cases xs with
      | nil => simp [Chain] at hc
      | cons y ys =>
        simp only [Chain] at hc
        simp only [List.head?_cons, findLoop, hc.1, addrOf]
        split
        · rfl
        · exact ih hc.2 f (by simp at hf; omega)

theorem lastAddr_chain {h : Heap} {p : Option Nat} {a : Nat} {as : List Nat} {x : Int} {xs : List Int}
    (hc : Chain h p (a :: as) (x :: xs)) (fuel : Nat) (hf : as.length < fuel) :
    lastAddr fuel h a = .ok ((a :: as).getLast (by simp)) := by
  induction as generalizing p a x xs fuel with
  | nil =>
    cases fuel with
    | zero => omega
    | succ f =>
      simp only [Chain] at hc
      simp [lastAddr, hc.1]
  | cons b bs ih =>
    cases fuel with
    | zero => omega
    | succ f =>
      cases xs with
      | nil => simp [Chain] at hc
      | cons y ys =>
        simp only [Chain] at hc
        simp only [lastAddr, hc.1, List.head?_cons]
        have := ih (p := some a) (a := b) (x := y) (xs := ys) (by simp only [Chain]; exact hc.2) f
          (by simp at hf; omega)
        simpa using this

/-- the value in the last cell of a chain -/
theorem last_cell {h : Heap} {p : Option Nat} {as : List Nat} {xs : List Int}
    (hc : Chain h p as xs) (hne : as ≠ []) :
    ∃ q, h[as.getLast hne]? = some ⟨xs.getLast?.getD 0, none, q⟩ := by
  induction as generalizing p xs with
  | nil => exact absurd rfl hne
  | cons a as ih =>
    cases xs with
    | nil => simp [Chain] at hc
    | cons x xs =>
      simp only [Chain] at hc
      cases as with
      | nil =>
        cases xs with
        | cons _ _ => simp [Chain] at hc
        | nil => exact ⟨p, by simpa using hc.1⟩
      | cons b bs =>
        cases xs with
        | nil => simp [Chain] at hc
        | cons y ys =>
          obtain ⟨q, hq⟩ := ih hc.2 (by simp)
          exact ⟨q, by simpa [List.getLast?_cons_cons] using hq⟩

/-- `Each`'s loop walks the chain and reports its values. -/
theorem eachLoop_chain {h : Heap} {p as xs} (hc : Chain h p as xs) (fuel : Nat)
    (hf : as.length < fuel) : eachLoop fuel h as.head? = .ok xs := by
  induction as generalizing p xs fuel with
  | nil =>
    cases fuel with
    | zero => simp at hf
    | succ f => cases xs <;> simp_all [eachLoop, Chain]
  | cons a as ih =>
    cases fuel with
    | zero => simp at hf
    | succ f =>
      cases xs with
      | nil => simp [Chain] at hc
      | cons y ys =>
        simp only [Chain] at hc
        simp only [List.head?_cons, eachLoop, hc.1, ih hc.2 f (by simp at hf; omega)]

theorem each_repr {h : Heap} {as xs} (r : Repr h as xs) : each h = .ok (h, xs) := by
  have hlen : as.length < h.length + 1 := by
    have := r.chain.length_le r.nodup
    omega
  have hf := eachLoop_chain r.chain (h.length + 1) hlen
  rw [r.head] at hf
  simp [each, hf]

theorem find_repr {h : Heap} {as xs} (r : Repr h as xs) (x : Int) :
    find h x = .ok (addrOf x as xs) := by
  have hlen : as.length < h.length + 1 := by
    have := r.chain.length_le r.nodup
    omega
  have hf := findLoop_chain x r.chain (h.length + 1) hlen
  obtain ⟨as', y, xs', rfl, rfl, h0, hc, hnot, hnd⟩ := r.cons
  simpa [find] using hf

theorem addrOf_cell {h : Heap} {p as xs} {x : Int} {a : Nat} (hc : Chain h p as xs)
    (e : addrOf x as xs = some a) : ∃ nx pv, h[a]? = some ⟨x, nx, pv⟩ := by
  induction as generalizing p xs with
  | nil => simp [addrOf] at e
  | cons b as ih =>
    cases xs with
    | nil => simp [addrOf] at e
    | cons y ys =>
      simp only [Chain] at hc
      simp only [addrOf] at e
      split at e
      · rename_i hy
        simp at e
        subst e; subst hy
        exact ⟨_, _, hc.1⟩
      · exact ih hc.2 e

/-! ## relink -/

/-- `relink` repairs the `prev` pointers of the first three cells. -/
theorem relink_chain {h : Heap} {as xs} (hnd : as.Nodup) (hh : as.head? = some 0)
    (hc : LChain h 3 none as xs) : ∃ h', relink h = .ok h' ∧ Repr h' as xs := by
  cases as with
  | nil => simp at hh
  | cons a0 as1 =>
    simp at hh
    subst hh
    cases xs with
    | nil => simp [LChain] at hc
    | cons x xs1 =>
      simp only [LChain] at hc
      obtain ⟨⟨q0, h0⟩, hc1⟩ := hc
      have hl0 : 0 < h.length := lt_of_get h0
      have hn0 := (List.nodup_cons.mp hnd).1
      cases as1 with
      | nil =>
        cases xs1 with
        | cons _ _ => simp [LChain] at hc1
        | nil =>
          refine ⟨h.set 0 ⟨x, none, none⟩, ?_, ⟨rfl, hnd, ?_⟩⟩
          · simp at h0
            simp [relink, load, h0]
          · simp only [Chain]
            exact ⟨List.getElem?_set_self hl0, trivial⟩
      | cons b as2 =>
        cases xs1 with
        | nil => simp [LChain] at hc1
        | cons y xs2 =>
          simp only [LChain] at hc1
          obtain ⟨⟨q1, hb⟩, hc2⟩ := hc1
          have hb0 : b ≠ 0 := fun e => hn0 (by simp [e])
          have hlb : b < h.length := lt_of_get hb
          have hnd1 := (List.nodup_cons.mp hnd).2
          have hnb := (List.nodup_cons.mp hnd1).1
          simp only [List.head?_cons] at h0
          cases as2 with
          | nil =>
            cases xs2 with
            | cons _ _ => simp [LChain] at hc2
            | nil =>
              simp only [List.head?_nil] at hb
              refine ⟨(h.set 0 ⟨x, some b, none⟩).set b ⟨y, none, some 0⟩, ?_, ⟨rfl, hnd, ?_⟩⟩
              · simp [relink, load, h0, List.getElem?_set_ne (Ne.symm hb0), hb]
              · simp only [Chain]
                refine ⟨?_, ?_, trivial⟩
                · rw [List.getElem?_set_ne hb0, List.getElem?_set_self hl0]
                  rfl
                · rw [List.getElem?_set_self (by simpa using hlb)]
                  rfl
          | cons c as3 =>
            cases xs2 with
            | nil => simp [LChain] at hc2
            | cons z xs3 =>
              simp only [LChain] at hc2
              obtain ⟨⟨q2, hcc⟩, hc3⟩ := hc2
              have hc3 := hc3.toChain
              simp only [List.head?_cons] at hb
              have hc0 : c ≠ 0 := fun e => hn0 (by simp [e])
              have hcb : c ≠ b := fun e => hnb (by simp [e])
              have hlc : c < h.length := lt_of_get hcc
              have hnd2 := (List.nodup_cons.mp hnd1).2
              have hnc := (List.nodup_cons.mp hnd2).1
              refine ⟨((h.set 0 ⟨x, some b, none⟩).set b ⟨y, some c, some 0⟩).set c ⟨z, as3.head?, some b⟩,
                ?_, ⟨rfl, hnd, ?_⟩⟩
              · simp [relink, load, h0, List.getElem?_set_ne (Ne.symm hb0), hb,
                  List.getElem?_set_ne (Ne.symm hcb), List.getElem?_set_ne (Ne.symm hc0), hcc]
              · simp only [Chain]
                refine ⟨?_, ?_, ?_, ?_⟩
                · rw [List.getElem?_set_ne hc0, List.getElem?_set_ne hb0, List.getElem?_set_self hl0]
                  rfl
                · rw [List.getElem?_set_ne hcb, List.getElem?_set_self (by simpa using hlb)]
                  rfl
                · rw [List.getElem?_set_self (by simpa using hlc)]
                · refine hc3.frame (fun d hd => ?_)
                  have hd0 : d ≠ 0 := fun e => hn0 (by simp [e ▸ hd])
                  have hdb : d ≠ b := fun e => hnb (by simp [e ▸ hd])
                  have hdc : d ≠ c := fun e => hnc (e ▸ hd)
                  rw [List.getElem?_set_ne (Ne.symm hdc), List.getElem?_set_ne (Ne.symm hdb),
                    List.getElem?_set_ne (Ne.symm hd0)]

end GoguVerif.Lemmas.C19.DList
