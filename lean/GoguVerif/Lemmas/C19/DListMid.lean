import GoguVerif.Lemmas.C19.DListOps
/-!
# C19 helper lemmas, part 5: the `prev` layer of `DList` — `InsertAfter`, `InsertBefore`, `Delete`
-/
namespace GoguVerif.Lemmas.C19.DList
open GoguVerif.Model GoguVerif.Model.DList GoguVerif.Lemmas.C19
open GoguVerif.Spec.C19 (Op Ans Allowed insertAfterFirst insertBeforeFirst replaceFirst)

/-! ## InsertAfter -/

def insAfterAddr (p new : Nat) : List Nat → List Nat
  | [] => []
  | b :: r => if b = p then b :: new :: r else b :: insAfterAddr p new r

theorem head?_insAfterAddr (p new : Nat) (as : List Nat) : (insAfterAddr p new as).head? = as.head? := by
  cases as with
  | nil => rfl
  | cons b r => simp only [insAfterAddr]; split <;> rfl

theorem mem_insAfterAddr {p new c : Nat} {as : List Nat} (hm : c ∈ insAfterAddr p new as) :
    c = new ∨ c ∈ as := by
  induction as with
  | nil => simp [insAfterAddr] at hm
  | cons b r ih =>
    simp only [insAfterAddr] at hm
    split at hm
    · simp at hm; rcases hm with h | h | h <;> simp [h]
    · simp at hm
      rcases hm with h | h
      · simp [h]
      · rcases ih h with h | h <;> simp [h]

theorem nodup_insAfterAddr {p new : Nat} {as : List Nat} (hnd : as.Nodup) (hnew : new ∉ as) :
    (insAfterAddr p new as).Nodup := by
  induction as with
  | nil => simp [insAfterAddr]
  | cons b r ih =>
    have hb := (List.nodup_cons.mp hnd).1
    have hr := (List.nodup_cons.mp hnd).2
    simp only [insAfterAddr]
    split
    · refine List.nodup_cons.mpr ⟨?_, List.nodup_cons.mpr ⟨fun q => hnew (by simp [q]), hr⟩⟩
      simp only [List.mem_cons, not_or]
      exact ⟨fun q => hnew (by simp [q]), hb⟩
    · refine List.nodup_cons.mpr ⟨?_, ih hr (fun q => hnew (by simp [q]))⟩
      intro q
      rcases mem_insAfterAddr q with q | q
      · exact hnew (by simp [q])
      · exact hb q

theorem insertAfterLink_chain {h : Heap} {q : Option Nat} {as xs} {x v : Int} {a : Nat}
    (hc : Chain h q as xs) (hnd : as.Nodup) (e : addrOf x as xs = some a) :
    ∃ nd h', h[a]? = some nd ∧ nd.val = x ∧ insertAfterLink h a nd v = .ok (h', .ok) ∧
      Chain h' q (insAfterAddr a h.length as) (insertAfterFirst x v xs) ∧
      (∀ c, c ∉ as → c < h.length → h'[c]? = h[c]?) := by
  induction as generalizing q xs with
  | nil => simp [addrOf] at e
  | cons b r ih =>
    cases xs with
    | nil => simp [addrOf] at e
    | cons y ys =>
      have hlt := hc.lt_length
      simp only [Chain] at hc
      simp only [addrOf] at e
      have hbr := (List.nodup_cons.mp hnd).1
      have hndr := (List.nodup_cons.mp hnd).2
      have hb : b < h.length := hlt b (by simp)
      split at e
      · rename_i hy
        simp at e
        subst e; subst hy
        cases r with
        | nil =>
          cases ys with
          | cons _ _ => simp [Chain] at hc
          | nil =>
            refine ⟨_, (h ++ [(⟨v, none, some b⟩ : Node)]).set b ⟨y, some h.length, q⟩, hc.1, rfl,
              by simp [insertAfterLink], ?_, ?_⟩
            · simp only [insAfterAddr, if_true, insertAfterFirst, Chain, List.head?_cons]
              refine ⟨?_, ?_, trivial⟩
              · rw [List.getElem?_set_self (by simp; omega)]
              · rw [List.getElem?_set_ne (by omega), List.getElem?_concat_length]
                rfl
            · intro c hc' hcl
              simp at hc'
              rw [List.getElem?_set_ne (fun q => hc' q.symm), List.getElem?_append_left hcl]
        | cons n r' =>
          cases ys with
          | nil => simp [Chain] at hc
          | cons y' ys' =>
            have hc2 := hc.2
            simp only [Chain] at hc2
            have hn : n < h.length := hlt n (by simp)
            have hnb : n ≠ b := fun q => hbr (by simp [q])
            have hnr := (List.nodup_cons.mp hndr).1
            have h1n : ((h ++ [(⟨v, some n, some b⟩ : Node)]).set b ⟨y, some h.length, q⟩)[n]? =
                some ⟨y', r'.head?, some b⟩ := by
              rw [List.getElem?_set_ne (Ne.symm hnb), List.getElem?_append_left hn]
              exact hc2.1
            refine ⟨_, ((h ++ [(⟨v, some n, some b⟩ : Node)]).set b ⟨y, some h.length, q⟩).set n
                ⟨y', r'.head?, some h.length⟩, hc.1, rfl, ?_, ?_, ?_⟩
            · simp only [insertAfterLink, List.head?_cons, load, h1n, ListRes.ok_bind, ListRes.pure_eq]
            · simp only [insAfterAddr, if_true, insertAfterFirst, Chain, List.head?_cons]
              refine ⟨?_, ?_, ?_, ?_⟩
              · rw [List.getElem?_set_ne hnb, List.getElem?_set_self (by simp; omega)]
              · rw [List.getElem?_set_ne (by omega), List.getElem?_set_ne (by omega),
                  List.getElem?_concat_length]
              · rw [List.getElem?_set_self (by simp; omega)]
              · refine hc2.2.frame (fun d hd => ?_)
                have hdn : d ≠ n := fun q => hnr (q ▸ hd)
                have hdb : d ≠ b := fun q => hbr (by simp [q ▸ hd])
                rw [List.getElem?_set_ne (Ne.symm hdn), List.getElem?_set_ne (Ne.symm hdb),
                  List.getElem?_append_left (hlt d (by simp [hd]))]
            · intro c hc' hcl
              simp only [List.mem_cons, not_or] at hc'
              rw [List.getElem?_set_ne (fun q => hc'.2.1 q.symm),
                List.getElem?_set_ne (fun q => hc'.1 q.symm), List.getElem?_append_left hcl]
      · rename_i hy
        have ham := addrOf_mem e
        have hba : b ≠ a := fun q => hbr (q ▸ ham)
        obtain ⟨nd, h', hp, hv, hl, hch, hfr⟩ := ih hc.2 hndr e
        refine ⟨nd, h', hp, hv, hl, ?_, ?_⟩
        · simp only [insAfterAddr, hba, if_false, insertAfterFirst, hy, Chain]
          refine ⟨?_, hch⟩
          rw [hfr b hbr hb, head?_insAfterAddr]
          exact hc.1
        · intro c hc' hcl
          simp only [List.mem_cons, not_or] at hc'
          exact hfr c hc'.2 hcl

theorem insertAfter_repr {h : Heap} {as xs} (r : Repr h as xs) (x v : Int) :
    ∃ h' ans as' xs', step h (.insertAfter x v) = .ok (h', ans) ∧ Repr h' as' xs' ∧
      (if x ∈ xs then ans = .ok ∧ xs' = insertAfterFirst x v xs else ans = .notFound ∧ xs' = xs) := by
  have hf := find_repr r x
  have hsome := addrOf_isSome (x := x) r.chain.length_eq
  cases e : addrOf x as xs with
  | none =>
    have hx : x ∉ xs := by simpa [e] using hsome
    exact ⟨h, .notFound, as, xs, by simp [step, hf, e], r, by simp [hx]⟩
  | some a =>
    have hx : x ∈ xs := by simpa [e] using hsome
    obtain ⟨nd, h', hp, hv, hl, hch, _⟩ := insertAfterLink_chain (v := v) r.chain r.nodup e
    have hlt := r.chain.lt_length
    refine ⟨h', .ok, insAfterAddr a h.length as, _, ?_, ⟨?_, ?_, hch⟩, by simp [hx]⟩
    · simp [step, hf, e, DList.insertAfter, load, hp, hv, hl]
    · rw [head?_insAfterAddr]; exact r.head
    · exact nodup_insAfterAddr r.nodup (fun q => by have := hlt _ q; omega)

/-! ## InsertBefore -/

def insBeforeAddr (p new : Nat) : List Nat → List Nat
  | [] => []
  | b :: r => if b = p then new :: b :: r else b :: insBeforeAddr p new r

theorem mem_insBeforeAddr {p new c : Nat} {as : List Nat} (hm : c ∈ insBeforeAddr p new as) :
    c = new ∨ c ∈ as := by
  induction as with
  | nil => simp [insBeforeAddr] at hm
  | cons b r ih =>
    simp only [insBeforeAddr] at hm
    split at hm
    · simp at hm; rcases hm with h | h | h <;> simp [h]
    · simp at hm
      rcases hm with h | h
      · simp [h]
      · rcases ih h with h | h <;> simp [h]

theorem nodup_insBeforeAddr {p new : Nat} {as : List Nat} (hnd : as.Nodup) (hnew : new ∉ as) :
    (insBeforeAddr p new as).Nodup := by
  induction as with
  | nil => simp [insBeforeAddr]
  | cons b r ih =>
    have hb := (List.nodup_cons.mp hnd).1
    have hr := (List.nodup_cons.mp hnd).2
    simp only [insBeforeAddr]
    split
    · exact List.nodup_cons.mpr ⟨hnew, hnd⟩
    · refine List.nodup_cons.mpr ⟨?_, ih hr (fun q => hnew (by simp [q]))⟩
      intro q
      rcases mem_insBeforeAddr q with q | q
      · exact hnew (by simp [q])
      · exact hb q

/-- the node to insert before is not the first cell of the segment `c :: r` -/
theorem insertBeforeLink_chain {h : Heap} {q : Option Nat} {c : Nat} {r : List Nat} {y : Int}
    {ys : List Int} {x v : Int} {a : Nat} (head : Node)
    (hc : Chain h q (c :: r) (y :: ys)) (hnd : (c :: r).Nodup) (e : addrOf x r ys = some a) :
    ∃ nd h', h[a]? = some nd ∧ nd.val = x ∧ insertBeforeLink h head a nd v = .ok (h', .ok) ∧
      Chain h' q (c :: insBeforeAddr a h.length r) (y :: insertBeforeFirst x v ys) ∧
      (∀ d, d ∉ c :: r → d < h.length → h'[d]? = h[d]?) := by
  induction r generalizing q c y ys with
  | nil => simp [addrOf] at e
  | cons b r' ih =>
    cases ys with
    | nil => simp [addrOf] at e
    | cons z zs =>
      have hlt := hc.lt_length
      simp only [Chain] at hc
      obtain ⟨hcc, hcb, hcr⟩ := hc
      simp only [List.head?_cons] at hcc
      simp only [addrOf] at e
      have hcn := (List.nodup_cons.mp hnd).1
      have hndr := (List.nodup_cons.mp hnd).2
      have hbr := (List.nodup_cons.mp hndr).1
      have hlc : c < h.length := hlt c (by simp)
      have hlb : b < h.length := hlt b (by simp)
      have hcb' : c ≠ b := fun q => hcn (by simp [q])
      split at e
      · rename_i hz
        simp at e
        subst e; subst hz
        have h1c : ((h ++ [(⟨v, some b, some c⟩ : Node)]).set b ⟨z, r'.head?, some h.length⟩)[c]? =
            some ⟨y, some b, q⟩ := by
          rw [List.getElem?_set_ne (Ne.symm hcb'), List.getElem?_append_left hlc]
          exact hcc
        refine ⟨_, ((h ++ [(⟨v, some b, some c⟩ : Node)]).set b ⟨z, r'.head?, some h.length⟩).set c
            ⟨y, some h.length, q⟩, hcb, rfl, ?_, ?_, ?_⟩
        · simp only [insertBeforeLink, load, h1c, ListRes.ok_bind, ListRes.pure_eq]
        · simp only [insBeforeAddr, if_true, insertBeforeFirst, Chain, List.head?_cons]
          refine ⟨?_, ?_, ?_, ?_⟩
          · rw [List.getElem?_set_self (by simp; omega)]
          · rw [List.getElem?_set_ne (by omega), List.getElem?_set_ne (by omega),
              List.getElem?_concat_length]
          · rw [List.getElem?_set_ne hcb', List.getElem?_set_self (by simp; omega)]
          · refine hcr.frame (fun d hd => ?_)
            have hdb : d ≠ b := fun q => hbr (q ▸ hd)
            have hdc : d ≠ c := fun q => hcn (by simp [q ▸ hd])
            rw [List.getElem?_set_ne (Ne.symm hdc), List.getElem?_set_ne (Ne.symm hdb),
              List.getElem?_append_left (hlt d (by simp [hd]))]
        · intro d hd hdl
          simp only [List.mem_cons, not_or] at hd
          rw [List.getElem?_set_ne (fun q => hd.1 q.symm),
            List.getElem?_set_ne (fun q => hd.2.1 q.symm), List.getElem?_append_left hdl]
      · rename_i hz
        have ham := addrOf_mem e
        have hba : b ≠ a := fun q => hbr (q ▸ ham)
        obtain ⟨nd, h', hp, hv, hl, hch, hfr⟩ := ih (q := some c) (c := b) (y := z) (ys := zs)
          (by simp only [Chain]; exact ⟨hcb, hcr⟩) hndr e
        refine ⟨nd, h', hp, hv, hl, ?_, ?_⟩
        · simp only [insBeforeAddr, hba, if_false, insertBeforeFirst, hz]
          have : Chain h' q (c :: b :: insBeforeAddr a h.length r') (y :: z :: insertBeforeFirst x v zs) := by
            simp only [Chain] at hch ⊢
            refine ⟨?_, hch⟩
            rw [hfr c hcn hlc]
            exact hcc
          exact this
        · intro d hd hdl
          simp only [List.mem_cons, not_or] at hd
          exact hfr d (by simp only [List.mem_cons, not_or]; exact hd.2) hdl

/-- `InsertBefore` the head: like `Unshift`, through the copy `head` taken on entry -/
theorem insertBeforeLink_head {h : Heap} {as' : List Nat} {x v : Int} {xs' : List Int}
    (r : Repr h (0 :: as') (x :: xs')) :
    ∃ h' as'', insertBeforeLink h ⟨x, as'.head?, none⟩ 0 ⟨x, as'.head?, none⟩ v = .ok (h', .ok) ∧
      Repr h' as'' (v :: x :: xs') := by
  obtain ⟨as1, x1, xs1, e1, e2, h0, hc, hnot, hnd⟩ := r.cons
  simp at e1 e2
  obtain ⟨rfl, rfl⟩ := e2
  subst e1
  have hl0 : 0 < h.length := lt_of_get h0
  have hlt := hc.lt_length
  -- the store just before `relink`
  let new := h.length
  let ahead := h.length + 1
  let hfin : Heap :=
    ((((h ++ [(⟨v, some 0, none⟩ : Node)]).set 0 ⟨x, as'.head?, some new⟩) ++ [(⟨x, as'.head?, none⟩ : Node)]).set
      new ⟨v, some ahead, none⟩).set 0 ⟨v, some ahead, none⟩
  have hnd' : (0 :: ahead :: as').Nodup := by
    refine List.nodup_cons.mpr ⟨?_, List.nodup_cons.mpr ⟨?_, hnd⟩⟩
    · simp only [List.mem_cons, not_or]
      exact ⟨by simp [ahead], hnot⟩
    · intro hm
      have := hlt _ hm
      simp only [ahead] at this
      omega
  have hL : LChain hfin 3 none (0 :: ahead :: as') (v :: x :: xs') := by
    simp only [LChain]
    refine ⟨⟨none, ?_⟩, ⟨none, ?_⟩, ?_⟩
    · simp only [hfin]
      rw [List.getElem?_set_self (by simp)]
      rfl
    · simp only [hfin, ahead, new]
      rw [List.getElem?_set_ne (by omega), List.getElem?_set_ne (by omega)]
      have : (((h ++ [(⟨v, some 0, none⟩ : Node)]).set 0 ⟨x, as'.head?, some h.length⟩)).length = h.length + 1 := by
        simp
      rw [← this, List.getElem?_concat_length]
    · refine LChain.weaken (p := some 0) (Chain.toL (hc.frame (fun b hb => ?_)))
      have hb0 : b ≠ 0 := fun e => hnot (e ▸ hb)
      have hbl := hlt b hb
      simp only [hfin, ahead, new]
      rw [List.getElem?_set_ne (Ne.symm hb0), List.getElem?_set_ne (by omega),
        List.getElem?_append_left (by simp; omega), List.getElem?_set_ne (Ne.symm hb0),
        List.getElem?_append_left hbl]
  obtain ⟨h', hr, hrep⟩ := relink_chain hnd' rfl hL
  refine ⟨h', _, ?_, hrep⟩
  have e1 : ((h ++ [(⟨v, some 0, none⟩ : Node)]).set 0 ⟨x, as'.head?, some h.length⟩ ++
      [(⟨x, as'.head?, none⟩ : Node)])[h.length]? = some ⟨v, some 0, none⟩ := by
    rw [List.getElem?_append_left (by simp), List.getElem?_set_ne (by omega), List.getElem?_concat_length]
  have e2 : (((h ++ [(⟨v, some 0, none⟩ : Node)]).set 0 ⟨x, as'.head?, some h.length⟩ ++
      [(⟨x, as'.head?, none⟩ : Node)]).set h.length ⟨v, some (h.length + 1), none⟩)[h.length]? =
      some ⟨v, some (h.length + 1), none⟩ := by
    rw [List.getElem?_set_self (by simp only [List.length_set, List.length_append, List.length_cons, List.length_nil]; omega)]
  simp only [insertBeforeLink, load, List.length_set, List.length_append, List.length_cons,
    List.length_nil, Nat.zero_add, e1, ListRes.ok_bind, e2]
  simp only [hfin, ahead, new] at hr
  rw [hr]
  rfl

theorem insertBefore_repr {h : Heap} {as xs} (r : Repr h as xs) (x v : Int) :
    ∃ h' ans as' xs', step h (.insertBefore x v) = .ok (h', ans) ∧ Repr h' as' xs' ∧
      (if x ∈ xs then ans = .ok ∧ xs' = insertBeforeFirst x v xs else ans = .notFound ∧ xs' = xs) := by
  have hf := find_repr r x
  have hsome := addrOf_isSome (x := x) r.chain.length_eq
  cases e : addrOf x as xs with
  | none =>
    have hx : x ∉ xs := by simpa [e] using hsome
    exact ⟨h, .notFound, as, xs, by simp [step, hf, e], r, by simp [hx]⟩
  | some a =>
    have hx : x ∈ xs := by simpa [e] using hsome
    obtain ⟨as', y, xs', rfl, rfl, h0, hc, hnot, hnd⟩ := r.cons
    have hlt := r.chain.lt_length
    simp only [addrOf] at e
    split at e
    · rename_i hy
      simp at e
      subst e; subst hy
      obtain ⟨h', as'', hl, hrep⟩ := insertBeforeLink_head (v := v) r
      refine ⟨h', .ok, as'', _, ?_, hrep, by simp [insertBeforeFirst]⟩
      have e' : addrOf y (0 :: as') (y :: xs') = some 0 := by simp [addrOf]
      simp [step, hf, e', DList.insertBefore, load, h0, hl]
    · rename_i hy
      obtain ⟨nd, h', hp, hv, hl, hch, _⟩ :=
        insertBeforeLink_chain (v := v) ⟨y, as'.head?, none⟩ r.chain r.nodup e
      have e' : addrOf x (0 :: as') (y :: xs') = some a := by simp [addrOf, hy, e]
      refine ⟨h', .ok, 0 :: insBeforeAddr a h.length as', y :: insertBeforeFirst x v xs', ?_, ⟨rfl, ?_, ?_⟩, ?_⟩
      · simp [step, hf, e', DList.insertBefore, load, h0, hp, hv, hl]
      · refine List.nodup_cons.mpr ⟨?_, nodup_insBeforeAddr hnd (fun q => ?_)⟩
        · intro q
          rcases mem_insBeforeAddr q with q | q
          · have := lt_of_get h0; omega
          · exact hnot q
        · have := hlt _ (List.mem_cons_of_mem _ q); omega
      · exact hch
      · simp [hx, insertBeforeFirst, hy]

/-! ## Delete -/

theorem deleteUnlink_chain {h : Heap} {q : Option Nat} {c : Nat} {r : List Nat} {y : Int}
    {ys : List Int} {x : Int} {a : Nat}
    (hc : Chain h q (c :: r) (y :: ys)) (hnd : (c :: r).Nodup) (e : addrOf x r ys = some a) :
    ∃ nd h', h[a]? = some nd ∧ nd.val = x ∧ deleteUnlink h a nd = .ok (h', .ok) ∧
      Chain h' q (c :: r.erase a) (y :: ys.erase x) ∧
      (∀ d, d ∉ c :: r → h'[d]? = h[d]?) := by
  induction r generalizing q c y ys with
  | nil => simp [addrOf] at e
  | cons b r' ih =>
    cases ys with
    | nil => simp [addrOf] at e
    | cons z zs =>
      have hlt := hc.lt_length
      simp only [Chain] at hc
      obtain ⟨hcc, hcb, hcr⟩ := hc
      simp only [List.head?_cons] at hcc
      simp only [addrOf] at e
      have hcn := (List.nodup_cons.mp hnd).1
      have hndr := (List.nodup_cons.mp hnd).2
      have hbr := (List.nodup_cons.mp hndr).1
      have hlc : c < h.length := hlt c (by simp)
      have hlb : b < h.length := hlt b (by simp)
      have hcb' : c ≠ b := fun q => hcn (by simp [q])
      split at e
      · rename_i hz
        simp at e
        subst e; subst hz
        cases r' with
        | nil =>
          cases zs with
          | cons _ _ => simp [Chain] at hcr
          | nil =>
            simp only [List.head?_nil] at hcb
            refine ⟨_, h.set c ⟨y, none, q⟩, hcb, rfl, ?_, ?_, ?_⟩
            · simp [deleteUnlink, load, hcb, hcc]
            · simp only [List.erase_cons_head, Chain, List.head?_nil]
              exact ⟨List.getElem?_set_self hlc, trivial⟩
            · intro d hd
              simp only [List.mem_cons, not_or] at hd
              exact List.getElem?_set_ne (fun q => hd.1 q.symm)
        | cons n r'' =>
          cases zs with
          | nil => simp [Chain] at hcr
          | cons z' zs' =>
            simp only [Chain] at hcr
            simp only [List.head?_cons] at hcb
            have hnr := (List.nodup_cons.mp (List.nodup_cons.mp hndr).2).1
            have hnb : n ≠ b := fun q => hbr (by simp [q])
            have hnc : n ≠ c := fun q => hcn (by simp [q])
            have hln : n < h.length := hlt n (by simp)
            have e1 : (h.set n ⟨z', r''.head?, some c⟩)[b]? = some ⟨z, some n, some c⟩ := by
              rw [List.getElem?_set_ne hnb]; exact hcb
            have e2 : (h.set n ⟨z', r''.head?, some c⟩)[c]? = some ⟨y, some b, q⟩ := by
              rw [List.getElem?_set_ne hnc]; exact hcc
            refine ⟨_, (h.set n ⟨z', r''.head?, some c⟩).set c ⟨y, some n, q⟩, hcb, rfl, ?_, ?_, ?_⟩
            · simp [deleteUnlink, load, hcr.1, e1, e2]
            · simp only [List.erase_cons_head, Chain, List.head?_cons]
              refine ⟨?_, ?_, ?_⟩
              · rw [List.getElem?_set_self (by simpa using hlc)]
              · rw [List.getElem?_set_ne (Ne.symm hnc), List.getElem?_set_self hln]
              · refine hcr.2.frame (fun d hd => ?_)
                have hdn : d ≠ n := fun q => hnr (q ▸ hd)
                have hdc : d ≠ c := fun q => hcn (by simp [q ▸ hd])
                rw [List.getElem?_set_ne (Ne.symm hdc), List.getElem?_set_ne (Ne.symm hdn)]
            · intro d hd
              simp only [List.mem_cons, not_or] at hd
              rw [List.getElem?_set_ne (fun q => hd.1 q.symm),
                List.getElem?_set_ne (fun q => hd.2.2.1 q.symm)]
      · rename_i hz
        have ham := addrOf_mem e
        have hba : b ≠ a := fun q => hbr (q ▸ ham)
        have hba' : (b == a) = false := by simpa using hba
        have hzx : (z == x) = false := by simpa using hz
        obtain ⟨nd, h', hp, hv, hl, hch, hfr⟩ := ih (q := some c) (c := b) (y := z) (ys := zs)
          (by simp only [Chain]; exact ⟨hcb, hcr⟩) hndr e
        refine ⟨nd, h', hp, hv, hl, ?_, ?_⟩
        · simp only [List.erase_cons, hba', hzx, Bool.false_eq_true, if_false]
          simp only [Chain] at hch ⊢
          refine ⟨?_, hch⟩
          rw [hfr c hcn]
          exact hcc
        · intro d hd
          simp only [List.mem_cons, not_or] at hd
          exact hfr d (by simp only [List.mem_cons, not_or]; exact hd.2)

theorem delete_repr {h : Heap} {as xs} (r : Repr h as xs) (x : Int) :
    ∃ h' ans as' xs', step h (.delete x) = .ok (h', ans) ∧ Repr h' as' xs' ∧
      (if x ∈ xs then
        (if xs.length > 1 then ans = .ok ∧ xs' = xs.erase x else ans = .err ∧ xs' = xs)
       else ans = .notFound ∧ xs' = xs) := by
  have hf := find_repr r x
  have hsome := addrOf_isSome (x := x) r.chain.length_eq
  cases e : addrOf x as xs with
  | none =>
    have hx : x ∉ xs := by simpa [e] using hsome
    exact ⟨h, .notFound, as, xs, by simp [step, hf, e], r, by simp [hx]⟩
  | some a =>
    have hx : x ∈ xs := by simpa [e] using hsome
    obtain ⟨as', y, xs', rfl, rfl, h0, hc, hnot, hnd⟩ := r.cons
    have e0 := e
    simp only [addrOf] at e
    split at e
    · rename_i hy
      simp at e
      subst e; subst hy
      cases as' with
      | nil =>
        cases xs' with
        | cons _ _ => simp [Chain] at hc
        | nil =>
          refine ⟨h, .err, _, _, ?_, r, by simp⟩
          simp at h0
          simp [step, hf, e0, delete, ListRes.deref, load, h0]
      | cons b bs =>
        cases xs' with
        | nil => simp [Chain] at hc
        | cons z zs =>
          obtain ⟨bn, h', hb, hr, hrep⟩ := takeover_head r
          refine ⟨h', .ok, _, _, ?_, hrep, by simp⟩
          simp only [List.head?_cons] at h0
          simp [step, hf, e0, delete, ListRes.deref, load, h0, hb, hr]
    · rename_i hy
      obtain ⟨nd, h', hp, hv, hl, hch, _⟩ := deleteUnlink_chain r.chain r.nodup e
      have ham := addrOf_mem e
      have ha0 : (0 == a) = false := by
        simp only [beq_eq_false_iff_ne, ne_eq]
        intro q; subst q; exact hnot ham
      have hyx : (y == x) = false := by simpa using hy
      have hl1 : (y :: xs').length > 1 := by
        have := hc.length_eq
        cases as' with
        | nil => simp at ham
        | cons _ _ => simp at this ⊢; omega
      have hnext : ¬ as' = [] := by
        intro q; subst q; simp at ham
      refine ⟨h', .ok, (0 :: as').erase a, (y :: xs').erase x, ?_, ⟨?_, r.nodup.erase a, ?_⟩, ?_⟩
      · subst hv
        have hy' : ¬ y = nd.val := hy
        have hne : ¬ (0 = a) := by simpa using ha0
        simp [step, hf, e0, delete, ListRes.deref, load, hp, h0, hnext, hy', hne, hl]
      · simp [ha0]
      · simpa [List.erase_cons, ha0, hyx] using hch
      · simp only [hx, hl1, if_true]
        simp

end GoguVerif.Lemmas.C19.DList
