import GoguVerif.Lemmas.C19.SList
/-!
# C19 helper lemmas, part 2: every `SList` method preserves `Repr` and realises its sequence operation
-/
namespace GoguVerif.Lemmas.C19.SList
open GoguVerif.Model GoguVerif.Model.SList GoguVerif.Lemmas.C19
open GoguVerif.Spec.C19 (Op Ans Allowed insertAfterFirst insertBeforeFirst replaceFirst)

theorem addrOf_cell {h : Heap} {as xs} {x : Int} {a : Nat} (hc : Chain h as xs)
    (e : addrOf x as xs = some a) : ∃ nx, h[a]? = some ⟨x, nx⟩ := by
  induction as generalizing xs with
  | nil => simp [addrOf] at e
  | cons b as ih =>
    cases xs with
    | nil => simp [addrOf] at e
    | cons y ys =>
      simp only [Chain] at hc
      simp only [addrOf] at e
      split at e
      · rename_i hy
        simp at e
        subst e; subst hy
        exact ⟨_, hc.1⟩
      · exact ih hc.2 e

/-! ## Unshift -/

theorem unshift_repr {h : Heap} {as xs} (r : Repr h as xs) (v : Int) :
    ∃ h' as', unshift h v = .ok h' ∧ Repr h' as' (v :: xs) := by
  obtain ⟨as', x, xs', rfl, rfl, h0, hc, hnot, hnd⟩ := r.cons
  have hl0 : 0 < h.length := lt_of_get h0
  refine ⟨(h ++ [(⟨x, as'.head?⟩ : Node)]).set 0 ⟨v, some h.length⟩, 0 :: h.length :: as',
    by simp [unshift, load, h0], ?_⟩
  have hlt := hc.lt_length
  refine ⟨rfl, ?_, ?_⟩
  · refine List.nodup_cons.mpr ⟨?_, List.nodup_cons.mpr ⟨?_, hnd⟩⟩
    · simp only [List.mem_cons, not_or]
      exact ⟨by omega, hnot⟩
    · intro hm
      have := hlt _ hm
      omega
  · simp only [Chain]
    refine ⟨?_, ?_, ?_⟩
    · rw [List.getElem?_set_self (by simp)]
      rfl
    · rw [List.getElem?_set_ne (by omega), List.getElem?_concat_length]
    · refine hc.frame (fun b hb => ?_)
      have hb0 : b ≠ 0 := fun e => hnot (e ▸ hb)
      rw [List.getElem?_set_ne (fun e => hb0 e.symm), List.getElem?_append_left (hlt b hb)]

/-! ## Append -/

theorem Chain.snoc {h : Heap} {as : List Nat} {xs : List Int} (v : Int)
    (hne : as ≠ []) (hnd : as.Nodup) (hc : Chain h as xs) :
    ∃ n, h[as.getLast hne]? = some n ∧
      Chain ((h ++ [(⟨v, none⟩ : Node)]).set (as.getLast hne) { n with next := some h.length })
        (as ++ [h.length]) (xs ++ [v]) := by
  induction as generalizing xs with
  | nil => exact absurd rfl hne
  | cons a as ih =>
    cases xs with
    | nil => simp [Chain] at hc
    | cons x xs =>
      have halt := hc.lt_length
      simp only [Chain] at hc
      cases as with
      | nil =>
        cases xs with
        | cons _ _ => simp [Chain] at hc
        | nil =>
          have ha : a < h.length := halt a (by simp)
          refine ⟨_, by simpa using hc.1, ?_⟩
          simp only [List.getLast_singleton, List.nil_append, List.cons_append, Chain]
          refine ⟨?_, ?_, trivial⟩
          · rw [List.getElem?_set_self (by simp; omega)]
            rfl
          · have hne' : a ≠ h.length := by omega
            rw [List.getElem?_set_ne hne']
            simp
      | cons b bs =>
        have hnd' : (b :: bs).Nodup := (List.nodup_cons.mp hnd).2
        obtain ⟨n, hn, hch⟩ := ih (xs := xs) (by simp) hnd' hc.2
        refine ⟨n, by simpa using hn, ?_⟩
        have hlast : (a :: b :: bs).getLast hne = (b :: bs).getLast (by simp) := by simp
        simp only [hlast, List.cons_append, Chain]
        refine ⟨?_, ?_⟩
        · have ha : a < h.length := halt a (by simp)
          have hane : (b :: bs).getLast (by simp) ≠ a := by
            intro e
            have : a ∈ (b :: bs) := e ▸ List.getLast_mem _
            exact (List.nodup_cons.mp hnd).1 this
          rw [List.getElem?_set_ne hane, List.getElem?_append_left ha]
          simpa using hc.1
        · simpa using hch

theorem append_repr {h : Heap} {as xs} (r : Repr h as xs) (v : Int) :
    ∃ h' as', append h v = .ok h' ∧ Repr h' as' (xs ++ [v]) := by
  have hlen := r.chain.length_le r.nodup
  have hlt := r.chain.lt_length
  obtain ⟨as', x, xs', rfl, rfl, h0, hc, hnot, hnd⟩ := r.cons
  have hla := lastAddr_chain r.chain (h.length + 1) (by simp at hlen; omega)
  obtain ⟨n, hn, hch⟩ := Chain.snoc v (by simp) r.nodup r.chain
  refine ⟨_, (0 :: as') ++ [h.length], ?_, ⟨rfl, ?_, hch⟩⟩
  · simp only [append, load, h0, ListRes.ok_bind]
    split
    · simp only [set_self h0, hla, hn, ListRes.ok_bind, ListRes.pure_eq]
    · simp only [hla, hn, ListRes.ok_bind, ListRes.pure_eq]
  · rw [List.nodup_append]
    refine ⟨r.nodup, by simp, ?_⟩
    intro a ha b hb
    simp at hb
    have := hlt a ha
    omega

/-! ## Shift, Delete (head / middle): the cell takes over its successor -/

/-- remove the address that follows `a` -/
def delNext (a : Nat) : List Nat → List Nat
  | [] => []
  | b :: r => if b = a then b :: r.tail else b :: delNext a r

theorem head?_delNext (a : Nat) (as : List Nat) : (delNext a as).head? = as.head? := by
  cases as with
  | nil => rfl
  | cons b r => simp only [delNext]; split <;> rfl

theorem delNext_sublist (a : Nat) (as : List Nat) : (delNext a as).Sublist as := by
  induction as with
  | nil => exact List.Sublist.refl _
  | cons b r ih =>
    simp only [delNext]
    split
    · exact List.Sublist.cons_cons _ (List.tail_sublist r)
    · exact List.Sublist.cons_cons _ ih

/-- `*a = *a.next` where `a` is the first cell holding `x`: the chain loses `x`. -/
theorem Chain.takeover {h : Heap} {as xs} {x : Int} {a s : Nat} {sn : Node}
    (hc : Chain h as xs) (hnd : as.Nodup) (e : addrOf x as xs = some a)
    (ha : h[a]? = some ⟨x, some s⟩) (hs : h[s]? = some sn) :
    Chain (h.set a sn) (delNext a as) (xs.erase x) := by
  induction as generalizing xs with
  | nil => simp [addrOf] at e
  | cons b r ih =>
    cases xs with
    | nil => simp [addrOf] at e
    | cons y ys =>
      have hlt := hc.lt_length
      simp only [Chain] at hc
      simp only [addrOf] at e
      have hbr := (List.nodup_cons.mp hnd).1
      split at e
      · rename_i hy
        simp at e
        subst e; subst hy
        rw [hc.1] at ha
        simp at ha
        -- r = s :: r'
        cases r with
        | nil => simp at ha
        | cons s' r' =>
          simp at ha
          subst ha
          cases ys with
          | nil => simp [Chain] at hc
          | cons y' ys' =>
            have hc2 := hc.2
            simp only [Chain] at hc2
            rw [hc2.1] at hs
            simp at hs
            subst hs
            simp only [delNext, if_true, List.tail_cons, List.erase_cons_head, Chain]
            refine ⟨List.getElem?_set_self (hlt b (by simp)), hc2.2.frame (fun c hc' => ?_)⟩
            have : b ≠ c := by
              intro e; subst e
              exact hbr (by simp [hc'])
            exact List.getElem?_set_ne this
      · rename_i hy
        have ham := addrOf_mem e
        have hba : b ≠ a := fun q => hbr (q ▸ ham)
        have hyx : (y == x) = false := by simpa using hy
        simp only [delNext, hba, if_false, List.erase_cons, hyx, Bool.false_eq_true, Chain]
        refine ⟨?_, ih hc.2 (List.nodup_cons.mp hnd).2 e⟩
        rw [List.getElem?_set_ne (fun q => hba q.symm), head?_delNext]
        exact hc.1

theorem takeover_repr {h : Heap} {as xs} {x : Int} {a s : Nat} {sn : Node}
    (r : Repr h as xs) (e : addrOf x as xs = some a)
    (ha : h[a]? = some ⟨x, some s⟩) (hs : h[s]? = some sn) :
    Repr (h.set a sn) (delNext a as) (xs.erase x) :=
  ⟨by rw [head?_delNext]; exact r.head, (delNext_sublist a as).nodup r.nodup,
   r.chain.takeover r.nodup e ha hs⟩

theorem shift_repr {h : Heap} {as xs} (r : Repr h as xs) :
    ∃ h' as' xs', shift h = .ok h' ∧ Repr h' as' xs' ∧
      (if xs.length > 1 then xs' = xs.tail else xs' = xs) := by
  obtain ⟨as', x, xs', rfl, rfl, h0, hc, hnot, hnd⟩ := r.cons
  cases as' with
  | nil =>
    cases xs' with
    | cons _ _ => simp [Chain] at hc
    | nil => exact ⟨h, _, _, by simp [shift, load, h0], r, by simp⟩
  | cons b bs =>
    cases xs' with
    | nil => simp [Chain] at hc
    | cons y ys =>
      have hc' := hc
      simp only [Chain] at hc'
      have e : addrOf x (0 :: b :: bs) (x :: y :: ys) = some 0 := by simp [addrOf]
      have := takeover_repr r e (by simpa using h0) hc'.1
      refine ⟨_, _, _, ?_, this, by simp⟩
      simp [shift, load, h0, hc'.1]

/-! ## Pop -/

theorem popLoop_chain {h : Heap} {a b : Nat} {bs : List Nat} {x y : Int} {ys : List Int}
    (hc : Chain h (a :: b :: bs) (x :: y :: ys)) (hnd : (a :: b :: bs).Nodup)
    (fuel : Nat) (hf : bs.length + 1 < fuel) :
    ∃ t tn, popLoop fuel h a = .ok t ∧ h[t]? = some tn ∧ t ∈ (a :: b :: bs).dropLast ∧
      Chain (h.set t { tn with next := none }) ((a :: b :: bs).dropLast) ((x :: y :: ys).dropLast) := by
  induction bs generalizing a b x y ys fuel with
  | nil =>
    cases fuel with
    | zero => omega
    | succ f =>
      cases ys with
      | cons _ _ => simp [Chain] at hc
      | nil =>
        have hlt := hc.lt_length
        simp only [Chain] at hc
        refine ⟨a, _, ?_, hc.1, by simp, ?_⟩
        · simp [popLoop, hc.1, hc.2.1]
        · simp only [List.dropLast, Chain]
          exact ⟨List.getElem?_set_self (hlt a (by simp)), trivial⟩
  | cons c cs ih =>
    cases fuel with
    | zero => omega
    | succ f =>
      cases ys with
      | nil => simp [Chain] at hc
      | cons z zs =>
        have hlt := hc.lt_length
        simp only [Chain] at hc
        have hnd' := (List.nodup_cons.mp hnd).2
        obtain ⟨t, tn, hp, ht, htm, hch⟩ :=
          ih (a := b) (b := c) (x := y) (y := z) (ys := zs) (by simp only [Chain]; exact hc.2) hnd' f
            (by simp at hf; omega)
        refine ⟨t, tn, ?_, ht, ?_, ?_⟩
        · simp only [popLoop, hc.1, hc.2.1, List.head?_cons]
          exact hp
        · simp only [List.dropLast] at htm ⊢
          exact List.mem_cons_of_mem _ htm
        · have hta : t ≠ a := by
            intro e; subst e
            have : t ∈ b :: c :: cs := (List.dropLast_sublist _).subset htm
            exact (List.nodup_cons.mp hnd).1 this
          simp only [List.dropLast, Chain] at hch ⊢
          refine ⟨?_, hch⟩
          rw [List.getElem?_set_ne hta]
          simpa using hc.1

theorem pop_repr {h : Heap} {as xs} (r : Repr h as xs) :
    ∃ h' as', pop h = .ok h' ∧ Repr h' as' (if xs.length > 1 then xs.dropLast else xs) := by
  have hlen := r.chain.length_le r.nodup
  obtain ⟨as', x, xs', rfl, rfl, h0, hc, hnot, hnd⟩ := r.cons
  cases as' with
  | nil =>
    cases xs' with
    | cons _ _ => simp [Chain] at hc
    | nil => exact ⟨h, _, by simp [pop, load, h0], by simpa using r⟩
  | cons b bs =>
    cases xs' with
    | nil => simp [Chain] at hc
    | cons y ys =>
      obtain ⟨t, tn, hp, ht, htm, hch⟩ := popLoop_chain r.chain r.nodup (h.length + 1)
        (by simp at hlen; omega)
      refine ⟨h.set t { tn with next := none }, (0 :: b :: bs).dropLast, ?_, ⟨by simp [List.dropLast], ?_, ?_⟩⟩
      · simp only [List.head?_cons] at h0
        simp only [pop, load, h0, ListRes.ok_bind, hp, ht, ListRes.pure_eq]
      · exact (List.dropLast_sublist _).nodup r.nodup
      · simpa using hch

/-! ## InsertAfter -/

def insAfterAddr (p new : Nat) : List Nat → List Nat
  | [] => []
  | b :: r => if b = p then b :: new :: r else b :: insAfterAddr p new r

theorem head?_insAfterAddr (p new : Nat) (as : List Nat) : (insAfterAddr p new as).head? = as.head? := by
  cases as with
  | nil => rfl
  | cons b r => simp only [insAfterAddr]; split <;> rfl

theorem mem_insAfterAddr {p new c : Nat} {as : List Nat} (hm : c ∈ insAfterAddr p new as) :
    c = new ∨ c ∈ as := by
  induction as with
  | nil => simp [insAfterAddr] at hm
  | cons b r ih =>
    simp only [insAfterAddr] at hm
    split at hm
    · simp at hm; rcases hm with h | h | h <;> simp [h]
    · simp at hm
      rcases hm with h | h
      · simp [h]
      · rcases ih h with h | h <;> simp [h]

theorem nodup_insAfterAddr {p new : Nat} {as : List Nat} (hnd : as.Nodup) (hnew : new ∉ as) :
    (insAfterAddr p new as).Nodup := by
  induction as with
  | nil => simp [insAfterAddr]
  | cons b r ih =>
    have hb := (List.nodup_cons.mp hnd).1
    have hr := (List.nodup_cons.mp hnd).2
    simp only [insAfterAddr]
    split
    · refine List.nodup_cons.mpr ⟨?_, List.nodup_cons.mpr ⟨fun q => hnew (by simp [q]), hr⟩⟩
      simp only [List.mem_cons, not_or]
      exact ⟨fun q => hnew (by simp [q]), hb⟩
    · refine List.nodup_cons.mpr ⟨?_, ih hr (fun q => hnew (by simp [q]))⟩
      intro q
      rcases mem_insAfterAddr q with q | q
      · exact hnew (by simp [q])
      · exact hb q

theorem Chain.insertAfter {h : Heap} {as xs} {x v : Int} {p : Nat} {pn : Node}
    (hc : Chain h as xs) (hnd : as.Nodup) (e : addrOf x as xs = some p) (hp : h[p]? = some pn) :
    Chain ((h ++ [(⟨v, pn.next⟩ : Node)]).set p { pn with next := some h.length })
      (insAfterAddr p h.length as) (insertAfterFirst x v xs) := by
  induction as generalizing xs with
  | nil => simp [addrOf] at e
  | cons b r ih =>
    cases xs with
    | nil => simp [addrOf] at e
    | cons y ys =>
      have hlt := hc.lt_length
      simp only [Chain] at hc
      simp only [addrOf] at e
      have hbr := (List.nodup_cons.mp hnd).1
      have hb : b < h.length := hlt b (by simp)
      split at e
      · rename_i hy
        simp at e
        subst e; subst hy
        rw [hc.1] at hp
        simp at hp
        subst hp
        simp only [insAfterAddr, if_true, insertAfterFirst, Chain, List.head?_cons]
        refine ⟨?_, ?_, ?_⟩
        · rw [List.getElem?_set_self (by simp; omega)]
        · rw [List.getElem?_set_ne (by omega), List.getElem?_concat_length]
        · refine hc.2.frame (fun c hc' => ?_)
          have hcb : b ≠ c := by
            intro q; subst q; exact hbr hc'
          rw [List.getElem?_set_ne hcb, List.getElem?_append_left (hlt c (by simp [hc']))]
      · rename_i hy
        have ham := addrOf_mem e
        have hbp : b ≠ p := fun q => hbr (q ▸ ham)
        simp only [insAfterAddr, hbp, if_false, insertAfterFirst, hy, Chain]
        refine ⟨?_, ih hc.2 (List.nodup_cons.mp hnd).2 e⟩
        rw [List.getElem?_set_ne (fun q => hbp q.symm), List.getElem?_append_left hb,
          head?_insAfterAddr]
        exact hc.1

theorem insertAfter_repr {h : Heap} {as xs} (r : Repr h as xs) (x v : Int) :
    ∃ h' ans as' xs', step h (.insertAfter x v) = .ok (h', ans) ∧ Repr h' as' xs' ∧
      (if x ∈ xs then ans = .ok ∧ xs' = insertAfterFirst x v xs else ans = .notFound ∧ xs' = xs) := by
  have hf := find_repr r x
  have hsome := addrOf_isSome (x := x) r.chain.length_eq
  cases e : addrOf x as xs with
  | none =>
    have hx : x ∉ xs := by simpa [e] using hsome
    exact ⟨h, .notFound, as, xs, by simp [step, hf, e], r, by simp [hx]⟩
  | some p =>
    have hx : x ∈ xs := by simpa [e] using hsome
    obtain ⟨nx, hp⟩ := addrOf_cell r.chain e
    have hch := r.chain.insertAfter (v := v) r.nodup e hp
    have hlt := r.chain.lt_length
    refine ⟨_, .ok, insAfterAddr p h.length as, _, ?_, ⟨?_, ?_, hch⟩, by simp [hx]⟩
    · simp [step, hf, e, SList.insertAfter, load, hp]
    · rw [head?_insAfterAddr]; exact r.head
    · exact nodup_insAfterAddr r.nodup (fun q => by have := hlt _ q; omega)

/-! ## Replace -/

theorem replaceFirst_not_mem {o n : Int} {xs : List Int} (hx : o ∉ xs) : replaceFirst o n xs = xs := by
  induction xs with
  | nil => rfl
  | cons y ys ih =>
    simp only [List.mem_cons, not_or] at hx
    have : ¬ y = o := fun q => hx.1 q.symm
    simp [replaceFirst, this, ih hx.2]

theorem replaceLoop_chain {h : Heap} {a : Nat} {as : List Nat} {y : Int} {ys : List Int} (o n : Int)
    (hc : Chain h (a :: as) (y :: ys)) (hnd : (a :: as).Nodup) (fuel : Nat) (hf : as.length < fuel) :
    ∃ h', replaceLoop fuel h a o n = .ok (h', if o ∈ y :: ys then .ok else .err) ∧
      Chain h' (a :: as) (replaceFirst o n (y :: ys)) ∧ (∀ c, c ∉ a :: as → h'[c]? = h[c]?) := by
  induction as generalizing a y ys fuel with
  | nil =>
    cases fuel with
    | zero => omega
    | succ f =>
      cases ys with
      | cons _ _ => simp [Chain] at hc
      | nil =>
        have hlt := hc.lt_length
        simp only [Chain] at hc
        by_cases hy : y = o
        · refine ⟨h.set a ⟨n, none⟩, ?_, ?_, ?_⟩
          · simp [replaceLoop, hc.1, hy]
          · simp only [replaceFirst, hy, if_true, Chain]
            exact ⟨List.getElem?_set_self (hlt a (by simp)), trivial⟩
          · intro c hc'
            simp at hc'
            exact List.getElem?_set_ne (fun q => hc' q.symm)
        · have hy' : ¬ o = y := fun q => hy q.symm
          refine ⟨h, ?_, ?_, fun _ _ => rfl⟩
          · simp [replaceLoop, hc.1, hy, hy']
          · simp only [replaceFirst, hy, if_false, Chain]
            exact ⟨hc.1, trivial⟩
  | cons b bs ih =>
    cases fuel with
    | zero => omega
    | succ f =>
      cases ys with
      | nil => simp [Chain] at hc
      | cons z zs =>
        have hlt := hc.lt_length
        have hab := (List.nodup_cons.mp hnd).1
        simp only [Chain] at hc
        by_cases hy : y = o
        · refine ⟨h.set a ⟨n, some b⟩, ?_, ?_, ?_⟩
          · simp [replaceLoop, hc.1, hy]
          · simp only [replaceFirst, hy, if_true]
            simp only [Chain]
            refine ⟨List.getElem?_set_self (hlt a (by simp)), ?_⟩
            have : Chain h (b :: bs) (z :: zs) := by simp only [Chain]; exact hc.2
            have := this.frame (h' := h.set a ⟨n, some b⟩) (fun c hc' =>
              List.getElem?_set_ne (by intro q; subst q; exact hab hc'))
            simpa only [Chain] using this
          · intro c hc'
            simp only [List.mem_cons, not_or] at hc'
            exact List.getElem?_set_ne (fun q => hc'.1 q.symm)
        · have hy' : ¬ o = y := fun q => hy q.symm
          obtain ⟨h', hr, hch, hfr⟩ := ih (a := b) (y := z) (ys := zs)
            (by simp only [Chain]; exact hc.2) (List.nodup_cons.mp hnd).2 f (by simp at hf; omega)
          refine ⟨h', ?_, ?_, ?_⟩
          · simp only [replaceLoop, hc.1, List.head?_cons, hy, if_false, hr]
            simp [hy']
          · simp only [replaceFirst, hy, if_false]
            have h1 : h'[a]? = some ⟨y, some b⟩ := by
              rw [hfr a hab]; simpa using hc.1
            have : Chain h' (a :: b :: bs) (y :: replaceFirst o n (z :: zs)) := by
              cases hq : replaceFirst o n (z :: zs) with
              | nil => rw [hq] at hch; simp [Chain] at hch
              | cons w ws =>
                rw [hq] at hch
                simp only [Chain] at hch ⊢
                exact ⟨h1, hch⟩
            exact this
          · intro c hc'
            simp only [List.mem_cons, not_or] at hc'
            exact hfr c (by simp only [List.mem_cons, not_or]; exact hc'.2)

theorem replace_repr {h : Heap} {as xs} (r : Repr h as xs) (o n : Int) :
    ∃ h' ans xs', replace h o n = .ok (h', ans) ∧ Repr h' as xs' ∧
      (if o ∈ xs then ans = .ok ∧ xs' = replaceFirst o n xs else ans = .err ∧ xs' = xs) := by
  have hlen := r.chain.length_le r.nodup
  obtain ⟨as', x, xs', rfl, rfl, h0, hc, hnot, hnd⟩ := r.cons
  obtain ⟨h', hr, hch, _⟩ := replaceLoop_chain o n r.chain r.nodup (h.length + 1)
    (by simp at hlen; omega)
  by_cases hx : o ∈ x :: xs'
  · exact ⟨h', .ok, _, by simpa [replace, hx] using hr, ⟨r.head, r.nodup, hch⟩, by simp [hx]⟩
  · refine ⟨h', .err, x :: xs', by simpa [replace, hx] using hr, ⟨r.head, r.nodup, ?_⟩, by simp [hx]⟩
    rw [replaceFirst_not_mem hx] at hch
    exact hch

/-! ## Delete -/

theorem deleteLoop_chain {h : Heap} {c : Nat} {r : List Nat} {z : Int} {zs : List Int} {a : Nat}
    (prev0 : Node) (hc : Chain h (c :: r) (z :: zs)) (hnd : (c :: r).Nodup) (ha : a ∈ r)
    (fuel : Nat) (hf : r.length < fuel) :
    ∃ pv, deleteLoop fuel h c a prev0 = .ok (a, ⟨pv, some a⟩) := by
  induction r generalizing c z zs prev0 fuel with
  | nil => simp at ha
  | cons b bs ih =>
    cases fuel with
    | zero => omega
    | succ f =>
      cases zs with
      | nil => simp [Chain] at hc
      | cons y ys =>
        simp only [Chain] at hc
        have hca : c ≠ a := fun q => (List.nodup_cons.mp hnd).1 (q ▸ ha)
        simp only [deleteLoop, hc.1, List.head?_cons, hca, if_false]
        by_cases hba : b = a
        · subst hba
          cases f with
          | zero => simp at hf
          | succ f' =>
            refine ⟨z, ?_⟩
            simp only [deleteLoop, hc.2.1]
            cases bs.head? <;> simp
        · have : a ∈ bs := by
            simp at ha
            rcases ha with q | q
            · exact absurd q.symm hba
            · exact q
          exact ih (c := b) (z := y) (zs := ys) _ (by simp only [Chain]; exact hc.2)
            (List.nodup_cons.mp hnd).2 this f (by simp at hf; omega)

theorem Chain.succ_cell {h : Heap} {as xs} {a s : Nat} {n : Node} (hc : Chain h as xs)
    (ha : a ∈ as) (hn : h[a]? = some n) (hs : n.next = some s) : ∃ sn, h[s]? = some sn := by
  induction as generalizing xs with
  | nil => simp at ha
  | cons b r ih =>
    cases xs with
    | nil => simp [Chain] at hc
    | cons y ys =>
      simp only [Chain] at hc
      by_cases hba : a = b
      · subst hba
        rw [hc.1] at hn
        simp at hn
        subst hn
        simp at hs
        cases r with
        | nil => simp at hs
        | cons s' r' =>
          simp at hs
          subst hs
          cases ys with
          | nil => simp [Chain] at hc
          | cons y' ys' =>
            have := hc.2
            simp only [Chain] at this
            exact ⟨_, this.1⟩
      · simp at ha
        rcases ha with q | q
        · exact absurd q hba
        · exact ih hc.2 q

theorem erase_last {h : Heap} {as xs} {x : Int} {a : Nat} (hc : Chain h as xs)
    (e : addrOf x as xs = some a) (hl : h[a]? = some ⟨x, none⟩) : xs.erase x = xs.dropLast := by
  induction as generalizing xs with
  | nil => simp [addrOf] at e
  | cons b r ih =>
    cases xs with
    | nil => simp [addrOf] at e
    | cons y ys =>
      simp only [Chain] at hc
      simp only [addrOf] at e
      split at e
      · rename_i hy
        simp at e
        subst e; subst hy
        rw [hc.1] at hl
        simp at hl
        cases r with
        | cons _ _ => simp at hl
        | nil =>
          cases ys with
          | cons _ _ => simp [Chain] at hc
          | nil => simp
      · rename_i hy
        have hyx : (y == x) = false := by simpa using hy
        have hne : ys ≠ [] := by
          intro q; subst q
          cases r <;> simp [addrOf] at e
        rw [List.erase_cons, List.dropLast_cons_of_ne_nil hne]
        simp only [hyx, Bool.false_eq_true, if_false]
        rw [ih hc.2 e]

theorem delete_repr {h : Heap} {as xs} (r : Repr h as xs) (x : Int) :
    ∃ h' ans as' xs', step h (.delete x) = .ok (h', ans) ∧ Repr h' as' xs' ∧
      (if x ∈ xs then
        (if xs.length > 1 then ans = .ok ∧ xs' = xs.erase x else ans = .err ∧ xs' = xs)
       else ans = .notFound ∧ xs' = xs) := by
  have hf := find_repr r x
  have hsome := addrOf_isSome (x := x) r.chain.length_eq
  have hlen := r.chain.length_le r.nodup
  cases e : addrOf x as xs with
  | none =>
    have hx : x ∉ xs := by simpa [e] using hsome
    exact ⟨h, .notFound, as, xs, by simp [step, hf, e], r, by simp [hx]⟩
  | some a =>
    have hx : x ∈ xs := by simpa [e] using hsome
    obtain ⟨nx, hp⟩ := addrOf_cell r.chain e
    have ham := addrOf_mem e
    by_cases ha0 : 0 = a
    · subst ha0
      cases nx with
      | none =>
        -- only one element
        obtain ⟨as', y, xs', rfl, rfl, h0, hc, hnot, hnd⟩ := r.cons
        rw [h0] at hp
        simp at hp
        obtain ⟨rfl, hh⟩ := hp
        have : as' = [] := by cases as' <;> simp_all
        subst this
        cases xs' with
        | cons _ _ => simp [Chain] at hc
        | nil =>
          refine ⟨h, .err, _, _, ?_, r, by simp [hx]⟩
          simp [step, hf, e, delete, ListRes.deref, load, h0]
      | some b =>
        obtain ⟨sn, hs⟩ := r.chain.succ_cell ham hp rfl
        have hrep := takeover_repr r e hp hs
        have hl : xs.length > 1 := by
          obtain ⟨as', y, xs', rfl, rfl, h0, hc, hnot, hnd⟩ := r.cons
          rw [h0] at hp
          simp at hp
          cases as' with
          | nil => simp at hp
          | cons _ _ => cases xs' <;> simp_all [Chain]
        refine ⟨h.set 0 sn, .ok, _, _, ?_, hrep, by simp [hx, hl]⟩
        simp [step, hf, e, delete, ListRes.deref, load, hp, hs]
    · obtain ⟨as', y, xs', rfl, rfl, h0, hc, hnot, hnd⟩ := r.cons
      have ha' : a ∈ as' := by
        simp at ham
        rcases ham with q | q
        · exact absurd q.symm ha0
        · exact q
      obtain ⟨pv, hdl⟩ := deleteLoop_chain ⟨0, none⟩ r.chain r.nodup ha' (h.length + 1)
        (by simp at hlen; omega)
      have hl : (y :: xs').length > 1 := by
        have := hc.length_eq
        cases as' with
        | nil => simp at ha'
        | cons _ _ => simp at this ⊢; omega
      cases nx with
      | none =>
        obtain ⟨h', as'', hpop, hrep⟩ := pop_repr r
        rw [if_pos hl, ← erase_last r.chain e hp] at hrep
        refine ⟨h', .ok, _, _, ?_, hrep, by simp only [hx, hl, if_true]; simp⟩
        simp [step, hf, e, delete, ListRes.deref, load, hp, ha0, hdl, hpop]
      | some s =>
        obtain ⟨sn, hs⟩ := r.chain.succ_cell ham hp rfl
        have hrep := takeover_repr r e hp hs
        refine ⟨h.set a sn, .ok, _, _, ?_, hrep, by simp only [hx, hl, if_true]; simp⟩
        simp [step, hf, e, delete, ListRes.deref, load, hp, ha0, hdl, hs]

end GoguVerif.Lemmas.C19.SList
