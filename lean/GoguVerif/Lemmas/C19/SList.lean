import GoguVerif.Model.SList
/-!
# C19 helper lemmas, part 1: the representation relation of `SList` and the pointer walks
-/
namespace GoguVerif.Lemmas.C19

/-- pigeonhole: distinct addresses below `n` are at most `n` many -/
theorem nodup_length_le {as : List Nat} {n : Nat} (hnd : as.Nodup) (hlt : ∀ a ∈ as, a < n) :
    as.length ≤ n := by
  induction n generalizing as with
  | zero =>
    cases as with
    | nil => simp
    | cons a r => exact absurd (hlt a (by simp)) (by omega)
  | succ n ih =>
    by_cases hm : n ∈ as
    · have h1 : (as.erase n).Nodup := hnd.erase n
      have h2 : ∀ a ∈ as.erase n, a < n := by
        intro a ha
        have := (hnd.mem_erase_iff).mp ha
        have := hlt a this.2
        omega
      have := ih h1 h2
      rw [List.length_erase_of_mem hm] at this
      omega
    · have h2 : ∀ a ∈ as, a < n := by
        intro a ha
        have := hlt a ha
        have : a ≠ n := fun e => hm (e ▸ ha)
        omega
      have := ih hnd h2
      omega

theorem set_self {α : Type} {h : List α} {a : Nat} {n : α} (e : h[a]? = some n) : h.set a n = h := by
  have hlt : a < h.length := by
    by_cases hlt : a < h.length
    · exact hlt
    · simp [List.getElem?_eq_none (Nat.le_of_not_lt hlt)] at e
  have : h[a] = n := by
    rw [List.getElem?_eq_getElem hlt] at e
    exact Option.some.inj e
  rw [← this]
  exact List.set_getElem_self hlt

theorem lt_of_get {α : Type} {h : List α} {a : Nat} {n : α} (e : h[a]? = some n) : a < h.length := by
  by_cases hlt : a < h.length
  · exact hlt
  · simp [List.getElem?_eq_none (Nat.le_of_not_lt hlt)] at e

end GoguVerif.Lemmas.C19

namespace GoguVerif.Lemmas.C19.SList
open GoguVerif.Model GoguVerif.Model.SList GoguVerif.Lemmas.C19

/-- Cells `as` spell the sequence `xs`, each linked to the next, the last one to nil. -/
def Chain (h : Heap) : List Nat → List Int → Prop
  | [], [] => True
  | a :: as, x :: xs => h[a]? = some ⟨x, as.head?⟩ ∧ Chain h as xs
  | _, _ => False

/-- **Representation relation**: the store holds the sequence `xs` in the distinct cells `as`,
starting at the embedded head (address 0). -/
structure Repr (h : Heap) (as : List Nat) (xs : List Int) : Prop where
  head : as.head? = some 0
  nodup : as.Nodup
  chain : Chain h as xs

theorem Chain.length_eq {h : Heap} {as xs} (hc : Chain h as xs) : as.length = xs.length := by
  induction as generalizing xs with
  | nil => cases xs <;> simp_all [Chain]
  | cons a as ih =>
    cases xs with
    | nil => simp [Chain] at hc
    | cons x xs => simp only [Chain] at hc; simp [ih hc.2]

theorem Chain.lt_length {h : Heap} {as xs} (hc : Chain h as xs) : ∀ a ∈ as, a < h.length := by
  induction as generalizing xs with
  | nil => simp
  | cons a as ih =>
    cases xs with
    | nil => simp [Chain] at hc
    | cons x xs =>
      simp only [Chain] at hc
      intro b hb
      simp at hb
      rcases hb with rfl | hb
      · exact lt_of_get hc.1
      · exact ih hc.2 b hb

/-- Cells outside the chain do not matter. -/
theorem Chain.frame {h h' : Heap} {as xs}
    (hc : Chain h as xs) (hsame : ∀ a ∈ as, h'[a]? = h[a]?) : Chain h' as xs := by
  induction as generalizing xs with
  | nil => cases xs <;> simp_all [Chain]
  | cons a as ih =>
    cases xs with
    | nil => simp [Chain] at hc
    | cons x xs =>
      simp only [Chain] at hc ⊢
      exact ⟨by rw [hsame a (by simp)]; exact hc.1, ih hc.2 (fun b hb => hsame b (by simp [hb]))⟩

theorem Chain.length_le {h : Heap} {as xs} (hc : Chain h as xs) (hnd : as.Nodup) :
    as.length ≤ h.length :=
  nodup_length_le hnd hc.lt_length

theorem Repr.cons {h : Heap} {as xs} (r : Repr h as xs) :
    ∃ as' x xs', as = 0 :: as' ∧ xs = x :: xs' ∧ h[0]? = some ⟨x, as'.head?⟩ ∧ Chain h as' xs' ∧
      0 ∉ as' ∧ as'.Nodup := by
  obtain ⟨hh, hnd, hc⟩ := r
  cases as with
  | nil => simp at hh
  | cons a as' =>
    simp at hh
    subst hh
    cases xs with
    | nil => simp [Chain] at hc
    | cons x xs' =>
      simp only [Chain] at hc
      exact ⟨as', x, xs', rfl, rfl, hc.1, hc.2, (List.nodup_cons.mp hnd).1, (List.nodup_cons.mp hnd).2⟩

/-! ## walks -/

/-- address of the first cell holding `x` -/
def addrOf (x : Int) : List Nat → List Int → Option Nat
  | a :: as, y :: ys => if y = x then some a else addrOf x as ys
  | _, _ => none

theorem addrOf_isSome {x : Int} {as : List Nat} {xs : List Int} (hl : as.length = xs.length) :
    (addrOf x as xs).isSome = decide (x ∈ xs) := by
  induction as generalizing xs with
  | nil => cases xs <;> simp_all [addrOf]
  | cons a as ih =>
    cases xs with
    | nil => simp at hl
    | cons y ys =>
      simp only [addrOf]
      by_cases e : y = x
      · simp [e]
      · have e' : ¬ x = y := fun q => e q.symm
        simp [e, e', ih (by simpa using hl)]

theorem addrOf_mem {x : Int} {as : List Nat} {xs : List Int} {a : Nat} (e : addrOf x as xs = some a) :
    a ∈ as := by
  induction as generalizing xs with
  | nil => simp [addrOf] at e
  | cons b as ih =>
    cases xs with
    | nil => simp [addrOf] at e
    | cons y ys =>
      simp only [addrOf] at e
      split at e
      · simp at e; simp [e]
      · simp [ih e]

theorem findLoop_chain {h : Heap} {as xs} (x : Int) (hc : Chain h as xs) (fuel : Nat)
    (hf : as.length < fuel) : findLoop fuel h as.head? x = .ok (addrOf x as xs) := by
  induction as generalizing xs fuel with
  | nil =>
    cases fuel with
    | zero => simp at hf
    | succ f => cases xs <;> simp [findLoop, addrOf]
  | cons a as ih =>
    cases fuel with
    | zero => simp at hf
    | succ f =>
      cases xs with
      | nil => simp [Chain] at hc
      | cons y ys =>
        simp only [Chain] at hc
        simp only [List.head?_cons, findLoop, hc.1, addrOf]
        split
        · rfl
        · exact ih hc.2 f (by simp at hf; omega)

theorem lastAddr_chain {h : Heap} {a : Nat} {as : List Nat} {x : Int} {xs : List Int}
    (hc : Chain h (a :: as) (x :: xs)) (fuel : Nat) (hf : as.length < fuel) :
    lastAddr fuel h a = .ok ((a :: as).getLast (by simp)) := by
  induction as generalizing a x xs fuel with
  | nil =>
    cases fuel with
    | zero => omega
    | succ f =>
      simp only [Chain] at hc
      simp [lastAddr, hc.1]
  | cons b bs ih =>
    cases fuel with
    | zero => omega
    | succ f =>
      cases xs with
      | nil => simp [Chain] at hc
      | cons y ys =>
        have hc' := hc
        simp only [Chain] at hc
        simp only [lastAddr, hc.1, List.head?_cons]
        have := ih (a := b) (x := y) (xs := ys) (by simp only [Chain]; exact hc.2) f (by simp at hf; omega)
        simpa using this

/-- `Each`'s loop walks the chain and reports its values. -/
theorem eachLoop_chain {h : Heap} {as xs} (hc : Chain h as xs) (fuel : Nat)
    (hf : as.length < fuel) : eachLoop fuel h as.head? = .ok xs := by
  induction as generalizing xs fuel with
  | nil =>
    cases fuel with
    | zero => simp at hf
    | succ f => cases xs <;> simp_all [eachLoop, Chain]
  | cons a as ih =>
    cases fuel with
    | zero => simp at hf
    | succ f =>
      cases xs with
      | nil => simp [Chain] at hc
      | cons y ys =>
        simp only [Chain] at hc
        simp only [List.head?_cons, eachLoop, hc.1, ih hc.2 f (by simp at hf; omega)]

theorem each_repr {h : Heap} {as xs} (r : Repr h as xs) : each h = .ok (h, xs) := by
  have hlen : as.length < h.length + 1 := by
    have := r.chain.length_le r.nodup
    omega
  have hf := eachLoop_chain r.chain (h.length + 1) hlen
  rw [r.head] at hf
  simp [each, hf]

theorem find_repr {h : Heap} {as xs} (r : Repr h as xs) (x : Int) :
    find h x = .ok (h, addrOf x as xs) := by
  have hlen : as.length < h.length + 1 := by
    have := r.chain.length_le r.nodup
    omega
  have hf := findLoop_chain x r.chain (h.length + 1) hlen
  obtain ⟨as', y, xs', rfl, rfl, h0, hc, hnot, hnd⟩ := r.cons
  simp only [List.head?_cons] at hf
  simp [find, load, h0, hf, set_self h0]

end GoguVerif.Lemmas.C19.SList
