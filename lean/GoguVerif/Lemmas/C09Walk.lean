import GoguVerif.Lemmas.C09Tree
/-!
# C09 helper lemmas, part 3: the walks `collect` (Keys / StartsWith) and `lpLoop` (LongestPrefix)
-/
namespace GoguVerif.Lemmas.C09
open GoguVerif.Spec GoguVerif.Spec.C09 GoguVerif.Model.Trie

/-! ## `collect` -/

/-- `collect` appends the subtree's keys, each prefixed with `pfx`, in in-order, to the queue. -/
theorem collect_spec (n : T) : ∀ (pfx : Key) (q : List Key),
    collect n pfx q = q ++ (ents n).map (fun e => pfx ++ e.1) := by
  induction n with
  | nil => intro pfx q; simp [collect, ents]
  | node c l m r v iv ihl ihm ihr =>
    intro pfx q
    simp only [collect, ihl, ihm, ihr, ents, List.map_append, List.map_map]
    cases iv <;> simp [Function.comp_def, consKey]

/-! ## `Spec.C09.longest` -/

/-- the folding step of `Spec.C09.longest` -/
def lf (q : Key) (best : Key) (e : Key × Int) : Key :=
  if isPrefix e.1 q && best.length < e.1.length then e.1 else best

theorem longest_eq (q : Key) (m : List (Key × Int)) : longest q m = m.foldl (lf q) [] := rfl

theorem foldl_lf_none (q : Key) (X : List (Key × Int)) (h : ∀ e ∈ X, isPrefix e.1 q = false) :
    ∀ b, X.foldl (lf q) b = b := by
  induction X with
  | nil => intro b; rfl
  | cons e X' ih =>
    intro b
    have he := h e (by simp)
    simp only [List.foldl_cons, lf, he, Bool.false_and, Bool.false_eq_true, if_false]
    exact ih (fun e he => h e (by simp [he])) b

theorem foldl_lf_map_cons (c : UInt8) (qs : Key) (M : List (Key × Int)) :
    ∀ b, (M.map (consKey c)).foldl (lf (c :: qs)) (c :: b) = c :: M.foldl (lf qs) b := by
  induction M with
  | nil => intro b; rfl
  | cons e M' ih =>
    intro b
    simp only [List.map_cons, List.foldl_cons, lf, consKey_fst, isPrefix_cons_cons, beq_self_eq_true,
      Bool.true_and, List.length_cons, Nat.add_lt_add_iff_right]
    split
    · exact ih e.1
    · exact ih b

/-- `[] ↦ []`, `r ↦ c :: r` -/
def consNe (c : UInt8) : Key → Key
  | [] => []
  | r => c :: r

theorem foldl_lf_map_cons_nil (c : UInt8) (qs : Key) (M : List (Key × Int))
    (hM : ∀ e ∈ M, e.1 ≠ []) :
    ∀ b, (M.map (consKey c)).foldl (lf (c :: qs)) (consNe c b) = consNe c (M.foldl (lf qs) b) := by
  induction M with
  | nil => intro b; rfl
  | cons e M' ih =>
    intro b
    have he : e.1 ≠ [] := hM e (by simp)
    have ih' := ih (fun e he => hM e (by simp [he]))
    simp only [List.map_cons, List.foldl_cons]
    have : lf (c :: qs) (consNe c b) (consKey c e) = consNe c (lf qs b e) := by
      simp only [lf, consKey_fst, isPrefix_cons_cons, beq_self_eq_true, Bool.true_and, List.length_cons]
      cases b with
      | nil =>
        have hpos : 0 < e.1.length := List.length_pos_iff.mpr he
        simp only [consNe, List.length_nil, Nat.zero_lt_succ, hpos, decide_true, Bool.and_true]
        split
        · cases hk : e.1 with
          | nil => exact absurd hk he
          | cons a t => rfl
        · rfl
      | cons b0 b' =>
        simp only [consNe, List.length_cons, Nat.add_lt_add_iff_right]
        split
        · cases hk : e.1 with
          | nil => exact absurd hk he
          | cons a t => rfl
        · rfl
    rw [this]; exact ih' _

/-- the result of the fold is the start value or a stored key that is a prefix of `q` -/
theorem foldl_lf_result (q : Key) (X : List (Key × Int)) :
    ∀ b, X.foldl (lf q) b = b ∨ ∃ e ∈ X, X.foldl (lf q) b = e.1 ∧ isPrefix e.1 q = true := by
  induction X with
  | nil => intro b; left; rfl
  | cons e X' ih =>
    intro b
    simp only [List.foldl_cons]
    by_cases hc : (isPrefix e.1 q && decide (b.length < e.1.length)) = true
    · have hl : lf q b e = e.1 := by simp only [lf, hc, if_true]
      rw [hl]
      rcases ih e.1 with h | ⟨e', he', h1, h2⟩
      · right; refine ⟨e, by simp, h, ?_⟩
        simp only [Bool.and_eq_true] at hc; exact hc.1
      · right; exact ⟨e', by simp [he'], h1, h2⟩
    · have hl : lf q b e = b := by simp only [lf, hc]; rfl
      rw [hl]
      rcases ih b with h | ⟨e', he', h1, h2⟩
      · left; exact h
      · right; exact ⟨e', by simp [he'], h1, h2⟩

theorem longest_take (q : Key) (m : List (Key × Int)) :
    longest q m = q.take (longest q m).length := by
  rcases foldl_lf_result q m [] with h | ⟨e, _, h1, h2⟩
  · rw [longest_eq, h]; rfl
  · rw [longest_eq, h1]; exact isPrefix_eq_take e.1 q h2

/-! ## `lpLoop` -/

theorem no_prefix_of_heads_ne (n : T) (c : UInt8) (qs : Key) (h : ∀ b ∈ heads n, b ≠ c) :
    ∀ e ∈ ents n, isPrefix e.1 (c :: qs) = false := by
  intro e he
  obtain ⟨b, t, h1, h2⟩ := ents_head n e he
  rw [h1]; simp [h b h2]

/-- The loop of `LongestPrefix` started at index `i` with `length = len` ends with
`i + |longest stored prefix of query[i:] below x|`, or with `len` unchanged if there is none. -/
theorem lpLoop_spec (q : Key) (n : T) : ∀ (i len : Nat), Ord n →
    lpLoop n q i len =
      (if longest (q.drop i) (ents n) = [] then len else i + (longest (q.drop i) (ents n)).length) := by
  induction n with
  | nil => intro i len _; simp [lpLoop, ents, longest]
  | node xc l m r v iv ihl ihm ihr =>
    intro i len ho
    obtain ⟨hol, hor, hl, hm, hr⟩ := ho
    cases hd : q.drop i with
    | nil =>
      have hnone : q[i]? = none := by
        rw [List.getElem?_eq_none_iff]; exact List.drop_eq_nil_iff.mp hd
      have : longest [] (ents (T.node xc l m r v iv)) = [] := by
        rw [longest_eq]
        apply foldl_lf_none
        intro e he
        have := ents_ne_nil _ e he
        cases hk : e.1 with
        | nil => exact absurd hk this
        | cons a t => rfl
      simp [lpLoop, hnone, this]
    | cons c qs =>
      obtain ⟨hget, hdrop, _, _⟩ := drop_cons_facts hd
      simp only [lpLoop, hget]
      have hV : ∀ b : UInt8, b ≠ c → ∀ e ∈ (if iv = true then [([b], v)] else []),
          isPrefix e.1 (c :: qs) = false := by
        intro b hb e he
        cases iv with
        | false => simp at he
        | true => simp only [if_true, List.mem_singleton] at he; subst he; simp [hb]
      have hM : ∀ b : UInt8, b ≠ c → ∀ e ∈ (ents m).map (consKey b),
          isPrefix e.1 (c :: qs) = false := by
        intro b hb e he
        simp only [List.mem_map] at he
        obtain ⟨e', _, rfl⟩ := he
        simp [hb]
      by_cases h1 : c < xc
      · have hne : xc ≠ c := Ne.symm (byte_ne_of_lt h1)
        have hR := no_prefix_of_heads_ne r c qs
          (fun b hb => Ne.symm (byte_ne_of_lt (UInt8.lt_trans h1 (hor b hb))))
        have : longest (c :: qs) (ents (T.node xc l m r v iv)) = longest (c :: qs) (ents l) := by
          simp only [longest_eq, ents, List.foldl_append]
          rw [foldl_lf_none _ _ (hV xc hne), foldl_lf_none _ _ (hM xc hne), foldl_lf_none _ _ hR]
        simp only [h1, if_true, this]
        rw [ihl i len hl, hd]
      · by_cases h2 : c > xc
        · have hne : xc ≠ c := byte_ne_of_lt h2
          have hL := no_prefix_of_heads_ne l c qs
            (fun b hb => byte_ne_of_lt (UInt8.lt_trans (hol b hb) h2))
          have : longest (c :: qs) (ents (T.node xc l m r v iv)) = longest (c :: qs) (ents r) := by
            simp only [longest_eq, ents, List.foldl_append]
            rw [foldl_lf_none _ _ hL, foldl_lf_none _ _ (hV xc hne), foldl_lf_none _ _ (hM xc hne)]
          simp only [h1, h2, if_true, if_false, this]
          rw [ihr i len hr, hd]
        · have hc : c = xc := byte_eq_of_not_lt h1 h2
          subst hc
          have hL := no_prefix_of_heads_ne l c qs (fun b hb => byte_ne_of_lt (hol b hb))
          have hR := no_prefix_of_heads_ne r c qs (fun b hb => Ne.symm (byte_ne_of_lt (hor b hb)))
          simp only [h1, if_false]
          rw [ihm (i + 1) _ hm, hdrop]
          cases iv with
          | true =>
            have : longest (c :: qs) (ents (T.node c l m r v true)) = c :: longest qs (ents m) := by
              simp only [longest_eq, ents, List.foldl_append, if_true]
              rw [foldl_lf_none _ _ hL]
              have h0 : [([c], v)].foldl (lf (c :: qs)) [] = c :: [] := by simp [lf]
              rw [h0, foldl_lf_map_cons, foldl_lf_none _ _ hR]
            rw [this]
            simp only [if_true, List.length_cons]
            split <;> simp_all <;> omega
          | false =>
            have : longest (c :: qs) (ents (T.node c l m r v false)) = consNe c (longest qs (ents m)) := by
              simp only [longest_eq, ents, List.foldl_append, Bool.false_eq_true, if_false,
                List.foldl_nil]
              rw [foldl_lf_none _ _ hL]
              have h3 : ((ents m).map (consKey c)).foldl (lf (c :: qs)) [] =
                  consNe c ((ents m).foldl (lf qs) []) :=
                foldl_lf_map_cons_nil c qs (ents m) (ents_ne_nil m) []
              rw [h3, foldl_lf_none _ _ hR]
            rw [this]
            simp only [Bool.false_eq_true, if_false]
            cases hlm : longest qs (ents m) with
            | nil => simp [consNe]
            | cons a t => simp [consNe]; omega

/-! ## the entries of an ordered tree are strictly increasing -/

theorem sorted_append (A B : List (Key × Int)) :
    OrdMap.Sorted lexLt (A ++ B) ↔
      OrdMap.Sorted lexLt A ∧ OrdMap.Sorted lexLt B ∧ ∀ a ∈ A, ∀ b ∈ B, lexLt a.1 b.1 = true := by
  induction A with
  | nil => simp [OrdMap.Sorted]
  | cons a A' ih =>
    obtain ⟨k, v⟩ := a
    simp only [List.cons_append, OrdMap.Sorted, ih, List.mem_append, List.mem_cons]
    constructor
    · rintro ⟨h1, h2, h3, h4⟩
      refine ⟨⟨fun e he => h1 e (Or.inl he), h2⟩, h3, ?_⟩
      rintro a (rfl | ha) b hb
      · exact h1 b (Or.inr hb)
      · exact h4 a ha b hb
    · rintro ⟨⟨h1, h2⟩, h3, h4⟩
      refine ⟨?_, h2, h3, fun a ha b hb => h4 a (Or.inr ha) b hb⟩
      rintro e (he | he)
      · exact h1 e he
      · exact h4 (k, v) (Or.inl rfl) e he

theorem sorted_map_consKey (c : UInt8) (M : List (Key × Int)) (h : OrdMap.Sorted lexLt M) :
    OrdMap.Sorted lexLt (M.map (consKey c)) := by
  induction M with
  | nil => trivial
  | cons e M' ih =>
    obtain ⟨k, v⟩ := e
    obtain ⟨h1, h2⟩ := h
    refine ⟨?_, ih h2⟩
    intro e he
    simp only [List.mem_map] at he
    obtain ⟨e', he', rfl⟩ := he
    simpa [consKey] using h1 e' he'

/-- In a tree satisfying the byte order, the in-order entries are strictly increasing in
byte-lexicographic order (for ANY such tree, reached by a history or not). -/
theorem ents_sorted (n : T) : Ord n → OrdMap.Sorted lexLt (ents n) := by
  induction n with
  | nil => intro _; trivial
  | node c l m r v iv ihl ihm ihr =>
    rintro ⟨hol, hor, hl, hm, hr⟩
    have hMk : ∀ e ∈ (ents m).map (consKey c), ∃ k, k ≠ [] ∧ e.1 = c :: k := by
      intro e he
      simp only [List.mem_map] at he
      obtain ⟨e', he', rfl⟩ := he
      exact ⟨e'.1, ents_ne_nil m e' he', rfl⟩
    have hVk : ∀ e ∈ (if iv = true then [([c], v)] else []), e.1 = [c] := by
      intro e he
      cases iv with
      | false => simp at he
      | true => simp only [if_true, List.mem_singleton] at he; subst he; rfl
    simp only [ents, sorted_append]
    refine ⟨ihl hl, ⟨?_, ⟨sorted_map_consKey c _ (ihm hm), ihr hr, ?_⟩, ?_⟩, ?_⟩
    · cases iv <;> simp [OrdMap.Sorted]
    · -- mid < right
      intro a ha b hb
      obtain ⟨k, _, hk⟩ := hMk a ha
      rw [hk]; exact ents_gt_of_heads_gt r c k hor b hb
    · -- own key < mid, right
      intro a ha b hb
      rw [hVk a ha]
      simp only [List.mem_append] at hb
      rcases hb with hb | hb
      · obtain ⟨k, hne, hk⟩ := hMk b hb
        rw [hk]
        cases k with
        | nil => exact absurd rfl hne
        | cons x t => simp
      · exact ents_gt_of_heads_gt r c [] hor b hb
    · -- left < everything else
      intro a ha b hb
      simp only [List.mem_append] at hb
      rcases hb with hb | hb | hb
      · rw [hVk b hb]; exact (ents_lt_of_heads_lt l c [] hol a ha).1
      · obtain ⟨k, _, hk⟩ := hMk b hb
        rw [hk]; exact (ents_lt_of_heads_lt l c k hol a ha).1
      · obtain ⟨b', k', hk', hb'⟩ := ents_head r b hb
        rw [hk']
        exact (ents_lt_of_heads_lt l b' k' (fun x hx => UInt8.lt_trans (hol x hx) (hor b' hb')) a ha).1

end GoguVerif.Lemmas.C09
