import GoguVerif.Lemmas.C10
/-!
# C10 helper lemmas, part 3: `BTree` (`Put`, `Remove`, `Get`, `Height` on the whole tree)
-/
namespace GoguVerif.Lemmas.C10
open GoguVerif GoguVerif.Model.BTree GoguVerif.Spec
open GoguVerif.Gen (maxChildren)

/-- the abstraction: the sorted association list with tombstones held by the tree -/
abbrev tflat (t : Tree) : List Entry := flat t.height t.root

/-- Representation invariant of a `BTree`. -/
structure Inv (t : Tree) : Prop where
  /-- node fill, separators, uniform depth -/
  node : NodeInv t.height t.root
  /-- keys strictly ascending left to right -/
  sorted : SortedK (tflat t)
  /-- `n` counts the live entries -/
  count : t.n = (live (tflat t)).length

theorem inv_new : Inv Tree.new :=
  ⟨by show (0 : Nat) < maxChildren; have := maxChildren_even; have := half_ge_two; omega, List.Pairwise.nil, rfl⟩

theorem get_spec (t : Tree) (hi : Inv t) (k : Int) : t.get k = searchLeaf k (tflat t) :=
  search_spec k t.height t.root hi.node hi.sorted

theorem get_eq_lookup (t : Tree) (hi : Inv t) (k : Int) : t.get k = OrdMap.lookup C10.ltb k (live (tflat t)) := by
  rw [get_spec t hi, searchLeaf_eq_lookup k _ hi.sorted]

/-- `Put` never panics, keeps the invariant and is `insFlat … false` on the flat list. -/
theorem put_spec (t : Tree) (hi : Inv t) (k v : Int) :
    ∃ t', t.put k v = .ok t' ∧ Inv t' ∧ tflat t' = insFlat k v false (tflat t) := by
  obtain ⟨r, ou, h1, h2, h3, _, h5⟩ := insert_spec k v false t.height t.root hi.node hi.sorted
  have hsorted' : SortedK (insFlat k v false (tflat t)) := hi.sorted.insFlat k v false
  have hcount : (match t.get k with | none => t.n + 1 | some _ => t.n)
      = ((live (insFlat k v false (tflat t))).length : Int) := by
    rw [live_insFlat_put k v _ hi.sorted, length_insert, get_eq_lookup t hi k, hi.count]
    cases OrdMap.lookup C10.ltb k (live (tflat t)) <;> simp
  cases ou with
  | none =>
    have hflat : flat t.height r = insFlat k v false (tflat t) := by simpa [oflat] using h2
    refine ⟨⟨t.height, r, (match t.get k with | none => t.n + 1 | some _ => t.n)⟩, by simp [Tree.put, h1] <;> rfl, ⟨h3, ?_, ?_⟩, hflat⟩
    · show SortedK (flat t.height r); rw [hflat]; exact hsorted'
    · show _ = ((live (flat t.height r)).length : Int); rw [hflat]; exact hcount
  | some u =>
    obtain ⟨hu, hr2, hu2, huk, _⟩ := h5 u rfl
    have hflat : flat (t.height + 1) ([(firstKey t.height r, r), (firstKey t.height u, u)] : List (Int × BNode t.height))
        = insFlat k v false (tflat t) := by
      rw [← h2]; simp [flat, oflat]
    refine ⟨⟨t.height + 1, ([(firstKey t.height r, r), (firstKey t.height u, u)] : List (Int × BNode t.height)),
        (match t.get k with | none => t.n + 1 | some _ => t.n)⟩,
      by simp [Tree.put, h1] <;> rfl, ⟨?_, ?_, ?_⟩, hflat⟩
    · have hM := maxChildren_even
      have hH := half_ge_two
      refine ⟨by show 2 < maxChildren; omega, by show 2 ≤ 2; omega, ?_, ?_⟩
      · intro p hp
        simp only [List.mem_cons, List.not_mem_nil, or_false] at hp
        rcases hp with rfl | rfl
        · exact ⟨h3, by simp only; omega⟩
        · exact ⟨hu, by simp only; omega⟩
      · intro p hp
        simp only [List.tail_cons, List.mem_cons, List.not_mem_nil, or_false] at hp
        subst hp; exact huk
    · show SortedK (flat (t.height + 1) _); rw [hflat]; exact hsorted'
    · show _ = ((live (flat (t.height + 1) _)).length : Int); rw [hflat]; exact hcount

/-- `Remove` never panics, keeps the invariant, and tombstones the key if it is live (else nothing). -/
theorem remove_spec (t : Tree) (hi : Inv t) (k : Int) :
    ∃ t', t.remove k = .ok t' ∧ Inv t' ∧ t'.height = t.height ∧
      tflat t' = (match t.get k with
        | none => tflat t
        | some val => insFlat k val true (tflat t)) := by
  cases hget : t.get k with
  | none => exact ⟨t, by simp [Tree.remove, hget], hi, rfl, rfl⟩
  | some val =>
    have hget' : searchLeaf k (tflat t) = some val := by rw [← get_spec t hi]; exact hget
    obtain ⟨r, ou, h1, h2, h3, _, h5⟩ := insert_spec k val true t.height t.root hi.node hi.sorted
    have hlen := length_insFlat_old k val true _ hi.sorted (mem_keys_of_searchLeaf hget')
    cases ou with
    | some u =>
      exfalso
      obtain ⟨_, _, _, _, hl⟩ := h5 u rfl
      have := congrArg List.length h2
      simp only [oflat, List.length_append] at this
      unfold tflat at hlen
      omega
    | none =>
      have hflat : flat t.height r = insFlat k val true (tflat t) := by simpa [oflat] using h2
      refine ⟨⟨t.height, r, t.n - 1⟩, by simp [Tree.remove, hget, h1], ⟨h3, ?_, ?_⟩, rfl, hflat⟩
      · show SortedK (flat t.height r); rw [hflat]; exact hi.sorted.insFlat k val true
      · show t.n - 1 = ((live (flat t.height r)).length : Int)
        rw [hflat, live_insFlat_remove k val val _ hi.sorted hget', hi.count]
        have := length_erase k val (live (tflat t)) (by rw [← searchLeaf_eq_lookup k _ hi.sorted]; exact hget')
        omega

/-- The fill invariant bounds the height: a tree of height `h > 0` holds at least `2^(h+1)` entries. -/
theorem height_strong (t : Tree) (hi : Inv t) (hpos : 0 < t.height) : 2 ^ (t.height + 1) ≤ (tflat t).length := by
  obtain ⟨h, root, n⟩ := t
  cases h with
  | zero => exact absurd hpos (by simp)
  | succ h =>
    have hn : NodeInv (h + 1) root := hi.node
    exact flat_length_ge (h + 1) root hn hn.2.1

theorem height_le (t : Tree) (hi : Inv t) : 2 ^ t.height ≤ max 1 (tflat t).length := by
  by_cases hpos : 0 < t.height
  · have := height_strong t hi hpos
    have h2 : 2 ^ (t.height + 1) = 2 * 2 ^ t.height := by rw [Nat.pow_succ]; omega
    omega
  · have : t.height = 0 := by omega
    rw [this]; simp; omega

end GoguVerif.Lemmas.C10
