import GoguVerif.Model.StoreHelpers3
import GoguVerif.Lemmas.C16Helpers
import GoguVerif.Lemmas.C14
/-!
# Lemmas for the store-level models of `heap.FromSlice`, `heap.Sort`, `Omit`, `OmitBy` (C16)

* `Step σ σ' s`: what a run of an in-place helper on `s` is — `InPlace σ σ' s`, the elements of `s` are
  permuted, and `σ'` is reached from `σ` by indexed writes through the one register holding `s`
  (`Model.Store.runInPlace`).  Reflexive, transitive; every `swap(data, i, j)` that does not panic is one.
* the loops of `heap.FromSlice` / `heap.Sort` are compositions of swaps on `data`: every run that ends is
  a `Step` — for an ARBITRARY comparator and whatever the inner loop leaves in the outer loop variable.
* map store: `mdelete` touches one map object; the `Omit` / `OmitBy` loops, for every visiting order.
Core Lean only.
-/
set_option autoImplicit false
namespace GoguVerif.Lemmas.C16Helpers3
open GoguVerif Model.Store Model.StoreHelpers Model.StoreHelpers3 Lemmas.C16Helpers

/-! ## swaps -/

/-- exchanging two positions of a list permutes it -/
theorem set_set_perm (l : List Int) (i j : Nat) (hi : i < l.length) (hj : j < l.length) :
    ((l.set i l[j]).set j l[i]).Perm l := by
  have h := Array.swap_perm (xs := l.toArray) (i := i) (j := j) (by simpa using hi) (by simpa using hj)
  rw [Array.perm_iff_toList_perm] at h
  simpa [Array.swap_def] using h

theorem read_some_lt {σ : Store} {s : Slice} {i : Nat} {v : Int} (h : Model.Store.read σ s i = some v) :
    i < s.len := by
  unfold Model.Store.read at h
  split at h
  · assumption
  · cases h

/-! ## `runInPlace`: sequences of writes through one register -/

theorem runInPlace_none (m : Machine) (r : Nat) (ws : List (Nat × Int)) (h : m.regs[r]? = none) :
    runInPlace m r ws = m := by
  cases ws with
  | nil => rfl
  | cons w ws => obtain ⟨i, v⟩ := w; simp only [runInPlace, h]

theorem runInPlace_append (m : Machine) (r : Nat) (ws ws' : List (Nat × Int)) :
    runInPlace m r (ws ++ ws') = runInPlace (runInPlace m r ws) r ws' := by
  induction ws generalizing m with
  | nil => rfl
  | cons w ws ih =>
    obtain ⟨i, v⟩ := w
    cases hr : m.regs[r]? with
    | none => simp only [List.cons_append, runInPlace, hr]; exact (runInPlace_none m r ws' hr).symm
    | some s =>
      simp only [List.cons_append, runInPlace, hr]
      cases Model.Store.write m.σ s i v with
      | none => exact ih m
      | some σ' => exact ih _

/-! ## `Step` -/

/-- a run of an in-place helper on `s` -/
structure Step (σ σ' : Store) (s : Slice) : Prop where
  inplace : InPlace σ σ' s
  perm : (elems σ' s).Perm (elems σ s)
  writes : ∀ (regs : List Slice) (r : Nat), regs[r]? = some s →
    ∃ ws, runInPlace { σ := σ, regs := regs } r ws = { σ := σ', regs := regs }

theorem Step.refl (σ : Store) (s : Slice) : Step σ σ s :=
  ⟨InPlace.refl σ s, List.Perm.refl _, fun _ _ _ => ⟨[], rfl⟩⟩

theorem Step.trans {σ σ1 σ2 : Store} {s : Slice} (h1 : Step σ σ1 s) (h2 : Step σ1 σ2 s) : Step σ σ2 s := by
  refine ⟨InPlace.trans h1.inplace h2.inplace rfl (Nat.le_refl _) (Nat.le_refl _), h2.perm.trans h1.perm, ?_⟩
  intro regs r hr
  obtain ⟨ws1, e1⟩ := h1.writes regs r hr
  obtain ⟨ws2, e2⟩ := h2.writes regs r hr
  exact ⟨ws1 ++ ws2, by rw [runInPlace_append, e1, e2]⟩

theorem Step.wf {σ σ' : Store} {s : Slice} (h : Step σ σ' s) (hw : WF σ s) : WF σ' s := InPlace.keep h.inplace hw

/-- `data[i], data[j] = data[j], data[i]` that does not panic -/
theorem swapStore_step {σ σ' : Store} {s : Slice} (h : WF σ s) {i j : Nat} (hs : swapStore σ s i j = some σ') :
    Step σ σ' s := by
  have hij : i < s.len ∧ j < s.len := by
    unfold swapStore at hs
    split at hs
    · rename_i a b ha hb; exact ⟨read_some_lt ha, read_some_lt hb⟩
    · cases hs
  obtain ⟨σ'', h1, h2, h3⟩ := swapStore_spec h hij.1 hij.2
  rw [hs] at h1; cases h1
  have hlen := elems_length h
  refine ⟨h3, ?_, ?_⟩
  · rw [Lemmas.C12.swapAt_ok _ _ _ (by omega) (by omega)] at h2
    injection h2 with h2
    rw [← h2]; exact set_set_perm _ _ _ _ _
  · intro regs r hr
    unfold swapStore at hs
    split at hs
    · rename_i a b ha hb
      split at hs
      · rename_i σa hwa
        exact ⟨[(i, b), (j, a)], by simp only [runInPlace, hr, hwa, hs]⟩
      · cases hs
    · cases hs

theorem swapI_step {σ σ' : Store} {s : Slice} (h : WF σ s) {i j : Int} (hs : swapI σ s i j = some σ') :
    Step σ σ' s := by
  unfold swapI at hs
  split at hs
  · exact swapStore_step h hs
  · cases hs

/-! ## heap.FromSlice -/

/-- every run of the inner loop that ends (for any comparator, from any `i`) -/
theorem siftLoop_step (comp : Int → Int → Bool) {data : Slice} (f : Nat) (i : Int) (σ : Store) (h : WF σ data)
    {σ' : Store} {i' : Int} (hr : siftLoop comp data f i σ = some (σ', i')) : Step σ σ' data := by
  induction f generalizing i σ with
  | zero => simp [siftLoop] at hr
  | succ f ih =>
    simp only [siftLoop] at hr
    split at hr
    · cases hr; exact Step.refl _ _
    · split at hr
      · cases hr
      · rename_i c hc
        split at hr
        · cases hr
        · split at hr
          · cases hr
          · rename_i σ1 hsw
            have s1 := swapI_step h hsw
            exact s1.trans (ih _ σ1 (s1.wf h) hr)
        · cases hr; exact Step.refl _ _

/-- every run of the outer loop that ends -/
theorem fromSliceLoop_step (comp : Int → Int → Bool) {data : Slice} (f n : Nat) (i : Int) (σ : Store)
    (h : WF σ data) {σ' : Store} (hr : fromSliceLoop comp data f n i σ = some σ') : Step σ σ' data := by
  induction n generalizing i σ with
  | zero =>
    simp only [fromSliceLoop] at hr
    split at hr
    · cases hr
    · cases hr; exact Step.refl _ _
  | succ n ih =>
    simp only [fromSliceLoop] at hr
    split at hr
    · split at hr
      · cases hr
      · rename_i σ1 i1 hs
        have s1 := siftLoop_step comp f i σ h hs
        exact s1.trans (ih _ σ1 (s1.wf h) hr)
    · cases hr; exact Step.refl _ _

/-! ## heap.Sort -/

theorem moveDownStore_step (comp : Int → Int → Bool) {data : Slice} (f : Nat) (n i : Int) (σ : Store)
    (h : WF σ data) {σ' : Store} (hr : moveDownStore comp data f n i σ = some σ') : Step σ σ' data := by
  induction f generalizing i σ with
  | zero => simp [moveDownStore] at hr
  | succ f ih =>
    simp only [moveDownStore] at hr
    split at hr
    · cases hr
    · split at hr
      · cases hr
      · rename_i _ c1 _ _ c2 _
        generalize (if c2 = true then 2 * i + 2 else if c1 = true then 2 * i + 1 else i) = current at hr
        split at hr
        · split at hr
          · cases hr
          · rename_i σ1 hsw
            have s1 := swapI_step h hsw
            exact s1.trans (ih _ σ1 (s1.wf h) hr)
        · cases hr; exact Step.refl _ _

theorem sortLoop_step (comp : Int → Int → Bool) {data : Slice} (f k : Nat) (σ : Store)
    (h : WF σ data) {σ' : Store} (hr : sortLoop comp data f k σ = some σ') : Step σ σ' data := by
  induction k generalizing σ with
  | zero => simp only [sortLoop] at hr; cases hr; exact Step.refl _ _
  | succ k ih =>
    simp only [sortLoop] at hr
    split at hr
    · cases hr
    · rename_i σ1 hsw
      have s1 := swapI_step h hsw
      split at hr
      · cases hr
      · rename_i σ2 hmd
        have s2 := moveDownStore_step comp f _ 0 σ1 (s1.wf h) hmd
        exact (s1.trans s2).trans (ih σ2 ((s1.trans s2).wf h) hr)

/-- `heap.GetValues()` never panics: a fresh array showing what `data` shows; every array that existed is
unchanged -/
theorem getValuesStore_spec {σ : Store} {data : Slice} (h : WF σ data) :
    ∃ σ' res, getValuesStore σ data = some (σ', res) ∧ elems σ' res = elems σ data ∧ Frame σ σ' ∧
      res.arr = σ.length ∧ σ'.length = σ.length + 1 ∧ WF σ' res ∧ res.len = data.len := by
  have i0 := Inv.alloc σ data.len data.len
  have hlen := elems_length h
  have hsrc := (i0.arg h).2.2
  obtain ⟨σ1, w1, e1, p1⟩ := writeAll_spec i0.wf (elems σ data) 0 (by rw [hlen]; exact Nat.le_of_eq (Nat.zero_add _))
  have i1 := i0.inplace p1
  have hcopy : copyStore (alloc σ data.len data.len).1 (alloc σ data.len data.len).2 data = some σ1 := by
    unfold copyStore
    rw [hsrc, show (alloc σ data.len data.len).2.len = data.len from rfl,
      List.take_of_length_le (Nat.le_of_eq hlen)]
    exact w1
  refine ⟨σ1, (alloc σ data.len data.len).2, by simp only [getValuesStore, hcopy], ?_, i1.frame, rfl, ?_, i1.wf, rfl⟩
  · rw [e1, (alloc_spec σ data.len data.len).2.1]
    simp [hlen]
  · rw [p1.1]; simp [alloc]

/-! ## the map store -/

theorem mget_mdelete_same (μ : MStore) (id : Nat) (k : Int) :
    mget (mdelete μ id k) id = Model.C14.del (mget μ id) k := by
  unfold mget mdelete
  rw [List.getElem?_modify]
  cases μ[id]? with
  | none => simp [Model.C14.del]
  | some m => simp

theorem mdelete_other (μ : MStore) (id j : Nat) (k : Int) (h : j ≠ id) : (mdelete μ id k)[j]? = μ[j]? := by
  unfold mdelete
  rw [List.getElem?_modify]
  simp [Ne.symm h]

theorem mdelete_length (μ : MStore) (id : Nat) (k : Int) : (mdelete μ id k).length = μ.length := by
  simp [mdelete]

/-- `delete(m, k)` on a map (keys pairwise distinct) removes exactly the entries with key `k` -/
theorem del_eq_filter {m : List (Int × Int)} (h : Spec.C14.WF m) (k : Int) :
    Model.C14.del m k = m.filter (fun e => !decide (e.1 = k)) := by
  induction m with
  | nil => simp [Model.C14.del]
  | cons e m ih =>
    obtain ⟨k', v'⟩ := e
    rw [Lemmas.C14.wf_cons] at h
    by_cases hk : k' = k
    · subst hk
      have hself : m.filter (fun e => !decide (e.1 = k')) = m := by
        rw [List.filter_eq_self]
        intro e he
        have : e.1 ≠ k' := fun heq => h.1 (heq ▸ List.mem_map_of_mem he)
        simp [this]
      simp [Model.C14.del, hself]
    · simp [Model.C14.del, hk, ih h.2]

/-- in a map (keys pairwise distinct) the key determines the entry -/
theorem wf_unique {m : List (Int × Int)} (h : Spec.C14.WF m) {e e' : Int × Int} (he : e ∈ m) (he' : e' ∈ m)
    (hk : e.1 = e'.1) : e = e' := by
  induction m with
  | nil => cases he
  | cons x m ih =>
    rw [Lemmas.C14.wf_cons] at h
    rcases List.mem_cons.mp he with rfl | he1 <;> rcases List.mem_cons.mp he' with rfl | he1'
    · rfl
    · exact absurd (hk ▸ List.mem_map_of_mem he1') h.1
    · exact absurd (hk ▸ List.mem_map_of_mem he1) h.1
    · exact ih h.2 he1 he1'

theorem present_of_mem {μ : MStore} {id : Nat} {k v : Int} (h : (k, v) ∈ mget μ id) : present μ id k = true := by
  unfold present
  generalize mget μ id = m at h
  induction m with
  | nil => cases h
  | cons e m ih =>
    obtain ⟨k', v'⟩ := e
    by_cases hk : k' = k
    · simp [Model.C14.get?, hk]
    · simp only [Model.C14.get?, if_neg hk]
      rcases List.mem_cons.mp h with h | h
      · cases h; exact absurd rfl hk
      · exact ih h

/-- the loop of `OmitBy` for ANY list `it` of distinct-keyed entries of the current map still to visit: only
map `id` changes, and it loses exactly the entries of `it` that `fn` selects -/
theorem omitByLoopM_spec (fn : Int → Int → Bool) (id : Nat) (it : List (Int × Int)) (μ : MStore)
    (hwf : Spec.C14.WF (mget μ id)) (hnd : Spec.C14.WF it) (hsub : ∀ e ∈ it, e ∈ mget μ id) :
    mget (omitByLoopM fn id it μ) id = (mget μ id).filter (fun e => !(decide (e ∈ it) && fn e.1 e.2)) ∧
    (omitByLoopM fn id it μ).length = μ.length ∧ ∀ j, j ≠ id → (omitByLoopM fn id it μ)[j]? = μ[j]? := by
  induction it generalizing μ with
  | nil =>
    refine ⟨?_, rfl, fun _ _ => rfl⟩
    simp only [omitByLoopM]
    exact (List.filter_eq_self.mpr (by simp)).symm
  | cons e r ih =>
    obtain ⟨k, v⟩ := e
    rw [Lemmas.C14.wf_cons] at hnd
    have hkv : (k, v) ∈ mget μ id := hsub _ (List.mem_cons_self ..)
    have hpres := present_of_mem hkv
    have huniq : ∀ e ∈ mget μ id, e.1 = k → e = (k, v) := by
      intro e he hek
      exact wf_unique hwf he hkv hek
    simp only [omitByLoopM, hpres, if_true]
    by_cases hf : fn k v = true
    · simp only [hf, if_true]
      have hm1 : mget (mdelete μ id k) id = (mget μ id).filter (fun e => !decide (e.1 = k)) := by
        rw [mget_mdelete_same, del_eq_filter hwf]
      have hwf1 : Spec.C14.WF (mget (mdelete μ id k) id) := by
        rw [hm1]; exact Lemmas.C14.WF.sublist List.filter_sublist hwf
      have hsub1 : ∀ e ∈ r, e ∈ mget (mdelete μ id k) id := by
        intro e he
        rw [hm1, List.mem_filter]
        refine ⟨hsub e (List.mem_cons_of_mem _ he), ?_⟩
        have : e.1 ≠ k := fun heq => hnd.1 (heq ▸ List.mem_map_of_mem he)
        simp [this]
      obtain ⟨g1, g2, g3⟩ := ih (mdelete μ id k) hwf1 hnd.2 hsub1
      refine ⟨?_, by rw [g2, mdelete_length], fun j hj => by rw [g3 j hj, mdelete_other μ id j k hj]⟩
      rw [g1, hm1, List.filter_filter]
      apply List.filter_congr
      intro e he
      by_cases hek : e.1 = k
      · have := huniq e he hek
        subst this
        simp [hf]
      · have hne : e ≠ (k, v) := fun heq => hek (by rw [heq])
        simp [hek, hne]
    · simp only [hf, Bool.false_eq_true, if_false]
      obtain ⟨g1, g2, g3⟩ := ih μ hwf hnd.2 (fun e he => hsub e (List.mem_cons_of_mem _ he))
      refine ⟨?_, g2, g3⟩
      rw [g1]
      apply List.filter_congr
      intro e he
      by_cases hek : e = (k, v)
      · subst hek; simp [hf]
      · simp [hek]

/-- the loop of `Omit` is the loop of `OmitBy` with `fn = (k ∈ keys)`; with a well-formed `keys` slice
`Contains` never panics -/
theorem omitLoopM_eq {σ : Store} {keys : Slice} (hk : WF σ keys) (id : Nat) (it : List (Int × Int)) (μ : MStore) :
    omitLoopM σ keys id it μ = some (omitByLoopM (fun k _ => decide (k ∈ elems σ keys)) id it μ) := by
  induction it generalizing μ with
  | nil => rfl
  | cons e r ih =>
    obtain ⟨k, v⟩ := e
    have hc : containsStore σ keys k = some (decide (k ∈ elems σ keys)) := by
      rw [containsStore_eq hk]
      congr 1
      generalize elems σ keys = l
      induction l with
      | nil => simp [Model.C11.contains]
      | cons x l ihl =>
        simp only [Model.C11.contains, ihl, List.mem_cons]
        by_cases hx : x = k
        · simp [hx]
        · have : ¬ k = x := fun e => hx e.symm
          simp [hx, this]
    simp only [omitLoopM, omitByLoopM, hc]
    split
    · by_cases hm : k ∈ elems σ keys
      · simp only [hm, decide_true, if_true]; exact ih _
      · simp only [hm, decide_false]; exact ih _
    · exact ih _

end GoguVerif.Lemmas.C16Helpers3
