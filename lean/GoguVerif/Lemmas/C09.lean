import GoguVerif.Lemmas.C09Walk
import GoguVerif.Lemmas.C09Map
/-!
# C09 helper lemmas, part 5: representation invariant, abstraction function, one-step refinement

`Inv t` — the byte search-tree order holds in the whole tree and the counter `n` equals the number of
entries; `abs t` — the entries of the tree in in-order = the specification's sorted association list.
-/
namespace GoguVerif.Lemmas.C09
open GoguVerif.Spec GoguVerif.Spec.C09 GoguVerif.Model.Trie

/-- representation invariant -/
def Inv (t : Trie) : Prop := Ord t.root ∧ t.n = ((ents t.root).length : Int)

/-- abstraction function: model state ↦ specification state -/
def abs (t : Trie) : Map := ents t.root

/-- the property speaks about `Put` with non-empty keys only -/
def ValidOp : Op → Prop
  | .put k _ => k ≠ []
  | _ => True

theorem inv_init : Inv {} := ⟨trivial, rfl⟩
theorem abs_init : abs {} = [] := rfl

theorem notFound_eq (x : T) (err : Bool) : notFound x err = (resVal x err).isNone := by
  cases x with
  | nil => rfl
  | node c l m r v iv => cases err <;> cases iv <;> rfl

theorem Put_refines (t : Trie) (c : UInt8) (ks : Key) (v : Int) (hi : Inv t) :
    ∃ t', Put t (c :: ks) v = some t' ∧
      abs t' = OrdMap.insert lexLt (c :: ks) v (abs t) ∧ Inv t' := by
  obtain ⟨ho, hn⟩ := hi
  obtain ⟨x, err, g1, g2, _⟩ := get_spec (c :: ks) t.root 0 c ks rfl ho
  obtain ⟨n', p1, p2, p3, _⟩ := put_spec (c :: ks) v t.root 0 c ks rfl ho
  refine ⟨{ t with root := n', n := if notFound x err then t.n + 1 else t.n }, ?_, p2, p3, ?_⟩
  · simp [Put, g1, p1]
  · simp only [p2, length_insert, g2, notFound_eq, hn]
    cases resVal x err <;> simp

theorem Get_refines (t : Trie) (k : Key) (hi : Inv t) :
    Get t k = some (if k.isEmpty then none else OrdMap.lookup lexLt k (abs t)) := by
  cases k with
  | nil => rfl
  | cons c ks =>
    obtain ⟨x, err, g1, g2, _⟩ := get_spec (c :: ks) t.root 0 c ks rfl hi.1
    simp only [Get, List.length_cons, Nat.add_one_ne_zero, if_false, g1, List.isEmpty_cons,
      Bool.false_eq_true, abs, g2]
    cases x with
    | nil => rfl
    | node xc l m r xv iv => cases err <;> cases iv <;> rfl

theorem Contains_refines (t : Trie) (k : Key) (hi : Inv t) :
    Contains t k = some (if k.isEmpty then false else (OrdMap.lookup lexLt k (abs t)).isSome) := by
  cases k with
  | nil => rfl
  | cons c ks =>
    have := Get_refines t (c :: ks) hi
    simp only [List.isEmpty_cons, Bool.false_eq_true, if_false] at this
    simp [Contains, this]

theorem Keys_refines (t : Trie) :
    (Keys t).1.q = (abs t).map (·.1) ∧ (Keys t).2 = false ∧ abs (Keys t).1 = abs t ∧
      (Inv t → Inv (Keys t).1) := by
  refine ⟨?_, rfl, rfl, fun h => h⟩
  simp [Keys, collect_spec, abs]

theorem StartsWith_refines (t : Trie) (p : Key) (hi : Inv t) :
    ∃ t' e, StartsWith t p = some (t', e) ∧ abs t' = abs t ∧ Inv t' ∧
      Out.keyList t'.q e = (Spec.C09.step (abs t) (.startsWith p)).2 := by
  cases p with
  | nil => exact ⟨{ t with q := [] }, true, rfl, rfl, hi, rfl⟩
  | cons c ks =>
    obtain ⟨x, err, g1, _, g3⟩ := get_spec (c :: ks) t.root 0 c ks rfl hi.1
    simp only [Spec.C09.step, List.isEmpty_cons, Bool.false_eq_true, if_false, abs, g3]
    simp only [StartsWith, List.length_cons, Nat.add_one_ne_zero, if_false, g1]
    cases x with
    | nil => exact ⟨_, _, rfl, rfl, hi, by cases err <;> rfl⟩
    | node xc l m r xv iv =>
      cases err with
      | true => exact ⟨_, _, rfl, rfl, hi, rfl⟩
      | false =>
        refine ⟨_, _, rfl, rfl, hi, ?_⟩
        simp only [collect_spec, resKeys]
        cases iv <;> rfl

theorem LongestPrefix_refines (t : Trie) (q : Key) (hi : Inv t) :
    LongestPrefix t q = (if q.isEmpty then ([], true) else (longest q (abs t), false)) := by
  cases q with
  | nil => rfl
  | cons c qs =>
    simp only [LongestPrefix, List.length_cons, Nat.add_one_ne_zero, if_false, List.isEmpty_cons,
      Bool.false_eq_true, Prod.mk.injEq, and_true]
    rw [lpLoop_spec (c :: qs) t.root 0 0 hi.1]
    simp only [List.drop_zero, Nat.zero_add, abs]
    split
    · rename_i h; rw [h]; rfl
    · exact (longest_take (c :: qs) (ents t.root)).symm

/-- One call of the model, in a state satisfying the invariant, does not panic, answers exactly what the
specification prescribes in the abstract state, ends in a state whose abstraction is the specification's
next state, and keeps the invariant. -/
theorem step_refines' (t : Trie) (op : Op) (hi : Inv t) (hv : ValidOp op) :
    ∃ t', Model.Trie.step t op = some (t', (Spec.C09.step (abs t) op).2) ∧
      abs t' = (Spec.C09.step (abs t) op).1 ∧ Inv t' := by
  cases op with
  | put k v =>
    cases k with
    | nil => exact absurd rfl hv
    | cons c ks =>
      obtain ⟨t', h1, h2, h3⟩ := Put_refines t c ks v hi
      exact ⟨t', by simp [Model.Trie.step, h1, Spec.C09.step], by simp [h2, Spec.C09.step], h3⟩
  | get k => exact ⟨t, by simp [Model.Trie.step, Get_refines t k hi, Spec.C09.step], rfl, hi⟩
  | contains k => exact ⟨t, by simp [Model.Trie.step, Contains_refines t k hi, Spec.C09.step], rfl, hi⟩
  | size => exact ⟨t, by simp [Model.Trie.step, Spec.C09.step, hi.2, abs], rfl, hi⟩
  | keys =>
    obtain ⟨h1, h2, h3, h4⟩ := Keys_refines t
    refine ⟨(Keys t).1, ?_, h3, h4 hi⟩
    simp only [Model.Trie.step, Spec.C09.step]
    rw [h1, h2]
  | startsWith p =>
    obtain ⟨t', e, h1, h2, h3, h4⟩ := StartsWith_refines t p hi
    refine ⟨t', by simp [Model.Trie.step, h1, h4], ?_, h3⟩
    rw [h2]; simp only [Spec.C09.step]; split <;> rfl
  | longestPrefix q =>
    refine ⟨t, ?_, ?_, hi⟩
    · simp only [Model.Trie.step, LongestPrefix_refines t q hi, Spec.C09.step]
      split <;> rfl
    · simp only [Spec.C09.step]; split <;> rfl

/-! ## whole histories on the specification side -/

/-- the specification run over a history: final abstract state and the prescribed answers -/
def specRun (m : Map) : List Op → Map × List Out
  | [] => (m, [])
  | op :: ops =>
    let r := Spec.C09.step m op
    let rs := specRun r.1 ops
    (rs.1, r.2 :: rs.2)

/-- the `Put`s of a history, in order -/
def putsOf : List Op → List (Key × Int)
  | [] => []
  | .put k v :: ops => (k, v) :: putsOf ops
  | _ :: ops => putsOf ops

theorem spec_step_state (m : Map) (op : Op) :
    (Spec.C09.step m op).1 = match op with
      | .put k v => OrdMap.insert lexLt k v m
      | _ => m := by
  cases op <;> simp only [Spec.C09.step] <;> (try rfl) <;> split <;> rfl

theorem specRun_state (ops : List Op) : ∀ m,
    (specRun m ops).1 = (putsOf ops).foldl (fun m p => OrdMap.insert lexLt p.1 p.2 m) m := by
  induction ops with
  | nil => intro m; rfl
  | cons op ops ih =>
    intro m
    simp only [specRun, ih, spec_step_state]
    cases op <;> rfl

end GoguVerif.Lemmas.C09
