import GoguVerif.Lemmas.C17
/-!
# C17 — invariants of the event log of the Memoize protocol LTS (helper lemmas)
-/
namespace GoguVerif.Lemmas.C17
open GoguVerif.Model.C17

/-- what the log says about one caller, by where the caller is -/
def SLocal (s : State) (g : EvLog) (c : Nat) : Prop :=
  match s.pc c with
  | .idle => g.invAt c = none ∧ g.retAt c = none ∧ g.startAt c = none ∧ g.endAt c = none
  | .start | .missed | .leader =>
    (∃ i, g.invAt c = some i) ∧ g.retAt c = none ∧ g.startAt c = none ∧ g.endAt c = none
  | .waiting l =>
    (∃ i, g.invAt c = some i ∧ ∀ tl, g.retAt l = some tl → i < tl) ∧
      g.retAt c = none ∧ g.startAt c = none ∧ g.endAt c = none
  | .running =>
    (∃ i a, g.invAt c = some i ∧ g.startAt c = some a ∧ i < a) ∧ g.retAt c = none ∧ g.endAt c = none
  | .ran _ =>
    (∃ i a b, g.invAt c = some i ∧ g.startAt c = some a ∧ g.endAt c = some b ∧ i < a ∧ a < b) ∧
      g.retAt c = none
  | .setDone _ =>
    (match s.src c with
     -- the leader's re-check hit the cache: no execution in the log
     | some (.lhit _ _) => (∃ i, g.invAt c = some i) ∧ g.startAt c = none ∧ g.endAt c = none
     | _ => ∃ i a b, g.invAt c = some i ∧ g.startAt c = some a ∧ g.endAt c = some b ∧ i < a ∧ a < b) ∧
      g.retAt c = none
  | .done _ =>
    match s.src c with
    | some (.hit _) =>
      (∃ i t, g.invAt c = some i ∧ g.retAt c = some t ∧ i < t) ∧ g.startAt c = none ∧ g.endAt c = none
    | some (.lhit l _) =>
      -- no execution of its own; a joiner returned after the leader `l`, and was invoked before `l` returned
      (∃ i t, g.invAt c = some i ∧ g.retAt c = some t ∧ i < t ∧
          (l = c ∨ ∃ tl, g.retAt l = some tl ∧ i < tl ∧ tl < t)) ∧ g.startAt c = none ∧ g.endAt c = none
    | some (.exec l) =>
      (l = c ∧ ∃ i a b t, g.invAt c = some i ∧ g.startAt c = some a ∧ g.endAt c = some b ∧
          g.retAt c = some t ∧ i < a ∧ a < b ∧ b < t)
      ∨ (l ≠ c ∧ g.startAt c = none ∧ g.endAt c = none ∧
          ∃ i t a b tl, g.invAt c = some i ∧ g.retAt c = some t ∧ g.startAt l = some a ∧
            g.endAt l = some b ∧ g.retAt l = some tl ∧ a < b ∧ b < tl ∧ tl < t ∧ i < tl)
    | none => False

/-- one step's worth of log growth: the counter advances, every entry stays, new entries carry the
old counter -/
structure Ext (g g' : EvLog) : Prop where
  n : g'.n = g.n + 1
  inv : ∀ l, g'.invAt l = g.invAt l ∨ (g.invAt l = none ∧ g'.invAt l = some g.n)
  ret : ∀ l, g'.retAt l = g.retAt l ∨ (g.retAt l = none ∧ g'.retAt l = some g.n)
  start : ∀ l, g'.startAt l = g.startAt l ∨ (g.startAt l = none ∧ g'.startAt l = some g.n)
  «end» : ∀ l, g'.endAt l = g.endAt l ∨ (g.endAt l = none ∧ g'.endAt l = some g.n)

theorem ext_upd {f : Nat → Option Nat} {a n : Nat} (h : f a = none) (l : Nat) :
    upd f a (some n) l = f l ∨ (f l = none ∧ upd f a (some n) l = some n) := by
  by_cases hl : l = a
  · subst hl; exact Or.inr ⟨h, upd_same _ _ _⟩
  · exact Or.inl (upd_other _ _ _ _ hl)

/-- a caller that did not move, and whose own log entries did not change, keeps its `SLocal` fact -/
theorem slocal_congr {s s' : State} {g g' : EvLog} {c : Nat}
    (hpc : s'.pc c = s.pc c) (hsrc : s'.src c = s.src c)
    (hi : g'.invAt c = g.invAt c) (hr : g'.retAt c = g.retAt c) (hst : g'.startAt c = g.startAt c)
    (he : g'.endAt c = g.endAt c) (hx : Ext g g') (hb : ∀ i, g.invAt c = some i → i < g.n)
    (h : SLocal s g c) : SLocal s' g' c := by
  unfold SLocal at h ⊢
  rw [hpc, hsrc, hi, hr, hst, he]
  cases hp : s.pc c with
  | waiting l =>
    simp only [hp] at h ⊢
    obtain ⟨⟨i, h1, h2⟩, h3⟩ := h
    refine ⟨⟨i, h1, fun tl htl => ?_⟩, h3⟩
    rcases hx.ret l with h4 | ⟨_, h4⟩
    · rw [h4] at htl; exact h2 tl htl
    · rw [h4] at htl; cases htl; exact hb i h1
  | done r =>
    simp only [hp] at h ⊢
    cases hs : s.src c with
    | none => simp only [hs] at h
    | some x =>
      cases x with
      | hit v => simp only [hs] at h ⊢; exact h
      | lhit l v =>
        simp only [hs] at h ⊢
        obtain ⟨⟨i, t, h1, h2, h3, h4⟩, h5⟩ := h
        refine ⟨⟨i, t, h1, h2, h3, ?_⟩, h5⟩
        rcases h4 with h4 | ⟨tl, h6, h7⟩
        · exact Or.inl h4
        · refine Or.inr ⟨tl, ?_, h7⟩
          rcases hx.ret l with h | ⟨h, _⟩
          · rw [h]; exact h6
          · rw [h] at h6; cases h6
      | exec l =>
        simp only [hs] at h ⊢
        rcases h with h | ⟨h1, h2, h3, i, t, a, b, tl, h4, h5, h6, h7, h8, h9⟩
        · exact Or.inl h
        · refine Or.inr ⟨h1, h2, h3, i, t, a, b, tl, h4, h5, ?_, ?_, ?_, h9⟩
          · rcases hx.start l with h | ⟨h, _⟩
            · rw [h]; exact h6
            · rw [h] at h6; cases h6
          · rcases hx.end l with h | ⟨h, _⟩
            · rw [h]; exact h7
            · rw [h] at h7; cases h7
          · rcases hx.ret l with h | ⟨h, _⟩
            · rw [h]; exact h8
            · rw [h] at h8; cases h8
  | idle => simp only [hp] at h ⊢; exact h
  | start => simp only [hp] at h ⊢; exact h
  | missed => simp only [hp] at h ⊢; exact h
  | leader => simp only [hp] at h ⊢; exact h
  | running => simp only [hp] at h ⊢; exact h
  | ran r => simp only [hp] at h ⊢; exact h
  | setDone r => simp only [hp] at h ⊢; exact h

/-- the invariant tying the log to the state -/
structure SInv (cfg : Cfg) (s : State) (g : EvLog) : Prop where
  /-- the registered call of a key belongs to a caller that is between `doEnter` and `doFinish` -/
  flt : ∀ k l, s.flight k = some l → active (s.pc l) = true
  /-- every sequence number in the log is smaller than the counter -/
  bnd : ∀ c x, (g.invAt c = some x ∨ g.retAt c = some x ∨ g.startAt c = some x ∨ g.endAt c = some x) → x < g.n
  loc : ∀ c, SLocal s g c
  /-- of two executions for one key, the one that started first had ended before the other started -/
  dis : ∀ c c' a a', c ≠ c' → cfg.key c = cfg.key c' → g.startAt c = some a → g.startAt c' = some a' →
          a ≤ a' → ∃ b, g.endAt c = some b ∧ b < a'

theorem bnd_ext {g g' : EvLog} (hx : Ext g g')
    (h : ∀ c x, (g.invAt c = some x ∨ g.retAt c = some x ∨ g.startAt c = some x ∨ g.endAt c = some x) → x < g.n) :
    ∀ c x, (g'.invAt c = some x ∨ g'.retAt c = some x ∨ g'.startAt c = some x ∨ g'.endAt c = some x) → x < g'.n := by
  intro c x hc
  rw [hx.n]
  have key : ∀ (f f' : Nat → Option Nat), (f' c = f c ∨ (f c = none ∧ f' c = some g.n)) → f' c = some x →
      f c = some x ∨ x = g.n := by
    intro f f' h1 h2
    rcases h1 with h1 | ⟨_, h1⟩
    · rw [h1] at h2; exact Or.inl h2
    · rw [h1] at h2; cases h2; exact Or.inr rfl
  rcases hc with hc | hc | hc | hc
  · rcases key _ _ (hx.inv c) hc with h1 | h1
    · have := h c x (Or.inl h1); omega
    · omega
  · rcases key _ _ (hx.ret c) hc with h1 | h1
    · have := h c x (Or.inr (Or.inl h1)); omega
    · omega
  · rcases key _ _ (hx.start c) hc with h1 | h1
    · have := h c x (Or.inr (Or.inr (Or.inl h1))); omega
    · omega
  · rcases key _ _ (hx.end c) hc with h1 | h1
    · have := h c x (Or.inr (Or.inr (Or.inr h1))); omega
    · omega

theorem dis_ext {cfg : Cfg} {g g' : EvLog} (hx : Ext g g') (hs : g'.startAt = g.startAt)
    (h : ∀ c c' a a', c ≠ c' → cfg.key c = cfg.key c' → g.startAt c = some a → g.startAt c' = some a' →
          a ≤ a' → ∃ b, g.endAt c = some b ∧ b < a') :
    ∀ c c' a a', c ≠ c' → cfg.key c = cfg.key c' → g'.startAt c = some a → g'.startAt c' = some a' →
          a ≤ a' → ∃ b, g'.endAt c = some b ∧ b < a' := by
  intro c c' a a' h1 h2 h3 h4 h5
  rw [hs] at h3 h4
  obtain ⟨b, h6, h7⟩ := h c c' a a' h1 h2 h3 h4 h5
  refine ⟨b, ?_, h7⟩
  rcases hx.end c with h8 | ⟨h8, _⟩
  · rw [h8]; exact h6
  · rw [h8] at h6; cases h6

theorem sinv_init (cfg : Cfg) (c0 : Nat → Cell) (now : Int) : SInv cfg (init c0 now) EvLog.empty where
  flt := by intro k l h; simp [init] at h
  bnd := by intro c x h; simp [EvLog.empty] at h
  loc := by intro c; simp [SLocal, init, EvLog.empty]
  dis := by intro c c' a a' _ _ h; simp [EvLog.empty] at h

/-- log entries of the other callers are unchanged when only `a`'s entry is written -/
macro "sothers " s:term:max g:term:max hca:term:max hx:term:max hb:term:max h:term:max : tactic =>
  `(tactic| exact slocal_congr (s := $s) (g := $g)
      (by first | rfl | exact upd_other _ _ _ _ $hca) (by first | rfl | exact upd_other _ _ _ _ $hca)
      (by first | rfl | exact upd_other _ _ _ _ $hca) (by first | rfl | exact upd_other _ _ _ _ $hca)
      (by first | rfl | exact upd_other _ _ _ _ $hca) (by first | rfl | exact upd_other _ _ _ _ $hca)
      $hx (fun i hi => $hb _ i (Or.inl hi)) $h)

theorem sinv_invoke {cfg : Cfg} {c0 : Nat → Cell} {s s' : State} {g : EvLog} {a : Nat}
    (_hi : Inv cfg c0 s) (h : SInv cfg s g) (hs : step cfg s (.invoke a) = some s') :
    SInv cfg s' (logStep cfg s g (.invoke a)) := by
  simp only [step] at hs
  obtain ⟨f1, f2, f3, f4⟩ := h
  split at hs <;> try (simp at hs)
  rename_i hpc
  have ha := f3 a
  simp only [SLocal, hpc] at ha
  subst hs
  have hx : Ext g (logStep cfg s g (.invoke a)) :=
    ⟨rfl, ext_upd ha.1, fun _ => Or.inl rfl, fun _ => Or.inl rfl, fun _ => Or.inl rfl⟩
  refine ⟨?_, bnd_ext hx f2, ?_, dis_ext hx rfl f4⟩
  · intro k l hk
    have := f1 k l hk
    grind [upd_apply, active]
  · intro c
    by_cases hca : c = a
    · subst hca
      simp only [SLocal, upd_same, logStep]
      exact ⟨⟨g.n, rfl⟩, ha.2⟩
    · sothers s g hca hx f2 (f3 c)

theorem active_ret_none {s : State} {g : EvLog} {l : Nat} (h : SLocal s g l)
    (ha : active (s.pc l) = true) : g.retAt l = none := by
  unfold SLocal at h
  cases hp : s.pc l <;> simp only [hp, active] at h ha <;> first | exact h.2.1 | exact h.2 | cases ha

/-- an execution that has started is still registered as the call of its key, or has ended -/
theorem started_cases {s : State} {g : EvLog} {c x : Nat} (h : SLocal s g c) (hs : g.startAt c = some x) :
    active (s.pc c) = true ∨ ∃ b, g.endAt c = some b := by
  unfold SLocal at h
  cases hp : s.pc c with
  | idle => simp only [hp] at h; rw [h.2.2.1] at hs; cases hs
  | start => simp only [hp] at h; rw [h.2.2.1] at hs; cases hs
  | missed => simp only [hp] at h; rw [h.2.2.1] at hs; cases hs
  | waiting l => simp only [hp] at h; rw [h.2.2.1] at hs; cases hs
  | leader => exact Or.inl rfl
  | running => exact Or.inl rfl
  | ran r => exact Or.inl rfl
  | setDone r => exact Or.inl rfl
  | done r =>
    simp only [hp] at h
    cases hsrc : s.src c with
    | none => simp only [hsrc] at h
    | some y =>
      cases y with
      | hit v => simp only [hsrc] at h; rw [h.2.1] at hs; cases hs
      | lhit l v => simp only [hsrc] at h; rw [h.2.1] at hs; cases hs
      | exec l =>
        simp only [hsrc] at h
        rcases h with ⟨_, i, a, b, t, _, _, h3, _⟩ | ⟨_, h2, _⟩
        · exact Or.inr ⟨b, h3⟩
        · rw [h2] at hs; cases hs

/-- a caller that has published a result has returned it; it led the execution that produced it, or its
re-check as leader read it from the cache -/
theorem published_done {cfg : Cfg} {s : State} {l : Nat} {r : Res} (hl : Local cfg s l)
    (hr : s.result l = some r) :
    s.pc l = .done r ∧ (s.src l = some (.exec l) ∨ ∃ v, r = .ok v ∧ s.src l = some (.lhit l v)) := by
  obtain ⟨h1, h2⟩ := published_cases hl hr
  refine ⟨h1, ?_⟩
  rcases h2 with ⟨h2, _⟩ | ⟨v, h2, h3, _⟩
  · exact Or.inl h2
  · exact Or.inr ⟨v, h2, h3⟩

theorem sinv_cacheCheck {cfg : Cfg} {c0 : Nat → Cell} {s s' : State} {g : EvLog} {a : Nat}
    (_hi : Inv cfg c0 s) (h : SInv cfg s g) (hs : step cfg s (.cacheCheck a) = some s') :
    SInv cfg s' (logStep cfg s g (.cacheCheck a)) := by
  simp only [step] at hs
  obtain ⟨f1, f2, f3, f4⟩ := h
  split at hs <;> try (simp at hs)
  rename_i hpc
  have ha := f3 a
  simp only [SLocal, hpc] at ha
  split at hs <;> simp at hs <;> subst hs
  · rename_i v hv
    have hx : Ext g (logStep cfg s g (.cacheCheck a)) := by
      simp only [logStep, hv]
      exact ⟨rfl, fun _ => Or.inl rfl, ext_upd ha.2.1, fun _ => Or.inl rfl, fun _ => Or.inl rfl⟩
    refine ⟨?_, bnd_ext hx f2, ?_, dis_ext hx (by simp only [logStep, hv]) f4⟩
    · intro k l hk
      have := f1 k l hk
      grind [upd_apply, active]
    · intro c
      by_cases hca : c = a
      · subst hca
        obtain ⟨i, hi⟩ := ha.1
        simp only [SLocal, upd_same, logStep, hv]
        exact ⟨⟨i, g.n, hi, rfl, f2 _ i (Or.inl hi)⟩, ha.2.2⟩
      · simp only [logStep, hv] at hx ⊢
        sothers s g hca hx f2 (f3 c)
  · rename_i hv
    have hx : Ext g (logStep cfg s g (.cacheCheck a)) := by
      simp only [logStep, hv]
      exact ⟨rfl, fun _ => Or.inl rfl, fun _ => Or.inl rfl, fun _ => Or.inl rfl, fun _ => Or.inl rfl⟩
    refine ⟨?_, bnd_ext hx f2, ?_, dis_ext hx (by simp only [logStep, hv]) f4⟩
    · intro k l hk
      have := f1 k l hk
      grind [upd_apply, active]
    · intro c
      by_cases hca : c = a
      · subst hca
        simp only [SLocal, upd_same, logStep, hv]
        exact ha
      · simp only [logStep, hv] at hx ⊢
        sothers s g hca hx f2 (f3 c)

theorem sinv_doEnter {cfg : Cfg} {c0 : Nat → Cell} {s s' : State} {g : EvLog} {a : Nat}
    (_hi : Inv cfg c0 s) (h : SInv cfg s g) (hs : step cfg s (.doEnter a) = some s') :
    SInv cfg s' (logStep cfg s g (.doEnter a)) := by
  simp only [step] at hs
  obtain ⟨f1, f2, f3, f4⟩ := h
  split at hs <;> try (simp at hs)
  rename_i hpc
  have ha := f3 a
  simp only [SLocal, hpc] at ha
  have hx : Ext g (logStep cfg s g (.doEnter a)) :=
    ⟨rfl, fun _ => Or.inl rfl, fun _ => Or.inl rfl, fun _ => Or.inl rfl, fun _ => Or.inl rfl⟩
  split at hs <;> simp at hs <;> subst hs
  · rename_i l hl
    refine ⟨?_, bnd_ext hx f2, ?_, dis_ext hx rfl f4⟩
    · intro k l' hk
      have := f1 k l' hk
      grind [upd_apply, active]
    · intro c
      by_cases hca : c = a
      · subst hca
        obtain ⟨i, hi⟩ := ha.1
        have hrl := active_ret_none (f3 l) (f1 _ _ hl)
        simp only [SLocal, upd_same, logStep]
        refine ⟨⟨i, hi, fun tl htl => ?_⟩, ha.2⟩
        rw [hrl] at htl; cases htl
      · sothers s g hca hx f2 (f3 c)
  · rename_i hl
    refine ⟨?_, bnd_ext hx f2, ?_, dis_ext hx rfl f4⟩
    · intro k l' hk
      have := f1 k l'
      grind [upd_apply, active]
    · intro c
      by_cases hca : c = a
      · subst hca
        simp only [SLocal, upd_same, logStep]
        exact ha
      · sothers s g hca hx f2 (f3 c)

theorem sinv_leadHit {cfg : Cfg} {c0 : Nat → Cell} {s s' : State} {g : EvLog} {a : Nat}
    (_hi : Inv cfg c0 s) (h : SInv cfg s g) (hs : step cfg s (.leadHit a) = some s') :
    SInv cfg s' (logStep cfg s g (.leadHit a)) := by
  simp only [step] at hs
  obtain ⟨f1, f2, f3, f4⟩ := h
  split at hs <;> try (simp at hs)
  rename_i hpc
  have ha := f3 a
  simp only [SLocal, hpc] at ha
  have hx : Ext g (logStep cfg s g (.leadHit a)) :=
    ⟨rfl, fun _ => Or.inl rfl, fun _ => Or.inl rfl, fun _ => Or.inl rfl, fun _ => Or.inl rfl⟩
  split at hs <;> simp at hs
  subst hs
  refine ⟨?_, bnd_ext hx f2, ?_, dis_ext hx rfl f4⟩
  · intro k l hk
    have := f1 k l hk
    grind [upd_apply, active]
  · intro c
    by_cases hca : c = a
    · subst hca
      simp only [SLocal, upd_same, logStep]
      exact ⟨⟨ha.1, ha.2.2⟩, ha.2.1⟩
    · sothers s g hca hx f2 (f3 c)

theorem sinv_fnStart {cfg : Cfg} {c0 : Nat → Cell} {s s' : State} {g : EvLog} {a : Nat}
    (hi : Inv cfg c0 s) (h : SInv cfg s g) (hs : step cfg s (.fnStart a) = some s') :
    SInv cfg s' (logStep cfg s g (.fnStart a)) := by
  simp only [step] at hs
  obtain ⟨f1, f2, f3, f4⟩ := h
  split at hs <;> try (simp at hs)
  rename_i hpc
  have ha := f3 a
  simp only [SLocal, hpc] at ha
  have hfa := hi.lead a (by simp [hpc, active])
  split at hs <;> simp at hs
  subst hs
  have hx : Ext g (logStep cfg s g (.fnStart a)) :=
    ⟨rfl, fun _ => Or.inl rfl, fun _ => Or.inl rfl, ext_upd ha.2.2.1, fun _ => Or.inl rfl⟩
  refine ⟨?_, bnd_ext hx f2, ?_, ?_⟩
  · intro k l hk
    have := f1 k l hk
    grind [upd_apply, active]
  · intro c
    by_cases hca : c = a
    · subst hca
      obtain ⟨i, hi'⟩ := ha.1
      simp only [SLocal, upd_same, logStep]
      exact ⟨⟨i, g.n, hi', rfl, f2 _ i (Or.inl hi')⟩, ha.2.1, ha.2.2.2⟩
    · sothers s g hca hx f2 (f3 c)
  · intro c c' x x' hne hk h3 h4 hlt
    simp only [logStep] at h3 h4 ⊢
    by_cases hc'a : c' = a
    · subst hc'a
      rw [upd_same] at h4
      cases h4
      rw [upd_other _ _ _ _ hne] at h3
      rcases started_cases (f3 c) h3 with hact | ⟨b, hb⟩
      · have := hi.lead c hact
        rw [hk, hfa] at this
        exact absurd (Option.some.inj this).symm hne
      · exact ⟨b, hb, f2 c b (Or.inr (Or.inr (Or.inr hb)))⟩
    · rw [upd_other _ _ _ _ hc'a] at h4
      by_cases hca : c = a
      · subst hca
        rw [upd_same] at h3
        cases h3
        have := f2 c' x' (Or.inr (Or.inr (Or.inl h4)))
        omega
      · rw [upd_other _ _ _ _ hca] at h3
        exact f4 c c' x x' hne hk h3 h4 hlt

theorem sinv_fnEnd {cfg : Cfg} {c0 : Nat → Cell} {s s' : State} {g : EvLog} {a : Nat} {r : Res}
    (_hi : Inv cfg c0 s) (h : SInv cfg s g) (hs : step cfg s (.fnEnd a r) = some s') :
    SInv cfg s' (logStep cfg s g (.fnEnd a r)) := by
  simp only [step] at hs
  obtain ⟨f1, f2, f3, f4⟩ := h
  split at hs <;> try (simp at hs)
  rename_i hpc
  have ha := f3 a
  simp only [SLocal, hpc] at ha
  subst hs
  have hx : Ext g (logStep cfg s g (.fnEnd a r)) :=
    ⟨rfl, fun _ => Or.inl rfl, fun _ => Or.inl rfl, fun _ => Or.inl rfl, ext_upd ha.2.2⟩
  refine ⟨?_, bnd_ext hx f2, ?_, dis_ext hx rfl f4⟩
  · intro k l hk
    have := f1 k l hk
    grind [upd_apply, active]
  · intro c
    by_cases hca : c = a
    · subst hca
      obtain ⟨i, x, h1, h2, h3⟩ := ha.1
      simp only [SLocal, upd_same, logStep]
      exact ⟨⟨i, x, g.n, h1, h2, rfl, h3, f2 _ x (Or.inr (Or.inr (Or.inl h2)))⟩, ha.2.1⟩
    · sothers s g hca hx f2 (f3 c)

theorem sinv_cacheSet {cfg : Cfg} {c0 : Nat → Cell} {s s' : State} {g : EvLog} {a : Nat}
    (hi : Inv cfg c0 s) (h : SInv cfg s g) (hs : step cfg s (.cacheSet a) = some s') :
    SInv cfg s' (logStep cfg s g (.cacheSet a)) := by
  simp only [step] at hs
  obtain ⟨f1, f2, f3, f4⟩ := h
  have hx : Ext g (logStep cfg s g (.cacheSet a)) :=
    ⟨rfl, fun _ => Or.inl rfl, fun _ => Or.inl rfl, fun _ => Or.inl rfl, fun _ => Or.inl rfl⟩
  split at hs <;> try (simp at hs)
  all_goals
    rename_i hpc
    have ha := f3 a
    simp only [SLocal, hpc] at ha
    have hla := hi.loc a
    simp only [Local, hpc] at hla
    have hsrc : s.src a = some (.exec a) := hla.1
    subst hs
    refine ⟨?_, bnd_ext hx f2, ?_, dis_ext hx rfl f4⟩
    · intro k l hk
      have := f1 k l hk
      grind [upd_apply, active]
    · intro c
      by_cases hca : c = a
      · subst hca
        simp only [SLocal, upd_same, logStep, hsrc]
        exact ha
      · sothers s g hca hx f2 (f3 c)

theorem sinv_doFinish {cfg : Cfg} {c0 : Nat → Cell} {s s' : State} {g : EvLog} {a : Nat}
    (hi : Inv cfg c0 s) (h : SInv cfg s g) (hs : step cfg s (.doFinish a) = some s') :
    SInv cfg s' (logStep cfg s g (.doFinish a)) := by
  simp only [step] at hs
  obtain ⟨f1, f2, f3, f4⟩ := h
  split at hs <;> try (simp at hs)
  rename_i r hpc
  have ha := f3 a
  simp only [SLocal, hpc] at ha
  have hla := hi.loc a
  simp only [Local, hpc] at hla
  have hfk := hi.fkey
  subst hs
  have hx : Ext g (logStep cfg s g (.doFinish a)) :=
    ⟨rfl, fun _ => Or.inl rfl, ext_upd ha.2, fun _ => Or.inl rfl, fun _ => Or.inl rfl⟩
  refine ⟨?_, bnd_ext hx f2, ?_, dis_ext hx rfl f4⟩
  · intro k l hk
    have := f1 k l
    have := hfk k l
    grind [upd_apply, active]
  · intro c
    by_cases hca : c = a
    · subst hca
      rcases hla with hla | ⟨v, _, hla, _⟩
      · simp only [hla.1] at ha
        obtain ⟨i, x, b, h1, h2, h3, h4, h5⟩ := ha.1
        simp only [SLocal, upd_same, logStep, hla.1]
        exact Or.inl ⟨trivial, i, x, b, g.n, h1, h2, h3, rfl, h4, h5, f2 _ b (Or.inr (Or.inr (Or.inr h3)))⟩
      · simp only [hla] at ha
        obtain ⟨⟨i, h1⟩, h2, h3⟩ := ha.1
        simp only [SLocal, upd_same, logStep, hla]
        exact ⟨⟨i, g.n, h1, rfl, f2 _ i (Or.inl h1), Or.inl trivial⟩, h2, h3⟩
    · sothers s g hca hx f2 (f3 c)

theorem sinv_wake {cfg : Cfg} {c0 : Nat → Cell} {s s' : State} {g : EvLog} {a : Nat}
    (hi : Inv cfg c0 s) (h : SInv cfg s g) (hs : step cfg s (.wake a) = some s') :
    SInv cfg s' (logStep cfg s g (.wake a)) := by
  simp only [step] at hs
  obtain ⟨f1, f2, f3, f4⟩ := h
  split at hs <;> try (simp at hs)
  rename_i l hpc
  have ha := f3 a
  simp only [SLocal, hpc] at ha
  have hla := hi.loc a
  simp only [Local, hpc] at hla
  split at hs <;> simp at hs
  rename_i r hr
  subst hs
  have hx : Ext g (logStep cfg s g (.wake a)) :=
    ⟨rfl, fun _ => Or.inl rfl, ext_upd ha.2.1, fun _ => Or.inl rfl, fun _ => Or.inl rfl⟩
  refine ⟨?_, bnd_ext hx f2, ?_, dis_ext hx rfl f4⟩
  · intro k l' hk
    have := f1 k l' hk
    grind [upd_apply, active]
  · intro c
    by_cases hca : c = a
    · subst hca
      obtain ⟨⟨i, h1, h2⟩, _, h3, h4⟩ := ha
      obtain ⟨hpl, hsl⟩ := published_done (hi.loc l) hr
      have hlc : l ≠ c := by intro h; subst h; rw [hpc] at hpl; cases hpl
      have hl := f3 l
      rcases hsl with hsl | ⟨v, _, hsl⟩
      · have e1 : wakeSrc s c l = some (.exec l) := by simp only [wakeSrc, hsl]; exact hla.1
        simp only [SLocal, hpl, hsl] at hl
        rcases hl with ⟨_, il, x, b, tl, _, g2, g3, g4, _, g6, g7⟩ | ⟨hne, _⟩
        · simp only [SLocal, upd_same, logStep, e1]
          refine Or.inr ⟨hlc, h3, h4, i, g.n, x, b, tl, h1, rfl, g2, g3, ?_, g6, g7, ?_, h2 tl g4⟩
          · rw [upd_other _ _ _ _ hlc]; exact g4
          · exact f2 l tl (Or.inr (Or.inl g4))
        · exact absurd rfl hne
      · have e1 : wakeSrc s c l = some (.lhit l v) := by simp only [wakeSrc, hsl]
        simp only [SLocal, hpl, hsl] at hl
        obtain ⟨⟨il, tl, _, g4, _, _⟩, _⟩ := hl
        simp only [SLocal, upd_same, logStep, e1]
        refine ⟨⟨i, g.n, h1, rfl, f2 _ i (Or.inl h1), Or.inr ⟨tl, ?_, h2 tl g4, ?_⟩⟩, h3, h4⟩
        · rw [upd_other _ _ _ _ hlc]; exact g4
        · exact f2 l tl (Or.inr (Or.inl g4))
    · sothers s g hca hx f2 (f3 c)

theorem sinv_tick {cfg : Cfg} {s s' : State} {g : EvLog} {d : Nat}
    (h : SInv cfg s g) (hs : step cfg s (.tick d) = some s') :
    SInv cfg s' (logStep cfg s g (.tick d)) := by
  simp only [step, Option.some.injEq] at hs
  subst hs
  obtain ⟨f1, f2, f3, f4⟩ := h
  have hx : Ext g (logStep cfg s g (.tick d)) :=
    ⟨rfl, fun _ => Or.inl rfl, fun _ => Or.inl rfl, fun _ => Or.inl rfl, fun _ => Or.inl rfl⟩
  exact ⟨f1, bnd_ext hx f2,
    fun c => slocal_congr (s := s) (g := g) rfl rfl rfl rfl rfl rfl hx (fun i hi => f2 _ i (Or.inl hi)) (f3 c),
    dis_ext hx rfl f4⟩

/-- every step preserves the log invariant -/
theorem sinv_step {cfg : Cfg} {c0 : Nat → Cell} {s s' : State} {g : EvLog} {l : Label}
    (hi : Inv cfg c0 s) (h : SInv cfg s g) (hs : step cfg s l = some s') :
    SInv cfg s' (logStep cfg s g l) := by
  cases l with
  | invoke a => exact sinv_invoke hi h hs
  | cacheCheck a => exact sinv_cacheCheck hi h hs
  | doEnter a => exact sinv_doEnter hi h hs
  | leadHit a => exact sinv_leadHit hi h hs
  | fnStart a => exact sinv_fnStart hi h hs
  | fnEnd a r => exact sinv_fnEnd hi h hs
  | cacheSet a => exact sinv_cacheSet hi h hs
  | doFinish a => exact sinv_doFinish hi h hs
  | wake a => exact sinv_wake hi h hs
  | tick d => exact sinv_tick h hs

theorem reachableLog_reachable {cfg : Cfg} {s0 s : State} {g : EvLog}
    (h : ReachableLog cfg s0 s g) : Reachable cfg s0 s := by
  induction h with
  | refl => exact Reachable.refl
  | step l _ hs ih => exact Reachable.step l ih hs

/-- both invariants hold for every reachable (state, log) pair -/
theorem sinv_reachable {cfg : Cfg} {c0 : Nat → Cell} {now : Int} {s : State} {g : EvLog}
    (h : ReachableLog cfg (init c0 now) s g) : Inv cfg c0 s ∧ SInv cfg s g := by
  induction h with
  | refl => exact ⟨inv_init cfg c0 now, sinv_init cfg c0 now⟩
  | step l _ hs ih => exact ⟨inv_step ih.1 hs, sinv_step ih.1 ih.2 hs⟩

/-- whatever a caller's function returned is in the log as the end of its execution -/
theorem execRes_logged {cfg : Cfg} {c0 : Nat → Cell} {s : State} {g : EvLog} {l : Nat} {r : Res}
    (hi : Inv cfg c0 s) (h : SInv cfg s g) (hr : s.execRes l = some r) : ∃ b, g.endAt l = some b := by
  have h1 := hi.loc l
  have h2 := h.loc l
  unfold Local at h1
  unfold SLocal at h2
  cases hp : s.pc l with
  | idle => simp only [hp] at h1; rw [h1.2.2.1] at hr; cases hr
  | start => simp only [hp] at h1; rw [h1.2.2.1] at hr; cases hr
  | missed => simp only [hp] at h1; rw [h1.2.2.1] at hr; cases hr
  | waiting x => simp only [hp] at h1; rw [h1.2.2.1] at hr; cases hr
  | leader => simp only [hp] at h1; rw [h1.2.2.1] at hr; cases hr
  | running => simp only [hp] at h1; rw [h1.2.2.1] at hr; cases hr
  | ran x => simp only [hp] at h2; obtain ⟨⟨i, a, b, _, _, h3, _⟩, _⟩ := h2; exact ⟨b, h3⟩
  | setDone x =>
    simp only [hp] at h1 h2
    rcases h1 with h1 | ⟨v, _, _, _, h3, _⟩
    · simp only [h1.1] at h2; obtain ⟨⟨i, a, b, _, _, h3, _⟩, _⟩ := h2; exact ⟨b, h3⟩
    · rw [h3] at hr; cases hr
  | done x =>
    simp only [hp] at h1 h2
    rcases h1 with ⟨v, _, _, _, h3, _⟩ | ⟨h3, _⟩ | ⟨y, _, _, _, _, h3, _⟩ | ⟨v, _, _, _, h3, _⟩ |
      ⟨y, v, _, _, _, _, _, h3, _⟩
    · rw [h3] at hr; cases hr
    · simp only [h3] at h2
      rcases h2 with ⟨_, i, a, b, t, _, _, h4, _⟩ | ⟨hne, _⟩
      · exact ⟨b, h4⟩
      · exact absurd rfl hne
    · rw [h3] at hr; cases hr
    · rw [h3] at hr; cases hr
    · rw [h3] at hr; cases hr

/-! ## instants: the log under the virtual clock -/

/-- what the log's instants say about one caller, by where the caller is (virtual clock) -/
def TLocal (s : State) (g : EvLog) (c : Nat) : Prop :=
  match s.pc c with
  | .idle => True
  | .start | .missed | .leader => g.invT c = some s.now
  | .waiting l => (∃ ti, g.invT c = some ti) ∧
      ∀ r, s.result l = some r → g.endT l = some s.now ∨ ∃ v, s.src l = some (.lhit l v)
  | .running => ∃ ti, g.invT c = some ti ∧ g.startT c = some ti
  | .ran _ => ∃ ti, g.invT c = some ti ∧ g.startT c = some ti ∧ g.endT c = some s.now
  | .setDone _ =>
    match s.src c with
    -- the leader's re-check hit the cache: no time has passed since the invocation
    | some (.lhit _ _) => g.invT c = some s.now
    | _ => ∃ ti, g.invT c = some ti ∧ g.startT c = some ti ∧ g.endT c = some s.now
  | .done _ =>
    match s.src c with
    | some (.hit _) => ∃ ti, g.invT c = some ti ∧ g.retT c = some ti
    | some (.lhit _ _) => ∃ ti, g.invT c = some ti ∧ g.retT c = some ti
    | some (.exec l) =>
      (l = c ∧ ∃ ti te, g.invT c = some ti ∧ g.startT c = some ti ∧ g.endT c = some te ∧ g.retT c = some te ∧ ti ≤ te)
      ∨ (l ≠ c ∧ ∃ ti te, g.invT c = some ti ∧ g.endT l = some te ∧ g.retT c = some te ∧ ti ≤ te)
    | none => False

structure TInv (s : State) (g : EvLog) : Prop where
  mono : ∀ c ti, g.invT c = some ti → ti ≤ s.now
  loc : ∀ c, TLocal s g c

/-- the flights whose leader's re-check hit the cache (virtual clock): nothing takes time there, and the
value the leader read stays live until everybody has been served -/
structure LInv (cfg : Cfg) (s : State) (g : EvLog) : Prop where
  /-- a joiner's leader is still the registered call of the key, or has published its result -/
  fl : ∀ c l, s.pc c = .waiting l → s.flight (cfg.key c) = some l ∨ ∃ r, s.result l = some r
  /-- between `leadHit` and `doFinish` the value the leader read is still live -/
  lead : ∀ c v, s.src c = some (.lhit c v) → s.result c = none →
          cellGet s.now (s.cache (cfg.key c)) = some v
  /-- the joiners of a leader that has not done its re-check yet were invoked at the current instant -/
  fresh : ∀ c l, s.pc c = .waiting l → s.pc l = .leader → g.invT c = some s.now
  /-- the joiners of a leader whose re-check hit the cache were invoked at the current instant, and the
  value the leader read is still live -/
  wait : ∀ c l v, s.pc c = .waiting l → s.src l = some (.lhit l v) →
          g.invT c = some s.now ∧ cellGet s.now (s.cache (cfg.key c)) = some v

theorem pub_not_running {cfg : Cfg} {c0 : Nat → Cell} {s : State} (hi : Inv cfg c0 s) (l : Nat) (r : Res)
    (h : s.result l = some r) : s.pc l ≠ .running := by
  intro hp
  have := (published_done (hi.loc l) h).1
  rw [hp] at this; cases this

theorem joiner_published {cfg : Cfg} {c0 : Nat → Cell} {s : State} (hi : Inv cfg c0 s) (c l : Nat) (r : Res)
    (hd : s.pc c = .done r) (hs : s.src c = some (.exec l)) (hne : l ≠ c) : s.result l = some r := by
  have h := hi.loc c
  simp only [Local, hd] at h
  rcases h with ⟨v, _, h2, _⟩ | ⟨h2, _⟩ | ⟨y, h2, _, h3, _⟩ | ⟨v, _, h2, _⟩ | ⟨y, v, _, h2, _⟩
  · rw [hs] at h2; cases h2
  · rw [hs] at h2; cases h2; exact absurd rfl hne
  · rw [hs] at h2; cases h2; exact h3
  · rw [hs] at h2; cases h2
  · rw [hs] at h2; cases h2

/-- a caller that did not move keeps its `TLocal` fact when the clock stands still, nothing new is
published except by a leader whose execution has just ended or whose re-check hit the cache, its own
instants are unchanged and only running callers' end instants are written -/
theorem tlocal_congr {cfg : Cfg} {c0 : Nat → Cell} {s s' : State} {g g' : EvLog} {c : Nat} (hinv : Inv cfg c0 s)
    (hpc : s'.pc c = s.pc c) (hsrc : s'.src c = s.src c) (hnow : s'.now = s.now)
    (hi : g'.invT c = g.invT c) (hr : g'.retT c = g.retT c) (hst : g'.startT c = g.startT c)
    (he : g'.endT c = g.endT c)
    (hres : ∀ l r, s'.result l = some r →
      s.result l = some r ∨ g'.endT l = some s.now ∨ ∃ v, s'.src l = some (.lhit l v))
    (hsl : ∀ l, s.result l = none ∨ s'.src l = s.src l)
    (hend : ∀ l, g'.endT l = g.endT l ∨ s.pc l = .running)
    (h : TLocal s g c) : TLocal s' g' c := by
  unfold TLocal at h ⊢
  rw [hpc, hsrc, hnow, hi, hr, hst, he]
  cases hp : s.pc c with
  | waiting l =>
    simp only [hp] at h ⊢
    refine ⟨h.1, fun r hr' => ?_⟩
    rcases hres l r hr' with h1 | h1 | h1
    · rcases h.2 r h1 with h3 | ⟨v, h3⟩
      · left
        rcases hend l with h2 | h2
        · rw [h2]; exact h3
        · exact absurd h2 (pub_not_running hinv l r h1)
      · right
        refine ⟨v, ?_⟩
        rcases hsl l with h4 | h4
        · rw [h4] at h1; cases h1
        · rw [h4]; exact h3
    · exact Or.inl h1
    · exact Or.inr h1
  | done r =>
    simp only [hp] at h ⊢
    cases hs : s.src c with
    | none => simp only [hs] at h
    | some x =>
      cases x with
      | hit v => simp only [hs] at h ⊢; exact h
      | lhit l v => simp only [hs] at h ⊢; exact h
      | exec l =>
        simp only [hs] at h ⊢
        rcases h with h | ⟨h1, ti, te, h2, h3, h4, h5⟩
        · exact Or.inl h
        · refine Or.inr ⟨h1, ti, te, h2, ?_, h4, h5⟩
          rcases hend l with h6 | h6
          · rw [h6]; exact h3
          · exact absurd h6 (pub_not_running hinv l r (joiner_published hinv c l r hp hs h1))
  | idle => simp only [hp] at h ⊢
  | start => simp only [hp] at h ⊢; exact h
  | missed => simp only [hp] at h ⊢; exact h
  | leader => simp only [hp] at h ⊢; exact h
  | running => simp only [hp] at h ⊢; exact h
  | ran r => simp only [hp] at h ⊢; exact h
  | setDone r => simp only [hp] at h ⊢; exact h

theorem tinv_init (c0 : Nat → Cell) (now : Int) : TInv (init c0 now) EvLog.empty where
  mono := by intro c ti h; simp [EvLog.empty] at h
  loc := by intro c; simp [TLocal, init]

theorem linv_init (cfg : Cfg) (c0 : Nat → Cell) (now : Int) : LInv cfg (init c0 now) EvLog.empty where
  fl := by intro c l h; simp [init] at h
  lead := by intro c v h; simp [init] at h
  fresh := by intro c l h; simp [init] at h
  wait := by intro c l v h; simp [init] at h

theorem active_result_none {cfg : Cfg} {s : State} {l : Nat} (h : Local cfg s l)
    (ha : active (s.pc l) = true) : s.result l = none := by
  unfold Local at h
  cases hp : s.pc l with
  | leader => simp only [hp] at h; exact h.2.2.2
  | running => simp only [hp] at h; exact h.2.2.2
  | ran r => simp only [hp] at h; exact h.2.2.2
  | setDone r =>
    simp only [hp] at h
    rcases h with h | ⟨v, _, _, _, _, h⟩
    · exact h.2.2.2
    · exact h
  | idle => simp [hp, active] at ha
  | start => simp [hp, active] at ha
  | missed => simp [hp, active] at ha
  | waiting x => simp [hp, active] at ha
  | done r => simp [hp, active] at ha

/-- a leader whose re-check hit the cache and that has not published yet is about to (`setDone`) -/
theorem lhit_pending {cfg : Cfg} {s : State} {c : Nat} {v : Int} (h : Local cfg s c)
    (hs : s.src c = some (.lhit c v)) (hr : s.result c = none) : ∃ r, s.pc c = .setDone r := by
  unfold Local at h
  cases hp : s.pc c with
  | setDone r => exact ⟨r, rfl⟩
  | idle => simp only [hp] at h; rw [h.1] at hs; cases hs
  | start => simp only [hp] at h; rw [h.1] at hs; cases hs
  | missed => simp only [hp] at h; rw [h.1] at hs; cases hs
  | waiting x => simp only [hp] at h; rw [h.1] at hs; cases hs
  | leader => simp only [hp] at h; rw [h.1] at hs; cases hs
  | running => simp only [hp] at h; rw [h.1] at hs; cases hs
  | ran r => simp only [hp] at h; rw [h.1] at hs; cases hs
  | done r =>
    simp only [hp] at h
    rcases h with ⟨w, _, h2, _⟩ | ⟨h2, _⟩ | ⟨y, h2, _⟩ | ⟨w, _, _, _, _, h2⟩ | ⟨y, w, _, h2, _, h3, _, _, h4, _⟩
    · rw [hs] at h2; cases h2
    · rw [hs] at h2; cases h2
    · rw [hs] at h2; cases h2
    · rw [hr] at h2; cases h2
    · rw [hs] at h2; cases h2; rw [hr] at h3; cases h3

/-- a value that is live now survives an offer made now (the cache refuses to replace a live value) -/
theorem cellSet_of_live {E t T0 : Int} {cell : Cell} {v w : Int} (hl : cellGet T0 cell = some v) (ht : t ≤ T0) :
    cellSet E t cell w = cell := by
  unfold cellGet at hl
  unfold cellSet
  split at hl
  · cases hl
  · rename_i x e
    simp only
    by_cases he : e > 0
    · simp only [he, if_true] at hl
      by_cases h2 : T0 > e
      · simp [h2] at hl
      · have : t ≤ e := by omega
        simp [this]
    · have : e ≤ 0 := by omega
      simp [this]

theorem live_after_set {E now : Int} {cache : Nat → Cell} {k ka : Nat} {v w : Int}
    (h : cellGet now (cache k) = some v) :
    cellGet now (upd cache ka (cellSet E now (cache ka) w) k) = some v := by
  by_cases hk : k = ka
  · subst hk
    rw [upd_same, cellSet_of_live h (Int.le_refl _)]
    exact h
  · rw [upd_other _ _ _ _ hk]; exact h

/-- other callers' `TLocal` facts when only `a`'s instants are written and nothing is published -/
macro "tothers " hinv:term:max s:term:max g:term:max hca:term:max hra:term:max hend:term:max h:term:max : tactic =>
  `(tactic| exact tlocal_congr (s := $s) (g := $g) $hinv
      (by first | rfl | exact upd_other _ _ _ _ $hca) (by first | rfl | exact upd_other _ _ _ _ $hca) rfl
      (by first | rfl | exact upd_other _ _ _ _ $hca) (by first | rfl | exact upd_other _ _ _ _ $hca)
      (by first | rfl | exact upd_other _ _ _ _ $hca) (by first | rfl | exact upd_other _ _ _ _ $hca)
      (fun _ _ hr => Or.inl hr) (by first | exact fun _ => Or.inr rfl | exact src_keep $hra) $hend $h)

theorem tinv_step {cfg : Cfg} {c0 : Nat → Cell} {s s' : State} {g : EvLog} {l : Label}
    (hinv : Inv cfg c0 s) (hsi : SInv cfg s g) (h : TInv s g) (hl : LInv cfg s g)
    (hs : step cfg s l = some s')
    (hp : ∀ d, l = .tick d → ∀ c, blocked s c) : TInv s' (logStep cfg s g l) := by
  obtain ⟨m, t⟩ := h
  have noend : ∀ x, g.endT x = g.endT x ∨ s.pc x = .running := fun _ => Or.inl rfl
  cases l with
  | invoke a =>
    simp only [step] at hs
    split at hs <;> try (simp at hs)
    rename_i hpc
    have hla := hinv.loc a
    simp only [Local, hpc] at hla
    have hra : s.result a = none := hla.2.2.2
    subst hs
    refine ⟨?_, ?_⟩
    · intro c ti hc
      simp only [logStep, upd_apply] at hc
      split at hc
      · cases hc; exact Int.le_refl _
      · exact m c ti hc
    · intro c
      by_cases hca : c = a
      · subst hca; simp only [TLocal, upd_same, logStep]
      · tothers hinv s g hca hra noend (t c)
  | cacheCheck a =>
    simp only [step] at hs
    split at hs <;> try (simp at hs)
    rename_i hpc
    have ha := t a
    simp only [TLocal, hpc] at ha
    have hla := hinv.loc a
    simp only [Local, hpc] at hla
    have hra : s.result a = none := hla.2.2.2
    split at hs <;> simp at hs <;> subst hs
    · rename_i v hv
      refine ⟨?_, ?_⟩
      · intro c ti hc; simp only [logStep, hv] at hc; exact m c ti hc
      · intro c
        by_cases hca : c = a
        · subst hca
          simp only [TLocal, upd_same, logStep, hv]
          exact ⟨s.now, ha, rfl⟩
        · simp only [logStep, hv]
          tothers hinv s g hca hra noend (t c)
    · rename_i hv
      refine ⟨?_, ?_⟩
      · intro c ti hc; simp only [logStep, hv] at hc; exact m c ti hc
      · intro c
        by_cases hca : c = a
        · subst hca
          simp only [TLocal, upd_same, logStep, hv]
          exact ha
        · simp only [logStep, hv]
          tothers hinv s g hca hra noend (t c)
  | doEnter a =>
    simp only [step] at hs
    split at hs <;> try (simp at hs)
    rename_i hpc
    have ha := t a
    simp only [TLocal, hpc] at ha
    have hla := hinv.loc a
    simp only [Local, hpc] at hla
    have hra : s.result a = none := hla.2.2.2
    split at hs <;> simp at hs <;> subst hs
    · rename_i l hl'
      refine ⟨fun c ti hc => m c ti hc, ?_⟩
      intro c
      by_cases hca : c = a
      · subst hca
        have hrl := active_result_none (hinv.loc l) (hsi.flt _ _ hl')
        simp only [TLocal, upd_same, logStep]
        refine ⟨⟨s.now, ha⟩, fun r hr => ?_⟩
        rw [hrl] at hr; cases hr
      · tothers hinv s g hca hra noend (t c)
    · refine ⟨fun c ti hc => m c ti hc, ?_⟩
      intro c
      by_cases hca : c = a
      · subst hca
        simp only [TLocal, upd_same, logStep]
        exact ha
      · tothers hinv s g hca hra noend (t c)
  | leadHit a =>
    simp only [step] at hs
    split at hs <;> try (simp at hs)
    rename_i hpc
    have ha := t a
    simp only [TLocal, hpc] at ha
    have hla := hinv.loc a
    simp only [Local, hpc] at hla
    have hra : s.result a = none := hla.2.2.2
    split at hs <;> simp at hs
    subst hs
    refine ⟨fun c ti hc => m c ti hc, ?_⟩
    intro c
    by_cases hca : c = a
    · subst hca
      simp only [TLocal, upd_same, logStep]
      exact ha
    · tothers hinv s g hca hra noend (t c)
  | fnStart a =>
    simp only [step] at hs
    split at hs <;> try (simp at hs)
    rename_i hpc
    have ha := t a
    simp only [TLocal, hpc] at ha
    have hla := hinv.loc a
    simp only [Local, hpc] at hla
    have hra : s.result a = none := hla.2.2.2
    split at hs <;> simp at hs
    subst hs
    refine ⟨fun c ti hc => m c ti hc, ?_⟩
    intro c
    by_cases hca : c = a
    · subst hca
      simp only [TLocal, upd_same, logStep]
      exact ⟨s.now, ha, rfl⟩
    · tothers hinv s g hca hra noend (t c)
  | fnEnd a r =>
    simp only [step] at hs
    split at hs <;> try (simp at hs)
    rename_i hpc
    have ha := t a
    simp only [TLocal, hpc] at ha
    have hla := hinv.loc a
    simp only [Local, hpc] at hla
    have hra : s.result a = none := hla.2.2.2
    subst hs
    refine ⟨fun c ti hc => m c ti hc, ?_⟩
    intro c
    by_cases hca : c = a
    · subst hca
      obtain ⟨ti, h1, h2⟩ := ha
      simp only [TLocal, upd_same, logStep]
      exact ⟨ti, h1, h2, trivial⟩
    · have hend : ∀ x, (logStep cfg s g (.fnEnd a r)).endT x = g.endT x ∨ s.pc x = .running := by
        intro x
        by_cases hxa : x = a
        · subst hxa; exact Or.inr hpc
        · exact Or.inl (upd_other _ _ _ _ hxa)
      tothers hinv s g hca hra hend (t c)
  | cacheSet a =>
    simp only [step] at hs
    split at hs <;> try (simp at hs)
    all_goals
      rename_i hpc
      have ha := t a
      simp only [TLocal, hpc] at ha
      have hla := hinv.loc a
      simp only [Local, hpc] at hla
      have hra : s.result a = none := hla.2.2.2
      have hsrc : s.src a = some (.exec a) := hla.1
      subst hs
      refine ⟨fun c ti hc => m c ti hc, ?_⟩
      intro c
      by_cases hca : c = a
      · subst hca
        simp only [TLocal, upd_same, logStep, hsrc]
        exact ha
      · tothers hinv s g hca hra noend (t c)
  | doFinish a =>
    simp only [step] at hs
    split at hs <;> try (simp at hs)
    rename_i r hpc
    have ha := t a
    simp only [TLocal, hpc] at ha
    have hla := hinv.loc a
    simp only [Local, hpc] at hla
    subst hs
    refine ⟨fun c ti hc => m c ti hc, ?_⟩
    rcases hla with hla | ⟨v, _, hla, _⟩
    · simp only [hla.1] at ha
      intro c
      by_cases hca : c = a
      · subst hca
        obtain ⟨ti, h1, h2, h3⟩ := ha
        simp only [TLocal, upd_same, logStep, hla.1]
        exact Or.inl ⟨trivial, ti, s.now, h1, h2, h3, rfl, m c ti h1⟩
      · obtain ⟨ti, h1, h2, h3⟩ := ha
        exact tlocal_congr (s := s) (g := g) hinv (upd_other _ _ _ _ hca) rfl rfl rfl (upd_other _ _ _ _ hca) rfl rfl
          (fun x r' hr => by
            by_cases hxa : x = a
            · subst hxa; exact Or.inr (Or.inl h3)
            · have hr' : upd s.result a (some r) x = some r' := hr
              rw [upd_other _ _ _ _ hxa] at hr'; exact Or.inl hr')
          (fun _ => Or.inr rfl) noend (t c)
    · simp only [hla] at ha
      intro c
      by_cases hca : c = a
      · subst hca
        simp only [TLocal, upd_same, logStep, hla]
        exact ⟨s.now, ha, rfl⟩
      · exact tlocal_congr (s := s) (g := g) hinv (upd_other _ _ _ _ hca) rfl rfl rfl (upd_other _ _ _ _ hca) rfl rfl
          (fun x r' hr => by
            by_cases hxa : x = a
            · subst hxa; exact Or.inr (Or.inr ⟨v, hla⟩)
            · have hr' : upd s.result a (some r) x = some r' := hr
              rw [upd_other _ _ _ _ hxa] at hr'; exact Or.inl hr')
          (fun _ => Or.inr rfl) noend (t c)
  | wake a =>
    simp only [step] at hs
    split at hs <;> try (simp at hs)
    rename_i l hpc
    have ha := t a
    simp only [TLocal, hpc] at ha
    have hla := hinv.loc a
    simp only [Local, hpc] at hla
    have hra : s.result a = none := hla.2.2.2.1
    split at hs <;> simp at hs
    rename_i r hr
    subst hs
    refine ⟨fun c ti hc => m c ti hc, ?_⟩
    intro c
    by_cases hca : c = a
    · subst hca
      obtain ⟨⟨ti, h1⟩, h2⟩ := ha
      have hlc : l ≠ c := by
        intro h; subst h
        have := (published_done (hinv.loc l) hr).1
        rw [hpc] at this; cases this
      rcases (published_done (hinv.loc l) hr).2 with hsl | ⟨v, _, hsl⟩
      · have e1 : wakeSrc s c l = some (.exec l) := by simp only [wakeSrc, hsl]; exact hla.1
        simp only [TLocal, upd_same, logStep, e1]
        rcases h2 r hr with h3 | ⟨v, h3⟩
        · exact Or.inr ⟨hlc, ti, s.now, h1, h3, rfl, m c ti h1⟩
        · rw [hsl] at h3; cases h3
      · have e1 : wakeSrc s c l = some (.lhit l v) := by simp only [wakeSrc, hsl]
        simp only [TLocal, upd_same, logStep, e1]
        exact ⟨s.now, (hl.wait c l v hpc hsl).1, rfl⟩
    · tothers hinv s g hca hra noend (t c)
  | tick d =>
    simp only [step, Option.some.injEq] at hs
    subst hs
    have hb := hp d rfl
    refine ⟨?_, ?_⟩
    · intro c ti hc
      have := m c ti hc
      simp only [logStep] at hc ⊢
      omega
    · intro c
      have hbc := hb c
      have htc := t c
      unfold blocked at hbc
      unfold TLocal at htc ⊢
      cases hpc : s.pc c with
      | idle => trivial
      | start => simp only [hpc] at hbc
      | missed => simp only [hpc] at hbc
      | leader => simp only [hpc] at hbc
      | ran r => simp only [hpc] at hbc
      | setDone r => simp only [hpc] at hbc
      | waiting l =>
        simp only [hpc] at hbc htc ⊢
        refine ⟨htc.1, fun r hr => ?_⟩
        rw [hbc] at hr; cases hr
      | running => simp only [hpc] at htc ⊢; exact htc
      | done r => simp only [hpc] at htc ⊢; exact htc

/-- steps that change neither the clock nor the cache, add no joiner and no re-check hit -/
theorem linv_frame {cfg : Cfg} {s s' : State} {g g' : EvLog} (hl : LInv cfg s g)
    (hnow : s'.now = s.now) (hcache : s'.cache = s.cache)
    (hw : ∀ c l, s'.pc c = .waiting l → s.pc c = .waiting l ∧ g'.invT c = g.invT c)
    (hfl : ∀ c l, s.pc c = .waiting l → (s.flight (cfg.key c) = some l ∨ ∃ r, s.result l = some r) →
        (s'.flight (cfg.key c) = some l ∨ ∃ r, s'.result l = some r))
    (hld : ∀ c l, s.pc c = .waiting l → s'.pc l = .leader → s.pc l = .leader)
    (hsrc : ∀ l v, s'.src l = some (.lhit l v) → s.src l = some (.lhit l v))
    (hres : ∀ c, s'.result c = none → s.result c = none) : LInv cfg s' g' := by
  refine ⟨?_, ?_, ?_, ?_⟩
  · intro c l hc
    obtain ⟨h1, _⟩ := hw c l hc
    exact hfl c l h1 (hl.fl c l h1)
  · intro c v h1 h2
    rw [hnow, hcache]
    exact hl.lead c v (hsrc c v h1) (hres c h2)
  · intro c l hc hl'
    obtain ⟨h1, h2⟩ := hw c l hc
    rw [h2, hnow]
    exact hl.fresh c l h1 (hld c l h1 hl')
  · intro c l v hc hs
    obtain ⟨h1, h2⟩ := hw c l hc
    rw [h2, hnow, hcache]
    exact hl.wait c l v h1 (hsrc l v hs)

/-- only `a` moved, and not to `waiting` -/
theorem waiting_other {pc : Nat → PC} {a c l : Nat} {p : PC} (hp : ∀ x, p ≠ .waiting x)
    (h : upd pc a p c = .waiting l) : c ≠ a ∧ pc c = .waiting l := by
  by_cases hca : c = a
  · subst hca; rw [upd_same] at h; exact absurd h (hp l)
  · rw [upd_other _ _ _ _ hca] at h; exact ⟨hca, h⟩

theorem leader_other {pc : Nat → PC} {a c : Nat} {p : PC} (hp : p ≠ .leader)
    (h : upd pc a p c = .leader) : pc c = .leader := by
  by_cases hca : c = a
  · subst hca; rw [upd_same] at h; exact absurd h hp
  · rw [upd_other _ _ _ _ hca] at h; exact h

theorem linv_step {cfg : Cfg} {c0 : Nat → Cell} {s s' : State} {g : EvLog} {l : Label}
    (hinv : Inv cfg c0 s) (hsi : SInv cfg s g) (hti : TInv s g) (hl : LInv cfg s g)
    (hs : step cfg s l = some s')
    (hp : ∀ d, l = .tick d → ∀ c, blocked s c) : LInv cfg s' (logStep cfg s g l) := by
  cases l with
  | invoke a =>
    simp only [step] at hs
    split at hs <;> try (simp at hs)
    rename_i hpc
    subst hs
    refine linv_frame hl rfl rfl ?_ (fun _ _ _ h => h) ?_ (fun _ _ h => h) (fun _ h => h)
    · intro c l hc
      obtain ⟨hca, h1⟩ := waiting_other (by intro x; simp) hc
      exact ⟨h1, upd_other _ _ _ _ hca⟩
    · intro c l _ h; exact leader_other (by simp) h
  | cacheCheck a =>
    simp only [step] at hs
    split at hs <;> try (simp at hs)
    rename_i hpc
    have hla := hinv.loc a
    simp only [Local, hpc] at hla
    split at hs <;> simp at hs <;> subst hs
    · rename_i v hv
      simp only [logStep, hv]
      refine linv_frame hl rfl rfl ?_ (fun _ _ _ h => h) ?_ ?_ (fun _ h => h)
      · intro c l hc
        obtain ⟨hca, h1⟩ := waiting_other (by intro x; simp) hc
        exact ⟨h1, rfl⟩
      · intro c l _ h; exact leader_other (by simp) h
      · intro l w h
        by_cases hla' : l = a
        · subst hla'
          have h' : upd s.src l (some (Src.hit v)) l = some (Src.lhit l w) := h
          rw [upd_same] at h'; cases h'
        · have h' : upd s.src a (some (Src.hit v)) l = some (Src.lhit l w) := h
          rw [upd_other _ _ _ _ hla'] at h'; exact h'
    · rename_i hv
      simp only [logStep, hv]
      refine linv_frame hl rfl rfl ?_ (fun _ _ _ h => h) ?_ (fun _ _ h => h) (fun _ h => h)
      · intro c l hc
        obtain ⟨hca, h1⟩ := waiting_other (by intro x; simp) hc
        exact ⟨h1, rfl⟩
      · intro c l _ h; exact leader_other (by simp) h
  | doEnter a =>
    simp only [step] at hs
    split at hs <;> try (simp at hs)
    rename_i hpc
    have hla := hinv.loc a
    simp only [Local, hpc] at hla
    have hta := hti.loc a
    simp only [TLocal, hpc] at hta
    split at hs <;> simp at hs <;> subst hs
    · -- `a` joins the flight led by `l0`
      rename_i l0 hl0
      have hact := hsi.flt _ _ hl0
      have hrl := active_result_none (hinv.loc l0) hact
      have hkey := hinv.fkey _ _ hl0
      have hl0a : l0 ≠ a := by intro h; subst h; rw [hpc] at hact; simp [active] at hact
      have hsrc : ∀ l v, upd s.src a (some (Src.exec l0)) l = some (Src.lhit l v) → s.src l = some (Src.lhit l v) := by
        intro l v h
        by_cases hla' : l = a
        · subst hla'; rw [upd_same] at h; cases h
        · rw [upd_other _ _ _ _ hla'] at h; exact h
      have hpcl : ∀ l, l ≠ a → upd s.pc a (PC.waiting l0) l = s.pc l := fun l h => upd_other _ _ _ _ h
      refine ⟨?_, ?_, ?_, ?_⟩
      · intro c l hc
        by_cases hca : c = a
        · subst hca
          have hc' : upd s.pc c (PC.waiting l0) c = PC.waiting l := hc
          rw [upd_same] at hc'; cases hc'
          exact Or.inl hl0
        · have hc' : upd s.pc a (PC.waiting l0) c = PC.waiting l := hc
          rw [upd_other _ _ _ _ hca] at hc'
          exact hl.fl c l hc'
      · intro c v h1 h2
        exact hl.lead c v (hsrc c v h1) h2
      · intro c l hc hld
        have hld' : upd s.pc a (PC.waiting l0) l = PC.leader := hld
        have hlne : l ≠ a := by intro h; subst h; rw [upd_same] at hld'; cases hld'
        rw [upd_other _ _ _ _ hlne] at hld'
        by_cases hca : c = a
        · subst hca; exact hta
        · have hc' : upd s.pc a (PC.waiting l0) c = PC.waiting l := hc
          rw [upd_other _ _ _ _ hca] at hc'
          exact hl.fresh c l hc' hld'
      · intro c l v hc h1
        have h1' := hsrc l v h1
        by_cases hca : c = a
        · subst hca
          have hc' : upd s.pc c (PC.waiting l0) c = PC.waiting l := hc
          rw [upd_same] at hc'; cases hc'
          refine ⟨hta, ?_⟩
          have := hl.lead l0 v h1' hrl
          rw [hkey] at this; exact this
        · have hc' : upd s.pc a (PC.waiting l0) c = PC.waiting l := hc
          rw [upd_other _ _ _ _ hca] at hc'
          exact hl.wait c l v hc' h1'
    · -- `a` becomes the leader of its key
      rename_i hfl0
      refine linv_frame hl rfl rfl ?_ ?_ ?_ ?_ (fun _ h => h)
      · intro c l hc
        obtain ⟨hca, h1⟩ := waiting_other (by intro x; simp) hc
        exact ⟨h1, rfl⟩
      · intro c l hc h
        rcases h with h | h
        · by_cases hk : cfg.key c = cfg.key a
          · rw [hk, hfl0] at h; cases h
          · exact Or.inl ((upd_other _ _ _ _ hk).trans h)
        · exact Or.inr h
      · intro c l hc h
        by_cases hla' : l = a
        · subst hla'
          exfalso
          rcases hl.fl c l hc with h1 | ⟨r, h1⟩
          · have := hsi.flt _ _ h1
            rw [hpc] at this; simp [active] at this
          · rw [hla.2.2.2] at h1; cases h1
        · have h' : upd s.pc a PC.leader l = PC.leader := h
          rw [upd_other _ _ _ _ hla'] at h'; exact h'
      · intro l w h
        by_cases hla' : l = a
        · subst hla'
          have h' : upd s.src l (some (Src.exec l)) l = some (Src.lhit l w) := h
          rw [upd_same] at h'; cases h'
        · have h' : upd s.src a (some (Src.exec a)) l = some (Src.lhit l w) := h
          rw [upd_other _ _ _ _ hla'] at h'; exact h'
  | leadHit a =>
    simp only [step] at hs
    split at hs <;> try (simp at hs)
    rename_i hpc
    have hla := hinv.loc a
    simp only [Local, hpc] at hla
    split at hs <;> simp at hs
    rename_i v hv
    subst hs
    have hsrc : ∀ l w, upd s.src a (some (Src.lhit a v)) l = some (Src.lhit l w) →
        (l = a ∧ w = v) ∨ (l ≠ a ∧ s.src l = some (Src.lhit l w)) := by
      intro l w h
      by_cases hla' : l = a
      · subst hla'; rw [upd_same] at h; cases h; exact Or.inl ⟨rfl, rfl⟩
      · rw [upd_other _ _ _ _ hla'] at h; exact Or.inr ⟨hla', h⟩
    refine ⟨?_, ?_, ?_, ?_⟩
    · intro c l hc
      obtain ⟨_, h1⟩ := waiting_other (by intro x; simp) hc
      exact hl.fl c l h1
    · intro c w h1 h2
      rcases hsrc c w h1 with ⟨h3, h4⟩ | ⟨_, h3⟩
      · subst h3; subst h4; exact hv
      · exact hl.lead c w h3 h2
    · intro c l hc hld
      obtain ⟨_, h1⟩ := waiting_other (by intro x; simp) hc
      exact hl.fresh c l h1 (leader_other (by simp) hld)
    · intro c l w hc h1
      obtain ⟨_, h2⟩ := waiting_other (by intro x; simp) hc
      rcases hsrc l w h1 with ⟨h3, h4⟩ | ⟨_, h3⟩
      · subst h3; subst h4
        have hk := hinv.loc c
        simp only [Local, h2] at hk
        refine ⟨hl.fresh c l h2 hpc, ?_⟩
        rw [← hk.2.2.2.2]; exact hv
      · exact hl.wait c l w h2 h3
  | fnStart a =>
    simp only [step] at hs
    split at hs <;> try (simp at hs)
    rename_i hpc
    split at hs <;> simp at hs
    subst hs
    refine linv_frame hl rfl rfl ?_ (fun _ _ _ h => h) ?_ (fun _ _ h => h) (fun _ h => h)
    · intro c l hc
      obtain ⟨hca, h1⟩ := waiting_other (by intro x; simp) hc
      exact ⟨h1, rfl⟩
    · intro c l _ h; exact leader_other (by simp) h
  | fnEnd a r =>
    simp only [step] at hs
    split at hs <;> try (simp at hs)
    rename_i hpc
    subst hs
    refine linv_frame hl rfl rfl ?_ (fun _ _ _ h => h) ?_ (fun _ _ h => h) (fun _ h => h)
    · intro c l hc
      obtain ⟨hca, h1⟩ := waiting_other (by intro x; simp) hc
      exact ⟨h1, rfl⟩
    · intro c l _ h; exact leader_other (by simp) h
  | cacheSet a =>
    simp only [step] at hs
    split at hs <;> try (simp at hs)
    · rename_i v hpc
      subst hs
      refine ⟨?_, ?_, ?_, ?_⟩
      · intro c l hc
        obtain ⟨_, h1⟩ := waiting_other (by intro x; simp) hc
        exact hl.fl c l h1
      · intro c w h1 h2
        exact live_after_set (hl.lead c w h1 h2)
      · intro c l hc hld
        obtain ⟨_, h1⟩ := waiting_other (by intro x; simp) hc
        exact hl.fresh c l h1 (leader_other (by simp) hld)
      · intro c l w hc h1
        obtain ⟨_, h2⟩ := waiting_other (by intro x; simp) hc
        obtain ⟨k1, k2⟩ := hl.wait c l w h2 h1
        exact ⟨k1, live_after_set k2⟩
    · rename_i hpc
      subst hs
      refine linv_frame hl rfl rfl ?_ (fun _ _ _ h => h) ?_ (fun _ _ h => h) (fun _ h => h)
      · intro c l hc
        obtain ⟨hca, h1⟩ := waiting_other (by intro x; simp) hc
        exact ⟨h1, rfl⟩
      · intro c l _ h; exact leader_other (by simp) h
  | doFinish a =>
    simp only [step] at hs
    split at hs <;> try (simp at hs)
    rename_i r hpc
    have hfa := hinv.lead a (by simp [hpc, active])
    subst hs
    refine linv_frame hl rfl rfl ?_ ?_ ?_ (fun _ _ h => h) ?_
    · intro c l hc
      obtain ⟨hca, h1⟩ := waiting_other (by intro x; simp) hc
      exact ⟨h1, rfl⟩
    · intro c l hc h
      rcases h with h | ⟨r', h⟩
      · by_cases hk : cfg.key c = cfg.key a
        · rw [hk, hfa] at h; cases h
          exact Or.inr ⟨r, upd_same _ _ _⟩
        · exact Or.inl ((upd_other _ _ _ _ hk).trans h)
      · by_cases hla' : l = a
        · subst hla'; exact Or.inr ⟨r, upd_same _ _ _⟩
        · exact Or.inr ⟨r', (upd_other _ _ _ _ hla').trans h⟩
    · intro c l _ h; exact leader_other (by simp) h
    · intro c h
      by_cases hca : c = a
      · subst hca
        have h' : upd s.result c (some r) c = none := h
        rw [upd_same] at h'; cases h'
      · have h' : upd s.result a (some r) c = none := h
        rw [upd_other _ _ _ _ hca] at h'; exact h'
  | wake a =>
    simp only [step] at hs
    split at hs <;> try (simp at hs)
    rename_i l0 hpc
    have hla := hinv.loc a
    simp only [Local, hpc] at hla
    split at hs <;> simp at hs
    rename_i r hr
    subst hs
    have hl0a : l0 ≠ a := by intro h; subst h; rw [hla.2.2.2.1] at hr; cases hr
    refine linv_frame hl rfl rfl ?_ (fun _ _ _ h => h) ?_ ?_ (fun _ h => h)
    · intro c l hc
      obtain ⟨hca, h1⟩ := waiting_other (by intro x; simp) hc
      exact ⟨h1, rfl⟩
    · intro c l _ h; exact leader_other (by simp) h
    · intro l w h
      by_cases hla' : l = a
      · subst hla'
        exfalso
        have h' : upd s.src l (wakeSrc s l l0) l = some (Src.lhit l w) := h
        rw [upd_same] at h'
        unfold wakeSrc at h'
        split at h'
        · cases h'; exact hl0a rfl
        · rw [hla.1] at h'; cases h'
      · have h' : upd s.src a (wakeSrc s a l0) l = some (Src.lhit l w) := h
        rw [upd_other _ _ _ _ hla'] at h'; exact h'
  | tick d =>
    simp only [step, Option.some.injEq] at hs
    subst hs
    have hb := hp d rfl
    have nb_setDone : ∀ c r, s.pc c = .setDone r → False := by
      intro c r h
      have := hb c
      simp only [blocked, h] at this
    refine ⟨hl.fl, ?_, ?_, ?_⟩
    · intro c v h1 h2
      obtain ⟨r, h3⟩ := lhit_pending (hinv.loc c) h1 h2
      exact absurd h3 (fun h => nb_setDone c r h)
    · intro c l hc hld
      have hld' : s.pc l = .leader := hld
      have := hb l
      simp only [blocked, hld'] at this
    · intro c l v hc h1
      have hc' : s.pc c = .waiting l := hc
      have hbc := hb c
      simp only [blocked, hc'] at hbc
      obtain ⟨r, h3⟩ := lhit_pending (hinv.loc l) h1 hbc
      exact absurd h3 (fun h => nb_setDone l r h)


theorem reachableLogP_reachableLog {cfg : Cfg} {s0 s : State} {g : EvLog}
    (h : ReachableLogP cfg s0 s g) : ReachableLog cfg s0 s g := by
  induction h with
  | refl => exact ReachableLog.refl
  | step l _ hs _ ih => exact ReachableLog.step l ih hs

/-- under the virtual clock the instant invariants hold for every reachable (state, log) pair -/
theorem tlinv_reachable {cfg : Cfg} {c0 : Nat → Cell} {now : Int} {s : State} {g : EvLog}
    (h : ReachableLogP cfg (init c0 now) s g) : TInv s g ∧ LInv cfg s g := by
  induction h with
  | refl => exact ⟨tinv_init c0 now, linv_init cfg c0 now⟩
  | step l hr hs hp ih =>
    have := sinv_reachable (reachableLogP_reachableLog hr)
    exact ⟨tinv_step this.1 this.2 ih.1 ih.2 hs hp, linv_step this.1 this.2 ih.1 ih.2 hs hp⟩

/-- under the virtual clock all three invariants hold for every reachable (state, log) pair -/
theorem tinv_reachable {cfg : Cfg} {c0 : Nat → Cell} {now : Int} {s : State} {g : EvLog}
    (h : ReachableLogP cfg (init c0 now) s g) : TInv s g := (tlinv_reachable h).1

theorem linv_reachable {cfg : Cfg} {c0 : Nat → Cell} {now : Int} {s : State} {g : EvLog}
    (h : ReachableLogP cfg (init c0 now) s g) : LInv cfg s g := (tlinv_reachable h).2

/-- instants are recorded exactly where sequence numbers are -/
structure TimOK (g : EvLog) : Prop where
  inv : ∀ c, (g.invT c).isSome = (g.invAt c).isSome
  ret : ∀ c, (g.retT c).isSome = (g.retAt c).isSome
  start : ∀ c, (g.startT c).isSome = (g.startAt c).isSome
  «end» : ∀ c, (g.endT c).isSome = (g.endAt c).isSome

theorem timok_upd {f : Nat → Option Int} {f' : Nat → Option Nat} {a : Nat} {x : Int} {n : Nat}
    (h : ∀ c, (f c).isSome = (f' c).isSome) (c : Nat) :
    (upd f a (some x) c).isSome = (upd f' a (some n) c).isSome := by
  simp only [upd_apply]
  split
  · rfl
  · exact h c

theorem timok_step (cfg : Cfg) (s : State) (g : EvLog) (l : Label) (h : TimOK g) : TimOK (logStep cfg s g l) := by
  obtain ⟨h1, h2, h3, h4⟩ := h
  cases l with
  | invoke a => exact ⟨timok_upd h1, h2, h3, h4⟩
  | cacheCheck a =>
    simp only [logStep]
    split
    · exact ⟨h1, timok_upd h2, h3, h4⟩
    · exact ⟨h1, h2, h3, h4⟩
  | doEnter a => exact ⟨h1, h2, h3, h4⟩
  | leadHit a => exact ⟨h1, h2, h3, h4⟩
  | fnStart a => exact ⟨h1, h2, timok_upd h3, h4⟩
  | fnEnd a r => exact ⟨h1, h2, h3, timok_upd h4⟩
  | cacheSet a => exact ⟨h1, h2, h3, h4⟩
  | doFinish a => exact ⟨h1, timok_upd h2, h3, h4⟩
  | wake a => exact ⟨h1, timok_upd h2, h3, h4⟩
  | tick d => exact ⟨h1, h2, h3, h4⟩

theorem timok_reachable {cfg : Cfg} {s0 s : State} {g : EvLog} (h : ReachableLog cfg s0 s g) : TimOK g := by
  induction h with
  | refl => exact ⟨fun _ => rfl, fun _ => rfl, fun _ => rfl, fun _ => rfl⟩
  | step l _ _ ih => exact timok_step _ _ _ l ih

theorem eraseDups_of_nodup {α : Type} [BEq α] [LawfulBEq α] : ∀ l : List α, l.Nodup → l.eraseDups = l
  | [], _ => rfl
  | a :: as, h => by
    rw [List.nodup_cons] at h
    rw [List.eraseDups_cons]
    have : (as.filter fun b => !b == a) = as := by
      rw [List.filter_eq_self]
      intro b hb
      simp only [Bool.not_eq_true', beq_eq_false_iff_ne, ne_eq]
      intro hba; subst hba; exact h.1 hb
    rw [this, eraseDups_of_nodup as h.2]

/-! ## what is in the cache, and what a hit read (virtual clock) -/

theorem cellGet_some {now : Int} {c : Cell} {v : Int} (h : cellGet now c = some v) : ∃ e, c = some (v, e) := by
  unfold cellGet at h
  split at h
  · cases h
  · rename_i w e
    split at h
    · split at h
      · cases h
      · cases h; exact ⟨e, rfl⟩
    · cases h; exact ⟨e, rfl⟩

/-- where a cached entry comes from: the cache before the run, or the successful execution `l` of that
key, with the deadline computed (default expiration) at the instant that execution ended -/
def CellOrigin (cfg : Cfg) (c0 : Nat → Cell) (s : State) (g : EvLog) (k : Nat) (v e : Int) : Prop :=
  c0 k = some (v, e) ∨
  ∃ l te, cfg.key l = k ∧ s.execRes l = some (.ok v) ∧ g.endT l = some te ∧ e = defaultExp cfg.expTime te

/-- what a cache hit read: an entry for the caller's key that was live at the caller's invocation
instant — the entry from before the run, or the one left by a successful execution that had ended
before the caller returned -/
def HitSource (cfg : Cfg) (c0 : Nat → Cell) (s : State) (g : EvLog) (c : Nat) (v : Int) : Prop :=
  ∃ ti t, g.invT c = some ti ∧ g.retAt c = some t ∧
    ((∃ e, c0 (cfg.key c) = some (v, e) ∧ cellGet ti (some (v, e)) = some v) ∨
     (∃ l te b, cfg.key l = cfg.key c ∧ s.execRes l = some (.ok v) ∧ g.endT l = some te ∧
        g.endAt l = some b ∧ b < t ∧ cellGet ti (some (v, defaultExp cfg.expTime te)) = some v))

/-- what the re-check of a flight's leader read, for a caller of that flight (the leader itself or a
joiner), possibly before the caller has returned: as `HitSource`, with "before the caller returned"
phrased for a caller that may not have returned yet -/
def LeadHitSource (cfg : Cfg) (c0 : Nat → Cell) (s : State) (g : EvLog) (c : Nat) (v : Int) : Prop :=
  ∃ ti, g.invT c = some ti ∧
    ((∃ e, c0 (cfg.key c) = some (v, e) ∧ cellGet ti (some (v, e)) = some v) ∨
     (∃ l te b, cfg.key l = cfg.key c ∧ s.execRes l = some (.ok v) ∧ g.endT l = some te ∧
        g.endAt l = some b ∧ (∀ t, g.retAt c = some t → b < t) ∧
        cellGet ti (some (v, defaultExp cfg.expTime te)) = some v))

/-- once the caller has returned, `LeadHitSource` is `HitSource` -/
theorem LeadHitSource.hitSource {cfg : Cfg} {c0 : Nat → Cell} {s : State} {g : EvLog} {c : Nat} {v : Int} {t : Nat}
    (h : LeadHitSource cfg c0 s g c v) (ht : g.retAt c = some t) : HitSource cfg c0 s g c v := by
  obtain ⟨ti, h1, h2⟩ := h
  refine ⟨ti, t, h1, ht, ?_⟩
  rcases h2 with h2 | ⟨l, te, b, k1, k2, k3, k4, k5, k6⟩
  · exact Or.inl h2
  · exact Or.inr ⟨l, te, b, k1, k2, k3, k4, k5 t ht, k6⟩

structure CInv (cfg : Cfg) (c0 : Nat → Cell) (s : State) (g : EvLog) : Prop where
  orig : ∀ k v e, s.cache k = some (v, e) → CellOrigin cfg c0 s g k v e
  hit : ∀ c v, s.src c = some (.hit v) → HitSource cfg c0 s g c v
  lhit : ∀ c l v, s.src c = some (.lhit l v) → LeadHitSource cfg c0 s g c v

theorem cinv_init (cfg : Cfg) (c0 : Nat → Cell) (now : Int) : CInv cfg c0 (init c0 now) EvLog.empty where
  orig := by intro k v e h; exact Or.inl h
  hit := by intro c v h; simp [init] at h
  lhit := by intro c l v h; simp [init] at h

/-- a step that leaves the cache, the recorded function results and the sources alone, and writes end
instants only for running callers, keeps `CInv` -/
theorem cinv_congr {cfg : Cfg} {c0 : Nat → Cell} {s s' : State} {g g' : EvLog} (hinv : Inv cfg c0 s)
    (hc : ∀ k v e, s'.cache k = some (v, e) → s.cache k = some (v, e) ∨ CellOrigin cfg c0 s' g' k v e)
    (hsrc : ∀ c v, s'.src c = some (.hit v) → s.src c = some (.hit v) ∨ HitSource cfg c0 s' g' c v)
    (hlh : ∀ c l v, s'.src c = some (.lhit l v) → s.src c = some (.lhit l v) ∨ LeadHitSource cfg c0 s' g' c v)
    (hex : ∀ l r, s.execRes l = some r → s'.execRes l = some r)
    (hi : ∀ c, s.src c ≠ none → g'.invT c = g.invT c) (hx : Ext g g')
    (hb : ∀ l b, g.endAt l = some b → b < g.n)
    (hend : ∀ l, g'.endT l = g.endT l ∨ s.pc l = .running)
    (h : CInv cfg c0 s g) : CInv cfg c0 s' g' := by
  have notrun : ∀ l r, s.execRes l = some r → s.pc l ≠ .running := by
    intro l r hr hp
    have := hinv.loc l
    simp only [Local, hp] at this
    rw [this.2.2.1] at hr; cases hr
  have endT_keep : ∀ l r te, s.execRes l = some r → g.endT l = some te → g'.endT l = some te := by
    intro l r te hr ht
    rcases hend l with h1 | h1
    · rw [h1]; exact ht
    · exact absurd h1 (notrun l r hr)
  have endAt_keep : ∀ l b, g.endAt l = some b → g'.endAt l = some b := by
    intro l b k4
    rcases hx.end l with h4 | ⟨h4, _⟩
    · rw [h4]; exact k4
    · rw [h4] at k4; cases k4
  refine ⟨?_, ?_, ?_⟩
  · intro k v e hk
    rcases hc k v e hk with hk | hk
    · rcases h.orig k v e hk with h1 | ⟨l, te, h1, h2, h3, h4⟩
      · exact Or.inl h1
      · exact Or.inr ⟨l, te, h1, hex l _ h2, endT_keep l _ te h2 h3, h4⟩
    · exact hk
  · intro c v hs
    rcases hsrc c v hs with hs | hs
    · obtain ⟨ti, t, h1, h2, h3⟩ := h.hit c v hs
      have h2' : g'.retAt c = some t := by
        rcases hx.ret c with h4 | ⟨h4, _⟩
        · rw [h4]; exact h2
        · rw [h4] at h2; cases h2
      refine ⟨ti, t, by rw [hi c (by rw [hs]; simp)]; exact h1, h2', ?_⟩
      rcases h3 with h3 | ⟨l, te, b, k1, k2, k3, k4, k5, k6⟩
      · exact Or.inl h3
      · exact Or.inr ⟨l, te, b, k1, hex l _ k2, endT_keep l _ te k2 k3, endAt_keep l b k4, k5, k6⟩
    · exact hs
  · intro c l v hs
    rcases hlh c l v hs with hs | hs
    · obtain ⟨ti, h1, h3⟩ := h.lhit c l v hs
      refine ⟨ti, by rw [hi c (by rw [hs]; simp)]; exact h1, ?_⟩
      rcases h3 with h3 | ⟨l', te, b, k1, k2, k3, k4, k5, k6⟩
      · exact Or.inl h3
      · refine Or.inr ⟨l', te, b, k1, hex l' _ k2, endT_keep l' _ te k2 k3, endAt_keep l' b k4, ?_, k6⟩
        intro t ht
        rcases hx.ret c with h4 | ⟨_, h4⟩
        · rw [h4] at ht; exact k5 t ht
        · rw [h4] at ht; cases ht; exact hb l' b k4
    · exact hs

/-- a value that is live in the cache is the one from before the run or was left by a successful execution
of that key that is in the log -/
theorem live_origin {cfg : Cfg} {c0 : Nat → Cell} {s : State} {g : EvLog} (hinv : Inv cfg c0 s) (hsi : SInv cfg s g)
    (h : CInv cfg c0 s g) {k : Nat} {v ti : Int} (hv : cellGet ti (s.cache k) = some v) :
    (∃ e, c0 k = some (v, e) ∧ cellGet ti (some (v, e)) = some v) ∨
    (∃ l te b, cfg.key l = k ∧ s.execRes l = some (.ok v) ∧ g.endT l = some te ∧ g.endAt l = some b ∧ b < g.n ∧
      cellGet ti (some (v, defaultExp cfg.expTime te)) = some v) := by
  obtain ⟨e, he⟩ := cellGet_some hv
  rcases h.orig _ _ _ he with h1 | ⟨l, te, h1, h2, h3, h4⟩
  · left
    refine ⟨e, h1, ?_⟩
    rw [← he]; exact hv
  · right
    obtain ⟨b, hb⟩ := execRes_logged hinv hsi h2
    refine ⟨l, te, b, h1, h2, h3, hb, hsi.bnd l b (Or.inr (Or.inr (Or.inr hb))), ?_⟩
    rw [← h4, ← he]; exact hv

theorem src_upd_hit {src : Nat → Option Src} {a c : Nat} {x : Option Src} {v : Int}
    (hx : ∀ w, x ≠ some (.hit w)) (h : upd src a x c = some (.hit v)) : src c = some (.hit v) := by
  by_cases hca : c = a
  · subst hca; rw [upd_same] at h; exact absurd h (hx v)
  · rw [upd_other _ _ _ _ hca] at h; exact h

theorem src_upd_lhit {src : Nat → Option Src} {a c l : Nat} {x : Option Src} {v : Int}
    (hx : ∀ l w, x ≠ some (.lhit l w)) (h : upd src a x c = some (.lhit l v)) : src c = some (.lhit l v) := by
  by_cases hca : c = a
  · subst hca; rw [upd_same] at h; exact absurd h (hx l v)
  · rw [upd_other _ _ _ _ hca] at h; exact h

theorem cinv_step {cfg : Cfg} {c0 : Nat → Cell} {s s' : State} {g : EvLog} {l : Label}
    (hinv : Inv cfg c0 s) (hsi : SInv cfg s g) (hti : TInv s g) (hl : LInv cfg s g) (h : CInv cfg c0 s g)
    (hs : step cfg s l = some s') : CInv cfg c0 s' (logStep cfg s g l) := by
  have hx : Ext g (logStep cfg s g l) := by
    -- the log grows by one step
    cases l with
    | invoke a =>
      simp only [step] at hs; split at hs <;> try (simp at hs)
      rename_i hpc
      have ha := hsi.loc a; simp only [SLocal, hpc] at ha
      exact ⟨rfl, ext_upd ha.1, fun _ => Or.inl rfl, fun _ => Or.inl rfl, fun _ => Or.inl rfl⟩
    | cacheCheck a =>
      simp only [step] at hs; split at hs <;> try (simp at hs)
      rename_i hpc
      have ha := hsi.loc a; simp only [SLocal, hpc] at ha
      simp only [logStep]
      split
      · exact ⟨rfl, fun _ => Or.inl rfl, ext_upd ha.2.1, fun _ => Or.inl rfl, fun _ => Or.inl rfl⟩
      · exact ⟨rfl, fun _ => Or.inl rfl, fun _ => Or.inl rfl, fun _ => Or.inl rfl, fun _ => Or.inl rfl⟩
    | doEnter a => exact ⟨rfl, fun _ => Or.inl rfl, fun _ => Or.inl rfl, fun _ => Or.inl rfl, fun _ => Or.inl rfl⟩
    | leadHit a => exact ⟨rfl, fun _ => Or.inl rfl, fun _ => Or.inl rfl, fun _ => Or.inl rfl, fun _ => Or.inl rfl⟩
    | fnStart a =>
      simp only [step] at hs; split at hs <;> try (simp at hs)
      rename_i hpc
      have ha := hsi.loc a; simp only [SLocal, hpc] at ha
      exact ⟨rfl, fun _ => Or.inl rfl, fun _ => Or.inl rfl, ext_upd ha.2.2.1, fun _ => Or.inl rfl⟩
    | fnEnd a r =>
      simp only [step] at hs; split at hs <;> try (simp at hs)
      rename_i hpc
      have ha := hsi.loc a; simp only [SLocal, hpc] at ha
      exact ⟨rfl, fun _ => Or.inl rfl, fun _ => Or.inl rfl, fun _ => Or.inl rfl, ext_upd ha.2.2⟩
    | cacheSet a => exact ⟨rfl, fun _ => Or.inl rfl, fun _ => Or.inl rfl, fun _ => Or.inl rfl, fun _ => Or.inl rfl⟩
    | doFinish a =>
      simp only [step] at hs; split at hs <;> try (simp at hs)
      rename_i r hpc
      have ha := hsi.loc a; simp only [SLocal, hpc] at ha
      exact ⟨rfl, fun _ => Or.inl rfl, ext_upd ha.2, fun _ => Or.inl rfl, fun _ => Or.inl rfl⟩
    | wake a =>
      simp only [step] at hs; split at hs <;> try (simp at hs)
      rename_i l' hpc
      have ha := hsi.loc a; simp only [SLocal, hpc] at ha
      exact ⟨rfl, fun _ => Or.inl rfl, ext_upd ha.2.1, fun _ => Or.inl rfl, fun _ => Or.inl rfl⟩
    | tick d => exact ⟨rfl, fun _ => Or.inl rfl, fun _ => Or.inl rfl, fun _ => Or.inl rfl, fun _ => Or.inl rfl⟩
  have noend : ∀ x, g.endT x = g.endT x ∨ s.pc x = .running := fun _ => Or.inl rfl
  have hb : ∀ l b, g.endAt l = some b → b < g.n := fun l b hlb => hsi.bnd l b (Or.inr (Or.inr (Or.inr hlb)))
  cases l with
  | invoke a =>
    have hs0 := hs
    simp only [step] at hs; split at hs <;> try (simp at hs)
    rename_i hpc
    have hla := hinv.loc a; simp only [Local, hpc] at hla
    subst hs
    refine cinv_congr (s := s) (g := g) hinv (fun _ _ _ hk => Or.inl hk) (fun _ _ hk => Or.inl hk)
      (fun _ _ _ hk => Or.inl hk) (fun _ _ hr => hr) ?_ hx hb noend h
    intro c hsc
    have : c ≠ a := by intro hca; subst hca; exact hsc hla.1
    exact upd_other _ _ _ _ this
  | cacheCheck a =>
    simp only [step] at hs; split at hs <;> try (simp at hs)
    rename_i hpc
    have hla := hinv.loc a; simp only [Local, hpc] at hla
    have hta := hti.loc a; simp only [TLocal, hpc] at hta
    split at hs <;> simp at hs <;> subst hs
    · rename_i v hv
      simp only [logStep, hv] at hx ⊢
      refine cinv_congr (s := s) (g := g) hinv (fun _ _ _ hk => Or.inl hk) ?_
        (fun _ _ _ hk => Or.inl (src_upd_lhit (by intro l w; simp) hk)) (fun _ _ hr => hr) (fun _ _ => rfl) hx hb noend h
      intro c w hsc
      by_cases hca : c = a
      · subst hca
        have hsc' : upd s.src c (some (Src.hit v)) c = some (Src.hit w) := hsc
        rw [upd_same] at hsc'
        cases hsc'
        right
        refine ⟨s.now, g.n, hta, upd_same _ _ _, ?_⟩
        rcases live_origin hinv hsi h hv with h1 | ⟨l, te, b, k1, k2, k3, k4, k5, k6⟩
        · exact Or.inl h1
        · exact Or.inr ⟨l, te, b, k1, k2, k3, k4, k5, k6⟩
      · left
        have hsc' : upd s.src a (some (Src.hit v)) c = some (Src.hit w) := hsc
        rw [upd_other _ _ _ _ hca] at hsc'
        exact hsc'
    · rename_i hv
      simp only [logStep, hv] at hx ⊢
      exact cinv_congr (s := s) (g := g) hinv (fun _ _ _ hk => Or.inl hk) (fun _ _ hk => Or.inl hk)
        (fun _ _ _ hk => Or.inl hk) (fun _ _ hr => hr) (fun _ _ => rfl) hx hb noend h
  | doEnter a =>
    simp only [step] at hs; split at hs <;> try (simp at hs)
    split at hs <;> simp at hs <;> subst hs
    all_goals
      exact cinv_congr (s := s) (g := g) hinv (fun _ _ _ hk => Or.inl hk)
        (fun _ _ hk => Or.inl (src_upd_hit (by intro w; simp) hk))
        (fun _ _ _ hk => Or.inl (src_upd_lhit (by intro l w; simp) hk)) (fun _ _ hr => hr) (fun _ _ => rfl) hx hb noend h
  | leadHit a =>
    simp only [step] at hs; split at hs <;> try (simp at hs)
    rename_i hpc
    have hta := hti.loc a; simp only [TLocal, hpc] at hta
    have hsa := hsi.loc a; simp only [SLocal, hpc] at hsa
    split at hs <;> simp at hs
    rename_i v hv
    subst hs
    refine cinv_congr (s := s) (g := g) hinv (fun _ _ _ hk => Or.inl hk)
      (fun _ _ hk => Or.inl (src_upd_hit (by intro w; simp) hk)) ?_ (fun _ _ hr => hr) (fun _ _ => rfl) hx hb noend h
    intro c l w hsc
    by_cases hca : c = a
    · subst hca
      have hsc' : upd s.src c (some (Src.lhit c v)) c = some (Src.lhit l w) := hsc
      rw [upd_same] at hsc'
      cases hsc'
      right
      refine ⟨s.now, hta, ?_⟩
      rcases live_origin hinv hsi h hv with h1 | ⟨l, te, b, k1, k2, k3, k4, k5, k6⟩
      · exact Or.inl h1
      · refine Or.inr ⟨l, te, b, k1, k2, k3, k4, ?_, k6⟩
        intro t ht
        have ht' : g.retAt c = some t := ht
        rw [hsa.2.1] at ht'; cases ht'
    · left
      have hsc' : upd s.src a (some (Src.lhit a v)) c = some (Src.lhit l w) := hsc
      rw [upd_other _ _ _ _ hca] at hsc'
      exact hsc'
  | fnStart a =>
    simp only [step] at hs; split at hs <;> try (simp at hs)
    split at hs <;> simp at hs
    subst hs
    exact cinv_congr (s := s) (g := g) hinv (fun _ _ _ hk => Or.inl hk) (fun _ _ hk => Or.inl hk)
      (fun _ _ _ hk => Or.inl hk) (fun _ _ hr => hr) (fun _ _ => rfl) hx hb noend h
  | fnEnd a r =>
    simp only [step] at hs; split at hs <;> try (simp at hs)
    rename_i hpc
    have hla := hinv.loc a; simp only [Local, hpc] at hla
    subst hs
    refine cinv_congr (s := s) (g := g) hinv (fun _ _ _ hk => Or.inl hk) (fun _ _ hk => Or.inl hk)
      (fun _ _ _ hk => Or.inl hk) ?_ (fun _ _ => rfl) hx hb ?_ h
    · intro l r' hr
      have : l ≠ a := by intro hl; subst hl; rw [hla.2.2.1] at hr; cases hr
      exact (upd_other _ _ _ _ this).trans hr
    · intro x
      by_cases hxa : x = a
      · subst hxa; exact Or.inr hpc
      · exact Or.inl (upd_other _ _ _ _ hxa)
  | cacheSet a =>
    simp only [step] at hs; split at hs <;> try (simp at hs)
    · rename_i v hpc
      have hla := hinv.loc a; simp only [Local, hpc] at hla
      have hta := hti.loc a; simp only [TLocal, hpc] at hta
      obtain ⟨ti, _, _, hend⟩ := hta
      subst hs
      refine cinv_congr (s := s) (g := g) hinv ?_ (fun _ _ hk => Or.inl hk) (fun _ _ _ hk => Or.inl hk)
        (fun _ _ hr => hr) (fun _ _ => rfl) hx hb noend h
      intro k w e hk
      have hk' : upd s.cache (cfg.key a) (cellSet cfg.expTime s.now (s.cache (cfg.key a)) v) k = some (w, e) := hk
      by_cases hkk : k = cfg.key a
      · subst hkk
        rw [upd_same] at hk'
        rcases cellSet_cases cfg.expTime s.now (s.cache (cfg.key a)) v with hc | hc
        · rw [hc] at hk'; exact Or.inl hk'
        · rw [hc] at hk'
          simp only [Option.some.injEq, Prod.mk.injEq] at hk'
          right; right
          exact ⟨a, s.now, rfl, by rw [hla.2.2.1, hk'.1], hend, hk'.2.symm⟩
      · rw [upd_other _ _ _ _ hkk] at hk'
        exact Or.inl hk'
    · subst hs
      exact cinv_congr (s := s) (g := g) hinv (fun _ _ _ hk => Or.inl hk) (fun _ _ hk => Or.inl hk)
        (fun _ _ _ hk => Or.inl hk) (fun _ _ hr => hr) (fun _ _ => rfl) hx hb noend h
  | doFinish a =>
    simp only [step] at hs; split at hs <;> try (simp at hs)
    subst hs
    exact cinv_congr (s := s) (g := g) hinv (fun _ _ _ hk => Or.inl hk) (fun _ _ hk => Or.inl hk)
      (fun _ _ _ hk => Or.inl hk) (fun _ _ hr => hr) (fun _ _ => rfl) hx hb noend h
  | wake a =>
    simp only [step] at hs; split at hs <;> try (simp at hs)
    rename_i l0 hpc
    have hla := hinv.loc a; simp only [Local, hpc] at hla
    split at hs <;> simp at hs
    rename_i r hr
    subst hs
    -- the source `a` gets
    have hws : wakeSrc s a l0 = some (.exec l0) ∨ ∃ v, s.src l0 = some (.lhit l0 v) ∧ wakeSrc s a l0 = some (.lhit l0 v) := by
      rcases (published_done (hinv.loc l0) hr).2 with hsl | ⟨v, _, hsl⟩
      · left; simp only [wakeSrc, hsl]; exact hla.1
      · right; exact ⟨v, hsl, by simp only [wakeSrc, hsl]⟩
    refine cinv_congr (s := s) (g := g) hinv (fun _ _ _ hk => Or.inl hk) ?_ ?_ (fun _ _ hr => hr) (fun _ _ => rfl) hx hb noend h
    · intro c w hsc
      left
      refine src_upd_hit ?_ hsc
      intro w' hw
      rcases hws with h1 | ⟨v, _, h1⟩ <;> (rw [h1] at hw; cases hw)
    · intro c l w hsc
      by_cases hca : c = a
      · subst hca
        have hsc' : upd s.src c (wakeSrc s c l0) c = some (Src.lhit l w) := hsc
        rw [upd_same] at hsc'
        rcases hws with h1 | ⟨v, hsl, h1⟩
        · rw [h1] at hsc'; cases hsc'
        · rw [h1] at hsc'
          simp only [Option.some.injEq, Src.lhit.injEq] at hsc'
          obtain ⟨e1, e2⟩ := hsc'
          subst e1; subst e2
          right
          obtain ⟨k1, k2⟩ := hl.wait c l0 v hpc hsl
          refine ⟨s.now, k1, ?_⟩
          rcases live_origin hinv hsi h k2 with h1 | ⟨l', te, b, m1, m2, m3, m4, m5, m6⟩
          · exact Or.inl h1
          · refine Or.inr ⟨l', te, b, m1, m2, m3, m4, ?_, m6⟩
            intro t ht
            have ht' : upd g.retAt c (some g.n) c = some t := ht
            rw [upd_same] at ht'; cases ht'; exact m5
      · left
        have hsc' : upd s.src a (wakeSrc s a l0) c = some (Src.lhit l w) := hsc
        rw [upd_other _ _ _ _ hca] at hsc'
        exact hsc'
  | tick d =>
    simp only [step, Option.some.injEq] at hs
    subst hs
    exact cinv_congr (s := s) (g := g) hinv (fun _ _ _ hk => Or.inl hk) (fun _ _ hk => Or.inl hk)
      (fun _ _ _ hk => Or.inl hk) (fun _ _ hr => hr) (fun _ _ => rfl) hx hb noend h

/-- under the virtual clock the cache/hit invariant holds for every reachable (state, log) pair -/
theorem cinv_reachable {cfg : Cfg} {c0 : Nat → Cell} {now : Int} {s : State} {g : EvLog}
    (h : ReachableLogP cfg (init c0 now) s g) : CInv cfg c0 s g := by
  induction h with
  | refl => exact cinv_init cfg c0 now
  | step l hr hs hp ih =>
    have h1 := sinv_reachable (reachableLogP_reachableLog hr)
    exact cinv_step h1.1 h1.2 (tinv_reachable hr) (linv_reachable hr) ih hs

end GoguVerif.Lemmas.C17
