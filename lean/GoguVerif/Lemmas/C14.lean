import GoguVerif.Spec.C14
import GoguVerif.Model.C14
/-!
# Helper lemmas for C14: what the loops of `Model/C14.lean` compute

Nothing here is a property theorem; the property theorems are in `Theorems/C14.lean`.
-/
set_option autoImplicit false
namespace GoguVerif.Lemmas.C14
open GoguVerif.Model.C14 GoguVerif.Spec.C14

variable {K V R α : Type}

/-! ## slices -/

theorem storeAt_append (pre : List α) (d : α) (rest : List α) (x : α) :
    storeAt (pre ++ d :: rest) pre.length x = .ok (pre ++ x :: rest) := by
  induction pre with
  | nil => rfl
  | cons y ys ih => simp [storeAt, ih]

theorem keysLoop_pad (d : K) (r : GoMap K V) (pre : List K) :
    keysLoop r (pre ++ List.replicate r.length d) pre.length = .ok (pre ++ r.map Prod.fst) := by
  induction r generalizing pre with
  | nil => simp [keysLoop]
  | cons e r ih =>
    obtain ⟨k, v⟩ := e
    simp only [List.length_cons, List.replicate_succ, keysLoop, storeAt_append]
    have h := ih (pre ++ [k])
    simp only [List.append_assoc, List.singleton_append, List.length_append, List.length_cons,
      List.length_nil, Nat.zero_add] at h
    simpa using h

theorem valuesLoop_pad (d : V) (r : GoMap K V) (pre : List V) :
    valuesLoop r (pre ++ List.replicate r.length d) pre.length = .ok (pre ++ r.map Prod.snd) := by
  induction r generalizing pre with
  | nil => simp [valuesLoop]
  | cons e r ih =>
    obtain ⟨k, v⟩ := e
    simp only [List.length_cons, List.replicate_succ, valuesLoop, storeAt_append]
    have h := ih (pre ++ [v])
    simp only [List.append_assoc, List.singleton_append, List.length_append, List.length_cons,
      List.length_nil, Nat.zero_add] at h
    simpa using h

theorem keys_eq [Inhabited K] (m : GoMap K V) : Keys m = .ok (m.map Prod.fst) := by
  have h := keysLoop_pad (default : K) m []
  simpa [Keys] using h

theorem values_eq [Inhabited V] (m : GoMap K V) : Values m = .ok (m.map Prod.snd) := by
  have h := valuesLoop_pad (default : V) m []
  simpa [Values] using h

theorem contains_eq [DecidableEq α] (l : List α) (x : α) : Contains l x = decide (x ∈ l) := by
  induction l with
  | nil => simp [Contains]
  | cons y r ih =>
    simp only [Contains, ih]
    by_cases h : y = x
    · simp [h]
    · have : ¬ x = y := fun e => h e.symm
      simp [h, this]

/-! ## map primitives -/

section prim
set_option linter.unusedSectionVars false
variable [DecidableEq K]

theorem wf_cons {k : K} {v : V} {m : AMap K V} : WF ((k, v) :: m) ↔ k ∉ m.map Prod.fst ∧ WF m := by
  simp [WF]

theorem wf_nil : WF ([] : AMap K V) := by simp [WF]

theorem WF.nodup {m : AMap K V} (h : WF m) : m.Nodup := by
  unfold WF at h
  rw [List.nodup_iff_pairwise_ne, List.pairwise_map] at h
  exact h.imp (fun hab e => hab (by rw [e]))

theorem wf_append {a b : AMap K V} :
    WF (a ++ b) ↔ WF a ∧ WF b ∧ ∀ k ∈ a.map Prod.fst, k ∉ b.map Prod.fst := by
  unfold WF
  rw [List.map_append, List.nodup_append]
  constructor
  · rintro ⟨ha, hb, hd⟩
    exact ⟨ha, hb, fun k hk hk' => hd k hk k hk' rfl⟩
  · rintro ⟨ha, hb, hd⟩
    exact ⟨ha, hb, fun x hx y hy e => hd x hx (e ▸ hy)⟩

/-- in a well-formed map an entry is determined by its key -/
theorem WF.unique {m : AMap K V} (h : WF m) {k : K} {v w : V} (hv : (k, v) ∈ m) (hw : (k, w) ∈ m) :
    v = w := by
  induction m with
  | nil => cases hv
  | cons e r ih =>
    obtain ⟨k', v'⟩ := e
    rw [wf_cons] at h
    simp only [List.mem_cons, Prod.mk.injEq] at hv hw
    rcases hv with ⟨rfl, rfl⟩ | hv <;> rcases hw with ⟨hk, rfl⟩ | hw
    · rfl
    · exact absurd (List.mem_map_of_mem (f := Prod.fst) hw) h.1
    · exact absurd (List.mem_map_of_mem (f := Prod.fst) hv) (hk ▸ h.1)
    · exact ih h.2 hv hw

theorem get?_eq_some_of_mem {m : GoMap K V} (h : WF m) {k : K} {v : V} (hm : (k, v) ∈ m) :
    get? m k = some v := by
  induction m with
  | nil => cases hm
  | cons e r ih =>
    obtain ⟨k', v'⟩ := e
    rw [wf_cons] at h
    simp only [List.mem_cons, Prod.mk.injEq] at hm
    rcases hm with ⟨rfl, rfl⟩ | hm
    · simp [get?]
    · have : k' ≠ k := fun e => h.1 (e ▸ List.mem_map_of_mem (f := Prod.fst) hm)
      simp [get?, this, ih h.2 hm]

theorem mem_of_get?_eq_some {m : GoMap K V} {k : K} {v : V} (h : get? m k = some v) : (k, v) ∈ m := by
  induction m with
  | nil => simp [get?] at h
  | cons e r ih =>
    obtain ⟨k', v'⟩ := e
    simp only [get?] at h
    by_cases hk : k' = k
    · simp only [hk, if_true, Option.some.injEq] at h
      simp [hk, h]
    · simp only [hk, if_false] at h
      exact List.mem_cons_of_mem _ (ih h)

theorem get?_eq_none_iff {m : GoMap K V} {k : K} : get? m k = none ↔ k ∉ m.map Prod.fst := by
  induction m with
  | nil => simp [get?]
  | cons e r ih =>
    obtain ⟨k', v'⟩ := e
    by_cases hk : k' = k
    · simp [get?, hk]
    · have : ¬ k = k' := fun e => hk e.symm
      simp [get?, hk, ih, this]

theorem idx_of_mem [Inhabited V] {m : GoMap K V} (h : WF m) {k : K} {v : V} (hm : (k, v) ∈ m) :
    idx m k = v := by
  simp [idx, get?_eq_some_of_mem h hm]

/-- storing under a key the map does not have appends the entry -/
theorem put_of_not_mem {m : GoMap K V} {k : K} (v : V) (h : k ∉ m.map Prod.fst) :
    put m k v = m ++ [(k, v)] := by
  induction m with
  | nil => rfl
  | cons e r ih =>
    obtain ⟨k', v'⟩ := e
    simp only [List.map_cons, List.mem_cons, not_or] at h
    have : k' ≠ k := fun e => h.1 e.symm
    simp [put, this, ih h.2]

/-- keys after a store: unchanged if the key was there -/
theorem keys_put_of_mem {m : GoMap K V} {k : K} (v : V) (h : k ∈ m.map Prod.fst) :
    (put m k v).map Prod.fst = m.map Prod.fst := by
  induction m with
  | nil => simp at h
  | cons e r ih =>
    obtain ⟨k', v'⟩ := e
    by_cases hk : k' = k
    · simp [put, hk]
    · simp only [List.map_cons, List.mem_cons] at h
      have h' : k ∈ r.map Prod.fst := by
        rcases h with h | h
        · exact absurd h.symm hk
        · exact h
      simp [put, hk, ih h']

theorem wf_put {m : GoMap K V} (h : WF m) (k : K) (v : V) : WF (put m k v) := by
  by_cases hk : k ∈ m.map Prod.fst
  · unfold WF; rw [keys_put_of_mem v hk]; exact h
  · rw [put_of_not_mem v hk, wf_append]
    refine ⟨h, by simp [WF], ?_⟩
    intro k' hk' hmem
    simp at hmem
    exact hk (hmem ▸ hk')

theorem mem_keys_put {m : GoMap K V} (k : K) (v : V) (k' : K) :
    k' ∈ (put m k v).map Prod.fst ↔ k' = k ∨ k' ∈ m.map Prod.fst := by
  by_cases hk : k ∈ m.map Prod.fst
  · rw [keys_put_of_mem v hk]
    constructor
    · exact Or.inr
    · rintro (rfl | h)
      · exact hk
      · exact h
  · rw [put_of_not_mem v hk]
    simp only [List.map_append, List.map_cons, List.map_nil, List.mem_append, List.mem_singleton]
    exact Or.comm

/-- entries after a store: the new entry or an old one -/
theorem mem_put_imp {m : GoMap K V} {k : K} {v : V} {e : K × V} (h : e ∈ put m k v) :
    e = (k, v) ∨ e ∈ m := by
  induction m with
  | nil => simp [put] at h; exact Or.inl h
  | cons e' r ih =>
    obtain ⟨k', v'⟩ := e'
    by_cases hk : k' = k
    · simp only [put, hk, if_true, List.mem_cons] at h
      rcases h with h | h
      · exact Or.inl h
      · exact Or.inr (List.mem_cons_of_mem _ h)
    · simp only [put, hk, if_false, List.mem_cons] at h
      rcases h with h | h
      · subst h; exact Or.inr List.mem_cons_self
      · rcases ih h with h | h
        · exact Or.inl h
        · exact Or.inr (List.mem_cons_of_mem _ h)

/-- the stored entry is in the map afterwards -/
theorem mem_put_self (m : GoMap K V) (k : K) (v : V) : (k, v) ∈ put m k v := by
  induction m with
  | nil => simp [put]
  | cons e' r ih =>
    obtain ⟨k', v'⟩ := e'
    by_cases hk : k' = k
    · simp [put, hk]
    · simp [put, hk, ih]

/-- entries under other keys survive a store -/
theorem mem_put_of_ne {m : GoMap K V} {k : K} {v : V} {e : K × V} (h : e ∈ m) (hne : e.1 ≠ k) :
    e ∈ put m k v := by
  induction m with
  | nil => cases h
  | cons e' r ih =>
    obtain ⟨k', v'⟩ := e'
    by_cases hk : k' = k
    · simp only [put, hk, if_true, List.mem_cons]
      simp only [List.mem_cons] at h
      rcases h with h | h
      · subst h; exact absurd hk hne
      · exact Or.inr h
    · simp only [put, hk, if_false, List.mem_cons]
      simp only [List.mem_cons] at h
      rcases h with h | h
      · exact Or.inl h
      · exact Or.inr (ih h)

end prim

/-! ## selection loops (Pick, PickBy, FilterMap, Omit, OmitBy) -/

section select
set_option linter.unusedSectionVars false
variable [DecidableEq K]

theorem WF.sublist {a b : AMap K V} (h : a.Sublist b) (hb : WF b) : WF a := by
  unfold WF at *
  exact List.Nodup.sublist (h.map _) hb

theorem wf_append_cons_left {acc r : AMap K V} {e : K × V} (h : WF (acc ++ e :: r)) : WF (acc ++ r) :=
  WF.sublist (List.Sublist.append_left (List.sublist_cons_self e r) acc) h

theorem wf_snoc_append {acc r : AMap K V} {e : K × V} (h : WF (acc ++ e :: r)) : WF ((acc ++ [e]) ++ r) := by
  simpa using h

theorem not_mem_keys_of_wf {acc r : AMap K V} {k : K} {v : V} (h : WF (acc ++ (k, v) :: r)) :
    k ∉ acc.map Prod.fst := by
  rw [wf_append] at h
  intro hk
  exact h.2.2 k hk (by simp)

theorem pickLoop_eq [Inhabited V] (coll : GoMap K V) (keys : List K) (hwf : WF coll)
    (it acc : GoMap K V) (hsub : ∀ e ∈ it, e ∈ coll) (hacc : WF (acc ++ it)) :
    pickLoop coll keys it acc = acc ++ it.filter (fun e => Contains keys e.1) := by
  induction it generalizing acc with
  | nil => simp [pickLoop]
  | cons e r ih =>
    obtain ⟨k, v⟩ := e
    have hmem : (k, v) ∈ coll := hsub _ List.mem_cons_self
    have hsub' : ∀ e ∈ r, e ∈ coll := fun e he => hsub e (List.mem_cons_of_mem _ he)
    have hk := not_mem_keys_of_wf hacc
    by_cases hc : Contains keys k = true
    · simp only [pickLoop, hc, if_true, List.filter_cons]
      rw [idx_of_mem hwf hmem, put_of_not_mem v hk, ih _ hsub' (wf_snoc_append hacc)]
      simp
    · simp only [pickLoop, hc, List.filter_cons]
      rw [ih _ hsub' (wf_append_cons_left hacc)]
      simp

theorem pickByLoop_eq [Inhabited V] (coll : GoMap K V) (fn : K → V → Bool) (hwf : WF coll)
    (it acc : GoMap K V) (hsub : ∀ e ∈ it, e ∈ coll) (hacc : WF (acc ++ it)) :
    pickByLoop coll fn it acc = acc ++ it.filter (fun e => fn e.1 e.2) := by
  induction it generalizing acc with
  | nil => simp [pickByLoop]
  | cons e r ih =>
    obtain ⟨k, v⟩ := e
    have hmem : (k, v) ∈ coll := hsub _ List.mem_cons_self
    have hsub' : ∀ e ∈ r, e ∈ coll := fun e he => hsub e (List.mem_cons_of_mem _ he)
    have hk := not_mem_keys_of_wf hacc
    by_cases hc : fn k v = true
    · simp only [pickByLoop, hc, if_true, List.filter_cons]
      rw [idx_of_mem hwf hmem, put_of_not_mem v hk, ih _ hsub' (wf_snoc_append hacc)]
      simp
    · simp only [pickByLoop, hc, List.filter_cons]
      rw [ih _ hsub' (wf_append_cons_left hacc)]
      simp

theorem filterMapLoop_eq (fn : V → Bool) (it acc : GoMap K V) (hacc : WF (acc ++ it)) :
    filterMapLoop fn it acc = acc ++ it.filter (fun e => fn e.2) := by
  induction it generalizing acc with
  | nil => simp [filterMapLoop]
  | cons e r ih =>
    obtain ⟨k, v⟩ := e
    have hk := not_mem_keys_of_wf hacc
    by_cases hc : fn v = true
    · simp only [filterMapLoop, hc, if_true, List.filter_cons]
      rw [put_of_not_mem v hk, ih _ (wf_snoc_append hacc)]
      simp
    · simp only [filterMapLoop, hc, List.filter_cons]
      rw [ih _ (wf_append_cons_left hacc)]
      simp

theorem del_append_cons {pre r : GoMap K V} {k : K} {v : V} (h : k ∉ pre.map Prod.fst) :
    del (pre ++ (k, v) :: r) k = pre ++ r := by
  induction pre with
  | nil => simp [del]
  | cons e p ih =>
    obtain ⟨k', v'⟩ := e
    simp only [List.map_cons, List.mem_cons, not_or] at h
    have : k' ≠ k := fun e => h.1 e.symm
    simp [del, this, ih h.2]

theorem omitLoop_eq (keys : List K) (it pre : GoMap K V) (h : WF (pre ++ it)) :
    omitLoop keys it (pre ++ it) = pre ++ it.filter (fun e => !Contains keys e.1) := by
  induction it generalizing pre with
  | nil => simp [omitLoop]
  | cons e r ih =>
    obtain ⟨k, v⟩ := e
    have hk := not_mem_keys_of_wf h
    by_cases hc : Contains keys k = true
    · simp only [omitLoop, hc, if_true, List.filter_cons]
      rw [del_append_cons hk, ih _ (wf_append_cons_left h)]
      simp
    · simp only [omitLoop, hc, List.filter_cons]
      have h2 := ih (pre ++ [(k, v)]) (wf_snoc_append h)
      simp only [List.append_assoc, List.singleton_append] at h2
      rw [h2]
      simp

theorem omitByLoop_eq (fn : K → V → Bool) (it pre : GoMap K V) (h : WF (pre ++ it)) :
    omitByLoop fn it (pre ++ it) = pre ++ it.filter (fun e => !fn e.1 e.2) := by
  induction it generalizing pre with
  | nil => simp [omitByLoop]
  | cons e r ih =>
    obtain ⟨k, v⟩ := e
    have hk := not_mem_keys_of_wf h
    by_cases hc : fn k v = true
    · simp only [omitByLoop, hc, if_true, List.filter_cons]
      rw [del_append_cons hk, ih _ (wf_append_cons_left h)]
      simp
    · simp only [omitByLoop, hc, List.filter_cons]
      have h2 := ih (pre ++ [(k, v)]) (wf_snoc_append h)
      simp only [List.append_assoc, List.singleton_append] at h2
      rw [h2]
      simp

/-- a filter of a well-formed map satisfies the selection clause of the specification -/
theorem selectSpec_filter {m : AMap K V} (h : WF m) (sel : K × V → Bool) :
    SelectSpec m sel (m.filter sel) := by
  refine ⟨WF.sublist List.filter_sublist h, ?_, ?_⟩
  · intro e he
    exact List.mem_filter.mp he
  · intro e he hs
    exact List.mem_filter.mpr ⟨he, hs⟩

end select

/-! ## loops that store into a fresh map (MapValues, MapKeys, Invert, SliceToMap) -/

section fold
set_option linter.unusedSectionVars false
variable [DecidableEq K]

/-- storing a list of (key, value) pairs one after the other -/
def foldPut (l : List (K × V)) (acc : GoMap K V) : GoMap K V :=
  l.foldl (fun a e => put a e.1 e.2) acc

theorem foldPut_nil (acc : GoMap K V) : foldPut [] acc = acc := rfl
theorem foldPut_cons (e : K × V) (l : List (K × V)) (acc : GoMap K V) :
    foldPut (e :: l) acc = foldPut l (put acc e.1 e.2) := rfl

theorem wf_foldPut (l : List (K × V)) {acc : GoMap K V} (h : WF acc) : WF (foldPut l acc) := by
  induction l generalizing acc with
  | nil => exact h
  | cons e l ih => exact ih (wf_put h _ _)

theorem mem_foldPut_imp {l : List (K × V)} {acc : GoMap K V} {e : K × V} (h : e ∈ foldPut l acc) :
    e ∈ acc ∨ e ∈ l := by
  induction l generalizing acc with
  | nil => exact Or.inl h
  | cons e' l ih =>
    rcases ih h with h | h
    · rcases mem_put_imp h with h | h
      · exact Or.inr (by simp [h])
      · exact Or.inl h
    · exact Or.inr (List.mem_cons_of_mem _ h)

theorem mem_keys_foldPut (l : List (K × V)) (acc : GoMap K V) (k : K) :
    k ∈ (foldPut l acc).map Prod.fst ↔ k ∈ acc.map Prod.fst ∨ k ∈ l.map Prod.fst := by
  induction l generalizing acc with
  | nil => simp [foldPut]
  | cons e l ih =>
    rw [foldPut_cons, ih, mem_keys_put]
    simp only [List.map_cons, List.mem_cons]
    constructor
    · rintro ((h | h) | h)
      · exact Or.inr (Or.inl h)
      · exact Or.inl h
      · exact Or.inr (Or.inr h)
    · rintro (h | h | h)
      · exact Or.inl (Or.inr h)
      · exact Or.inl (Or.inl h)
      · exact Or.inr h

theorem get?_put (m : GoMap K V) (k : K) (v : V) (k' : K) :
    get? (put m k v) k' = if k = k' then some v else get? m k' := by
  induction m with
  | nil => simp [put, get?]
  | cons e r ih =>
    obtain ⟨k0, v0⟩ := e
    by_cases h0 : k0 = k
    · subst h0
      by_cases h1 : k0 = k' <;> simp [put, get?, h1]
    · by_cases h1 : k = k'
      · subst h1
        simp [put, get?, h0, ih]
      · simp [put, get?, h0, ih, h1]

theorem get?_append (a b : GoMap K V) (k : K) :
    get? (a ++ b) k = match get? a k with | some v => some v | none => get? b k := by
  induction a with
  | nil => simp [get?]
  | cons e r ih =>
    obtain ⟨k0, v0⟩ := e
    by_cases h0 : k0 = k <;> simp [get?, h0, ih]

/-- the last store under a key wins -/
theorem get?_foldPut (l : List (K × V)) (acc : GoMap K V) (k : K) :
    get? (foldPut l acc) k = match get? l.reverse k with | some v => some v | none => get? acc k := by
  induction l generalizing acc with
  | nil => simp [foldPut, get?]
  | cons e l ih =>
    obtain ⟨k0, v0⟩ := e
    rw [foldPut_cons, ih, List.reverse_cons, get?_append, get?_put]
    cases get? l.reverse k with
    | some v => rfl
    | none => by_cases h0 : k0 = k <;> simp [get?, h0]

theorem lookup_eq_get? (m : AMap K V) (k : K) : Spec.C14.lookup m k = get? m k := by
  induction m with
  | nil => simp [Spec.C14.lookup, get?]
  | cons e r ih =>
    obtain ⟨k0, v0⟩ := e
    unfold Spec.C14.lookup at ih ⊢
    by_cases h0 : k0 = k <;> simp [get?, h0, ih]

theorem mapValuesLoop_eq (fn : V → R) (it : GoMap K V) (acc : GoMap K R) :
    mapValuesLoop fn it acc = foldPut (it.map fun e => (e.1, fn e.2)) acc := by
  induction it generalizing acc with
  | nil => rfl
  | cons e r ih => obtain ⟨k, v⟩ := e; simp [mapValuesLoop, ih, foldPut_cons]

/-- storing entries with fresh, pairwise distinct keys appends them -/
theorem foldPut_fresh (l : List (K × V)) (acc : GoMap K V) (h : WF (acc ++ l)) :
    foldPut l acc = acc ++ l := by
  induction l generalizing acc with
  | nil => simp [foldPut]
  | cons e l ih =>
    obtain ⟨k, v⟩ := e
    rw [foldPut_cons, put_of_not_mem v (not_mem_keys_of_wf h), ih _ (wf_snoc_append h)]
    simp

end fold

theorem mapKeysLoop_eq [DecidableEq R] (fn : K → V → R) (it : GoMap K V) (acc : GoMap R V) :
    mapKeysLoop fn it acc = foldPut (it.map fun e => (fn e.1 e.2, e.2)) acc := by
  induction it generalizing acc with
  | nil => rfl
  | cons e r ih => obtain ⟨k, v⟩ := e; simp [mapKeysLoop, ih, foldPut_cons]

theorem invertLoop_eq [DecidableEq K] [DecidableEq V] [Inhabited V] (m : GoMap K V) (ks : List K)
    (acc : GoMap V K) :
    invertLoop m ks acc = foldPut (ks.map fun k => (idx m k, k)) acc := by
  induction ks generalizing acc with
  | nil => rfl
  | cons k r ih => simp [invertLoop, ih, foldPut_cons]

theorem sliceToMapLoop_eq [DecidableEq K] (s1 : List K) (s2 : List V) (hl : s1.length = s2.length)
    (n i : Nat) (hn : n + i = s1.length) (acc : GoMap K V) :
    sliceToMapLoop s1 s2 n i acc = .ok (foldPut ((s1.zip s2).drop i) acc) := by
  induction n generalizing i acc with
  | zero =>
    have : (s1.zip s2).length ≤ i := by simp [List.length_zip]; omega
    simp [sliceToMapLoop, List.drop_eq_nil_of_le this, foldPut]
  | succ n ih =>
    have h1 : i < s1.length := by omega
    have h2 : i < s2.length := by omega
    have hz : i < (s1.zip s2).length := by simp [List.length_zip]; omega
    simp only [sliceToMapLoop, List.getElem?_eq_getElem h1, List.getElem?_eq_getElem h2]
    rw [ih (i + 1) (by omega), List.drop_eq_getElem_cons hz, foldPut_cons]
    simp

/-! ## quantifier helpers, Find*, Pluck -/

theorem mapEvery_eq (fn : V → Bool) (m : GoMap K V) : MapEvery fn m = m.all (fun e => fn e.2) := by
  induction m with
  | nil => rfl
  | cons e r ih => obtain ⟨k, v⟩ := e; cases h : fn v <;> simp [MapEvery, h, ih]

theorem mapSome_eq (fn : V → Bool) (m : GoMap K V) : MapSome fn m = m.any (fun e => fn e.2) := by
  induction m with
  | nil => rfl
  | cons e r ih => obtain ⟨k, v⟩ := e; cases h : fn v <;> simp [MapSome, h, ih]

theorem mapContains_eq [DecidableEq V] (x : V) (m : GoMap K V) :
    MapContains x m = m.any (fun e => decide (e.2 = x)) := by
  induction m with
  | nil => rfl
  | cons e r ih => obtain ⟨k, v⟩ := e; by_cases h : v = x <;> simp [MapContains, h, ih]

/-- `FindKey`: the key of the first qualifying entry in iteration order, else the zero value -/
theorem findKey_eq [Inhabited K] (fn : V → Bool) (m : GoMap K V) :
    FindKey fn m = match m.find? (fun e => fn e.2) with | some e => e.1 | none => default := by
  induction m with
  | nil => rfl
  | cons e r ih => obtain ⟨k, v⟩ := e; cases h : fn v <;> simp [FindKey, h, ih]

theorem findByKey_eq [DecidableEq K] (fn : K → Bool) (m : GoMap K V) :
    FindByKey fn m = match m.find? (fun e => fn e.1) with | some e => [e] | none => [] := by
  induction m with
  | nil => rfl
  | cons e r ih => obtain ⟨k, v⟩ := e; cases h : fn k <;> simp [FindByKey, h, ih, put]

theorem findLoop_eq [Inhabited V] (m : GoMap Int V) (fn : V → Bool) (ks : List Int) :
    findLoop m fn ks =
      match ks.find? (fun k => fn (idx m k)) with | some k => [(k, idx m k)] | none => [] := by
  induction ks with
  | nil => rfl
  | cons k r ih => cases h : fn (idx m k) <;> simp [findLoop, h, ih, put]

theorem insertSorted_perm (x : Int) (l : List Int) : (insertSorted x l).Perm (x :: l) := by
  induction l with
  | nil => exact List.Perm.refl _
  | cons y r ih =>
    by_cases h : x ≤ y
    · simp [insertSorted, h]
    · simp only [insertSorted, h, if_false]
      exact (List.Perm.cons y ih).trans (List.Perm.swap x y r)

theorem insertSorted_sorted (x : Int) (l : List Int) (hl : l.Pairwise (· ≤ ·)) :
    (insertSorted x l).Pairwise (· ≤ ·) := by
  induction l with
  | nil => simp [insertSorted]
  | cons y r ih =>
    rw [List.pairwise_cons] at hl
    by_cases h : x ≤ y
    · simp only [insertSorted, h, if_true]
      refine List.pairwise_cons.mpr ⟨?_, List.pairwise_cons.mpr hl⟩
      intro z hz
      rcases List.mem_cons.mp hz with rfl | hz
      · exact h
      · exact Int.le_trans h (hl.1 z hz)
    · simp only [insertSorted, h, if_false]
      refine List.pairwise_cons.mpr ⟨?_, ih hl.2⟩
      intro z hz
      rcases List.mem_cons.mp ((insertSorted_perm x r).mem_iff.mp hz) with rfl | hz
      · omega
      · exact hl.1 z hz

theorem sortKeys_perm (ks : List Int) : (sortKeys ks).Perm ks := by
  induction ks with
  | nil => exact List.Perm.refl _
  | cons k r ih => exact (insertSorted_perm k _).trans (List.Perm.cons k ih)

theorem sortKeys_sorted (ks : List Int) : (sortKeys ks).Pairwise (· ≤ ·) := by
  induction ks with
  | nil => simp [sortKeys]
  | cons k r ih => exact insertSorted_sorted k _ ih

theorem pluckLoop_eq [DecidableEq K] [Inhabited V] (key : K) (ms : List (GoMap K V)) (res : List V) :
    pluckLoop key ms res = res ++ ms.filterMap (fun m => Spec.C14.lookup m key) := by
  induction ms generalizing res with
  | nil => simp [pluckLoop]
  | cons m r ih =>
    have hm : FindByKey (fun k => decide (k = key)) m
        = match m.find? (fun e => decide (e.1 = key)) with | some e => [e] | none => [] :=
      findByKey_eq _ m
    unfold Spec.C14.lookup at ih ⊢
    simp only [pluckLoop, List.filterMap_cons]
    cases hf : m.find? (fun e => decide (e.1 = key)) with
    | none =>
      rw [hf] at hm
      simp [hm, get?, ih]
    | some e =>
      rw [hf] at hm
      have hk : e.1 = key := by simpa using List.find?_some hf
      obtain ⟨k, v⟩ := e
      simp only at hk
      subst hk
      simp [hm, get?, idx, ih]

/-! ## collection filters, PartitionMap -/

/-- some value of the map qualifies (recursion in the shape of `filterInner`) -/
def anyVal (fn : V → Bool) : GoMap K V → Bool
  | [] => false
  | (_, v) :: r => if fn v then true else anyVal fn r

theorem anyVal_eq (fn : V → Bool) (m : GoMap K V) : anyVal fn m = hasQualifying fn m := by
  induction m with
  | nil => rfl
  | cons e r ih =>
    obtain ⟨k, v⟩ := e
    unfold hasQualifying at ih ⊢
    cases h : fn v <;> simp [anyVal, h, ih]

theorem filterInner_eq' (fn : V → Bool) (item it : GoMap K V) (filtered : List (GoMap K V)) :
    filterInner fn item it filtered = if anyVal fn it = true then filtered ++ [item] else filtered := by
  induction it with
  | nil => simp [filterInner, anyVal]
  | cons e r ih =>
    obtain ⟨k, v⟩ := e
    cases h : fn v <;> simp [filterInner, anyVal, h, ih]

theorem filterInner_eq (fn : V → Bool) (item it : GoMap K V) (filtered : List (GoMap K V)) :
    filterInner fn item it filtered =
      if hasQualifying fn it = true then filtered ++ [item] else filtered := by
  rw [filterInner_eq', anyVal_eq]

theorem filterCollLoop_eq (fn : V → Bool) (coll filtered : List (GoMap K V)) :
    filterCollLoop fn coll filtered = filtered ++ coll.filter (hasQualifying fn) := by
  induction coll generalizing filtered with
  | nil => simp [filterCollLoop]
  | cons item r ih =>
    simp only [filterCollLoop, filterInner_eq, ih, List.filter_cons]
    by_cases h : hasQualifying fn item = true
    · simp [h]
    · simp [h]

/-- `m[k] = v` for the entry being visited leaves the map as it is -/
theorem put_head [DecidableEq K] (k : K) (v : V) (r : GoMap K V) : put ((k, v) :: r) k v = (k, v) :: r := by
  simp [put]

theorem partitionLoop_eq [DecidableEq K] (fn : GoMap K V → Bool) (coll : List (GoMap K V))
    (res : List (GoMap K V) × List (GoMap K V)) :
    partitionLoop fn coll res =
      (res.1 ++ coll.filter (fun m => !m.isEmpty && fn m), res.2 ++ coll.filter (fun m => !m.isEmpty && !fn m)) := by
  induction coll generalizing res with
  | nil => simp [partitionLoop]
  | cons m r ih =>
    cases m with
    | nil => simp [partitionLoop, ih]
    | cons e t =>
      obtain ⟨k, v⟩ := e
      simp only [partitionLoop, put_head]
      cases h : fn ((k, v) :: t) <;> simp [ih, h]

/-! ## MapUnique -/

theorem mapUniqueLoop_spec [DecidableEq K] [DecidableEq V] (it result : GoMap K V) (ref : GoMap V Bool)
    (hI : ∀ v, v ∈ ref.map Prod.fst ↔ v ∈ result.map Prod.snd)
    (hwf : WF (result ++ it)) (hnd : (result.map Prod.snd).Nodup) :
    WF (mapUniqueLoop it result ref) ∧
    (∀ e ∈ mapUniqueLoop it result ref, e ∈ result ∨ e ∈ it) ∧
    ((mapUniqueLoop it result ref).map Prod.snd).Nodup ∧
    (∀ v ∈ result.map Prod.snd, v ∈ (mapUniqueLoop it result ref).map Prod.snd) ∧
    (∀ e ∈ it, e.2 ∈ (mapUniqueLoop it result ref).map Prod.snd) := by
  induction it generalizing result ref with
  | nil =>
    simp only [mapUniqueLoop]
    refine ⟨by simpa using hwf, fun e he => Or.inl he, hnd, fun v hv => hv, fun e he => by cases he⟩
  | cons e r ih =>
    obtain ⟨k, v⟩ := e
    cases hg : get? ref v with
    | some b =>
      have hv : v ∈ result.map Prod.snd := by
        rw [← hI]
        apply Classical.byContradiction
        intro hn
        rw [get?_eq_none_iff.mpr hn] at hg
        cases hg
      have ih' := ih result ref hI (wf_append_cons_left hwf) hnd
      simp only [mapUniqueLoop, hg]
      obtain ⟨h1, h2, h3, h4, h5⟩ := ih'
      refine ⟨h1, ?_, h3, h4, ?_⟩
      · intro e he
        rcases h2 e he with h | h
        · exact Or.inl h
        · exact Or.inr (List.mem_cons_of_mem _ h)
      · intro e he
        rcases List.mem_cons.mp he with rfl | he
        · exact h4 _ hv
        · exact h5 e he
    | none =>
      have hv : v ∉ result.map Prod.snd := by
        rw [← hI]; exact get?_eq_none_iff.mp hg
      have hk := not_mem_keys_of_wf hwf
      have hres : put result k v = result ++ [(k, v)] := put_of_not_mem v hk
      have hI' : ∀ v', v' ∈ (put ref v true).map Prod.fst ↔ v' ∈ (result ++ [(k, v)]).map Prod.snd := by
        intro v'
        rw [mem_keys_put, hI]
        simp only [List.map_append, List.map_cons, List.map_nil, List.mem_append, List.mem_singleton]
        exact Or.comm
      have hnd' : ((result ++ [(k, v)]).map Prod.snd).Nodup := by
        simp only [List.map_append, List.map_cons, List.map_nil]
        rw [List.nodup_append]
        refine ⟨hnd, by simp, ?_⟩
        intro a ha b hb hab
        simp only [List.mem_singleton] at hb
        subst hab; subst hb
        exact hv ha
      have ih' := ih (result ++ [(k, v)]) (put ref v true) hI' (wf_snoc_append hwf) hnd'
      simp only [mapUniqueLoop, hg, hres]
      obtain ⟨h1, h2, h3, h4, h5⟩ := ih'
      refine ⟨h1, ?_, h3, ?_, ?_⟩
      · intro e he
        rcases h2 e he with h | h
        · rcases List.mem_append.mp h with h | h
          · exact Or.inl h
          · exact Or.inr (by simp only [List.mem_singleton] at h; simp [h])
        · exact Or.inr (List.mem_cons_of_mem _ h)
      · intro v' hv'
        exact h4 v' (by simp only [List.map_append, List.mem_append]; exact Or.inl hv')
      · intro e he
        rcases List.mem_cons.mp he with rfl | he
        · exact h4 _ (by simp)
        · exact h5 e he

end GoguVerif.Lemmas.C14
