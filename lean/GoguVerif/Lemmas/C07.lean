import GoguVerif.Spec.C07
import GoguVerif.Model.Lru
/-!
# C07 — helper lemmas (layer 1): invariant, list facts, per-method refinement
-/
namespace GoguVerif.Lemmas.C07
open GoguVerif Spec.C07 Model.Lru

/-- the keys held by the list, front first -/
def keys (l : Entries) : List Int := l.map (·.1)

/-- Representation invariant of `LRUCache` (layer 1). -/
structure Inv (c : St) : Prop where
  /-- no key is held by two nodes -/
  nodup : (keys c.list).Nodup
  /-- the map holds exactly the keys of the list -/
  items : ∀ k, k ∈ c.items ↔ k ∈ keys c.list
  /-- the list never outgrows the capacity -/
  len : (c.list.length : Int) ≤ c.size
  /-- the capacity is positive -/
  cap : 1 ≤ c.size

/-! ## `find`, `del`, `keys` -/

@[simp] theorem keys_nil : keys [] = [] := rfl
@[simp] theorem keys_cons (e : Int × Int) (l : Entries) : keys (e :: l) = e.1 :: keys l := rfl
@[simp] theorem keys_append (a b : Entries) : keys (a ++ b) = keys a ++ keys b := by simp [keys]

@[simp] theorem find_nil (k : Int) : find k [] = none := rfl
theorem find_cons (k : Int) (e : Int × Int) (l : Entries) :
    find k (e :: l) = if e.1 = k then some e.2 else find k l := by
  by_cases h : e.1 = k <;> simp [find, h]

@[simp] theorem del_nil (k : Int) : del k [] = [] := rfl
theorem del_cons (k : Int) (e : Int × Int) (l : Entries) :
    del k (e :: l) = if e.1 = k then del k l else e :: del k l := by
  by_cases h : e.1 = k <;> simp [del, h]

theorem del_of_not_mem {k : Int} {l : Entries} (h : k ∉ keys l) : del k l = l := by
  induction l with
  | nil => rfl
  | cons e r ih =>
    simp only [keys_cons, List.mem_cons, not_or] at h
    have : ¬ e.1 = k := fun x => h.1 x.symm
    simp [del_cons, this, ih h.2]

theorem find_none_iff {k : Int} {l : Entries} : find k l = none ↔ k ∉ keys l := by
  induction l with
  | nil => simp
  | cons e r ih =>
    by_cases h : e.1 = k
    · simp [find_cons, h]
    · have : ¬ k = e.1 := fun x => h x.symm
      simp [find_cons, h, ih, this]

theorem find_isSome_iff {k : Int} {l : Entries} : (find k l).isSome ↔ k ∈ keys l := by
  cases h : find k l with
  | none => simpa using find_none_iff.mp h
  | some v =>
    have : ¬ find k l = none := by simp [h]
    simpa using (fun x => this (find_none_iff.mpr x))

theorem mem_keys_del {x k : Int} {l : Entries} : x ∈ keys (del k l) ↔ x ∈ keys l ∧ x ≠ k := by
  induction l with
  | nil => simp
  | cons e r ih =>
    by_cases h : e.1 = k
    · simp only [del_cons, h, if_true, ih, keys_cons, List.mem_cons]
      constructor
      · intro ⟨a, b⟩; exact ⟨Or.inr a, b⟩
      · intro ⟨a, b⟩
        cases a with
        | inl a => exact absurd a b
        | inr a => exact ⟨a, b⟩
    · simp only [del_cons, h, if_false, keys_cons, List.mem_cons, ih]
      constructor
      · intro a
        cases a with
        | inl a => exact ⟨Or.inl a, by rw [a]; exact h⟩
        | inr a => exact ⟨Or.inr a.1, a.2⟩
      · intro ⟨a, b⟩
        cases a with
        | inl a => exact Or.inl a
        | inr a => exact Or.inr ⟨a, b⟩

theorem keys_del_sublist (k : Int) (l : Entries) : (keys (del k l)).Sublist (keys l) := by
  unfold keys del
  exact (List.filter_sublist).map _

theorem nodup_del {k : Int} {l : Entries} (h : (keys l).Nodup) : (keys (del k l)).Nodup :=
  (keys_del_sublist k l).nodup h

theorem nodup_cons_del {k v : Int} {l : Entries} (h : (keys l).Nodup) :
    (keys ((k, v) :: del k l)).Nodup := by
  simp only [keys_cons, List.nodup_cons]
  exact ⟨fun m => (mem_keys_del.mp m).2 rfl, nodup_del h⟩

theorem length_del_le (k : Int) (l : Entries) : (del k l).length ≤ l.length := by
  unfold del; exact List.length_filter_le _ _

theorem length_del_lt {k : Int} {l : Entries} (h : k ∈ keys l) : (del k l).length < l.length := by
  induction l with
  | nil => simp at h
  | cons e r ih =>
    by_cases he : e.1 = k
    · have := length_del_le k r
      simp only [del_cons, he, if_true, List.length_cons]; omega
    · simp only [keys_cons, List.mem_cons] at h
      have hr : k ∈ keys r := by
        cases h with
        | inl a => exact absurd a.symm he
        | inr a => exact a
      have := ih hr
      simp only [del_cons, he, if_false, List.length_cons]; omega

/-- entries before the one looked for do not matter -/
theorem find_append_of_not_mem {k : Int} {a b : Entries} (h : k ∉ keys a) :
    find k (a ++ b) = find k b := by
  induction a with
  | nil => rfl
  | cons e r ih =>
    simp only [keys_cons, List.mem_cons, not_or] at h
    have : ¬ e.1 = k := fun x => h.1 x.symm
    simp [find_cons, this, ih h.2]

theorem del_append (k : Int) (a b : Entries) : del k (a ++ b) = del k a ++ del k b := by
  simp [del]

/-! ## first and last node -/

theorem head_facts {e : Int × Int} {r : Entries} (h : (keys (e :: r)).Nodup) :
    find e.1 (e :: r) = some e.2 ∧ del e.1 (e :: r) = r := by
  simp only [keys_cons, List.nodup_cons] at h
  simp [find_cons, del_cons, del_of_not_mem h.1]

theorem last_facts {l : Entries} {e : Int × Int} (h : (keys l).Nodup) (hl : l.getLast? = some e) :
    find e.1 l = some e.2 ∧ del e.1 l = l.dropLast := by
  have hsplit : l = l.dropLast ++ [e] := by
    obtain ⟨ys, hys⟩ := List.getLast?_eq_some_iff.mp hl
    rw [hys]; simp
  have hk : e.1 ∉ keys l.dropLast := by
    rw [hsplit, keys_append, List.nodup_append] at h
    intro m
    exact h.2.2 _ m _ (by simp) rfl
  constructor
  · rw [hsplit, find_append_of_not_mem (by simpa using hk)]
    simp [find_cons]
  · conv => lhs; rw [hsplit]
    rw [del_append, del_of_not_mem hk]
    simp [del_cons]

theorem keys_dropLast (l : Entries) : keys l.dropLast = (keys l).dropLast := by
  simp [keys, List.map_dropLast]

theorem nodup_dropLast {l : Entries} (h : (keys l).Nodup) : (keys l.dropLast).Nodup := by
  rw [keys_dropLast]; exact (List.dropLast_sublist _).nodup h

theorem mem_keys_dropLast {l : Entries} {e : Int × Int} (h : (keys l).Nodup)
    (hl : l.getLast? = some e) (x : Int) : x ∈ keys l.dropLast ↔ x ∈ keys l ∧ x ≠ e.1 := by
  rw [← (last_facts h hl).2]; exact mem_keys_del

/-! ## `unlink` -/

/-- Under distinct keys, unlinking the node that holds `k` yields the entry the specification finds
and leaves the specification's `del k`. -/
theorem unlink_eq {k : Int} {l : Entries} (h : (keys l).Nodup) :
    unlink k l = (find k l).map (fun v => ((k, v), del k l)) := by
  induction l with
  | nil => rfl
  | cons e r ih =>
    simp only [keys_cons, List.nodup_cons] at h
    by_cases he : e.1 = k
    · have hk : k ∉ keys r := he ▸ h.1
      simp only [unlink, he, if_true, find_cons, del_cons, Option.map_some, del_of_not_mem hk]
      rw [← he]
    · simp only [unlink, he, if_false, find_cons, del_cons, ih h.2]
      cases find k r <;> rfl

theorem unlink_none_iff {k : Int} {l : Entries} : unlink k l = none ↔ k ∉ keys l := by
  induction l with
  | nil => simp [unlink]
  | cons e r ih =>
    by_cases he : e.1 = k
    · simp [unlink, he]
    · have : ¬ k = e.1 := fun x => he x.symm
      simp only [unlink, he, if_false, keys_cons, List.mem_cons, this, false_or, ← ih]
      cases unlink k r <;> simp

/-! ## the map -/

theorem mem_mapDelete {x k : Int} {items : List Int} :
    x ∈ mapDelete k items ↔ x ∈ items ∧ x ≠ k := by
  simp [mapDelete]

theorem mapHas_iff {k : Int} {items : List Int} : mapHas k items = true ↔ k ∈ items := by
  simp [mapHas]

/-! ## per-method refinement -/

/-- the part of the invariant that does not mention the capacity (`Add` calls `RemoveOldest` in a
state that is one over capacity) -/
structure Wf (c : St) : Prop where
  nodup : (keys c.list).Nodup
  items : ∀ k, k ∈ c.items ↔ k ∈ keys c.list

theorem Inv.wf {c : St} (h : Inv c) : Wf c := ⟨h.nodup, h.items⟩

/-- One method call of the model answers what the specification allows and lands in the state the
specification prescribes (`abs c = c.list`, capacity `c.size.toNat`), keeping the invariant. -/
def Refines (c : St) (op : Op) : Prop :=
  ∃ c', Model.Lru.step c op = .ok c' (Ret.ofOut (Spec.C07.step c.size.toNat c.list op).2) ∧
    c'.list = (Spec.C07.step c.size.toNat c.list op).1 ∧ c'.size = c.size ∧ Inv c'

theorem removeOldest_spec {c : St} (h : Wf c) :
    ∃ c', removeOldest c = .ok c' (Ret.ofOut (.kv c.list.getLast?)) ∧
      c'.list = c.list.dropLast ∧ c'.size = c.size ∧ Wf c' := by
  cases hl : c.list.getLast? with
  | none =>
    have : c.list = [] := by simpa using hl
    refine ⟨c, ?_, by simp [this], rfl, h⟩
    simp [removeOldest, last, hl, Ret.ofOut]
  | some e =>
    obtain ⟨hf, hd⟩ := last_facts h.nodup hl
    refine ⟨{ c with items := mapDelete e.1 c.items, list := c.list.dropLast }, ?_, rfl, rfl, ?_⟩
    · simp [removeOldest, removeLast, remove, last, hl, unlink_eq h.nodup, hf, hd, Ret.ofOut]
    · exact ⟨nodup_dropLast h.nodup, fun k => by
        simp only [mem_mapDelete, mem_keys_dropLast h.nodup hl, h.items]⟩

theorem removeYoungest_spec {c : St} (h : Wf c) :
    ∃ c', removeYoungest c = .ok c' (Ret.ofOut (.kv c.list.head?)) ∧
      c'.list = c.list.tail ∧ c'.size = c.size ∧ Wf c' := by
  cases hl : c.list with
  | nil =>
    refine ⟨c, ?_, by simp [hl], rfl, h⟩
    simp [removeYoungest, first, hl, Ret.ofOut]
  | cons e r =>
    have hn : (keys (e :: r)).Nodup := hl ▸ h.nodup
    obtain ⟨hf, hd⟩ := head_facts hn
    refine ⟨{ c with items := mapDelete e.1 c.items, list := r }, ?_, rfl, rfl, ?_⟩
    · simp [removeYoungest, remove, first, hl, unlink_eq hn, hf, hd, Ret.ofOut]
    · simp only [keys_cons, List.nodup_cons] at hn
      refine ⟨hn.2, fun k => ?_⟩
      simp only [mem_mapDelete, h.items, hl, keys_cons, List.mem_cons]
      constructor
      · rintro ⟨a | a, b⟩
        · exact absurd a b
        · exact a
      · intro a; exact ⟨Or.inr a, fun x => hn.1 (x ▸ a)⟩

/-- moving the node that holds `k` to the front -/
theorem moveFront_eq {k : Int} {l : Entries} (h : (keys l).Nodup) :
    moveFront k l = (find k l).map (fun v => ((k, v), (k, v) :: del k l)) := by
  simp only [moveFront, unlink_eq h]
  cases find k l <;> rfl

theorem wf_touch {c : St} (h : Wf c) {k v : Int} (hk : k ∈ keys c.list) :
    Wf { c with list := (k, v) :: del k c.list } := by
  refine ⟨nodup_cons_del h.nodup, fun x => ?_⟩
  simp only [h.items, keys_cons, List.mem_cons, mem_keys_del]
  constructor
  · intro a
    by_cases hx : x = k
    · exact Or.inl hx
    · exact Or.inr ⟨a, hx⟩
  · rintro (a | a)
    · exact a ▸ hk
    · exact a.1

theorem length_touch {l : Entries} {k v : Int} (hk : k ∈ keys l) :
    ((k, v) :: del k l).length ≤ l.length := by
  have := length_del_lt hk
  simp only [List.length_cons]; omega

theorem refines_removeOldest {c : St} (h : Inv c) : Refines c .removeOldest := by
  obtain ⟨c', h1, h2, h3, h4⟩ := removeOldest_spec h.wf
  refine ⟨c', by simpa [Model.Lru.step, Spec.C07.step] using h1, by simpa [Spec.C07.step] using h2, h3,
    h4.nodup, h4.items, ?_, h3 ▸ h.cap⟩
  have := h.len
  rw [h2, h3, List.length_dropLast]; omega

theorem refines_removeYoungest {c : St} (h : Inv c) : Refines c .removeYoungest := by
  obtain ⟨c', h1, h2, h3, h4⟩ := removeYoungest_spec h.wf
  refine ⟨c', by simpa [Model.Lru.step, Spec.C07.step] using h1, by simpa [Spec.C07.step] using h2, h3,
    h4.nodup, h4.items, ?_, h3 ▸ h.cap⟩
  have := h.len
  rw [h2, h3, List.length_tail]; omega

theorem refines_get {c : St} (h : Inv c) (k : Int) : Refines c (.get k) := by
  cases hf : find k c.list with
  | none =>
    have hk : k ∉ c.items := by rw [h.items]; exact find_none_iff.mp hf
    refine ⟨c, ?_, by simp [Spec.C07.step, hf], rfl, h⟩
    simp [Model.Lru.step, Model.Lru.get, mapHas, hk, Spec.C07.step, hf, Ret.ofOut]
  | some v =>
    have hk' : k ∈ keys c.list := find_isSome_iff.mp (by simp [hf])
    have hk : k ∈ c.items := (h.items k).mpr hk'
    have hw := wf_touch h.wf (v := v) hk'
    refine ⟨{ c with list := (k, v) :: del k c.list }, ?_, by simp [Spec.C07.step, hf], rfl,
      hw.nodup, hw.items, ?_, h.cap⟩
    · simp [Model.Lru.step, Model.Lru.get, mapHas, hk, moveFront_eq h.nodup, Spec.C07.step, hf, Ret.ofOut]
    · have := length_touch (v := v) hk'; have := h.len
      simp only [] at *; omega

theorem refines_getOldest {c : St} (h : Inv c) : Refines c .getOldest := by
  cases hl : c.list.getLast? with
  | none =>
    refine ⟨c, ?_, by simp [Spec.C07.step, hl], rfl, h⟩
    simp [Model.Lru.step, getOldest, last, hl, Spec.C07.step, Ret.ofOut]
  | some e =>
    obtain ⟨hf, hd⟩ := last_facts h.nodup hl
    have hk' : e.1 ∈ keys c.list := find_isSome_iff.mp (by simp [hf])
    have hw := wf_touch h.wf (v := e.2) hk'
    refine ⟨{ c with list := (e.1, e.2) :: del e.1 c.list }, ?_, by simp [Spec.C07.step, hl, hd], rfl,
      hw.nodup, hw.items, ?_, h.cap⟩
    · simp [Model.Lru.step, getOldest, last, hl, moveFront_eq h.nodup, hf, Spec.C07.step, Ret.ofOut]
    · have := length_touch (v := e.2) hk'; have := h.len
      simp only [] at *; omega

theorem refines_getYoungest {c : St} (h : Inv c) : Refines c .getYoungest := by
  refine ⟨c, ?_, rfl, rfl, h⟩
  cases hl : c.list with
  | nil => simp [Model.Lru.step, getYoungest, first, hl, Spec.C07.step, Ret.ofOut]
  | cons e r => simp [Model.Lru.step, getYoungest, first, hl, Spec.C07.step, Ret.ofOut]

theorem refines_remove {c : St} (h : Inv c) (k : Int) : Refines c (.remove k) := by
  cases hf : find k c.list with
  | none =>
    have hk : k ∉ c.items := by rw [h.items]; exact find_none_iff.mp hf
    refine ⟨c, ?_, by simp [Spec.C07.step, hf], rfl, h⟩
    simp [Model.Lru.step, removeKey, mapHas, hk, Spec.C07.step, hf, Ret.ofOut]
  | some v =>
    have hk' : k ∈ keys c.list := find_isSome_iff.mp (by simp [hf])
    have hk : k ∈ c.items := (h.items k).mpr hk'
    refine ⟨{ c with items := mapDelete k c.items, list := del k c.list }, ?_,
      by simp [Spec.C07.step, hf], rfl, nodup_del h.nodup, fun x => ?_, ?_, h.cap⟩
    · simp [Model.Lru.step, removeKey, remove, mapHas, hk, unlink_eq h.nodup, Spec.C07.step, hf, Ret.ofOut]
    · simp only [mem_mapDelete, mem_keys_del, h.items]
    · have := length_del_le k c.list; have := h.len
      simp only [] at *; omega

theorem refines_flush {c : St} (h : Inv c) : Refines c .flush := by
  refine ⟨{ c with items := [], list := [] }, rfl, rfl, rfl, by simp, by simp, ?_, h.cap⟩
  have := h.cap; simp only [List.length_nil]; omega

theorem refines_count {c : St} (h : Inv c) : Refines c .count :=
  ⟨c, rfl, rfl, rfl, h⟩

theorem spec_add_new {cap : Nat} {es : Entries} {k v : Int} (hf : find k es = none) :
    Spec.C07.step cap es (.add k v) =
      if es.length + 1 > cap then (((k, v) :: es).dropLast, .kv ((k, v) :: es).getLast?)
      else ((k, v) :: es, .kv none) := by
  simp only [Spec.C07.step, hf, List.length_cons]

theorem model_add_new {c : St} {k v : Int} (hk : k ∉ c.items) :
    Model.Lru.step c (.add k v) =
      if (c.list.length : Int) + 1 > c.size then
        removeOldest { c with items := mapSet k c.items, list := addFront k v c.list }
      else .ok { c with items := mapSet k c.items, list := addFront k v c.list } (.kvb 0 0 false) := by
  simp only [Model.Lru.step, add, mapHas, List.contains_eq_mem, hk, decide_false, Bool.false_eq_true,
    if_false, count, length, addFront, List.length_cons, Int.natCast_add, Int.cast_ofNat_Int]
  rfl

theorem refines_add {c : St} (h : Inv c) (k v : Int) : Refines c (.add k v) := by
  cases hf : find k c.list with
  | some v0 =>
    have hk' : k ∈ keys c.list := find_isSome_iff.mp (by simp [hf])
    have hk : k ∈ c.items := (h.items k).mpr hk'
    have hw := wf_touch h.wf (v := v) hk'
    refine ⟨{ c with list := (k, v) :: del k c.list }, ?_, by simp [Spec.C07.step, hf], rfl,
      hw.nodup, hw.items, ?_, h.cap⟩
    · simp [Model.Lru.step, add, mapHas, hk, unlink_eq h.nodup, Spec.C07.step, hf, Ret.ofOut]
    · have := length_touch (v := v) hk'; have := h.len
      simp only [] at *; omega
  | none =>
    have hk' : k ∉ keys c.list := find_none_iff.mp hf
    have hk : k ∉ c.items := by rw [h.items]; exact hk'
    -- the state after `addFront` and the map store
    have hw1 : Wf { c with items := mapSet k c.items, list := addFront k v c.list } := by
      refine ⟨by simpa [addFront] using ⟨hk', h.nodup⟩, fun x => ?_⟩
      simp [mapSet, addFront, h.items]
    have hcap := h.cap
    have hlen := h.len
    unfold Refines
    rw [spec_add_new hf, model_add_new hk]
    by_cases hfull : c.list.length + 1 > c.size.toNat
    · obtain ⟨c', h1, h2, h3, h4⟩ := removeOldest_spec hw1
      rw [if_pos hfull, if_pos (by omega)]
      refine ⟨c', h1, h2, h3, h4.nodup, h4.items, ?_, h3 ▸ hcap⟩
      rw [h2, h3]; simp only [addFront, List.length_dropLast, List.length_cons]
      omega
    · rw [if_neg hfull, if_neg (by omega)]
      refine ⟨_, rfl, rfl, rfl, hw1.nodup, hw1.items, ?_, hcap⟩
      simp only [addFront, List.length_cons]; omega

/-- Every method call refines the specification and keeps the invariant. -/
theorem refines_all {c : St} (h : Inv c) (op : Op) : Refines c op := by
  cases op with
  | add k v => exact refines_add h k v
  | get k => exact refines_get h k
  | getOldest => exact refines_getOldest h
  | getYoungest => exact refines_getYoungest h
  | remove k => exact refines_remove h k
  | removeOldest => exact refines_removeOldest h
  | removeYoungest => exact refines_removeYoungest h
  | flush => exact refines_flush h
  | count => exact refines_count h

/-! ## what a history says about one key -/

/-- Bookkeeping over the *observed* history for one key `k`: the value last added under `k`, unless
`k` has since been removed (`Remove k`), come back out of a remover, been evicted (returned by an
`Add`), or the cache was flushed.  Uses only operations and their returned tuples. -/
def track (k : Int) (cur : Option Int) (op : Op) (r : Ret) : Option Int :=
  match op, r with
  | .add k' v, .kvb ek _ ev => if k' = k then some v else if ev = true ∧ ek = k then none else cur
  | .remove k', _ => if k' = k then none else cur
  | .removeOldest, .kvb rk _ true => if rk = k then none else cur
  | .removeYoungest, .kvb rk _ true => if rk = k then none else cur
  | .flush, _ => none
  | _, _ => cur

/-- `track` over a whole history (operations paired with their results), starting from "absent". -/
def trackAll (k : Int) (cur : Option Int) : List Op → List Ret → Option Int
  | op :: ops, r :: rs => trackAll k (track k cur op r) ops rs
  | _, _ => cur

theorem find_del (k k' : Int) (es : Entries) :
    find k (del k' es) = if k = k' then none else find k es := by
  induction es with
  | nil => simp
  | cons e r ih =>
    by_cases h1 : e.1 = k' <;> by_cases h2 : e.1 = k <;> by_cases h3 : k = k' <;>
      simp_all [del_cons, find_cons] <;> omega

theorem find_dropLast {es : Entries} {e : Int × Int} (hn : (keys es).Nodup)
    (hl : es.getLast? = some e) (k : Int) :
    find k es.dropLast = if k = e.1 then none else find k es := by
  rw [← (last_facts hn hl).2, find_del]

/-- The specification's lookup of `k` after a call is what the observed history says. -/
theorem find_step {cap : Nat} {es : Entries} (hn : (keys es).Nodup) (hcap : 1 ≤ cap) (k : Int)
    (op : Op) :
    find k (Spec.C07.step cap es op).1 =
      track k (find k es) op (Ret.ofOut (Spec.C07.step cap es op).2) := by
  cases op with
  | add k' v =>
    cases hf : find k' es with
    | some v0 =>
      simp only [Spec.C07.step, hf, Ret.ofOut, track, find_cons, find_del]
      by_cases h : k' = k
      · simp [h]
      · have : ¬ k = k' := fun x => h x.symm
        simp [h, this]
    | none =>
      rw [spec_add_new hf]
      by_cases hfull : es.length + 1 > cap
      · rw [if_pos hfull]
        cases hl : es.getLast? with
        | none =>
          have : es = [] := by simpa using hl
          subst this; simp at hfull; omega
        | some e =>
          have hne : es ≠ [] := by intro x; subst x; simp at hl
          have h1 : ((k', v) :: es).dropLast = (k', v) :: es.dropLast := by
            cases es with
            | nil => exact absurd rfl hne
            | cons a b => rfl
          have h2 : ((k', v) :: es).getLast? = some e := by
            rw [List.getLast?_cons_of_ne_nil hne]; exact hl
          simp only [h1, h2, Ret.ofOut, track, find_cons, find_dropLast hn hl]
          by_cases h : k' = k
          · simp [h]
          · by_cases h' : k = e.1
            · simp [h']
            · have : ¬ e.1 = k := fun x => h' x.symm
              simp [h, h', this]
      · rw [if_neg hfull]
        simp only [Ret.ofOut, track, find_cons]
        by_cases h : k' = k <;> simp [h]
  | get k' =>
    cases hf : find k' es with
    | some v0 =>
      simp only [Spec.C07.step, hf, track, find_cons, find_del]
      by_cases h : k' = k
      · simp [h, ← hf]
      · have : ¬ k = k' := fun x => h x.symm
        simp [h, this]
    | none => simp [Spec.C07.step, hf, track]
  | getOldest =>
    cases hl : es.getLast? with
    | none => simp [Spec.C07.step, hl, track]
    | some e =>
      simp only [Spec.C07.step, hl, track, find_cons, find_dropLast hn hl]
      by_cases h : e.1 = k
      · simp [h, ← (last_facts hn hl).1]
      · have : ¬ k = e.1 := fun x => h x.symm
        simp [h, this]
  | getYoungest => cases es <;> simp [Spec.C07.step, track]
  | remove k' =>
    cases hf : find k' es with
    | some v0 =>
      simp only [Spec.C07.step, hf, track, find_del]
      by_cases h : k' = k
      · simp [h]
      · have : ¬ k = k' := fun x => h x.symm
        simp [h, this]
    | none =>
      simp only [Spec.C07.step, hf, track]
      by_cases h : k' = k
      · simp [h, ← hf]
      · simp [h]
  | removeOldest =>
    cases hl : es.getLast? with
    | none =>
      have : es = [] := by simpa using hl
      subst this; simp [Spec.C07.step, Ret.ofOut, track]
    | some e =>
      simp only [Spec.C07.step, hl, Ret.ofOut, track, find_dropLast hn hl]
      by_cases h : e.1 = k
      · simp [h]
      · have : ¬ k = e.1 := fun x => h x.symm
        simp [h, this]
  | removeYoungest =>
    cases es with
    | nil => simp [Spec.C07.step, Ret.ofOut, track]
    | cons e r =>
      simp only [keys_cons, List.nodup_cons] at hn
      simp only [Spec.C07.step, List.tail_cons, List.head?_cons, Ret.ofOut, track, find_cons]
      by_cases h : e.1 = k
      · simp only [h, if_true]; exact find_none_iff.mpr (h ▸ hn.1)
      · simp [h]
  | flush => simp [Spec.C07.step, track]
  | count => simp [Spec.C07.step, track]

end GoguVerif.Lemmas.C07
