import GoguVerif.Model.StoreHelpers2
import GoguVerif.Lemmas.C16Helpers
import GoguVerif.Lemmas.C12Zip
/-!
# Lemmas for the second batch of store-level helper models (C16)

The loops of `Model/StoreHelpers2.lean` are shown to be `appendEach` of the value-level answer
(`DifferenceBy`, `Duplicate`, `IntersectionBy`: under the builder invariant `Inv` of
`Lemmas/C16Helpers.lean`), resp. to simulate the value-level loops of `Model/C12.lean` step by step, panics
included (`Zip`/`Unzip`: under the invariant `RowsInv` for a whole list of rows made by the helper).
-/
namespace GoguVerif.Lemmas.C16Helpers2
open GoguVerif Model.Store Model.StoreHelpers Model.StoreHelpers2 Lemmas.C16Helpers Theorems.C16

/-! ## DifferenceBy -/

theorem skipByLoop_eq (fn : Int → Int) {σ : Store} {s2 : Slice} (h : WF σ s2) (v : Int) (n j : Nat)
    (hj : j + n = s2.len) :
    skipByLoop fn σ s2 v n j = some (Model.C11.skipByEq fn v ((elems σ s2).drop j)) := by
  induction n generalizing j with
  | zero => simp [skipByLoop, drop_len_nil h (show j = s2.len by omega), Model.C11.skipByEq]
  | succ n ih =>
    obtain ⟨w, hr, hd⟩ := read_drop h (show j < s2.len by omega)
    simp only [skipByLoop, hr, hd, Model.C11.skipByEq]
    split
    · rfl
    · exact ih (j + 1) (by omega)

theorem c11_diffByLoop_acc (fn : Int → Int) (s2 keys acc r l : List Int) :
    Model.C11.diffByLoop fn s2 keys (acc ++ r) l = acc ++ Model.C11.diffByLoop fn s2 keys r l := by
  induction l generalizing keys r with
  | nil => rfl
  | cons v rest ih =>
    simp only [Model.C11.diffByLoop]
    split
    · exact ih _ _
    · split
      · exact ih _ _
      · rw [List.append_assoc]; exact ih _ _

theorem differenceByLoop_eq (fn : Int → Int) {σ0 : Store} {s1 s2 : Slice} (h1 : WF σ0 s1) (h2 : WF σ0 s2)
    (n i : Nat) (keys : List Int) (σ : Store) (res : Slice) (hinv : Inv σ0 σ res) (hi : i + n = s1.len) :
    differenceByLoop fn s1 s2 n i keys σ res =
      some (appendEach σ res (Model.C11.diffByLoop fn (elems σ0 s2) keys [] ((elems σ0 s1).drop i))) := by
  induction n generalizing i keys σ res with
  | zero =>
    simp [differenceByLoop, drop_len_nil h1 (show i = s1.len by omega), appendEach, Model.C11.diffByLoop]
  | succ n ih =>
    obtain ⟨v, hr, hd⟩ := hinv.read h1 (show i < s1.len by omega)
    have hsk := skipByLoop_eq fn (hinv.arg h2).2.1 v s2.len 0 (by omega)
    rw [(hinv.arg h2).2.2, List.drop_zero] at hsk
    simp only [differenceByLoop, hr, hd, hsk, Model.C11.diffByLoop]
    cases hskip : Model.C11.skipByEq fn v (elems σ0 s2) with
    | true => simp only [if_true]; rw [ih (i + 1) _ _ _ hinv (by omega)]
    | false =>
      simp only [Bool.false_eq_true, if_false]
      split
      · rw [ih (i + 1) _ _ _ hinv (by omega)]
      · rw [ih (i + 1) _ _ _ (hinv.append v) (by omega)]
        have := c11_diffByLoop_acc fn (elems σ0 s2) (v :: keys) [v] [] (List.drop (i + 1) (elems σ0 s1))
        rw [List.append_nil] at this
        rw [List.nil_append, this]; rfl

/-! ## Duplicate -/

theorem hasKey_eq (k : Int) (m : List (Int × Nat)) : hasKey k m = Model.C11.hasKey k m := by
  induction m with
  | nil => rfl
  | cons e rest ih =>
    obtain ⟨k', c⟩ := e
    simp only [hasKey, Model.C11.hasKey, ih]

theorem incrKey_eq (k : Int) (m : List (Int × Nat)) : incrKey k m = Model.C11.incrKey k m := by
  induction m with
  | nil => rfl
  | cons e rest ih =>
    obtain ⟨k', c⟩ := e
    simp only [incrKey, Model.C11.incrKey, ih]

/-- the counting loop only reads: on a well-formed argument it never panics and computes the value-level
association list -/
theorem dupCountLoop_eq {σ : Store} {arg : Slice} (h : WF σ arg) (n i : Nat) (keyCount : List (Int × Nat))
    (hi : i + n = arg.len) :
    dupCountLoop σ arg n i keyCount = some (Model.C11.dupCountLoop keyCount ((elems σ arg).drop i)) := by
  induction n generalizing i keyCount with
  | zero => simp [dupCountLoop, drop_len_nil h (show i = arg.len by omega), Model.C11.dupCountLoop]
  | succ n ih =>
    obtain ⟨v, hr, hd⟩ := read_drop h (show i < arg.len by omega)
    simp only [dupCountLoop, hr, hd, Model.C11.dupCountLoop, hasKey_eq, incrKey_eq]
    split
    · exact ih (i + 1) _ (by omega)
    · exact ih (i + 1) _ (by omega)

/-- the collecting loop is a run of `append`s of the value-level answer, for the entries in ANY order -/
theorem dupCollectLoop_eq (m : List (Int × Nat)) (σ : Store) (res : Slice) :
    dupCollectLoop m σ res = appendEach σ res (Model.C11.dupCollect m) := by
  induction m generalizing σ res with
  | nil => rfl
  | cons e rest ih =>
    obtain ⟨k, v⟩ := e
    simp only [dupCollectLoop, Model.C11.dupCollect]
    split
    · rw [ih]; rfl
    · exact ih σ res

/-! ## IntersectionBy -/

theorem hasLoop_eq (fn : Int → Int) {σ : Store} {p : Slice} (h : WF σ p) (item : Int) (n k : Nat)
    (hk : k + n = p.len) :
    hasLoop fn σ p item n k = some (Model.C11.hasImage fn item ((elems σ p).drop k)) := by
  induction n generalizing k with
  | zero => simp [hasLoop, drop_len_nil h (show k = p.len by omega), Model.C11.hasImage]
  | succ n ih =>
    obtain ⟨w, hr, hd⟩ := read_drop h (show k < p.len by omega)
    simp only [hasLoop, hr, hd, Model.C11.hasImage]
    split
    · rfl
    · exact ih (k + 1) (by omega)

theorem hasStore_eq (fn : Int → Int) {σ : Store} {p : Slice} (h : WF σ p) (item : Int) :
    hasStore fn σ p item = some (Model.C11.hasImage fn item (elems σ p)) := by
  unfold hasStore
  rw [hasLoop_eq fn h item p.len 0 (by omega), List.drop_zero]

theorem interByScan_eq (fn : Int → Int) {σ : Store} (item : Int) (ps : List Slice) (hp : ∀ p ∈ ps, WF σ p) (j : Nat) :
    interByScan fn σ item ps j = some (Model.C11.interByScan fn item (ps.map (elems σ)) j) := by
  induction ps generalizing j with
  | nil => rfl
  | cons p ps ih =>
    simp only [interByScan, hasStore_eq fn (hp p (by simp)), List.map_cons, Model.C11.interByScan]
    split
    · rfl
    · exact ih (fun q hq => hp q (by simp [hq])) (j + 1)

theorem interByLoop_eq (fn : Int → Int) (np : Nat) {σ0 : Store} {p0 : Slice} {others : List Slice} (h0 : WF σ0 p0)
    (ho : ∀ p ∈ others, WF σ0 p) (n i : Nat) (σ : Store) (res : Slice) (hinv : Inv σ0 σ res)
    (hi : i + n = p0.len) :
    ∃ ws, interByLoop fn np p0 others n i σ res = some (appendEach σ res ws) ∧
      Model.C11.interByLoop fn np (others.map (elems σ0)) (elems σ res) ((elems σ0 p0).drop i) =
        elems σ res ++ ws := by
  induction n generalizing i σ res with
  | zero =>
    refine ⟨[], rfl, ?_⟩
    rw [drop_len_nil h0 (show i = p0.len by omega)]; simp [Model.C11.interByLoop]
  | succ n ih =>
    obtain ⟨item, hr, hd⟩ := hinv.read h0 (show i < p0.len by omega)
    have hsc : interByScan fn σ item others 1 =
        some (Model.C11.interByScan fn item (others.map (elems σ0)) 1) := by
      rw [interByScan_eq fn item others (fun p hp => (hinv.arg (ho p hp)).2.1) 1]
      congr 2
      exact List.map_congr_left (fun p hp => (hinv.arg (ho p hp)).2.2)
    simp only [interByLoop, hr, hd, containsStore_eq hinv.wf, hsc, Model.C11.interByLoop]
    cases hc : Model.C11.contains item (elems σ res) with
    | true => simp only [if_true]; exact ih (i + 1) σ res hinv (by omega)
    | false =>
      simp only [Bool.false_eq_true, if_false]
      split
      · obtain ⟨ws, g1, g2⟩ := ih (i + 1) _ _ (hinv.append item) (by omega)
        have he := (append_spec hinv.wf item).2.1
        refine ⟨item :: ws, g1, ?_⟩
        rw [he] at g2
        rw [g2]; simp
      · exact ih (i + 1) σ res hinv (by omega)

/-! ## Zip / Unzip: a whole list of rows made by the helper -/

/-- the invariant of a helper that builds SEVERAL rows: every array of the initial store `σ0` is unchanged in
`σ`, every row is a well-formed header into storage that did not exist in `σ0`, and different rows lie in
different arrays -/
structure RowsInv (σ0 σ : Store) (rows : List Slice) : Prop where
  len : σ0.length ≤ σ.length
  frame : Frame σ0 σ
  fresh : ∀ r ∈ rows, σ0.length ≤ r.arr
  wf : ∀ r ∈ rows, WF σ r
  ne : ∀ (i j : Nat) (ri rj : Slice), rows[i]? = some ri → rows[j]? = some rj → i ≠ j → ri.arr ≠ rj.arr

theorem RowsInv.nil (σ : Store) : RowsInv σ σ [] :=
  { len := Nat.le_refl _
    frame := fun _ _ => rfl
    fresh := fun _ h => by cases h
    wf := fun _ h => by cases h
    ne := fun i j ri rj h => by simp at h }

/-- an argument (a header into the initial store) reads the same under the invariant -/
theorem RowsInv.arg {σ0 σ : Store} {rows : List Slice} (h : RowsInv σ0 σ rows) {s : Slice} (hs : WF σ0 s) :
    σ[s.arr]? = σ0[s.arr]? ∧ WF σ s ∧ elems σ s = elems σ0 s := by
  have := h.frame s.arr (WF_arr_lt hs)
  exact ⟨this, WF_congr this hs, elems_congr s this⟩

theorem getElem?_concat_cases {α : Type} {l : List α} {a b : α} {i : Nat} (h : (l ++ [a])[i]? = some b) :
    (i < l.length ∧ l[i]? = some b) ∨ (i = l.length ∧ b = a) := by
  rcases Nat.lt_trichotomy i l.length with hlt | heq | hgt
  · rw [List.getElem?_append_left hlt] at h; exact Or.inl ⟨hlt, h⟩
  · subst heq
    rw [List.getElem?_concat_length] at h
    exact Or.inr ⟨rfl, (Option.some.inj h).symm⟩
  · rw [List.getElem?_eq_none (by simp; omega)] at h; cases h

/-- `make` of one more row -/
theorem RowsInv.alloc {σ0 σ : Store} {rows : List Slice} (h : RowsInv σ0 σ rows) (len cap : Nat) :
    RowsInv σ0 (alloc σ len cap).1 (rows ++ [(alloc σ len cap).2]) ∧
      ∀ r ∈ rows, elems (alloc σ len cap).1 r = elems σ r := by
  obtain ⟨a1, _, a3, a4, a5⟩ := alloc_spec σ len cap
  have hold : ∀ r ∈ rows, (Model.Store.alloc σ len cap).1[r.arr]? = σ[r.arr]? :=
    fun r hr => a5 _ (WF_arr_lt (h.wf r hr))
  refine ⟨⟨by have := h.len; omega, fun a ha => ?_, fun r hr => ?_, fun r hr => ?_, ?_⟩,
    fun r hr => elems_congr r (hold r hr)⟩
  · rw [a5 a (Nat.lt_of_lt_of_le ha h.len), h.frame a ha]
  · rcases List.mem_append.mp hr with hr | hr
    · exact h.fresh r hr
    · rw [List.mem_singleton.mp hr, a3]; exact h.len
  · rcases List.mem_append.mp hr with hr | hr
    · exact WF_congr (hold r hr) (h.wf r hr)
    · rw [List.mem_singleton.mp hr]; exact a1
  · intro i j ri rj hi hj hij
    rcases getElem?_concat_cases hi with ⟨_, hi'⟩ | ⟨hi1, hi2⟩ <;>
      rcases getElem?_concat_cases hj with ⟨_, hj'⟩ | ⟨hj1, hj2⟩
    · exact h.ne i j ri rj hi' hj' hij
    · have := WF_arr_lt (h.wf ri (List.mem_of_getElem? hi'))
      rw [hj2, a3]; omega
    · have := WF_arr_lt (h.wf rj (List.mem_of_getElem? hj'))
      rw [hi2, a3]; omega
    · omega

/-- a Go run-time panic on the store side is `Outcome.panic` on the value side -/
def ofOpt {α : Type} : Option α → Model.C12.Outcome α
  | none => .panic
  | some v => .ok v

/-- `slices[a][b]` of the arguments reads what the value-level model reads, out-of-range panics included -/
theorem read2_sim {σ0 σ : Store} {rows slices : List Slice} (h : RowsInv σ0 σ rows)
    (hs : ∀ p ∈ slices, WF σ0 p) (a b : Nat) :
    Model.C12.get2 (slices.map (elems σ0)) a b = ofOpt (read2 σ slices a b) := by
  unfold Model.C12.get2 read2
  rw [List.getElem?_map]
  cases hsa : slices[a]? with
  | none => rfl
  | some s =>
    have hw := hs s (List.mem_of_getElem? hsa)
    simp only [Option.map_some]
    rw [read_congr s b (h.arg hw).1, read_eq hw]
    cases (elems σ0 s)[b]? <;> rfl

/-- `rows[i][x] = v` does to the rows what the value-level `set2` does to the matrix (panics included), and
keeps the invariant: the other rows lie in other arrays -/
theorem RowsInv.write2 {σ0 σ : Store} {rows : List Slice} (h : RowsInv σ0 σ rows) (i x : Nat) (v : Int) :
    Model.C12.set2 (rows.map (elems σ)) i x v =
        ofOpt ((write2 σ rows i x v).map (fun σ' => rows.map (elems σ'))) ∧
      ∀ σ', write2 σ rows i x v = some σ' → RowsInv σ0 σ' rows := by
  unfold Model.C12.set2 Model.StoreHelpers2.write2
  rw [List.getElem?_map]
  cases hri : rows[i]? with
  | none => exact ⟨rfl, fun _ hc => by cases hc⟩
  | some ri =>
    have hmem := List.mem_of_getElem? hri
    have hw := h.wf ri hmem
    simp only [Option.map_some, elems_length hw]
    by_cases hx : x < ri.len
    · obtain ⟨σ', w1, w2, w3, w4, _, w6, _⟩ := write_spec hw hx v
      have hinv' : RowsInv σ0 σ' rows := by
        refine ⟨by rw [w3]; exact h.len, fun a ha => ?_, h.fresh, fun r hr => w6 r (h.wf r hr), h.ne⟩
        rw [w4 a (by have := h.fresh ri hmem; omega), h.frame a ha]
      refine ⟨?_, fun σ'' hc => by rw [w1] at hc; cases hc; exact hinv'⟩
      rw [if_pos hx, w1]
      simp only [Option.map_some, ofOpt]
      congr 1
      apply List.ext_getElem?
      intro k
      rw [List.getElem?_set, List.getElem?_map, List.getElem?_map]
      by_cases hk : i = k
      · subst hk
        rw [if_pos rfl, if_pos (by rw [List.length_map]; exact (List.getElem?_eq_some_iff.mp hri).1), hri,
          Option.map_some, w2]
      · rw [if_neg hk]
        cases hrk : rows[k]? with
        | none => rfl
        | some rk =>
          simp only [Option.map_some]
          rw [elems_congr rk (w4 _ (h.ne k i rk ri hrk hri (Ne.symm hk)))]
    · refine ⟨?_, fun σ' hc => by simp [write, hx] at hc⟩
      rw [if_neg hx]
      simp [write, hx, ofOpt]

/-- store side and value side agree: both panic, or both succeed with related results -/
def Sim {β γ : Type} (R : β → γ → Prop) : Option β → Model.C12.Outcome γ → Prop
  | none, .panic => True
  | some b, .ok c => R b c
  | _, _ => False

theorem Sim.elim {β γ : Type} {R : β → γ → Prop} {o : Option β} {c : Model.C12.Outcome γ} (h : Sim R o c) :
    (o = none ∧ c = .panic) ∨ ∃ b r, o = some b ∧ c = .ok r ∧ R b r := by
  cases o <;> cases c
  · exact absurd h (by simp [Sim])
  · exact Or.inl ⟨rfl, rfl⟩
  · exact Or.inr ⟨_, _, rfl, rfl, h⟩
  · exact absurd h (by simp [Sim])

theorem zipCellLoop_sim (tr : Bool) {σ0 : Store} {slices rows : List Slice} (hs : ∀ p ∈ slices, WF σ0 p)
    (x n i : Nat) (σ : Store) (hinv : RowsInv σ0 σ rows) :
    Sim (fun σ' r => RowsInv σ0 σ' rows ∧ rows.map (elems σ') = r)
      (zipCellLoop tr slices rows x n i σ)
      (Model.C12.cellLoop tr (slices.map (elems σ0)) x n i (rows.map (elems σ))) := by
  induction n generalizing i σ with
  | zero => exact ⟨hinv, rfl⟩
  | succ n ih =>
    cases tr
    · simp only [zipCellLoop, Model.C12.cellLoop, Bool.false_eq_true, if_false, read2_sim hinv hs]
      cases hr : read2 σ slices x i with
      | none => simp only [ofOpt]; trivial
      | some v =>
        simp only [ofOpt, (hinv.write2 i x v).1]
        cases hw : Model.StoreHelpers2.write2 σ rows i x v with
        | none => simp only [Option.map_none]; trivial
        | some σ1 =>
          simp only [Option.map_some]
          exact ih (i + 1) σ1 ((hinv.write2 i x v).2 σ1 hw)
    · simp only [zipCellLoop, Model.C12.cellLoop, if_true, read2_sim hinv hs]
      cases hr : read2 σ slices i x with
      | none => simp only [ofOpt]; trivial
      | some v =>
        simp only [ofOpt, (hinv.write2 x i v).1]
        cases hw : Model.StoreHelpers2.write2 σ rows x i v with
        | none => simp only [Option.map_none]; trivial
        | some σ1 =>
          simp only [Option.map_some]
          exact ih (i + 1) σ1 ((hinv.write2 x i v).2 σ1 hw)

theorem zipColLoop_sim (tr : Bool) {σ0 : Store} {slices rows : List Slice} (hs : ∀ p ∈ slices, WF σ0 p)
    (n x : Nat) (σ : Store) (hinv : RowsInv σ0 σ rows) :
    Sim (fun σ' r => RowsInv σ0 σ' rows ∧ rows.map (elems σ') = r)
      (zipColLoop tr slices rows n x σ)
      (Model.C12.colLoop tr (slices.map (elems σ0)) n x (rows.map (elems σ))) := by
  induction n generalizing x σ with
  | zero => exact ⟨hinv, rfl⟩
  | succ n ih =>
    simp only [zipColLoop, Model.C12.colLoop, List.length_map]
    rcases (zipCellLoop_sim tr hs x slices.length 0 σ hinv).elim with ⟨h1, h2⟩ | ⟨σ1, r, h1, h2, h3, h4⟩
    · rw [h1, h2]; trivial
    · subst h4
      rw [h1, h2]
      exact ih (x + 1) σ1 h3

theorem elems_nilSlice (σ : Store) : elems σ nilSlice = [] := by simp [elems, nilSlice]

theorem set_append_replicate {α : Type} (l : List α) (k : Nat) (a b : α) :
    (l ++ List.replicate (k + 1) a).set l.length b = (l ++ [b]) ++ List.replicate k a := by
  simp [List.replicate_succ]

/-- the loop that makes the rows: `done` are the rows made so far, the rest of `result` is still nil -/
theorem zipRowsLoop_sim {σ0 : Store} (sliceLen : Nat) (rest : List Slice) (hrest : ∀ p ∈ rest, WF σ0 p)
    (done : List Slice) (σ : Store) (hinv : RowsInv σ0 σ done) :
    Sim (fun (p : Store × List Slice) r =>
        RowsInv σ0 p.1 p.2 ∧ p.2.map (elems p.1) = r ∧ p.2.length = done.length + rest.length)
      (zipRowsLoop sliceLen rest done.length σ (done ++ List.replicate rest.length nilSlice))
      (Model.C12.rowsLoop sliceLen (rest.map (elems σ0)) done.length
        ((done ++ List.replicate rest.length nilSlice).map (elems σ))) := by
  induction rest generalizing done σ with
  | nil =>
    simp only [zipRowsLoop, Model.C12.rowsLoop, List.map_nil, List.length_nil, List.replicate_zero,
      List.append_nil]
    exact ⟨hinv, rfl, rfl⟩
  | cons sl rest ih =>
    have hsl := hrest sl (by simp)
    simp only [zipRowsLoop, Model.C12.rowsLoop, List.map_cons, elems_length hsl, List.length_cons]
    by_cases hne : sliceLen ≠ sl.len
    · rw [if_pos hne, if_pos hne]; trivial
    · rw [if_neg hne, if_neg hne, if_pos (by simp), if_pos (by simp)]
      obtain ⟨i1, i2⟩ := hinv.alloc sl.len sl.len
      have := ih (fun p hp => hrest p (by simp [hp])) (done ++ [(alloc σ sl.len sl.len).2]) _ i1
      rw [set_append_replicate]
      have e2 : ((done ++ List.replicate (rest.length + 1) nilSlice).map (elems σ)).set done.length
            (List.replicate sl.len default) =
          ((done ++ [(alloc σ sl.len sl.len).2]) ++ List.replicate rest.length nilSlice).map
            (elems (alloc σ sl.len sl.len).1) := by
        have h0 : (done.map (elems σ)).length = done.length := List.length_map _
        simp only [List.map_append, List.map_replicate, elems_nilSlice, List.map_cons, List.map_nil,
          (alloc_spec σ sl.len sl.len).2.1, List.map_congr_left i2]
        conv => lhs; rw [← h0]
        rw [set_append_replicate]
        rfl
      rw [e2]
      simp only [List.length_append, List.length_cons, List.length_nil] at this
      rcases this.elim with ⟨h1, h2⟩ | ⟨p, r, h1, h2, h3, h4, h5⟩
      · rw [h1, h2]; trivial
      · rw [h1, h2]; exact ⟨h3, h4, by omega⟩

theorem firstLen_eq {σ : Store} (slices : List Slice) (hs : ∀ p ∈ slices, WF σ p) :
    Model.C12.firstLen (slices.map (elems σ)) = firstLen slices := by
  cases slices with
  | nil => rfl
  | cons s0 rest => simp only [List.map_cons, Model.C12.firstLen, firstLen, elems_length (hs s0 (by simp))]

/-- **simulation** of the whole body of `Zip` / `Unzip`: the store-level model panics exactly when the
value-level model does, and otherwise its rows show the value-level answer -/
theorem zipWithStore_sim (tr : Bool) (σ : Store) (slices : List Slice) (hs : ∀ p ∈ slices, WF σ p) :
    Sim (fun (p : Store × List Slice) r =>
        RowsInv σ p.1 p.2 ∧ p.2.map (elems p.1) = r ∧ p.2.length = slices.length)
      (zipWithStore tr σ slices) (Model.C12.zipWith tr (slices.map (elems σ))) := by
  unfold zipWithStore Model.C12.zipWith
  rw [firstLen_eq slices hs, List.length_map]
  by_cases hne : firstLen slices ≠ slices.length
  · rw [if_pos hne, if_pos hne]; trivial
  · rw [if_neg hne, if_neg hne]
    have := zipRowsLoop_sim (firstLen slices) slices hs [] σ (RowsInv.nil σ)
    simp only [List.nil_append, List.length_nil, List.map_replicate, elems_nilSlice, Nat.zero_add] at this
    rcases this.elim with ⟨h1, h2⟩ | ⟨⟨σ1, rows⟩, r, h1, h2, h3, h4, h5⟩
    · rw [h1, h2]; trivial
    · simp only at h3 h4 h5
      subst h4
      rw [h1, h2]
      simp only
      rcases (zipColLoop_sim tr hs (firstLen slices) 0 σ1 h3).elim with ⟨g1, g2⟩ | ⟨σ2, r, g1, g2, g3, g4⟩
      · rw [g1, g2]; trivial
      · rw [g1, g2]; exact ⟨g3, g4, h5⟩

theorem Sim.of_some {β γ : Type} {R : β → γ → Prop} {b : β} {c : Model.C12.Outcome γ} (h : Sim R (some b) c) :
    ∃ r, c = .ok r ∧ R b r := by
  rcases h.elim with ⟨h1, _⟩ | ⟨b', r, h1, h2, h3⟩
  · cases h1
  · cases h1; exact ⟨r, h2, h3⟩

theorem Sim.of_ok {β γ : Type} {R : β → γ → Prop} {o : Option β} {r : γ} (h : Sim R o (.ok r)) :
    ∃ b, o = some b ∧ R b r := by
  rcases h.elim with ⟨_, h2⟩ | ⟨b, r', h1, h2, h3⟩
  · cases h2
  · cases h2; exact ⟨b, h1, h3⟩

theorem Sim.of_panic {β γ : Type} {R : β → γ → Prop} {o : Option β} (h : Sim R o .panic) : o = none := by
  rcases h.elim with ⟨h1, _⟩ | ⟨b, r', _, h2, _⟩
  · exact h1
  · cases h2

/-! ## Zip / Unzip obey the builder discipline -/

theorem run_append (base : Nat) (p q : List Instr) (m : Machine) :
    run base m (p ++ q) = run base (run base m p) q := by
  induction p generalizing m with
  | nil => rfl
  | cons i p ih => simp only [List.cons_append, run]; exact ih _

/-- entry `(a, b)` of the value-level matrix (`0` outside it: never used by a run that does not panic) -/
def at2 (m : List (List Int)) (a b : Nat) : Int := (((m[a]?).getD [])[b]?).getD 0

theorem at2_of_get2 {m : List (List Int)} {a b : Nat} {v : Int} (h : Model.C12.get2 m a b = .ok v) :
    at2 m a b = v := by
  unfold Model.C12.get2 at h
  unfold at2
  cases hma : m[a]? with
  | none => rw [hma] at h; cases h
  | some row =>
    rw [hma] at h
    simp only at h
    cases hrb : row[b]? with
    | none => rw [hrb] at h; cases h
    | some w => rw [hrb] at h; cases h; simp [hrb]

/-- the program of the inner loop: one indexed write per iteration, through the register of the row
(`r0` = the register of row 0) -/
def cellProg (tr : Bool) (r0 : Nat) (m : List (List Int)) (x : Nat) : Nat → Nat → List Instr
  | 0, _ => []
  | n + 1, i =>
    (if tr then Instr.write (r0 + x) i (at2 m i x) else Instr.write (r0 + i) x (at2 m x i)) ::
      cellProg tr r0 m x n (i + 1)

def colProg (tr : Bool) (r0 : Nat) (m : List (List Int)) : Nat → Nat → List Instr
  | 0, _ => []
  | n + 1, x => cellProg tr r0 m x m.length 0 ++ colProg tr r0 m n (x + 1)

/-- the program of `Zip` (`tr = false`) / `Unzip` (`tr = true`) on the matrix `m` the arguments show: one
`make([]T, len(sl))` per argument, then one indexed write per cell into the rows made -/
def zipProg (tr : Bool) (r0 : Nat) (m : List (List Int)) : List Instr :=
  m.map (fun row => Instr.alloc row.length row.length) ++ colProg tr r0 m (Model.C12.firstLen m) 0

theorem run_write_row {σ0 σ σ1 : Store} {rows : List Slice} (hinv : RowsInv σ0 σ rows) (regs : List Slice)
    (a b : Nat) (v : Int) (hw : Model.StoreHelpers2.write2 σ rows a b v = some σ1) :
    step σ0.length { σ := σ, regs := regs ++ rows } (Instr.write (regs.length + a) b v) =
      { σ := σ1, regs := regs ++ rows } := by
  unfold Model.StoreHelpers2.write2 at hw
  cases hra : rows[a]? with
  | none => rw [hra] at hw; cases hw
  | some ra =>
    rw [hra] at hw
    simp only at hw
    have hreg : (regs ++ rows)[regs.length + a]? = some ra := by
      rw [List.getElem?_append_right (by omega), Nat.add_sub_cancel_left]; exact hra
    simp only [step, hreg, hinv.fresh ra (List.mem_of_getElem? hra), if_true, hw]

theorem run_zipCellLoop (tr : Bool) {σ0 : Store} {slices rows : List Slice} (hs : ∀ p ∈ slices, WF σ0 p)
    (regs : List Slice) (x n i : Nat) (σ σ' : Store) (hinv : RowsInv σ0 σ rows)
    (h : zipCellLoop tr slices rows x n i σ = some σ') :
    run σ0.length { σ := σ, regs := regs ++ rows } (cellProg tr regs.length (slices.map (elems σ0)) x n i) =
        { σ := σ', regs := regs ++ rows } ∧ RowsInv σ0 σ' rows := by
  induction n generalizing i σ with
  | zero => cases h; exact ⟨rfl, hinv⟩
  | succ n ih =>
    cases tr
    · simp only [zipCellLoop, Bool.false_eq_true, if_false] at h
      cases hr : read2 σ slices x i with
      | none => rw [hr] at h; cases h
      | some v =>
        rw [hr] at h
        simp only at h
        cases hw : Model.StoreHelpers2.write2 σ rows i x v with
        | none => rw [hw] at h; cases h
        | some σ1 =>
          rw [hw] at h
          simp only at h
          have hv : at2 (slices.map (elems σ0)) x i = v := by
            apply at2_of_get2; rw [read2_sim hinv hs, hr]; rfl
          simp only [cellProg, Bool.false_eq_true, if_false, run, hv, run_write_row hinv regs i x v hw]
          exact ih (i + 1) σ1 ((hinv.write2 i x v).2 σ1 hw) h
    · simp only [zipCellLoop, if_true] at h
      cases hr : read2 σ slices i x with
      | none => rw [hr] at h; cases h
      | some v =>
        rw [hr] at h
        simp only at h
        cases hw : Model.StoreHelpers2.write2 σ rows x i v with
        | none => rw [hw] at h; cases h
        | some σ1 =>
          rw [hw] at h
          simp only at h
          have hv : at2 (slices.map (elems σ0)) i x = v := by
            apply at2_of_get2; rw [read2_sim hinv hs, hr]; rfl
          simp only [cellProg, if_true, run, hv, run_write_row hinv regs x i v hw]
          exact ih (i + 1) σ1 ((hinv.write2 x i v).2 σ1 hw) h

theorem run_zipColLoop (tr : Bool) {σ0 : Store} {slices rows : List Slice} (hs : ∀ p ∈ slices, WF σ0 p)
    (regs : List Slice) (n x : Nat) (σ σ' : Store) (hinv : RowsInv σ0 σ rows)
    (h : zipColLoop tr slices rows n x σ = some σ') :
    run σ0.length { σ := σ, regs := regs ++ rows } (colProg tr regs.length (slices.map (elems σ0)) n x) =
        { σ := σ', regs := regs ++ rows } ∧ RowsInv σ0 σ' rows := by
  induction n generalizing x σ with
  | zero => cases h; exact ⟨rfl, hinv⟩
  | succ n ih =>
    simp only [zipColLoop] at h
    cases hc : zipCellLoop tr slices rows x slices.length 0 σ with
    | none => rw [hc] at h; cases h
    | some σ1 =>
      rw [hc] at h
      simp only at h
      obtain ⟨c1, c2⟩ := run_zipCellLoop tr hs regs x slices.length 0 σ σ1 hinv hc
      simp only [colProg, run_append, List.length_map, c1]
      exact ih (x + 1) σ1 c2 h

theorem run_zipRowsLoop {σ0 : Store} (sliceLen : Nat) (rest : List Slice) (hrest : ∀ p ∈ rest, WF σ0 p)
    (base : Nat) (regs done : List Slice) (σ σ' : Store) (rows : List Slice)
    (h : zipRowsLoop sliceLen rest done.length σ (done ++ List.replicate rest.length nilSlice) = some (σ', rows)) :
    run base { σ := σ, regs := regs ++ done }
        ((rest.map (elems σ0)).map (fun row => Instr.alloc row.length row.length)) =
      { σ := σ', regs := regs ++ rows } := by
  induction rest generalizing done σ with
  | nil =>
    simp only [zipRowsLoop, List.length_nil, List.replicate_zero, List.append_nil, Option.some.injEq,
      Prod.mk.injEq] at h
    obtain ⟨h1, h2⟩ := h
    subst h1 h2
    rfl
  | cons sl rest ih =>
    have hsl := hrest sl (by simp)
    simp only [zipRowsLoop, List.length_cons] at h
    split at h
    · cases h
    · split at h
      · rw [set_append_replicate] at h
        have hl : (done ++ [(alloc σ sl.len sl.len).2]).length = done.length + 1 := by simp
        rw [← hl] at h
        have := ih (fun p hp => hrest p (by simp [hp])) _ _ h
        simp only [List.map_cons, run, step, elems_length hsl]
        rw [List.append_assoc]
        exact this
      · cases h

end GoguVerif.Lemmas.C16Helpers2
