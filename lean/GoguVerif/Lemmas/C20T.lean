import GoguVerif.Spec.C20
import GoguVerif.Model.C20
/-!
# C20 — helper lemmas: the throttle invariant

`TInv cfg s` holds in every reachable state of the throttle model, for every choice function.  All
clauses are monotone in the clock, so the invariant is preserved by every sub-operation separately
(`tcall`, `tnext`, `tcancel`, `advanceTo`), also in the middle of a step.
-/
namespace GoguVerif.Lemmas.C20T
open GoguVerif.Spec.C20 GoguVerif.Model.C20

theorem gapOK_mono {dur : Nat} {trailing : Bool} {l t t' : Int}
    (h : gapOK dur trailing l t = true) (ht : t ≤ t') : gapOK dur trailing l t' = true := by
  unfold gapOK at *
  cases trailing <;> simp at * <;> omega

theorem spacedOK_snoc (dur : Nat) (trailing : Bool) (l : List Int) (x : Int) :
    spacedOK dur trailing (l ++ [x]) =
      (spacedOK dur trailing l &&
        (match l.getLast? with | none => true | some y => gapOK dur trailing y x)) := by
  induction l with
  | nil => simp [spacedOK]
  | cons a r ih =>
    cases r with
    | nil => simp [spacedOK]
    | cons b r =>
      have : (a :: b :: r) ++ [x] = a :: b :: (r ++ [x]) := rfl
      rw [this]
      simp only [spacedOK]
      have ih' : spacedOK dur trailing (b :: (r ++ [x])) = _ := ih
      rw [ih', List.getLast?_cons_cons, Bool.and_assoc]

theorem getLast?_snoc_map {α β} (l : List α) (x : α) (f : α → β) :
    ((l ++ [x]).getLast?).map f = some (f x) := by
  simp

/-- everything except "nobody is blocked while a permission is waiting" -/
structure TInv0 (cfg : TCfg) (s : TState) : Prop where
  bs : s.stop = true → s.blocked = []
  last_eq : s.last = (s.grants.getLast?).map (·.t)
  last_le : ∀ l, s.last = some l → l ≤ s.now
  sched : ∀ sc, s.scheduled = some sc →
    cfg.trailing = true ∧ s.waiting = false ∧ s.now ≤ sc.deadline ∧
    s.last = some (sc.deadline - cfg.dur) ∧ sc.cepoch = s.grants.length ∧
    (sc.ctime, sc.cepoch) ∈ s.calls ∧ sc.ctime ≤ s.now
  wait : s.waiting = true → s.stop = false →
    s.wsrc.2 = s.grants.length ∧ s.wsrc ∈ s.calls ∧ s.wsrc.1 ≤ s.now ∧
    ∀ l, s.last = some l →
      gapOK cfg.dur cfg.trailing l s.now = true ∧ (cfg.trailing = false → l + cfg.dur < s.wsrc.1)
  notrail : cfg.trailing = false → s.scheduled = none
  spaced : spacedOK cfg.dur cfg.trailing (s.grants.map (·.t)) = true
  gr : ∀ g ∈ s.grants, (g.ctime, g.cepoch) ∈ s.calls ∧ g.ctime ≤ g.t ∧
    ∀ l, g.prevT = some l → cfg.trailing = false → l + cfg.dur < g.ctime
  epochs : ∀ (k : Nat) (g : Grant), s.grants[k]? = some g → g.cepoch = k
  chain : ∀ (k : Nat) (g g' : Grant), s.grants[k]? = some g' → s.grants[k + 1]? = some g → g.prevT = some g'.t
  first : ∀ (g : Grant), s.grants[0]? = some g → g.prevT = none
  calls_ep : ∀ c ∈ s.calls, c.2 ≤ s.grants.length ∧ c.1 ≤ s.now

structure TInv (cfg : TCfg) (s : TState) : Prop extends TInv0 cfg s where
  bw : s.waiting = true → s.stop = false → s.blocked = []

theorem tinv_init (cfg : TCfg) : TInv cfg {} where
  bs := fun _ => rfl
  last_eq := rfl
  last_le := by intro l h; cases h
  sched := by intro sc h; cases h
  wait := by intro h; cases h
  notrail := fun _ => rfl
  spaced := rfl
  gr := by intro g h; cases h
  epochs := by intro k g h; simp at h
  chain := by intro k g g' h; simp at h
  first := by intro g h; simp at h
  calls_ep := by intro c h; cases h
  bw := fun _ _ => rfl

/-- the invariant does not mention the event counter -/
theorem TInv.set_n {cfg s} (h : TInv cfg s) (k : Nat) : TInv cfg { s with n := k } :=
  { bs := h.bs, last_eq := h.last_eq, last_le := h.last_le, sched := h.sched, wait := h.wait,
    notrail := h.notrail, spaced := h.spaced, gr := h.gr, epochs := h.epochs, chain := h.chain,
    first := h.first, calls_ep := h.calls_ep, bw := h.bw }

/-- time passes without reaching the trailing timer's deadline -/
theorem TInv.set_now {cfg s} (h : TInv cfg s) (t : Int) (ht : s.now ≤ t)
    (hd : ∀ sc, s.scheduled = some sc → t ≤ sc.deadline) : TInv cfg { s with now := t } where
  bs := h.bs
  last_eq := h.last_eq
  last_le := by intro l hl; have := h.last_le l hl; show l ≤ t; omega
  sched := by
    intro sc hsc
    obtain ⟨h1, h2, _, h4, h5, h6, h7⟩ := h.sched sc hsc
    exact ⟨h1, h2, hd sc hsc, h4, h5, h6, by show sc.ctime ≤ t; omega⟩
  wait := by
    intro hw hs
    obtain ⟨h1, h2, h3, h4⟩ := h.wait hw hs
    refine ⟨h1, h2, by show s.wsrc.1 ≤ t; omega, ?_⟩
    intro l hl
    exact ⟨gapOK_mono (h4 l hl).1 ht, (h4 l hl).2⟩
  notrail := h.notrail
  spaced := h.spaced
  gr := h.gr
  epochs := h.epochs
  chain := h.chain
  first := h.first
  calls_ep := by
    intro c hc
    have := h.calls_ep c hc
    exact ⟨this.1, by show c.1 ≤ t; omega⟩
  bw := h.bw

/-- logging a trigger (ghost) -/
theorem TInv.logCall {cfg s} (h : TInv cfg s) : TInv cfg (logCall s) where
  bs := h.bs
  last_eq := h.last_eq
  last_le := h.last_le
  sched := by
    intro sc hsc
    obtain ⟨h1, h2, h3, h4, h5, h6, h7⟩ := h.sched sc hsc
    exact ⟨h1, h2, h3, h4, h5, List.mem_append_left _ h6, h7⟩
  wait := by
    intro hw hs
    obtain ⟨h1, h2, h3, h4⟩ := h.wait hw hs
    exact ⟨h1, List.mem_append_left _ h2, h3, h4⟩
  notrail := h.notrail
  spaced := h.spaced
  gr := by
    intro g hg
    obtain ⟨h1, h2⟩ := h.gr g hg
    exact ⟨List.mem_append_left _ h1, h2⟩
  epochs := h.epochs
  chain := h.chain
  first := h.first
  calls_ep := by
    intro c hc
    simp only [Model.C20.logCall, List.mem_append, List.mem_singleton] at hc
    rcases hc with hc | rfl
    · exact h.calls_ep c hc
    · exact ⟨Nat.le_refl _, Int.le_refl _⟩
  bw := h.bw

/-- a caller takes the permission -/
theorem grantTo_inv {cfg s} (id : Nat) (h : TInv0 cfg s) (hw : s.waiting = true)
    (hs : s.stop = false) : TInv cfg (grantTo s id) := by
  have hsched : s.scheduled = none := by
    cases hsc : s.scheduled with
    | none => rfl
    | some sc => have := (h.sched sc hsc).2.1; rw [hw] at this; cases this
  obtain ⟨w1, w2, w3, w4⟩ := h.wait hw hs
  have hlen : ∀ {α} (l : List α) (x : α), (l ++ [x]).length = l.length + 1 := by
    intro α l x; simp
  refine
    { bs := by intro h'; have : s.stop = true := h'; rw [hs] at this; cases this
      last_eq := by simp [grantTo]
      last_le := by intro l hl; simp only [grantTo, Option.some.injEq] at hl; subst hl; exact Int.le_refl _
      sched := by intro sc hsc; have : s.scheduled = some sc := hsc; rw [hsched] at this; cases this
      wait := by intro h'; cases h'
      notrail := fun _ => hsched
      spaced := ?_
      gr := ?_
      epochs := ?_
      chain := ?_
      first := ?_
      calls_ep := ?_
      bw := by intro h'; cases h' }
  · -- spacing
    show spacedOK cfg.dur cfg.trailing ((s.grants ++ [_]).map (fun g : Grant => g.t)) = true
    rw [List.map_append, List.map_singleton, spacedOK_snoc, h.spaced, Bool.true_and]
    have hl := h.last_eq
    rw [← List.getLast?_map]  at hl
    cases hg : (s.grants.map (·.t)).getLast? with
    | none => rfl
    | some y =>
      rw [hg] at hl
      exact (w4 y hl).1
  · -- triggers
    intro g hg
    simp only [grantTo, List.mem_append, List.mem_singleton] at hg
    rcases hg with hg | rfl
    · exact h.gr g hg
    · refine ⟨w2, w3, ?_⟩
      intro l hl htr
      exact (w4 l hl).2 htr
  · -- epochs
    intro k g hk
    simp only [grantTo] at hk
    by_cases hlt : k < s.grants.length
    · rw [List.getElem?_append_left hlt] at hk; exact h.epochs k g hk
    · rw [List.getElem?_append_right (by omega)] at hk
      have hk0 : k - s.grants.length = 0 := by
        rcases List.getElem?_eq_some_iff.mp hk with ⟨hl, _⟩
        simp at hl; omega
      rw [hk0] at hk
      simp only [List.getElem?_cons_zero, Option.some.injEq] at hk
      subst hk
      show s.wsrc.2 = k
      omega
  · -- chain
    intro k g g' hk' hk
    simp only [grantTo] at hk hk'
    by_cases hlt : k + 1 < s.grants.length
    · rw [List.getElem?_append_left hlt] at hk
      rw [List.getElem?_append_left (by omega)] at hk'
      exact h.chain k g g' hk' hk
    · rw [List.getElem?_append_right (by omega)] at hk
      have hk0 : k + 1 - s.grants.length = 0 := by
        rcases List.getElem?_eq_some_iff.mp hk with ⟨hl, _⟩
        simp at hl; omega
      rw [hk0] at hk
      simp only [List.getElem?_cons_zero, Option.some.injEq] at hk
      subst hk
      show s.last = some g'.t
      have hkl : k + 1 = s.grants.length := by omega
      rw [List.getElem?_append_left (by omega)] at hk'
      rw [h.last_eq, List.getLast?_eq_getElem?]
      have : s.grants.length - 1 = k := by omega
      rw [this, hk']
      rfl
  · -- first
    intro g hg
    simp only [grantTo] at hg
    by_cases hlt : 0 < s.grants.length
    · rw [List.getElem?_append_left hlt] at hg; exact h.first g hg
    · have he : s.grants = [] := by
        cases hgr : s.grants with
        | nil => rfl
        | cons a r => rw [hgr] at hlt; simp at hlt
      rw [he] at hg
      simp only [List.nil_append, List.getElem?_cons_zero, Option.some.injEq] at hg
      subst hg
      show s.last = none
      rw [h.last_eq, he]; rfl
  · -- call log
    intro c hc
    have := h.calls_ep c hc
    exact ⟨by show c.2 ≤ (s.grants ++ [_]).length; rw [hlen]; omega, this.2⟩

/-- `waiting := true` + broadcast, caused by a trigger `w` of the current epoch -/
theorem wake_inv {cfg s} (ch : Choice) (w : Int × Nat) (h : TInv cfg s)
    (_hw : s.waiting = false) (hs : s.stop = false) (hsc : s.scheduled = none)
    (w1 : w.2 = s.grants.length) (w2 : w ∈ s.calls) (w3 : w.1 ≤ s.now)
    (w4 : ∀ l, s.last = some l →
      gapOK cfg.dur cfg.trailing l s.now = true ∧ (cfg.trailing = false → l + cfg.dur < w.1)) :
    TInv cfg (wake ch s w) := by
  have h0 : ∀ B : List Nat, TInv0 cfg { s with waiting := true, wsrc := w, blocked := B } := by
    intro B
    exact
      { bs := by intro h'; have : s.stop = true := h'; rw [hs] at this; cases this
        last_eq := h.last_eq
        last_le := h.last_le
        sched := by intro sc hsc'; have : s.scheduled = some sc := hsc'; rw [hsc] at this; cases this
        wait := fun _ _ => ⟨w1, w2, w3, w4⟩
        notrail := h.notrail
        spaced := h.spaced
        gr := h.gr
        epochs := h.epochs
        chain := h.chain
        first := h.first
        calls_ep := h.calls_ep }
  unfold wake
  cases hb : s.blocked with
  | nil =>
    simp only
    exact { toTInv0 := h0 [], bw := fun _ _ => rfl }
  | cons b bs =>
    simp only
    exact grantTo_inv _ (h0 _) rfl hs

theorem tnext_inv {cfg s} (id : Nat) (h : TInv cfg s) : TInv cfg (tnext s id) := by
  unfold tnext
  by_cases hc : s.waiting = true ∨ s.stop = true
  · rw [if_pos hc]
    by_cases hs : s.stop = false
    · rw [if_pos hs]
      have hw : s.waiting = true := by
        rcases hc with hc | hc
        · exact hc
        · rw [hs] at hc; cases hc
      exact grantTo_inv id h.toTInv0 hw hs
    · rw [if_neg hs]
      exact
        { bs := h.bs, last_eq := h.last_eq, last_le := h.last_le, sched := h.sched, wait := h.wait,
          notrail := h.notrail, spaced := h.spaced, gr := h.gr, epochs := h.epochs, chain := h.chain,
          first := h.first, calls_ep := h.calls_ep, bw := h.bw }
  · rw [if_neg hc]
    have hw : s.waiting = false := by
      cases hwv : s.waiting with
      | false => rfl
      | true => exact absurd (Or.inl hwv) hc
    have hs : s.stop = false := by
      cases hsv : s.stop with
      | false => rfl
      | true => exact absurd (Or.inr hsv) hc
    exact
      { bs := by intro h'; have : s.stop = true := h'; rw [hs] at this; cases this
        last_eq := h.last_eq, last_le := h.last_le, sched := h.sched, wait := h.wait,
        notrail := h.notrail, spaced := h.spaced, gr := h.gr, epochs := h.epochs, chain := h.chain,
        first := h.first, calls_ep := h.calls_ep
        bw := by intro h'; have : s.waiting = true := h'; rw [hw] at this; cases this }

theorem tcancel_inv {cfg s} (h : TInv cfg s) : TInv cfg (tcancel s) :=
  { bs := fun _ => rfl, last_eq := h.last_eq, last_le := h.last_le, sched := h.sched
    wait := by intro _ h'; cases h'
    notrail := h.notrail, spaced := h.spaced, gr := h.gr, epochs := h.epochs, chain := h.chain,
    first := h.first, calls_ep := h.calls_ep, bw := fun _ _ => rfl }

theorem tcall_inv {cfg s} (ch : Choice) (h : TInv cfg s) : TInv cfg (tcall cfg ch s) := by
  have hl := h.logCall
  have hmem : ((logCall s).now, (logCall s).grants.length) ∈ (logCall s).calls := by
    simp [logCall]
  unfold tcall
  simp only
  by_cases hc : (logCall s).waiting = false ∧ (logCall s).stop = false
  · rw [if_pos hc]
    obtain ⟨hw, hs⟩ := hc
    cases hlast : (logCall s).last with
    | none =>
      simp only
      have hsc : (logCall s).scheduled = none := by
        cases hsv : (logCall s).scheduled with
        | none => rfl
        | some sc => have := (hl.sched sc hsv).2.2.2.1; rw [hlast] at this; cases this
      exact wake_inv ch _ hl hw hs hsc rfl hmem (Int.le_refl _)
        (by intro l hl'; rw [hlast] at hl'; cases hl')
    | some l =>
      simp only
      by_cases hd : (logCall s).now - l > cfg.dur
      · rw [if_pos hd]
        have hsc : (logCall s).scheduled = none := by
          cases hsv : (logCall s).scheduled with
          | none => rfl
          | some sc =>
            obtain ⟨_, _, h3, h4, _⟩ := hl.sched sc hsv
            rw [hlast] at h4
            simp only [Option.some.injEq] at h4
            omega
        refine wake_inv ch _ hl hw hs hsc rfl hmem (Int.le_refl _) ?_
        intro l' hl'
        rw [hlast] at hl'
        simp only [Option.some.injEq] at hl'
        subst hl'
        constructor
        · unfold gapOK; cases cfg.trailing <;> simp <;> omega
        · intro _; show l + cfg.dur < (logCall s).now; omega
      · rw [if_neg hd]
        by_cases ht : cfg.trailing = true ∧ (logCall s).scheduled = none
        · rw [if_pos ht]
          have hle := hl.last_le l hlast
          exact
            { bs := hl.bs
              last_eq := by show some l = _; rw [← hlast]; exact hl.last_eq
              last_le := by intro l' hl'; exact hl.last_le l' (by rw [hlast]; exact hl')
              sched := by
                intro sc hsc
                simp only [Option.some.injEq] at hsc
                subst hsc
                refine ⟨ht.1, hw, ?_, ?_, rfl, hmem, Int.le_refl _⟩
                · show (logCall s).now ≤ (logCall s).now + (cfg.dur - ((logCall s).now - l)); omega
                · show some l = some ((logCall s).now + (cfg.dur - ((logCall s).now - l)) - cfg.dur)
                  congr 1; omega
              wait := by intro h'; have : (logCall s).waiting = true := h'; rw [hw] at this; cases this
              notrail := by intro h'; rw [ht.1] at h'; cases h'
              spaced := hl.spaced, gr := hl.gr, epochs := hl.epochs, chain := hl.chain,
              first := hl.first, calls_ep := hl.calls_ep
              bw := by intro h'; have : (logCall s).waiting = true := h'; rw [hw] at this; cases this }
        · rw [if_neg ht]; exact hl
  · rw [if_neg hc]; exact hl

theorem fire_inv {cfg s} (ch : Choice) (sc : Sched) (h : TInv cfg s) (hsc : s.scheduled = some sc) :
    TInv cfg (fire ch { s with now := max s.now sc.deadline } sc) := by
  obtain ⟨h1, h2, h3, h4, h5, h6, h7⟩ := h.sched sc hsc
  have hmax : max s.now sc.deadline = sc.deadline := Int.max_eq_right h3
  rw [hmax]
  -- the state at the deadline, timer cleared
  have hb : TInv cfg { s with now := sc.deadline, scheduled := none } := by
    have hn := h.set_now sc.deadline h3 (by intro sc' hsc'; rw [hsc] at hsc'; cases hsc'; exact Int.le_refl _)
    exact
      { bs := hn.bs, last_eq := hn.last_eq, last_le := hn.last_le
        sched := by intro sc' hsc'; cases hsc'
        wait := hn.wait
        notrail := fun _ => rfl
        spaced := hn.spaced, gr := hn.gr, epochs := hn.epochs, chain := hn.chain,
        first := hn.first, calls_ep := hn.calls_ep, bw := hn.bw }
  unfold fire
  simp only
  by_cases hs : s.stop = true
  · rw [if_pos hs]; exact hb
  · rw [if_neg hs]
    have hs' : s.stop = false := by
      cases hsv : s.stop with
      | false => rfl
      | true => exact absurd hsv hs
    refine wake_inv ch _ hb h2 hs' rfl h5 h6 (by show sc.ctime ≤ sc.deadline; omega) ?_
    intro l hl
    have hl' : s.last = some l := hl
    rw [h4] at hl'
    simp only [Option.some.injEq] at hl'
    subst hl'
    constructor
    · unfold gapOK; rw [h1]; simp
    · intro h'; rw [h1] at h'; cases h'

theorem fire_scheduled {s} (ch : Choice) (sc : Sched) : (fire ch s sc).scheduled = none := by
  unfold fire
  simp only
  split
  · rfl
  · unfold wake
    simp only
    split <;> rfl

theorem fire_now {s} (ch : Choice) (sc : Sched) : (fire ch s sc).now = s.now := by
  unfold fire
  simp only
  split
  · rfl
  · unfold wake
    simp only
    split <;> rfl

theorem advanceTo_inv {cfg s} (ch : Choice) (target : Int) (h : TInv cfg s) (ht : s.now ≤ target) :
    TInv cfg (advanceTo ch s target) := by
  have key : ∀ o, s.scheduled = o → TInv cfg (advanceTo ch s target) := by
    intro o hsc
    unfold advanceTo
    rw [hsc]
    cases o with
    | none =>
      simp only
      have := h.set_now target ht (by intro sc h'; rw [hsc] at h'; cases h')
      rw [hsc] at this
      exact this
    | some sc =>
      simp only
      by_cases hd : sc.deadline ≤ target
      · rw [if_pos hd]
        have hf := fire_inv ch sc h hsc
        have hnow := fire_now (s := { s with now := max s.now sc.deadline }) ch sc
        have hnone := fire_scheduled (s := { s with now := max s.now sc.deadline }) ch sc
        refine hf.set_now target ?_ ?_
        · rw [hnow]; show max s.now sc.deadline ≤ target; omega
        · intro sc' h'; rw [hnone] at h'; cases h'
      · rw [if_neg hd]
        have := h.set_now target ht (by intro sc' h'; rw [hsc] at h'; cases h'; omega)
        rw [hsc] at this
        exact this
  exact key _ rfl

theorem tstep_inv {cfg s} (ch : Choice) (e : TEv) (h : TInv cfg s) : TInv cfg (tstep cfg ch s e) := by
  unfold tstep
  simp only
  apply TInv.set_n
  apply advanceTo_inv
  · cases e with
    | call => exact tcall_inv ch h
    | cancel => exact tcancel_inv h
    | next id => exact tnext_inv id h
    | advance dt => exact h
  · omega

theorem trun_inv (cfg : TCfg) (ch : Choice) (evs : List TEv) : TInv cfg (trun cfg ch evs) := by
  have : ∀ (evs : List TEv) (s : TState), TInv cfg s → TInv cfg (evs.foldl (tstep cfg ch) s) := by
    intro evs
    induction evs with
    | nil => intro s h; exact h
    | cons e r ih => intro s h; exact ih _ (tstep_inv ch e h)
  exact this evs {} (tinv_init cfg)

end GoguVerif.Lemmas.C20T
