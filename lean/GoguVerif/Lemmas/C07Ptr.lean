import GoguVerif.Model.LruPtr
/-!
# C07 — helper lemmas for the pointer-level layer, part 1: the store and the circular chain

The heap is seen through its field views `nextOf`, `prevOf`, `kvOf` (functions `Nat → Option _`);
a field write updates one view at one address.  The circular list over the addresses `as`
(front first) is `LinkedF next prev (0 :: as ++ [0])`: every adjacent pair `(x, y)` of
`root, a₁, …, aₙ, root` has `x.next = y` and `y.prev = x`.
-/
namespace GoguVerif.Lemmas.C07Ptr
open GoguVerif Model.LruPtr

/-- point update of a field view -/
def upd {β : Type} (f : Nat → Option β) (a : Nat) (b : β) : Nat → Option β :=
  fun x => if x = a then some b else f x

@[simp] theorem upd_same {β : Type} (f : Nat → Option β) (a : Nat) (b : β) : upd f a b a = some b := by
  simp [upd]
theorem upd_ne {β : Type} (f : Nat → Option β) {a x : Nat} (b : β) (h : x ≠ a) : upd f a b x = f x := by
  simp [upd, h]

/-- key and value of the node at an address -/
def kvOf (h : Heap) (a : Nat) : Option (Int × Int) := (h[a]?).map (fun n => (n.key, n.value))

theorem keyOf_eq (h : Heap) (a : Nat) : keyOf h a = (kvOf h a).map (·.1) := by
  simp only [keyOf, kvOf, Option.map_map]; rfl
theorem valOf_eq (h : Heap) (a : Nat) : valOf h a = (kvOf h a).map (·.2) := by
  simp only [valOf, kvOf, Option.map_map]; rfl

theorem lt_of_nextOf {h : Heap} {a b : Nat} (e : nextOf h a = some b) : a < h.length := by
  by_cases hlt : a < h.length
  · exact hlt
  · simp [nextOf, List.getElem?_eq_none (Nat.le_of_not_lt hlt)] at e
theorem lt_of_prevOf {h : Heap} {a b : Nat} (e : prevOf h a = some b) : a < h.length := by
  by_cases hlt : a < h.length
  · exact hlt
  · simp [prevOf, List.getElem?_eq_none (Nat.le_of_not_lt hlt)] at e
theorem lt_of_kvOf {h : Heap} {a : Nat} {e : Int × Int} (he : kvOf h a = some e) : a < h.length := by
  by_cases hlt : a < h.length
  · exact hlt
  · simp [kvOf, List.getElem?_eq_none (Nat.le_of_not_lt hlt)] at he

/-! ## writes -/

theorem wrNext_spec {h : Heap} {a : Nat} (b : Nat) (ha : a < h.length) :
    ∃ h', wrNext h a b = some h' ∧ h'.length = h.length ∧ nextOf h' = upd (nextOf h) a b ∧
      prevOf h' = prevOf h ∧ kvOf h' = kvOf h := by
  refine ⟨h.set a { h[a] with next := b }, by simp [wrNext, List.getElem?_eq_getElem ha], by simp,
    ?_, ?_, ?_⟩ <;> funext x <;> by_cases hx : x = a
  · subst hx; simp [nextOf, upd, ha]
  · have : ¬ a = x := fun e => hx e.symm
    simp [nextOf, upd, hx, this]
  · subst hx; simp [prevOf, ha]
  · have : ¬ a = x := fun e => hx e.symm
    simp [prevOf, this]
  · subst hx; simp [kvOf, ha]
  · have : ¬ a = x := fun e => hx e.symm
    simp [kvOf, this]

theorem wrPrev_spec {h : Heap} {a : Nat} (b : Nat) (ha : a < h.length) :
    ∃ h', wrPrev h a b = some h' ∧ h'.length = h.length ∧ prevOf h' = upd (prevOf h) a b ∧
      nextOf h' = nextOf h ∧ kvOf h' = kvOf h := by
  refine ⟨h.set a { h[a] with prev := b }, by simp [wrPrev, List.getElem?_eq_getElem ha], by simp,
    ?_, ?_, ?_⟩ <;> funext x <;> by_cases hx : x = a
  · subst hx; simp [prevOf, upd, ha]
  · have : ¬ a = x := fun e => hx e.symm
    simp [prevOf, upd, hx, this]
  · subst hx; simp [nextOf, ha]
  · have : ¬ a = x := fun e => hx e.symm
    simp [nextOf, this]
  · subst hx; simp [kvOf, ha]
  · have : ¬ a = x := fun e => hx e.symm
    simp [kvOf, this]

theorem wrVal_spec {h : Heap} {a : Nat} {e : Int × Int} (v : Int) (he : kvOf h a = some e) :
    ∃ h', wrVal h a v = some h' ∧ h'.length = h.length ∧ kvOf h' = upd (kvOf h) a (e.1, v) ∧
      nextOf h' = nextOf h ∧ prevOf h' = prevOf h := by
  have ha := lt_of_kvOf he
  have hk : h[a].key = e.1 := by
    simp [kvOf, List.getElem?_eq_getElem ha] at he; rw [← he]
  refine ⟨h.set a { h[a] with value := v }, by simp [wrVal, List.getElem?_eq_getElem ha], by simp,
    ?_, ?_, ?_⟩ <;> funext x <;> by_cases hx : x = a
  · subst hx; simp [kvOf, upd, ha, hk]
  · have : ¬ a = x := fun e => hx e.symm
    simp [kvOf, upd, hx, this]
  · subst hx; simp [nextOf, ha]
  · have : ¬ a = x := fun e => hx e.symm
    simp [nextOf, this]
  · subst hx; simp [prevOf, ha]
  · have : ¬ a = x := fun e => hx e.symm
    simp [prevOf, this]

/-- allocation of a new node at the end of the heap -/
theorem alloc_spec (h : Heap) (n : PNode) :
    nextOf (h ++ [n]) = upd (nextOf h) h.length n.next ∧
    prevOf (h ++ [n]) = upd (prevOf h) h.length n.prev ∧
    kvOf (h ++ [n]) = upd (kvOf h) h.length (n.key, n.value) := by
  refine ⟨?_, ?_, ?_⟩ <;> funext x <;> by_cases hx : x = h.length
  · subst hx; simp [nextOf, upd]
  · by_cases hlt : x < h.length
    · simp [nextOf, upd, hx, List.getElem?_append_left hlt]
    · have : h.length < x := by omega
      simp [nextOf, upd, hx, Nat.le_of_not_lt hlt]; omega
  · subst hx; simp [prevOf, upd]
  · by_cases hlt : x < h.length
    · simp [prevOf, upd, hx, List.getElem?_append_left hlt]
    · have : h.length < x := by omega
      simp [prevOf, upd, hx, Nat.le_of_not_lt hlt]; omega
  · subst hx; simp [kvOf, upd]
  · by_cases hlt : x < h.length
    · simp [kvOf, upd, hx, List.getElem?_append_left hlt]
    · have : h.length < x := by omega
      simp [kvOf, upd, hx, Nat.le_of_not_lt hlt]; omega

/-! ## the chain -/

def Edge (nx pv : Nat → Option Nat) (x y : Nat) : Prop := nx x = some y ∧ pv y = some x

def LinkedF (nx pv : Nat → Option Nat) : List Nat → Prop
  | x :: y :: r => Edge nx pv x y ∧ LinkedF nx pv (y :: r)
  | _ => True

@[simp] theorem linkedF_nil (nx pv) : LinkedF nx pv [] = True := rfl
@[simp] theorem linkedF_one (nx pv) (x : Nat) : LinkedF nx pv [x] = True := rfl
theorem linkedF_cons2 (nx pv) (x y : Nat) (r : List Nat) :
    LinkedF nx pv (x :: y :: r) = (Edge nx pv x y ∧ LinkedF nx pv (y :: r)) := rfl

/-- a chain splits at any of its elements -/
theorem linkedF_append (nx pv) (A : List Nat) (x : Nat) (B : List Nat) :
    LinkedF nx pv (A ++ x :: B) ↔ LinkedF nx pv (A ++ [x]) ∧ LinkedF nx pv (x :: B) := by
  induction A with
  | nil => simp
  | cons a A ih =>
    cases A with
    | nil => simp [linkedF_cons2]
    | cons a' A' =>
      simp only [List.cons_append, linkedF_cons2] at ih ⊢
      rw [ih]; exact and_assoc.symm

/-- writes away from the chain's `next` sources and `prev` targets do not disturb it -/
theorem LinkedF.frame {nx pv nx' pv' : Nat → Option Nat} {L : List Nat} (h : LinkedF nx pv L)
    (hn : ∀ x ∈ L.dropLast, nx' x = nx x) (hp : ∀ y ∈ L.tail, pv' y = pv y) : LinkedF nx' pv' L := by
  induction L with
  | nil => trivial
  | cons x r ih =>
    cases r with
    | nil => trivial
    | cons y r =>
      simp only [linkedF_cons2] at h ⊢
      refine ⟨⟨?_, ?_⟩, ih h.2 (fun z hz => hn z ?_) (fun z hz => hp z ?_)⟩
      · rw [hn x (by simp)]; exact h.1.1
      · rw [hp y (by simp)]; exact h.1.2
      · simp only [List.dropLast_cons_cons, List.mem_cons]; exact Or.inr hz
      · simp only [List.tail_cons, List.mem_cons]; exact Or.inr hz

end GoguVerif.Lemmas.C07Ptr
