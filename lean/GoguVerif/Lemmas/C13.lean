import GoguVerif.Spec.C13
import GoguVerif.Model.C13
/-!
# C13 — helper lemmas (loop invariants of the models); core Lean only
-/
namespace GoguVerif.Lemmas.C13
open GoguVerif
open GoguVerif.Spec.C13 (AtIdx Out GoMap)

theorem atIdx_iff (s : List Int) (i : Nat) (q : Int → Prop) :
    AtIdx s i q ↔ ∃ x, s[i]? = some x ∧ q x := by
  unfold AtIdx
  constructor
  · rintro ⟨h, hq⟩
    exact ⟨s[i], List.getElem?_eq_getElem h, hq⟩
  · rintro ⟨x, hx, hq⟩
    obtain ⟨h, e⟩ := List.getElem?_eq_some_iff.mp hx
    exact ⟨h, e ▸ hq⟩

theorem atIdx_zero (x : Int) (r : List Int) (q : Int → Prop) (h : q x) : AtIdx (x :: r) 0 q :=
  ⟨Nat.succ_pos _, h⟩

theorem atIdx_succ (x : Int) (r : List Int) (i : Nat) (q : Int → Prop) (h : AtIdx r i q) :
    AtIdx (x :: r) (i + 1) q := by
  obtain ⟨hi, hq⟩ := h
  exact ⟨Nat.succ_lt_succ hi, by simpa using hq⟩

/-! ## forward scans -/

/-- invariant of `FindIndex`'s loop started at offset `k` -/
theorem findIndexLoop_spec (p : Int → Bool) (s : List Int) (k : Nat) :
    (Model.C13.findIndexLoop p s k = -1 ∧ ∀ x ∈ s, p x = false) ∨
    (∃ i, i < s.length ∧ Model.C13.findIndexLoop p s k = ((k + i : Nat) : Int) ∧
      AtIdx s i (fun x => p x = true) ∧ ∀ x ∈ s.take i, p x = false) := by
  induction s generalizing k with
  | nil => left; simp [Model.C13.findIndexLoop]
  | cons v r ih =>
    by_cases hv : p v = true
    · right
      refine ⟨0, by simp, by simp [Model.C13.findIndexLoop, hv], atIdx_zero _ _ _ hv, by simp⟩
    · have hv' : p v = false := by simpa using hv
      rcases ih (k + 1) with ⟨h1, h2⟩ | ⟨i, hi, h1, h2, h3⟩
      · left
        refine ⟨by simp [Model.C13.findIndexLoop, hv', h1], ?_⟩
        intro x hx
        rcases List.mem_cons.mp hx with rfl | hx
        · exact hv'
        · exact h2 x hx
      · right
        refine ⟨i + 1, by simp; omega, ?_, atIdx_succ _ _ _ _ h2, ?_⟩
        · simp only [Model.C13.findIndexLoop, hv', h1]
          simp only [Bool.false_eq_true, if_false]
          congr 1; omega
        · intro x hx
          rw [List.take_succ_cons] at hx
          rcases List.mem_cons.mp hx with rfl | hx
          · exact hv'
          · exact h3 x hx

theorem indexOfLoop_eq (val : Int) (s : List Int) (k : Nat) :
    Model.C13.indexOfLoop val s k = Model.C13.findIndexLoop (fun x => x == val) s k := by
  induction s generalizing k with
  | nil => rfl
  | cons v r ih =>
    simp only [Model.C13.indexOfLoop, Model.C13.findIndexLoop, ih]
    by_cases h : v = val <;> simp [h]

/-! ## backward scans -/

/-- invariant of `FindLastIndex`'s loop with `n` elements still to visit -/
theorem findLastIndexLoop_spec (p : Int → Bool) (s : List Int) (n : Nat) (hn : n ≤ s.length) :
    ∃ r, Model.C13.findLastIndexLoop p s n = .ok r ∧
      ((r = -1 ∧ ∀ j, j < n → ∀ x, s[j]? = some x → p x = false) ∨
       (∃ i, i < n ∧ r = (i : Int) ∧ (∃ x, s[i]? = some x ∧ p x = true) ∧
          ∀ j, i < j → j < n → ∀ x, s[j]? = some x → p x = false)) := by
  induction n with
  | zero => exact ⟨-1, rfl, Or.inl ⟨rfl, by intro j hj; omega⟩⟩
  | succ n ih =>
    have hlt : n < s.length := hn
    have hget : s[n]? = some s[n] := List.getElem?_eq_getElem hlt
    by_cases hv : p s[n] = true
    · refine ⟨n, by simp [Model.C13.findLastIndexLoop, hget, hv], Or.inr ⟨n, by omega, rfl, ⟨s[n], hget, hv⟩, ?_⟩⟩
      intro j h1 h2; omega
    · have hv' : p s[n] = false := by simpa using hv
      obtain ⟨r, hr, hcase⟩ := ih (by omega)
      refine ⟨r, by simp [Model.C13.findLastIndexLoop, hget, hv', hr], ?_⟩
      rcases hcase with ⟨h1, h2⟩ | ⟨i, hi, h1, h2, h3⟩
      · left
        refine ⟨h1, ?_⟩
        intro j hj x hx
        by_cases hjn : j = n
        · subst hjn; rw [hget] at hx; cases hx; exact hv'
        · exact h2 j (by omega) x hx
      · right
        refine ⟨i, by omega, h1, h2, ?_⟩
        intro j hij hj x hx
        by_cases hjn : j = n
        · subst hjn; rw [hget] at hx; cases hx; exact hv'
        · exact h3 j hij (by omega) x hx

theorem lastIndexOfLoop_eq (val : Int) (s : List Int) (n : Nat) :
    Model.C13.lastIndexOfLoop val s n = Model.C13.findLastIndexLoop (fun x => x == val) s n := by
  induction n with
  | zero => rfl
  | succ n ih =>
    simp only [Model.C13.lastIndexOfLoop, Model.C13.findLastIndexLoop, ih]
    cases s[n]? with
    | none => rfl
    | some v => by_cases h : v = val <;> simp [h]

/-- from the index form of the invariant to the `LastIdx` clause -/
theorem lastIdx_of_index_form (p : Int → Bool) (s : List Int) (r : Int)
    (h : (r = -1 ∧ ∀ j, j < s.length → ∀ x, s[j]? = some x → p x = false) ∨
       (∃ i, i < s.length ∧ r = (i : Int) ∧ (∃ x, s[i]? = some x ∧ p x = true) ∧
          ∀ j, i < j → j < s.length → ∀ x, s[j]? = some x → p x = false)) :
    Spec.C13.LastIdx p s r := by
  unfold Spec.C13.LastIdx
  rcases h with ⟨h1, h2⟩ | ⟨i, hi, h1, h2, h3⟩
  · left
    refine ⟨h1, ?_⟩
    intro x hx
    obtain ⟨j, hj⟩ := List.mem_iff_getElem?.mp hx
    obtain ⟨hjl, _⟩ := List.getElem?_eq_some_iff.mp hj
    exact h2 j hjl x hj
  · right
    refine ⟨i, hi, h1, (atIdx_iff _ _ _).mpr h2, ?_⟩
    intro x hx
    obtain ⟨j, hj⟩ := List.mem_iff_getElem?.mp hx
    rw [List.getElem?_drop] at hj
    obtain ⟨hjl, _⟩ := List.getElem?_eq_some_iff.mp hj
    exact h3 (i + 1 + j) (by omega) hjl x hj

/-! ## FindAll -/

/-- the matching index/value pairs of `s`, indices counted from `k` -/
def pairsFrom (p : Int → Bool) : List Int → Nat → List (Int × Int)
  | [], _ => []
  | v :: r, k => if p v then ((k : Int), v) :: pairsFrom p r (k + 1) else pairsFrom p r (k + 1)

theorem findAllLoop_eq (p : Int → Bool) (s : List Int) (k : Nat) (m : List (Int × Int)) :
    Model.C13.findAllLoop p s k m = m ++ pairsFrom p s k := by
  induction s generalizing k m with
  | nil => simp [Model.C13.findAllLoop, pairsFrom]
  | cons v r ih =>
    by_cases hv : p v = true
    · simp [Model.C13.findAllLoop, pairsFrom, hv, ih]
    · simp [Model.C13.findAllLoop, pairsFrom, hv, ih]

theorem mem_pairsFrom (p : Int → Bool) (s : List Int) (k : Nat) (e : Int × Int) :
    e ∈ pairsFrom p s k ↔ ∃ i, s[i]? = some e.2 ∧ e.1 = ((k + i : Nat) : Int) ∧ p e.2 = true := by
  induction s generalizing k with
  | nil => simp [pairsFrom]
  | cons v r ih =>
    have key : (∃ i, (v :: r)[i]? = some e.2 ∧ e.1 = ((k + i : Nat) : Int) ∧ p e.2 = true) ↔
        ((v = e.2 ∧ e.1 = (k : Int) ∧ p e.2 = true) ∨
         ∃ i, r[i]? = some e.2 ∧ e.1 = ((k + 1 + i : Nat) : Int) ∧ p e.2 = true) := by
      constructor
      · rintro ⟨i, h1, h2, h3⟩
        cases i with
        | zero => left; simp at h1; exact ⟨h1, by simpa using h2, h3⟩
        | succ i => right; simp at h1; exact ⟨i, h1, by rw [h2]; congr 1; omega, h3⟩
      · rintro (⟨h1, h2, h3⟩ | ⟨i, h1, h2, h3⟩)
        · exact ⟨0, by simp [h1], by simpa using h2, h3⟩
        · exact ⟨i + 1, by simpa using h1, by rw [h2]; congr 1; omega, h3⟩
    rw [key]
    by_cases hv : p v = true
    · simp only [pairsFrom, hv, if_true, List.mem_cons, ih]
      constructor
      · rintro (h | h)
        · left; subst h; exact ⟨rfl, rfl, hv⟩
        · right; exact h
      · rintro (⟨h1, h2, _⟩ | h)
        · left; exact Prod.ext h2 h1.symm
        · right; exact h
    · simp only [pairsFrom, hv, if_false, ih, Bool.false_eq_true]
      constructor
      · intro h; right; exact h
      · rintro (⟨h1, _, h3⟩ | h)
        · rw [← h1] at h3; exact absurd h3 hv
        · exact h

theorem pairsFrom_pairwise (p : Int → Bool) (s : List Int) (k : Nat) :
    (pairsFrom p s k).Pairwise (fun a b => a.1 < b.1) := by
  induction s generalizing k with
  | nil => simp [pairsFrom]
  | cons v r ih =>
    by_cases hv : p v = true
    · simp only [pairsFrom, hv, if_true, List.pairwise_cons]
      refine ⟨?_, ih (k + 1)⟩
      intro e he
      obtain ⟨i, _, h2, _⟩ := (mem_pairsFrom p r (k + 1) e).mp he
      simp only [h2]; omega
    · simp only [pairsFrom, hv, if_false, Bool.false_eq_true]
      exact ih (k + 1)

/-! ## Contains / Some / Every -/

theorem some_eq (p : Int → Bool) (s : List Int) : Model.C13.Some p s = true ↔ ∃ x ∈ s, p x = true := by
  induction s with
  | nil => simp [Model.C13.Some]
  | cons v r ih =>
    by_cases hv : p v = true
    · simp [Model.C13.Some, hv]
    · simp [Model.C13.Some, hv, ih]

theorem every_eq (p : Int → Bool) (s : List Int) : Model.C13.Every p s = true ↔ ∀ x ∈ s, p x = true := by
  induction s with
  | nil => simp [Model.C13.Every]
  | cons v r ih =>
    by_cases hv : p v = true
    · simp [Model.C13.Every, hv, ih]
    · simp [Model.C13.Every, hv]

theorem contains_eq (s : List Int) (v : Int) : Model.C13.Contains s v = true ↔ v ∈ s := by
  induction s with
  | nil => simp [Model.C13.Contains]
  | cons x r ih =>
    by_cases hx : x = v
    · simp [Model.C13.Contains, hx]
    · have : ¬ v = x := fun e => hx e.symm
      simp [Model.C13.Contains, hx, ih, this]

/-! ## extrema -/

theorem minLoop_spec (s : List Int) (m : Int) :
    (Model.C13.minLoop s m = m ∨ Model.C13.minLoop s m ∈ s) ∧ Model.C13.minLoop s m ≤ m ∧
      ∀ x ∈ s, Model.C13.minLoop s m ≤ x := by
  induction s generalizing m with
  | nil => simp [Model.C13.minLoop]
  | cons x r ih =>
    by_cases hx : x < m
    · obtain ⟨h1, h2, h3⟩ := ih x
      simp only [Model.C13.minLoop, hx, if_true]
      refine ⟨Or.inr ?_, by omega, ?_⟩
      · rcases h1 with h | h
        · rw [h]; exact List.mem_cons_self
        · exact List.mem_cons_of_mem _ h
      · intro y hy
        rcases List.mem_cons.mp hy with rfl | hy
        · exact h2
        · exact h3 y hy
    · obtain ⟨h1, h2, h3⟩ := ih m
      simp only [Model.C13.minLoop, hx, if_false]
      refine ⟨?_, h2, ?_⟩
      · rcases h1 with h | h
        · exact Or.inl h
        · exact Or.inr (List.mem_cons_of_mem _ h)
      · intro y hy
        rcases List.mem_cons.mp hy with rfl | hy
        · omega
        · exact h3 y hy

theorem maxLoop_spec (s : List Int) (m : Int) :
    (Model.C13.maxLoop s m = m ∨ Model.C13.maxLoop s m ∈ s) ∧ m ≤ Model.C13.maxLoop s m ∧
      ∀ x ∈ s, x ≤ Model.C13.maxLoop s m := by
  induction s generalizing m with
  | nil => simp [Model.C13.maxLoop]
  | cons x r ih =>
    by_cases hx : x > m
    · obtain ⟨h1, h2, h3⟩ := ih x
      simp only [Model.C13.maxLoop, hx, if_true]
      refine ⟨Or.inr ?_, by omega, ?_⟩
      · rcases h1 with h | h
        · rw [h]; exact List.mem_cons_self
        · exact List.mem_cons_of_mem _ h
      · intro y hy
        rcases List.mem_cons.mp hy with rfl | hy
        · exact h2
        · exact h3 y hy
    · obtain ⟨h1, h2, h3⟩ := ih m
      simp only [Model.C13.maxLoop, hx, if_false]
      refine ⟨?_, h2, ?_⟩
      · rcases h1 with h | h
        · exact Or.inl h
        · exact Or.inr (List.mem_cons_of_mem _ h)
      · intro y hy
        rcases List.mem_cons.mp hy with rfl | hy
        · omega
        · exact h3 y hy

/-- invariant of `FindMinBy`'s loop: either the running minimum `m` survives (nothing in `s` has a
smaller key), or the result sits at an index `i` of `s`, its key is strictly below `m`'s and
strictly below every earlier key; in both cases no key in `s` is smaller. -/
theorem minByLoop_spec (f : Int → Int) (s : List Int) (m : Int) :
    (∀ x ∈ s, f (Model.C13.minByLoop f s m) ≤ f x) ∧
    ((Model.C13.minByLoop f s m = m ∧ ∀ x ∈ s, f m ≤ f x) ∨
     (∃ i, i < s.length ∧ AtIdx s i (fun x => x = Model.C13.minByLoop f s m) ∧
        f (Model.C13.minByLoop f s m) < f m ∧ ∀ x ∈ s.take i, f (Model.C13.minByLoop f s m) < f x)) := by
  induction s generalizing m with
  | nil => simp [Model.C13.minByLoop]
  | cons x t ih =>
    by_cases hx : f x < f m
    · obtain ⟨ha, hb⟩ := ih x
      simp only [Model.C13.minByLoop, hx, if_true]
      rcases hb with ⟨h1, h2⟩ | ⟨i, hi, h1, h2, h3⟩
      · refine ⟨?_, Or.inr ⟨0, by simp, atIdx_zero _ _ _ h1.symm, by rw [h1]; exact hx, by simp⟩⟩
        intro y hy
        rcases List.mem_cons.mp hy with rfl | hy
        · rw [h1]; omega
        · exact ha y hy
      · refine ⟨?_, Or.inr ⟨i + 1, by simp; omega, atIdx_succ _ _ _ _ h1, by omega, ?_⟩⟩
        · intro y hy
          rcases List.mem_cons.mp hy with rfl | hy
          · omega
          · exact ha y hy
        · intro y hy
          rw [List.take_succ_cons] at hy
          rcases List.mem_cons.mp hy with rfl | hy
          · exact h2
          · exact h3 y hy
    · obtain ⟨ha, hb⟩ := ih m
      simp only [Model.C13.minByLoop, hx, if_false]
      rcases hb with ⟨h1, h2⟩ | ⟨i, hi, h1, h2, h3⟩
      · refine ⟨?_, Or.inl ⟨h1, ?_⟩⟩
        · intro y hy
          rcases List.mem_cons.mp hy with rfl | hy
          · rw [h1]; omega
          · exact ha y hy
        · intro y hy
          rcases List.mem_cons.mp hy with rfl | hy
          · omega
          · exact h2 y hy
      · refine ⟨?_, Or.inr ⟨i + 1, by simp; omega, atIdx_succ _ _ _ _ h1, h2, ?_⟩⟩
        · intro y hy
          rcases List.mem_cons.mp hy with rfl | hy
          · omega
          · exact ha y hy
        · intro y hy
          rw [List.take_succ_cons] at hy
          rcases List.mem_cons.mp hy with rfl | hy
          · omega
          · exact h3 y hy

theorem maxByLoop_spec (f : Int → Int) (s : List Int) (m : Int) :
    (∀ x ∈ s, f x ≤ f (Model.C13.maxByLoop f s m)) ∧
    ((Model.C13.maxByLoop f s m = m ∧ ∀ x ∈ s, f x ≤ f m) ∨
     (∃ i, i < s.length ∧ AtIdx s i (fun x => x = Model.C13.maxByLoop f s m) ∧
        f m < f (Model.C13.maxByLoop f s m) ∧ ∀ x ∈ s.take i, f x < f (Model.C13.maxByLoop f s m))) := by
  induction s generalizing m with
  | nil => simp [Model.C13.maxByLoop]
  | cons x t ih =>
    by_cases hx : f x > f m
    · obtain ⟨ha, hb⟩ := ih x
      simp only [Model.C13.maxByLoop, hx, if_true]
      rcases hb with ⟨h1, h2⟩ | ⟨i, hi, h1, h2, h3⟩
      · refine ⟨?_, Or.inr ⟨0, by simp, atIdx_zero _ _ _ h1.symm, by rw [h1]; exact hx, by simp⟩⟩
        intro y hy
        rcases List.mem_cons.mp hy with rfl | hy
        · rw [h1]; omega
        · exact ha y hy
      · refine ⟨?_, Or.inr ⟨i + 1, by simp; omega, atIdx_succ _ _ _ _ h1, by omega, ?_⟩⟩
        · intro y hy
          rcases List.mem_cons.mp hy with rfl | hy
          · omega
          · exact ha y hy
        · intro y hy
          rw [List.take_succ_cons] at hy
          rcases List.mem_cons.mp hy with rfl | hy
          · exact h2
          · exact h3 y hy
    · obtain ⟨ha, hb⟩ := ih m
      simp only [Model.C13.maxByLoop, hx, if_false]
      rcases hb with ⟨h1, h2⟩ | ⟨i, hi, h1, h2, h3⟩
      · refine ⟨?_, Or.inl ⟨h1, ?_⟩⟩
        · intro y hy
          rcases List.mem_cons.mp hy with rfl | hy
          · rw [h1]; omega
          · exact ha y hy
        · intro y hy
          rcases List.mem_cons.mp hy with rfl | hy
          · omega
          · exact h2 y hy
      · refine ⟨?_, Or.inr ⟨i + 1, by simp; omega, atIdx_succ _ _ _ _ h1, h2, ?_⟩⟩
        · intro y hy
          rcases List.mem_cons.mp hy with rfl | hy
          · omega
          · exact ha y hy
        · intro y hy
          rw [List.take_succ_cons] at hy
          rcases List.mem_cons.mp hy with rfl | hy
          · omega
          · exact h3 y hy

/-! ## by-key extrema over a slice of maps -/

/-- `mapped[key]` after `mapped := FindByKey(m, k == key)` is the map read `m[key]` -/
theorem mapGet_findByKey (key : Int) (m : GoMap) :
    Model.C13.mapGet key (Model.C13.FindByKey (fun k => k == key) m) = Spec.C13.lookup key m := by
  induction m with
  | nil => rfl
  | cons e r ih =>
    obtain ⟨k, v⟩ := e
    by_cases hk : k = key
    · simp [Model.C13.FindByKey, Model.C13.mapGet, Spec.C13.lookup, hk]
    · simp [Model.C13.FindByKey, Spec.C13.lookup, hk, ih]

theorem mapGet_eq_lookup (key : Int) (m : GoMap) : Model.C13.mapGet key m = Spec.C13.lookup key m := by
  induction m with
  | nil => rfl
  | cons e r ih =>
    obtain ⟨k, v⟩ := e
    by_cases hk : k = key <;> simp [Model.C13.mapGet, Spec.C13.lookup, hk, ih]

/-- the by-key loop once a value has been found: the running minimum over the remaining values -/
theorem minByKeyLoop_found (key : Int) (ms : List GoMap) (mn : Int) :
    Model.C13.minByKeyLoop key ms true mn = (true, Model.C13.minLoop (Spec.C13.keyVals key ms) mn) := by
  induction ms generalizing mn with
  | nil => rfl
  | cons m r ih =>
    simp only [Model.C13.minByKeyLoop, mapGet_findByKey, Spec.C13.keyVals, List.filterMap_cons]
    cases h : Spec.C13.lookup key m with
    | none => simp only [ih]; rfl
    | some v =>
      simp only [Model.C13.minLoop, Bool.not_true, Bool.false_or]
      by_cases hv : v < mn <;> simp only [hv, decide_true, decide_false, if_true, if_false, Bool.false_eq_true, ih] <;> rfl

/-- the by-key loop before any value has been found: it stays "not found" exactly when no map holds the key; otherwise
the first value seeds the running minimum -/
theorem minByKeyLoop_eq (key : Int) (ms : List GoMap) (mn : Int) :
    Model.C13.minByKeyLoop key ms false mn =
      match Spec.C13.keyVals key ms with
      | [] => (false, mn)
      | v :: vs => (true, Model.C13.minLoop vs v) := by
  induction ms generalizing mn with
  | nil => rfl
  | cons m r ih =>
    simp only [Model.C13.minByKeyLoop, mapGet_findByKey, Spec.C13.keyVals, List.filterMap_cons]
    cases h : Spec.C13.lookup key m with
    | none => simp only [ih]; rfl
    | some v =>
      simp only [Bool.not_false, Bool.true_or, if_true, minByKeyLoop_found]
      rfl

theorem maxByKeyLoop_found (key : Int) (ms : List GoMap) (mx : Int) :
    Model.C13.maxByKeyLoop key ms true mx = (true, Model.C13.maxLoop (Spec.C13.keyVals key ms) mx) := by
  induction ms generalizing mx with
  | nil => rfl
  | cons m r ih =>
    simp only [Model.C13.maxByKeyLoop, mapGet_findByKey, Spec.C13.keyVals, List.filterMap_cons]
    cases h : Spec.C13.lookup key m with
    | none => simp only [ih]; rfl
    | some v =>
      simp only [Model.C13.maxLoop, Bool.not_true, Bool.false_or]
      by_cases hv : v > mx <;> simp only [hv, decide_true, decide_false, if_true, if_false, Bool.false_eq_true, ih] <;> rfl

theorem maxByKeyLoop_eq (key : Int) (ms : List GoMap) (mx : Int) :
    Model.C13.maxByKeyLoop key ms false mx =
      match Spec.C13.keyVals key ms with
      | [] => (false, mx)
      | v :: vs => (true, Model.C13.maxLoop vs v) := by
  induction ms generalizing mx with
  | nil => rfl
  | cons m r ih =>
    simp only [Model.C13.maxByKeyLoop, mapGet_findByKey, Spec.C13.keyVals, List.filterMap_cons]
    cases h : Spec.C13.lookup key m with
    | none => simp only [ih]; rfl
    | some v =>
      simp only [Bool.not_false, Bool.true_or, if_true, maxByKeyLoop_found]
      rfl

/-! ## aggregates -/

theorem sumLoop_eq (s : List Int) (acc : Int) : Model.C13.sumLoop s acc = acc + Spec.C13.total s := by
  induction s generalizing acc with
  | nil => simp [Model.C13.sumLoop, Spec.C13.total]
  | cons v r ih => simp only [Model.C13.sumLoop, Spec.C13.total, ih]; omega

theorem sumByLoop_eq (f : Int → Int) (s : List Int) (acc : Int) :
    Model.C13.sumByLoop f s acc = acc + Spec.C13.total (s.map f) := by
  induction s generalizing acc with
  | nil => simp [Model.C13.sumByLoop, Spec.C13.total]
  | cons v r ih => simp only [Model.C13.sumByLoop, List.map_cons, Spec.C13.total, ih]; omega

/-- Go's integer division is the truncated quotient -/
theorem tdiv_isTruncQuot (t n : Int) (hn : 0 < n) : Spec.C13.IsTruncQuot t n (t.tdiv n) := by
  unfold Spec.C13.IsTruncQuot
  rw [← Int.tmod_def]
  refine ⟨Int.lt_tmod_of_pos t hn, Int.tmod_lt_of_pos t hn, fun h => Int.tmod_nonneg n h, fun h => ?_⟩
  have h1 : 0 ≤ (-t).tmod n := Int.tmod_nonneg n (by omega)
  rw [Int.neg_tmod] at h1
  omega

/-! ## Range -/

theorem atIdx_mono (s : List Int) (i : Nat) (q q' : Int → Prop) (hq : ∀ x, q x → q' x)
    (h : AtIdx s i q) : AtIdx s i q' := by
  obtain ⟨hi, h⟩ := h
  exact ⟨hi, hq _ h⟩

theorem succ_mul_int (j : Nat) (d : Int) : ((j + 1 : Nat) : Int) * d = (j : Int) * d + d := by
  rw [Int.natCast_add, Int.add_mul]; simp

theorem prog_nil (start d : Int) (before : Int → Bool) (h : before start = false) :
    Spec.C13.Prog start d before [] := by
  refine ⟨by intro j hj; simp at hj, by simp, ?_⟩
  simpa using h

theorem prog_cons (i d : Int) (before : Int → Bool) (l : List Int) (hb : before i = true)
    (h : Spec.C13.Prog (i + d) d before l) : Spec.C13.Prog i d before (i :: l) := by
  obtain ⟨h1, h2, h3⟩ := h
  refine ⟨?_, ?_, ?_⟩
  · intro j hj
    cases j with
    | zero => exact atIdx_zero _ _ _ (by simp)
    | succ j =>
      refine atIdx_succ _ _ _ _ (atIdx_mono _ _ _ _ ?_ (h1 j (by simpa using hj)))
      intro x hx
      rw [hx, succ_mul_int]; omega
  · intro x hx
    rcases List.mem_cons.mp hx with rfl | hx
    · exact hb
    · exact h2 x hx
  · have e : i + ((i :: l).length : Int) * d = i + d + (l.length : Int) * d := by
      rw [List.length_cons, succ_mul_int]; omega
    rw [e]; exact h3

/-- the ascending loop with a positive step: terminates within `(end - i) + 1` rounds and appends the
maximal progression below `end` -/
theorem rangeUp_spec (step end_ : Int) (hs : 0 < step) (fuel : Nat) (i : Int) (acc : List Int)
    (hf : (end_ - i).toNat < fuel) :
    ∃ l, Model.C13.rangeUp fuel i step end_ acc = .ok (acc ++ l) ∧
      Spec.C13.Prog i step (fun x => decide (x < end_)) l := by
  induction fuel generalizing i acc with
  | zero => omega
  | succ fuel ih =>
    by_cases hi : i < end_
    · obtain ⟨l, h1, h2⟩ := ih (i + step) (acc ++ [i]) (by omega)
      refine ⟨i :: l, ?_, prog_cons _ _ _ _ (by simpa using hi) h2⟩
      simp only [Model.C13.rangeUp, hi, if_true, h1, List.append_assoc, List.singleton_append]
    · refine ⟨[], ?_, prog_nil _ _ _ (by simpa using hi)⟩
      simp only [Model.C13.rangeUp, hi, if_false, List.append_nil]

/-- the ascending loop when `start` is not below `end`: no round at all, whatever the step -/
theorem rangeUp_none (step end_ : Int) (fuel : Nat) (i : Int) (hi : ¬ i < end_) (d : Int) :
    Model.C13.rangeUp (fuel + 1) i step end_ [] = .ok [] ∧
      Spec.C13.Prog i d (fun x => decide (x < end_)) [] := by
  refine ⟨?_, prog_nil _ _ _ (by simpa using hi)⟩
  simp only [Model.C13.rangeUp, hi, if_false]

/-- the descending loop with a non-zero step -/
theorem rangeDown_spec (step end_ : Int) (hs : 0 < Model.C13.Abs step) (fuel : Nat) (i : Int)
    (acc : List Int) (hf : (i - end_).toNat < fuel) :
    ∃ l, Model.C13.rangeDown fuel i step end_ acc = .ok (acc ++ l) ∧
      Spec.C13.Prog i (-(Model.C13.Abs step)) (fun x => decide (end_ < x)) l := by
  induction fuel generalizing i acc with
  | zero => omega
  | succ fuel ih =>
    by_cases hi : end_ < i
    · obtain ⟨l, h1, h2⟩ := ih (i - Model.C13.Abs step) (acc ++ [i]) (by omega)
      refine ⟨i :: l, ?_, prog_cons _ _ _ _ (by simpa using hi) ?_⟩
      · simp only [Model.C13.rangeDown, hi, if_true, h1, List.append_assoc, List.singleton_append]
      · have e : i + -(Model.C13.Abs step) = i - Model.C13.Abs step := by omega
        rw [e]; exact h2
    · refine ⟨[], ?_, prog_nil _ _ _ (by simpa using hi)⟩
      simp only [Model.C13.rangeDown, hi, if_false, List.append_nil]

/-- the descending loop when `start` is not above `end` (covers the zero-argument call, step 0) -/
theorem rangeDown_none (step end_ : Int) (fuel : Nat) (i : Int) (hi : ¬ end_ < i) (d : Int) :
    Model.C13.rangeDown (fuel + 1) i step end_ [] = .ok [] ∧
      Spec.C13.Prog i d (fun x => decide (end_ < x)) [] := by
  refine ⟨?_, prog_nil _ _ _ (by simpa using hi)⟩
  simp only [Model.C13.rangeDown, hi, if_false]

theorem abs_eq_absI (x : Int) : Model.C13.Abs x = Spec.C13.absI x := rfl

/-- both loops together, for a step that is positive, or non-zero with `end ≤ 0`, or irrelevant
because the ascending loop does not start -/
theorem rangeLoops_spec (start step end_ : Int)
    (h : 0 < step ∨ (end_ ≤ 0 ∧ step ≠ 0) ∨ (0 < end_ ∧ ¬ start < end_)) :
    ∃ l, Model.C13.rangeLoops start step end_ = .ok l ∧ Spec.C13.IsRange start step end_ l := by
  unfold Model.C13.rangeLoops Spec.C13.IsRange Model.C13.rangeFuel
  by_cases he : end_ > 0
  · simp only [he, if_true]
    by_cases hlt : start < end_
    · have hs : 0 < step := by omega
      have ha : Spec.C13.absI step = step := by unfold Spec.C13.absI; split <;> omega
      rw [ha]
      obtain ⟨l, h1, h2⟩ := rangeUp_spec step end_ hs ((end_ - start).natAbs + 1) start [] (by omega)
      exact ⟨l, by simpa using h1, h2⟩
    · obtain ⟨h1, h2⟩ := rangeUp_none step end_ (end_ - start).natAbs start hlt (Spec.C13.absI step)
      exact ⟨[], h1, h2⟩
  · simp only [he, if_false]
    by_cases hlt : end_ < start
    · have hs : 0 < Model.C13.Abs step := by unfold Model.C13.Abs; split <;> omega
      obtain ⟨l, h1, h2⟩ := rangeDown_spec step end_ hs ((end_ - start).natAbs + 1) start [] (by omega)
      exact ⟨l, by simpa using h1, h2⟩
    · obtain ⟨h1, h2⟩ := rangeDown_none step end_ (end_ - start).natAbs start hlt (-(Spec.C13.absI step))
      exact ⟨[], h1, h2⟩

/-! ## membership facts used to show that the clauses determine the answer -/

theorem atIdx_mem (s : List Int) (i : Nat) (q : Int → Prop) (h : AtIdx s i q) : ∃ x ∈ s, q x := by
  obtain ⟨hi, hq⟩ := h
  exact ⟨s[i], List.getElem_mem hi, hq⟩

theorem atIdx_mem_take (s : List Int) (i j : Nat) (q : Int → Prop) (hij : i < j) (h : AtIdx s i q) :
    ∃ x ∈ s.take j, q x := by
  obtain ⟨hi, hq⟩ := h
  exact ⟨s[i], List.mem_take_iff_getElem.mpr ⟨i, by omega, rfl⟩, hq⟩

theorem atIdx_mem_drop (s : List Int) (i j : Nat) (q : Int → Prop) (hij : j < i) (h : AtIdx s i q) :
    ∃ x ∈ s.drop (j + 1), q x := by
  obtain ⟨hi, hq⟩ := h
  refine ⟨s[i], List.mem_drop_iff_getElem.mpr ⟨i - (j + 1), by omega, ?_⟩, hq⟩
  congr 1; omega

end GoguVerif.Lemmas.C13
