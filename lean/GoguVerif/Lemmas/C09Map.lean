import GoguVerif.Lemmas.C09Ord
/-!
# C09 helper lemmas, part 4: the abstract map after a `Put` history (specification side only)

`build puts` is the specification's state after putting `puts` in order into the empty map.  The
facts below are what the clauses of the property say about that state; nothing here mentions the model.
-/
namespace GoguVerif.Lemmas.C09
open GoguVerif.Spec GoguVerif.Spec.C09

abbrev Map := List (Key × Int)

def keys (m : Map) : List Key := m.map (·.1)

/-- the specification's state after a `Put` history -/
def build (puts : List (Key × Int)) : Map :=
  puts.foldl (fun m p => OrdMap.insert lexLt p.1 p.2 m) []

/-! ## one insertion -/

theorem length_insert (k : Key) (v : Int) (m : Map) :
    (OrdMap.insert lexLt k v m).length =
      if (OrdMap.lookup lexLt k m).isSome then m.length else m.length + 1 := by
  induction m with
  | nil => rfl
  | cons e r ih =>
    obtain ⟨k', v'⟩ := e
    simp only [OrdMap.insert, OrdMap.lookup]
    split
    · simp
    · split
      · simp only [List.length_cons, ih]; split <;> rfl
      · simp

theorem mem_insert (k : Key) (v : Int) (m : Map) :
    ∀ e ∈ OrdMap.insert lexLt k v m, e = (k, v) ∨ e ∈ m := by
  induction m with
  | nil => intro e he; simp [OrdMap.insert] at he; exact Or.inl he
  | cons e0 r ih =>
    obtain ⟨k', v'⟩ := e0
    intro e he
    simp only [OrdMap.insert] at he
    split at he
    · simp only [List.mem_cons] at he ⊢; exact he
    · split at he
      · simp only [List.mem_cons] at he ⊢
        rcases he with he | he
        · exact Or.inr (Or.inl he)
        · rcases ih e he with h | h
          · exact Or.inl h
          · exact Or.inr (Or.inr h)
      · simp only [List.mem_cons] at he ⊢
        rcases he with he | he
        · exact Or.inl he
        · exact Or.inr (Or.inr he)

theorem keys_insert (k : Key) (v : Int) (m : Map) (k' : Key) :
    k' ∈ keys (OrdMap.insert lexLt k v m) ↔ k' = k ∨ k' ∈ keys m := by
  induction m with
  | nil => simp [keys, OrdMap.insert]
  | cons e0 r ih =>
    obtain ⟨k0, v0⟩ := e0
    simp only [OrdMap.insert]
    split
    · simp [keys]
    · split
      · simp only [keys, List.map_cons, List.mem_cons] at ih ⊢
        rw [ih]
        constructor
        · rintro (h | h | h)
          · exact Or.inr (Or.inl h)
          · exact Or.inl h
          · exact Or.inr (Or.inr h)
        · rintro (h | h | h)
          · exact Or.inr (Or.inl h)
          · exact Or.inl h
          · exact Or.inr (Or.inr h)
      · rename_i h1 h2
        have : k = k0 := lexLt_total k k0 (by simpa using h1) (by simpa using h2)
        subst this
        simp only [keys, List.map_cons, List.mem_cons]
        constructor
        · rintro (h | h)
          · exact Or.inl h
          · exact Or.inr (Or.inr h)
        · rintro (h | h | h)
          · exact Or.inl h
          · exact Or.inl h
          · exact Or.inr h

theorem insert_sorted (k : Key) (v : Int) (m : Map) (hs : OrdMap.Sorted lexLt m) :
    OrdMap.Sorted lexLt (OrdMap.insert lexLt k v m) := by
  induction m with
  | nil => simp [OrdMap.insert, OrdMap.Sorted]
  | cons e0 r ih =>
    obtain ⟨k0, v0⟩ := e0
    obtain ⟨h0, hr⟩ := hs
    simp only [OrdMap.insert]
    split
    · rename_i h1
      refine ⟨?_, h0, hr⟩
      intro e he
      simp only [List.mem_cons] at he
      rcases he with rfl | he
      · exact h1
      · exact lexLt_trans _ _ _ h1 (h0 e he)
    · split
      · rename_i h1 h2
        refine ⟨?_, ih hr⟩
        intro e he
        rcases mem_insert k v r e he with rfl | he
        · exact h2
        · exact h0 e he
      · rename_i h1 h2
        have : k = k0 := lexLt_total k k0 (by simpa using h1) (by simpa using h2)
        subst this
        exact ⟨h0, hr⟩

theorem lookup_insert_self (k : Key) (v : Int) (m : Map) :
    OrdMap.lookup lexLt k (OrdMap.insert lexLt k v m) = some v := by
  induction m with
  | nil => simp [OrdMap.insert, OrdMap.lookup, lexLt_irrefl]
  | cons e0 r ih =>
    obtain ⟨k0, v0⟩ := e0
    simp only [OrdMap.insert]
    split
    · simp [OrdMap.lookup, lexLt_irrefl]
    · split
      · rename_i h1 h2
        simp only [OrdMap.lookup, h2, if_true]
        simp only [Bool.not_eq_true] at h1
        simp [h1, ih]
      · simp [OrdMap.lookup, lexLt_irrefl]

theorem lookup_insert_ne (k k' : Key) (v : Int) (m : Map) (hne : k' ≠ k) :
    OrdMap.lookup lexLt k' (OrdMap.insert lexLt k v m) = OrdMap.lookup lexLt k' m := by
  induction m with
  | nil =>
    simp only [OrdMap.insert, OrdMap.lookup]
    split
    · rfl
    · split
      · rfl
      · rename_i h1 h2
        exact absurd (lexLt_total k' k (by simpa using h1) (by simpa using h2)) hne
  | cons e0 r ih =>
    obtain ⟨k0, v0⟩ := e0
    simp only [OrdMap.insert]
    split
    · rename_i h1
      -- k < k0: new head (k, v)
      simp only [OrdMap.lookup]
      by_cases a1 : lexLt k' k = true
      · simp [a1, lexLt_trans _ _ _ a1 h1]
      · by_cases a2 : lexLt k k' = true
        · simp [a1, a2]
        · exact absurd (lexLt_total k' k (by simpa using a1) (by simpa using a2)) hne
    · split
      · simp only [OrdMap.lookup, ih]
      · rename_i h1 h2
        have : k = k0 := lexLt_total k k0 (by simpa using h1) (by simpa using h2)
        subst this
        simp only [OrdMap.lookup]
        by_cases a1 : lexLt k' k = true
        · simp [a1]
        · by_cases a2 : lexLt k k' = true
          · simp [a1, a2]
          · exact absurd (lexLt_total k' k (by simpa using a1) (by simpa using a2)) hne

/-! ## sorted lists -/

theorem sorted_pairwise (m : Map) (hs : OrdMap.Sorted lexLt m) :
    (keys m).Pairwise (fun a b => lexLt a b = true) := by
  induction m with
  | nil => simp [keys]
  | cons e r ih =>
    obtain ⟨k, v⟩ := e
    obtain ⟨h0, hr⟩ := hs
    simp only [keys, List.map_cons, List.pairwise_cons, List.mem_map]
    refine ⟨?_, ih hr⟩
    rintro a ⟨e, he, rfl⟩
    exact h0 e he

theorem sorted_nodup (m : Map) (hs : OrdMap.Sorted lexLt m) : (keys m).Nodup := by
  have := sorted_pairwise m hs
  refine List.Pairwise.imp ?_ this
  intro a b h e
  subst e
  rw [lexLt_irrefl] at h; cases h

/-- in a sorted map, `lookup` is membership -/
theorem lookup_eq_some_iff (k : Key) (v : Int) (m : Map) (hs : OrdMap.Sorted lexLt m) :
    OrdMap.lookup lexLt k m = some v ↔ (k, v) ∈ m := by
  induction m with
  | nil => simp [OrdMap.lookup]
  | cons e r ih =>
    obtain ⟨k0, v0⟩ := e
    obtain ⟨h0, hr⟩ := hs
    simp only [OrdMap.lookup, List.mem_cons, Prod.mk.injEq]
    by_cases a1 : lexLt k k0 = true
    · simp only [a1, if_true]
      constructor
      · intro h; cases h
      · rintro (⟨rfl, _⟩ | h)
        · rw [lexLt_irrefl] at a1; cases a1
        · have := lexLt_asymm _ _ (h0 _ h); simp at this; rw [this] at a1; cases a1
    · have a1' : lexLt k k0 = false := by simpa using a1
      by_cases a2 : lexLt k0 k = true
      · simp only [a1', a2, if_true, Bool.false_eq_true, if_false, ih hr]
        constructor
        · intro h; exact Or.inr h
        · rintro (⟨rfl, _⟩ | h)
          · rw [lexLt_irrefl] at a2; cases a2
          · exact h
      · have a2' : lexLt k0 k = false := by simpa using a2
        have : k = k0 := lexLt_total k k0 a1' a2'
        subst this
        simp only [a1', Bool.false_eq_true, if_false, Option.some.injEq, true_and]
        constructor
        · intro h; exact Or.inl h.symm
        · rintro (h | h)
          · exact h.symm
          · have := h0 _ h; simp only at this; rw [lexLt_irrefl] at this; cases this

theorem lookup_eq_none_iff (k : Key) (m : Map) (hs : OrdMap.Sorted lexLt m) :
    OrdMap.lookup lexLt k m = none ↔ k ∉ keys m := by
  constructor
  · intro h hk
    simp only [keys, List.mem_map] at hk
    obtain ⟨⟨k', v⟩, he, rfl⟩ := hk
    rw [(lookup_eq_some_iff _ v m hs).mpr he] at h; cases h
  · intro h
    cases hl : OrdMap.lookup lexLt k m with
    | none => rfl
    | some v =>
      exact absurd (List.mem_map.mpr ⟨(k, v), (lookup_eq_some_iff k v m hs).mp hl, rfl⟩) h

/-! ## counting distinct keys -/

theorem nodup_eraseDups {α : Type} [BEq α] [LawfulBEq α] :
    ∀ (n : Nat) (l : List α), l.length ≤ n → l.eraseDups.Nodup := by
  intro n
  induction n with
  | zero =>
    intro l hl
    have : l = [] := List.length_eq_zero_iff.mp (by omega)
    subst this; simp
  | succ n ih =>
    intro l hl
    cases l with
    | nil => simp
    | cons a as =>
      rw [List.eraseDups_cons, List.nodup_cons]
      refine ⟨?_, ih _ ?_⟩
      · rw [List.mem_eraseDups, List.mem_filter]
        simp
      · have := List.length_filter_le (fun b => !b == a) as
        simp only [List.length_cons] at hl
        omega

/-- two duplicate-free lists with the same members have the same length -/
theorem length_eq_of_nodup_of_mem_iff {α : Type} {l₁ l₂ : List α} (d₁ : l₁.Nodup) (d₂ : l₂.Nodup)
    (h : ∀ a, a ∈ l₁ ↔ a ∈ l₂) : l₁.length = l₂.length :=
  ((List.perm_ext_iff_of_nodup d₁ d₂).mpr h).length_eq

/-! ## a whole history -/

theorem foldl_sorted (puts : List (Key × Int)) : ∀ m0, OrdMap.Sorted lexLt m0 →
    OrdMap.Sorted lexLt (puts.foldl (fun m p => OrdMap.insert lexLt p.1 p.2 m) m0) := by
  induction puts with
  | nil => intro m0 h; exact h
  | cons p ps ih => intro m0 h; exact ih _ (insert_sorted _ _ _ h)

theorem build_sorted (puts : List (Key × Int)) : OrdMap.Sorted lexLt (build puts) :=
  foldl_sorted puts [] trivial

theorem foldl_keys (puts : List (Key × Int)) (k : Key) : ∀ m0,
    k ∈ keys (puts.foldl (fun m p => OrdMap.insert lexLt p.1 p.2 m) m0) ↔
      k ∈ puts.map (·.1) ∨ k ∈ keys m0 := by
  induction puts with
  | nil => intro m0; simp
  | cons p ps ih =>
    intro m0
    simp only [List.foldl_cons, ih, keys_insert, List.map_cons, List.mem_cons]
    constructor
    · rintro (h | h | h)
      · exact Or.inl (Or.inr h)
      · exact Or.inl (Or.inl h)
      · exact Or.inr h
    · rintro ((h | h) | h)
      · exact Or.inr (Or.inl h)
      · exact Or.inl h
      · exact Or.inr (Or.inr h)

theorem build_keys (puts : List (Key × Int)) (k : Key) :
    k ∈ keys (build puts) ↔ k ∈ puts.map (·.1) := by
  rw [build, foldl_keys]; simp [keys]

/-- the map holds as many entries as there are distinct keys in the history -/
theorem build_length (puts : List (Key × Int)) :
    (build puts).length = (puts.map (·.1)).eraseDups.length := by
  have h1 : (keys (build puts)).Nodup := sorted_nodup _ (build_sorted puts)
  have h2 : ((puts.map (·.1)).eraseDups).Nodup := nodup_eraseDups _ _ (Nat.le_refl _)
  have := length_eq_of_nodup_of_mem_iff h1 h2 (fun k => by rw [build_keys, List.mem_eraseDups])
  simpa [keys] using this

/-- the value of the last put of `k` in the history, if any -/
def latest (k : Key) (puts : List (Key × Int)) : Option Int :=
  ((puts.filter (fun p => p.1 == k)).getLast?).map (·.2)

theorem foldl_lookup (k : Key) (puts : List (Key × Int)) : ∀ m0,
    OrdMap.lookup lexLt k (puts.foldl (fun m p => OrdMap.insert lexLt p.1 p.2 m) m0) =
      match latest k puts with
      | some v => some v
      | none => OrdMap.lookup lexLt k m0 := by
  induction puts with
  | nil => intro m0; rfl
  | cons p ps ih =>
    intro m0
    simp only [List.foldl_cons, ih]
    by_cases hp : p.1 = k
    · subst hp
      simp only [latest, List.filter_cons, beq_self_eq_true, if_true]
      cases hf : ps.filter (fun q => q.1 == p.1) with
      | nil => simp [lookup_insert_self]
      | cons a t => rw [List.getLast?_eq_some_getLast (by simp)]; rfl
    · have hb : (p.1 == k) = false := by simpa using hp
      simp only [latest, List.filter_cons, hb, Bool.false_eq_true, if_false]
      split
      · rfl
      · exact lookup_insert_ne _ _ _ _ (Ne.symm hp)

theorem build_lookup (k : Key) (puts : List (Key × Int)) :
    OrdMap.lookup lexLt k (build puts) = latest k puts := by
  rw [build, foldl_lookup]
  cases latest k puts <;> rfl

/-! ## `longest` is the longest stored prefix -/

theorem foldl_longest_ge (q : Key) (X : Map) : ∀ b : Key,
    b.length ≤ (X.foldl (fun best e => if isPrefix e.1 q && best.length < e.1.length then e.1 else best) b).length ∧
    ∀ e ∈ X, isPrefix e.1 q = true →
      e.1.length ≤ (X.foldl (fun best e => if isPrefix e.1 q && best.length < e.1.length then e.1 else best) b).length := by
  induction X with
  | nil => intro b; simp
  | cons e X' ih =>
    intro b
    simp only [List.foldl_cons, List.mem_cons]
    by_cases hc : (isPrefix e.1 q && decide (b.length < e.1.length)) = true
    · simp only [hc, if_true]
      obtain ⟨i1, i2⟩ := ih e.1
      simp only [Bool.and_eq_true, decide_eq_true_eq] at hc
      refine ⟨by omega, ?_⟩
      rintro e' (rfl | he') hp
      · exact i1
      · exact i2 e' he' hp
    · simp only [hc]
      obtain ⟨i1, i2⟩ := ih b
      refine ⟨i1, ?_⟩
      rintro e' (rfl | he') hp
      · simp only [hp, Bool.true_and, decide_eq_true_eq, Nat.not_lt] at hc
        simp only [Bool.false_eq_true, if_false]
        omega
      · exact i2 e' he' hp

end GoguVerif.Lemmas.C09
