import GoguVerif.Model.C12
import GoguVerif.Spec.C12
/-!
# C12 — helper lemmas (loop invariants of the models, facts about the spec predicates)
-/
namespace GoguVerif.Lemmas.C12
open GoguVerif.Model.C12 GoguVerif.Spec.C12

variable {α β κ σ : Type}

/-! ## the spec predicate `KeepOK` is met by `List.filter` — and only by it -/

theorem keepOK_filter (p : α → Bool) (s : List α) : KeepOK p s (s.filter p) := by
  refine ⟨List.filter_sublist, ?_, ?_⟩
  · intro x hx; exact (List.mem_filter.mp hx).2
  · exact List.countP_eq_length_filter.symm

/-- `KeepOK` determines its answer: it IS the filter. -/
theorem keepOK_unique (p : α → Bool) (s r : List α) (h : KeepOK p s r) : r = s.filter p := by
  obtain ⟨hsub, hall, hlen⟩ := h
  have h1 : r.Sublist (s.filter p) := by
    have := hsub.filter p
    rwa [List.filter_eq_self.mpr hall] at this
  exact h1.eq_of_length (by rw [hlen, List.countP_eq_length_filter])

theorem keepOK_iff_filter (p : α → Bool) (s r : List α) : KeepOK p s r ↔ r = s.filter p :=
  ⟨keepOK_unique p s r, fun h => h ▸ keepOK_filter p s⟩

/-! ## Filter, Partition, DropWhile: accumulator loops -/

theorem filterLoop_eq (fn : α → Bool) (l res : List α) : filterLoop fn l res = res ++ l.filter fn := by
  induction l generalizing res with
  | nil => simp [filterLoop]
  | cons v rest ih =>
    simp only [filterLoop]
    split <;> simp_all

theorem partitionLoop_eq (fn : α → Bool) (l yes no : List α) :
    partitionLoop fn l (yes, no) = (yes ++ l.filter fn, no ++ l.filter (fun x => !fn x)) := by
  induction l generalizing yes no with
  | nil => simp [partitionLoop]
  | cons v rest ih =>
    simp only [partitionLoop]
    split <;> simp_all

theorem dropWhileLoop_eq (fn : α → Bool) (l res : List α) :
    dropWhileLoop fn l res = res ++ l.filter (fun x => !fn x) := by
  induction l generalizing res with
  | nil => simp [dropWhileLoop]
  | cons v rest ih =>
    simp only [dropWhileLoop]
    split <;> simp_all

/-! ## Reject: in-place deletion loop -/

theorem rejectLoop_eq (fn : α → Bool) (slice : List α) (i : Nat) (hi : i ≤ slice.length) :
    rejectLoop fn slice i = slice.take i ++ (slice.drop i).filter (fun x => !fn x) := by
  fun_induction rejectLoop fn slice i with
  | case1 slice i h hfn ih =>
    have hlen : i ≤ (List.take i slice ++ List.drop (i + 1) slice).length := by
      simp only [List.length_append, List.length_take, List.length_drop]; omega
    rw [ih hlen]
    have hl : (List.take i slice).length = i := by simp; omega
    have h1 : List.take i (List.take i slice ++ List.drop (i + 1) slice) = List.take i slice := by
      rw [List.take_append_of_le_length (by omega), List.take_of_length_le (by omega)]
    have h2 : List.drop i (List.take i slice ++ List.drop (i + 1) slice) = List.drop (i + 1) slice := by
      rw [List.drop_append_of_le_length (by omega), List.drop_of_length_le (by omega)]
      simp
    rw [h1, h2, List.drop_eq_getElem_cons h, List.filter_cons]
    simp [hfn]
  | case2 slice i h hfn ih =>
    rw [ih (by omega), List.drop_eq_getElem_cons h, List.filter_cons, List.take_add_one,
      List.getElem?_eq_getElem h]
    simp only [hfn, Bool.not_false, if_true, Option.toList_some, List.append_assoc, List.singleton_append]
  | case3 slice i h =>
    have : i = slice.length := by omega
    subst this; simp

/-! ## DropRightWhile: countdown loop -/

theorem dropRightWhileLoop_eq (fn : α → Bool) (slice : List α) (k : Nat) (res : List α)
    (hk : k ≤ slice.length) :
    dropRightWhileLoop fn slice k res = .ok (res ++ (slice.take k).reverse.filter (fun x => !fn x)) := by
  induction k generalizing res with
  | zero => simp [dropRightWhileLoop]
  | succ i ih =>
    have hi : i < slice.length := by omega
    simp only [dropRightWhileLoop, List.getElem?_eq_getElem hi]
    have ht : (List.take (i + 1) slice).reverse = slice[i] :: (List.take i slice).reverse := by
      rw [List.take_add_one, List.getElem?_eq_getElem hi]; simp
    rw [ht, List.filter_cons]
    split <;> rename_i hfn
    · rw [ih _ (by omega)]; simp
    · rw [ih _ (by omega)]

/-! ## Merge, Drop -/

theorem mergeLoop_eq (ps : List (List α)) (merged : List α) : mergeLoop ps merged = merged ++ ps.flatten := by
  induction ps generalizing merged with
  | nil => simp [mergeLoop]
  | cons p rest ih => simp [mergeLoop, ih]

theorem sliceOf_ok (s : List α) (lo hi : Nat) (h1 : lo ≤ hi) (h2 : hi ≤ s.length) :
    sliceOf s (lo : Int) (hi : Int) = .ok ((s.take hi).drop lo) := by
  unfold sliceOf
  rw [if_pos (by omega)]
  simp

/-! ## iterators -/

theorem mapLoop_eq (fn : α → σ → β × σ) (l : List α) (done todo : List β) (st : σ)
    (h : l.length ≤ todo.length) :
    mapLoop fn l done.length (done ++ todo) st =
      .ok (done ++ (callsInOrder fn l st).1 ++ todo.drop l.length, (callsInOrder fn l st).2) := by
  induction l generalizing done todo st with
  | nil => simp [mapLoop, callsInOrder]
  | cons v rest ih =>
    cases todo with
    | nil => simp at h
    | cons t todo' =>
      simp only [mapLoop, callsInOrder]
      rw [if_pos (by simp)]
      have hset : (done ++ t :: todo').set done.length (fn v st).1 = (done ++ [(fn v st).1]) ++ todo' := by
        simp
      have hlen : done.length + 1 = (done ++ [(fn v st).1]).length := by simp
      rw [hset, hlen, ih _ _ _ (by simpa using h)]
      simp

theorem forEach_eq (fn : α → σ → σ) (l : List α) (st : σ) :
    forEach fn l st = l.foldl (fun st x => fn x st) st := by
  induction l generalizing st with
  | nil => rfl
  | cons v rest ih => simp [forEach, ih]

theorem forEachRightLoop_eq (fn : α → σ → σ) (slice : List α) (k : Nat) (st : σ) (hk : k ≤ slice.length) :
    forEachRightLoop fn slice k st = .ok ((slice.take k).reverse.foldl (fun st x => fn x st) st) := by
  induction k generalizing st with
  | zero => simp [forEachRightLoop]
  | succ i ih =>
    have hi : i < slice.length := by omega
    simp only [forEachRightLoop, List.getElem?_eq_getElem hi]
    rw [ih _ (by omega)]
    have ht : List.take (i + 1) slice = List.take i slice ++ [slice[i]] := by
      rw [List.take_add_one, List.getElem?_eq_getElem hi]; rfl
    rw [ht]
    simp only [List.reverse_append, List.reverse_cons, List.reverse_nil, List.nil_append,
      List.cons_append, List.foldl_cons]

theorem reduce_eq (fn : α → β → σ → β × σ) (l : List α) (actual : β) (st : σ) :
    reduce fn l actual st = l.foldl (fun p x => fn x p.1 p.2) (actual, st) := by
  induction l generalizing actual st with
  | nil => rfl
  | cons v rest ih => simp [reduce, ih]

theorem callsInOrder_logging (f : α → β) (l log : List α) :
    callsInOrder (fun x (lg : List α) => (f x, lg ++ [x])) l log = (l.map f, log ++ l) := by
  induction l generalizing log with
  | nil => simp [callsInOrder]
  | cons v rest ih => simp [callsInOrder, ih]

/-! ## Flatten -/

mutual
def toSpec : Nested α → Nest α
  | .leaf v => .leaf v
  | .slice v => .slice v
  | .list l => .list (toSpecAll l)
  | .bad => .bad
def toSpecAll : List (Nested α) → List (Nest α)
  | [] => []
  | n :: r => toSpec n :: toSpecAll r
end

mutual
theorem baseFlatten_eq : (n : Nested α) → (acc : List α) →
    baseFlatten acc n = if (toSpec n).wellFormed then some (acc ++ (toSpec n).leaves) else none
  | .leaf v, acc => by simp [baseFlatten, toSpec, Nest.wellFormed, Nest.leaves]
  | .slice v, acc => by simp [baseFlatten, toSpec, Nest.wellFormed, Nest.leaves]
  | .bad, acc => by simp [baseFlatten, toSpec, Nest.wellFormed]
  | .list l, acc => by
    simp only [baseFlatten, toSpec, Nest.wellFormed, Nest.leaves]
    exact flattenRange_eq l acc
theorem flattenRange_eq : (l : List (Nested α)) → (acc : List α) →
    flattenRange acc l = if wellFormedAll (toSpecAll l) then some (acc ++ leavesAll (toSpecAll l)) else none
  | [], acc => by simp [flattenRange, toSpecAll, wellFormedAll, leavesAll]
  | n :: r, acc => by
    simp only [flattenRange, toSpecAll, wellFormedAll, leavesAll]
    rw [baseFlatten_eq n acc]
    cases h : (toSpec n).wellFormed with
    | false => simp
    | true => simp [flattenRange_eq r]
end

/-! ## swaps: Reverse, Shuffle -/

theorem swapAt_ok (d : List α) (i j : Nat) (hi : i < d.length) (hj : j < d.length) :
    swapAt d i j = .ok ((d.set i d[j]).set j d[i]) := by
  simp [swapAt, List.getElem?_eq_getElem hi, List.getElem?_eq_getElem hj]

theorem swapAt_getElem? (d : List α) (i j k : Nat) (hi : i < d.length) (hj : j < d.length) :
    ((d.set i d[j]).set j d[i])[k]? = if k = j then d[i]? else if k = i then d[j]? else d[k]? := by
  rw [List.getElem?_set, List.getElem?_set]
  simp only [List.length_set]
  by_cases h1 : j = k
  · subst h1; simp [hj, hi]
  · by_cases h2 : i = k
    · subst h2
      have : ¬ i = j := fun h => h1 h.symm
      simp [h1, this, hi, hj]
    · have h1' : ¬ k = j := fun h => h1 h.symm
      have h2' : ¬ k = i := fun h => h2 h.symm
      simp [h1, h2, h1', h2']

/-- The two-counter loop reverses the window `[i, j1)` and leaves the rest alone. -/
theorem reverseLoop_spec (sl : List α) (i j1 : Nat) (h : j1 ≤ sl.length) (hij : i ≤ j1) :
    ∃ r, reverseLoop sl i j1 = .ok r ∧ r.length = sl.length ∧
      ∀ idx, r[idx]? = if i ≤ idx ∧ idx < j1 then sl[i + j1 - 1 - idx]? else sl[idx]? := by
  fun_induction reverseLoop sl i j1 with
  | case1 sl i j1 hlt hp =>
    rw [swapAt_ok sl i (j1 - 1) (by omega) (by omega)] at hp
    cases hp
  | case2 sl i j1 hlt sl' hs ih =>
    rw [swapAt_ok sl i (j1 - 1) (by omega) (by omega)] at hs
    injection hs with hs
    subst hs
    obtain ⟨r, hr, hlen, hget⟩ := ih (by simp; omega) (by omega)
    refine ⟨r, hr, by simpa using hlen, fun idx => ?_⟩
    rw [hget idx]
    simp only [swapAt_getElem? sl i (j1 - 1) _ (show i < sl.length by omega) (show j1 - 1 < sl.length by omega)]
    by_cases c1 : i + 1 ≤ idx ∧ idx < j1 - 1
    · have e1 : ¬ (i + 1 + (j1 - 1) - 1 - idx = j1 - 1) := by omega
      have e2 : ¬ (i + 1 + (j1 - 1) - 1 - idx = i) := by omega
      have e3 : i ≤ idx ∧ idx < j1 := by omega
      simp only [if_pos c1, if_neg e1, if_neg e2, if_pos e3]
      congr 1; omega
    · by_cases c2 : idx = j1 - 1
      · have e3 : i ≤ idx ∧ idx < j1 := by omega
        simp only [if_neg c1, if_pos c2, if_pos e3]
        congr 1; omega
      · by_cases c3 : idx = i
        · have e3 : i ≤ idx ∧ idx < j1 := by omega
          simp only [if_neg c1, if_neg c2, if_pos c3, if_pos e3]
          congr 1; omega
        · have e3 : ¬ (i ≤ idx ∧ idx < j1) := by omega
          simp only [if_neg c1, if_neg c2, if_neg c3, if_neg e3]
  | case3 sl i j1 hge =>
    refine ⟨sl, rfl, rfl, fun idx => ?_⟩
    split
    · congr 1; omega
    · rfl

theorem reversed_iff (s r : List α) : Reversed s r ↔ r = s.reverse := by
  constructor
  · rintro ⟨hlen, hget⟩
    apply List.ext_getElem?
    intro i
    by_cases hi : i < s.length
    · rw [hget i hi, List.getElem?_reverse hi]
    · rw [List.getElem?_eq_none (by omega), List.getElem?_eq_none (by simp; omega)]
  · rintro rfl
    refine ⟨by simp, fun i hi => ?_⟩
    rw [List.getElem?_reverse hi]

theorem shuffleLoop_spec (rnd : Nat → Nat) (k c : Nat) (dst : List α) (hk : k ≤ dst.length) :
    ∃ r, shuffleLoop rnd k c dst = .ok r ∧ r.Perm dst := by
  induction k generalizing c dst with
  | zero => exact ⟨dst, rfl, List.Perm.refl _⟩
  | succ i ih =>
    have hj : rnd c % (i + 1) < dst.length := by
      have := Nat.mod_lt (rnd c) (show i + 1 > 0 by omega); omega
    simp only [shuffleLoop, swapAt_ok dst i _ (show i < dst.length by omega) hj]
    obtain ⟨r, hr, hp⟩ := ih (c + 1) _ (show i ≤ ((dst.set i dst[rnd c % (i + 1)]).set (rnd c % (i + 1)) dst[i]).length by simp; omega)
    exact ⟨r, hr, hp.trans (List.set_set_perm _ _)⟩

/-! ## Chunk -/

theorem mult_unique (size i t : Nat) (hi : i % size = 0) (ht : t % size = 0) (h1 : i ≤ t)
    (h2 : t < i + size) : t = i := by
  have h3 : (t - i) % size = 0 := Nat.sub_mod_eq_zero_of_mod_eq (by rw [hi, ht])
  have h4 : (t - i) % size = t - i := Nat.mod_eq_of_lt (by omega)
  omega

theorem not_mult_between (size i k : Nat) (hi : i % size = 0) (h1 : i < k) (h2 : k < i + size) :
    k % size ≠ 0 := by
  intro hk
  have := mult_unique size i k hi hk (by omega) h2
  omega

/-- loop invariant of `Chunk`: `t` elements are covered by the chunks cut so far -/
structure ChunkInv (slice : List α) (size i : Nat) (result : List (List α)) (t : Nat) : Prop where
  hflat : result.flatten = slice.take t
  ht : t ≤ slice.length
  hne : ∀ c ∈ result, c ≠ []
  hle : ∀ c ∈ result, c.length ≤ size
  hfull : t < slice.length → ∀ c ∈ result, c.length = size
  hlast : ∀ c ∈ result.dropLast, c.length = size
  hit : i ≤ t
  hnext : t < slice.length → t % size = 0 ∧ t < i + size
  hdone : t = slice.length → ∀ k, i ≤ k → k < slice.length → k % size ≠ 0

theorem take_append_window (s : List α) (i hi : Nat) (h : i ≤ hi) :
    s.take i ++ (s.take hi).drop i = s.take hi := by
  have : s.take i = (s.take hi).take i := by rw [List.take_take]; congr 1; omega
  rw [this, List.take_append_drop]

/-- cutting one more chunk `slice[i:hi]` at a multiple `i` of `size` keeps the invariant -/
theorem ChunkInv.step_cut {slice : List α} {size i : Nat} {result : List (List α)}
    (inv : ChunkInv slice size i result i) (hsz : 0 < size) (hi : i < slice.length) (hmod : i % size = 0)
    (hi' : Nat) (hhi : hi' = min (i + size) slice.length) :
    ChunkInv slice size (i + 1) (result ++ [(slice.take hi').drop i]) hi' := by
  have hlen : ((slice.take hi').drop i).length = hi' - i := by
    simp only [List.length_drop, List.length_take]; omega
  refine ⟨?_, by omega, ?_, ?_, ?_, ?_, by omega, ?_, ?_⟩
  · rw [List.flatten_append, inv.hflat]
    simp only [List.flatten_cons, List.flatten_nil, List.append_nil]
    exact take_append_window slice i hi' (by omega)
  · intro c hc
    rcases List.mem_append.mp hc with h | h
    · exact inv.hne c h
    · simp only [List.mem_singleton] at h
      subst h; intro hnil
      have := congrArg List.length hnil
      rw [hlen] at this; simp at this; omega
  · intro c hc
    rcases List.mem_append.mp hc with h | h
    · exact inv.hle c h
    · simp only [List.mem_singleton] at h
      subst h; rw [hlen]; omega
  · intro hlt c hc
    rcases List.mem_append.mp hc with h | h
    · exact inv.hfull hi c h
    · simp only [List.mem_singleton] at h
      subst h; rw [hlen]; omega
  · rw [List.dropLast_concat]
    exact inv.hfull hi
  · intro hlt
    have : hi' = i + size := by omega
    refine ⟨?_, by omega⟩
    rw [this, Nat.add_mod, hmod]; simp
  · intro heq k hk1 hk2
    exact not_mult_between size i k hmod (by omega) (by omega)

/-- passing an index that is not a multiple of `size` keeps the invariant -/
theorem ChunkInv.step_skip {slice : List α} {size i t : Nat} {result : List (List α)}
    (inv : ChunkInv slice size i result t) (hi : i < slice.length) (hmod : i % size ≠ 0) :
    ChunkInv slice size (i + 1) result t := by
  refine ⟨inv.hflat, inv.ht, inv.hne, inv.hle, inv.hfull, inv.hlast, ?_, ?_, ?_⟩
  · by_cases h : t < slice.length
    · have := inv.hnext h
      have hne : i ≠ t := fun e => hmod (e ▸ this.1)
      have := inv.hit; omega
    · have := inv.ht; omega
  · intro h
    have := inv.hnext h
    exact ⟨this.1, by omega⟩
  · intro h k hk1 hk2
    exact inv.hdone h k (by omega) hk2

/-- at a multiple of `size` inside the slice, everything before it — and nothing more — is covered -/
theorem ChunkInv.at_mult {slice : List α} {size i t : Nat} {result : List (List α)}
    (inv : ChunkInv slice size i result t) (hi : i < slice.length) (hmod : i % size = 0) : t = i := by
  by_cases h : t < slice.length
  · have := inv.hnext h
    exact mult_unique size i t hmod this.1 inv.hit this.2
  · have ht := inv.ht
    exact absurd hmod (inv.hdone (by omega) i (Nat.le_refl _) hi)

theorem chunkLoop_spec (slice : List α) (size : Nat) (hsz : 0 < size) (n i : Nat)
    (result : List (List α)) (t : Nat) (hn : i + n = slice.length)
    (inv : ChunkInv slice size i result t) :
    ∃ r, chunkLoop slice size n i result = .ok r ∧ ChunkOK slice size r := by
  induction n generalizing i result t with
  | zero =>
    refine ⟨result, rfl, ?_, inv.hne, inv.hlast, inv.hle⟩
    have : t = slice.length := by have := inv.hit; have := inv.ht; omega
    rw [inv.hflat, this, List.take_length]
  | succ n ih =>
    have hi : i < slice.length := by omega
    simp only [chunkLoop]
    by_cases hmod : i % size = 0
    · rw [if_pos hmod]
      have ht := inv.at_mult hi hmod
      have inv : ChunkInv slice size i result i := ht ▸ inv
      by_cases hlt : i + size < slice.length
      · rw [if_pos hlt]
        have hs : sliceOf slice (i : Int) ((i : Int) + (size : Int)) = .ok ((slice.take (i + size)).drop i) := by
          rw [← Int.natCast_add]; exact sliceOf_ok slice i (i + size) (by omega) (by omega)
        rw [hs]
        exact ih (i + 1) _ (i + size) (by omega) (inv.step_cut hsz hi hmod (i + size) (by omega))
      · rw [if_neg hlt]
        rw [sliceOf_ok slice i slice.length (by omega) (Nat.le_refl _)]
        exact ih (i + 1) _ slice.length (by omega) (inv.step_cut hsz hi hmod slice.length (by omega))
    · rw [if_neg hmod]
      exact ih (i + 1) result t (by omega) (inv.step_skip hi hmod)

theorem chunkInv_init (slice : List α) (size : Nat) (hsz : 0 < size) : ChunkInv slice size 0 [] 0 := by
  refine ⟨by simp, Nat.zero_le _, by simp, by simp, by simp, by simp, Nat.le_refl _, ?_, ?_⟩
  · intro h; exact ⟨Nat.zero_mod _, by omega⟩
  · intro h k _ hk; omega

/-! ## GroupBy -/

theorem mapPure_eq [Inhabited β] (s : List α) (f : α → β) : mapPure s f = .ok (s.map f) := by
  unfold mapPure map
  have h := mapLoop_eq (fun x (_ : Unit) => (f x, ())) s [] (List.replicate s.length default) () (by simp)
  have hc : ∀ (l : List α), callsInOrder (fun x (_ : Unit) => (f x, ())) l () = (l.map f, ()) := by
    intro l; induction l with
    | nil => rfl
    | cons v r ih => simp [callsInOrder, ih]
  simp only [List.length_nil, List.nil_append] at h
  rw [h, hc]; simp

/-- one iteration of `mapByIndex`: make the group if it is missing, append to it -/
def groupUpd [BEq κ] (g : List (κ × List α)) (v : κ) (x : α) : List (κ × List α) :=
  (if g.any (fun e => e.1 == v) then g else g ++ [(v, [])]).map
    fun e => if e.1 == v then (e.1, e.2 ++ [x]) else e

theorem groupOK_step [DecidableEq κ] (key : α → κ) (P : List α) (g : List (κ × List α)) (x : α)
    (h : GroupOK key P g) : GroupOK key (P ++ [x]) (groupUpd g (key x) x) := by
  obtain ⟨hnd, hgrp, hcov⟩ := h
  -- the list after the `make` step
  let g1 := if g.any (fun e => e.1 == key x) then g else g ++ [(key x, [])]
  have hcase : (g.any (fun e => e.1 == key x) = true ∧ g1 = g) ∨
      (¬ g.any (fun e => e.1 == key x) = true ∧ g1 = g ++ [(key x, [])]) := by
    by_cases hany : g.any (fun e => e.1 == key x) = true
    · left; exact ⟨hany, by simp [g1, hany]⟩
    · right; exact ⟨hany, by simp [g1, hany]⟩
  have hg1 : ∀ e ∈ g1, e ∈ g ∨ (e = (key x, []) ∧ ∀ e' ∈ g, e'.1 ≠ key x) := by
    intro e he
    rcases hcase with ⟨hany, e1⟩ | ⟨hany, e1⟩
    · left; rwa [e1] at he
    · rw [e1] at he
      rcases List.mem_append.mp he with h | h
      · left; exact h
      · right
        refine ⟨by simpa using h, fun e' he' hk => hany ?_⟩
        exact List.any_eq_true.mpr ⟨e', he', by simpa using hk⟩
  have hsub : ∀ e ∈ g, e ∈ g1 := by
    intro e he
    rcases hcase with ⟨hany, e1⟩ | ⟨hany, e1⟩
    · rwa [e1]
    · rw [e1]; exact List.mem_append_left _ he
  have hhas : ∃ e ∈ g1, e.1 = key x := by
    rcases hcase with ⟨hany, e1⟩ | ⟨hany, e1⟩
    · obtain ⟨e, he, hk⟩ := List.any_eq_true.mp hany
      exact ⟨e, by rwa [e1], by simpa using hk⟩
    · exact ⟨(key x, []), by rw [e1]; simp, rfl⟩
  have hnd1 : (g1.map (·.1)).Nodup := by
    rcases hcase with ⟨hany, e1⟩ | ⟨hany, e1⟩
    · rwa [e1]
    · rw [e1, List.map_append, List.nodup_append]
      refine ⟨hnd, by simp, ?_⟩
      intro a ha b hb
      simp only [List.map_cons, List.map_nil, List.mem_singleton] at hb
      subst hb
      obtain ⟨e, he, rfl⟩ := List.mem_map.mp ha
      intro hk
      exact hany (List.any_eq_true.mpr ⟨e, he, by simpa using hk⟩)
  have hkeys : (groupUpd g (key x) x).map (·.1) = g1.map (·.1) := by
    show (g1.map _).map _ = _
    rw [List.map_map]
    apply List.map_congr_left
    intro e _
    simp only [Function.comp]
    split <;> rfl
  have hmem : ∀ e' ∈ groupUpd g (key x) x, ∃ e ∈ g1,
      e' = if e.1 == key x then (e.1, e.2 ++ [x]) else e := by
    intro e' he'
    obtain ⟨e, he, rfl⟩ := List.mem_map.mp he'
    exact ⟨e, he, rfl⟩
  refine ⟨hkeys ▸ hnd1, ?_, ?_⟩
  · intro e' he'
    obtain ⟨e, he, rfl⟩ := hmem e' he'
    by_cases hk : e.1 = key x
    · have hb : (e.1 == key x) = true := by simpa using hk
      rw [if_pos hb]
      refine ⟨by simp, ?_⟩
      rw [keepOK_iff_filter]
      simp only [List.filter_append, List.filter_cons, List.filter_nil]
      rw [if_pos (by simpa using hk.symm)]
      congr 1
      rcases hg1 e he with h | ⟨h, hno⟩
      · exact (keepOK_iff_filter _ _ _).mp (hgrp e h).2
      · subst h
        symm
        rw [List.filter_eq_nil_iff]
        intro y hy
        obtain ⟨e'', he'', hk''⟩ := hcov y hy
        intro hyk
        exact hno e'' he'' (by rw [hk'']; simpa using hyk)
    · have hb : ¬ (e.1 == key x) = true := by simpa using hk
      rw [if_neg hb]
      rcases hg1 e he with h | ⟨h, _⟩
      · refine ⟨(hgrp e h).1, ?_⟩
        rw [keepOK_iff_filter]
        simp only [List.filter_append, List.filter_cons, List.filter_nil]
        rw [if_neg (by simpa using fun h' : key x = e.1 => hk h'.symm)]
        simpa using (keepOK_iff_filter _ _ _).mp (hgrp e h).2
      · exact absurd (by rw [h]) hk
  · intro y hy
    have hfind : ∀ e ∈ g1, ∃ e' ∈ groupUpd g (key x) x, e'.1 = e.1 := by
      intro e he
      refine ⟨_, List.mem_map.mpr ⟨e, he, rfl⟩, ?_⟩
      split <;> rfl
    rcases List.mem_append.mp hy with h | h
    · obtain ⟨e, he, hk⟩ := hcov y h
      obtain ⟨e', he', hk'⟩ := hfind e (hsub e he)
      exact ⟨e', he', hk'.trans hk⟩
    · simp only [List.mem_singleton] at h
      subst h
      obtain ⟨e, he, hk⟩ := hhas
      obtain ⟨e', he', hk'⟩ := hfind e he
      exact ⟨e', he', hk'.trans hk⟩

theorem mapByIndexLoop_spec [DecidableEq κ] (fn : α → κ) (orig : List α) (keys : List κ) (idx : Nat)
    (result : List (κ × List α)) (hk : keys = (orig.drop idx).map fn)
    (inv : GroupOK fn (orig.take idx) result) :
    ∃ g, mapByIndexLoop orig keys idx result = .ok g ∧ GroupOK fn orig g := by
  induction keys generalizing idx result with
  | nil =>
    refine ⟨result, rfl, ?_⟩
    have : orig.drop idx = [] := by simpa using hk.symm
    have hlen : orig.length ≤ idx := by simpa using this
    rwa [List.take_of_length_le hlen] at inv
  | cons v rest ih =>
    have hidx : idx < orig.length := by
      apply Classical.byContradiction; intro hge
      rw [List.drop_of_length_le (by omega)] at hk
      simp at hk
    rw [List.drop_eq_getElem_cons hidx] at hk
    simp only [List.map_cons, List.cons.injEq] at hk
    obtain ⟨hv, hrest⟩ := hk
    simp only [mapByIndexLoop, List.getElem?_eq_getElem hidx]
    have hstep := groupOK_step fn (orig.take idx) result orig[idx] inv
    have ht : orig.take idx ++ [orig[idx]] = orig.take (idx + 1) := by
      rw [List.take_add_one, List.getElem?_eq_getElem hidx]; rfl
    rw [ht] at hstep
    subst hv
    exact ih (idx + 1) _ hrest hstep

end GoguVerif.Lemmas.C12
